// C15 harness: the hash-keyed session table.  Histories of registrations, traffic (single
// packets, same-device batches, multi-device batches, tag lists), sends, lookups and removals
// run on a real Server + Listener (no socket: Listener.talk / talkSub are called directly, the
// real Server.listen event loop runs) and on a real Proxy; every step's answer, delivered
// events and table are emitted for the Gallina model (Model/Table.v) and checked against the
// oracle "a packet is handled only in the session whose ID equals the packet's device".
package main

import (
	"bytes"
	"encoding/hex"
	"fmt"
	"io"
	"sort"
	"strconv"
	"strings"
	"sync"
	"time"

	"github.com/iDigitalFlame/xmt/c2"
	"github.com/iDigitalFlame/xmt/c2/task"
	"github.com/iDigitalFlame/xmt/com"
	"github.com/iDigitalFlame/xmt/com/limits"
	"github.com/iDigitalFlame/xmt/data"
	"github.com/iDigitalFlame/xmt/device"
	"github.com/iDigitalFlame/xmt/device/local"

	"verifharness/vh"
)

type ID = device.ID

var (
	out      *vh.Out
	rng      *vh.Rand
	keys     data.KeyPair
	machine  device.Machine
	failSeen = map[string]int{}
)

// fail records an oracle failure, at most three per key (vh keeps only 200 in all).
func fail(what, key string, c interface{}) {
	failSeen[key]++
	if failSeen[key] <= 3 {
		out.Fail(what, key, c)
	}
}

// ---------------------------------------------------------------- generated values

const (
	bEmpty = iota
	bHello
	bBadHello
	bData
	bKey
)

type leaf struct {
	dev  ID
	pid  uint8
	job  uint16
	body int
	k    byte
}

const (
	kSingle = iota
	kBatch
	kMultiDev
)

type pkt struct {
	kind int
	top  leaf // kSingle
	dev  ID   // containers
	job  uint16
	subs []leaf
	tags []uint32
}

func (p *pkt) device() ID {
	if p.kind == kSingle {
		return p.top.dev
	}
	return p.dev
}

type outLeaf struct {
	dev ID
	pid uint8
	job uint16
}

func (l leaf) build() *com.Packet {
	var n *com.Packet
	switch l.body {
	case bHello:
		n = c2.VerifC15Hello(l.dev, l.job, machine)
		n.ID = l.pid
	default:
		n = &com.Packet{ID: l.pid, Job: l.job, Device: l.dev}
	}
	switch l.body {
	case bBadHello:
		n.WriteUint8(1)
	case bData:
		n.Write([]byte{1, 2, 3})
	case bKey:
		b := make([]byte, 133)
		b[0], b[1] = 0xEE, l.k
		n.Write(b)
		n.Flags |= com.FlagCrypt
	}
	return n
}

func (p *pkt) build() *com.Packet {
	if p.kind == kSingle {
		n := p.top.build()
		n.Tags = append([]uint32(nil), p.tags...)
		return n
	}
	n := &com.Packet{Job: p.job, Device: p.dev, Flags: com.FlagMulti}
	if p.kind == kMultiDev {
		n.Flags |= com.FlagMultiDevice
	}
	for _, s := range p.subs {
		s.build().MarshalStream(n)
	}
	n.Flags.SetLen(uint16(len(p.subs)))
	n.Tags = append([]uint32(nil), p.tags...)
	return n
}

// flatten lists the leaf packets of an answer (containers are unpacked).
func flatten(p *com.Packet) []outLeaf {
	if p == nil {
		return nil
	}
	if p.Flags&(com.FlagMulti|com.FlagMultiDevice) != 0 && p.Flags.Len() > 0 {
		var o []outLeaf
		for i, n := 0, int(p.Flags.Len()); i < n; i++ {
			var v com.Packet
			if err := v.UnmarshalStream(p); err != nil {
				break
			}
			o = append(o, flatten(&v)...)
		}
		return o
	}
	return []outLeaf{{p.Device, p.ID, p.Job}}
}

func errClass(err error) int {
	switch {
	case err == io.ErrClosedPipe || err == io.ErrShortBuffer:
		return 1
	case err == c2.ErrMalformedPacket:
		return 2
	case strings.Contains(err.Error(), "does not match our own device ID"):
		return 3
	case err == c2.ErrInvalidPacketCount:
		return 4
	case err == com.ErrMalformedTag:
		return 5
	}
	return 9
}

// ---------------------------------------------------------------- Coq printing

type namer struct {
	ids   []ID
	names map[ID]string
}

func newNamer(ids []ID) *namer {
	n := &namer{ids: ids, names: map[ID]string{}}
	for i, d := range ids {
		if _, ok := n.names[d]; !ok {
			n.names[d] = "d" + strconv.Itoa(i)
		}
	}
	return n
}
func (n *namer) id(d ID) string {
	if s, ok := n.names[d]; ok {
		return s
	}
	return vh.Bytes(d[:])
}
func (n *namer) oid(d *ID) string {
	if d == nil {
		return "None"
	}
	return "(Some " + n.id(*d) + ")"
}
func (n *namer) wrap(term string) string {
	var sb strings.Builder
	sb.WriteByte('(')
	done := map[string]bool{}
	for _, d := range n.ids {
		nm := n.names[d]
		if done[nm] {
			continue
		}
		done[nm] = true
		sb.WriteString("let " + nm + " := " + vh.Bytes(d[:]) + " in ")
	}
	sb.WriteString(term)
	sb.WriteByte(')')
	return sb.String()
}
func (n *namer) leaf(l leaf) string {
	b := [...]string{"BEmpty", "BHello", "BBadHello", "BData"}
	var bs string
	if l.body == bKey {
		bs = fmt.Sprintf("(BKey %d)", l.k)
	} else {
		bs = b[l.body]
	}
	return fmt.Sprintf("(Leaf %s %d %d %s)", n.id(l.dev), l.pid, l.job, bs)
}
func zl32(t []uint32) string {
	s := make([]string, len(t))
	for i, v := range t {
		s[i] = strconv.FormatUint(uint64(v), 10)
	}
	return vh.List(s)
}
func (n *namer) pkt(p *pkt) string {
	if p.kind == kSingle {
		return fmt.Sprintf("(Single %s %s)", n.leaf(p.top), zl32(p.tags))
	}
	s := make([]string, len(p.subs))
	for i, l := range p.subs {
		s[i] = n.leaf(l)
	}
	c := "Batch"
	if p.kind == kMultiDev {
		c = "MultiDev"
	}
	return fmt.Sprintf("(%s %s %d %s %s)", c, n.id(p.dev), p.job, vh.List(s), zl32(p.tags))
}
func (n *namer) outs(l []outLeaf) string {
	s := make([]string, len(l))
	for i, o := range l {
		s[i] = fmt.Sprintf("(%s,%d,%d)", n.id(o.dev), o.pid, o.job)
	}
	return vh.List(s)
}

// ---------------------------------------------------------------- descriptions (JSON, for replays)

func hx(d ID) string { return hex.EncodeToString(d[:]) }
func hexID(s string) ID {
	var d ID
	b, err := hex.DecodeString(s)
	if err != nil || len(b) != len(d) {
		panic("bad ID constant " + s)
	}
	copy(d[:], b)
	return d
}
func (l leaf) desc() map[string]interface{} {
	return map[string]interface{}{"dev": hx(l.dev), "id": int(l.pid), "job": int(l.job), "body": [...]string{"empty", "hello", "badhello", "data", "key"}[l.body], "k": int(l.k)}
}
func (p *pkt) desc() map[string]interface{} {
	t := make([]int64, len(p.tags))
	for i, v := range p.tags {
		t[i] = int64(v)
	}
	if p.kind == kSingle {
		return map[string]interface{}{"kind": "single", "packet": p.top.desc(), "tags": t}
	}
	s := make([]interface{}, len(p.subs))
	for i, l := range p.subs {
		s[i] = l.desc()
	}
	return map[string]interface{}{"kind": [...]string{"", "batch(FlagMulti)", "multi-device batch"}[p.kind], "dev": hx(p.dev), "job": int(p.job), "subs": s, "tags": t}
}

// ---------------------------------------------------------------- operations

const (
	oTalk = iota
	oTalkSub
	oSend
	oLookup
	oRemove
	oSessions
)

type op struct {
	kind int
	p    *pkt // oTalk
	n    leaf // oTalkSub
	o    bool
	d    ID // oSend, oLookup, oRemove
	pid  uint8
	job  uint16
}

func (o *op) desc() map[string]interface{} {
	switch o.kind {
	case oTalk:
		return map[string]interface{}{"op": "Listener.talk", "packet": o.p.desc()}
	case oTalkSub:
		return map[string]interface{}{"op": "Listener.talkSub", "packet": o.n.desc(), "o": o.o}
	case oSend:
		return map[string]interface{}{"op": "Server.Session(dev).Send", "dev": hx(o.d), "id": int(o.pid), "job": int(o.job)}
	case oLookup:
		return map[string]interface{}{"op": "Server.Session", "dev": hx(o.d)}
	case oRemove:
		return map[string]interface{}{"op": "Server.Remove(dev,false)", "dev": hx(o.d)}
	}
	return map[string]interface{}{"op": "Server.Sessions"}
}
func (n *namer) op(o *op) string {
	switch o.kind {
	case oTalk:
		return "OTalk " + n.pkt(o.p)
	case oTalkSub:
		return fmt.Sprintf("OTalkSub %s %s", n.leaf(o.n), vh.B(o.o))
	case oSend:
		return fmt.Sprintf("OSend %s %d %d", n.id(o.d), o.pid, o.job)
	case oLookup:
		return "OLookup " + n.id(o.d)
	case oRemove:
		return "ORemove " + n.id(o.d)
	}
	return "OSessions"
}

type event struct {
	kind     int // 0 new, 1 recv, 2 drop
	sid, dev ID
	job      uint16
}

// ---------------------------------------------------------------- a history on a server

type histStats struct {
	maxSessions   int
	collisionUsed bool
	dispatched    int
}

func addKeyed(m map[ID]map[byte]bool, d ID, k byte) {
	if m[d] == nil {
		m[d] = map[byte]bool{}
	}
	m[d][k] = true
}
func idIn(d ID, l []ID) bool {
	for _, x := range l {
		if x == d {
			return true
		}
	}
	return false
}
func u32In(v uint32, l []uint32) bool {
	for _, x := range l {
		if x == v {
			return true
		}
	}
	return false
}

func runHistory(ids []ID, ops []*op, class string) {
	srv, l := c2.VerifC15NewServer(keys)
	defer srv.Close()
	var (
		mu  sync.Mutex
		evs []event
	)
	srv.New = func(s *c2.Session) {
		mu.Lock()
		evs = append(evs, event{kind: 0, sid: s.ID})
		mu.Unlock()
		s.Receive = func(s *c2.Session, n *com.Packet) {
			mu.Lock()
			evs = append(evs, event{kind: 1, sid: s.ID, dev: n.Device, job: n.Job})
			mu.Unlock()
		}
	}
	srv.Shutdown = func(s *c2.Session) {
		mu.Lock()
		evs = append(evs, event{kind: 2, sid: s.ID})
		mu.Unlock()
	}
	nm := newNamer(ids)
	var (
		opTerms, obsTerms []string
		descOps           []interface{}
		st                histStats
		prev              = map[ID]c2.VerifC15Entry{} // table before the step, by session ID
	)
	caseDesc := func() map[string]interface{} {
		h := make([]string, len(ids))
		for i, d := range ids {
			h[i] = hx(d)
		}
		return map[string]interface{}{"ids": h, "history": append([]interface{}(nil), descOps...), "failing_step": len(descOps)}
	}
	for k, o := range ops {
		a := strconv.Itoa(k + 1)
		descOps = append(descOps, o.desc())
		var (
			ans    string
			leafs  []outLeaf // outbound packets handed to the connection
			named  []ID      // devices the incoming packet(s) name
			tags   []uint32
			keyed  = map[ID]map[byte]bool{} // device -> key tags carried by the packets naming it in this step
			top    ID
			isTalk bool
			answer = "" // "register", "error", "reply", ...
		)
		func() {
			defer func() {
				if x := recover(); x != nil {
					ans = "(AErr 99)"
					fail(fmt.Sprintf("panic in step %d: %v", k+1, x), "panic", caseDesc())
				}
			}()
			switch o.kind {
			case oTalk:
				isTalk = true
				top = o.p.device()
				named = append(named, top)
				tags = o.p.tags
				if o.p.kind == kSingle {
					if o.p.top.body == bKey {
						addKeyed(keyed, top, o.p.top.k)
					}
				} else {
					for _, s := range o.p.subs {
						named = append(named, s.dev)
						if s.body == bKey {
							addKeyed(keyed, s.dev, s.k)
						}
					}
				}
				next, host, ok, err := c2.VerifC15Talk(l, a, o.p.build())
				switch {
				case err != nil:
					ans, answer = fmt.Sprintf("(AErr %d)", errClass(err)), "error"
				case next != nil && next.ID == c2.SvRegister && host == nil:
					ans, answer = "(ARegister "+nm.id(next.Device)+")", "register"
					if next.Device != top {
						fail("the re-registration request names another device than the packet", "register-other-device", caseDesc())
					}
				default:
					leafs = flatten(next)
					ans, answer = fmt.Sprintf("(AReply %s %s)", vh.B(ok), nm.outs(leafs)), "reply"
				}
			case oTalkSub:
				top = o.n.dev
				named = append(named, top)
				if o.n.body == bKey {
					addKeyed(keyed, top, o.n.k)
				}
				kk, q, r, err := c2.VerifC15TalkSub(l, a, o.n.build(), o.o)
				switch {
				case err != nil:
					ans, answer = fmt.Sprintf("(AErr %d)", errClass(err)), "error"
				case kk == nil && r != nil && r.ID == c2.SvRegister:
					ans, answer = fmt.Sprintf("(ASub None %d (Some %s) [])", q, nm.id(r.Device)), "register"
				default:
					leafs = flatten(r)
					ans, answer = fmt.Sprintf("(ASub %s %d None %s)", nm.oid(kk), q, nm.outs(leafs)), "reply"
					if kk != nil && *kk != top {
						fail("Listener.talkSub answered with the session of another device (equal 32-bit hash)", "talksub-hash-collision", caseDesc())
					}
				}
			case oSend:
				s := srv.Session(o.d)
				if s == nil {
					ans = "(AFound None)"
				} else {
					i := s.ID
					ans = "(AFound " + nm.oid(&i) + ")"
					s.Send(&com.Packet{ID: o.pid, Job: o.job, Device: o.d})
				}
			case oLookup:
				s := srv.Session(o.d)
				if s == nil {
					ans = "(AFound None)"
				} else {
					i := s.ID
					ans = "(AFound " + nm.oid(&i) + ")"
				}
			case oRemove:
				srv.Remove(o.d, false)
				ans = "(ABool true)"
			case oSessions:
				ss := srv.Sessions()
				sort.Slice(ss, func(i, j int) bool { return ss[i].ID.Hash() < ss[j].ID.Hash() })
				s := make([]string, len(ss))
				for i, v := range ss {
					s[i] = fmt.Sprintf("(%d,%s)", v.ID.Hash(), nm.id(v.ID))
				}
				ans = "(AList " + vh.List(s) + ")"
			}
		}()
		if !c2.VerifC15Barrier(srv) {
			fmt.Println("barrier timeout")
			panic("barrier timeout")
		}
		mu.Lock()
		got := evs
		evs = nil
		mu.Unlock()
		tbl := c2.VerifC15Table(srv)
		// ---- Coq observation
		es := make([]string, len(got))
		for i, e := range got {
			switch e.kind {
			case 0:
				es[i] = "VNew " + nm.id(e.sid)
			case 1:
				es[i] = fmt.Sprintf("VRecv %s %s %d", nm.id(e.sid), nm.id(e.dev), e.job)
			default:
				es[i] = "VDrop " + nm.id(e.sid)
			}
		}
		ts := make([]string, len(tbl))
		for i, e := range tbl {
			host, _ := strconv.Atoi(e.Host)
			kt := 0
			if e.Pub0 == 0xEE {
				kt = int(e.Pub1)
			}
			q := make([]outLeaf, len(e.Out))
			for j, p := range e.Out {
				q[j] = outLeaf{p.Device, p.ID, p.Job}
			}
			ts[i] = fmt.Sprintf("(%d,%s,%d,%d,%s)", e.Key, nm.id(e.ID), host, kt, nm.outs(q))
		}
		opTerms = append(opTerms, nm.op(o))
		obsTerms = append(obsTerms, fmt.Sprintf("Obs %s %s %s", ans, vh.List(es), vh.List(ts)))

		// ---- oracle: the property evaluated on the implementation
		if len(tbl) > st.maxSessions {
			st.maxSessions = len(tbl)
		}
		site := "talk"
		if o.kind == oTalkSub {
			site = "talksub"
		}
		collides := func(d ID) (ID, bool) { // a registered (before the step) session with d's hash and another ID
			for id := range prev {
				if id != d && id.Hash() == d.Hash() {
					return id, true
				}
			}
			return ID{}, false
		}
		// which named device (other than A itself) shares A's hash: the top-level one of talk, or one that went through talkSub
		blame := func(sid ID) string {
			for i, d := range named {
				if d != sid && d.Hash() == sid.Hash() {
					if i == 0 && isTalk {
						return "top"
					}
					return "sub"
				}
			}
			return ""
		}
		// (1) a handler fires only in the session of the packet's device
		for _, e := range got {
			if e.kind == 1 && e.sid != e.dev {
				fail("a packet was delivered to the handler of another device's session", site+"-delivered-to-other-session", caseDesc())
			}
		}
		if o.kind == oTalk || o.kind == oTalkSub {
			st.dispatched++
			_, coll := collides(top)
			if coll {
				st.collisionUsed = true
			}
			_, wasReg := prev[top]
			// (2) sessions touched (address / last-seen updated) and re-keyed by this step
			for _, e := range tbl {
				p, had := prev[e.ID]
				if e.Host == a && !idIn(e.ID, named) && !u32In(e.Key, tags) {
					key := site + "-touched-other-session"
					switch blame(e.ID) {
					case "top":
						key = "talk-hash-collision-wrong-session"
					case "sub":
						key = "talksub-hash-collision"
					}
					fail("the session of device A was updated (remote address, last-seen) on behalf of a packet naming device B with the same 32-bit hash", key, caseDesc())
				}
				if had && (p.Pub0 != e.Pub0 || p.Pub1 != e.Pub1) {
					if e.Pub0 != 0xEE || !keyed[e.ID][e.Pub1] {
						key := site + "-rekeyed-other-session"
						switch blame(e.ID) {
						case "top":
							key = "talk-hash-collision-rekey"
						case "sub":
							key = "talksub-hash-collision"
						}
						fail("the key material of device A's session was overwritten by a packet naming device B (keyCryptAndUpdate runs before receive() compares the IDs)", key, caseDesc())
					}
				}
			}
			// (3) an unknown device gets a re-registration request / is registered by its hello
			if !top.Empty() && !wasReg {
				hello := false
				if o.kind == oTalk && o.p.kind == kSingle {
					hello = o.p.top.pid == c2.SvHello
				} else if o.kind == oTalkSub {
					hello = o.n.pid == c2.SvHello
				}
				switch {
				case !hello && answer != "register":
					key := site + "-unknown-device-no-register-request"
					if coll && isTalk {
						key = "talk-hash-collision-no-register-request"
					} else if coll {
						key = "talksub-hash-collision"
					}
					fail("a packet naming an unregistered device was not answered with a re-registration request ("+answer+")", key, caseDesc())
				case hello && (o.kind == oTalk && o.p.top.body == bHello || o.kind == oTalkSub && o.n.body == bHello):
					reg := false
					for _, e := range tbl {
						if e.ID == top {
							reg = true
						}
					}
					if !reg {
						key := site + "-hello-not-registered"
						if coll {
							key = "hash-collision-second-device-cannot-register"
						}
						fail("a well-formed hello of an unregistered device did not register it ("+answer+")", key, caseDesc())
					}
				}
			}
			// (3b) inside a multi-device batch the sub-packet of an unregistered device is answered with a request naming it
			if o.kind == oTalk && o.p.kind == kMultiDev && answer == "reply" {
				for _, sp := range o.p.subs {
					_, reg := prev[sp.dev]
					if sp.dev.Empty() || reg || sp.dev == top || sp.pid == c2.SvHello {
						continue
					}
					hel, got := false, false
					for _, x := range o.p.subs {
						if x.dev == sp.dev && x.pid == c2.SvHello {
							hel = true
						}
					}
					for _, lf := range leafs {
						if lf.dev == sp.dev && lf.pid == c2.SvRegister {
							got = true
						}
					}
					if !hel && !got {
						fail("a sub-packet naming an unregistered device in a multi-device batch was not answered with a re-registration request", "multidev-unknown-sub-no-register-request", caseDesc())
						break
					}
				}
			}
			// (3c) inside a multi-device batch the well-formed hello of an unregistered device whose slot is free registers it
			if o.kind == oTalk && o.p.kind == kMultiDev && answer == "reply" {
				for _, sp := range o.p.subs {
					_, reg := prev[sp.dev]
					_, coll := collides(sp.dev)
					if sp.dev.Empty() || reg || coll || sp.dev == top || sp.pid != c2.SvHello || sp.body != bHello {
						continue
					}
					now := false
					for _, e := range tbl {
						if e.ID == sp.dev {
							now = true
						}
					}
					if !now {
						// the slot may have been taken a moment ago by an earlier hello of the SAME batch whose ID has the same
						// 32-bit hash: then this is the known structural finding (the second colliding device cannot register;
						// the entry of the first is not touched), not a new failure
						key := "multidev-hello-not-registered"
						for _, e := range tbl {
							if e.Key == sp.dev.Hash() && e.ID != sp.dev {
								key = "hash-collision-second-device-cannot-register"
							}
						}
						fail("the hello of an unregistered device inside a multi-device batch did not register it", key, caseDesc())
						break
					}
				}
			}
			// (4) outbound packets are handed only to the connection that serves their device
			for _, lf := range leafs {
				if !idIn(lf.dev, named) && !u32In(lf.dev.Hash(), tags) {
					key := site + "-outbound-to-other-connection"
					if coll {
						key = site + "-hash-collision-outbound"
					}
					fail("an outbound packet of device A was handed to the connection of a packet naming device B", key, caseDesc())
					break
				}
			}
		}
		// (5) Server.Session(id) returns id's session or nothing, for every id of the pool; a queue
		// only holds packets of its own device
		for _, d := range ids {
			if s := srv.Session(d); s != nil && s.ID != d {
				fail("Server.Session(B) returned the session of another device A with the same 32-bit hash", "server-session-hash-only", caseDesc())
			}
		}
		for _, e := range tbl {
			for _, p := range e.Out {
				if p.Device != e.ID {
					fail("a packet naming device B was queued on the session of device A", "send-queued-on-other-session", caseDesc())
				}
			}
			if e.Key != e.ID.Hash() {
				fail("a session is stored under a key that is not the hash of its ID", "table-key", caseDesc())
			}
		}
		// Sessions() lists exactly the table
		if ss := srv.Sessions(); len(ss) != len(tbl) {
			fail("Server.Sessions() does not list the table", "sessions-list", caseDesc())
		}
		prev = map[ID]c2.VerifC15Entry{}
		for _, e := range tbl {
			prev[e.ID] = e
		}
	}
	term := nm.wrap(fmt.Sprintf("CHist %s %s", vh.List(opTerms), vh.List(obsTerms)))
	if st.collisionUsed {
		class += "-collision"
	}
	out.Add(term, class, st.maxSessions >= 2 && st.dispatched >= 2, caseDescShort(ids, descOps))
}

func caseDescShort(ids []ID, ops []interface{}) map[string]interface{} {
	h := make([]string, len(ids))
	for i, d := range ids {
		h[i] = hx(d)
	}
	if len(ops) > 6 {
		return map[string]interface{}{"ids": h, "steps": len(ops), "first_ops": ops[:6]}
	}
	return map[string]interface{}{"ids": h, "history": ops}
}

// ---------------------------------------------------------------- a history on a proxy

const (
	pTalk = iota
	pTalkSub
	pAccept
)

type pop struct {
	kind int
	n    leaf
	tags []uint32
	o    bool
}

func (o *pop) desc() map[string]interface{} {
	t := make([]int64, len(o.tags))
	for i, v := range o.tags {
		t[i] = int64(v)
	}
	return map[string]interface{}{"op": [...]string{"Proxy.talk", "Proxy.talkSub", "Proxy.accept"}[o.kind], "packet": o.n.desc(), "tags": t, "o": o.o}
}

func runProxy(ids []ID, ops []*pop, class string) {
	var parent ID
	for i := range parent {
		parent[i] = 0xA5
	}
	p, ps := c2.VerifC15NewProxy(parent)
	defer c2.VerifC15ProxyStop(p)
	nm := newNamer(ids)
	var (
		opTerms, obsTerms []string
		descOps           []interface{}
		up                []outLeaf
		prev              = map[ID]bool{}
		collUsed          bool
		maxClients        int
	)
	caseDesc := func() map[string]interface{} {
		h := make([]string, len(ids))
		for i, d := range ids {
			h[i] = hx(d)
		}
		return map[string]interface{}{"ids": h, "proxy_history": append([]interface{}(nil), descOps...), "failing_step": len(descOps)}
	}
	for k, o := range ops {
		a := strconv.Itoa(k + 1)
		descOps = append(descOps, o.desc())
		var (
			ans    string
			leafs  []outLeaf
			answer string
		)
		top := o.n.dev
		coll := false
		for id := range prev {
			if id != top && id.Hash() == top.Hash() {
				coll, collUsed = true, true
			}
		}
		func() {
			defer func() {
				if x := recover(); x != nil {
					ans = "(AErr 99)"
					fail(fmt.Sprintf("panic in proxy step %d: %v", k+1, x), "panic", caseDesc())
				}
			}()
			switch o.kind {
			case pTalk:
				n := o.n.build()
				n.Tags = append([]uint32(nil), o.tags...)
				next, hasHost, ok, err := c2.VerifC15ProxyTalk(p, a, n)
				switch {
				case err != nil:
					ans, answer = fmt.Sprintf("(AErr %d)", errClass(err)), "error"
				case next != nil && next.ID == c2.SvRegister && !hasHost:
					ans, answer = "(ARegister "+nm.id(next.Device)+")", "register"
				default:
					leafs = flatten(next)
					ans, answer = fmt.Sprintf("(AReply %s %s)", vh.B(ok), nm.outs(leafs)), "reply"
				}
			case pTalkSub:
				kk, q, r, err := c2.VerifC15ProxyTalkSub(p, a, o.n.build(), o.o)
				switch {
				case err != nil:
					ans, answer = fmt.Sprintf("(AErr %d)", errClass(err)), "error"
				case kk == nil && r != nil && r.ID == c2.SvRegister:
					ans, answer = fmt.Sprintf("(ASub None %d (Some %s) [])", q, nm.id(r.Device)), "register"
				default:
					leafs = flatten(r)
					ans, answer = fmt.Sprintf("(ASub %s %d None %s)", nm.oid(kk), q, nm.outs(leafs)), "reply"
					if kk != nil && *kk != top {
						fail("Proxy.talkSub answered with the client entry of another device (equal 32-bit hash)", "proxy-talksub-hash-collision", caseDesc())
					}
				}
			case pAccept:
				ok := c2.VerifC15ProxyAccept(p, o.n.build())
				ans = "(ABool " + vh.B(ok) + ")"
				if ok && !prev[top] {
					key := "proxy-accept-unknown-device"
					if coll {
						key = "proxy-accept-hash-collision"
					}
					fail("Proxy.accept took a packet naming device B for the client entry of device A (equal 32-bit hash)", key, caseDesc())
				}
			}
		}()
		c2.VerifC15ProxyBarrier(p)
		for _, f := range c2.VerifC15Drain(ps) {
			up = append(up, outLeaf{f.Device, f.ID, f.Job})
		}
		cl := c2.VerifC15ProxyClients(p)
		// a client entry disappears only when its own device announced its shutdown
		{
			now := map[ID]bool{}
			for _, e := range cl {
				now[e.ID] = true
			}
			for id := range prev {
				if !now[id] && !(id == top && o.n.pid == c2.SvShutdown && o.kind != pAccept) {
					key := "proxy-prune-other-device"
					if id.Hash() == top.Hash() {
						key = "proxy-prune-hash-collision-other-device"
					}
					fail("the Proxy dropped the client entry of device A on behalf of a packet naming device B", key, caseDesc())
				}
			}
		}
		if len(cl) > maxClients {
			maxClients = len(cl)
		}
		ts := make([]string, len(cl))
		for i, e := range cl {
			q := make([]outLeaf, len(e.Out))
			for j, x := range e.Out {
				q[j] = outLeaf{x.Device, x.ID, x.Job}
				if x.Device != e.ID {
					key := "proxy-queue-other-device"
					if x.Device.Hash() == e.ID.Hash() {
						key = "proxy-accept-hash-collision"
					}
					fail("a packet naming device B sits in the proxy queue of client A", key, caseDesc())
				}
			}
			ts[i] = fmt.Sprintf("(%d,%s,%s)", e.Key, nm.id(e.ID), nm.outs(q))
		}
		switch o.kind {
		case pTalk:
			opTerms = append(opTerms, fmt.Sprintf("PTalk %s %s", nm.leaf(o.n), zl32(o.tags)))
		case pTalkSub:
			opTerms = append(opTerms, fmt.Sprintf("PTalkSub %s %s", nm.leaf(o.n), vh.B(o.o)))
		default:
			opTerms = append(opTerms, "PAccept "+nm.leaf(o.n))
		}
		obsTerms = append(obsTerms, fmt.Sprintf("PObs %s %s %s", ans, nm.outs(up), vh.List(ts)))
		// oracle
		if o.kind == pTalk || o.kind == pTalkSub {
			site := "proxy-talk"
			if o.kind == pTalkSub {
				site = "proxy-talksub"
			}
			if !top.Empty() && !prev[top] && o.n.pid != c2.SvHello && answer != "register" {
				key := site + "-unknown-device-no-register-request"
				if coll {
					key = site + "-hash-collision-no-register-request"
				}
				fail("the proxy did not answer a packet naming an unregistered device with a re-registration request ("+answer+")", key, caseDesc())
			}
			for _, lf := range leafs {
				if lf.dev != top && !u32In(lf.dev.Hash(), o.tags) {
					key := site + "-outbound-to-other-connection"
					if coll {
						key = site + "-hash-collision-outbound"
					}
					fail("the proxy handed an outbound packet of client A to the connection of a packet naming device B", key, caseDesc())
					break
				}
			}
			if o.n.pid == c2.SvHello && !top.Empty() && !prev[top] {
				reg := false
				for _, e := range cl {
					if e.ID == top {
						reg = true
					}
				}
				if !reg {
					key := site + "-hello-not-registered"
					if coll {
						key = "proxy-hash-collision-second-device-cannot-register"
					}
					fail("the hello of an unregistered device did not register it at the proxy ("+answer+")", key, caseDesc())
				}
			}
		}
		prev = map[ID]bool{}
		for _, e := range cl {
			prev[e.ID] = true
		}
	}
	if collUsed {
		class += "-collision"
	}
	out.Add(nm.wrap(fmt.Sprintf("CProxy %s %s", vh.List(opTerms), vh.List(obsTerms))), class, maxClients >= 2, caseDescShort(ids, descOps))
}

// ---------------------------------------------------------------- a history with Channels

const (
	cReg = iota
	cOpen
	cPkt
	cClose
	cSend
	cPoll
	cSendAs // Send of a packet without a Device
	cDrain  // what the host's Channel connection sends next
)

type cop struct {
	kind int
	d    ID
	tags []uint32
	pid  uint8
	job  uint16
}

func (o *cop) desc() map[string]interface{} {
	t := make([]int64, len(o.tags))
	for i, v := range o.tags {
		t[i] = int64(v)
	}
	m := map[string]interface{}{"op": [...]string{"hello through Listener.talk", "connection switches to Channel mode (conn.channelRead starts)",
		"Channel packet (conn.channelRead -> conn.resolve(tags, true))", "Channel connection ends (conn.stop)", "Server.Session(dev).Send",
		"poll through Listener.talk (own connection)", "Server.Session(dev).Send of a packet WITHOUT a Device",
		"the host's Channel connection sends its next packet (Session.next(false), as channelWrite does)"}[o.kind], "dev": hx(o.d)}
	switch o.kind {
	case cPkt:
		m["tags"] = t
	case cSend, cSendAs:
		m["id"], m["job"] = int(o.pid), int(o.job)
	case cReg:
		m["job"] = int(o.job)
	}
	return m
}

func sortLeafs(l []outLeaf) {
	sort.SliceStable(l, func(i, j int) bool { return int(l[i].job)*256+int(l[i].pid) < int(l[j].job)*256+int(l[j].pid) })
}

func runChan(ids []ID, ops []*cop, class string) {
	srv, l := c2.VerifC15NewServer(keys)
	open := map[ID]*c2.VerifC15Chan{}
	lastTags := map[ID][]uint32{} // the tag list of the last Channel packet of each host with a running Channel
	noDev := map[uint16]ID{}      // job of a packet written without a Device -> the session it was written to
	defer func() {
		for _, h := range open {
			h.Close()
		}
		srv.Close()
	}()
	nm := newNamer(ids)
	var (
		opTerms, obsTerms []string
		descOps           []interface{}
		maxRouted, nPkt   int
		collUsed          bool
	)
	caseDesc := func() map[string]interface{} {
		h := make([]string, len(ids))
		for i, d := range ids {
			h[i] = hx(d)
		}
		return map[string]interface{}{"ids": h, "channel_history": append([]interface{}(nil), descOps...), "failing_step": len(descOps)}
	}
	for k, o := range ops {
		descOps = append(descOps, o.desc())
		var (
			ans      string
			leafs    []outLeaf
						skipped  bool
			sentTo   *ID
			leftOn   *ID // the device whose connection the leafs of this step left on
			sentJob  uint16
			prevRts  = c2.VerifC15Routes(srv)
			reg      = srv.Session(o.d)
			_, isOpn = open[o.d]
		)
		for _, e := range prevRts {
			if e.ID != o.d && e.ID.Hash() == o.d.Hash() {
				collUsed = true
			}
		}
		if reg != nil && reg.ID != o.d { // never steer the history by a session that is not the device's own
			fail("Server.Session(B) returned the session of another device A with the same 32-bit hash", "server-session-hash-only", caseDesc())
			reg = nil
		}
		func() {
			defer func() {
				if x := recover(); x != nil {
					ans = "(AErr 99)"
					fail(fmt.Sprintf("panic in channel step %d: %v", k+1, x), "panic", caseDesc())
				}
			}()
			talk := func(n *com.Packet) {
				next, host, ok, err := c2.VerifC15Talk(l, "0", n)
				switch {
				case err != nil:
					ans = fmt.Sprintf("(AErr %d)", errClass(err))
				case next != nil && next.ID == c2.SvRegister && host == nil:
					ans = "(ARegister " + nm.id(next.Device) + ")"
				default:
					leafs = flatten(next)
					sortLeafs(leafs)
					ans = fmt.Sprintf("(AReply %s %s)", vh.B(ok), nm.outs(leafs))
				}
			}
			switch o.kind {
			case cReg:
				if isOpn {
					ans, skipped = "(ABool false)", true
					return
				}
				talk(c2.VerifC15Hello(o.d, o.job, machine))
			case cOpen:
				if reg == nil || isOpn {
					ans, skipped = "(ABool false)", true
					return
				}
				open[o.d] = c2.VerifC15ChanOpen(l, reg)
				ans = "(ABool true)"
			case cPkt:
				if !isOpn {
					ans, skipped = "(ABool false)", true
					return
				}
				nPkt++
				if open[o.d].Feed(o.d, o.tags) {
					ans = "(ABool true)"
					lastTags[o.d] = o.tags
				} else {
					ans = "(AErr 5)"
					delete(open, o.d)
					delete(lastTags, o.d)
				}
			case cClose:
				if !isOpn {
					ans, skipped = "(ABool false)", true
					return
				}
				open[o.d].Close()
				delete(open, o.d)
				delete(lastTags, o.d)
				ans = "(ABool true)"
			case cSend:
				if reg == nil {
					ans = "(AFound None)"
					return
				}
				i := reg.ID
				ans = "(AFound " + nm.oid(&i) + ")"
				reg.Send(&com.Packet{ID: o.pid, Job: o.job, Device: o.d})
				sentTo, sentJob = &i, o.job
			case cPoll:
				if isOpn {
					ans, skipped = "(ABool false)", true
					return
				}
				talk(&com.Packet{Device: o.d})
				leftOn = &o.d
			case cSendAs:
				if reg == nil {
					ans = "(AFound None)"
					return
				}
				i := reg.ID
				ans = "(AFound " + nm.oid(&i) + ")"
				reg.Send(&com.Packet{ID: o.pid, Job: o.job})
				noDev[o.job] = i
			case cDrain:
				if !isOpn || open[o.d].Queued() == 0 {
					ans, skipped = "(ABool false)", true
					return
				}
				leafs = flatten(open[o.d].Next())
				sortLeafs(leafs)
				ans = fmt.Sprintf("(AReply true %s)", nm.outs(leafs))
				leftOn = &o.d
			}
		}()
		if !c2.VerifC15Barrier(srv) {
			panic("barrier timeout")
		}
		rts := c2.VerifC15Routes(srv)
		ts := make([]string, len(rts))
		routed := 0
		byKey := map[uint32]c2.VerifC15Route{}
		for i, e := range rts {
			byKey[e.Key] = e
			q := make([]outLeaf, len(e.Out))
			for j, p := range e.Out {
				q[j] = outLeaf{p.Device, p.ID, p.Job}
			}
			sortLeafs(q)
			if e.Route != 0 {
				routed++
			}
			ts[i] = fmt.Sprintf("(%d,%s,%d,%s)", e.Key, nm.id(e.ID), e.Route, nm.outs(q))
		}
		if routed > maxRouted {
			maxRouted = routed
		}
		var hosts []ID
		for d := range open {
			hosts = append(hosts, d)
		}
		sort.Slice(hosts, func(i, j int) bool { return hosts[i].Hash() < hosts[j].Hash() })
		cs := make([]string, len(hosts))
		for i, d := range hosts {
			cs[i] = fmt.Sprintf("(%d,%s)", d.Hash(), zl32(open[d].Subs()))
		}
		switch o.kind {
		case cReg:
			opTerms = append(opTerms, fmt.Sprintf("KReg %s %d", nm.id(o.d), o.job))
		case cOpen:
			opTerms = append(opTerms, "KOpen "+nm.id(o.d))
		case cPkt:
			opTerms = append(opTerms, fmt.Sprintf("KPkt %s %s", nm.id(o.d), zl32(o.tags)))
		case cClose:
			opTerms = append(opTerms, "KClose "+nm.id(o.d))
		case cSend:
			opTerms = append(opTerms, fmt.Sprintf("KSend %s %d %d", nm.id(o.d), o.pid, o.job))
		case cSendAs:
			opTerms = append(opTerms, fmt.Sprintf("KSendAs %s %s %d %d", nm.id(o.d), vh.Bytes(local.UUID[:]), o.pid, o.job))
		case cDrain:
			opTerms = append(opTerms, "KDrain "+nm.id(o.d))
		default:
			opTerms = append(opTerms, "KPoll "+nm.id(o.d))
		}
		obsTerms = append(obsTerms, fmt.Sprintf("CObs %s %s %s", ans, vh.List(ts), vh.List(cs)))
		// ---- oracle (0): a packet written to A's session without a Device never leaves as the packet of another
		// registered device (in particular not as the relaying host's own)
		if leftOn != nil {
			for _, lf := range leafs {
				w, ok := noDev[lf.job]
				if !ok || lf.pid < 0xD0 || lf.dev == w || lf.dev == local.UUID {
					continue
				}
				for _, e := range rts {
					if e.ID == lf.dev {
						key := "deviceless-packet-left-as-other-device"
						if lf.dev == *leftOn {
							key = "deviceless-packet-left-as-the-relays-own"
						}
						fail("a packet written to the session of device A without a Device left the server naming another registered device", key, caseDesc())
					}
				}
			}
		}

		// ---- oracle: outbound packets are only handed to the connection that serves their device.
		// A Channel connection serves the devices its host tagged in its LAST packet (and the host).
		serves := func(hostKey uint32, dev ID) bool {
			h, ok := byKey[hostKey]
			if !ok {
				return false
			}
			if h.ID == dev {
				return true
			}
			t, ok := lastTags[h.ID]
			return ok && u32In(dev.Hash(), t)
		}
		if !skipped {
			// (1) a session is routed into a host's Channel only while that host's last tag list names it
			for _, e := range rts {
				if e.Route != 0 && !serves(e.Route, e.ID) {
					key := "channel-route-not-in-last-tag-list"
					if o.kind == cPkt && len(o.tags) == 0 {
						key = "channel-route-kept-after-empty-tag-list"
					}
					fail("the outbound queue of device B is redirected into the Channel of a host whose last Channel packet does not tag B", key, caseDesc())
					break
				}
			}
			// (2) a packet queued for d sits in d's own queue or in the queue of a host that currently serves d
			if sentTo != nil {
				for _, e := range rts {
					for _, p := range e.Out {
						if p.Job == sentJob && p.Device == *sentTo && e.ID != *sentTo && !serves(e.Key, *sentTo) {
							fail("a packet queued for device B was pushed into the Channel queue of a host that does not (any longer) tag B", "channel-send-to-host-not-tagging", caseDesc())
						}
					}
				}
			}
			// (a host's own poll after its Channel ended legitimately carries what was queued for the devices it
			// served while they were routed to it: not checked)
		}
	}
	if collUsed {
		class += "-collision"
	}
	out.Add(nm.wrap(fmt.Sprintf("CChan %s %s", vh.List(opTerms), vh.List(obsTerms))), class, maxRouted >= 1 && nPkt >= 2, caseDescShort(ids, descOps))
}

// ---------------------------------------------------------------- a client behind A's Proxy

const (
	fHello = iota
	fSend
	fPump
)

type fop struct {
	kind    int
	d       ID
	pid     uint8
	job     uint16
	payload int
}

func (o *fop) desc() map[string]interface{} {
	switch o.kind {
	case fHello:
		return map[string]interface{}{"op": "hello of dev at A's Proxy (Proxy.talk)", "dev": hx(o.d), "job": int(o.job)}
	case fSend:
		return map[string]interface{}{"op": "dev hands A's Proxy a packet (Proxy.talk -> notify -> parent.write)", "dev": hx(o.d), "id": int(o.pid), "job": int(o.job), "payload_bytes": o.payload}
	}
	return map[string]interface{}{"op": "A sends its queue: Session.next(false) -> wire -> Listener.talk, until the queue is empty"}
}

func wire(n *com.Packet) *com.Packet {
	var (
		b bytes.Buffer
		o com.Packet
	)
	if err := n.Marshal(&b); err != nil {
		panic("marshal: " + err.Error())
	}
	if err := o.Unmarshal(&b); err != nil {
		panic("unmarshal: " + err.Error())
	}
	return &o
}

func runFwd(a ID, ids []ID, ops []*fop, class string) {
	srv, l := c2.VerifC15NewServer(keys)
	defer srv.Close()
	var (
		mu  sync.Mutex
		evs []event
	)
	srv.New = func(s *c2.Session) {
		mu.Lock()
		evs = append(evs, event{kind: 0, sid: s.ID})
		mu.Unlock()
		s.Receive = func(s *c2.Session, n *com.Packet) {
			mu.Lock()
			evs = append(evs, event{kind: 1, sid: s.ID, dev: n.Device, job: n.Job})
			mu.Unlock()
		}
	}
	all := append([]ID{a}, ids...)
	nm := newNamer(all)
	caseDesc := func(d []interface{}) map[string]interface{} {
		h := make([]string, len(ids))
		for i, x := range ids {
			h[i] = hx(x)
		}
		return map[string]interface{}{"proxy_host_A": hx(a), "ids": h, "limits.Frag": limits.Frag, "forwarding_history": append([]interface{}(nil), d...), "failing_step": len(d)}
	}
	// A registers directly
	if _, _, _, err := c2.VerifC15Talk(l, "0", c2.VerifC15Hello(a, 1, machine)); err != nil {
		panic("registering A: " + err.Error())
	}
	c2.VerifC15Barrier(srv)
	mu.Lock()
	evs = nil
	mu.Unlock()
	p, ps := c2.VerifC15NewProxy(a)
	var (
		opTerms, obsTerms []string
		descOps           []interface{}
		sent              = map[uint16]ID{} // job -> device that sent it through the Proxy (accepted)
		handled           = map[uint16]bool{}
		frags, bigs       int
	)
	for _, o := range ops {
		descOps = append(descOps, o.desc())
		var ans string
		func() {
			defer func() {
				if x := recover(); x != nil {
					ans = "(AErr 99)"
					fail(fmt.Sprintf("panic in forwarding step %d: %v", len(descOps), x), "panic", caseDesc(descOps))
				}
			}()
			ptalk := func(n *com.Packet) bool {
				next, hasHost, _, err := c2.VerifC15ProxyTalk(p, "0", n)
				switch {
				case err != nil:
					ans = fmt.Sprintf("(AErr %d)", errClass(err))
				case next != nil && next.ID == c2.SvRegister && !hasHost:
					ans = "(ARegister " + nm.id(next.Device) + ")"
				default:
					ans = "(ABool true)"
					return true
				}
				return false
			}
			switch o.kind {
			case fHello:
				ptalk(c2.VerifC15Hello(o.d, o.job, machine))
				opTerms = append(opTerms, fmt.Sprintf("FHello %s %d", nm.id(o.d), o.job))
			case fSend:
				n := &com.Packet{ID: o.pid, Job: o.job, Device: o.d}
				if o.payload > 0 {
					n.Write(make([]byte, o.payload))
				}
				size := n.Size()
				if size > limits.Frag {
					bigs++
				}
				if ptalk(n) {
					sent[o.job] = o.d
				}
				opTerms = append(opTerms, fmt.Sprintf("FSend %s %d %d %d", nm.id(o.d), o.pid, o.job, size))
			default:
				for i := 0; c2.VerifC15ClientPending(ps) && i < 1000; i++ {
					n := c2.VerifC15ClientNext(ps)
					if n == nil {
						break
					}
					c2.VerifC15Talk(l, "0", wire(n)) // the reply is not fed back to A
				}
				ans = "(ABool true)"
				opTerms = append(opTerms, "FPump")
			}
		}()
		if !c2.VerifC15Barrier(srv) {
			panic("barrier timeout")
		}
		mu.Lock()
		got := evs
		evs = nil
		mu.Unlock()
		es := make([]string, len(got))
		for i, e := range got {
			if e.kind == 0 {
				es[i] = "VNew " + nm.id(e.sid)
			} else {
				es[i] = fmt.Sprintf("VRecv %s %s %d", nm.id(e.sid), nm.id(e.dev), e.job)
			}
		}
		q := c2.VerifC15ClientQueue(ps)
		qs := make([]string, len(q))
		for i, e := range q {
			qs[i] = fmt.Sprintf("(WP %s %d %d %d %d)", nm.id(e.Dev), e.ID, e.Job, e.Pos, e.Len)
			if e.Len > 0 {
				frags++
			}
		}
		obsTerms = append(obsTerms, fmt.Sprintf("FObs %s %s %s", ans, vh.List(es), vh.List(qs)))
		// ---- oracle
		// (1) what A queues for a proxied device names that device, whole or in fragments
		for _, e := range q {
			if d, ok := sent[e.Job]; ok && e.Dev != d {
				key := "forward-relabelled"
				if e.Len > 0 {
					key = "forward-fragment-relabelled"
				}
				fail("a packet of proxied device B is queued by the proxy host A under another device ID", key, caseDesc(descOps))
				break
			}
		}
		// (2) the handler fires only in the session of the device the packet named at the Proxy
		for _, e := range got {
			if e.kind != 1 {
				continue
			}
			handled[e.job] = true
			d, ok := sent[e.job]
			switch {
			case e.sid != e.dev:
				fail("a forwarded packet was delivered to the handler of another device's session", "forward-delivered-to-other-session", caseDesc(descOps))
			case ok && e.sid != d:
				fail("a packet of proxied device B forwarded by A was handled in the session of A (or another device), naming it", "forward-handled-in-other-session", caseDesc(descOps))
			}
		}
	}
	out.Add(nm.wrap(fmt.Sprintf("CFwd %d %s %s %s", limits.Frag, nm.id(a), vh.List(opTerms), vh.List(obsTerms))), class, frags >= 2 && len(handled) >= 1, caseDescShort(all, descOps))
}

// ---------------------------------------------------------------- packets with every flag combination

const (
	xbPlain = iota
	xbCont
	xbBad
)

type xsub struct {
	dev ID
	pid uint8
	job uint16
}
type xpkt struct {
	dev                      ID
	pid                      uint8
	job                      uint16
	multi, mdev, frag, proxy bool
	cnt                      int
	body                     int
	subs                     []xsub
}

func (x *xpkt) build() *com.Packet {
	n := &com.Packet{ID: x.pid, Job: x.job, Device: x.dev}
	if x.body == xbCont {
		for _, s := range x.subs {
			v := &com.Packet{ID: s.pid, Job: s.job, Device: s.dev}
			v.Write([]byte{9})
			v.MarshalStream(n)
		}
	} else {
		n.Write([]byte{1, 2, 3})
	}
	f := com.Flag(uint16(x.cnt))<<48 | com.Flag(uint16(rng.Intn(60000)+1))<<16
	if x.multi {
		f |= com.FlagMulti
	}
	if x.mdev {
		f |= com.FlagMultiDevice
	}
	if x.frag {
		f |= com.FlagFrag
	}
	if x.proxy {
		f |= com.FlagProxy
	}
	n.Flags = f
	return n
}
func (x *xpkt) coq(nm *namer) string {
	b := "XPlain"
	switch x.body {
	case xbCont:
		s := make([]string, len(x.subs))
		for i, v := range x.subs {
			s[i] = fmt.Sprintf("(%s,%d,%d)", nm.id(v.dev), v.pid, v.job)
		}
		b = "(XCont " + vh.List(s) + ")"
	case xbBad:
		b = "XBad"
	}
	return fmt.Sprintf("(XP %s %d %d %s %s %s %s %d %s)", nm.id(x.dev), x.pid, x.job, vh.B(x.multi), vh.B(x.mdev), vh.B(x.frag), vh.B(x.proxy), x.cnt, b)
}
func (x *xpkt) desc() map[string]interface{} {
	var fl []string
	for _, p := range []struct {
		b bool
		n string
	}{{x.multi, "FlagMulti"}, {x.mdev, "FlagMultiDevice"}, {x.frag, "FlagFrag"}, {x.proxy, "FlagProxy"}} {
		if p.b {
			fl = append(fl, p.n)
		}
	}
	m := map[string]interface{}{"dev": hx(x.dev), "id": int(x.pid), "job": int(x.job), "flags": fl, "Flags.Len": x.cnt,
		"body": [...]string{"3 payload bytes", "well-formed entries", "3 payload bytes that are no packet"}[x.body]}
	if x.body == xbCont {
		var e []interface{}
		for _, v := range x.subs {
			e = append(e, map[string]interface{}{"dev": hx(v.dev), "id": int(v.pid), "job": int(v.job)})
		}
		m["entries"] = e
	}
	return m
}

const (
	xReg = iota
	xOpen
	xChan
	xPoll
)

type xop struct {
	kind int
	d    ID
	job  uint16
	n    *xpkt
}

func (o *xop) desc() map[string]interface{} {
	switch o.kind {
	case xReg:
		return map[string]interface{}{"op": "hello through Listener.talk", "dev": hx(o.d), "job": int(o.job)}
	case xOpen:
		return map[string]interface{}{"op": "dev's connection becomes a Channel (conn.channelRead starts)", "dev": hx(o.d)}
	case xChan:
		return map[string]interface{}{"op": "packet arrives on dev's Channel connection (conn.channelRead -> conn.process)", "dev": hx(o.d), "packet": o.n.desc()}
	}
	return map[string]interface{}{"op": "packet arrives on a polling connection (Listener.talk -> conn.process)", "packet": o.n.desc()}
}

func runFlag(ids []ID, ops []*xop, class string) {
	srv, l := c2.VerifC15NewServer(keys)
	open := map[ID]*c2.VerifC15Chan{}
	defer func() {
		for _, h := range open {
			h.Close()
		}
		srv.Close()
	}()
	var (
		mu  sync.Mutex
		evs []event
	)
	srv.New = func(s *c2.Session) {
		mu.Lock()
		evs = append(evs, event{kind: 0, sid: s.ID})
		mu.Unlock()
		s.Receive = func(s *c2.Session, n *com.Packet) {
			mu.Lock()
			evs = append(evs, event{kind: 1, sid: s.ID, dev: n.Device, job: n.Job})
			mu.Unlock()
		}
	}
	nm := newNamer(ids)
	var (
		opTerms, obsTerms []string
		descOps           []interface{}
		fired             int
	)
	caseDesc := func() map[string]interface{} {
		h := make([]string, len(ids))
		for i, d := range ids {
			h[i] = hx(d)
		}
		return map[string]interface{}{"ids": h, "flag_history": append([]interface{}(nil), descOps...), "failing_step": len(descOps)}
	}
	for k, o := range ops {
		descOps = append(descOps, o.desc())
		var ans string
		reg := srv.Session(o.d)
		if reg != nil && reg.ID != o.d {
			fail("Server.Session(B) returned the session of another device A with the same 32-bit hash", "server-session-hash-only", caseDesc())
			reg = nil
		}
		_, isOpn := open[o.d]
		func() {
			defer func() {
				if x := recover(); x != nil {
					ans = "(AErr 99)"
					fail(fmt.Sprintf("panic in flag step %d: %v", k+1, x), "panic", caseDesc())
				}
			}()
			talk := func(n *com.Packet) {
				next, host, _, err := c2.VerifC15Talk(l, "0", n)
				switch {
				case err != nil:
					ans = fmt.Sprintf("(AErr %d)", errClass(err))
				case next != nil && next.ID == c2.SvRegister && host == nil:
					ans = "(ARegister " + nm.id(next.Device) + ")"
				default:
					ans = "(ABool true)"
				}
			}
			switch o.kind {
			case xReg:
				opTerms = append(opTerms, fmt.Sprintf("XReg %s %d", nm.id(o.d), o.job))
				if isOpn {
					ans = "(ABool false)"
					return
				}
				talk(c2.VerifC15Hello(o.d, o.job, machine))
			case xOpen:
				opTerms = append(opTerms, "XOpen "+nm.id(o.d))
				if reg == nil || isOpn {
					ans = "(ABool false)"
					return
				}
				open[o.d] = c2.VerifC15ChanOpen(l, reg)
				ans = "(ABool true)"
			case xChan:
				opTerms = append(opTerms, fmt.Sprintf("XChan %s %s", nm.id(o.d), o.n.coq(nm)))
				if reg == nil || !isOpn {
					ans = "(ABool false)"
					return
				}
				if open[o.d].FeedPacket(o.n.build()) {
					ans = "(ABool true)"
				} else {
					ans = "(AErr 9)"
					delete(open, o.d)
				}
			default:
				opTerms = append(opTerms, "XPoll "+o.n.coq(nm))
				if o.n.dev.Empty() {
					talk(o.n.build())
					return
				}
				if _, op := open[o.n.dev]; op {
					if s := srv.Session(o.n.dev); s != nil && s.ID == o.n.dev {
						ans = "(ABool false)"
						return
					}
				}
				talk(o.n.build())
			}
		}()
		if !c2.VerifC15Barrier(srv) {
			panic("barrier timeout")
		}
		mu.Lock()
		got := evs
		evs = nil
		mu.Unlock()
		es := make([]string, len(got))
		for i, e := range got {
			if e.kind == 0 {
				es[i] = "VNew " + nm.id(e.sid)
				continue
			}
			es[i] = fmt.Sprintf("VRecv %s %s %d", nm.id(e.sid), nm.id(e.dev), e.job)
			fired++
			if e.sid != e.dev {
				key := "flags-poll-delivered-to-other-session"
				if o.kind == xChan {
					key = "flags-channel-delivered-to-other-session"
				}
				fail("a packet naming device X was delivered to the handler of the session of device H", key, caseDesc())
			}
		}
		obsTerms = append(obsTerms, fmt.Sprintf("XObs %s %s", ans, vh.List(es)))
	}
	out.Add(nm.wrap(fmt.Sprintf("CFlag %s %s", vh.List(opTerms), vh.List(obsTerms))), class, fired >= 1, caseDescShort(ids, descOps))
}

// ---------------------------------------------------------------- generators

func randID() ID {
	var d ID
	copy(d[:], rng.Bytes(32))
	if d[0] == 0 {
		d[0] = 1
	}
	return d
}

// birthday search for IDs with equal ID.Hash()
func findCollisions(want, maxDraws int) ([][2]ID, int) {
	seen := make(map[uint32]ID, maxDraws)
	var pairs [][2]ID
	n := 0
	for ; n < maxDraws && len(pairs) < want; n++ {
		d := randID()
		h := d.Hash()
		if o, ok := seen[h]; ok && o != d {
			pairs = append(pairs, [2]ID{o, d})
			continue
		}
		seen[h] = d
	}
	return pairs, n
}

var jobCounter uint16

func nextJob() uint16 {
	jobCounter++
	if jobCounter < 10 {
		jobCounter = 10
	}
	return jobCounter
}

func genLeaf(pool []ID, dev ID) leaf {
	l := leaf{dev: dev, job: nextJob()}
	switch r := rng.Intn(100); {
	case r < 35:
		l.pid = c2.SvHello
		switch x := rng.Intn(10); {
		case x < 8:
			l.body = bHello
		case x < 9:
			l.body = bBadHello
		default:
			l.body = bEmpty
		}
		return l
	case r < 65:
		l.pid = c2.RvResult
	case r < 72:
		l.pid = 0
	case r < 76:
		l.pid = c2.SvRegister
	case r < 80:
		l.pid = c2.SvDrop
	case r < 84:
		l.pid = task.MvRefresh
	case r < 88:
		l.pid = c2.SvComplete
	case r < 90:
		l.pid = c2.SvResync
	default:
		l.pid = uint8(0xC0 + rng.Intn(16))
	}
	switch x := rng.Intn(10); {
	case x < 4:
		l.body = bData
	case x < 7:
		l.body = bEmpty
	default:
		l.body = bKey
		l.k = byte(1 + rng.Intn(200))
	}
	return l
}

func genTags(pool []ID) []uint32 {
	if rng.Intn(100) >= 30 {
		return nil
	}
	n := 1 + rng.Intn(3)
	t := make([]uint32, 0, n)
	for i := 0; i < n; i++ {
		switch r := rng.Intn(20); {
		case r == 0:
			t = append(t, 0)
		case r == 1:
			t = append(t, uint32(rng.U64())|1)
		case r == 2 && len(t) > 0:
			t = append(t, t[0])
		default:
			t = append(t, pool[rng.Intn(len(pool))].Hash())
		}
	}
	return t
}

func pick(pool []ID) ID { return pool[rng.Intn(len(pool))] }

func genOp(pool []ID) *op {
	switch r := rng.Intn(100); {
	case r < 40:
		return &op{kind: oTalk, p: &pkt{kind: kSingle, top: genLeaf(pool, pick(pool)), tags: genTags(pool)}}
	case r < 50:
		d := pick(pool)
		p := &pkt{kind: kBatch, dev: d, job: nextJob(), tags: genTags(pool)}
		for i, n := 0, rng.Intn(4); i < n; i++ {
			sd := d
			if rng.Intn(8) == 0 {
				sd = pick(pool)
			}
			lf := genLeaf(pool, sd)
			if lf.pid == c2.SvHello && lf.body == bHello && rng.Bool() {
				lf.pid = c2.RvResult
			}
			p.subs = append(p.subs, lf)
		}
		return &op{kind: oTalk, p: p}
	case r < 68:
		p := &pkt{kind: kMultiDev, dev: pick(pool), job: nextJob(), tags: genTags(pool)}
		for i, n := 0, rng.Intn(5); i < n; i++ {
			p.subs = append(p.subs, genLeaf(pool, pick(pool)))
		}
		return &op{kind: oTalk, p: p}
	case r < 76:
		return &op{kind: oTalkSub, n: genLeaf(pool, pick(pool)), o: rng.Intn(4) == 0}
	case r < 86:
		return &op{kind: oSend, d: pick(pool), pid: uint8(0xD0 + rng.Intn(8)), job: nextJob()}
	case r < 92:
		return &op{kind: oLookup, d: pick(pool)}
	case r < 97:
		return &op{kind: oRemove, d: pick(pool)}
	}
	return &op{kind: oSessions}
}

// IDs that are equal under a shortened view but differ as 32-byte values:
//   sameSuffix(d): other first 28 bytes, same last 4 (ID.String() prints only those when ID[28] != 0);
//   sameMachine(d): d with ID[28] == 0 and a copy that differs in bytes 29..31 (String() then prints only the first 28);
//   lookAlikes: pairs with the same last 4 bytes AND the same ID.Hash() (birthday search over the first 28 bytes).
var lookAlikes [][2]ID

func sameSuffix(d ID) ID {
	e := randID()
	copy(e[28:], d[28:]) // (if d[28] == 0 the two differ in the machine part and String() tells them apart: still a valid pool member)
	return e
}
func sameMachine(d ID) (ID, ID) {
	d[28] = 0
	e := d
	e[29+rng.Intn(3)] ^= byte(1 + rng.Intn(255))
	return d, e
}
func findLookAlikes(want, maxDraws int) int {
	var suf [4]byte
	copy(suf[:], rng.Bytes(4))
	suf[0] |= 1
	seen := make(map[uint32]ID, maxDraws)
	n := 0
	for ; n < maxDraws && len(lookAlikes) < want; n++ {
		d := randID()
		copy(d[28:], suf[:])
		h := d.Hash()
		if o, ok := seen[h]; ok && o != d {
			lookAlikes = append(lookAlikes, [2]ID{o, d})
			continue
		}
		seen[h] = d
	}
	return n
}

func genPool(pairs [][2]ID) []ID {
	var pool []ID
	np := 0
	if len(pairs) > 0 {
		switch r := rng.Intn(10); {
		case r < 2:
			np = 0
		case r < 7:
			np = 1
		case r < 9:
			np = 2
		default:
			np = 3
		}
	}
	for i := 0; i < np && i < len(pairs); i++ {
		pr := pairs[rng.Intn(len(pairs))]
		pool = append(pool, pr[0], pr[1])
	}
	for i, n := 0, 1+rng.Intn(3); i < n; i++ {
		pool = append(pool, randID())
	}
	if rng.Intn(4) == 0 { // an ID differing from another one in its last byte only
		d := pool[rng.Intn(len(pool))]
		d[31] ^= byte(1 + rng.Intn(255))
		pool = append(pool, d)
	}
	switch rng.Intn(6) { // IDs that look alike under String() / Hash()
	case 0, 1:
		pool = append(pool, sameSuffix(pool[rng.Intn(len(pool))]))
	case 2:
		a, b := sameMachine(randID())
		pool = append(pool, a, b)
	case 3:
		if len(lookAlikes) > 0 {
			pr := lookAlikes[rng.Intn(len(lookAlikes))]
			pool = append(pool, pr[0], pr[1])
		}
	}
	if rng.Intn(5) == 0 { // an empty ID
		d := randID()
		d[0] = 0
		pool = append(pool, d)
	}
	// dedupe, keep order
	var o []ID
	for _, d := range pool {
		if !idIn(d, o) {
			o = append(o, d)
		}
	}
	return o
}

func hello(d ID) *op {
	return &op{kind: oTalk, p: &pkt{kind: kSingle, top: leaf{dev: d, pid: c2.SvHello, job: nextJob(), body: bHello}}}
}
func single(d ID, pid uint8, body int, k byte, tags ...uint32) *op {
	return &op{kind: oTalk, p: &pkt{kind: kSingle, top: leaf{dev: d, pid: pid, job: nextJob(), body: body, k: k}, tags: tags}}
}

func main() {
	fl := vh.ParseFlags()
	out = vh.NewOut("C15", fl, "From XMT Require Import Base.Prelude Model.Table.", "case", "check",
		"histories of 8..40 operations with Channels (hello, Channel start, Channel packets with full / shorter / empty / re-added / unknown / own / zero / colliding tag lists through the real conn.channelRead, Channel end, sends, polls) and histories of 6..30 operations (registration, single packets, FlagMulti batches, multi-device batches, tag lists, sends, lookups, removals, "+
			"Sessions) on a real Server+Listener and on a real Proxy, over pools of 2..9 device IDs that include 0..3 pairs with equal ID.Hash() found by "+
			"birthday search from the seed; distinct = distinct Coq case term; non-trivial = at least two sessions (proxy clients) were registered at once "+
			"and at least two packets were dispatched")
	out.ShardSize = 60
	rng = vh.NewRand(fl.Seed)
	thorough := fl.Tier == "thorough"
	keys.Fill()
	machine = local.Device.Machine

	t0 := time.Now()
	pairs, draws := findCollisions(4, 2000000)
	out.Extra("collision_search", map[string]interface{}{"pairs": len(pairs), "draws": draws, "ms": time.Since(t0).Milliseconds()})
	if len(pairs) == 0 {
		fmt.Println("no colliding pair found")
		panic("no colliding pair")
	}
	ps := make([]interface{}, len(pairs))
	for i, p := range pairs {
		ps[i] = map[string]interface{}{"a": hx(p[0]), "b": hx(p[1]), "hash": p[0].Hash()}
	}
	out.Extra("colliding_pairs", ps)

	t1 := time.Now()
	ld := findLookAlikes(2, 2000000)
	out.Extra("look_alike_search", map[string]interface{}{"pairs": len(lookAlikes), "draws": ld, "ms": time.Since(t1).Milliseconds()})
	if len(lookAlikes) == 0 {
		panic("no pair with equal String() and equal Hash() found")
	}

	// ---- hash and constants
	out.Add(fmt.Sprintf("CConsts %d %d %d %d %d", c2.SvHello, c2.SvRegister, c2.SvComplete, task.MvRefresh, c2.SvShutdown), "consts", true, "SvHello SvRegister SvComplete MvRefresh SvShutdown")
	var z, f ID
	for i := range f {
		f[i] = 0xFF
	}
	hs := []ID{z, f}
	for _, p := range pairs {
		hs = append(hs, p[0], p[1])
	}
	nh := 150
	if thorough {
		nh = 3000
	}
	for i := 0; i < nh; i++ {
		hs = append(hs, randID())
	}
	for _, d := range hs {
		out.Add(fmt.Sprintf("CHash %s %d", vh.Bytes(d[:]), d.Hash()), "hash", true, map[string]interface{}{"fn": "ID.Hash", "id": hx(d)})
	}

	// ---- the pair that Proofs/Table.v hard-codes (idA, idB; found once by this search with seed 1) and
	// the history demo_ops of Props/C15.v (C15_nonvacuous): the model's output stated there is
	// compared with the real code here on every run
	fa, fb, fc := hexID("22f28b361e1ec5a05005b2c70a9e5ed9be896d41e5b6f4a3d5a1e3f4d6b808c7"),
		hexID("8f6872661ff816b4ec15cf9b6a691eb4da66194f7c31ba3b9c1c0099ebe7d28f"),
		hexID("0102030405060708090a0b0c0d0e0f101112131415161718191a1b1c1d1e1f20")
	for _, d := range []ID{fa, fb, fc} {
		out.Add(fmt.Sprintf("CHash %s %d", vh.Bytes(d[:]), d.Hash()), "hash", true, map[string]interface{}{"fn": "ID.Hash", "id": hx(d), "note": "constant of Proofs/Table.v"})
	}
	if fa.Hash() != fb.Hash() || fa.Hash() != 827974963 {
		fail("the IDs hard-coded in Proofs/Table.v no longer collide under ID.Hash", "proof-constant-no-collision", map[string]interface{}{"a": hx(fa), "b": hx(fb)})
	}
	lf := func(d ID, pid uint8, job uint16, body int, k byte) leaf { return leaf{dev: d, pid: pid, job: job, body: body, k: k} }
	hl := func(d ID, job uint16) *op {
		return &op{kind: oTalk, p: &pkt{kind: kSingle, top: lf(d, c2.SvHello, job, bHello, 0)}}
	}
	runHistory([]ID{fa, fb, fc}, []*op{hl(fa, 10), hl(fc, 11), {kind: oSend, d: fa, pid: 208, job: 12}, {kind: oSend, d: fb, pid: 209, job: 13},
		{kind: oTalk, p: &pkt{kind: kMultiDev, dev: fc, job: 14, subs: []leaf{lf(fa, 192, 15, bData, 0), lf(fb, 192, 16, bKey, 9), lf(fc, 193, 17, bData, 0)}}},
		{kind: oTalk, p: &pkt{kind: kSingle, top: lf(fb, 192, 18, bKey, 77)}}, hl(fb, 19), {kind: oLookup, d: fb}, {kind: oLookup, d: fa},
		{kind: oTalk, p: &pkt{kind: kSingle, top: lf(fc, 0, 0, bEmpty, 0), tags: []uint32{fa.Hash()}}}, {kind: oRemove, d: fc},
		{kind: oTalk, p: &pkt{kind: kSingle, top: lf(fc, 192, 20, bData, 0)}}}, "corpus")

	// ---- look-alikes: a batch of host A carrying packets / the hello of a device that prints like A (same last 4 bytes; same
	// machine part with ID[28] == 0; same last 4 bytes and same hash), directly, through talkSub, the proxy and a Channel tag
	{
		A := randID()
		A[28] |= 1
		S := sameSuffix(A)
		M1, M2 := sameMachine(randID())
		L1, L2 := lookAlikes[0][0], lookAlikes[0][1]
		lf2 := func(d ID, pid uint8, body int) leaf { return leaf{dev: d, pid: pid, job: nextJob(), body: body} }
		md := func(top ID, subs ...leaf) *op { return &op{kind: oTalk, p: &pkt{kind: kMultiDev, dev: top, job: nextJob(), subs: subs}} }
		for _, pr := range [][2]ID{{A, S}, {M1, M2}, {L1, L2}} {
			h, x := pr[0], pr[1]
			if h.String() != x.String() || h == x {
				panic("look-alike pair does not look alike")
			}
			runHistory([]ID{h, x}, []*op{hello(h), md(h, lf2(x, c2.RvResult, bData)), md(h, lf2(h, c2.RvResult, bData), lf2(x, c2.RvResult, bData)),
				single(x, c2.RvResult, bData, 0), {kind: oTalkSub, n: lf2(x, c2.RvResult, bData)}, {kind: oLookup, d: x}, {kind: oSend, d: x, pid: 0xD0, job: nextJob()},
				md(h, lf2(x, c2.SvHello, bHello), lf2(x, c2.RvResult, bData), lf2(h, c2.RvResult, bData)), {kind: oLookup, d: x}, single(x, c2.RvResult, bData, 0),
				single(h, 0, bEmpty, 0, x.Hash()), {kind: oRemove, d: x}, md(x, lf2(h, c2.RvResult, bData)), {kind: oSessions}}, "corpus-lookalike")
			runProxy([]ID{h, x}, []*pop{{kind: pTalk, n: lf2(h, c2.SvHello, bHello)}, {kind: pTalk, n: lf2(x, c2.RvResult, bData)}, {kind: pTalkSub, n: lf2(x, c2.RvResult, bData)},
				{kind: pAccept, n: lf2(x, 0xD1, bData)}, {kind: pAccept, n: lf2(h, 0xD2, bData)}, {kind: pTalkSub, n: lf2(x, c2.SvHello, bHello)}, {kind: pAccept, n: lf2(x, 0xD3, bData)},
				{kind: pTalk, n: lf2(x, c2.RvResult, bData)}, {kind: pTalk, n: lf2(h, c2.RvResult, bData)}, {kind: pTalkSub, n: lf2(x, c2.SvShutdown, bEmpty)}, {kind: pTalk, n: lf2(h, c2.RvResult, bData)}}, "corpus-proxy-lookalike")
			runChan([]ID{h, x}, []*cop{{kind: cReg, d: h, job: nextJob()}, {kind: cReg, d: x, job: nextJob()}, {kind: cPoll, d: h}, {kind: cPoll, d: x}, {kind: cOpen, d: h},
				{kind: cPkt, d: h, tags: []uint32{x.Hash()}}, {kind: cSend, d: x, pid: 0xD0, job: nextJob()}, {kind: cSend, d: h, pid: 0xD1, job: nextJob()}, {kind: cDrain, d: h},
				{kind: cPkt, d: h}, {kind: cSend, d: x, pid: 0xD2, job: nextJob()}, {kind: cPoll, d: x}, {kind: cPkt, d: x, tags: []uint32{h.Hash()}}}, "corpus-chan-lookalike")
		}
	}

	// ---- corpus: one representative history per known finding / repaired defect
	a, b := pairs[0][0], pairs[0][1]
	c := randID()
	// Server.Session / send through the lookup (repaired by the fix: commit)
	runHistory([]ID{a, b, c}, []*op{hello(a), {kind: oLookup, d: a}, {kind: oLookup, d: b}, {kind: oSend, d: b, pid: 0xD0, job: nextJob()},
		{kind: oSend, d: a, pid: 0xD1, job: nextJob()}, single(a, 0, bEmpty, 0), {kind: oLookup, d: c}, {kind: oSessions}}, "corpus")
	// talk: packet of b lands in a's session (address updated, keys overwritten), no register request
	runHistory([]ID{a, b, c}, []*op{hello(a), single(b, c2.RvResult, bData, 0), single(b, c2.RvResult, bKey, 77), single(a, c2.RvResult, bData, 0),
		single(c, c2.RvResult, bData, 0), {kind: oSessions}}, "corpus")
	// a colliding device can never register
	runHistory([]ID{a, b}, []*op{hello(a), hello(b), hello(b), {kind: oSessions}, {kind: oRemove, d: a}, hello(b), hello(a), {kind: oSessions}}, "corpus")
	// multi-device batch whose top-level device collides: processed as the other device
	runHistory([]ID{a, b, c}, []*op{hello(a), hello(c), {kind: oSend, d: a, pid: 0xD2, job: nextJob()},
		{kind: oTalk, p: &pkt{kind: kMultiDev, dev: b, job: nextJob(), subs: []leaf{{dev: c, pid: c2.RvResult, job: nextJob(), body: bData}}}},
		{kind: oTalk, p: &pkt{kind: kMultiDev, dev: c, job: nextJob(), subs: []leaf{{dev: b, pid: c2.RvResult, job: nextJob(), body: bKey, k: 9}, {dev: a, pid: c2.RvResult, job: nextJob(), body: bData}}}},
		{kind: oTalkSub, n: leaf{dev: b, pid: c2.RvResult, job: nextJob(), body: bData}}, {kind: oTalkSub, n: leaf{dev: b, pid: c2.SvHello, job: nextJob(), body: bHello}},
		{kind: oSessions}}, "corpus")
	// tags, removal, re-registration without collisions
	runHistory([]ID{a, c}, []*op{hello(a), hello(c), {kind: oSend, d: c, pid: 0xD3, job: nextJob()}, single(a, 0, bEmpty, 0, c.Hash(), c.Hash(), 12345),
		{kind: oRemove, d: c}, single(c, c2.RvResult, bData, 0), hello(c), single(a, c2.RvResult, bData, 0, 0), {kind: oSessions}}, "corpus")
	// proxy
	runProxy([]ID{a, b, c}, []*pop{{kind: pTalk, n: leaf{dev: a, pid: c2.SvHello, job: nextJob(), body: bHello}},
		{kind: pAccept, n: leaf{dev: a, pid: 0xD0, job: nextJob(), body: bData}}, {kind: pAccept, n: leaf{dev: b, pid: 0xD1, job: nextJob(), body: bData}},
		{kind: pAccept, n: leaf{dev: c, pid: 0xD1, job: nextJob(), body: bData}},
		{kind: pTalk, n: leaf{dev: b, pid: c2.RvResult, job: nextJob(), body: bData}}, {kind: pTalk, n: leaf{dev: a, pid: c2.RvResult, job: nextJob(), body: bData}},
		{kind: pTalkSub, n: leaf{dev: b, pid: c2.RvResult, job: nextJob(), body: bData}}, {kind: pTalk, n: leaf{dev: b, pid: c2.SvHello, job: nextJob(), body: bHello}},
		{kind: pTalk, n: leaf{dev: c, pid: c2.RvResult, job: nextJob(), body: bData}}}, "corpus-proxy")
	// shutdown announcements: of an unregistered colliding device (nothing changes, re-registration request), of an
	// unknown device, of the registered client (its entry goes, its next packet gets the request), through talk and talkSub
	runProxy([]ID{a, b, c}, []*pop{{kind: pTalkSub, n: leaf{dev: a, pid: c2.SvHello, job: nextJob(), body: bHello}},
		{kind: pTalkSub, n: leaf{dev: b, pid: c2.SvShutdown, job: nextJob(), body: bEmpty}}, {kind: pTalk, n: leaf{dev: b, pid: c2.SvShutdown, job: nextJob(), body: bEmpty}},
		{kind: pTalkSub, n: leaf{dev: c, pid: c2.SvShutdown, job: nextJob(), body: bData}}, {kind: pTalkSub, n: leaf{dev: a, pid: c2.SvDrop, job: nextJob(), body: bEmpty}},
		{kind: pTalkSub, n: leaf{dev: a, pid: c2.SvResync, job: nextJob(), body: bData}}, {kind: pTalkSub, n: leaf{dev: a, pid: c2.SvShutdown, job: nextJob(), body: bEmpty}},
		{kind: pTalkSub, n: leaf{dev: a, pid: c2.RvResult, job: nextJob(), body: bData}}, {kind: pTalk, n: leaf{dev: c, pid: c2.SvHello, job: nextJob(), body: bHello}},
		{kind: pTalk, n: leaf{dev: c, pid: c2.SvShutdown, job: nextJob(), body: bEmpty}}, {kind: pTalk, n: leaf{dev: c, pid: c2.RvResult, job: nextJob(), body: bData}}}, "corpus-proxy")

	// ---- random histories
	nHist, nProxy := 260, 120
	if thorough {
		nHist, nProxy = 8000, 3000
	}
	for i := 0; i < nHist; i++ {
		pool := genPool(pairs)
		jobCounter = 0
		n := 6 + rng.Intn(25)
		ops := make([]*op, 0, n+2)
		// most histories start by registering a couple of devices
		for j, m := 0, rng.Intn(3); j < m; j++ {
			ops = append(ops, hello(pick(pool)))
		}
		for j := 0; j < n; j++ {
			ops = append(ops, genOp(pool))
		}
		runHistory(pool, ops, "hist")
	}
	for i := 0; i < nProxy; i++ {
		pool := genPool(pairs)
		jobCounter = 0
		n := 6 + rng.Intn(20)
		ops := make([]*pop, 0, n)
		for j := 0; j < n; j++ {
			o := &pop{n: genLeaf(pool, pick(pool))}
			if o.n.body == bKey {
				o.n.body = bData // the proxy never reads key material
			}
			switch r := rng.Intn(10); {
			case r < 4:
				o.kind, o.tags = pTalk, genTags(pool)
			case r < 7:
				o.kind, o.o = pTalkSub, rng.Intn(4) == 0
			default:
				o.kind = pAccept
				if o.n.pid == c2.SvHello {
					o.n.pid, o.n.body = uint8(0xD0+rng.Intn(8)), bData
				}
			}
			if o.kind != pAccept && o.n.pid != c2.SvHello && rng.Intn(9) == 0 { // a client announces its shutdown
				o.n.pid = c2.SvShutdown
				if rng.Bool() {
					o.n.body = bEmpty
				}
			}
			ops = append(ops, o)
		}
		runProxy(pool, ops, "proxy")
	}
	// ---- Channels: corpus
	{
		a, b := pairs[0][0], pairs[0][1]
		c, d := randID(), randID()
		reg := func(x ID) *cop { return &cop{kind: cReg, d: x, job: nextJob()} }
		snd := func(x ID) *cop { return &cop{kind: cSend, d: x, pid: uint8(0xD0 + rng.Intn(8)), job: nextJob()} }
		pk := func(x ID, t ...uint32) *cop { return &cop{kind: cPkt, d: x, tags: t} }
		// chan_demo of Proofs/Table.v (C15_channel_nonvacuous)
		runChan([]ID{fa, fc}, []*cop{{kind: cReg, d: fa, job: 10}, {kind: cReg, d: fc, job: 11}, {kind: cPoll, d: fa}, {kind: cPoll, d: fc}, {kind: cOpen, d: fa},
			pk(fa, fc.Hash()), {kind: cSend, d: fc, pid: 208, job: 12}, pk(fa), {kind: cSend, d: fc, pid: 209, job: 13}}, "corpus-chan")
		// packets without a Device: to a directly connected device, to a device routed into a's Channel, what leaves where
		sna := func(x ID) *cop { return &cop{kind: cSendAs, d: x, pid: uint8(0xD0 + rng.Intn(8)), job: nextJob()} }
		runChan([]ID{a, c, d}, []*cop{reg(a), reg(c), reg(d), {kind: cPoll, d: a}, {kind: cPoll, d: c}, {kind: cPoll, d: d}, sna(d), {kind: cPoll, d: d},
			{kind: cOpen, d: a}, pk(a, c.Hash()), sna(c), snd(c), {kind: cDrain, d: a}, sna(a), {kind: cDrain, d: a}, pk(a), sna(c), {kind: cPoll, d: c}, {kind: cDrain, d: a}}, "corpus-chan")
		// the host tags c, then nobody (empty list), then c again, then ends; a packet is queued for c in each phase
		runChan([]ID{a, c}, []*cop{reg(a), reg(c), {kind: cPoll, d: a}, {kind: cPoll, d: c}, {kind: cOpen, d: a}, pk(a, c.Hash()), snd(c), pk(a), snd(c),
			{kind: cPoll, d: c}, pk(a, c.Hash()), snd(c), {kind: cClose, d: a}, snd(c), {kind: cPoll, d: c}, {kind: cPoll, d: a}}, "corpus-chan")
		// full list, shorter list, unknown tag, duplicate, own tag, colliding (unregistered) id, zero tag
		runChan([]ID{a, b, c, d}, []*cop{reg(a), reg(c), reg(d), reg(b), {kind: cOpen, d: a}, snd(c), snd(d), pk(a, c.Hash(), d.Hash()), snd(c), snd(d),
			pk(a, d.Hash(), 12345, d.Hash(), a.Hash()), snd(c), snd(d), pk(b), {kind: cOpen, d: b}, snd(b), pk(a, c.Hash(), 0, d.Hash()), snd(c), snd(d),
			{kind: cPoll, d: c}, {kind: cPoll, d: d}, {kind: cPoll, d: a}}, "corpus-chan")
		// two hosts tag the same device
		runChan([]ID{a, c, d}, []*cop{reg(a), reg(c), reg(d), {kind: cOpen, d: a}, {kind: cOpen, d: c}, pk(a, d.Hash()), pk(c, d.Hash()), snd(d), pk(a), snd(d),
			pk(c, d.Hash()), snd(d), {kind: cClose, d: c}, snd(d), {kind: cPoll, d: d}, {kind: cClose, d: a}, {kind: cPoll, d: a}, {kind: cPoll, d: c}}, "corpus-chan")
	}
	nChan := 150
	if thorough {
		nChan = 4000
	}
	for i := 0; i < nChan; i++ {
		pool := genPool(pairs)
		var np []ID
		for _, d := range pool {
			if !d.Empty() {
				np = append(np, d)
			}
		}
		pool = np
		jobCounter = 0
		n := 8 + rng.Intn(25)
		ops := make([]*cop, 0, n+4)
		for j, m := 0, 2+rng.Intn(3); j < m; j++ {
			ops = append(ops, &cop{kind: cReg, d: pick(pool), job: nextJob()})
		}
		ops = append(ops, &cop{kind: cOpen, d: ops[0].d})
		var prev []uint32
		for j := 0; j < n; j++ {
			o := &cop{d: pick(pool)}
			switch r := rng.Intn(100); {
			case r < 8:
				o.kind, o.job = cReg, nextJob()
			case r < 16:
				o.kind = cOpen
			case r < 50:
				o.kind = cPkt
				if rng.Intn(3) > 0 { // mostly a packet of a host that is (probably) in Channel mode
					o.d = ops[len(ops)-1-rng.Intn(len(ops))].d
				}
				switch x := rng.Intn(10); {
				case x < 3: // the empty list
				case x < 5 && len(prev) > 0: // a shorter list / the same list
					o.tags = append([]uint32(nil), prev[:rng.Intn(len(prev)+1)]...)
				default:
					for q, m := 0, 1+rng.Intn(4); q < m; q++ {
						switch y := rng.Intn(16); {
						case y == 0:
							o.tags = append(o.tags, 0)
						case y == 1:
							o.tags = append(o.tags, uint32(rng.U64())|1)
						default:
							o.tags = append(o.tags, pick(pool).Hash())
						}
					}
				}
				prev = o.tags
			case r < 55:
				o.kind = cClose
			case r < 76:
				o.kind, o.pid, o.job = cSend, uint8(0xD0+rng.Intn(8)), nextJob()
			case r < 84:
				o.kind, o.pid, o.job = cSendAs, uint8(0xD0+rng.Intn(8)), nextJob()
			case r < 91:
				o.kind = cDrain
				if rng.Intn(3) > 0 {
					o.d = ops[0].d
				}
			default:
				o.kind = cPoll
			}
			ops = append(ops, o)
		}
		runChan(pool, ops, "chan")
	}
	// ---- a client behind A's Proxy: small, just below / above limits.Frag, several fragments
	{
		F := limits.Frag
		sizes := []int{0, 3, F - 100, F - 51, F - 50, F - 49, F - 10, F + 1, F + 4096, 2*F + 100}
		snd := func(d ID, n int) *fop { return &fop{kind: fSend, d: d, pid: uint8(0xC0 + rng.Intn(16)), job: nextJob(), payload: n} }
		a, b := pairs[0][0], pairs[0][1]
		c, d := randID(), randID()
		var ops []*fop
		ops = append(ops, &fop{kind: fHello, d: c, job: nextJob()}, &fop{kind: fPump})
		for _, n := range sizes {
			ops = append(ops, snd(c, n), &fop{kind: fPump})
		}
		runFwd(a, []ID{c}, ops, "corpus-fwd")
		// two clients, interleaved fragments, a sender that is not registered at the Proxy (its ID collides with A's), a second hello
		runFwd(a, []ID{b, c, d}, []*fop{{kind: fHello, d: c, job: nextJob()}, {kind: fHello, d: d, job: nextJob()}, snd(c, F+1), snd(d, 2*F+100),
			snd(b, F+1), snd(b, 5), {kind: fPump}, snd(randID(), 10), {kind: fHello, d: c, job: nextJob()}, snd(c, 7), snd(d, F-100), {kind: fPump}}, "corpus-fwd")
		nFwd := 12
		if thorough {
			nFwd = 150
		}
		for i := 0; i < nFwd; i++ {
			pool := genPool(pairs)
			var np []ID
			for _, x := range pool {
				if !x.Empty() {
					np = append(np, x)
				}
			}
			host := np[0]
			// a client whose ID collides with the host's is kept out: Proxy.talk queues the SAME hello packet twice,
			// the second reference goes out empty, the Listener refuses an empty hello of a sender it treats as
			// unregistered and drops the rest of that container (where containers end is not modelled)
			var cl []ID
			for _, x := range np {
				if x == host || x.Hash() != host.Hash() {
					cl = append(cl, x)
				}
			}
			np = cl
			jobCounter = 0
			var ops []*fop
			for j, m := 0, 1+rng.Intn(3); j < m; j++ {
				ops = append(ops, &fop{kind: fHello, d: pick(np), job: nextJob()})
			}
			big := 0
			for j, m := 0, 4+rng.Intn(10); j < m; j++ {
				switch r := rng.Intn(10); {
				case r < 1:
					ops = append(ops, &fop{kind: fHello, d: pick(np), job: nextJob()})
				case r < 7:
					n := sizes[rng.Intn(len(sizes))]
					if n > F-200 {
						if big >= 4 {
							n = rng.Intn(64)
						}
						big++
					}
					ops = append(ops, snd(pick(np), n))
				default:
					ops = append(ops, &fop{kind: fPump})
				}
			}
			ops = append(ops, &fop{kind: fPump})
			runFwd(host, np, ops, "fwd")
		}
	}
	// ---- every combination of {FlagMulti, FlagMultiDevice, FlagFrag, FlagProxy} x device x body, on a Channel
	// connection and on a polling connection
	{
		h, cl := pairs[0][0], pairs[0][1] // cl: not registered, same hash as h
		x, y, u := randID(), randID(), randID()
		ids := []ID{h, cl, x, y, u}
		job := uint16(100)
		nj := func() uint16 { job++; return job }
		shapes := func(d ID, fl int) []*xpkt {
			mk := func(cnt, body int, subs ...ID) *xpkt {
				p := &xpkt{dev: d, pid: c2.RvResult, job: nj(), multi: fl&1 != 0, mdev: fl&2 != 0, frag: fl&4 != 0, proxy: fl&8 != 0, cnt: cnt, body: body}
				for _, s := range subs {
					p.subs = append(p.subs, xsub{s, uint8(0xC0 + rng.Intn(16)), nj()})
				}
				if body == xbCont {
					p.cnt = len(subs)
				}
				return p
			}
			return []*xpkt{mk(0, xbPlain), mk(1, xbPlain), mk(2, xbPlain), mk(0, xbCont, h), mk(0, xbCont, x), mk(0, xbCont, h, x, u, cl, y), mk(1, xbBad)}
		}
		setup := []*xop{{kind: xReg, d: h, job: 1}, {kind: xReg, d: x, job: 2}, {kind: xReg, d: y, job: 3}}
		var chanOps, pollOps []*xop
		for fl := 0; fl < 16; fl++ {
			for _, d := range []ID{h, x, u, cl} {
				for _, p := range shapes(d, fl) {
					chanOps = append(chanOps, &xop{kind: xOpen, d: h}, &xop{kind: xChan, d: h, n: p})
				}
				for _, p := range shapes(d, fl) {
					pollOps = append(pollOps, &xop{kind: xPoll, n: p})
				}
			}
		}
		chunk := func(ops []*xop, n int, class string) {
			for i := 0; i < len(ops); i += n {
				e := i + n
				if e > len(ops) {
					e = len(ops)
				}
				runFlag(ids, append(append([]*xop(nil), setup...), ops[i:e]...), class)
			}
		}
		chunk(chanOps, 56, "flags-channel")
		chunk(pollOps, 28, "flags-poll")
		nFlag := 10
		if thorough {
			nFlag = 400
		}
		for i := 0; i < nFlag; i++ {
			pool := genPool(pairs)
			var np []ID
			for _, d := range pool {
				if !d.Empty() {
					np = append(np, d)
				}
			}
			job = 100
			var ops []*xop
			for j, m := 0, 2+rng.Intn(3); j < m; j++ {
				ops = append(ops, &xop{kind: xReg, d: pick(np), job: nj()})
			}
			withChan := rng.Bool()
			host := ops[0].d
			for j, m := 0, 10+rng.Intn(20); j < m; j++ {
				fl := rng.Intn(16)
				p := &xpkt{dev: pick(np), pid: uint8(0xC0 + rng.Intn(16)), job: nj(), multi: fl&1 != 0, mdev: fl&2 != 0, frag: fl&4 != 0, proxy: fl&8 != 0, cnt: rng.Intn(3)}
				switch rng.Intn(4) {
				case 0:
					p.body = xbBad
				case 1, 2:
					p.body = xbCont
					for q, mm := 0, rng.Intn(4); q < mm; q++ {
						p.subs = append(p.subs, xsub{pick(np), uint8(0xC0 + rng.Intn(16)), nj()})
					}
					p.cnt = len(p.subs)
				}
				if withChan {
					if rng.Intn(3) == 0 {
						p.dev = host
					}
					ops = append(ops, &xop{kind: xOpen, d: host}, &xop{kind: xChan, d: host, n: p})
				} else {
					ops = append(ops, &xop{kind: xPoll, n: p})
				}
			}
			runFlag(np, ops, "flags")
		}
	}
	fs := map[string]int{}
	for k, v := range failSeen {
		fs[k] = v
	}
	out.Extra("oracle_failures_by_key", fs)
	out.Finish()
}
