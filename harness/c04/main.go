// C04 harness: every XMT-authored decoder of network bytes, driven on hostile input.
//
// The parent process generates the inputs (one PRNG), the WORKER child (same binary, -worker,
// RLIMIT_AS = 3 GiB) runs the real code from /repo under recover() and measures the
// runtime.MemStats.TotalAlloc delta of each call, so that a makeslice of terabytes, a fatal
// out-of-memory or a spinning decoder kills/blocks the child and not the check.  Outcome class
// and allocation class are compared with the Gallina model (cases_*.v) and judged directly by
// the oracle (no panic, no death, no hang, allocation <= 64*|input| + 1 MiB).
package main

import (
	"bufio"
	"encoding/hex"
	"encoding/json"
	"flag"
	"fmt"
	"os"
	"os/exec"
	"strconv"
	"strings"
	"time"

	"verifharness/vh"
)

var (
	workerFlag = flag.Bool("worker", false, "run as the executing child")
	out        *vh.Out
	rng        *vh.Rand
	wk         *worker
	thorough   bool
)

// ---------------------------------------------------------------- parent side of the pipe

type resp struct {
	Class  string // ok | err | panic | dead | hang
	Code   int
	Digest []uint64
	Base   uint64 // allocation of a valid minimal exchange (connection-level decoders only)
	Alloc  uint64
	Msg    string
	Extra  string
	Term   string // a Coq case term built by the worker (json decoder)
}

type worker struct {
	cmd   *exec.Cmd
	in    *bufio.Writer
	out   *bufio.Reader
	lines chan string
	spawn int
}

func (w *worker) start() {
	w.cmd = exec.Command(os.Args[0], "-worker", "-out", os.DevNull)
	w.cmd.Stderr = nil
	si, _ := w.cmd.StdinPipe()
	so, _ := w.cmd.StdoutPipe()
	w.in = bufio.NewWriterSize(si, 1<<16)
	w.out = bufio.NewReaderSize(so, 1<<20)
	if err := w.cmd.Start(); err != nil {
		fmt.Fprintln(os.Stderr, "cannot start worker:", err)
		os.Exit(2)
	}
	w.spawn++
	lines := make(chan string, 4)
	w.lines = lines
	rd := w.out
	go func() {
		for {
			s, err := rd.ReadString('\n')
			if err != nil {
				close(lines)
				return
			}
			lines <- s
		}
	}()
}
func (w *worker) kill() {
	if w.cmd != nil && w.cmd.Process != nil {
		w.cmd.Process.Kill()
		w.cmd.Wait()
	}
	w.cmd = nil
}

// call runs decoder `dec` on `in` inside the worker.
func (w *worker) call(dec string, in []byte) resp {
	if w.cmd == nil {
		w.start()
	}
	fmt.Fprintf(w.in, "%s %s\n", dec, hex.EncodeToString(in))
	w.in.Flush()
	select {
	case s, ok := <-w.lines:
		if !ok {
			w.kill()
			return resp{Class: "dead"}
		}
		return parseResp(s)
	case <-time.After(3 * time.Second):
		w.kill()
		return resp{Class: "hang"}
	}
}

func parseResp(s string) resp {
	// class code alloc digest(comma separated) msg(hex) extra(hex)
	f := strings.Split(strings.TrimSpace(s), " ")
	var r resp
	if len(f) < 7 {
		return resp{Class: "dead", Msg: "bad worker line: " + s}
	}
	r.Class = f[0]
	r.Code, _ = strconv.Atoi(f[1])
	r.Alloc, _ = strconv.ParseUint(f[2], 10, 64)
	r.Base, _ = strconv.ParseUint(f[6], 10, 64)
	if len(f) > 7 {
		t, _ := hex.DecodeString(strings.TrimPrefix(f[7], "x"))
		r.Term = string(t)
	}
	if f[3] != "-" {
		for _, x := range strings.Split(f[3], ",") {
			v, _ := strconv.ParseUint(x, 10, 64)
			r.Digest = append(r.Digest, v)
		}
	}
	m, _ := hex.DecodeString(strings.TrimPrefix(f[4], "x"))
	r.Msg = string(m)
	e, _ := hex.DecodeString(strings.TrimPrefix(f[5], "x"))
	r.Extra = string(e)
	return r
}

// ---------------------------------------------------------------- judging and recording

const MiB = 1 << 20

// the rule: bytes allocated while decoding / serving <= 128 * |input| + 1 MiB (+ for a whole
// connection: what a VALID minimal exchange under the same wrapper/transform allocates, e.g. the
// 1.3 MB a zlib writer needs for the answer, reported by the worker as `base`)
func thr(n int) uint64 { return 128*uint64(n) + MiB }

func ints(b []byte) []int {
	o := make([]int, len(b))
	for i, v := range b {
		o[i] = int(v)
	}
	return o
}

func digestTerm(d []uint64) string {
	var sb strings.Builder
	sb.WriteByte('[')
	for i, v := range d {
		if i > 0 {
			sb.WriteByte(';')
		}
		sb.WriteString(strconv.FormatUint(v, 10))
	}
	sb.WriteByte(']')
	return sb.String()
}

// isConn: the decoders that drive the real connection handler: hs (unregistered), hr (registered
// directly), hq (sequence of connections), hf / hg (the same two for a device that was registered
// through the FORWARDED path: its hello inside a Multi container of a registered peer, talkSub)
func isConn(dec string) bool {
	return len(dec) > 3 && dec[2] == ':' && dec[0] == 'h' && strings.IndexByte("srqfg", dec[1]) >= 0
}

var failCount = map[string]int{}

// aliased: receive() cases in which the implementation wrote into its own input buffer (judged by
// the oracle only, see more.go)
var aliased int

func fail(what, key string, desc map[string]interface{}) {
	failCount[key]++
	if failCount[key] <= 3 {
		out.Fail(what, key, desc)
	}
}

// decoders with a model: name -> Coq constructor
var coqDec = map[string]string{
	"dns": "DDns", "strlistC": "DStrListC", "strlistS": "DStrListS", "bytesC": "DBytesC", "bytesS": "DBytesS",
	"pktWire": "DPacketWire", "pktStream": "DPacketStream",
	"machine": "DMachine", "network": "DNetwork", "proxy:0": "(DProxyData false)", "proxy:1": "(DProxyData true)",
	"devinfo:0": "(DDevInfo 0)", "devinfo:2": "(DDevInfo 2)", "devinfo:3": "(DDevInfo 3)", "devinfo:4": "(DDevInfo 4)", "devinfo:5": "(DDevInfo 5)",
}

var resultDecs = []string{"Pwd", "Spawn", "CheckDLL", "Mounts", "Ls", "WindowList", "FuncRemapList", "UserLogins",
	"ProcessList", "Registry", "Upload", "Whoami", "SystemIO", "Pull", "Assembly", "Process", "Download"}

func init() {
	for _, r := range resultDecs {
		coqDec["res:"+r] = "(DResult R" + r + ")"
	}
}

// stream-reader call sites share one allocation site (reader.Bytes): one finding key
func allocKey(dec string) string {
	switch dec {
	case "bytesS", "strlistS":
		return "stream-bytes-alloc"
	}
	if isConn(dec) && (strings.Contains(dec, "zlib") || strings.Contains(dec, "gzip")) {
		return "inflate-alloc" // the connection handler behind a compressing wrapper
	}
	return dec + "-alloc"
}

var seenIn = map[string]struct{}{}

// oracleOnly: the cases run while it is set are not emitted for the model
var oracleOnly bool

// run executes one case, emits it for the model (if the decoder is modelled) and judges it.
func run(dec string, in []byte, class string) resp {
	k := dec + "|" + string(in)
	if _, ok := seenIn[k]; ok {
		return resp{Class: "dup"}
	}
	seenIn[k] = struct{}{}
	if failCount[dec+"-hang"] >= 2 {
		// the run is a VIOLATION already; every further hang costs the time-out
		out.Count(dec+"/skipped-after-hang", k, false)
		return resp{Class: "skipped"}
	}
	r := wk.call(dec, in)
	if isConn(dec) && r.Class != "dead" && r.Class != "hang" && r.Alloc > thr(len(in))+r.Base {
		// a whole connection: pooled buffers and writers (sync.Pool) are re-allocated after a
		// garbage collection, which is noise of up to a few MB; an allocation that is out of
		// proportion repeats: the smallest of three runs is judged
		for i := 0; i < 2; i++ {
			if r2 := wk.call(dec, in); r2.Class == r.Class && r2.Alloc < r.Alloc {
				r.Alloc = r2.Alloc
			}
		}
	}
	desc := map[string]interface{}{"decoder": dec, "input": ints(in), "hex": hex.EncodeToString(in), "outcome": r.Class, "alloc": r.Alloc}
	if r.Msg != "" {
		desc["message"] = r.Msg
	}
	cls := 0
	switch {
	case r.Class == "dead":
		cls = 2
	case r.Alloc > thr(len(in))+r.Base:
		cls = 1
	}
	nontrivial := len(in) > 0 && (r.Class == "ok" || r.Code != 1 || cls != 0)
	if oracleOnly {
		// inputs of several hundred KB: the model's list recursion overflows coqc's stack on them;
		// they are judged by the oracle (no panic, allocation in proportion) only
		out.Count(dec+"/"+class+"-oracle-only", k, nontrivial)
	} else if c, ok := coqDec[dec]; ok && r.Class != "hang" {
		o := "Panic"
		switch r.Class {
		case "ok":
			o = vh.ResOk(digestTerm(r.Digest))
		case "err":
			o = vh.ResErr(r.Code)
		case "dead":
			o = vh.ResErr(0)
		}
		out.Add(fmt.Sprintf("C %s %s %s %d", c, vh.Bytes(in), o, cls), dec+"/"+class, nontrivial, desc)
	} else if dec == "json" && r.Term != "" {
		out.Add(r.Term, dec+"/"+class, nontrivial, desc)
	} else if (dec == "recv" || dec == "recvseq" || dec == "recvseqf") && r.Term == "ALIAS" {
		aliased++
		out.Count(dec+"/"+class+"-aliased", k, nontrivial)
	} else if (dec == "recv" || dec == "recvseq" || dec == "recvseqf") && r.Class != "hang" {
		o := "Panic"
		switch r.Class {
		case "ok":
			o = vh.ResOk(digestTerm(r.Digest))
		case "err":
			o = vh.ResErr(r.Code)
		case "dead":
			o = vh.ResErr(0)
		}
		a := devA()
		ctor := "CRecv"
		if dec == "recvseq" {
			ctor = "CRecvSeq"
		}
		if dec == "recvseqf" {
			ctor, a = "CRecvSeqF", devQ()
		}
		out.Add(fmt.Sprintf("%s %s %s %s %d", ctor, vh.Bytes(a[:]), vh.Bytes(in), o, cls), dec+"/"+class, nontrivial, desc)
	} else if strings.HasPrefix(dec, "b64:") && r.Class != "hang" {
		o := "Panic"
		switch r.Class {
		case "ok":
			o = vh.ResOk(digestTerm(r.Digest))
		case "err":
			o = vh.ResErr(r.Code)
		case "dead":
			o = vh.ResErr(0)
		}
		d := vh.ResErr(99) // base64.CorruptInputError
		if b, ok := stdB64(in); ok {
			d = vh.ResOk(vh.Bytes(b))
		}
		out.Add(fmt.Sprintf("CB64 %s %s %s %s %d", dec[4:], vh.Bytes(in), d, o, cls), dec+"/"+class, nontrivial, desc)
	} else {
		out.Count(dec+"/"+class, k, nontrivial)
	}
	// the oracle: the property itself on the implementation
	switch r.Class {
	case "panic":
		fail(dec+" panics on input bytes: "+r.Msg, dec+"-panic", desc)
	case "dead":
		fail(dec+": the process died (fatal out-of-memory) on a "+strconv.Itoa(len(in))+"-byte input", allocKey(dec), desc)
	case "hang":
		fail("handler-spins: "+dec+" has consumed all its input and is still running after the 3 s deadline", dec+"-hang", desc)
	default:
		if cls == 1 {
			fail(fmt.Sprintf("%s allocates %d bytes for a %d-byte input (allowed: %d)", dec, r.Alloc, len(in), thr(len(in))+r.Base), allocKey(dec), desc)
		}
		if r.Extra != "" {
			fail(dec+": "+r.Extra, dec+"-"+strings.SplitN(r.Extra, ":", 2)[0], desc)
		}
	}
	return r
}

// ---------------------------------------------------------------- generic hostile derivations

var mutVals = []byte{0, 1, 0x7f, 0x80, 0xff}

// derive: the valid message, every truncation (at most ~48, always the short ones and the last
// ones), one trailing byte, and single-byte mutations of the bytes at `pos` (the length/count
// fields): five boundary values plus the two neighbours of the original value.
func derive(dec string, m []byte, pos []int) {
	run(dec, m, "valid")
	for i := 0; i < len(m); i++ {
		if len(m) > 40 && i > 20 && i < len(m)-10 && !thorough {
			if i%((len(m)/8)+1) != 0 {
				continue
			}
		}
		run(dec, m[:i], "truncated")
	}
	run(dec, append(append([]byte{}, m...), 0), "trailing")
	for _, p := range pos {
		if p < 0 {
			p += len(m)
		}
		if p < 0 || p >= len(m) {
			continue
		}
		for _, v := range mutVals {
			if v == m[p] {
				continue
			}
			x := append([]byte{}, m...)
			x[p] = v
			run(dec, x, "mutated")
		}
		for _, d := range []byte{1, 0xff} {
			x := append([]byte{}, m...)
			x[p] += d
			run(dec, x, "mutated")
		}
	}
}

func upto(n int) []int {
	r := make([]int, n)
	for i := range r {
		r[i] = i
	}
	return r
}

var alphabet = []byte{0, 1, 3, 5, 7, 0x40, 0x80, 0xff}

func exhaustive(dec string, prefix []byte, maxLen int) {
	var rec func(cur []byte)
	rec = func(cur []byte) {
		run(dec, append(append([]byte{}, prefix...), cur...), "exhaustive")
		if len(cur) == maxLen {
			return
		}
		for _, a := range alphabet {
			rec(append(cur, a))
		}
	}
	rec(nil)
}

func random(dec string, count, maxLen int) {
	for i := 0; i < count; i++ {
		n := rng.Intn(maxLen + 1)
		b := rng.Bytes(n)
		// bias the first bytes towards the class bytes of the codec
		if n > 0 && rng.Intn(2) == 0 {
			b[0] = alphabet[rng.Intn(len(alphabet))]
		}
		if n > 1 && rng.Intn(3) == 0 {
			b[1] = byte(rng.Intn(4))
		}
		run(dec, b, "random")
	}
}

// replayOne runs the single input of a replay file (as written by ./check or seeded/*/replay.json).
func replayOne(path string) {
	raw, err := os.ReadFile(path)
	if err != nil {
		fmt.Fprintln(os.Stderr, "cannot read the replay file:", err)
		os.Exit(2)
	}
	var r struct {
		Input struct {
			Decoder string `json:"decoder"`
			Hex     string `json:"hex"`
		} `json:"input"`
	}
	if err := json.Unmarshal(raw, &r); err != nil || r.Input.Decoder == "" {
		fmt.Fprintln(os.Stderr, "not a C04 replay file:", err)
		os.Exit(2)
	}
	in, _ := hex.DecodeString(r.Input.Hex)
	if strings.HasPrefix(r.Input.Decoder, "h") && profiles == nil {
		mkProfiles()
	}
	run(r.Input.Decoder, in, "replay")
	if _, ok := coqDec[r.Input.Decoder]; !ok {
		run("bytesC", []byte{0}, "replay") // at least one model case, so that a shard exists
	}
}

// ---------------------------------------------------------------- main

func main() {
	fl := vh.ParseFlags()
	if *workerFlag {
		workerMain()
		return
	}
	thorough = fl.Tier == "thorough"
	out = vh.NewOut("C04", fl, "From XMT Require Import Base.Prelude Model.Codec Model.Decoders.", "case", "check",
		"non-trivial = non-empty input whose outcome is not a plain io.EOF with a small allocation")
	out.ShardSize = 400
	rng = vh.NewRand(fl.Seed)
	wk = &worker{}
	defer wk.kill()

	t0 := time.Now()
	if fl.Replay != "" {
		replayOne(fl.Replay)
	} else {
		generate()
	}
	out.Extra("worker_spawns", wk.spawn)
	out.Extra("receive_cases_with_in_place_append_into_the_input_buffer", aliased)
	out.Extra("harness_seconds", time.Since(t0).Seconds())
	keys := []string{}
	for k, n := range failCount {
		keys = append(keys, fmt.Sprintf("%s=%d", k, n))
	}
	out.Extra("oracle_failures_by_key", keys)
	out.Finish()
}
