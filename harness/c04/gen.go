package main

// Case generation: corpus (one representative per recorded defect) first, then for every
// decoder valid messages with every truncation and single-byte mutation, exhaustive short
// strings over a reduced alphabet, and random bytes.

import (
	"bytes"
	"strings"

	"github.com/iDigitalFlame/xmt/com"
	"github.com/iDigitalFlame/xmt/data"
	"github.com/iDigitalFlame/xmt/device"
)

// ---------------------------------------------------------------- builders of valid messages

// dnsEncode mirrors transform.encodePacket (client form: no answer record; server form: one
// A record before the data records) for one packet of at most 2048 payload bytes.
func dnsEncode(p []byte, domain string, server bool) []byte {
	var b bytes.Buffer
	c := len(p)
	if c > 2048 {
		c = 2048
	}
	t := c / 256
	if t*256 < c || t == 0 {
		t++
	}
	mk := func(n int) {
		for i := 0; i < n; i++ {
			marks = append(marks, b.Len()+i)
		}
	}
	b.Write([]byte{0x12, 0x34})
	mk(10) // flags and the four counts
	if server {
		b.Write([]byte{132, 128, 0, 1, 0, 1, 0, 0})
	} else {
		b.Write([]byte{1, 0, 0, 1, 0, 0, 0, 0})
	}
	b.Write([]byte{byte(t >> 8), byte(t)})
	for _, l := range strings.Split(domain, ".") {
		mk(1)
		b.WriteByte(byte(len(l)))
		b.WriteString(l)
	}
	mk(1)
	b.Write([]byte{0, 0, 1, 0, 1})
	if server {
		marks = append(marks, b.Len()+10, b.Len()+11)
		b.Write([]byte{192, 12, 0, 1, 0, 1, 0, 0, 3, 9, 0, 4, 1, 2, 3, 4})
	}
	i := 0
	for x := 0; x < t && i < c; x++ {
		j := 256
		if k := len(p) - i; k < 256 {
			j = k
		}
		if x < 2 {
			marks = append(marks, b.Len(), b.Len()+3, b.Len()+5, b.Len()+10, b.Len()+11)
		}
		b.Write([]byte{192, 12, 0, 10, 0, 1, 0, 0, 0, 0, byte(j >> 8), byte(j)})
		b.Write(p[i : i+j])
		i += j
	}
	return b.Bytes()
}

func pat(n int, seed byte) []byte {
	b := make([]byte, n)
	for i := range b {
		b[i] = seed + byte(i*7)
	}
	return b
}

// marks collects the offsets of the count / length / class bytes of the message being built.
var marks []int

func mark(c *data.Chunk, n int) {
	for i := 0; i < n; i++ {
		marks = append(marks, c.Size()+i)
	}
}
func takeMarks() []int { m := marks; marks = nil; return m }

type field int

const (
	fU8 field = iota
	fU16
	fU32
	fU64
	fBytes
)

// writeFields appends one element of the given shape with pseudo-random content.
func writeFields(c *data.Chunk, fs []field, strLen int) {
	for _, f := range fs {
		switch f {
		case fU8:
			c.WriteUint8(uint8(rng.U64()))
		case fU16:
			c.WriteUint16(uint16(rng.U64()))
		case fU32:
			c.WriteUint32(uint32(rng.U64()))
		case fU64:
			c.WriteUint64(rng.U64())
		case fBytes:
			n := strLen
			if n < 0 {
				n = rng.Intn(6)
			}
			mark(c, 2)
			c.WriteBytes(pat(n, byte(rng.U64())))
		}
	}
}

var (
	fLs     = []field{fBytes, fU32, fU64, fU64}
	fWindow = []field{fU64, fBytes, fU8, fU32, fU32, fU32, fU32}
	fFunc   = []field{fU32, fU64, fU64}
	fLogin  = []field{fU32, fU8, fU64, fU64, fU64, fU64, fBytes, fBytes}
	fProc   = []field{fU32, fU32, fBytes, fBytes}
	fReg    = []field{fBytes, fU32, fBytes}
)

func payload(c *data.Chunk) []byte { return append([]byte{}, c.Payload()...) }

func countedMsg(cw int, n int, fs []field) []byte {
	var c data.Chunk
	mark(&c, cw)
	if cw == 2 {
		c.WriteUint16(uint16(n))
	} else {
		c.WriteUint32(uint32(n))
	}
	for i := 0; i < n; i++ {
		writeFields(&c, fs, -1)
	}
	return payload(&c)
}

func resultValid(name string) [][]byte {
	plain := func(fs ...field) [][]byte {
		var c, d data.Chunk
		writeFields(&c, fs, -1)
		writeFields(&d, fs, 300)
		return [][]byte{payload(&c), payload(&d)}
	}
	switch name {
	case "Pwd":
		return plain(fBytes)
	case "Spawn":
		return plain(fU32)
	case "CheckDLL":
		return [][]byte{{0}, {1}, {2}}
	case "Mounts":
		return strlistValid()
	case "Ls":
		return [][]byte{countedMsg(4, 0, fLs), countedMsg(4, 1, fLs), countedMsg(4, 3, fLs)}
	case "WindowList":
		return [][]byte{countedMsg(4, 0, fWindow), countedMsg(4, 1, fWindow), countedMsg(4, 3, fWindow)}
	case "FuncRemapList":
		return [][]byte{countedMsg(4, 0, fFunc), countedMsg(4, 2, fFunc)}
	case "UserLogins":
		return [][]byte{countedMsg(2, 0, fLogin), countedMsg(2, 1, fLogin), countedMsg(2, 2, fLogin)}
	case "ProcessList":
		return [][]byte{countedMsg(4, 0, fProc), countedMsg(4, 1, fProc), countedMsg(4, 4, fProc)}
	case "Registry":
		var one data.Chunk
		one.WriteUint8(1)
		writeFields(&one, fReg, -1)
		return [][]byte{append([]byte{0}, countedMsg(4, 2, fReg)...), append([]byte{0}, countedMsg(4, 0, fReg)...), payload(&one), {2}, {13}}
	case "Upload", "Pull":
		return plain(fBytes, fU64)
	case "Whoami":
		return plain(fBytes, fBytes)
	case "SystemIO":
		var c data.Chunk
		c.WriteUint8(2)
		writeFields(&c, []field{fBytes, fU64}, -1)
		return [][]byte{payload(&c), {0}, {4}}
	case "Assembly":
		return plain(fU64, fU32, fU32)
	case "Process":
		return plain(fU32, fU32)
	case "Download":
		return plain(fBytes, fU8, fU64)
	case "Script":
		var c data.Chunk
		c.WriteUint8(0x10)
		c.WriteBool(true)
		c.WriteBytes([]byte("output"))
		c.WriteUint8(0x11)
		c.WriteBool(false)
		c.WriteString("failed")
		return [][]byte{payload(&c)}
	}
	return [][]byte{{1, 2, 3, 4}}
}

func strlistValid() [][]byte {
	lists := [][]string{nil, {""}, {"a"}, {"a", "", "bcd"}, {string(pat(300, 1)), "x"}, make([]string, 260)}
	var r [][]byte
	for _, l := range lists {
		var c data.Chunk
		data.WriteStringList(&c, l)
		r = append(r, payload(&c))
	}
	return r
}

func bytesValid() [][]byte {
	var r [][]byte
	for _, n := range []int{0, 1, 2, 255, 256, 300} {
		var c data.Chunk
		c.WriteBytes(pat(n, 3))
		r = append(r, payload(&c))
	}
	return r
}

func devID(seed byte) device.ID {
	var i device.ID
	for x := range i {
		i[x] = seed + byte(x)
	}
	if i[0] == 0 {
		i[0] = 1
	}
	return i
}

func packetsValid(stream bool) [][]byte {
	var r [][]byte
	for _, v := range []struct {
		body int
		tags []uint32
		fl   com.Flag
	}{{0, nil, 0}, {1, nil, 0}, {5, []uint32{1, 0xdeadbeef}, com.FlagFrag | com.Flag(2)<<48}, {255, nil, com.FlagMulti | com.Flag(1)<<48}, {256, []uint32{7}, 0}, {300, nil, com.FlagCrypt}} {
		p := &com.Packet{ID: 0x42, Job: 0x1234, Flags: v.fl, Tags: v.tags, Device: devID(9)}
		p.Write(pat(v.body, 5))
		if stream {
			var c data.Chunk
			p.MarshalStream(&c)
			r = append(r, payload(&c))
		} else {
			var b bytes.Buffer
			p.Marshal(&b)
			r = append(r, append([]byte{}, b.Bytes()...))
		}
	}
	return r
}

// networkBytes: count, then per device name, mac, address count, addresses
func networkBytes(c *data.Chunk, devs int, addrs int) {
	mark(c, 1)
	c.WriteUint8(uint8(devs))
	for i := 0; i < devs; i++ {
		mark(c, 2)
		c.WriteString("eth" + string(rune('0'+i)))
		c.WriteUint64(0x0000aabbccddee00 + uint64(i))
		mark(c, 1)
		c.WriteUint8(uint8(addrs))
		for a := 0; a < addrs; a++ {
			c.WriteUint64(0)
			c.WriteUint64(0xffff0a000001 + uint64(a))
		}
	}
}

func machineBytes(c *data.Chunk, id device.ID, devs, addrs int, user, host, ver string) {
	mark(c, 1)
	c.Write(id[:])
	c.WriteUint8(0x20) // system
	c.WriteUint32(4242)
	c.WriteUint32(1)
	mark(c, 2)
	c.WriteString(user)
	mark(c, 2)
	c.WriteString(ver)
	mark(c, 2)
	c.WriteString(host)
	c.WriteUint8(1)
	c.WriteUint32(0x55)
	networkBytes(c, devs, addrs)
}

func proxyBytes(c *data.Chunk, n int, full bool) {
	mark(c, 1)
	c.WriteUint8(uint8(n))
	for i := 0; i < n; i++ {
		mark(c, 2)
		c.WriteString("proxy" + string(rune('a'+i)))
		mark(c, 2)
		c.WriteString("127.0.0.1:80" + string(rune('0'+i)))
		if full {
			mark(c, 2)
			c.WriteBytes(pat(10+i, 9))
		}
	}
}

func settingsBytes(c *data.Chunk) {
	c.WriteUint8(10)             // jitter
	c.WriteInt64(30_000_000_000) // sleep
	c.WriteInt64(0)              // kill date
	c.WriteUint8(0x7f)           // work hours: days, start h/m, end h/m
	c.WriteUint8(9)
	c.WriteUint8(0)
	c.WriteUint8(17)
	c.WriteUint8(30)
}

func devinfoOne(t int, v [3]int) []byte {
	var c data.Chunk
	switch t {
	case 4:
		proxyBytes(&c, v[2], false)
		return payload(&c)
	case 0, 2, 5:
		machineBytes(&c, devID(3), v[0], v[1], "alice", "host", "Linux 6.1")
	}
	settingsBytes(&c)
	if t <= 2 {
		proxyBytes(&c, v[2], true)
	}
	return payload(&c)
}

// ---------------------------------------------------------------- the generator

// msgs builds messages with f and returns each with the marked positions.
type msg struct {
	b   []byte
	pos []int
}

func build(f func() []byte) msg {
	marks = nil
	b := f()
	return msg{b, takeMarks()}
}

func deriveAll(dec string, ms [][]byte, pos []int) {
	for _, m := range ms {
		derive(dec, m, pos)
	}
}

func generate() {
	nRandom, exLen := 16, 2
	if thorough {
		nRandom, exLen = 1500, 3
	}

	// ---- corpus: one representative of every recorded defect (fixed or known finding)
	run("dns", make([]byte, 1), "corpus")
	run("dns", make([]byte, 11), "corpus")
	run("dns", make([]byte, 12), "corpus")
	run("dns", make([]byte, 13), "corpus")                                                                              // 12-byte empty packet + 1 trailing byte
	run("dns", append([]byte{0, 0, 0, 0, 0, 1, 0, 0, 0, 0, 0, 0}, 1, 0x61), "corpus")                                   // question walk reaches len(b)
	run("dns", append([]byte{0, 0, 0, 0, 0, 0, 0, 1, 0, 0, 0, 0}, make([]byte, 10)...), "corpus")                       // answer length at len(b)
	run("dns", append([]byte{0, 0, 0, 0, 0, 0, 0, 1, 0, 0, 0, 0}, make([]byte, 11)...), "corpus")                       // answer length low byte at len(b)
	run("dns", append([]byte{0, 0, 0, 0, 0, 0, 0, 0, 0, 0, 0, 1}, 192, 12, 0, 10, 0, 1, 0), "corpus")                   // record header cut after the type
	run("dns", append([]byte{0, 0, 0, 0, 0, 0, 0, 0, 0, 0, 0, 1}, 192, 12, 0, 10, 0, 1, 0, 0, 0, 0, 0, 9, 1), "corpus") // data longer than the packet
	run("strlistC", []byte{7, 0x40, 0, 0, 0, 0, 0, 0, 0}, "corpus")                                                     // 2^62 strings
	run("strlistC", []byte{7, 0x80, 0, 0, 0, 0, 0, 0, 0}, "corpus")                                                     // negative as int
	run("strlistC", []byte{5, 0, 0x20, 0, 0}, "corpus")                                                                 // 2 Mi strings = 32 MiB from 5 bytes
	run("strlistC", []byte{5, 0xff, 0xff, 0xff, 0xff}, "corpus")                                                        // 64 GiB from 5 bytes
	run("res:Mounts", []byte{5, 0xff, 0xff, 0xff, 0xff}, "corpus")
	run("res:Mounts", []byte{7, 0x40, 0, 0, 0, 0, 0, 0, 0}, "corpus")
	run("res:Ls", []byte{0xff, 0xff, 0xff, 0xff}, "corpus") // 64 GiB from 4 bytes
	run("res:Ls", []byte{0, 0x20, 0, 0}, "corpus")          // 32 MiB from 4 bytes
	run("res:WindowList", []byte{0, 0x10, 0, 0}, "corpus")
	run("res:FuncRemapList", []byte{0, 0x10, 0, 0}, "corpus")
	run("res:ProcessList", []byte{0, 0x10, 0, 0}, "corpus")
	run("res:UserLogins", []byte{0xff, 0xff}, "corpus") // 6.8 MB from 2 bytes
	run("res:Registry", []byte{0, 0, 0x10, 0, 0}, "corpus")
	run("bytesS", []byte{5, 2, 0, 0, 0}, "corpus")             // known finding: 32 MiB from 5 bytes
	run("bytesS", []byte{7, 0, 0, 4, 0, 0, 0, 0, 0}, "corpus") // known finding: MaxSlice = 4 TiB from 9 bytes
	run("strlistS", []byte{1, 1, 5, 2, 0, 0, 0}, "corpus")
	run("strlistS", []byte{7, 0x40, 0, 0, 0, 0, 0, 0, 0}, "corpus")
	generateMore(true)

	// ---- DNS
	for _, srv := range []bool{false, true} {
		for _, n := range []int{1, 5, 256, 257, 600} {
			srv, n := srv, n
			m := build(func() []byte { return dnsEncode(pat(n, 1), "example.com", srv) })
			if n <= 5 {
				derive("dns", m.b, m.pos)
			} else if n <= 257 && (thorough || srv) {
				derive("dns", m.b, m.pos[:10])
			} else {
				run("dns", m.b, "valid")
			}
		}
		two := build(func() []byte { return append(dnsEncode(pat(3, 1), "a.bc", srv), dnsEncode(pat(2, 9), "a.bc", srv)...) })
		derive("dns", two.b, two.pos)
	}
	marks = nil
	run("dns", dnsEncode(pat(4, 1), strings.Repeat("a", 63)+".com", false), "valid")
	run("dns", dnsEncode(pat(4, 1), strings.Repeat("a", 64)+".com", false), "valid")
	// exhaustive tails behind headers with small counts
	for _, h := range [][]byte{{0, 0, 0, 0, 0, 1, 0, 0, 0, 0, 0, 0}, {0, 0, 0, 0, 0, 0, 0, 1, 0, 0, 0, 0}, {0, 0, 0, 0, 0, 0, 0, 0, 0, 0, 0, 1}, {0, 0, 0, 0, 0, 1, 0, 1, 0, 0, 0, 1}} {
		exhaustive("dns", h, exLen)
	}
	exhaustive("dns", []byte{0, 0, 0, 0, 0, 0, 0, 0, 0, 0, 0, 1, 192, 12, 0, 10, 0, 1, 0, 0, 0, 0}, exLen)
	for i := 0; i < 4*nRandom; i++ {
		// random header counts in 0..2 and a random tail
		b := rng.Bytes(12 + rng.Intn(40))
		b[4], b[6], b[10] = 0, 0, 0
		b[5], b[7], b[11] = byte(rng.Intn(3)), byte(rng.Intn(3)), byte(rng.Intn(3))
		if rng.Intn(2) == 0 && len(b) > 20 {
			copy(b[12:], []byte{192, 12, 0, 10, 0, 1})
		}
		run("dns", b, "random")
	}
	random("dns", nRandom, 40)

	// ---- string lists and byte strings, flat and stream
	for _, d := range []string{"strlistC", "strlistS"} {
		deriveAll(d, strlistValid(), []int{0, 1, 2, 3})
		if d == "strlistC" {
			exhaustive(d, nil, exLen+1)
		} else {
			exhaustive(d, nil, exLen)
		}
		random(d, nRandom, 24)
	}
	for _, d := range []string{"bytesC", "bytesS"} {
		deriveAll(d, bytesValid(), []int{0, 1, 2})
		if d == "bytesC" {
			exhaustive(d, nil, exLen+1)
		} else {
			exhaustive(d, nil, exLen)
		}
		random(d, nRandom, 24)
	}

	// ---- packets
	// wire: id(32) ID job(2) flags(8) tags(2) class(1) len(1..8) tags body
	for i, m := range packetsValid(false) {
		if i == 2 || i == 3 || thorough {
			derive("pktWire", m, []int{0, 32, 35, 36, 42, 43, 44, 45, 46, 47, 50})
		} else {
			derive("pktWire", m, []int{44, 45, 46})
		}
	}
	random("pktWire", nRandom, 80)
	exhaustive("pktWire", append(devIDBytes(9), 1, 0, 1, 0, 0, 0, 0, 0, 0, 0, 0), exLen)
	exhaustive("pktWire", append(devIDBytes(9), 1, 0, 1, 0, 0, 0, 0, 0, 0, 0, 0, 0, 1), exLen)
	// stream: ID job(2) tags(2) flags(8) id(32) tags body
	for i, m := range packetsValid(true) {
		if i == 2 || i == 3 || thorough {
			derive("pktStream", m, []int{0, 3, 4, 5, 6, 12, 13, 45, 46, 47, 49, 53, 54})
		} else {
			derive("pktStream", m, []int{4, 45, 46})
		}
	}
	random("pktStream", nRandom, 80)
	exhaustive("pktStream", nil, exLen)

	// ---- result decoders
	for _, name := range resultDecs {
		for i, m := range resultMsgs(name) {
			if i < 2 || thorough {
				derive("res:"+name, m.b, upto(4))
			} else {
				run("res:"+name, m.b, "valid")
			}
		}
		exhaustive("res:"+name, nil, exLen)
		random("res:"+name, nRandom/2, 40)
	}
	for _, name := range []string{"Script", "Netcat", "ProcessDump"} {
		for _, m := range resultMsgs(name) {
			derive("res:"+name, m.b, upto(6))
		}
		exhaustive("res:"+name, nil, exLen)
		random("res:"+name, nRandom/2, 40)
	}

	// ---- registration data
	{
		m := build(func() []byte {
			var c data.Chunk
			machineBytes(&c, devID(3), 2, 2, "bob", "h", "v")
			return payload(&c)
		})
		derive("machine", m.b, m.pos)
		random("machine", nRandom, 80)
		for _, v := range [][2]int{{0, 0}, {1, 1}, {3, 2}} {
			v := v
			m := build(func() []byte {
				var n data.Chunk
				networkBytes(&n, v[0], v[1])
				return payload(&n)
			})
			derive("network", m.b, m.pos)
		}
		exhaustive("network", nil, exLen)
		random("network", nRandom, 40)
		for _, f := range []bool{false, true} {
			d := "proxy:0"
			if f {
				d = "proxy:1"
			}
			for _, k := range []int{0, 1, 3} {
				f, k := f, k
				m := build(func() []byte {
					var p data.Chunk
					proxyBytes(&p, k, f)
					return payload(&p)
				})
				derive(d, m.b, m.pos)
			}
			exhaustive(d, nil, exLen)
			random(d, nRandom, 40)
		}
		for _, t := range []int{0, 2, 3, 4, 5} {
			d := "devinfo:" + string(rune('0'+t))
			for i, m := range devinfoMsgs(t) {
				if i == 1 || thorough {
					derive(d, m.b, m.pos)
				} else {
					run(d, m.b, "valid")
				}
			}
			random(d, nRandom, 120)
		}
	}
	// ---- 8-byte length forms (class 7/8) with every boundary, in every bytes / string field
	w8 := func(dec string, m []byte, from int) {
		for _, x := range wide8(m, from) {
			run(dec, x, "len64")
		}
	}
	for _, m := range bytesValid()[:3] {
		w8("bytesC", m, 0)
		w8("bytesS", m, 0)
	}
	for _, m := range strlistValid()[1:4] {
		w8("strlistC", m, 0)
		w8("strlistS", m, 0)
	}
	for i, m := range packetsValid(true) {
		if i == 1 || i == 2 {
			w8("pktStream", m, 45)
		}
	}
	for i, m := range packetsValid(false) {
		if i == 1 || i == 2 {
			w8("pktWire", m, 45)
		}
	}
	for _, name := range resultDecs {
		for i, m := range resultMsgs(name) {
			if i == 0 || (i == 1 && (name == "Ls" || name == "Registry" || name == "Mounts" || name == "UserLogins" || name == "ProcessList" || name == "WindowList")) {
				w8("res:"+name, m.b, 0)
			}
		}
	}
	{
		var c data.Chunk
		machineBytes(&c, devID(3), 1, 1, "bob", "h", "v")
		w8("machine", payload(&c), 41)
		var n data.Chunk
		networkBytes(&n, 2, 1)
		w8("network", payload(&n), 0)
		for _, f := range []bool{false, true} {
			var p data.Chunk
			proxyBytes(&p, 2, f)
			d := "proxy:0"
			if f {
				d = "proxy:1"
			}
			w8(d, payload(&p), 1)
		}
		for _, t := range []int{0, 4} {
			w8("devinfo:"+string(rune('0'+t)), devinfoOne(t, [3]int{1, 1, 1}), 0)
		}
		marks = nil
	}
	generateMore(false)
}

func resultMsgs(name string) []msg {
	var r []msg
	for _, b := range resultValid(name) {
		r = append(r, msg{b, nil})
	}
	marks = nil
	return r
}

func devinfoMsgs(t int) []msg {
	var r []msg
	for _, v := range [][3]int{{0, 0, 0}, {1, 1, 1}, {2, 3, 2}} {
		v := v
		r = append(r, build(func() []byte { return devinfoOne(t, v) }))
	}
	return r
}

func devIDBytes(seed byte) []byte {
	i := devID(seed)
	return append([]byte{}, i[:]...)
}
