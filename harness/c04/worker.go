package main

// The executing child: reads "<decoder> <hex input>" lines, runs the real code, answers
// "<class> <code> <alloc> <digest> <msg hex> <extra hex>".

import (
	"bufio"
	"bytes"
	"encoding/hex"
	"errors"
	"fmt"
	"io"
	"os"
	"runtime"
	"runtime/debug"
	"strconv"
	"strings"
	"syscall"

	"github.com/iDigitalFlame/xmt/c2"
	"github.com/iDigitalFlame/xmt/c2/task/result"
	"github.com/iDigitalFlame/xmt/c2/transform"
	"github.com/iDigitalFlame/xmt/com"
	"github.com/iDigitalFlame/xmt/data"
	"github.com/iDigitalFlame/xmt/device"
)

func errCode(err error) int {
	switch {
	case errors.Is(err, io.EOF):
		return 1
	case errors.Is(err, io.ErrUnexpectedEOF):
		return 2
	case errors.Is(err, data.ErrInvalidType):
		return 3
	case errors.Is(err, data.ErrTooLarge):
		return 4
	case errors.Is(err, data.ErrLimit):
		return 5
	case errors.Is(err, io.ErrNoProgress):
		return 7
	case errors.Is(err, com.ErrMalformedTag):
		return 8
	case errors.Is(err, c2.ErrMalformedPacket):
		return 9
	case errors.Is(err, c2.ErrInvalidPacketCount):
		return 10
	}
	return 99
}

func u64s(b []byte) []uint64 {
	o := make([]uint64, len(b))
	for i, v := range b {
		o[i] = uint64(v)
	}
	return o
}

func strsDigest(s []string, rest int) []uint64 {
	d := []uint64{uint64(len(s))}
	for _, x := range s {
		d = append(d, uint64(len(x)))
		d = append(d, u64s([]byte(x))...)
	}
	return append(d, uint64(rest))
}

func pktDigest(p *com.Packet, tagsRead int, rest int) []uint64 {
	d := []uint64{uint64(p.ID), uint64(p.Job), uint64(p.Flags), uint64(len(p.Tags))}
	for i := 0; i < len(p.Tags) && i < tagsRead; i++ {
		d = append(d, uint64(p.Tags[i]))
	}
	b := p.Payload()
	d = append(d, uint64(len(b)))
	d = append(d, u64s(b)...)
	return append(d, uint64(rest))
}

// decode runs one decoder; digest must mirror Model/Decoders.v `run`.
func decode(dec string, in []byte) (digest []uint64, extra string, err error) {
	switch {
	case dec == "dns":
		var w bytes.Buffer
		if err = transform.DNS.Read(in, &w); err != nil {
			return nil, "", err
		}
		return u64s(w.Bytes()), "", nil
	case dec == "strlistC":
		c := data.NewChunk(in)
		var s []string
		if err = data.ReadStringList(c, &s); err != nil {
			return nil, "", err
		}
		return strsDigest(s, c.Remaining()), "", nil
	case dec == "strlistS":
		br := bytes.NewReader(in)
		var s []string
		if err = data.ReadStringList(data.NewReader(br), &s); err != nil {
			return nil, "", err
		}
		return strsDigest(s, br.Len()), "", nil
	case dec == "bytesC":
		c := data.NewChunk(in)
		b, err := c.Bytes()
		if err != nil {
			return nil, "", err
		}
		return append(append([]uint64{uint64(len(b))}, u64s(b)...), uint64(c.Remaining())), "", nil
	case dec == "bytesS":
		br := bytes.NewReader(in)
		b, err := data.NewReader(br).Bytes()
		if err != nil {
			return nil, "", err
		}
		return append(append([]uint64{uint64(len(b))}, u64s(b)...), uint64(br.Len())), "", nil
	case dec == "pktWire":
		br := bytes.NewReader(in)
		var p com.Packet
		if err = p.Unmarshal(br); err != nil {
			return nil, "", err
		}
		return pktDigest(&p, len(p.Tags), br.Len()), "", nil
	case dec == "pktStream":
		c := data.NewChunk(in)
		var p com.Packet
		if err = p.UnmarshalStream(c); err != nil {
			return nil, "", err
		}
		return pktDigest(&p, com.PacketMaxTags, c.Remaining()), "", nil
	case dec == "machine":
		c := data.NewChunk(in)
		var m device.Machine
		if err = m.UnmarshalStream(c); err != nil {
			return nil, "", err
		}
		return []uint64{uint64(len(m.Network)), uint64(c.Remaining())}, "", nil
	case dec == "network":
		c := data.NewChunk(in)
		var n device.Network
		if err = n.UnmarshalStream(c); err != nil {
			return nil, "", err
		}
		return []uint64{uint64(len(n)), uint64(c.Remaining())}, "", nil
	case strings.HasPrefix(dec, "proxy:"):
		c := data.NewChunk(in)
		n, err := c2.VerifC04ReadProxyData(dec == "proxy:1", c)
		if err != nil {
			return nil, "", err
		}
		return []uint64{uint64(n), uint64(c.Remaining())}, "", nil
	case strings.HasPrefix(dec, "devinfo:"):
		t, _ := strconv.Atoi(dec[8:])
		c := data.NewChunk(in)
		n, s, err := c2.VerifC04ReadDeviceInfo(uint8(t), c)
		// the operator's JSON view of whatever the decoder stored, error or not
		extra = jsonCheck(s)
		if err != nil {
			return nil, extra, err
		}
		return []uint64{uint64(n), uint64(c.Remaining())}, extra, nil
	case strings.HasPrefix(dec, "res:"):
		return decodeResult(dec[4:], in)
	}
	return decodeMore(dec, in)
}

func decodeResult(name string, in []byte) ([]uint64, string, error) {
	n := &com.Packet{Chunk: *data.NewChunk(in)}
	rem := func() uint64 { return uint64(n.Remaining()) }
	var err error
	cnt := 0
	switch name {
	case "Pwd":
		_, err = result.Pwd(n)
	case "Spawn":
		_, err = result.Spawn(n)
	case "CheckDLL":
		_, err = result.CheckDLL(n)
	case "Mounts":
		_, err = result.Mounts(n)
	case "Upload":
		_, _, err = result.Upload(n)
	case "Whoami":
		_, _, err = result.Whoami(n)
	case "SystemIO":
		_, _, _, err = result.SystemIO(n)
	case "Pull":
		_, _, _, err = result.Pull(n)
	case "Assembly":
		_, _, _, err = result.Assembly(n)
	case "Process":
		_, _, _, err = result.Process(n)
	case "Download":
		_, _, _, _, err = result.Download(n)
	case "Ls":
		v, e := result.Ls(n)
		cnt, err = len(v), e
	case "WindowList":
		v, e := result.WindowList(n)
		cnt, err = len(v), e
	case "FuncRemapList":
		v, e := result.FuncRemapList(n)
		cnt, err = len(v), e
	case "UserLogins":
		v, e := result.UserLogins(n)
		cnt, err = len(v), e
	case "ProcessList":
		v, e := result.ProcessList(n)
		cnt, err = len(v), e
	case "Registry":
		v, _, e := result.Registry(n)
		cnt, err = len(v), e
	case "Script":
		v, e := result.Script(n)
		cnt, err = len(v), e
	case "Netcat":
		_, err = result.Netcat(n)
	case "ProcessDump":
		_, err = result.ProcessDump(n)
	default:
		return nil, "", fmt.Errorf("unknown result decoder %s", name)
	}
	if err != nil {
		return nil, "", err
	}
	switch name {
	case "Ls", "WindowList", "FuncRemapList", "UserLogins", "ProcessList", "Registry", "Script":
		return []uint64{uint64(cnt), rem()}, "", nil
	}
	return []uint64{rem()}, "", nil
}

// baselineFor: a sequence of connections may cost the valid minimal exchange once per connection
func baselineFor(dec string, in []byte) uint64 {
	b := baseline(dec)
	if strings.HasPrefix(dec, "hq:") || strings.HasPrefix(dec, "hg:") {
		n := 1
		for i := 0; i+2 <= len(in); n++ {
			i += 2 + (int(in[i])<<8 | int(in[i+1]))
		}
		b *= uint64(n)
	}
	return b
}

// lastTerm: a Coq case term built by the decoder itself (the json decoder)
var lastTerm string

func workerMain() {
	// a terabyte makeslice must fail here, not take the machine down
	lim := syscall.Rlimit{Cur: 3 << 30, Max: 3 << 30}
	syscall.Setrlimit(syscall.RLIMIT_AS, &lim)
	workerInit()
	rd := bufio.NewReaderSize(os.Stdin, 1<<20)
	wr := bufio.NewWriterSize(os.Stdout, 1<<20)
	for {
		line, err := rd.ReadString('\n')
		if err != nil {
			return
		}
		f := strings.SplitN(strings.TrimSpace(line), " ", 2)
		var raw []byte
		if len(f) == 2 {
			raw, _ = hex.DecodeString(f[1])
		}
		in := make([]byte, len(raw)) // len == cap: a slice beyond the input is a Go panic
		copy(in, raw)
		class, code, alloc, digest, msg, extra := execOne(f[0], in)
		ds := "-"
		if len(digest) > 0 {
			var sb strings.Builder
			for i, v := range digest {
				if i > 0 {
					sb.WriteByte(',')
				}
				sb.WriteString(strconv.FormatUint(v, 10))
			}
			ds = sb.String()
		}
		fmt.Fprintf(wr, "%s %d %d %s x%s x%s %d x%s\n", class, code, alloc, ds, hex.EncodeToString([]byte(msg)), hex.EncodeToString([]byte(extra)), baselineFor(f[0], in), hex.EncodeToString([]byte(lastTerm)))
		lastTerm = ""
		wr.Flush()
	}
}

func execOne(dec string, in []byte) (class string, code int, alloc uint64, digest []uint64, msg, extra string) {
	var a, b runtime.MemStats
	runtime.ReadMemStats(&a)
	defer func() {
		if x := recover(); x != nil {
			runtime.ReadMemStats(&b)
			class, code, alloc, digest, msg = "panic", 0, b.TotalAlloc-a.TotalAlloc, nil, fmt.Sprint(x)
			if os.Getenv("VERIF_C04_STACK") != "" {
				fmt.Fprintf(os.Stderr, "%s\n", debug.Stack())
			}
		}
	}()
	d, ex, err := decode(dec, in)
	runtime.ReadMemStats(&b)
	alloc = b.TotalAlloc - a.TotalAlloc
	if err != nil {
		return "err", errCode(err), alloc, nil, err.Error(), ex
	}
	return "ok", 0, alloc, d, "", ex
}
