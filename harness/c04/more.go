package main

// Listener path, wrappers/transforms and the JSON view (oracle-only: the stdlib decoders behind
// them are not modelled).
//
// Decoders of this file (worker side):
//   hs:<profile>   a fresh bare Listener (real handle/talk/receive code) gets ONE connection
//                  carrying the input bytes: before registration
//   hr:<profile>   the same after a valid hello of device A registered a Session
//   b64:<shift>    transform.B64Shift(shift).Read (modelled: Decoders.v b64_read)
// After the measured connection the worker checks that the Listener still serves: a valid hello
// of a fresh device is answered and registered.

import (
	"bytes"
	"encoding/base64"
	"encoding/json"
	"fmt"
	"runtime"
	"strconv"
	"strings"

	"github.com/iDigitalFlame/xmt/c2"
	"github.com/iDigitalFlame/xmt/c2/cfg"
	"github.com/iDigitalFlame/xmt/c2/transform"
	"github.com/iDigitalFlame/xmt/com"
	"github.com/iDigitalFlame/xmt/data"
	"github.com/iDigitalFlame/xmt/device"

	"verifharness/vh"
)

// ---------------------------------------------------------------- profiles

type profile struct {
	name string
	set  []cfg.Setting
	w    cfg.Wrapper
	t    cfg.Transform
}

var profiles []*profile

func mkProfiles() {
	key := []byte("0123456789abcdef0123456789abcdef")
	iv := []byte("fedcba9876543210")
	host := cfg.Host("127.0.0.1:1")
	defs := []struct {
		name string
		set  []cfg.Setting
	}{
		{"none", nil},
		{"hex", []cfg.Setting{cfg.WrapHex}},
		{"b64w", []cfg.Setting{cfg.WrapBase64}},
		{"zlib", []cfg.Setting{cfg.WrapZlib}},
		{"gzip", []cfg.Setting{cfg.WrapGzip}},
		{"xor", []cfg.Setting{cfg.WrapXOR(key[:7])}},
		{"aes", []cfg.Setting{cfg.WrapAES(key, iv)}},
		{"cbk", []cfg.Setting{cfg.WrapCBK(11, 22, 33, 44)}},
		{"tb64", []cfg.Setting{cfg.TransformB64}},
		{"tb64s", []cfg.Setting{cfg.TransformB64Shift(5)}},
		{"tdns", []cfg.Setting{cfg.TransformDNS("example.com")}},
		{"zlib+tdns", []cfg.Setting{cfg.WrapZlib, cfg.TransformDNS("a.bc")}},
		{"aes+hex+tb64s", []cfg.Setting{cfg.WrapAES(key, iv), cfg.WrapHex, cfg.TransformB64Shift(200)}},
	}
	// every ordered pair of wrappers (stacks of depth 2); depth 1 is above
	single := []struct {
		name string
		set  cfg.Setting
	}{{"hex", cfg.WrapHex}, {"b64w", cfg.WrapBase64}, {"zlib", cfg.WrapZlib}, {"gzip", cfg.WrapGzip}, {"xor", cfg.WrapXOR(key[:7])},
		{"aes", cfg.WrapAES(key, iv)}, {"cbk", cfg.WrapCBK(11, 22, 33, 44)}, {"cbk32", cfg.WrapCBKSize(32, 9, 8, 7, 6)}}
	for _, a := range single {
		for _, b := range single {
			if a.name == b.name {
				continue
			}
			defs = append(defs, struct {
				name string
				set  []cfg.Setting
			}{"st:" + a.name + "," + b.name, []cfg.Setting{a.set, b.set}})
		}
	}
	defs = append(defs, struct {
		name string
		set  []cfg.Setting
	}{"cbk32", []cfg.Setting{cfg.WrapCBKSize(32, 9, 8, 7, 6)}})
	for _, d := range defs {
		p, err := cfg.Pack(append([]cfg.Setting{host, cfg.ConnectTCP}, d.set...)...).Build()
		if err != nil {
			panic("profile " + d.name + ": " + err.Error())
		}
		_, w, t := p.Next()
		profiles = append(profiles, &profile{d.name, d.set, w, t})
	}
}

func profileByName(n string) *profile {
	for _, p := range profiles {
		if p.name == n {
			return p
		}
	}
	return nil
}

var serverKeys data.KeyPair

func workerInit() {
	mkProfiles()
	serverKeys.Fill()
}

// ---------------------------------------------------------------- worker side

// baseline: what a VALID minimal exchange (a hello, a small packet of an unregistered device,
// a ping and a small packet of the registered device) allocates at most under the profile,
// measured in this worker.
var baselines = map[string]uint64{}

func baseline(dec string) uint64 {
	if !isConn(dec) {
		return 0
	}
	if b, ok := baselines[dec[3:]]; ok {
		return b
	}
	p := profileByName(dec[3:])
	if p == nil {
		return 0
	}
	data := &com.Packet{ID: 0xC0, Job: 9, Device: devA()}
	data.Write(pat(16, 1))
	var best uint64
	for _, v := range []struct {
		kind string
		n    *com.Packet
	}{{"hs", c2.VerifC04Hello(devA(), false)}, {"hs", data}, {"hr", &com.Packet{ID: 0, Device: devA()}}, {"hr", data}} {
		in, err := c2.VerifC04Encode(p.w, p.t, v.n)
		if err != nil {
			continue
		}
		in = append([]byte{}, in...)
		for i := 0; i < 2; i++ {
			var a, b runtime.MemStats
			runtime.GC() // twice: sync.Pool contents survive one collection; the COLD cost is wanted
			runtime.GC() // (pooled zlib/gzip writers and buffers are re-allocated after a collection)
			runtime.ReadMemStats(&a)
			decodeHandle(v.kind, p, in)
			runtime.ReadMemStats(&b)
			if d := b.TotalAlloc - a.TotalAlloc; d > best {
				best = d
			}
		}
	}
	baselines[dec[3:]] = best
	return best
}

func devA() device.ID { return devID(0x41) }
func devB() device.ID { return devID(0x61) }
func devC() device.ID { return devID(0x51) }
func devQ() device.ID { return devID(0x81) }

// forwardedHello is the Multi container a registered device A sends to forward the hello of Q
// (Listener.talkSub registers Q).
func forwardedHello() *com.Packet {
	n := &com.Packet{ID: 0, Flags: com.FlagMulti | com.FlagMultiDevice, Device: devA()}
	c2.VerifC04Hello(devQ(), false).MarshalStream(n)
	n.Flags.SetLen(1)
	n.Flags &^= com.FlagFrag
	return n
}

// registerForwarded: A registers directly, Q through A's container.
func registerForwarded(l *c2.Listener, p *profile) string {
	h, err := c2.VerifC04Encode(p.w, p.t, c2.VerifC04Hello(devA(), false))
	if err != nil {
		return "setup:cannot encode the hello: " + err.Error()
	}
	serveOne(l, h)
	f, err := c2.VerifC04Encode(p.w, p.t, forwardedHello())
	if err != nil {
		return "setup:cannot encode the forwarded hello: " + err.Error()
	}
	serveOne(l, f)
	if !c2.VerifC04Registered(l, devA()) || !c2.VerifC04Registered(l, devQ()) {
		return "setup:the forwarded hello did not register"
	}
	return ""
}

func serveOne(l *c2.Listener, in []byte) *c2.VerifC04Conn {
	c := &c2.VerifC04Conn{In: bytes.NewReader(in)}
	c2.VerifC04Handle(l, c)
	c2.VerifC04Pump(l)
	return c
}

// decodeHandle drives the real connection handler.
func decodeHandle(kind string, p *profile, in []byte) ([]uint64, string, error) {
	l := c2.VerifC04Listener(serverKeys, &c2.VerifC04Mux{}, p.w, p.t)
	if kind == "hf" {
		if e := registerForwarded(l, p); e != "" {
			return nil, e, nil
		}
	}
	if kind == "hr" {
		h, err := c2.VerifC04Encode(p.w, p.t, c2.VerifC04Hello(devA(), false))
		if err != nil {
			return nil, "setup:cannot encode the hello: " + err.Error(), nil
		}
		serveOne(l, h)
		if !c2.VerifC04Registered(l, devA()) {
			return nil, "setup:the valid hello did not register", nil
		}
		// a second registered device, so that a tag can name another Session
		if h2, err := c2.VerifC04Encode(p.w, p.t, c2.VerifC04Hello(devC(), false)); err == nil {
			serveOne(l, h2)
		}
	}
	before := c2.VerifC04SessionCount(l)
	c := serveOne(l, in)
	after := c2.VerifC04SessionCount(l)
	// the JSON view of every Session the input created or touched
	extra := ""
	for _, s := range c2.VerifC04Sessions(l) {
		if e := jsonCheck(s); e != "" {
			extra = e
		}
	}
	// the server keeps serving
	h, err := c2.VerifC04Encode(p.w, p.t, c2.VerifC04Hello(devB(), false))
	if err == nil && !c2.VerifC04Registered(l, devB()) {
		c2 := serveOne(l, h)
		_ = c2
	}
	if extra == "" && !c2.VerifC04Registered(l, devB()) {
		extra = "stopped:a valid hello is no longer registered after the hostile connection"
	}
	return []uint64{uint64(after - before), uint64(c.Out.Len())}, extra, nil
}

func jsonCheck(s *c2.Session) (r string) {
	defer func() {
		if x := recover(); x != nil {
			r = "jsonpanic:" + fmt.Sprint(x)
		}
	}()
	b, err := c2.VerifC04SessionJSON(s)
	if err != nil {
		return "jsonerr:" + err.Error()
	}
	if !json.Valid(b) {
		return "json:the JSON view of the Session is not well-formed: " + string(b)
	}
	return ""
}

func decodeMore(dec string, in []byte) ([]uint64, string, error) {
	switch {
	case strings.HasPrefix(dec, "hs:"), strings.HasPrefix(dec, "hr:"), strings.HasPrefix(dec, "hf:"):
		p := profileByName(dec[3:])
		if p == nil {
			return nil, "", fmt.Errorf("unknown profile %s", dec)
		}
		return decodeHandle(dec[:2], p, in)
	case dec == "json":
		// the input is registration data (readDeviceInfo, kind hello); whatever it stored in the
		// Session, error or not, is rendered by JSON() and by the model from the same leaves
		c := data.NewChunk(in)
		_, s, _ := c2.VerifC04ReadDeviceInfo(0, c)
		b, err := c2.VerifC04SessionJSON(s)
		if err != nil {
			return nil, "jsonerr:" + err.Error(), nil
		}
		extra := ""
		if !json.Valid(b) {
			extra = "json:the JSON view of the Session is not well-formed: " + string(b)
		}
		lastTerm = "CJson " + sessTerm(c2.VerifC04JSONLeaves(s)) + " " + vh.Bytes(b)
		return []uint64{uint64(len(b))}, extra, nil
	case dec == "recvseq", dec == "recvseqf":
		// the input is a sequence of stream-form Packets; each is handed to receive(s, l, &p) on the
		// ONE Session of the device (Session.frags is carried along), until the first error.
		// recvseq: device A, registered directly (Listener.talk); recvseqf: device Q, registered
		// through the forwarded path (its hello inside a container of A: Listener.talkSub)
		l := c2.VerifC04Listener(serverKeys, &c2.VerifC04Mux{}, nil, nil)
		who := devA()
		if dec == "recvseqf" {
			who = devQ()
			if e := registerForwarded(l, profileByName("none")); e != "" {
				return nil, e, nil
			}
		} else {
			h, err := c2.VerifC04Encode(nil, nil, c2.VerifC04Hello(devA(), false))
			if err != nil {
				return nil, "setup:cannot encode the hello: " + err.Error(), nil
			}
			serveOne(l, h)
			if !c2.VerifC04Registered(l, devA()) {
				return nil, "setup:the valid hello did not register", nil
			}
		}
		var err error
		// every Packet is decoded from its OWN buffer of exactly its size, as Packets of separate
		// connections are: a sub-packet is a window into its container's buffer (Chunk.Bytes
		// reslices) and a completed fragment group is appended in place behind its head
		c := data.NewChunk(append([]byte{}, in...))
		k, off := 0, 0
		for c.Remaining() > 0 {
			var probe com.Packet
			if err := probe.UnmarshalStream(c); err != nil {
				return nil, "", err
			}
			end := len(in) - c.Remaining()
			own := make([]byte, end-off)
			copy(own, in[off:end])
			keep := append([]byte{}, own...)
			off = end
			p := new(com.Packet)
			if err := p.UnmarshalStream(data.NewChunk(own)); err != nil {
				return nil, "", err
			}
			k, err = c2.VerifC04ReceiveFrags(l, who, p)
			if !bytes.Equal(own, keep) {
				lastTerm = "ALIAS"
			}
			if err != nil {
				return nil, "", err
			}
			c2.VerifC04Pump(l)
		}
		return []uint64{uint64(k)}, "", nil
	case strings.HasPrefix(dec, "hq:"), strings.HasPrefix(dec, "hg:"):
		// a sequence of connections to one Listener after a valid registration of device A:
		// the input is [u16 length][wire bytes] repeated, every piece is one connection
		p := profileByName(dec[3:])
		if p == nil {
			return nil, "", fmt.Errorf("unknown profile %s", dec)
		}
		l := c2.VerifC04Listener(serverKeys, &c2.VerifC04Mux{}, p.w, p.t)
		if dec[1] == 'g' {
			if e := registerForwarded(l, p); e != "" {
				return nil, e, nil
			}
		} else {
			h, err := c2.VerifC04Encode(p.w, p.t, c2.VerifC04Hello(devA(), false))
			if err != nil {
				return nil, "setup:cannot encode the hello: " + err.Error(), nil
			}
			serveOne(l, h)
			if !c2.VerifC04Registered(l, devA()) {
				return nil, "setup:the valid hello did not register", nil
			}
		}
		n := 0
		for i := 0; i+2 <= len(in); {
			k := int(in[i])<<8 | int(in[i+1])
			if i += 2; i+k > len(in) {
				k = len(in) - i
			}
			serveOne(l, in[i:i+k])
			i += k
			n++
		}
		extra := ""
		hb, err := c2.VerifC04Encode(p.w, p.t, c2.VerifC04Hello(devB(), false))
		if err == nil {
			serveOne(l, hb)
		}
		if !c2.VerifC04Registered(l, devB()) {
			extra = "stopped:a valid hello is no longer registered after the hostile connections"
		}
		return []uint64{uint64(n)}, extra, nil
	case dec == "recv":
		// receive(s, l, &p) on the Session of device A; the input is the stream form of p
		l := c2.VerifC04Listener(serverKeys, &c2.VerifC04Mux{}, nil, nil)
		h, err := c2.VerifC04Encode(nil, nil, c2.VerifC04Hello(devA(), false))
		if err != nil {
			return nil, "setup:cannot encode the hello: " + err.Error(), nil
		}
		serveOne(l, h)
		if !c2.VerifC04Registered(l, devA()) {
			return nil, "setup:the valid hello did not register", nil
		}
		c := data.NewChunk(in)
		var p com.Packet
		if err := p.UnmarshalStream(c); err != nil {
			return nil, "", err
		}
		keep := append([]byte{}, in...)
		k, err := c2.VerifC04ReceiveFrags(l, devA(), &p)
		if !bytes.Equal(in, keep) {
			// receive() wrote into the buffer it is decoding (a fragment group completed inside the
			// container and was appended in place behind its head): what the rest of the walk saw is
			// not the input; the model's oracle-free instance does not apply to this case
			lastTerm = "ALIAS"
		}
		if err != nil {
			return nil, "", err
		}
		c2.VerifC04Pump(l)
		return []uint64{uint64(k)}, "", nil
	case strings.HasPrefix(dec, "b64:"):
		n, _ := strconv.Atoi(dec[4:])
		var w bytes.Buffer
		if err := transform.B64Shift(n).Read(in, &w); err != nil {
			return nil, "", err
		}
		return u64s(w.Bytes()), "", nil
	}
	return nil, "", fmt.Errorf("unknown decoder %s", dec)
}

func zs(s string) string { return vh.Bytes([]byte(s)) }
func zb(b bool) string {
	if b {
		return "true"
	}
	return "false"
}
func zopt(p *string) string {
	if p == nil {
		return "None"
	}
	return "(Some " + zs(*p) + ")"
}

// sessTerm prints the leaves as a Coq value of type sess (Model/Decoders.v).
func sessTerm(v c2.VerifC04Leaves) string {
	var nets, prox []string
	for _, d := range v.Net {
		var ips []string
		for _, i := range d.IPs {
			ips = append(ips, zs(i))
		}
		nets = append(nets, "Build_netdev "+zs(d.Name)+" "+zs(d.Mac)+" "+vh.List(ips))
	}
	for _, p := range v.Proxies {
		prox = append(prox, "("+zs(p[0])+", "+zs(p[1])+")")
	}
	work := "None"
	if v.Work != nil {
		work = "(Some (Build_workh " + zs(v.Work[0]) + " " + zs(v.Work[1]) + " " + zs(v.Work[2]) + " " + zs(v.Work[3]) + " " + zs(v.Work[4]) + "))"
	}
	return "(Build_sess " + strings.Join([]string{zs(v.ID), zs(v.Hash), zb(v.Channel), zs(v.Full), zs(v.User), zs(v.Host), zs(v.Ver),
		zs(v.Arch), zs(v.OS), zb(v.Elev), zs(v.Caps), zb(v.Domain), zs(v.PID), zs(v.PPID), vh.List(nets), zs(v.Created), zs(v.Last),
		zs(v.Via), zs(v.Sleep), zs(v.Jitter), zs(v.Kill), work, zopt(v.CName), zopt(v.Conn), vh.List(prox)}, " ") + ")"
}

// ---------------------------------------------------------------- parent side: generation

// stdB64 is what encoding/base64 answers for the input (observed input of the model: the
// stdlib decoder is not modelled): the decoded bytes, or nothing on a CorruptInputError.
func stdB64(in []byte) ([]byte, bool) {
	o := make([]byte, base64.StdEncoding.DecodedLen(len(in)))
	n, err := base64.StdEncoding.Decode(o, in)
	if err != nil {
		return nil, false
	}
	return o[:n], true
}

func encode(p *profile, n *com.Packet) []byte {
	b, err := c2.VerifC04Encode(p.w, p.t, n)
	if err != nil {
		panic("encode " + p.name + ": " + err.Error())
	}
	return append([]byte{}, b...)
}

// plain packets (before wrapping) a registered or unregistered client may send
func clientPackets() map[string]func() *com.Packet {
	sub := func(id uint8, dev device.ID, fl com.Flag, body []byte) *com.Packet {
		v := &com.Packet{ID: id, Job: 9, Flags: fl, Device: dev}
		v.Write(body)
		return v
	}
	multi := func(dev device.ID, fl com.Flag, subs ...*com.Packet) *com.Packet {
		n := &com.Packet{ID: 0, Flags: com.FlagMulti | fl, Device: dev}
		for _, v := range subs {
			v.MarshalStream(n)
		}
		n.Flags.SetLen(uint16(len(subs)))
		n.Flags &^= com.FlagFrag
		return n
	}
	frag := func(pos, ln, grp uint16) com.Flag {
		var f com.Flag
		f.SetGroup(grp)
		f.SetLen(ln)
		f.SetPosition(pos)
		return f
	}
	return map[string]func() *com.Packet{
		"hello":      func() *com.Packet { return c2.VerifC04Hello(devA(), false) },
		"hello-keys": func() *com.Packet { return c2.VerifC04Hello(devA(), true) },
		"ping":       func() *com.Packet { return &com.Packet{ID: 0, Device: devA()} },
		"data":       func() *com.Packet { return sub(0xC0, devA(), 0, pat(40, 3)) },
		"tags": func() *com.Packet {
			n := sub(0xC0, devA(), 0, pat(8, 3))
			n.Tags = []uint32{0x11223344, 0xdeadbeef, 0x11223344}
			return n
		},
		"frag0":    func() *com.Packet { return sub(0xC0, devA(), frag(0, 3, 7), pat(16, 1)) },
		"frag2":    func() *com.Packet { return sub(0xC0, devA(), frag(2, 3, 9), pat(16, 1)) },
		"frag1of1": func() *com.Packet { return sub(0xC0, devA(), frag(0, 1, 9), pat(16, 1)) },
		"multi": func() *com.Packet {
			return multi(devA(), 0, sub(0xC0, devA(), 0, pat(5, 1)), sub(0xC1, devA(), 0, pat(300, 2)))
		},
		"multi-nested": func() *com.Packet {
			return multi(devA(), 0, multi(devA(), 0, sub(0xC0, devA(), 0, pat(5, 1))), sub(0xC1, devA(), frag(0, 1, 3), pat(3, 2)))
		},
		"multidev": func() *com.Packet {
			return multi(devA(), com.FlagMultiDevice, sub(0xC0, devA(), 0, pat(5, 1)), c2.VerifC04Hello(devID(0x81), false), sub(0xC0, devID(0x91), 0, pat(4, 4)))
		},
		// a Multi container whose sub-packet is an EMPTY hello of an unregistered device (talkSub)
		"multidev-empty-hello": func() *com.Packet {
			return multi(devA(), com.FlagMultiDevice, &com.Packet{ID: 2, Device: devID(0x81)})
		},
		"empty-hello": func() *com.Packet { return &com.Packet{ID: 2, Device: devID(0x71)} },
		"oneshot":     func() *com.Packet { return sub(0xC0, devA(), com.FlagOneshot, pat(9, 9)) },
		"shutdown":    func() *com.Packet { return &com.Packet{ID: 5, Device: devA()} },
		"resync":      func() *com.Packet { return sub(7, devA(), 0, []byte{2, 1, 2, 3}) },
	}
}

var packetOrder = []string{"hello", "hello-keys", "ping", "data", "tags", "frag0", "frag2", "frag1of1", "multi", "multi-nested",
	"multidev", "multidev-empty-hello", "empty-hello", "oneshot", "shutdown", "resync"}

// plainBytes is the unwrapped wire form of a packet.
func plainBytes(n *com.Packet) []byte {
	var b bytes.Buffer
	n.Marshal(&b)
	return append([]byte{}, b.Bytes()...)
}

// rewrap parses hostile PLAINTEXT wire bytes as far as needed to push them through the real
// wrapper and transform writers of a profile: the hostile bytes become what the server's
// Unmarshal sees behind the wrapper.
func rewrap(p *profile, plain []byte) []byte {
	if p.w == nil && p.t == nil {
		return plain
	}
	var c data.Chunk
	if p.w != nil {
		o, err := p.w.Wrap(&c)
		if err != nil {
			panic(err)
		}
		o.Write(plain)
		o.Close()
	} else {
		c.Write(plain)
	}
	if p.t == nil {
		return append([]byte{}, c.Payload()...)
	}
	var b bytes.Buffer
	if err := p.t.Write(c.Payload(), &b); err != nil {
		panic(err)
	}
	return append([]byte{}, b.Bytes()...)
}

// wide8: every plausible length prefix of m (class byte 0, or 1 / 3 with a length that fits) at or
// behind `from` is replaced by the 8-byte form (class 7) with boundary lengths, among them the
// exact one, MaxSlice and MaxSlice+1, and values that are negative as int / int64.
func wide8(m []byte, from int) [][]byte {
	var r [][]byte
	for p := from; p < len(m); p++ {
		size, exact := 0, uint64(0)
		switch {
		case m[p] == 0:
			size = 1
		case m[p] == 1 && p+1 < len(m) && p+2+int(m[p+1]) <= len(m) && m[p+1] > 0:
			size, exact = 2, uint64(m[p+1])
		case m[p] == 3 && p+2 < len(m) && p+3+(int(m[p+1])<<8|int(m[p+2])) <= len(m):
			size, exact = 3, uint64(m[p+1])<<8|uint64(m[p+2])
		default:
			continue
		}
		vals := []uint64{1, exact, 1 << 28, 1<<42 + 1, 1<<63 - 1, 1 << 63, 1<<63 + exact, 1<<64 - 1}
		if thorough {
			vals = append(vals, 0, exact+1, 1<<31-1, 1<<31, 1<<32, 1<<42, 1<<62, 1<<63+1)
		}
		for _, v := range vals {
			for _, cls := range []byte{7, 8} {
				if cls == 8 && !(thorough || v == 1<<63) {
					continue
				}
				x := append([]byte{}, m[:p]...)
				x = append(x, cls, byte(v>>56), byte(v>>48), byte(v>>40), byte(v>>32), byte(v>>24), byte(v>>16), byte(v>>8), byte(v))
				x = append(x, m[p+size:]...)
				r = append(r, x)
			}
		}
	}
	return r
}

// toQ rewrites plaintext Packets of device A into the same Packets of device Q (the device that
// is registered through the forwarded path).
func toQ(b []byte) []byte {
	a, q := devA(), devQ()
	return bytes.ReplaceAll(b, a[:], q[:])
}

func runHandle(kind string, p *profile, in []byte, class string) {
	run(kind+":"+p.name, in, class)
}

func generateMore(corpus bool) {
	if profiles == nil {
		mkProfiles()
		serverKeys.Fill()
	}
	pk := clientPackets()
	none := profileByName("none")
	if corpus {
		// regression: the Multi container with an empty hello of an unregistered device used to
		// spin in talkSub -> readDeviceInfo -> io.ReadFull over a never-written Chunk
		runHandle("hr", none, plainBytes(pk["multidev-empty-hello"]()), "corpus")
		runHandle("hs", none, plainBytes(pk["empty-hello"]()), "corpus")
		// "the transform / wrapper succeeds and delivers nothing": Unmarshal over a never-written Chunk
		// used to spin (Chunk.Read answered (0, nil) for ever; fix 3f5a248).  Twelve zero bytes are an
		// empty DNS packet; rewrap(p, nil) is the valid wrapping of an empty plaintext
		for _, p := range profiles {
			for _, kind := range []string{"hs", "hr"} {
				runHandle(kind, p, rewrap(p, nil), "corpus-empty")
				runHandle(kind, p, nil, "corpus-empty")
				if strings.Contains(p.name, "dns") {
					runHandle(kind, p, make([]byte, 12), "corpus-empty")
					runHandle(kind, p, make([]byte, 24), "corpus-empty")
					runHandle(kind, p, append(make([]byte, 11), 1, 192, 12, 0, 10, 0, 1, 0, 0, 0, 0, 0, 0), "corpus-empty") // one empty record
				}
				if strings.Contains(p.name, "b64") {
					runHandle(kind, p, []byte("===="), "corpus-empty")
					runHandle(kind, p, []byte("\n"), "corpus-empty")
				}
			}
		}
		// a decompression bomb: 8 MiB of zeros as the body of a hello, through the zlib wrapper
		for _, pn := range []string{"zlib", "gzip"} {
			p := profileByName(pn)
			n := &com.Packet{ID: 2, Device: devA()}
			n.Write(make([]byte, 8<<20))
			runHandle("hs", p, encode(p, n), "corpus")
		}
		return
	}
	nRandom := 6
	if thorough {
		nRandom = 400
	}
	for _, p := range profiles {
		if strings.HasPrefix(p.name, "st:") || p.name == "cbk32" {
			continue
		}
		for _, name := range packetOrder {
			n := pk[name]()
			plain := plainBytes(n)
			kind := "hr"
			if strings.HasPrefix(name, "hello") || name == "empty-hello" {
				kind = "hs"
			}
			wire := rewrap(p, plain)
			runHandle(kind, p, wire, "valid")
			if kind == "hr" {
				// the same Packet from Q, the device registered through A's container (talkSub)
				runHandle("hf", p, rewrap(p, toQ(plain)), "valid")
			}
			if kind == "hr" {
				runHandle("hs", p, wire, "valid") // the same packet from an unregistered device
			}
			full := thorough || p.name == "none" || p.name == "tdns" || p.name == "zlib" || p.name == "aes+hex+tb64s"
			// hostile wire bytes: truncations and single-byte mutations of what is on the wire
			step := len(wire)/6 + 1
			if full {
				step = len(wire)/24 + 1
			}
			if !thorough && strings.Contains(p.name, "cbk") {
				// the CBK cipher costs 1.5 ms per connection (it rebuilds its tables per block): every byte
				// only where an outer reader sits directly on it (AES, XOR) and for CBK alone
				crypto := !strings.HasPrefix(p.name, "st:") || strings.Contains(p.name, "aes") || strings.Contains(p.name, "xor")
				switch {
				case crypto && name == "hello" && !strings.HasPrefix(p.name, "st:"):
					step = 1
				case crypto && name == "hello":
					step = 2
				case crypto:
					step = 4
				case name == "hello":
					step = 6
				default:
					continue
				}
			}
			for i := 0; i < len(wire); i += step {
				runHandle(kind, p, wire[:i], "wire-truncated")
				x := append([]byte{}, wire...)
				x[i] ^= 0x80
				runHandle(kind, p, x, "wire-mutated")
			}
			if !full {
				continue
			}
			// hostile plaintext behind the wrapper: truncations, and mutations of the header
			// (flags, tag count, length class, length) and of the first body bytes
			for i := 32; i < len(plain); i += len(plain)/16 + 1 {
				runHandle(kind, p, rewrap(p, plain[:i]), "plain-truncated")
			}
			for _, pos := range []int{32, 35, 36, 42, 43, 44, 45, 46, 47, 48, 50, 60, 78, 79, 80, 91, 92, 93} {
				if pos >= len(plain) {
					continue
				}
				for _, v := range []byte{0, 1, 0x7f, 0xff} {
					if plain[pos] == v {
						continue
					}
					x := append([]byte{}, plain...)
					x[pos] = v
					runHandle(kind, p, rewrap(p, x), "plain-mutated")
				}
			}
		}
		for i := 0; i < nRandom; i++ {
			runHandle("hs", p, rng.Bytes(rng.Intn(120)), "random")
			x := plainBytes(pk["multi"]())
			for k := 0; k < 3; k++ {
				x[32+rng.Intn(len(x)-32)] = byte(rng.U64())
			}
			runHandle("hr", p, rewrap(p, x), "random")
		}
	}
	// ---- flag combinations on packets of an UNREGISTERED and of a registered device: every single flag
	// bit and every pair of the nine named flags x every Sv/Mv id x empty / non-empty body
	{
		var fls []com.Flag
		fls = append(fls, 0)
		for b := 0; b < 16; b++ {
			fls = append(fls, com.Flag(1)<<b)
		}
		for a := 0; a < 9; a++ {
			for b := a + 1; b < 9; b++ {
				fls = append(fls, com.Flag(1)<<a|com.Flag(1)<<b)
			}
		}
		ids := []uint8{0xC0, 0xFF}
		for i := 0; i <= 0x22; i++ {
			ids = append(ids, uint8(i))
		}
		for _, id := range ids {
			for _, fl := range fls {
				for _, body := range [][]byte{nil, pat(6, 2)} {
					if !thorough && len(body) > 0 && id > 8 && id != 0xC0 {
						continue
					}
					n := &com.Packet{ID: id, Job: 3, Flags: fl, Device: devA()}
					if fl&(com.FlagFrag|com.FlagMulti) != 0 {
						n.Flags |= com.Flag(2)<<48 | com.Flag(5)<<16 // len 2, group 5, position 0
					}
					if len(body) > 0 {
						n.Write(body)
					}
					w := plainBytes(n)
					runHandle("hs", none, w, "flags")
					runHandle("hr", none, w, "flags")
					if thorough || len(body) == 0 || id == 0xC0 {
						runHandle("hf", none, toQ(w), "flags")
					}
				}
			}
		}
	}
	// ---- wrapper stacks of depth 1 and 2: single-byte damage of EVERY byte of a valid wrapped stream
	for _, p := range profiles {
		if !(strings.HasPrefix(p.name, "st:") || p.w != nil && p.t == nil && !strings.Contains(p.name, "+")) {
			continue
		}
		for _, name := range []string{"hello", "data"} {
			kind := "hr"
			if name == "hello" {
				kind = "hs"
			}
			wire := encode(p, pk[name]())
			runHandle(kind, p, wire, "stack-valid")
			// quick tier: every byte for the stacks without a compressor (their streams are
			// short and cheap), every third byte behind zlib/gzip and for the second packet kind
			step := 1
			if !thorough && (strings.Contains(p.name, "zlib") || strings.Contains(p.name, "gzip")) {
				step = 4
			}
			if !thorough && name == "data" && strings.HasPrefix(p.name, "st:") && step == 1 {
				step = 2
			}
			if !thorough && strings.Contains(p.name, "cbk") {
				// the CBK cipher costs 1.5 ms per connection (it rebuilds its tables per block): every byte
				// only where an outer reader sits directly on it (AES, XOR) and for CBK alone
				crypto := !strings.HasPrefix(p.name, "st:") || strings.Contains(p.name, "aes") || strings.Contains(p.name, "xor")
				switch {
				case crypto && name == "hello" && !strings.HasPrefix(p.name, "st:"):
					step = 1
				case crypto && name == "hello":
					step = 2
				case crypto:
					step = 4
				case name == "hello":
					step = 6
				default:
					continue
				}
			}
			for i := 0; i < len(wire); i += step {
				for _, d := range []byte{0x80, 0x01, 0xff} {
					if d != 0x80 && !thorough {
						continue
					}
					x := append([]byte{}, wire...)
					x[i] ^= d
					runHandle(kind, p, x, "stack-damaged")
				}
			}
			if strings.Contains(p.name, "cbk") {
				// the last byte of a CBK block is the (additively enciphered) count of the block:
				// +-1 on it moves a full block to size+1 / size-1; for CBK alone every byte gets +-1
				bs := 17
				if strings.Contains(p.name, "cbk32") {
					bs = 33
				}
				if !strings.Contains(p.name, "cbk32") && !strings.HasPrefix(p.name, "st:") {
					bs = 129 // cfg.WrapCBK: the default block size 128
				}
				for i := range wire {
					if strings.HasPrefix(p.name, "st:") && i%bs != bs-1 && i%17 != 16 && i%33 != 32 && i%129 != 128 {
						continue
					}
					for _, d := range []byte{1, 0xff} {
						x := append([]byte{}, wire...)
						x[i] += d
						runHandle(kind, p, x, "stack-damaged")
					}
				}
			}
			for i := len(wire) - 1; i > 0 && (i > len(wire)-12 || (thorough && i > len(wire)-40)); i-- {
				runHandle(kind, p, wire[:i], "stack-truncated")
			}
		}
	}
	// ---- tags (conn.resolve) on a hello and on post-registration Packets through the real handle():
	// unknown, own, another registered Session's, duplicates, many; a zero tag is refused by the reader
	{
		own, other := devA().Hash(), devC().Hash()
		tagSets := [][]uint32{{0x01020304}, {own}, {other}, {other, other}, {own, own, other}, {0x01020304, other, own, 0xfffffffe, other},
			{1}, {0xffffffff}, {other, 0}, {0}}
		many := make([]uint32, 300)
		for i := range many {
			many[i] = uint32(0x10000 + i)
		}
		many[150], many[299] = other, own
		tagSets = append(tagSets, many)
		for pi, p := range profiles {
			if strings.HasPrefix(p.name, "st:") || p.name == "cbk32" || !(thorough || pi == 0 || pi == 1 || p.name == "tdns" || p.name == "aes+hex+tb64s") {
				continue
			}
			for _, ts := range tagSets {
				for _, name := range []string{"hello", "ping", "data", "multi", "frag0", "multidev"} {
					n := pk[name]()
					n.Tags = ts
					kind := "hr"
					if name == "hello" {
						kind = "hs"
					}
					var b bytes.Buffer
					if err := n.Marshal(&b); err != nil { // a zero tag: the writer refuses it; patch it in behind the writer
						n.Tags = append([]uint32{}, ts...)
						for i := range n.Tags {
							if n.Tags[i] == 0 {
								n.Tags[i] = 0x7e7e7e7e
							}
						}
						b.Reset()
						n.Marshal(&b)
						x := bytes.ReplaceAll(b.Bytes(), []byte{0x7e, 0x7e, 0x7e, 0x7e}, []byte{0, 0, 0, 0})
						runHandle(kind, p, rewrap(p, append([]byte{}, x...)), "tags")
						continue
					}
					w := rewrap(p, append([]byte{}, b.Bytes()...))
					runHandle(kind, p, w, "tags")
					if kind == "hr" {
						runHandle("hf", p, rewrap(p, toQ(b.Bytes())), "tags")
					}
					if kind == "hr" {
						runHandle("hs", p, w, "tags")
					}
				}
			}
		}
	}
	// ---- 8-byte length forms in every bytes / string field that a connection can carry
	for _, name := range []string{"hello", "data", "multi", "multidev"} {
		kind := "hr"
		if name == "hello" {
			kind = "hs"
		}
		plain := plainBytes(pk[name]())
		// from 45: the length field of the Packet itself (wire form: the same class byte + length)
		for _, x := range wide8(plain, 45) {
			runHandle(kind, none, x, "len64")
		}
		// the 4-byte form of the Packet's own length, announcing more than follows
		for _, v := range []uint32{1 << 20, 1 << 24, 1 << 28, 1<<32 - 1} {
			x := append(append([]byte{}, plain[:45]...), 5, byte(v>>24), byte(v>>16), byte(v>>8), byte(v))
			runHandle(kind, none, x, "len64")
			runHandle(kind, none, append(x, plain[47:]...), "len64")
			run("pktWire", x, "len64")
		}
	}
	// ---- the JSON view of a Session filled from hostile registration data (modelled)
	{
		hostile := []string{"", "alice", `a"b`, `back\slash`, "ctl\x01\n\t\r\x1f", "<script>&amp;'", "\xff\xfe invalid utf8 \xc0\x80", "\u2028\u2029 é ü 漢字",
			strings.Repeat("x", 300), `","admin":true,"x":"`, "\x00", `\u0000`, "\x7f"}
		for i, h := range hostile {
			var c data.Chunk
			machineBytes(&c, devID(3), i%3, i%2+1, h, hostile[(i+3)%len(hostile)], hostile[(i+5)%len(hostile)])
			settingsBytes(&c)
			c.WriteUint8(uint8(i % 3))
			for k := 0; k < i%3; k++ {
				c.WriteString(hostile[(i+k)%len(hostile)])
				c.WriteString(hostile[(i+k+7)%len(hostile)])
				c.WriteBytes(pat(4, 1))
			}
			m := payload(&c)
			run("json", m, "valid")
			// the interface name of the first device
			for k := 0; k < len(m); k += len(m)/8 + 1 {
				run("json", m[:k], "truncated")
			}
		}
		for i := 0; i < 4*nRandom; i++ {
			var c data.Chunk
			machineBytes(&c, devID(3), 1, 1, string(rng.Bytes(rng.Intn(12))), string(rng.Bytes(rng.Intn(12))), string(rng.Bytes(rng.Intn(12))))
			settingsBytes(&c)
			c.WriteUint8(1)
			c.WriteString(string(rng.Bytes(rng.Intn(12))))
			c.WriteString(string(rng.Bytes(rng.Intn(12))))
			c.WriteBytes(rng.Bytes(3))
			run("json", payload(&c), "random")
		}
	}
	// ---- receive(): Multi container walk and fragment dispatch over bytes (modelled)
	{
		sub := func(id uint8, job uint16, dev device.ID, fl com.Flag, body []byte) *com.Packet {
			v := &com.Packet{ID: id, Job: job, Flags: fl, Device: dev}
			v.Write(body)
			return v
		}
		frag := func(pos, ln, grp uint16, extra com.Flag) com.Flag {
			var f com.Flag
			f.SetGroup(grp)
			f.SetLen(ln)
			f.SetPosition(pos)
			return f | extra
		}
		multi := func(dev device.ID, fl com.Flag, cnt int, subs ...*com.Packet) *com.Packet {
			n := &com.Packet{ID: 0, Flags: com.FlagMulti | fl, Device: dev}
			for _, v := range subs {
				v.MarshalStream(n)
			}
			if cnt < 0 {
				cnt = len(subs)
			}
			n.Flags.SetLen(uint16(cnt))
			n.Flags &^= com.FlagFrag
			return n
		}
		a, o := devA(), devID(0x91)
		tops := []*com.Packet{
			sub(0xC0, 1, a, 0, pat(9, 1)),
			sub(0, 0, a, 0, nil),
			sub(0xC0, 1, o, 0, pat(9, 1)),
			sub(0xC0, 1, o, com.FlagMultiDevice, pat(9, 1)),
			sub(0xC0, 1, a, com.FlagOneshot, pat(9, 1)),
			sub(4, 1, a, 0, pat(3, 1)),
			sub(4, 1, a, com.FlagCrypt, pat(40, 1)),
			sub(0xC0, 1, a, frag(0, 0, 5, 0), pat(4, 1)),
			sub(0xC0, 1, a, frag(0, 1, 5, 0), pat(4, 1)),
			sub(0xC0, 1, a, frag(0, 1, 5, com.FlagMulti>>1<<1), pat(4, 1)),
			sub(0xC0, 1, a, frag(0, 3, 5, 0), pat(4, 1)),
			sub(0xC0, 1, a, frag(2, 3, 5, 0), pat(4, 1)),
			sub(6, 1, a, frag(0, 3, 5, 0), nil),
			sub(3, 1, a, frag(0, 3, 5, 0), nil),
			multi(a, 0, -1, sub(0xC0, 1, a, 0, pat(5, 1)), sub(0xC1, 2, a, 0, pat(300, 2))),
			multi(a, 0, 0, sub(0xC0, 1, a, 0, pat(5, 1))),
			multi(a, 0, 3, sub(0xC0, 1, a, 0, pat(5, 1)), sub(0xC1, 2, a, 0, pat(3, 2))),
			multi(a, 0, 1, sub(0xC0, 1, a, 0, pat(5, 1)), sub(0xC1, 2, a, 0, pat(3, 2))),
			multi(a, 0, -1, multi(a, 0, -1, sub(0xC0, 1, a, 0, pat(5, 1)), multi(a, 0, -1, sub(0xC2, 1, a, 0, pat(2, 1)))), sub(0xC1, 2, a, frag(0, 1, 3, 0), pat(3, 2))),
			multi(a, 0, -1, sub(0xC0, 1, a, 0, pat(5, 1)), sub(0xC0, 1, o, 0, pat(5, 1))),
			multi(a, com.FlagMultiDevice, -1, sub(0xC0, 1, a, 0, pat(5, 1)), sub(0xC0, 1, o, 0, pat(5, 1))),
			multi(a, com.FlagMultiDevice, -1, sub(0xC0, 1, o, com.FlagMultiDevice, pat(5, 1)), c2.VerifC04Hello(devID(0x81), false)),
			// a fragment group completed inside one container; one with an empty member; one whose
			// second member does not belong (other Job)
			multi(a, 0, -1, sub(0xC0, 7, a, frag(0, 2, 8, 0), pat(5, 1)), sub(0xC0, 7, a, frag(1, 2, 8, 0), pat(6, 1)), sub(0xC0, 7, a, frag(1, 2, 8, 0), pat(6, 1))),
			multi(a, 0, -1, sub(0xC0, 7, a, frag(0, 3, 8, 0), nil), sub(0xC0, 7, a, frag(1, 3, 8, 0), pat(6, 1)), sub(0xC0, 7, a, frag(2, 3, 8, 0), nil)),
			multi(a, 0, -1, sub(0xC0, 7, a, frag(0, 3, 8, 0), pat(5, 1)), sub(0xC0, 9, a, frag(1, 3, 8, 0), pat(6, 1))),
			multi(a, 0, -1, sub(0xC0, 7, a, frag(0, 3, 8, 0), pat(5, 1)), sub(0xC0, 7, a, frag(0, 4, 9, 0), pat(6, 1)), sub(0xC1, 7, a, frag(1, 3, 8, 0), pat(6, 1))),
		}
		for i, t := range tops {
			var c data.Chunk
			t.MarshalStream(&c)
			m := payload(&c)
			// top packet: ID 0, job 1-2, tag count 3-4, flags 5..12 (len 5-6, position 7-8, group 9-10, bits 11-12), device 13..44, body prefix 45..
			pos := []int{0, 5, 6, 12, 13, 45, 46}
			if i >= 14 {
				// first sub-packet: starts behind the body prefix (1 or 2 length bytes)
				b := 47
				if len(m) > 47+255 {
					b = 48
				}
				pos = append(pos, b, b+4, b+5, b+6, b+12, b+13, b+45, b+46)
			}
			if thorough {
				pos = append(pos, 4, 8, 10, 11)
			}
			derive("recv", m, pos)
		}
		for i := 0; i < 4*nRandom; i++ {
			var c data.Chunk
			tops[14+rng.Intn(len(tops)-14)].MarshalStream(&c)
			x := payload(&c)
			for k := 0; k < 2; k++ {
				x[45+rng.Intn(len(x)-45)] = byte(rng.U64())
			}
			run("recv", x, "random")
		}
		// tag-count boundary of a packed (inner) Packet: com.Packet.UnmarshalStream reads at most
		// PacketMaxTags = 0x8000 tag words into a list sized by the 16-bit count; counts at and beyond
		// the limit with that many non-zero tag words REALLY present (and the short variants)
		for _, fl := range []com.Flag{0, com.FlagMultiDevice} {
			for _, cnt := range []int{0x7FFF, 0x8000, 0x8001, 0xFFFF} {
				for _, present := range []int{cnt, 0x8002, 3, 0} {
					if present > cnt || (cnt == 0xFFFF && present == cnt) {
						continue // 0xFFFF: 0x8002 words present are enough (more than the reader may take)
					}
					var c data.Chunk
					sub(0xC0, 1, a, 0, pat(5, 1)).MarshalStream(&c)
					in := payload(&c) // id 0, job 1-2, tag count 3-4, flags 5..12, device 13..44, body 45..
					words := make([]byte, 0, 4*present)
					for w := 0; w < present; w++ {
						words = append(words, 0, 0, byte(w>>8)|1, byte(w))
					}
					x := append([]byte{}, in[:45]...)
					x[3], x[4] = byte(cnt>>8), byte(cnt)
					x = append(x, words...)
					x = append(x, in[45:]...)
					top := &com.Packet{ID: 0, Flags: com.FlagMulti | fl, Device: a}
					top.Write(x)
					top.Flags.SetLen(1)
					top.Flags &^= com.FlagFrag
					var tc data.Chunk
					top.MarshalStream(&tc)
					oracleOnly = present > 64
					run("recv", payload(&tc), "inner-tag-count")
					oracleOnly = false
				}
			}
		}
	}
	// ---- sequences of fragment-flag Packets to ONE registered Session: through receive() with the
	// model (recvseq: one Packet after the other; recv: the same Packets inside one Multi container)
	// and through the real handle() (hq: one connection each; hr: the Multi container)
	{
		a := devA()
		type fp struct {
			id      uint8
			job     uint16
			grp     uint16
			ln, pos uint16
			empty   bool
		}
		mk := func(f fp) *com.Packet {
			v := &com.Packet{ID: f.id, Job: f.job, Device: a}
			v.Flags.SetGroup(f.grp)
			v.Flags.SetLen(f.ln)
			v.Flags.SetPosition(f.pos)
			if !f.empty {
				v.Write(pat(3+int(f.pos), byte(f.grp)))
			}
			return v
		}
		var seqs [][]fp
		for _, L := range []uint16{2, 3} {
			for mask := 0; mask < 1<<L; mask++ {
				var in []fp
				for p := uint16(0); p < L; p++ {
					in = append(in, fp{0xC0, 7, 8, L, p, mask&(1<<p) != 0})
				}
				rev := make([]fp, len(in))
				for i := range in {
					rev[len(in)-1-i] = in[i]
				}
				dup := append(append([]fp{}, in...), in[0])
				dup2 := append([]fp{in[0], in[0]}, in[1:]...)
				beyond := append([]fp{in[0], {0xC0, 7, 8, L, L + 3, mask&1 != 0}}, in[1:]...)
				seqs = append(seqs, in, rev, dup, dup2, beyond)
			}
		}
		for _, L := range []uint16{0, 1, 65535} {
			for _, e := range []bool{false, true} {
				seqs = append(seqs, []fp{{0xC0, 7, 8, L, 0, e}}, []fp{{0xC0, 7, 8, L, 0, e}, {0xC0, 7, 8, L, 1, e}},
					[]fp{{0xC0, 7, 8, L, 0, e}, {0xC0, 7, 8, 2, 1, !e}, {0xC0, 7, 8, 2, 0, e}})
			}
		}
		for mask := 0; mask < 16; mask++ { // two interleaved groups of two parts
			seqs = append(seqs, []fp{{0xC0, 7, 8, 2, 0, mask&1 != 0}, {0xC1, 9, 9, 2, 0, mask&2 != 0}, {0xC0, 7, 8, 2, 1, mask&4 != 0}, {0xC1, 9, 9, 2, 1, mask&8 != 0}})
		}
		for mask := 0; mask < 4; mask++ { // a second part that does not belong (other Job / other ID), then the right one
			seqs = append(seqs, []fp{{0xC0, 7, 8, 3, 0, mask&1 != 0}, {0xC0, 9, 8, 3, 1, mask&2 != 0}, {0xC0, 7, 8, 3, 1, false}},
				[]fp{{0xC0, 7, 8, 3, 0, mask&1 != 0}, {0xC1, 7, 8, 3, 1, mask&2 != 0}, {0xC0, 7, 8, 3, 2, true}})
		}
		for i := 0; i < 10*nRandom; i++ {
			var q []fp
			for k := 2 + rng.Intn(4); k > 0; k-- {
				q = append(q, fp{uint8(0xC0 + rng.Intn(2)), uint16(7 + 2*rng.Intn(2)), uint16(8 + rng.Intn(2)),
					[]uint16{0, 1, 2, 2, 3, 3, 65535}[rng.Intn(7)], uint16(rng.Intn(4)), rng.Intn(2) == 0})
			}
			seqs = append(seqs, q)
		}
		none := profileByName("none")
		for i, q := range seqs {
			class := "fragseq"
			if i >= len(seqs)-10*nRandom {
				class = "fragseq-random"
			}
			var stream, conns data.Chunk
			top := &com.Packet{ID: 0, Flags: com.FlagMulti, Device: a}
			for _, f := range q {
				v := mk(f)
				v.MarshalStream(&stream)
				v.MarshalStream(top)
				w := plainBytes(mk(f))
				conns.WriteUint16(uint16(len(w)))
				conns.Write(w)
			}
			top.Flags.SetLen(uint16(len(q)))
			top.Flags &^= com.FlagFrag
			var tc data.Chunk
			top.MarshalStream(&tc)
			run("recvseq", payload(&stream), class)
			run("recv", payload(&tc), class)
			run("hq:none", payload(&conns), class)
			runHandle("hr", none, plainBytes(top), class)
			// the same for Q, whose Session was made by Listener.talkSub
			run("recvseqf", toQ(payload(&stream)), class)
			run("hg:none", toQ(payload(&conns)), class)
			runHandle("hf", none, toQ(plainBytes(top)), class)
			if i%7 == 0 {
				p := profiles[1+(i/7)%12]
				var pc data.Chunk
				for _, f := range q {
					w := encode(p, mk(f))
					pc.WriteUint16(uint16(len(w)))
					pc.Write(w)
				}
				run("hq:"+p.name, payload(&pc), class)
				var qc data.Chunk
				for _, f := range q {
					v := mk(f)
					v.Device = devQ()
					w := encode(p, v)
					qc.WriteUint16(uint16(len(w)))
					qc.Write(w)
				}
				run("hg:"+p.name, payload(&qc), class)
			}
		}
	}
	// ---- base64 shift transform (modelled)
	for _, shift := range []int{0, 5, 200} {
		d := "b64:" + strconv.Itoa(shift)
		for _, n := range []int{0, 1, 2, 3, 4, 30, 600} {
			e := []byte(base64.StdEncoding.EncodeToString(pat(n, 7)))
			run(d, e, "valid")
			for i := 0; i < len(e) && i < 12; i++ {
				run(d, e[:i], "truncated")
			}
			if len(e) > 2 {
				x := append([]byte{}, e...)
				x[1] = '!'
				run(d, x, "mutated")
				x = append([]byte{}, e...)
				x[len(x)-1] = '='
				run(d, x, "mutated")
			}
		}
		for i := 0; i < 4*nRandom; i++ {
			b := rng.Bytes(rng.Intn(24))
			if rng.Intn(2) == 0 {
				for k := range b {
					b[k] = "ABCDwxyz0189+/="[int(b[k])%15]
				}
			}
			run(d, b, "random")
		}
	}
}
