package main

// Listener path, wrappers/transforms and the JSON view (oracle-only: the stdlib decoders behind
// them are not modelled).

import (
	"encoding/json"
	"fmt"

	"github.com/iDigitalFlame/xmt/c2"
)

func workerInit() {}

func jsonCheck(s *c2.Session) (r string) {
	defer func() {
		if x := recover(); x != nil {
			r = "jsonpanic:" + fmt.Sprint(x)
		}
	}()
	b, err := c2.VerifC04SessionJSON(s)
	if err != nil {
		return "jsonerr:" + err.Error()
	}
	if !json.Valid(b) {
		return "json:the JSON view of the Session is not well-formed: " + string(b)
	}
	return ""
}

func decodeMore(dec string, in []byte) ([]uint64, string, error) {
	return nil, "", fmt.Errorf("unknown decoder %s", dec)
}

func generateMore(corpus bool) {}
