// C17 harness: multi-group profiles.  Configs with 1..6 groups (weights with ties, distinct
// hosts / wrapper / transform / sleep / jitter / kill date / work hours / key pins / connector
// per group, so that the entry behind every answer is observable) are built by the REAL
// cfg.Config.Build; histories of Switch(e) and accessor calls run on the real Group with
// util.FastRandN redirected to a scripted, recorded source (derived overlay copy of group.go).
// Every history is emitted as a Coq case for Model/Group.v and checked here by a Go-side oracle
// that states the property directly (membership, weight order, own entry's values, selector
// contracts).
package main

import (
	"context"
	"errors"
	"fmt"
	"net"
	"os"
	"strings"
	"time"

	"github.com/PurpleSec/logx"
	"github.com/iDigitalFlame/xmt/c2"
	"github.com/iDigitalFlame/xmt/c2/cfg"
	"github.com/iDigitalFlame/xmt/com"
	"github.com/iDigitalFlame/xmt/device/local"
	"github.com/iDigitalFlame/xmt/c2/transform"
	"github.com/iDigitalFlame/xmt/c2/wrapper"
	"github.com/iDigitalFlame/xmt/data"

	"verifharness/vh"
)

var (
	out *vh.Out
	rng *vh.Rand
)

const (
	selNone   = 0
	selLV     = 0xAA
	selRR     = 0xAB
	selRand   = 0xAC
	selSemiRR = 0xAD
	selSemiRn = 0xAE
	selSemiLV = 0xA7
)

var selNames = map[int]string{selNone: "none", selLV: "lastvalid", selRR: "roundrobin", selRand: "random",
	selSemiRR: "semiroundrobin", selSemiRn: "semirandom", selSemiLV: "semilastvalid"}

func selName(s int) string {
	if n, ok := selNames[s]; ok {
		return n
	}
	return fmt.Sprintf("byte%d", s)
}
func selSetting(s int) cfg.Setting {
	switch s {
	case selLV:
		return cfg.SelectorLastValid
	case selRR:
		return cfg.SelectorRoundRobin
	case selRand:
		return cfg.SelectorRandom
	case selSemiRR:
		return cfg.SelectorSemiRoundRobin
	case selSemiRn:
		return cfg.SelectorSemiRandom
	case selSemiLV:
		return cfg.SelectorSemiLastValid
	}
	return nil
}

// ---------------------------------------------------------------- group specification

type spec struct {
	id     int
	weight int // as configured (0 = not set, > 100 is capped by Build)
	hosts  []string
	wrap   int // 0 none 1 hex 2 zlib 3 gzip 4 base64 5 cbk(10+id)
	trans  int // 0 none, 1 base64, 2 shift(20+id)
	sleep  time.Duration
	jitter int
	kill   int64 // 0 not set, -1 "cleared" (zero time, set), else unix seconds
	work   *cfg.WorkHours
	pins   []data.PublicKey
	sel    int
}

func (s *spec) capWeight() int64 {
	if s.weight > 100 {
		return 100
	}
	return int64(s.weight)
}
func hostID(h string) int64 {
	var g, j int
	if _, err := fmt.Sscanf(h, "g%dh%d.example", &g, &j); err != nil {
		return -7
	}
	return int64(g*100 + j)
}
func (s *spec) wrapID() int64 {
	switch s.wrap {
	case 5:
		return 1000 + int64(10+s.id)
	case 6: // stack [Hex, Base64]
		return stackID([]int64{1, 4})
	case 7: // stack [CBK(10+id), Zlib, Base64]: the stack of THIS group (own key byte)
		return stackID([]int64{1000 + int64(10+s.id), 2, 4})
	case 8: // stack [Base64, CBK(10+id)]
		return stackID([]int64{4, 1000 + int64(10+s.id)})
	}
	return int64(s.wrap)
}

// stackID identifies a MultiWrapper by its elements in order (injective for the ids used here).
func stackID(ids []int64) int64 {
	v := int64(7)
	for _, x := range ids {
		v = v*4099 + x
	}
	return 1000000 + v
}
func (s *spec) transID() int64 {
	switch s.trans {
	case 1:
		return 1
	case 2:
		return 100 + int64(20+s.id)
	}
	return 0
}
func (s *spec) killPair() (int64, bool) {
	switch {
	case s.kill == 0:
		return time.Time{}.Unix(), false
	case s.kill == -1:
		return time.Time{}.Unix(), true
	}
	return s.kill, true
}
func workCode(w *cfg.WorkHours) int64 {
	if w == nil {
		return -1
	}
	return int64(w.Days)<<32 | int64(w.StartHour)<<24 | int64(w.StartMin)<<16 | int64(w.EndHour)<<8 | int64(w.EndMin)
}
func (s *spec) connID() int64 { return 500 + int64(s.id) }

func (s *spec) settings() []cfg.Setting {
	var v []cfg.Setting
	for _, h := range s.hosts {
		v = append(v, cfg.Host(h))
	}
	v = append(v, cfg.Weight(uint(s.weight)), cfg.Sleep(s.sleep), cfg.Jitter(uint(s.jitter)))
	switch s.wrap {
	case 1:
		v = append(v, cfg.WrapHex)
	case 2:
		v = append(v, cfg.WrapZlib)
	case 3:
		v = append(v, cfg.WrapGzip)
	case 4:
		v = append(v, cfg.WrapBase64)
	case 5:
		v = append(v, cfg.WrapCBK(byte(10+s.id), 2, 3, 4))
	case 6:
		v = append(v, cfg.WrapHex, cfg.WrapBase64)
	case 7:
		v = append(v, cfg.WrapCBK(byte(10+s.id), 2, 3, 4), cfg.WrapZlib, cfg.WrapBase64)
	case 8:
		v = append(v, cfg.WrapBase64, cfg.WrapCBK(byte(10+s.id), 2, 3, 4))
	}
	switch s.trans {
	case 1:
		v = append(v, cfg.TransformB64)
	case 2:
		v = append(v, cfg.TransformB64Shift(20+s.id))
	}
	switch {
	case s.kill == -1:
		v = append(v, cfg.KillDate(time.Time{}))
	case s.kill > 0:
		v = append(v, cfg.KillDate(time.Unix(s.kill, 0)))
	}
	if s.work != nil {
		v = append(v, *s.work)
	}
	for _, k := range s.pins {
		v = append(v, cfg.KeyPin(k))
	}
	if x := selSetting(s.sel); x != nil {
		// the selector may stand anywhere in the group
		p := rng.Intn(len(v) + 1)
		v = append(v[:p], append([]cfg.Setting{x}, v[p:]...)...)
	}
	return v
}

func (s *spec) coq() string {
	hs := make([]int64, len(s.hosts))
	for i, h := range s.hosts {
		hs[i] = hostID(h)
	}
	ks := make([]int64, len(s.pins))
	for i, k := range s.pins {
		ks[i] = int64(k.Hash())
	}
	ku, kb := s.killPair()
	return fmt.Sprintf("(mkE %s %s %s %s %s %s %s %s %s %s %s)", vh.Z(s.capWeight()), vh.ZList64(hs), vh.Z(s.wrapID()), vh.Z(s.transID()),
		vh.Z(int64(s.sleep)), vh.Z(int64(s.jitter)), vh.Z(ku), vh.B(kb), vh.Z(workCode(s.work)), vh.ZList64(ks), vh.Z(s.connID()))
}

func (s *spec) json() map[string]interface{} {
	ku, kb := s.killPair()
	return map[string]interface{}{"id": s.id, "weight": s.weight, "hosts": s.hosts, "wrap": s.wrapID(), "transform": s.transID(),
		"sleep_ns": int64(s.sleep), "jitter": s.jitter, "kill_unix": ku, "kill_set": kb, "work": workCode(s.work), "pins": len(s.pins), "selector": selName(s.sel)}
}

var keyPool []data.PublicKey

func mkKey(seed byte) data.PublicKey {
	var k data.PublicKey
	for i := range k {
		k[i] = seed + byte(i*7)
	}
	k[0] = 4
	return k
}

func genSpec(id int, weight int, sel int, rich bool) *spec {
	s := &spec{id: id, weight: weight, sel: sel}
	nh := 1
	if rich {
		nh = 1 + rng.Intn(3)
	}
	for j := 0; j < nh; j++ {
		s.hosts = append(s.hosts, fmt.Sprintf("g%dh%d.example", id, j))
	}
	s.sleep = time.Duration(1000+id) * time.Millisecond
	s.jitter = 10 + id
	if rich {
		s.wrap = rng.Intn(9)
		s.trans = rng.Intn(3)
		switch rng.Intn(4) {
		case 0:
			s.kill = 0
		case 1:
			s.kill = -1
		default:
			s.kill = 1900000000 + int64(id)*86400
		}
		if rng.Intn(3) > 0 {
			s.work = &cfg.WorkHours{Days: uint8(1 + id), StartHour: uint8(8 + id), StartMin: uint8(rng.Intn(60)), EndHour: uint8(17 + id%6), EndMin: uint8(rng.Intn(60))}
			if rng.Intn(6) == 0 {
				s.work = &cfg.WorkHours{}
			}
		}
		for j := rng.Intn(3); j > 0; j-- {
			s.pins = append(s.pins, keyPool[rng.Intn(len(keyPool))])
		}
		s.jitter = rng.Intn(101)
		s.sleep = time.Duration(1000+id)*time.Millisecond + time.Duration(rng.Intn(1000))*time.Microsecond
	}
	return s
}

// ---------------------------------------------------------------- observation helpers

var errRec = errors.New("recording connector")

type recConn struct {
	id  int64
	log *[]int64
}

func (r recConn) Connect(context.Context, string) (net.Conn, error) {
	*r.log = append(*r.log, r.id)
	return nil, errRec
}

func wrapObs(w cfg.Wrapper) int64 {
	switch v := w.(type) {
	case nil:
		return 0
	case wrapper.CBK:
		return 1000 + int64(v[0])
	case cfg.MultiWrapper:
		ids := make([]int64, len(v))
		for i := range v {
			ids[i] = wrapObs(v[i])
		}
		return stackID(ids)
	}
	switch {
	case w == cfg.Wrapper(wrapper.Hex):
		return 1
	case w == cfg.Wrapper(wrapper.Zlib):
		return 2
	case w == cfg.Wrapper(wrapper.Gzip):
		return 3
	case w == cfg.Wrapper(wrapper.Base64):
		return 4
	}
	return -9
}
func transObs(t cfg.Transform) int64 {
	switch v := t.(type) {
	case nil:
		return 0
	case transform.B64:
		if v == 0 {
			return 1
		}
		return 100 + int64(v)
	}
	return -9
}

const (
	kSwitch = iota
	kNext
	kSleep
	kJitter
	kKill
	kWork
	kTrusted
	kConnect
)

type opT struct {
	kind int
	e    bool
	key  data.PublicKey
}

func (o opT) coq() string {
	switch o.kind {
	case kSwitch:
		return "OSwitch " + vh.B(o.e)
	case kNext:
		return "ONext"
	case kSleep:
		return "OSleep"
	case kJitter:
		return "OJitter"
	case kKill:
		return "OKill"
	case kWork:
		return "OWork"
	case kTrusted:
		return fmt.Sprintf("OTrusted %s %s", vh.Z(int64(o.key.Hash())), vh.B(o.key.Empty()))
	}
	return "OConnect"
}
func (o opT) String() string {
	switch o.kind {
	case kSwitch:
		return fmt.Sprintf("Switch(%v)", o.e)
	case kTrusted:
		return fmt.Sprintf("TrustedKey(hash=%d,empty=%v)", o.key.Hash(), o.key.Empty())
	}
	return [...]string{"Switch", "Next", "Sleep", "Jitter", "KillDate", "WorkHours", "TrustedKey", "Connect"}[o.kind] + "()"
}

type obsT struct {
	vals  []int64
	cur   int64
	calls [][2]int64
	panic bool
}

func (o obsT) coq() string {
	cs := make([]string, len(o.calls))
	for i, c := range o.calls {
		cs[i] = fmt.Sprintf("(%d,%d)", c[0], c[1])
	}
	return fmt.Sprintf("(%s,%s,%s)", vh.ZList64(o.vals), vh.Z(o.cur), vh.List(cs))
}
func (o obsT) draws() []int64 {
	ds := make([]int64, len(o.calls))
	for i, c := range o.calls {
		ds[i] = c[1]
	}
	return ds
}

var (
	calls   [][2]int64
	bias0   int // percent of draws forced to 0 (the 25% gate fires on 0)
	connLog []int64
)

func hook(n int) uint32 {
	var v int
	switch {
	case n <= 0:
		v = 0
	case rng.Intn(100) < bias0:
		v = 0
	default:
		v = rng.Intn(n)
	}
	calls = append(calls, [2]int64{int64(n), int64(v)})
	return uint32(v)
}

// one call on the real profile
func doOp(p cfg.Profile, cursor func() int, o opT) (r obsT) {
	calls = nil
	defer func() {
		if x := recover(); x != nil {
			r = obsT{panic: true, cur: int64(cursor()), calls: calls, vals: []int64{-99}}
		}
	}()
	var vals []int64
	switch o.kind {
	case kSwitch:
		if p.Switch(o.e) {
			vals = []int64{1}
		} else {
			vals = []int64{0}
		}
	case kNext:
		h, w, t := p.Next()
		id := int64(-1)
		if h != "" {
			id = hostID(h)
		}
		vals = []int64{id, wrapObs(w), transObs(t)}
	case kSleep:
		vals = []int64{int64(p.Sleep())}
	case kJitter:
		vals = []int64{int64(p.Jitter())}
	case kKill:
		t, ok := p.KillDate()
		b := int64(0)
		if ok {
			b = 1
		}
		vals = []int64{t.Unix(), b}
	case kWork:
		vals = []int64{workCode(p.WorkHours())}
	case kTrusted:
		b := int64(0)
		if p.TrustedKey(o.key) {
			b = 1
		}
		vals = []int64{b}
	case kConnect:
		connLog = connLog[:0]
		_, err := p.Connect(context.Background(), "x")
		switch {
		case len(connLog) == 1 && err == errRec:
			vals = []int64{connLog[0]}
		case len(connLog) == 0 && err == cfg.ErrNotAConnector:
			vals = []int64{-1}
		default:
			vals = []int64{-8}
		}
	}
	return obsT{vals: vals, cur: int64(cursor()), calls: calls}
}

func genOps(n int, style int) []opT {
	var ops []opT
	switch style {
	case 0: // switches only
		for i := 0; i < n; i++ {
			ops = append(ops, opT{kind: kSwitch, e: rng.Intn(3) == 0})
		}
	case 1: // the pattern of Session.listen: Next first, then Switch(e) and Next when it says so
		ops = append(ops, opT{kind: kNext})
		for i := 1; i < n; i++ {
			ops = append(ops, opT{kind: kSwitch, e: rng.Intn(4) == 0}, opT{kind: kNext})
			i++
		}
	default: // mixed, accessors before the first Switch included
		for i := 0; i < n; i++ {
			switch r := rng.Intn(20); {
			case r < 11:
				ops = append(ops, opT{kind: kSwitch, e: rng.Intn(3) == 0})
			case r < 14:
				ops = append(ops, opT{kind: kNext})
			case r == 14:
				ops = append(ops, opT{kind: kSleep})
			case r == 15:
				ops = append(ops, opT{kind: kJitter})
			case r == 16:
				ops = append(ops, opT{kind: kKill})
			case r == 17:
				ops = append(ops, opT{kind: kWork})
			case r == 18:
				var k data.PublicKey
				if rng.Intn(5) > 0 {
					k = keyPool[rng.Intn(len(keyPool))]
				}
				ops = append(ops, opT{kind: kTrusted, key: k})
			default:
				ops = append(ops, opT{kind: kConnect})
			}
		}
	}
	return ops
}

// ---------------------------------------------------------------- the oracle (property stated on the implementation)

type oracleCtx struct {
	sel   int
	ents  []*spec // in the order of g.entries (position -> configured group)
	group bool    // a *Group (false: bare profile, cursor constantly 0)
	desc  map[string]interface{}
	class string
}

func (c *oracleCtx) fail(what, key string, step int, o opT, pre int64, r obsT) {
	d := map[string]interface{}{}
	for k, v := range c.desc {
		d[k] = v
	}
	d["failing_step"] = step
	d["failing_op"] = o.String()
	d["cursor_before"] = pre
	d["cursor_after"] = r.cur
	d["returned"] = r.vals
	out.Fail(what, key, d)
}

func inHosts(s *spec, id int64) bool {
	for _, h := range s.hosts {
		if hostID(h) == id {
			return true
		}
	}
	return false
}

func (c *oracleCtx) checkOp(step int, o opT, pre int64, r obsT) {
	n := int64(len(c.ents))
	sn := selName(c.sel)
	if r.panic {
		c.fail("a profile call panicked", "panic-"+o.String(), step, o, pre, r)
		return
	}
	// the active entry is always one of the configured groups
	if n == 0 {
		if r.cur != -1 {
			c.fail("cursor set on a group without entries", "cursor-not-member", step, o, pre, r)
		}
		return
	}
	if r.cur < 0 || r.cur >= n {
		c.fail("the active entry is not one of the group's entries", "cursor-not-member", step, o, pre, r)
		return
	}
	cur := c.ents[r.cur]
	if o.kind != kSwitch {
		// accessors never move a cursor that is set
		if pre >= 0 && r.cur != pre {
			c.fail("an accessor moved the cursor", "accessor-moved-cursor", step, o, pre, r)
		}
		ok := true
		switch o.kind {
		case kNext:
			ok = inHosts(cur, r.vals[0]) && r.vals[1] == cur.wrapID() && r.vals[2] == cur.transID()
		case kSleep:
			ok = r.vals[0] == int64(cur.sleep)
		case kJitter:
			ok = r.vals[0] == int64(cur.jitter)
		case kKill:
			ku, kb := cur.killPair()
			ok = r.vals[0] == ku && (r.vals[1] == 1) == kb
		case kWork:
			ok = r.vals[0] == workCode(cur.work)
		case kTrusted:
			want := !o.key.Empty() && len(cur.pins) == 0
			for _, k := range cur.pins {
				if !o.key.Empty() && k.Hash() == o.key.Hash() {
					want = true
				}
			}
			ok = (r.vals[0] == 1) == want
		case kConnect:
			ok = r.vals[0] == cur.connID()
		}
		if !ok {
			c.fail("an accessor answered with values that are not the active group's own", "accessor-foreign-entry-"+strings.TrimSuffix(o.String(), "()"), step, o, pre, r)
		}
		return
	}
	// Switch: the returned flag says whether the active entry changed
	if (r.vals[0] == 1) != (r.cur != pre) {
		c.fail("Switch's result does not say whether the active entry changed", "switch-return-"+sn, step, o, pre, r)
	}
	if !c.group {
		return
	}
	if pre < 0 {
		// first use: round-robin style selectors start with the heaviest entry
		if c.sel != selRand && c.sel != selSemiRn && r.cur != 0 {
			c.fail("the first selection is not the heaviest entry", "first-not-heaviest-"+sn, step, o, pre, r)
		}
		return
	}
	next := (pre + 1) % n
	switch c.sel {
	case selLV:
		if !o.e && r.cur != pre {
			c.fail("last-valid changed the entry without a reported failure", "lastvalid-moved-without-failure", step, o, pre, r)
		}
		if o.e && r.cur != next {
			c.fail("last-valid did not advance to the next entry after a failure", "lastvalid-failure-not-next", step, o, pre, r)
		}
	case selRR:
		if r.cur != next {
			c.fail("round-robin did not move to the next entry in order", "roundrobin-order", step, o, pre, r)
		}
	case selSemiRR:
		if r.cur != pre && r.cur != next {
			c.fail("semi-round-robin neither stayed nor moved to the next entry", "semi-contract-semiroundrobin", step, o, pre, r)
		}
	case selSemiLV:
		if r.cur != pre && r.cur != next {
			c.fail("semi-last-valid neither stayed nor moved to the next entry", "semi-contract-semilastvalid", step, o, pre, r)
		}
		if o.e && r.cur != next {
			c.fail("semi-last-valid did not advance after a failure", "semilastvalid-failure-not-next", step, o, pre, r)
		}
	}
	if n == 1 && r.cur != 0 {
		c.fail("a single entry switched", "single-entry-switched", step, o, pre, r)
	}
}

// runHistory runs ops on p, checks the oracle, and returns the Coq lists of ops and observations.
func runHistory(p cfg.Profile, cursor func() int, ops []opT, c *oracleCtx) (string, string, []string, int) {
	var (
		so, sr []string
		hs     []string
		moves  int
	)
	pre := int64(cursor())
	for i, o := range ops {
		r := doOp(p, cursor, o)
		c.checkOp(i, o, pre, r)
		if r.cur != pre {
			moves++
		}
		pre = r.cur
		so = append(so, fmt.Sprintf("(%s,%s)", o.coq(), vh.ZList64(r.draws())))
		sr = append(sr, r.coq())
		hs = append(hs, fmt.Sprintf("%s->%v@%d", o.String(), r.vals, r.cur))
	}
	return vh.List(so), vh.List(sr), hs, moves
}

// ---------------------------------------------------------------- cases

func weightsFor(n int, pattern int) []int {
	w := make([]int, n)
	for i := range w {
		switch pattern {
		case 0: // pairwise different, shuffled
			w[i] = 5 + 7*((i*3+1)%n) + i%2
		case 1: // ties
			w[i] = []int{10, 20, 10, 20, 30, 10}[i%6]
		case 2: // all unset
			w[i] = 0
		case 3: // the cap: 100, 101, 200, 255 all mean 100
			w[i] = []int{100, 101, 50, 255, 200, 99}[i%6]
		default:
			w[i] = rng.Intn(8) * rng.Intn(20)
			if rng.Intn(10) == 0 {
				w[i] = 100 + rng.Intn(156)
			}
		}
	}
	if pattern == 0 {
		seen := map[int]bool{}
		for i := range w {
			for seen[w[i]] {
				w[i]++
			}
			seen[w[i]] = true
		}
	}
	return w
}

// emptiesNext: positions (0..n, n = after the last group; a position may repeat) at which the NEXT
// doConfig inserts an EMPTY group -- a Separator with nothing in front of it, what
// `AddGroup(Host(""))` writes.  Build skips empty groups wherever they stand: the Group has one
// entry per NON-EMPTY configured group.
var emptiesNext []int

func doConfig(weights []int, sels []int, rich bool, opsLen int, style int, class string, alsoRaw bool) {
	n := len(weights)
	specs := make([]*spec, n)
	empties := emptiesNext
	emptiesNext = nil
	var parts []cfg.Config
	for i := range specs {
		specs[i] = genSpec(i, weights[i], sels[i], rich)
		for _, e := range empties {
			if e == i {
				parts = append(parts, nil)
			}
		}
		var g cfg.Config
		g.AddGroup(specs[i].settings()...)
		parts = append(parts, g)
	}
	for _, e := range empties {
		if e >= n {
			parts = append(parts, nil)
		}
	}
	var c cfg.Config
	for i, p := range parts {
		if i > 0 {
			c = append(c, byte(cfg.Separator))
		}
		c = append(c, p...)
	}
	var sj []interface{}
	for _, s := range specs {
		sj = append(sj, s.json())
	}
	desc := map[string]interface{}{"groups": sj, "config_bytes": len(c)}
	if len(empties) > 0 {
		desc["empty_groups_inserted_before_group"] = empties
		cb := make([]int, len(c))
		for i, b := range c {
			cb[i] = int(b)
		}
		desc["config"] = cb
	}
	cfg.VerifSetRandN(hook)
	defer cfg.VerifSetRandN(nil)
	p, err := func() (p cfg.Profile, err error) {
		defer func() {
			if x := recover(); x != nil {
				err = fmt.Errorf("panic: %v", x)
			}
		}()
		return c.Build()
	}()
	if err != nil || p == nil {
		desc["error"] = fmt.Sprint(err)
		out.Fail("a valid multi-group Config did not build", "build-failed", desc)
		return
	}
	var se []string
	for _, s := range specs {
		se = append(se, s.coq())
	}
	ops := genOps(opsLen, style)
	if n == 1 {
		if !cfg.VerifProfileSetConn(p, recConn{id: specs[0].connID(), log: &connLog}) {
			out.Fail("a single-group Config did not build to a bare profile", "single-not-profile", desc)
			return
		}
		oc := &oracleCtx{sel: sels[0], ents: specs, group: false, desc: desc, class: class}
		so, sr, hs, _ := runHistory(p, func() int { return 0 }, ops, oc)
		desc["history"] = hs
		out.Add(fmt.Sprintf("CProfile %s %s %s", se[0], so, sr), class, len(ops) >= 2, desc)
		return
	}
	g, ok := p.(*cfg.Group)
	if !ok {
		out.Fail("a multi-group Config did not build to a *Group", "multi-not-group", desc)
		return
	}
	// observed order of g.entries
	if cfg.VerifGroupLen(g) != n {
		desc["entries"] = cfg.VerifGroupLen(g)
		out.Fail("the Group does not hold one entry per configured group", "entry-count", desc)
		return
	}
	order := make([]int64, n)
	ents := make([]*spec, n)
	seen := map[int]bool{}
	for i := 0; i < n; i++ {
		h, w := cfg.VerifGroupHost0(g, i)
		id := int(hostID(h) / 100)
		if hostID(h) < 0 || id >= n || seen[id] {
			desc["position"] = i
			desc["host"] = h
			out.Fail("the entries are not a permutation of the configured groups", "not-a-permutation", desc)
			return
		}
		seen[id] = true
		order[i], ents[i] = int64(id), specs[id]
		if int64(w) != specs[id].capWeight() {
			desc["position"] = i
			desc["stored_weight"] = w
			out.Fail("an entry does not carry its group's weight", "weight-mismatch", desc)
		}
		cfg.VerifGroupSetConn(g, i, recConn{id: specs[id].connID(), log: &connLog})
	}
	desc["order"] = order
	for i := 1; i < n; i++ {
		if ents[i-1].capWeight() < ents[i].capWeight() {
			out.Fail("the entries are not ordered by descending weight", "not-sorted", desc)
			break
		}
	}
	sel := int(cfg.VerifGroupSel(g))
	desc["selector"] = selName(sel)
	oc := &oracleCtx{sel: sel, ents: ents, group: true, desc: desc, class: class}
	so, sr, hs, moves := runHistory(g, func() int { return cfg.VerifGroupCursor(g) }, ops, oc)
	desc["history"] = hs
	sl := make([]int64, n)
	for i, s := range sels {
		sl[i] = int64(s)
	}
	out.Add(fmt.Sprintf("CGroup %s %s %s %s %s %s", vh.ZList64(sl), vh.List(se), vh.ZList64(order), vh.Z(int64(sel)), so, sr),
		class, len(ops) >= 2 && moves >= 1, desc)
	if !alsoRaw {
		return
	}
	// the same sorted entries under an arbitrary selector byte and a shorter entry list
	for _, k := range []int{0, 1, 2, n} {
		if k > n {
			continue
		}
		rs := []int{selNone, selLV, selRR, selRand, selSemiRR, selSemiRn, selSemiLV, 0xA8, 0xA9, 0xFF, rng.Intn(256)}[rng.Intn(11)]
		sub := cfg.VerifSubGroup(g, k, uint8(rs))
		d2 := map[string]interface{}{"groups": sj, "order": order, "selector_byte": rs, "entries_used": k, "assembled_by": "shim VerifSubGroup"}
		oc2 := &oracleCtx{sel: rs, ents: ents[:k], group: true, desc: d2, class: "raw"}
		ops2 := genOps(4+rng.Intn(20), 2)
		so2, sr2, hs2, _ := runHistory(sub, func() int { return cfg.VerifGroupCursor(sub) }, ops2, oc2)
		d2["history"] = hs2
		var se2 []string
		for _, s := range ents[:k] {
			se2 = append(se2, s.coq())
		}
		out.Add(fmt.Sprintf("CRaw %s %s %s %s", vh.Z(int64(rs)), vh.List(se2), so2, sr2), fmt.Sprintf("raw-n%d-%s", k, selName(rs)), k >= 1, d2)
	}
}

// ---------------------------------------------------------------- the consumer: the REAL Session.listen
//
// A real Server with one Listener per (wrapper, transform) kind; a client Session whose Profile is a
// multi-group Profile built by the real Build (groups WITH and WITHOUT hosts), seen through a
// forwarding spy that marks which FastRandN calls belong to Switch and which to Next.  Every
// entry's connector is replaced by one that records its group and dials the Listener of ITS OWN
// group's kind, so an exchange succeeds exactly when the Session wraps it with the wrapper and
// transform of the group whose connector it went through.  Connect failures, the Close() and a
// Profile swap are scripted by Connect index.

type lrun struct {
	segs     []*lseg
	fails    map[int]bool
	xfails   map[int]bool // Connect succeeds, the peer hangs up: the exchange fails
	xfailNow bool
	cfailed  bool         // the attempt in progress failed at Connect
	xfailed  bool         // ... or in the exchange (an Error line of the Session's log)
	outs     [][2]bool    // per attempt: (Connect failed, exchange failed)
	closeAt  int
	swapAt   int // Connect index at which segment 1 is stored in s.swap (-1: never)
	sess     *c2.Session
	ready    chan struct{}
	events   [][4]int64
	flagBad    []string
	flagMissed bool
	lastConn int64
	lastHost int64   // the last non-empty host any Next() handed out
	handed   []int64 // lastHost at each Connect
	failNow  bool
	over     bool
}
type lseg struct {
	specs   []*spec
	ents    []*spec // order of g.entries
	order   []int64
	sel     int
	g       *cfg.Group
	entered bool
	enter   []int64
	passes  []lpass
	lastW   cfg.Wrapper
	lastT   cfg.Transform
}
type lpass struct {
	e        bool
	ds1, ds2 []int64
}

var (
	lsrv      *c2.Server
	lkinds    = map[[2]int64]string{}
	lcur      *lrun
	errScript = errors.New("scripted connect failure")
)

func drawsOf(cs [][2]int64) []int64 {
	ds := make([]int64, len(cs))
	for i, c := range cs {
		ds[i] = c[1]
	}
	return ds
}

type spy struct {
	cfg.Profile
	r   *lrun
	seg *lseg
}

// xlog is the client Session's log: every `return false` of Session.session writes an Error line.
type xlog struct {
	logx.Log
	r *lrun
}

func (l xlog) Error(m string, _ ...interface{}) {
	if strings.Contains(m, "Error attempting to write Packet") || strings.Contains(m, "Error attempting to read Packet") ||
		strings.Contains(m, "Error processing packet data") || strings.Contains(m, "sync failed") {
		l.r.xfailed = true
	}
}

func (p spy) Switch(e bool) bool {
	r := p.r
	// the attempt before this pass is over: its outcome, and the flag listen derives from it
	r.outs = append(r.outs, [2]bool{r.cfailed, r.xfailed})
	if want := r.cfailed || r.xfailed; want != e {
		r.flagBad = append(r.flagBad, fmt.Sprintf("pass %d: attempt %d %s, Switch was called with e=%v", len(r.outs), len(r.outs)-1,
			map[bool]string{true: "FAILED (connect failed=" + fmt.Sprint(r.cfailed) + ", exchange failed=" + fmt.Sprint(r.xfailed) + ")", false: "succeeded"}[want], e))
		if want {
			r.flagMissed = true
		}
	}
	r.cfailed, r.xfailed = false, false
	dbg("  switch(%v) %s", e, time.Now().Format("05.000"))
	calls = nil
	v := p.Profile.Switch(e)
	p.seg.passes = append(p.seg.passes, lpass{e: e, ds1: drawsOf(calls)})
	return v
}
func (p spy) Next() (string, cfg.Wrapper, cfg.Transform) {
	calls = nil
	h, w, t := p.Profile.Next()
	if !p.seg.entered {
		p.seg.entered, p.seg.enter = true, drawsOf(calls)
	} else if n := len(p.seg.passes); n > 0 {
		p.seg.passes[n-1].ds2 = drawsOf(calls)
	}
	p.seg.lastW, p.seg.lastT = w, t
	if h != "" {
		p.r.lastHost = hostID(h)
	}
	return h, w, t
}
func (p spy) Connect(x context.Context, a string) (net.Conn, error) {
	r := p.r
	idx := len(r.events)
	w, t := p.seg.lastW, p.seg.lastT
	if idx > 0 {
		<-r.ready
		w, t = c2.VerifC17Held(r.sess)
	}
	r.failNow, r.xfailNow, r.lastConn = r.fails[idx], r.xfails[idx] && idx > 0, -1
	if idx > r.closeAt+3 {
		r.over, r.failNow = true, true
	}
	c, err := p.Profile.Connect(x, a)
	r.cfailed = err != nil
	dbg("  connect %d err=%v %s", idx, err, time.Now().Format("05.000"))
	r.events = append(r.events, [4]int64{r.lastConn, hostID(a), wrapObs(w), transObs(t)})
	r.handed = append(r.handed, r.lastHost)
	if idx > 0 {
		if idx == r.swapAt && len(r.segs) > 1 {
			c2.VerifC17SetSwap(r.sess, spy{Profile: r.segs[1].g, r: r, seg: r.segs[1]})
		}
		if idx >= r.closeAt {
			c2.VerifC17CloseNoWait(r.sess)
		}
	}
	return c, err
}

// dialConn replaces an entry's connector: it says which group it belongs to and dials the
// Listener of that group's (wrapper, transform) kind, whatever host it is handed.
type dialConn struct {
	id   int64
	addr string
}

func (d dialConn) Connect(x context.Context, _ string) (net.Conn, error) {
	lcur.lastConn = d.id
	if lcur.failNow {
		return nil, errScript
	}
	if lcur.xfailNow {
		return com.TCP.Connect(x, hangAddr) // accepts, then hangs up: the exchange fails
	}
	return com.TCP.Connect(x, d.addr)
}

// hangAddr: a peer that accepts every connection and hangs up at once.
var hangAddr string

func startHangup() {
	l, err := net.Listen("tcp", "127.0.0.1:0")
	if err != nil {
		panic("harness: hang-up listener: " + err.Error())
	}
	hangAddr = l.Addr().String()
	go func() {
		for {
			c, err := l.Accept()
			if err != nil {
				return
			}
			c.Close()
		}
	}()
}

func listenerFor(sp *spec) string {
	k := [2]int64{sp.wrapID(), sp.transID()}
	if a, ok := lkinds[k]; ok {
		return a
	}
	// the wrapper / transform objects of this kind, from a single-group Config built for real
	one := *sp
	one.hosts, one.sel = []string{"g0h0.example"}, selNone
	var c cfg.Config
	c.AddGroup(one.settings()...)
	p, err := c.Build()
	if err != nil {
		panic("harness: listener profile: " + err.Error())
	}
	_, w, t := p.Next()
	if wrapObs(w) != k[0] || transObs(t) != k[1] {
		panic("harness: listener profile has another wrapper/transform than asked for")
	}
	l, err := lsrv.Listen(fmt.Sprintf("c17-%d", len(lkinds)), "127.0.0.1:0", cfg.Static{L: com.TCP, W: w, T: t})
	if err != nil {
		panic("harness: listen: " + err.Error())
	}
	lkinds[k] = l.Address()
	// Server.ListenContext reads s.active without a lock while the server loop stores the
	// previous Listener in it: two Listen calls in quick succession are a data race (Go aborts
	// with "concurrent map read and map write").  Give the loop time to store this one.
	time.Sleep(10 * time.Millisecond)
	return lkinds[k]
}

func buildSeg(specs []*spec, class string, desc map[string]interface{}) *lseg {
	var c cfg.Config
	for _, s := range specs {
		c.AddGroup(s.settings()...)
	}
	p, err := c.Build()
	if err != nil {
		desc["error"] = fmt.Sprint(err)
		out.Fail("a valid multi-group Config (with a host-less group) did not build", "build-failed-hostless", desc)
		return nil
	}
	g, ok := p.(*cfg.Group)
	if !ok || cfg.VerifGroupLen(g) != len(specs) {
		out.Fail("a multi-group Config did not build to a *Group with one entry per group", "multi-not-group", desc)
		return nil
	}
	sg := &lseg{specs: specs, g: g, sel: int(cfg.VerifGroupSel(g))}
	for i := 0; i < len(specs); i++ {
		_, w := cfg.VerifGroupHost0(g, i)
		var found *spec
		for k, s := range specs {
			if s.capWeight() == int64(w) {
				found = s
				sg.order = append(sg.order, int64(k))
			}
		}
		if found == nil || len(sg.order) != i+1 {
			// the scenarios use pairwise different weights: this is a Build that did not keep them
			desc["position"], desc["stored_weight"] = i, w
			out.Fail("the entries of the built Group do not carry the weights of the configured groups", "weight-mismatch", desc)
			return nil
		}
		sg.ents = append(sg.ents, found)
		cfg.VerifGroupSetConn(g, i, dialConn{id: found.connID(), addr: listenerFor(found)})
	}
	return sg
}

func (sg *lseg) coq() string {
	var se, ps []string
	for _, s := range sg.specs {
		se = append(se, s.coq())
	}
	for _, p := range sg.passes {
		ps = append(ps, fmt.Sprintf("(mkPass %s %s %s)", vh.B(p.e), vh.ZList64(p.ds1), vh.ZList64(p.ds2)))
	}
	return fmt.Sprintf("(%s,%s,%s,%s,%s)", vh.List(se), vh.ZList64(sg.order), vh.Z(int64(sg.sel)), vh.ZList64(sg.enter), vh.List(ps))
}

func specByConn(r *lrun, id int64) *spec {
	for _, sg := range r.segs {
		for _, s := range sg.specs {
			if s.connID() == id {
				return s
			}
		}
	}
	return nil
}

// lspec makes a group for the consumer scenarios: 1 ms sleep, no jitter / kill date / work hours.
func lspec(id, weight, sel, nhosts, wrap, trans int) *spec {
	if v := os.Getenv("C17_PLAIN"); v != "" {
		// timing experiments: "t" keeps the transform, "wN" forces wrapper kind N
		if v == "t" {
			wrap = 0
		} else if v[0] == 'w' {
			wrap, trans = int(v[1]-'0'), 0
		} else {
			wrap, trans = 0, 0
		}
	}
	s := &spec{id: id, weight: weight, sel: sel, wrap: wrap, trans: trans, sleep: time.Millisecond}
	for j := 0; j < nhosts; j++ {
		s.hosts = append(s.hosts, fmt.Sprintf("g%dh%d.example", id, j))
	}
	return s
}

type lscen struct {
	r     *lrun
	desc  map[string]interface{}
	class string
}

var lscens []*lscen

// runListen only PREPARES the scenario (builds the profiles and makes sure the Listeners exist);
// the sessions run afterwards, from runPrepared: Server.Listen is not safe to call while the
// server is handling connections (unlocked map access in ListenContext).
func runListen(segSpecs [][]*spec, fails map[int]bool, closeAt, swapAt int, class string) {
	runListenX(segSpecs, fails, nil, closeAt, swapAt, class)
}

func runListenX(segSpecs [][]*spec, fails, xfails map[int]bool, closeAt, swapAt int, class string) {
	var sj []interface{}
	for _, ss := range segSpecs {
		var one []interface{}
		for _, s := range ss {
			one = append(one, s.json())
		}
		sj = append(sj, one)
	}
	var fl []int
	for i := 0; i <= closeAt+1; i++ {
		if fails[i] {
			fl = append(fl, i)
		}
	}
	var xl []int
	for i := 0; i <= closeAt+1; i++ {
		if xfails[i] {
			xl = append(xl, i)
		}
	}
	desc := map[string]interface{}{"profiles": sj, "failing_connects": fl, "failing_exchanges_after_successful_connect": xl, "close_at_connect": closeAt, "swap_at_connect": swapAt}
	r := &lrun{fails: fails, xfails: xfails, closeAt: closeAt, swapAt: swapAt, ready: make(chan struct{})}
	for _, ss := range segSpecs {
		sg := buildSeg(ss, class, desc)
		if sg == nil {
			return
		}
		r.segs = append(r.segs, sg)
	}
	lscens = append(lscens, &lscen{r: r, desc: desc, class: class})
}

func runPrepared(sc *lscen) {
	r, desc, class := sc.r, sc.desc, sc.class
	cfg.VerifSetRandN(hook)
	defer cfg.VerifSetRandN(nil)
	lcur = r
	old := local.UUID
	b := rng.Bytes(len(local.UUID))
	b[0] |= 1
	copy(local.UUID[:], b)
	ctx, cancel := context.WithCancel(context.Background())
	var clog logx.Log = xlog{Log: logx.NOP, r: r}
	if os.Getenv("C17_DEBUG") == "2" {
		clog = xlog{Log: logx.Writer(os.Stderr, logx.Trace), r: r}
	}
	s, err := c2.ConnectContext(ctx, clog, spy{Profile: r.segs[0].g, r: r, seg: r.segs[0]})
	local.UUID = old
	if err == nil {
		r.sess = s
		close(r.ready)
		select {
		case <-s.Done():
		case <-time.After(60 * time.Second):
			cancel()
			desc["connects"] = len(r.events)
			out.Fail("the client did not stop within 60 s", "consumer-scenario-timeout", desc)
			select {
			case <-s.Done():
			case <-time.After(5 * time.Second): // a listen loop that is stuck for good is left behind
			}
		}
	} else {
		desc["connect_error"] = err.Error()
	}
	cancel()
	if r.over {
		out.Fail("the client kept connecting after Close()", "consumer-scenario-overrun", desc)
	}
	// oracle: the flag handed to Switch is "the previous attempt failed, at Connect or in the exchange"
	if len(r.flagBad) > 0 {
		d2 := map[string]interface{}{}
		for k, v := range desc {
			d2[k] = v
		}
		d2["flag_mismatches"] = r.flagBad
		if r.flagMissed {
			out.Fail("an attempt failed but the next pass called Switch(false): the failure was not reported to the profile", "consumer-failure-not-reported-to-switch", d2)
		} else {
			out.Fail("Switch(true) was called although the previous attempt succeeded", "consumer-failure-reported-without-one", d2)
		}
	}
	// oracle: every Connect goes through the active group's connector holding THAT group's wrapper
	// and transform, to one of its hosts -- or, when it names none, to the last host any group handed out
	var hist, evs []string
	moved := 0
	for i, e := range r.events {
		hist = append(hist, fmt.Sprintf("#%d connector=%d host=%d wrapper=%d transform=%d", i, e[0], e[1], e[2], e[3]))
		evs = append(evs, vh.ZList64(e[:]))
		if i > 0 && e[0] != r.events[i-1][0] {
			moved++
		}
	}
	desc["connects"] = hist
	for i, e := range r.events {
		sp := specByConn(r, e[0])
		if sp == nil {
			continue
		}
		d2 := map[string]interface{}{}
		for k, v := range desc {
			d2[k] = v
		}
		d2["failing_connect"] = i
		d2["active_group"] = sp.json()
		if e[2] != sp.wrapID() || e[3] != sp.transID() {
			k := "consumer-holds-foreign-wrapper-transform"
			if len(sp.hosts) == 0 {
				k += "-hostless-group"
			}
			out.Fail(fmt.Sprintf("Connect #%d goes through group %d's connector while the session holds wrapper %d / transform %d (the group's own: %d / %d)",
				i, sp.id, e[2], e[3], sp.wrapID(), sp.transID()), k, d2)
		}
		if len(sp.hosts) > 0 && !inHosts(sp, e[1]) {
			out.Fail(fmt.Sprintf("Connect #%d goes through group %d's connector to a host that is not one of the group's", i, sp.id), "consumer-host-not-the-active-groups", d2)
		}
		if len(sp.hosts) == 0 && e[1] != r.handed[i] {
			out.Fail(fmt.Sprintf("Connect #%d: a host-less group changed the host the session talks to", i), "consumer-hostless-group-changed-host", d2)
		}
	}
	var ss []string
	for _, sg := range r.segs {
		if sg.entered {
			ss = append(ss, sg.coq())
		}
	}
	var os2 []string
	for _, o := range r.outs {
		os2 = append(os2, fmt.Sprintf("(%s,%s)", vh.B(o[0]), vh.B(o[1])))
	}
	out.Add(fmt.Sprintf("CListen %s %s %s", vh.List(ss), vh.List(evs), vh.List(os2)), class, len(r.events) >= 3 && moved >= 1, desc)
}

func runConsumer(thorough bool) {
	lsrv = c2.NewServer(logx.NOP)
	lsrv.Keys.Fill()
	startHangup()
	// the Server is left running until the process exits: Server.Close with several Listeners
	// deadlocks (each Listener.listen blocks sending its name to the server loop, which is itself
	// blocked in shutdown() waiting for Listener.Close)
	bias0 = 25
	A := func(id, w, sel int) *spec { return lspec(id, w, sel, 1, 1, 0) }  // host, hex
	Bn := func(id, w, sel int) *spec { return lspec(id, w, sel, 0, 4, 1) } // NO host, base64 + b64 transform
	C := func(id, w, sel int) *spec { return lspec(id, w, sel, 2, 2, 2) }  // two hosts, zlib + shift transform
	none := map[int]bool{}
	// corpus: the seeded-change scenario first (round-robin over A and host-less B)
	runListen([][]*spec{{A(0, 20, selRR), Bn(1, 10, 0)}}, none, 6, -1, "listen/corpus")
	runListen([][]*spec{{A(0, 20, selLV), Bn(1, 10, 0)}}, map[int]bool{2: true, 5: true}, 8, -1, "listen/corpus")
	runListen([][]*spec{{A(0, 30, 0), Bn(1, 20, selLV), C(2, 10, 0)}}, map[int]bool{1: true, 2: true, 4: true}, 8, -1, "listen/corpus")
	runListen([][]*spec{{A(0, 30, 0), Bn(1, 20, selRR), C(2, 10, 0)}}, none, 8, -1, "listen/corpus")
	runListen([][]*spec{{A(0, 30, 0), Bn(1, 20, selRR), C(2, 10, 0)}}, map[int]bool{3: true}, 8, -1, "listen/corpus")
	runListen([][]*spec{{C(0, 30, selRand), Bn(1, 20, 0), A(2, 10, 0)}}, map[int]bool{2: true}, 9, -1, "listen/corpus")
	// exchange failures after a successful Connect (the peer hangs up): last-valid must leave the group
	runListenX([][]*spec{{A(0, 20, selLV), C(1, 10, 0)}}, none, map[int]bool{1: true, 3: true}, 6, -1, "listen/corpus-exchange-failure")
	runListenX([][]*spec{{A(0, 30, 0), Bn(1, 20, selSemiLV), C(2, 10, 0)}}, map[int]bool{4: true}, map[int]bool{2: true}, 7, -1, "listen/corpus-exchange-failure")
	runListenX([][]*spec{{A(0, 20, selRR), Bn(1, 10, 0)}}, none, map[int]bool{2: true}, 6, -1, "listen/corpus-exchange-failure")
	// a Profile swap to a profile whose heaviest group has no host
	runListen([][]*spec{{A(0, 20, selRR), C(1, 10, 0)}, {Bn(3, 40, selLV), A(4, 30, 0)}}, map[int]bool{5: true}, 9, 3, "listen/corpus-swap")
	runListen([][]*spec{{A(0, 20, selLV), Bn(1, 10, 0)}, {C(3, 40, selRR), Bn(4, 30, 0)}}, map[int]bool{1: true}, 8, 2, "listen/corpus-swap")
	// grid / random
	n := 24
	if thorough {
		n = 600
	}
	sels := []int{selRR, selLV, selRR, selLV, selRand, selSemiRR, selSemiRn, selSemiLV, selNone}
	for i := 0; i < n; i++ {
		mk := func(base int) []*spec {
			k := 2 + rng.Intn(3)
			ss := make([]*spec, k)
			hostless := rng.Intn(k)
			for j := range ss {
				nh := 1 + rng.Intn(2)
				if j == hostless || rng.Intn(4) == 0 {
					nh = 0
				}
				ss[j] = lspec(base+j, 10*(k-j)+rng.Intn(9), 0, nh, []int{0, 1, 2, 3, 4, 5, 6, 7, 8}[rng.Intn(9)], rng.Intn(3))
			}
			ss[rng.Intn(k)].sel = sels[i%len(sels)]
			return ss
		}
		first := mk(0)
		// the entry Build puts first is the heaviest: it must name a host (ErrNoHost otherwise)
		if len(first[0].hosts) == 0 {
			first[0].hosts = []string{"g0h0.example"}
		}
		segs := [][]*spec{first}
		swapAt := -1
		closeAt := 5 + rng.Intn(6)
		if rng.Intn(4) == 0 {
			segs = append(segs, mk(6))
			swapAt = 1 + rng.Intn(closeAt-2)
		}
		fails := map[int]bool{}
		for k := 1; k <= closeAt+1; k++ {
			if rng.Intn(4) == 0 {
				fails[k] = true
			}
		}
		xfails := map[int]bool{}
		for k := 1; k <= closeAt+1; k++ {
			if !fails[k] && rng.Intn(6) == 0 {
				xfails[k] = true
			}
		}
		cl := "listen/" + selName(sels[i%len(sels)])
		if swapAt >= 0 {
			cl += "+swap"
		}
		runListenX(segs, fails, xfails, closeAt, swapAt, cl)
	}
	time.Sleep(50 * time.Millisecond)
	dbg("prepared %d consumer scenarios, %d listeners, %s", len(lscens), len(lkinds), time.Now().Format("15:04:05.000"))
	for _, sc := range lscens {
		t0 := time.Now()
		runPrepared(sc)
		dbg("consumer scenario %s fails=%v connects=%d took %s", sc.class, sc.desc["failing_connects"], len(sc.r.events), time.Since(t0))
	}
}

func dbg(f string, a ...interface{}) {
	if os.Getenv("C17_DEBUG") != "" {
		fmt.Fprintf(os.Stderr, f+"\n", a...)
	}
}

func selsFor(n int, sel int, where int) []int {
	s := make([]int, n)
	switch where {
	case 0: // first group
		s[0] = sel
	case 1: // last group
		s[n-1] = sel
	case 2: // every group names one; the last wins
		all := []int{selLV, selRR, selRand, selSemiRR, selSemiRn, selSemiLV}
		for i := range s {
			s[i] = all[rng.Intn(len(all))]
		}
		s[n-1] = sel
	default: // somewhere in the middle, an earlier one is overridden
		s[0] = selRand
		s[n/2] = sel
	}
	return s
}

func main() {
	fl := vh.ParseFlags()
	out = vh.NewOut("C17", fl, "From XMT Require Import Base.Prelude Model.Group.", "case", "check",
		"Configs with 1..6 groups (weights distinct / tied / unset / above the cap, selector byte in any group) built by the real Build; "+
			"histories of 1..40 Switch(e)/Next/Sleep/Jitter/KillDate/WorkHours/TrustedKey/Connect calls with scripted FastRandN draws; "+
			"distinct = distinct Coq case term; non-trivial = two or more calls and the cursor moved at least once (raw: at least one entry)")
	out.ShardSize = 60
	rng = vh.NewRand(fl.Seed)
	thorough := fl.Tier == "thorough"
	for i := 0; i < 6; i++ {
		keyPool = append(keyPool, mkKey(byte(17*i+3)))
	}
	allSel := []int{selNone, selLV, selRR, selRand, selSemiRR, selSemiRn, selSemiLV}

	// the consumer first (real sessions), then the profile-level histories
	dbg("start %s", time.Now().Format("15:04:05.000"))
	runConsumer(thorough)
	dbg("consumer done %s", time.Now().Format("15:04:05.000"))

	// corpus
	bias0 = 25
	doConfig([]int{10, 20, 30}, []int{selRR, 0, 0}, false, 7, 0, "corpus", false)
	doConfig([]int{10, 20, 30}, []int{0, selLV, 0}, false, 12, 0, "corpus", false)
	doConfig([]int{5, 5, 5, 5, 5}, []int{0, 0, 0, 0, selSemiRR}, true, 30, 1, "corpus", true)
	doConfig([]int{0, 0}, []int{0, 0}, false, 5, 0, "corpus", false)
	doConfig([]int{42}, []int{selRR}, true, 10, 2, "corpus", false)
	doConfig([]int{1, 2, 3, 4, 5, 6}, []int{selRand, 0, 0, 0, 0, selSemiLV}, true, 40, 2, "corpus", true)

	// grid: selector x group count x weight pattern x history style
	for _, sel := range allSel {
		for n := 1; n <= 6; n++ {
			for pat := 0; pat < 4; pat++ {
				bias0 = []int{0, 25, 50, 90}[rng.Intn(4)]
				doConfig(weightsFor(n, pat), selsFor(n, sel, rng.Intn(4)), pat%2 == 1, 1+rng.Intn(40), (n+pat)%3,
					fmt.Sprintf("grid-n%d-%s", n, selName(sel)), n == 3)
			}
		}
	}
	// empty groups (a Separator with nothing before it) at the start / in the middle / at the end /
	// doubled: they are skipped, the entries are exactly the non-empty groups
	for _, sel := range allSel {
		for n := 1; n <= 4; n++ {
			for _, em := range [][]int{{0}, {1}, {n}, {1, 1}, {0, 1, n}, {n / 2, n}} {
				if n == 1 && em[0] == 1 && len(em) < 3 {
					em = []int{n}
				}
				bias0 = 25
				emptiesNext = em
				doConfig(weightsFor(n, 0), selsFor(n, sel, rng.Intn(4)), false, 4+rng.Intn(12), (n+len(em))%3, "empty-groups", false)
			}
		}
	}
	// random
	nr := 700
	if thorough {
		nr = 30000
	}
	for i := 0; i < nr; i++ {
		n := 1 + rng.Intn(6)
		if rng.Intn(8) > 0 && n == 1 {
			n = 2 + rng.Intn(5)
		}
		sel := allSel[rng.Intn(len(allSel))]
		bias0 = []int{0, 25, 25, 50, 90}[rng.Intn(5)]
		doConfig(weightsFor(n, 4+rng.Intn(2)*(-3)), selsFor(n, sel, rng.Intn(4)), rng.Intn(3) > 0, 1+rng.Intn(40), rng.Intn(3),
			fmt.Sprintf("random-n%d-%s", n, selName(sel)), rng.Intn(10) == 0)
	}
	dbg("histories done %s", time.Now().Format("15:04:05.000"))
	out.Finish()
}
