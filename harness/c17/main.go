// C17 harness: multi-group profiles.  Configs with 1..6 groups (weights with ties, distinct
// hosts / wrapper / transform / sleep / jitter / kill date / work hours / key pins / connector
// per group, so that the entry behind every answer is observable) are built by the REAL
// cfg.Config.Build; histories of Switch(e) and accessor calls run on the real Group with
// util.FastRandN redirected to a scripted, recorded source (derived overlay copy of group.go).
// Every history is emitted as a Coq case for Model/Group.v and checked here by a Go-side oracle
// that states the property directly (membership, weight order, own entry's values, selector
// contracts).
package main

import (
	"context"
	"errors"
	"fmt"
	"net"
	"strings"
	"time"

	"github.com/iDigitalFlame/xmt/c2/cfg"
	"github.com/iDigitalFlame/xmt/c2/transform"
	"github.com/iDigitalFlame/xmt/c2/wrapper"
	"github.com/iDigitalFlame/xmt/data"

	"verifharness/vh"
)

var (
	out *vh.Out
	rng *vh.Rand
)

const (
	selNone   = 0
	selLV     = 0xAA
	selRR     = 0xAB
	selRand   = 0xAC
	selSemiRR = 0xAD
	selSemiRn = 0xAE
	selSemiLV = 0xA7
)

var selNames = map[int]string{selNone: "none", selLV: "lastvalid", selRR: "roundrobin", selRand: "random",
	selSemiRR: "semiroundrobin", selSemiRn: "semirandom", selSemiLV: "semilastvalid"}

func selName(s int) string {
	if n, ok := selNames[s]; ok {
		return n
	}
	return fmt.Sprintf("byte%d", s)
}
func selSetting(s int) cfg.Setting {
	switch s {
	case selLV:
		return cfg.SelectorLastValid
	case selRR:
		return cfg.SelectorRoundRobin
	case selRand:
		return cfg.SelectorRandom
	case selSemiRR:
		return cfg.SelectorSemiRoundRobin
	case selSemiRn:
		return cfg.SelectorSemiRandom
	case selSemiLV:
		return cfg.SelectorSemiLastValid
	}
	return nil
}

// ---------------------------------------------------------------- group specification

type spec struct {
	id     int
	weight int // as configured (0 = not set, > 100 is capped by Build)
	hosts  []string
	wrap   int // 0 none 1 hex 2 zlib 3 gzip 4 base64 5 cbk(10+id)
	trans  int // 0 none, 1 base64, 2 shift(20+id)
	sleep  time.Duration
	jitter int
	kill   int64 // 0 not set, -1 "cleared" (zero time, set), else unix seconds
	work   *cfg.WorkHours
	pins   []data.PublicKey
	sel    int
}

func (s *spec) capWeight() int64 {
	if s.weight > 100 {
		return 100
	}
	return int64(s.weight)
}
func hostID(h string) int64 {
	var g, j int
	if _, err := fmt.Sscanf(h, "g%dh%d.example", &g, &j); err != nil {
		return -7
	}
	return int64(g*100 + j)
}
func (s *spec) wrapID() int64 {
	switch s.wrap {
	case 5:
		return 1000 + int64(10+s.id)
	case 6: // stack [Hex, Base64]
		return stackID([]int64{1, 4})
	case 7: // stack [CBK(10+id), Zlib, Base64]: the stack of THIS group (own key byte)
		return stackID([]int64{1000 + int64(10+s.id), 2, 4})
	case 8: // stack [Base64, CBK(10+id)]
		return stackID([]int64{4, 1000 + int64(10+s.id)})
	}
	return int64(s.wrap)
}

// stackID identifies a MultiWrapper by its elements in order (injective for the ids used here).
func stackID(ids []int64) int64 {
	v := int64(7)
	for _, x := range ids {
		v = v*4099 + x
	}
	return 1000000 + v
}
func (s *spec) transID() int64 {
	switch s.trans {
	case 1:
		return 1
	case 2:
		return 100 + int64(20+s.id)
	}
	return 0
}
func (s *spec) killPair() (int64, bool) {
	switch {
	case s.kill == 0:
		return time.Time{}.Unix(), false
	case s.kill == -1:
		return time.Time{}.Unix(), true
	}
	return s.kill, true
}
func workCode(w *cfg.WorkHours) int64 {
	if w == nil {
		return -1
	}
	return int64(w.Days)<<32 | int64(w.StartHour)<<24 | int64(w.StartMin)<<16 | int64(w.EndHour)<<8 | int64(w.EndMin)
}
func (s *spec) connID() int64 { return 500 + int64(s.id) }

func (s *spec) settings() []cfg.Setting {
	var v []cfg.Setting
	for _, h := range s.hosts {
		v = append(v, cfg.Host(h))
	}
	v = append(v, cfg.Weight(uint(s.weight)), cfg.Sleep(s.sleep), cfg.Jitter(uint(s.jitter)))
	switch s.wrap {
	case 1:
		v = append(v, cfg.WrapHex)
	case 2:
		v = append(v, cfg.WrapZlib)
	case 3:
		v = append(v, cfg.WrapGzip)
	case 4:
		v = append(v, cfg.WrapBase64)
	case 5:
		v = append(v, cfg.WrapCBK(byte(10+s.id), 2, 3, 4))
	case 6:
		v = append(v, cfg.WrapHex, cfg.WrapBase64)
	case 7:
		v = append(v, cfg.WrapCBK(byte(10+s.id), 2, 3, 4), cfg.WrapZlib, cfg.WrapBase64)
	case 8:
		v = append(v, cfg.WrapBase64, cfg.WrapCBK(byte(10+s.id), 2, 3, 4))
	}
	switch s.trans {
	case 1:
		v = append(v, cfg.TransformB64)
	case 2:
		v = append(v, cfg.TransformB64Shift(20+s.id))
	}
	switch {
	case s.kill == -1:
		v = append(v, cfg.KillDate(time.Time{}))
	case s.kill > 0:
		v = append(v, cfg.KillDate(time.Unix(s.kill, 0)))
	}
	if s.work != nil {
		v = append(v, *s.work)
	}
	for _, k := range s.pins {
		v = append(v, cfg.KeyPin(k))
	}
	if x := selSetting(s.sel); x != nil {
		// the selector may stand anywhere in the group
		p := rng.Intn(len(v) + 1)
		v = append(v[:p], append([]cfg.Setting{x}, v[p:]...)...)
	}
	return v
}

func (s *spec) coq() string {
	hs := make([]int64, len(s.hosts))
	for i, h := range s.hosts {
		hs[i] = hostID(h)
	}
	ks := make([]int64, len(s.pins))
	for i, k := range s.pins {
		ks[i] = int64(k.Hash())
	}
	ku, kb := s.killPair()
	return fmt.Sprintf("(mkE %s %s %s %s %s %s %s %s %s %s %s)", vh.Z(s.capWeight()), vh.ZList64(hs), vh.Z(s.wrapID()), vh.Z(s.transID()),
		vh.Z(int64(s.sleep)), vh.Z(int64(s.jitter)), vh.Z(ku), vh.B(kb), vh.Z(workCode(s.work)), vh.ZList64(ks), vh.Z(s.connID()))
}

func (s *spec) json() map[string]interface{} {
	ku, kb := s.killPair()
	return map[string]interface{}{"id": s.id, "weight": s.weight, "hosts": s.hosts, "wrap": s.wrapID(), "transform": s.transID(),
		"sleep_ns": int64(s.sleep), "jitter": s.jitter, "kill_unix": ku, "kill_set": kb, "work": workCode(s.work), "pins": len(s.pins), "selector": selName(s.sel)}
}

var keyPool []data.PublicKey

func mkKey(seed byte) data.PublicKey {
	var k data.PublicKey
	for i := range k {
		k[i] = seed + byte(i*7)
	}
	k[0] = 4
	return k
}

func genSpec(id int, weight int, sel int, rich bool) *spec {
	s := &spec{id: id, weight: weight, sel: sel}
	nh := 1
	if rich {
		nh = 1 + rng.Intn(3)
	}
	for j := 0; j < nh; j++ {
		s.hosts = append(s.hosts, fmt.Sprintf("g%dh%d.example", id, j))
	}
	s.sleep = time.Duration(1000+id) * time.Millisecond
	s.jitter = 10 + id
	if rich {
		s.wrap = rng.Intn(9)
		s.trans = rng.Intn(3)
		switch rng.Intn(4) {
		case 0:
			s.kill = 0
		case 1:
			s.kill = -1
		default:
			s.kill = 1900000000 + int64(id)*86400
		}
		if rng.Intn(3) > 0 {
			s.work = &cfg.WorkHours{Days: uint8(1 + id), StartHour: uint8(8 + id), StartMin: uint8(rng.Intn(60)), EndHour: uint8(17 + id%6), EndMin: uint8(rng.Intn(60))}
			if rng.Intn(6) == 0 {
				s.work = &cfg.WorkHours{}
			}
		}
		for j := rng.Intn(3); j > 0; j-- {
			s.pins = append(s.pins, keyPool[rng.Intn(len(keyPool))])
		}
		s.jitter = rng.Intn(101)
		s.sleep = time.Duration(1000+id)*time.Millisecond + time.Duration(rng.Intn(1000))*time.Microsecond
	}
	return s
}

// ---------------------------------------------------------------- observation helpers

var errRec = errors.New("recording connector")

type recConn struct {
	id  int64
	log *[]int64
}

func (r recConn) Connect(context.Context, string) (net.Conn, error) {
	*r.log = append(*r.log, r.id)
	return nil, errRec
}

func wrapObs(w cfg.Wrapper) int64 {
	switch v := w.(type) {
	case nil:
		return 0
	case wrapper.CBK:
		return 1000 + int64(v[0])
	case cfg.MultiWrapper:
		ids := make([]int64, len(v))
		for i := range v {
			ids[i] = wrapObs(v[i])
		}
		return stackID(ids)
	}
	switch {
	case w == cfg.Wrapper(wrapper.Hex):
		return 1
	case w == cfg.Wrapper(wrapper.Zlib):
		return 2
	case w == cfg.Wrapper(wrapper.Gzip):
		return 3
	case w == cfg.Wrapper(wrapper.Base64):
		return 4
	}
	return -9
}
func transObs(t cfg.Transform) int64 {
	switch v := t.(type) {
	case nil:
		return 0
	case transform.B64:
		if v == 0 {
			return 1
		}
		return 100 + int64(v)
	}
	return -9
}

const (
	kSwitch = iota
	kNext
	kSleep
	kJitter
	kKill
	kWork
	kTrusted
	kConnect
)

type opT struct {
	kind int
	e    bool
	key  data.PublicKey
}

func (o opT) coq() string {
	switch o.kind {
	case kSwitch:
		return "OSwitch " + vh.B(o.e)
	case kNext:
		return "ONext"
	case kSleep:
		return "OSleep"
	case kJitter:
		return "OJitter"
	case kKill:
		return "OKill"
	case kWork:
		return "OWork"
	case kTrusted:
		return fmt.Sprintf("OTrusted %s %s", vh.Z(int64(o.key.Hash())), vh.B(o.key.Empty()))
	}
	return "OConnect"
}
func (o opT) String() string {
	switch o.kind {
	case kSwitch:
		return fmt.Sprintf("Switch(%v)", o.e)
	case kTrusted:
		return fmt.Sprintf("TrustedKey(hash=%d,empty=%v)", o.key.Hash(), o.key.Empty())
	}
	return [...]string{"Switch", "Next", "Sleep", "Jitter", "KillDate", "WorkHours", "TrustedKey", "Connect"}[o.kind] + "()"
}

type obsT struct {
	vals  []int64
	cur   int64
	calls [][2]int64
	panic bool
}

func (o obsT) coq() string {
	cs := make([]string, len(o.calls))
	for i, c := range o.calls {
		cs[i] = fmt.Sprintf("(%d,%d)", c[0], c[1])
	}
	return fmt.Sprintf("(%s,%s,%s)", vh.ZList64(o.vals), vh.Z(o.cur), vh.List(cs))
}
func (o obsT) draws() []int64 {
	ds := make([]int64, len(o.calls))
	for i, c := range o.calls {
		ds[i] = c[1]
	}
	return ds
}

var (
	calls   [][2]int64
	bias0   int // percent of draws forced to 0 (the 25% gate fires on 0)
	connLog []int64
)

func hook(n int) uint32 {
	var v int
	switch {
	case n <= 0:
		v = 0
	case rng.Intn(100) < bias0:
		v = 0
	default:
		v = rng.Intn(n)
	}
	calls = append(calls, [2]int64{int64(n), int64(v)})
	return uint32(v)
}

// one call on the real profile
func doOp(p cfg.Profile, cursor func() int, o opT) (r obsT) {
	calls = nil
	defer func() {
		if x := recover(); x != nil {
			r = obsT{panic: true, cur: int64(cursor()), calls: calls, vals: []int64{-99}}
		}
	}()
	var vals []int64
	switch o.kind {
	case kSwitch:
		if p.Switch(o.e) {
			vals = []int64{1}
		} else {
			vals = []int64{0}
		}
	case kNext:
		h, w, t := p.Next()
		id := int64(-1)
		if h != "" {
			id = hostID(h)
		}
		vals = []int64{id, wrapObs(w), transObs(t)}
	case kSleep:
		vals = []int64{int64(p.Sleep())}
	case kJitter:
		vals = []int64{int64(p.Jitter())}
	case kKill:
		t, ok := p.KillDate()
		b := int64(0)
		if ok {
			b = 1
		}
		vals = []int64{t.Unix(), b}
	case kWork:
		vals = []int64{workCode(p.WorkHours())}
	case kTrusted:
		b := int64(0)
		if p.TrustedKey(o.key) {
			b = 1
		}
		vals = []int64{b}
	case kConnect:
		connLog = connLog[:0]
		_, err := p.Connect(context.Background(), "x")
		switch {
		case len(connLog) == 1 && err == errRec:
			vals = []int64{connLog[0]}
		case len(connLog) == 0 && err == cfg.ErrNotAConnector:
			vals = []int64{-1}
		default:
			vals = []int64{-8}
		}
	}
	return obsT{vals: vals, cur: int64(cursor()), calls: calls}
}

func genOps(n int, style int) []opT {
	var ops []opT
	switch style {
	case 0: // switches only
		for i := 0; i < n; i++ {
			ops = append(ops, opT{kind: kSwitch, e: rng.Intn(3) == 0})
		}
	case 1: // the pattern of Session.listen: Next first, then Switch(e) and Next when it says so
		ops = append(ops, opT{kind: kNext})
		for i := 1; i < n; i++ {
			ops = append(ops, opT{kind: kSwitch, e: rng.Intn(4) == 0}, opT{kind: kNext})
			i++
		}
	default: // mixed, accessors before the first Switch included
		for i := 0; i < n; i++ {
			switch r := rng.Intn(20); {
			case r < 11:
				ops = append(ops, opT{kind: kSwitch, e: rng.Intn(3) == 0})
			case r < 14:
				ops = append(ops, opT{kind: kNext})
			case r == 14:
				ops = append(ops, opT{kind: kSleep})
			case r == 15:
				ops = append(ops, opT{kind: kJitter})
			case r == 16:
				ops = append(ops, opT{kind: kKill})
			case r == 17:
				ops = append(ops, opT{kind: kWork})
			case r == 18:
				var k data.PublicKey
				if rng.Intn(5) > 0 {
					k = keyPool[rng.Intn(len(keyPool))]
				}
				ops = append(ops, opT{kind: kTrusted, key: k})
			default:
				ops = append(ops, opT{kind: kConnect})
			}
		}
	}
	return ops
}

// ---------------------------------------------------------------- the oracle (property stated on the implementation)

type oracleCtx struct {
	sel   int
	ents  []*spec // in the order of g.entries (position -> configured group)
	group bool    // a *Group (false: bare profile, cursor constantly 0)
	desc  map[string]interface{}
	class string
}

func (c *oracleCtx) fail(what, key string, step int, o opT, pre int64, r obsT) {
	d := map[string]interface{}{}
	for k, v := range c.desc {
		d[k] = v
	}
	d["failing_step"] = step
	d["failing_op"] = o.String()
	d["cursor_before"] = pre
	d["cursor_after"] = r.cur
	d["returned"] = r.vals
	out.Fail(what, key, d)
}

func inHosts(s *spec, id int64) bool {
	for _, h := range s.hosts {
		if hostID(h) == id {
			return true
		}
	}
	return false
}

func (c *oracleCtx) checkOp(step int, o opT, pre int64, r obsT) {
	n := int64(len(c.ents))
	sn := selName(c.sel)
	if r.panic {
		c.fail("a profile call panicked", "panic-"+o.String(), step, o, pre, r)
		return
	}
	// the active entry is always one of the configured groups
	if n == 0 {
		if r.cur != -1 {
			c.fail("cursor set on a group without entries", "cursor-not-member", step, o, pre, r)
		}
		return
	}
	if r.cur < 0 || r.cur >= n {
		c.fail("the active entry is not one of the group's entries", "cursor-not-member", step, o, pre, r)
		return
	}
	cur := c.ents[r.cur]
	if o.kind != kSwitch {
		// accessors never move a cursor that is set
		if pre >= 0 && r.cur != pre {
			c.fail("an accessor moved the cursor", "accessor-moved-cursor", step, o, pre, r)
		}
		ok := true
		switch o.kind {
		case kNext:
			ok = inHosts(cur, r.vals[0]) && r.vals[1] == cur.wrapID() && r.vals[2] == cur.transID()
		case kSleep:
			ok = r.vals[0] == int64(cur.sleep)
		case kJitter:
			ok = r.vals[0] == int64(cur.jitter)
		case kKill:
			ku, kb := cur.killPair()
			ok = r.vals[0] == ku && (r.vals[1] == 1) == kb
		case kWork:
			ok = r.vals[0] == workCode(cur.work)
		case kTrusted:
			want := !o.key.Empty() && len(cur.pins) == 0
			for _, k := range cur.pins {
				if !o.key.Empty() && k.Hash() == o.key.Hash() {
					want = true
				}
			}
			ok = (r.vals[0] == 1) == want
		case kConnect:
			ok = r.vals[0] == cur.connID()
		}
		if !ok {
			c.fail("an accessor answered with values that are not the active group's own", "accessor-foreign-entry-"+strings.TrimSuffix(o.String(), "()"), step, o, pre, r)
		}
		return
	}
	// Switch: the returned flag says whether the active entry changed
	if (r.vals[0] == 1) != (r.cur != pre) {
		c.fail("Switch's result does not say whether the active entry changed", "switch-return-"+sn, step, o, pre, r)
	}
	if !c.group {
		return
	}
	if pre < 0 {
		// first use: round-robin style selectors start with the heaviest entry
		if c.sel != selRand && c.sel != selSemiRn && r.cur != 0 {
			c.fail("the first selection is not the heaviest entry", "first-not-heaviest-"+sn, step, o, pre, r)
		}
		return
	}
	next := (pre + 1) % n
	switch c.sel {
	case selLV:
		if !o.e && r.cur != pre {
			c.fail("last-valid changed the entry without a reported failure", "lastvalid-moved-without-failure", step, o, pre, r)
		}
		if o.e && r.cur != next {
			c.fail("last-valid did not advance to the next entry after a failure", "lastvalid-failure-not-next", step, o, pre, r)
		}
	case selRR:
		if r.cur != next {
			c.fail("round-robin did not move to the next entry in order", "roundrobin-order", step, o, pre, r)
		}
	case selSemiRR:
		if r.cur != pre && r.cur != next {
			c.fail("semi-round-robin neither stayed nor moved to the next entry", "semi-contract-semiroundrobin", step, o, pre, r)
		}
	case selSemiLV:
		if r.cur != pre && r.cur != next {
			c.fail("semi-last-valid neither stayed nor moved to the next entry", "semi-contract-semilastvalid", step, o, pre, r)
		}
		if o.e && r.cur != next {
			c.fail("semi-last-valid did not advance after a failure", "semilastvalid-failure-not-next", step, o, pre, r)
		}
	}
	if n == 1 && r.cur != 0 {
		c.fail("a single entry switched", "single-entry-switched", step, o, pre, r)
	}
}

// runHistory runs ops on p, checks the oracle, and returns the Coq lists of ops and observations.
func runHistory(p cfg.Profile, cursor func() int, ops []opT, c *oracleCtx) (string, string, []string, int) {
	var (
		so, sr []string
		hs     []string
		moves  int
	)
	pre := int64(cursor())
	for i, o := range ops {
		r := doOp(p, cursor, o)
		c.checkOp(i, o, pre, r)
		if r.cur != pre {
			moves++
		}
		pre = r.cur
		so = append(so, fmt.Sprintf("(%s,%s)", o.coq(), vh.ZList64(r.draws())))
		sr = append(sr, r.coq())
		hs = append(hs, fmt.Sprintf("%s->%v@%d", o.String(), r.vals, r.cur))
	}
	return vh.List(so), vh.List(sr), hs, moves
}

// ---------------------------------------------------------------- cases

func weightsFor(n int, pattern int) []int {
	w := make([]int, n)
	for i := range w {
		switch pattern {
		case 0: // pairwise different, shuffled
			w[i] = 5 + 7*((i*3+1)%n) + i%2
		case 1: // ties
			w[i] = []int{10, 20, 10, 20, 30, 10}[i%6]
		case 2: // all unset
			w[i] = 0
		case 3: // the cap: 100, 101, 200, 255 all mean 100
			w[i] = []int{100, 101, 50, 255, 200, 99}[i%6]
		default:
			w[i] = rng.Intn(8) * rng.Intn(20)
			if rng.Intn(10) == 0 {
				w[i] = 100 + rng.Intn(156)
			}
		}
	}
	if pattern == 0 {
		seen := map[int]bool{}
		for i := range w {
			for seen[w[i]] {
				w[i]++
			}
			seen[w[i]] = true
		}
	}
	return w
}

func doConfig(weights []int, sels []int, rich bool, opsLen int, style int, class string, alsoRaw bool) {
	n := len(weights)
	specs := make([]*spec, n)
	var c cfg.Config
	for i := range specs {
		specs[i] = genSpec(i, weights[i], sels[i], rich)
		c.AddGroup(specs[i].settings()...)
	}
	var sj []interface{}
	for _, s := range specs {
		sj = append(sj, s.json())
	}
	desc := map[string]interface{}{"groups": sj, "config_bytes": len(c)}
	cfg.VerifSetRandN(hook)
	defer cfg.VerifSetRandN(nil)
	p, err := func() (p cfg.Profile, err error) {
		defer func() {
			if x := recover(); x != nil {
				err = fmt.Errorf("panic: %v", x)
			}
		}()
		return c.Build()
	}()
	if err != nil || p == nil {
		desc["error"] = fmt.Sprint(err)
		out.Fail("a valid multi-group Config did not build", "build-failed", desc)
		return
	}
	var se []string
	for _, s := range specs {
		se = append(se, s.coq())
	}
	ops := genOps(opsLen, style)
	if n == 1 {
		if !cfg.VerifProfileSetConn(p, recConn{id: specs[0].connID(), log: &connLog}) {
			out.Fail("a single-group Config did not build to a bare profile", "single-not-profile", desc)
			return
		}
		oc := &oracleCtx{sel: sels[0], ents: specs, group: false, desc: desc, class: class}
		so, sr, hs, _ := runHistory(p, func() int { return 0 }, ops, oc)
		desc["history"] = hs
		out.Add(fmt.Sprintf("CProfile %s %s %s", se[0], so, sr), class, len(ops) >= 2, desc)
		return
	}
	g, ok := p.(*cfg.Group)
	if !ok {
		out.Fail("a multi-group Config did not build to a *Group", "multi-not-group", desc)
		return
	}
	// observed order of g.entries
	if cfg.VerifGroupLen(g) != n {
		desc["entries"] = cfg.VerifGroupLen(g)
		out.Fail("the Group does not hold one entry per configured group", "entry-count", desc)
		return
	}
	order := make([]int64, n)
	ents := make([]*spec, n)
	seen := map[int]bool{}
	for i := 0; i < n; i++ {
		h, w := cfg.VerifGroupHost0(g, i)
		id := int(hostID(h) / 100)
		if hostID(h) < 0 || id >= n || seen[id] {
			desc["position"] = i
			desc["host"] = h
			out.Fail("the entries are not a permutation of the configured groups", "not-a-permutation", desc)
			return
		}
		seen[id] = true
		order[i], ents[i] = int64(id), specs[id]
		if int64(w) != specs[id].capWeight() {
			desc["position"] = i
			desc["stored_weight"] = w
			out.Fail("an entry does not carry its group's weight", "weight-mismatch", desc)
		}
		cfg.VerifGroupSetConn(g, i, recConn{id: specs[id].connID(), log: &connLog})
	}
	desc["order"] = order
	for i := 1; i < n; i++ {
		if ents[i-1].capWeight() < ents[i].capWeight() {
			out.Fail("the entries are not ordered by descending weight", "not-sorted", desc)
			break
		}
	}
	sel := int(cfg.VerifGroupSel(g))
	desc["selector"] = selName(sel)
	oc := &oracleCtx{sel: sel, ents: ents, group: true, desc: desc, class: class}
	so, sr, hs, moves := runHistory(g, func() int { return cfg.VerifGroupCursor(g) }, ops, oc)
	desc["history"] = hs
	sl := make([]int64, n)
	for i, s := range sels {
		sl[i] = int64(s)
	}
	out.Add(fmt.Sprintf("CGroup %s %s %s %s %s %s", vh.ZList64(sl), vh.List(se), vh.ZList64(order), vh.Z(int64(sel)), so, sr),
		class, len(ops) >= 2 && moves >= 1, desc)
	if !alsoRaw {
		return
	}
	// the same sorted entries under an arbitrary selector byte and a shorter entry list
	for _, k := range []int{0, 1, 2, n} {
		if k > n {
			continue
		}
		rs := []int{selNone, selLV, selRR, selRand, selSemiRR, selSemiRn, selSemiLV, 0xA8, 0xA9, 0xFF, rng.Intn(256)}[rng.Intn(11)]
		sub := cfg.VerifSubGroup(g, k, uint8(rs))
		d2 := map[string]interface{}{"groups": sj, "order": order, "selector_byte": rs, "entries_used": k, "assembled_by": "shim VerifSubGroup"}
		oc2 := &oracleCtx{sel: rs, ents: ents[:k], group: true, desc: d2, class: "raw"}
		ops2 := genOps(4+rng.Intn(20), 2)
		so2, sr2, hs2, _ := runHistory(sub, func() int { return cfg.VerifGroupCursor(sub) }, ops2, oc2)
		d2["history"] = hs2
		var se2 []string
		for _, s := range ents[:k] {
			se2 = append(se2, s.coq())
		}
		out.Add(fmt.Sprintf("CRaw %s %s %s %s", vh.Z(int64(rs)), vh.List(se2), so2, sr2), fmt.Sprintf("raw-n%d-%s", k, selName(rs)), k >= 1, d2)
	}
}

func selsFor(n int, sel int, where int) []int {
	s := make([]int, n)
	switch where {
	case 0: // first group
		s[0] = sel
	case 1: // last group
		s[n-1] = sel
	case 2: // every group names one; the last wins
		all := []int{selLV, selRR, selRand, selSemiRR, selSemiRn, selSemiLV}
		for i := range s {
			s[i] = all[rng.Intn(len(all))]
		}
		s[n-1] = sel
	default: // somewhere in the middle, an earlier one is overridden
		s[0] = selRand
		s[n/2] = sel
	}
	return s
}

func main() {
	fl := vh.ParseFlags()
	out = vh.NewOut("C17", fl, "From XMT Require Import Base.Prelude Model.Group.", "case", "check",
		"Configs with 1..6 groups (weights distinct / tied / unset / above the cap, selector byte in any group) built by the real Build; "+
			"histories of 1..40 Switch(e)/Next/Sleep/Jitter/KillDate/WorkHours/TrustedKey/Connect calls with scripted FastRandN draws; "+
			"distinct = distinct Coq case term; non-trivial = two or more calls and the cursor moved at least once (raw: at least one entry)")
	out.ShardSize = 60
	rng = vh.NewRand(fl.Seed)
	thorough := fl.Tier == "thorough"
	for i := 0; i < 6; i++ {
		keyPool = append(keyPool, mkKey(byte(17*i+3)))
	}
	allSel := []int{selNone, selLV, selRR, selRand, selSemiRR, selSemiRn, selSemiLV}

	// corpus
	bias0 = 25
	doConfig([]int{10, 20, 30}, []int{selRR, 0, 0}, false, 7, 0, "corpus", false)
	doConfig([]int{10, 20, 30}, []int{0, selLV, 0}, false, 12, 0, "corpus", false)
	doConfig([]int{5, 5, 5, 5, 5}, []int{0, 0, 0, 0, selSemiRR}, true, 30, 1, "corpus", true)
	doConfig([]int{0, 0}, []int{0, 0}, false, 5, 0, "corpus", false)
	doConfig([]int{42}, []int{selRR}, true, 10, 2, "corpus", false)
	doConfig([]int{1, 2, 3, 4, 5, 6}, []int{selRand, 0, 0, 0, 0, selSemiLV}, true, 40, 2, "corpus", true)

	// grid: selector x group count x weight pattern x history style
	for _, sel := range allSel {
		for n := 1; n <= 6; n++ {
			for pat := 0; pat < 4; pat++ {
				bias0 = []int{0, 25, 50, 90}[rng.Intn(4)]
				doConfig(weightsFor(n, pat), selsFor(n, sel, rng.Intn(4)), pat%2 == 1, 1+rng.Intn(40), (n+pat)%3,
					fmt.Sprintf("grid-n%d-%s", n, selName(sel)), n == 3)
			}
		}
	}
	// random
	nr := 700
	if thorough {
		nr = 30000
	}
	for i := 0; i < nr; i++ {
		n := 1 + rng.Intn(6)
		if rng.Intn(8) > 0 && n == 1 {
			n = 2 + rng.Intn(5)
		}
		sel := allSel[rng.Intn(len(allSel))]
		bias0 = []int{0, 25, 25, 50, 90}[rng.Intn(5)]
		doConfig(weightsFor(n, 4+rng.Intn(2)*(-3)), selsFor(n, sel, rng.Intn(4)), rng.Intn(3) > 0, 1+rng.Intn(40), rng.Intn(3),
			fmt.Sprintf("random-n%d-%s", n, selName(sel)), rng.Intn(10) == 0)
	}
	out.Finish()
}
