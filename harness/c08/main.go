// C08 harness: setting lists through the REAL public constructors of c2/cfg (Host, Sleep,
// WrapXOR, ConnectWC2 ...), Pack / AddGroup, then the real Validate / Build / Groups / Group /
// MarshalBinary; the built profile is projected through the shim (VerifDump) and compared
//
//	(a) Go side, with what was supplied (the oracle: C08 evaluated on the implementation),
//	(b) Coq side, with the Gallina model (enc / pack_groups / build / interp_groups ...).
package main

import (
	"encoding/json"
	"fmt"
	"os"
	"path/filepath"
	"sort"
	"strings"
	"time"

	"github.com/iDigitalFlame/xmt/c2/cfg"
	"github.com/iDigitalFlame/xmt/data"

	"verifharness/c09/cfgx"
	"verifharness/vh"
)

var (
	out *vh.Out
	tls *cfgx.TLSMaterial
)

// ---------------------------------------------------------------- byte-string arguments

// Arg describes a byte string: a pattern (a + i*b mod 256, n bytes), a literal, or a named
// constant defined in the preamble of every case file (the PEM blobs).
type Arg struct {
	K    string `json:"k"` // "pat" | "lit" | "cert" | "key"
	N    int    `json:"n,omitempty"`
	A    int    `json:"a,omitempty"`
	B    int    `json:"b,omitempty"`
	Lit  []int  `json:"lit,omitempty"`
	Take int    `json:"take,omitempty"` // cert/key: only the first Take bytes (0 = all)
}

func pat(n, a, b int) Arg { return Arg{K: "pat", N: n, A: a, B: b} }
func lit(s string) Arg {
	o := make([]int, len(s))
	for i := range s {
		o[i] = int(s[i])
	}
	return Arg{K: "lit", Lit: o}
}

func (a Arg) Bytes() []byte {
	switch a.K {
	case "pat":
		o := make([]byte, a.N)
		for i := range o {
			o[i] = byte(a.A + i*a.B)
		}
		return o
	case "cert", "key":
		b := tls.Cert
		if a.K == "key" {
			b = tls.Key
		}
		if a.Take > 0 && a.Take < len(b) {
			b = b[:a.Take]
		}
		return append([]byte(nil), b...)
	}
	o := make([]byte, len(a.Lit))
	for i, x := range a.Lit {
		o[i] = byte(x)
	}
	return o
}

func (a Arg) Coq() string {
	switch a.K {
	case "pat":
		return fmt.Sprintf("(pat %d %d %d)", a.N, a.A, a.B)
	case "cert", "key":
		n := "tls_" + a.K
		if a.Take > 0 {
			return fmt.Sprintf("(take %d %s)", a.Take, n)
		}
		return n
	}
	return vh.Bytes(a.Bytes())
}

// ---------------------------------------------------------------- setting specifications

// Spec is one call of a public constructor.
type Spec struct {
	Ctor string   `json:"ctor"`
	Nums []int64  `json:"nums,omitempty"`
	Args []Arg    `json:"args,omitempty"`
	Hdrs [][2]Arg `json:"hdrs,omitempty"` // ConnectWC2 header map (distinct keys)
}

func S(ctor string, nums ...int64) Spec { return Spec{Ctor: ctor, Nums: nums} }
func SB(ctor string, nums []int64, args ...Arg) Spec {
	return Spec{Ctor: ctor, Nums: nums, Args: args}
}

// Expectation: the profile a reader of the documentation expects (one group).
type Exp struct {
	P      cfg.VProf
	Sel    int64
	Conns  int
	Trans  int
	Domain bool // every argument in its documented domain (building must succeed)
	TLSRaw bool // a TLS blob that is not real PEM was supplied (only Build may reject it)
}

func clamp(b []byte, n int) []byte {
	if len(b) > n {
		return b[:n]
	}
	return b
}
func b2i(b bool) int64 {
	if b {
		return 1
	}
	return 0
}
func minver(v int64) int64 {
	v &= 0xFF
	if v > 0 && v < 0xFF {
		return v + 769
	}
	return 771
}
func (a Arg) real() bool { return (a.K == "cert" || a.K == "key") && a.Take == 0 }

// Made is a constructed setting: the real Setting, its Coq term, its effect on the expectation.
type Made struct {
	S     cfg.Setting
	Coq   string
	Panic string
}

// Make calls the real constructor (under recover), updates e, and returns the Coq term.
// packed is needed afterwards for WC2 (emission order of the map) and AES (generated IV): see fixup.
func Make(s Spec, e *Exp) (m Made) {
	defer func() {
		if r := recover(); r != nil {
			m.Panic = fmt.Sprint(r)
		}
	}()
	n := func(i int) int64 {
		if i < len(s.Nums) {
			return s.Nums[i]
		}
		return 0
	}
	a := func(i int) Arg {
		if i < len(s.Args) {
			return s.Args[i]
		}
		return Arg{K: "lit"}
	}
	switch s.Ctor {
	case "Host":
		b := a(0).Bytes()
		m.Coq = "SHost " + a(0).Coq()
		if len(b) > 0 {
			e.P.Hosts = append(e.P.Hosts, string(clamp(b, 0xFFFF)))
		}
		m.S = cfg.Host(string(b))
	case "Sleep":
		m.Coq = "SSleep " + vh.Z(n(0))
		if n(0) > 0 {
			e.P.Sleep = n(0)
		}
		m.S = cfg.Sleep(time.Duration(n(0)))
	case "Jitter":
		m.Coq = "SJitter " + vh.Z(n(0))
		j := int64(int8(byte(n(0))))
		if j > 100 {
			j = 100
		} else if j < -1 {
			j = 0
		}
		e.P.Jitter = j
		if n(0) > 100 {
			e.Domain = false
		}
		m.S = cfg.Jitter(uint(n(0)))
	case "Weight":
		m.Coq = "SWeight " + vh.Z(n(0))
		if n(0) != 0 {
			w := int64(byte(n(0)))
			if w > 100 {
				w = 100
			}
			e.P.Weight = w
		}
		if n(0) > 100 {
			e.Domain = false
		}
		m.S = cfg.Weight(uint(n(0)))
	case "KillDate": // nums: zero(0/1), unix
		t := time.Unix(n(1), 0)
		if n(0) != 0 {
			t = time.Time{}
		}
		zero, unix := t.IsZero(), t.Unix()
		m.Coq = "SKillDate " + vh.B(zero) + " " + vh.Z(unix)
		e.P.KDS = true
		if zero || unix == 0 {
			e.P.Kill = time.Time{}.Unix()
		} else {
			e.P.Kill = unix
		}
		m.S = cfg.KillDate(t)
	case "WorkHours":
		m.Coq = fmt.Sprintf("SWorkHours %d %d %d %d %d", n(0), n(1), n(2), n(3), n(4))
		e.P.Work = []int64{n(0), n(1), n(2), n(3), n(4)}
		if n(1) > 23 || n(2) > 59 || n(3) > 23 || n(4) > 59 {
			e.Domain = false
		}
		m.S = cfg.WorkHours{Days: uint8(n(0)), StartHour: uint8(n(1)), StartMin: uint8(n(2)), EndHour: uint8(n(3)), EndMin: uint8(n(4))}
	case "KeyPin":
		var pk data.PublicKey
		copy(pk[:], a(0).Bytes())
		m.Coq = "SKeyPin " + vh.B(pk.Empty()) + " " + vh.ZU(uint64(pk.Hash()))
		if !pk.Empty() {
			e.P.Keys = append(e.P.Keys, pk.Hash())
		}
		m.S = cfg.KeyPin(pk)
	case "Bit":
		b := byte(n(0))
		m.Coq = "SBit " + vh.Z(n(0))
		switch {
		case b == 0xA7 || (b >= 0xAA && b <= 0xAE):
			e.Sel = int64(b)
		case b >= 0xC0 && b <= 0xC5:
			e.Conns++
			e.P.Conn = [...]*cfg.VItem{{Kind: 1}, {Kind: 2, Nums: []int64{771, 0}}, {Kind: 3}, {Kind: 4, Nums: []int64{1}}, {Kind: 5}, {Kind: 2, Nums: []int64{770, 1}}}[b-0xC0]
		case b >= 0xD0 && b <= 0xD3:
			e.P.Wraps = append(e.P.Wraps, cfg.VItem{Kind: int(b) - 0xCF})
		case b == 0xE0:
			e.Trans++
			e.P.Trans = &cfg.VItem{Kind: 1, Nums: []int64{0}}
		default:
			e.Domain = false
		}
		m.S = cfg.Setting(bitOf(b))
	case "IP":
		m.Coq = "SIP " + vh.Z(n(0))
		e.Conns++
		e.P.Conn = &cfg.VItem{Kind: 4, Nums: []int64{int64(byte(n(0)))}}
		if byte(n(0)) == 0 {
			e.Domain = false
		}
		m.S = cfg.ConnectIP(uint(n(0)))
	case "WC2":
		u, h, g := a(0).Bytes(), a(1).Bytes(), a(2).Bytes()
		hm := map[string]string{}
		exp := map[string]string{}
		for _, kv := range s.Hdrs {
			k, v := kv[0].Bytes(), kv[1].Bytes()
			hm[string(k)] = string(v)
			exp[string(clamp(k, 0xFF))] = string(clamp(v, 0xFF))
			if len(k) == 0 {
				e.Domain = false
			}
		}
		if len(hm) > 0xFF {
			e.Domain = false
		}
		var hp map[string]string
		if len(hm) > 0 {
			hp = hm
		}
		keys := make([]string, 0, len(exp))
		for k := range exp {
			keys = append(keys, k)
		}
		sort.Strings(keys)
		it := &cfg.VItem{Kind: 6, Nums: []int64{int64(len(keys))}, Strs: [][]byte{clamp(u, 0xFFFF), clamp(h, 0xFFFF), clamp(g, 0xFFFF)}}
		for _, k := range keys {
			it.Strs = append(it.Strs, []byte(k), []byte(exp[k]))
		}
		e.Conns++
		e.P.Conn = it
		m.S = cfg.ConnectWC2(string(u), string(h), string(g), hp)
		// the Coq term lists the headers in the order the constructor emitted them
		raw := cfg.Pack(m.S)
		order := wc2Order(raw, len(clamp(u, 0xFFFF))+len(clamp(h, 0xFFFF))+len(clamp(g, 0xFFFF)), s.Hdrs)
		m.Coq = fmt.Sprintf("SWC2 %s %s %s %d %s", a(0).Coq(), a(1).Coq(), a(2).Coq(), len(hm), vh.List(order))
	case "TLSEx":
		m.Coq = "STLSEx " + vh.Z(n(0))
		e.Conns++
		e.P.Conn = &cfg.VItem{Kind: 7, Nums: []int64{minver(n(0)), 0, 0, 0}}
		m.S = cfg.ConnectTLSEx(uint16(n(0)))
	case "TLSExCA":
		ca := a(0).Bytes()
		m.Coq = "STLSExCA " + vh.Z(n(0)) + " " + a(0).Coq()
		e.Conns++
		e.P.Conn = &cfg.VItem{Kind: 7, Nums: []int64{minver(n(0)), 0, b2i(len(ca) > 0), 0}}
		if len(ca) > 0 && !a(0).real() {
			e.TLSRaw = true
		}
		ca2 := dup(ca)
		m.S = cfg.ConnectTLSExCA(uint16(n(0)), ca2)
		scribble(ca2)
	case "TLSCerts":
		p, k := a(0).Bytes(), a(1).Bytes()
		m.Coq = "STLSCerts " + vh.Z(n(0)) + " " + a(0).Coq() + " " + a(1).Coq()
		e.Conns++
		e.P.Conn = &cfg.VItem{Kind: 7, Nums: []int64{minver(n(0)), b2i(len(p) > 0 && len(k) > 0), 0, 0}}
		if len(p) > 0 && len(k) > 0 && !(a(0).real() && a(1).real()) {
			e.TLSRaw = true
		}
		if len(p) == 0 && len(k) == 0 {
			e.Domain = false // documented: empty PEM blocks render an error on build
		}
		p2, k2 := dup(p), dup(k)
		m.S = cfg.ConnectTLSCerts(uint16(n(0)), p2, k2)
		scribble(p2, k2)
	case "MuTLS":
		ca, p, k := a(0).Bytes(), a(1).Bytes(), a(2).Bytes()
		m.Coq = "SMuTLS " + vh.Z(n(0)) + " " + a(0).Coq() + " " + a(1).Coq() + " " + a(2).Coq()
		e.Conns++
		var auth int64
		if len(ca) > 0 {
			auth = 4
		}
		e.P.Conn = &cfg.VItem{Kind: 7, Nums: []int64{minver(n(0)), b2i(len(p) > 0 && len(k) > 0), b2i(len(ca) > 0), auth}}
		if (len(p) > 0 && len(k) > 0 && !(a(1).real() && a(2).real())) || (len(ca) > 0 && !a(0).real()) {
			e.TLSRaw = true
		}
		if len(ca) == 0 && len(p) == 0 && len(k) == 0 {
			e.Domain = false
		}
		ca2, p2, k2 := dup(ca), dup(p), dup(k)
		m.S = cfg.ConnectMuTLS(uint16(n(0)), ca2, p2, k2)
		scribble(ca2, p2, k2)
	case "XOR":
		k := a(0).Bytes()
		m.Coq = "SXOR " + a(0).Coq()
		e.P.Wraps = append(e.P.Wraps, cfg.VItem{Kind: 5, Strs: [][]byte{clamp(k, 0xFFFF)}})
		if len(k) == 0 {
			e.Domain = false
		}
		k2 := dup(k)
		m.S = cfg.WrapXOR(k2)
		scribble(k2)
	case "CBK":
		m.Coq = fmt.Sprintf("SCBK 128 %d %d %d %d", n(0), n(1), n(2), n(3))
		e.P.Wraps = append(e.P.Wraps, cfg.VItem{Kind: 6, Nums: []int64{n(0), n(1), n(2), n(3), 128}})
		m.S = cfg.WrapCBK(byte(n(0)), byte(n(1)), byte(n(2)), byte(n(3)))
	case "CBKSize":
		m.Coq = fmt.Sprintf("SCBK %d %d %d %d %d", n(0), n(1), n(2), n(3), n(4))
		e.P.Wraps = append(e.P.Wraps, cfg.VItem{Kind: 6, Nums: []int64{n(1), n(2), n(3), n(4), n(0)}})
		m.S = cfg.WrapCBKSize(byte(n(0)), byte(n(1)), byte(n(2)), byte(n(3)), byte(n(4)))
	case "AES":
		k, iv := a(0).Bytes(), a(1).Bytes()
		k2, iv2 := dup(k), dup(iv)
		m.S = cfg.WrapAES(k2, iv2)
		scribble(k2, iv2)
		ivc := a(1).Coq()
		if len(k) > 0 && len(iv) == 0 {
			// the constructor generated the IV: read it back from the setting's bytes
			raw := cfg.Pack(m.S)
			nk := len(k)
			if nk > 0xFF {
				nk = 0xFF
			}
			iv = append([]byte(nil), raw[3+nk:]...)
			ivc = vh.Bytes(iv)
		}
		m.Coq = "SAES " + a(0).Coq() + " " + ivc
		e.P.Wraps = append(e.P.Wraps, cfg.VItem{Kind: 7, Strs: [][]byte{iv}})
		if !(len(k) == 16 || len(k) == 24 || len(k) == 32) || len(iv) != 16 {
			e.Domain = false
		}
	case "DNS":
		var names []string
		var cq []string
		it := &cfg.VItem{Kind: 2}
		for i, x := range s.Args {
			b := x.Bytes()
			names = append(names, string(b))
			cq = append(cq, x.Coq())
			if i < 0xFF {
				it.Strs = append(it.Strs, clamp(b, 0xFF))
			}
			if len(b) == 0 {
				e.Domain = false
			}
		}
		m.Coq = "SDNS " + vh.List(cq)
		e.Trans++
		e.P.Trans = it
		m.S = cfg.TransformDNS(names...)
	case "B64S":
		m.Coq = "SB64S " + vh.Z(n(0))
		e.Trans++
		e.P.Trans = &cfg.VItem{Kind: 1, Nums: []int64{int64(byte(n(0)))}}
		m.S = cfg.TransformB64Shift(int(n(0)))
	default:
		panic("unknown constructor " + s.Ctor)
	}
	return m
}

// the constructors document a copy of their byte-slice arguments: the caller's slices are overwritten right after
// the call, long before anything is packed or built
func dup(b []byte) []byte { return append([]byte(nil), b...) }
func scribble(bs ...[]byte) {
	for _, b := range bs {
		for i := range b {
			b[i] ^= 0xA5
		}
	}
}

func bitOf(b byte) cfg.Setting {
	for _, x := range []cfg.Setting{cfg.Separator, cfg.SelectorLastValid, cfg.SelectorRoundRobin, cfg.SelectorRandom, cfg.SelectorSemiRoundRobin,
		cfg.SelectorSemiRandom, cfg.SelectorSemiLastValid, cfg.ConnectTCP, cfg.ConnectTLS, cfg.ConnectUDP, cfg.ConnectICMP, cfg.ConnectPipe,
		cfg.ConnectTLSNoVerify, cfg.WrapHex, cfg.WrapZlib, cfg.WrapGzip, cfg.WrapBase64, cfg.TransformB64} {
		if p := cfg.Pack(x); len(p) == 1 && p[0] == b {
			return x
		}
	}
	panic(fmt.Sprintf("no exported constant %02X", b))
}

// wc2Order: the (key, value) terms in the order they appear in the encoded setting.
func wc2Order(raw []byte, skip int, hdrs [][2]Arg) []string {
	var o []string
	if len(hdrs) == 0 {
		return o
	}
	byKey := map[string][2]Arg{}
	for _, kv := range hdrs {
		byKey[string(clamp(kv[0].Bytes(), 0xFF))] = kv
	}
	for v := 8 + skip; v+1 < len(raw); {
		lk, lv := int(raw[v]), int(raw[v+1])
		if v+2+lk+lv > len(raw) {
			break
		}
		k := string(raw[v+2 : v+2+lk])
		if kv, ok := byKey[k]; ok {
			o = append(o, "("+kv[0].Coq()+","+kv[1].Coq()+")")
		} else {
			o = append(o, "("+vh.Bytes([]byte(k))+","+vh.Bytes(raw[v+2+lk:v+2+lk+lv])+")")
		}
		v += 2 + lk + lv
	}
	return o
}

// ---------------------------------------------------------------- one case

type Case struct {
	Focus  string   `json:"focus"`
	Groups [][]Spec `json:"groups"`
	UseP   bool     `json:"pack_first"` // first group through Pack instead of AddGroup
}

func flatExp(es []Exp) []int64 {
	// Build: a single kept entry is a plain profile; otherwise (last non-zero selector, entries by descending weight, stable)
	switch len(es) {
	case 0:
		return []int64{0, 0}
	case 1:
		return cfgx.FlatProf([]int64{0, 1}, &es[0].P)
	}
	var sel int64
	for i := range es {
		if es[i].Sel > 0 {
			sel = es[i].Sel
		}
	}
	idx := make([]int, len(es))
	for i := range idx {
		idx[i] = i
	}
	sort.SliceStable(idx, func(a, b int) bool { return es[idx[a]].P.Weight > es[idx[b]].P.Weight })
	o := []int64{sel, int64(len(es))}
	for _, i := range idx {
		o = cfgx.FlatProf(o, &es[i].P)
	}
	return o
}

func eq64(a, b []int64) bool {
	if len(a) != len(b) {
		return false
	}
	for i := range a {
		if a[i] != b[i] {
			return false
		}
	}
	return true
}

func digRes(o cfgx.Outcome, b []byte) string {
	switch o.Class {
	case 0:
		return vh.ResOk(vh.ZList64(cfgx.Dig(nil, b)))
	case 1:
		return vh.ResErr(o.Code)
	}
	return "Panic"
}

func run(cs Case, class string) { runWith(cs, class, nil, nil) }

// runWith: given (optional) is a Config that was produced by some OTHER history of Pack / Add / AddGroup calls
// (possibly sharing Setting values with other live Configs) which by value semantics must equal the config
// of cs; it is the one that is evaluated.  extra is merged into the JSON description.
func runWith(cs Case, class string, given *cfg.Config, extra map[string]interface{}) {
	var (
		c     cfg.Config
		exps  []Exp
		terms []string
		desc  = map[string]interface{}{"focus": cs.Focus, "groups": cs.Groups, "pack_first": cs.UseP}
	)
	for k, v := range extra {
		desc[k] = v
	}
	fail := func(what, key string) { out.Fail(what, key+"-"+cs.Focus, desc) }
	domain, tlsraw, sepInside := true, false, false
	for gi, g := range cs.Groups {
		e := Exp{Domain: true}
		e.P.Kill = time.Time{}.Unix()
		var (
			ss []cfg.Setting
			ts []string
		)
		for _, s := range g {
			m := Make(s, &e)
			if m.Panic != "" {
				fail("constructor "+s.Ctor+" panicked: "+m.Panic, "ctor-panic-"+s.Ctor)
				out.Count(class, fmt.Sprint(desc), true)
				return
			}
			if s.Ctor == "Bit" && len(s.Nums) > 0 && s.Nums[0] == 0xFA {
				sepInside = true
			}
			ss = append(ss, m.S)
			ts = append(ts, m.Coq)
		}
		terms = append(terms, vh.List(ts))
		before := len(c)
		if gi == 0 && cs.UseP {
			c = cfg.Pack(ss...)
		} else {
			c.AddGroup(ss...)
		}
		grew := len(c) - before
		if before > 0 && len(ss) > 0 {
			grew-- // the separator
		}
		_ = before
		if e.Conns > 1 || e.Trans > 1 {
			e.Domain = false
		}
		domain = domain && e.Domain
		tlsraw = tlsraw || e.TLSRaw
		if grew > 0 {
			exps = append(exps, e)
		}
	}
	if given != nil {
		// value semantics: the history's config is byte for byte the config of its own settings
		if string(*given) != string(c) {
			fail(fmt.Sprintf("a Config built from shared Setting values differs from the bytes of its own settings (%d vs %d bytes, first difference at %d)",
				len(*given), len(c), firstDiff(*given, c)), "config-bytes-differ")
		}
		c = *given
	}
	r := cfgx.Run(c)
	desc["len"] = len(c)
	desc["validate"], desc["build"], desc["ngroups"] = r.Validate.String(), r.Build.String(), r.NGroups
	if len(c) <= 300 {
		desc["bytes"] = cfgx.Ints(c)
	}

	// ---- oracle: C08 on the implementation
	for name, o := range map[string]cfgx.Outcome{"Validate": r.Validate, "Build": r.Build, "Groups": r.Groups, "MarshalBinary": r.Marshal} {
		if o.Class >= 2 {
			fail(name+" "+o.String(), "panic-"+name)
		}
	}
	for i, o := range r.GroupOut {
		if o.Class >= 2 {
			fail(fmt.Sprintf("Group(%d) %s", r.GroupPs[i], o.String()), "panic-Group")
		}
	}
	if r.Validate.Class <= 1 && r.Build.Class <= 1 {
		if r.Validate.Class == 0 && r.Build.Class == 1 && (r.Build.Code != 9 || strings.HasPrefix(r.Build.Msg, "aes")) {
			fail("Validate accepts but Build rejects: "+r.Build.Msg, "validate-ok-build-err")
		}
		if r.Validate.Class == 1 && r.Build.Class == 0 {
			fail("Validate rejects ("+r.Validate.Msg+") but Build accepts", "validate-err-build-ok")
		}
	}
	if domain && !sepInside && r.Build.Class <= 1 {
		switch {
		case r.Build.Class == 1 && r.Build.Code == 9 && tlsraw:
			// only the contents of a certificate / key were rejected
		case r.Build.Class == 1:
			fail("settings in their documented domains do not build: "+r.Build.Msg, "nobuild")
		default:
			if want, got := flatExp(exps), cfgx.FlatDump(&r.Dump); !eq64(want, got) {
				fail(fmt.Sprintf("the built profile differs from the supplied settings: want %v got %v", clipI(want), clipI(got)), "built-differs")
			}
		}
	}
	// accessors of a freshly built multi-group profile: whichever accessor is called FIRST must already answer for
	// the heaviest group (entries[0]; every accessor initialises the nil cursor), and the others agree afterwards
	if r.Build.Class == 0 && r.Dump.Kind == "group" && len(r.Dump.Entries) > 1 && r.Dump.Sel != 0xAC && r.Dump.Sel != 0xAE {
		accessorOrders(c, &r.Dump.Entries[0], fail)
	}
	if r.Groups.Class == 0 && len(c) > 0 {
		var j []byte
		ok := true
		for p := 0; p < r.NGroups; p++ {
			var g []byte
			o := cfgx.GuardFast(func() error { g = c.Group(p); return nil })
			if o.Class != 0 {
				ok = false
				break
			}
			if p > 0 {
				j = append(j, 0xFA)
			}
			j = append(j, g...)
		}
		if ok && string(j) != string(c) {
			fail(fmt.Sprintf("the %d groups joined by separators are %d bytes, the config is %d bytes", r.NGroups, len(j), len(c)), "groups-partition")
		}
	}
	if r.Build.Class == 0 && r.Profile != nil {
		if r.Marshal.Class != 0 || string(r.MarshalB) != string(c) {
			fail("MarshalBinary of the built profile is not the source: "+r.Marshal.String(), "marshal-source")
		}
	}

	// ---- the Coq case
	var sb strings.Builder
	sb.WriteString("CPack " + vh.List(terms) + " " + digRes(cfgx.Outcome{}, c) + " " + vh.B(r.TLSOK()) + " ")
	switch r.Validate.Class {
	case 0:
		sb.WriteString("(Ok tt) ")
	case 1:
		sb.WriteString(vh.ResErr(r.Validate.Code) + " ")
	default:
		sb.WriteString("Panic ")
	}
	switch r.Build.Class {
	case 0:
		sb.WriteString(vh.ResOk(vh.ZList64(cfgx.FlatDump(&r.Dump))))
	case 1:
		sb.WriteString(vh.ResErr(r.Build.Code))
	default:
		sb.WriteString("Panic")
	}
	if r.Groups.Class == 0 {
		sb.WriteString(" " + vh.ResOk(vh.Z(int64(r.NGroups))))
	} else {
		sb.WriteString(" Panic")
	}
	items := make([]string, len(r.GroupPs))
	for i, p := range r.GroupPs {
		items[i] = "(" + vh.Z(int64(p)) + "," + digRes(r.GroupOut[i], r.GroupVal[i]) + ")"
	}
	sb.WriteString(" " + vh.List(items) + " " + digRes(r.Marshal, r.MarshalB))
	out.Add(sb.String(), class, len(c) > 0, desc)
}

var accNames = []string{"Sleep", "Jitter", "KillDate", "WorkHours", "TrustedKey", "Next"}

// accessorOrders builds c once per accessor, calls that accessor first and then all the others, and compares every
// answer with the heaviest entry e of the dump.
func accessorOrders(c cfg.Config, e *cfg.VProf, fail func(what, key string)) {
	var pk data.PublicKey
	pk[0], pk[3] = 0x5A, 1
	trusted := len(e.Keys) == 0
	for _, k := range e.Keys {
		if k == pk.Hash() {
			trusted = true
		}
	}
	call := func(p cfg.Profile, a int) string {
		switch a {
		case 0:
			if v := int64(p.Sleep()); v != e.Sleep {
				return fmt.Sprintf("Sleep() = %d, want %d", v, e.Sleep)
			}
		case 1:
			if v := int64(p.Jitter()); v != e.Jitter {
				return fmt.Sprintf("Jitter() = %d, want %d", v, e.Jitter)
			}
		case 2:
			if t, ok := p.KillDate(); ok != e.KDS || t.Unix() != e.Kill {
				return fmt.Sprintf("KillDate() = (%d,%v), want (%d,%v)", t.Unix(), ok, e.Kill, e.KDS)
			}
		case 3:
			w := p.WorkHours()
			if (w == nil) != (e.Work == nil) {
				return fmt.Sprintf("WorkHours() nil=%v, want nil=%v", w == nil, e.Work == nil)
			}
			if w != nil && (int64(w.Days) != e.Work[0] || int64(w.StartHour) != e.Work[1] || int64(w.StartMin) != e.Work[2] || int64(w.EndHour) != e.Work[3] || int64(w.EndMin) != e.Work[4]) {
				return fmt.Sprintf("WorkHours() = %+v, want %v", *w, e.Work)
			}
		case 4:
			if v := p.TrustedKey(pk); v != trusted {
				return fmt.Sprintf("TrustedKey() = %v, want %v", v, trusted)
			}
		case 5:
			h, _, _ := p.Next()
			ok := len(e.Hosts) == 0 && h == ""
			for _, x := range e.Hosts {
				if x == h {
					ok = true
				}
			}
			if !ok {
				return fmt.Sprintf("Next() host %q is not a host of the heaviest group", clipS(h))
			}
		}
		return ""
	}
	for first := range accNames {
		o := cfgx.GuardFast(func() error {
			p, err := c.Build()
			if err != nil || p == nil {
				return err
			}
			if m := call(p, first); m != "" {
				fail("called first on a fresh build: "+m, "accessor-first-"+accNames[first])
			}
			for a := range accNames {
				if a != first {
					if m := call(p, a); m != "" {
						fail("after "+accNames[first]+"(): "+m, "accessor-after-"+accNames[first]+"-"+accNames[a])
					}
				}
			}
			return nil
		})
		if o.Class == 2 {
			fail("accessor sequence starting with "+accNames[first]+" panicked: "+o.Msg, "accessor-panic-"+accNames[first])
		}
	}
}

func clipS(s string) string {
	if len(s) > 40 {
		return s[:40] + "..."
	}
	return s
}

func firstDiff(a, b []byte) int {
	for i := 0; i < len(a) && i < len(b); i++ {
		if a[i] != b[i] {
			return i
		}
	}
	if len(a) < len(b) {
		return len(a)
	}
	return len(b)
}

// ---------------------------------------------------------------- aliasing histories

// Item of an Add / AddGroup call: a Setting value shared between configs (index into History.Shared) or a fresh one.
type Item struct {
	Shared int   `json:"shared"` // -1: fresh
	Spec   *Spec `json:"spec,omitempty"`
}
type Op struct {
	Kind  string `json:"op"` // "add" | "addgroup"
	Items []Item `json:"items"`
}
type HConf struct {
	First int  `json:"first"` // Pack(shared[First]) alone
	Ops   []Op `json:"ops"`
}

// History: Setting values constructed ONCE, several Configs started from them with a single-setting Pack and
// extended by Add / AddGroup, the calls interleaved round-robin between the configs; all configs stay alive and
// are evaluated only at the end.
type History struct {
	Shared []Spec  `json:"shared"`
	Confs  []HConf `json:"confs"`
}

func runAlias(h History, class string) {
	shared := make([]cfg.Setting, len(h.Shared))
	for i, s := range h.Shared {
		var e Exp
		m := Make(s, &e)
		if m.Panic != "" {
			out.Fail("constructor "+s.Ctor+" panicked: "+m.Panic, "ctor-panic-"+s.Ctor+"-alias", h)
			return
		}
		shared[i] = m.S
	}
	confs := make([]cfg.Config, len(h.Confs))
	value := make([][][]Spec, len(h.Confs)) // the groups each config means
	for i, hc := range h.Confs {
		confs[i] = cfg.Pack(shared[hc.First])
		value[i] = [][]Spec{{h.Shared[hc.First]}}
	}
	for t := 0; ; t++ {
		any := false
		for i, hc := range h.Confs {
			if t >= len(hc.Ops) {
				continue
			}
			any = true
			var (
				ss []cfg.Setting
				sp []Spec
			)
			for _, it := range hc.Ops[t].Items {
				if it.Shared >= 0 {
					ss, sp = append(ss, shared[it.Shared]), append(sp, h.Shared[it.Shared])
					continue
				}
				var e Exp
				m := Make(*it.Spec, &e)
				if m.Panic != "" {
					out.Fail("constructor "+it.Spec.Ctor+" panicked: "+m.Panic, "ctor-panic-"+it.Spec.Ctor+"-alias", h)
					return
				}
				ss, sp = append(ss, m.S), append(sp, *it.Spec)
			}
			if hc.Ops[t].Kind == "addgroup" {
				confs[i].AddGroup(ss...)
				value[i] = append(value[i], sp)
			} else {
				confs[i].Add(ss...)
				value[i][len(value[i])-1] = append(value[i][len(value[i])-1], sp...)
			}
		}
		if !any {
			break
		}
	}
	for i := range confs {
		runWith(Case{Focus: "alias", Groups: value[i], UseP: true}, class, &confs[i], map[string]interface{}{"history": h, "config": i})
	}
}

func aliasHistory(rng *vh.Rand) History {
	var h History
	h.Shared = append(h.Shared, SB("Host", nil, pat(1+rng.Intn(40), 'a'+rng.Intn(20), 1)))
	switch rng.Intn(6) {
	case 0:
		h.Shared = append(h.Shared, SB("XOR", nil, pat(1+rng.Intn(30), rng.Intn(256), 3)))
	case 1:
		h.Shared = append(h.Shared, SB("DNS", nil, pat(3+rng.Intn(10), 'd', 1), lit("x.y")))
	case 2:
		h.Shared = append(h.Shared, S("Sleep", int64(1+rng.Intn(1e9))))
	case 3:
		h.Shared = append(h.Shared, SB("WC2", nil, pat(rng.Intn(12), 'u', 1), lit("h.example"), lit("")))
	case 4:
		h.Shared = append(h.Shared, SB("TLSExCA", []int64{2}, Arg{K: "cert"}))
	default:
		h.Shared = append(h.Shared, SB("Host", nil, pat(1+rng.Intn(300), 'b', 1)))
	}
	fresh := func(s Spec) Item { return Item{Shared: -1, Spec: &s} }
	conns := []int64{0xC0, 0xC2, 0xC3, 0xC4}
	for i, n := 0, 2+rng.Intn(2); i < n; i++ {
		hc := HConf{First: 0}
		if rng.Intn(4) == 0 {
			hc.First = 1
		}
		sh := h.Shared[hc.First].Ctor
		first := []Item{fresh(S("Jitter", int64(10+30*i))), fresh(S("Bit", int64(0xD0+(i+rng.Intn(2))%4)))}
		if sh != "WC2" && sh != "TLSExCA" {
			first = append([]Item{fresh(S("Bit", conns[(i+rng.Intn(2))%4]))}, first...)
		}
		if sh != "Host" && rng.Bool() {
			first = append(first, Item{Shared: 0})
		}
		hc.Ops = append(hc.Ops, Op{Kind: "add", Items: first})
		if rng.Bool() {
			g := []Item{{Shared: 0}, fresh(S("Bit", conns[rng.Intn(4)])), fresh(S("Weight", int64(1+rng.Intn(100))))}
			if rng.Bool() {
				g = append(g, fresh(S("Bit", []int64{0xAA, 0xAB, 0xAC}[rng.Intn(3)])))
			}
			hc.Ops = append(hc.Ops, Op{Kind: "addgroup", Items: g})
			if rng.Bool() {
				hc.Ops = append(hc.Ops, Op{Kind: "add", Items: []Item{fresh(S("Jitter", int64(rng.Intn(100)))), fresh(S("CBK", int64(i), 2, 3, 4))}})
			}
		} else if rng.Bool() {
			hc.Ops = append(hc.Ops, Op{Kind: "add", Items: []Item{fresh(S("Weight", int64(1+rng.Intn(100))))}})
		}
		h.Confs = append(h.Confs, hc)
	}
	return h
}

func clipI(v []int64) []int64 {
	if len(v) > 60 {
		return v[:60]
	}
	return v
}

// ---------------------------------------------------------------- generators

var grid = []int{0, 1, 2, 254, 255, 256, 257, 511, 512, 65534, 65535}

// prefix(n): settings whose packed length is exactly n (n = 0, or n >= 4), built from hosts and one jitter.
func prefix(n int) []Spec {
	switch {
	case n <= 0:
		return nil
	case n == 2:
		return []Spec{S("Jitter", 7)}
	case n < 4:
		panic("prefix length")
	case n == 5:
		return []Spec{S("Bit", 0xD0), SB("Host", nil, pat(1, 'p', 0))}
	}
	if n > 65538 {
		return append(prefix(n-65538), SB("Host", nil, pat(65535, 'q', 1)))
	}
	return []Spec{SB("Host", nil, pat(n-3, 'p', 1))}
}

// families of length-prefixed constructors: f(L) = the setting with an L-byte argument in the focused position
type family struct {
	name string
	max  int
	mk   func(L int) Spec
	conn bool
	tr   bool
}

func families() []family {
	return []family{
		{"host", 65535, func(L int) Spec { return SB("Host", nil, pat(L, 'h', 1)) }, false, false},
		{"xor", 65535, func(L int) Spec { return SB("XOR", nil, pat(L, 1, 3)) }, false, false},
		{"tlsca", 65535, func(L int) Spec { return SB("TLSExCA", []int64{2}, pat(L, 'c', 1)) }, true, false},
		{"tlscerts-pem", 65535, func(L int) Spec { return SB("TLSCerts", []int64{0}, pat(L, 'p', 1), pat(5, 'k', 1)) }, true, false},
		{"tlscerts-key", 65535, func(L int) Spec { return SB("TLSCerts", []int64{1}, pat(3, 'p', 1), pat(L, 'k', 1)) }, true, false},
		{"mtls-ca", 65535, func(L int) Spec { return SB("MuTLS", []int64{3}, pat(L, 'c', 1), pat(4, 'p', 1), pat(6, 'k', 1)) }, true, false},
		{"mtls-pem", 65535, func(L int) Spec { return SB("MuTLS", []int64{3}, pat(7, 'c', 1), pat(L, 'p', 1), pat(6, 'k', 1)) }, true, false},
		{"mtls-key", 65535, func(L int) Spec { return SB("MuTLS", []int64{0}, pat(7, 'c', 1), pat(2, 'p', 1), pat(L, 'k', 1)) }, true, false},
		{"wc2-url", 65535, func(L int) Spec { return SB("WC2", nil, pat(L, 'u', 1), lit("h.example"), lit("agent")) }, true, false},
		{"wc2-host", 65535, func(L int) Spec { return SB("WC2", nil, lit("/u"), pat(L, 'h', 1), lit("")) }, true, false},
		{"wc2-agent", 65535, func(L int) Spec {
			s := SB("WC2", nil, lit(""), lit(""), pat(L, 'a', 1))
			s.Hdrs = [][2]Arg{{lit("X-K"), lit("v")}}
			return s
		}, true, false},
		{"wc2-hdr-key", 255, func(L int) Spec {
			s := SB("WC2", nil, lit("/"), lit(""), lit("a"))
			s.Hdrs = [][2]Arg{{pat(L, 'K', 1), lit("value")}}
			return s
		}, true, false},
		{"wc2-hdr-val", 255, func(L int) Spec {
			s := SB("WC2", nil, lit("/"), lit("hh"), lit(""))
			s.Hdrs = [][2]Arg{{lit("Key"), pat(L, 'V', 1)}}
			return s
		}, true, false},
		{"dns-name", 255, func(L int) Spec { return SB("DNS", nil, lit("first.example"), pat(L, 'd', 1), lit("x.y")) }, false, true},
		{"aes-key", 255, func(L int) Spec { return SB("AES", nil, pat(L, 3, 5), pat(16, 9, 1)) }, false, false},
		{"aes-iv", 255, func(L int) Spec { return SB("AES", nil, pat(32, 3, 5), pat(L, 9, 1)) }, false, false},
		{"dns-count", 257, func(L int) Spec {
			s := Spec{Ctor: "DNS"}
			for i := 0; i < L; i++ {
				s.Args = append(s.Args, lit(fmt.Sprintf("n%d.io", i)))
			}
			return s
		}, false, true},
		{"wc2-hdr-count", 255, func(L int) Spec {
			s := SB("WC2", nil, lit("/"), lit("h"), lit("a"))
			for i := 0; i < L; i++ {
				s.Hdrs = append(s.Hdrs, [2]Arg{lit(fmt.Sprintf("K%03d", i)), lit(fmt.Sprintf("%d", i))})
			}
			return s
		}, true, false},
	}
}

func tail(f family) []Spec {
	t := []Spec{S("Jitter", 20), SB("Host", nil, lit("tail.example:443")), S("Sleep", 3e9)}
	if !f.conn {
		t = append(t, S("Bit", 0xC0))
	}
	if !f.tr {
		t = append(t, S("B64S", 9))
	}
	return t
}

func randArg(rng *vh.Rand, max int) Arg {
	switch rng.Intn(8) {
	case 0:
		return pat(0, 0, 0)
	case 1:
		return pat(grid[rng.Intn(len(grid))]%(max+1), rng.Intn(256), rng.Intn(5))
	case 2:
		return pat(250+rng.Intn(12), rng.Intn(256), 1)
	}
	return pat(1+rng.Intn(24), 'a'+rng.Intn(20), rng.Intn(3))
}

func randSetting(rng *vh.Rand, big bool) Spec {
	mx := 600
	if big {
		mx = 65535
	}
	switch rng.Intn(24) {
	case 0, 1:
		return SB("Host", nil, randArg(rng, mx))
	case 2:
		return S("Sleep", []int64{0, -5, 1, 1e9, 6e10, 1<<62 + 12345, 1<<63 - 1}[rng.Intn(7)])
	case 3:
		return S("Jitter", []int64{0, 1, 50, 100, 101, 127, 128, 255, 256, 300}[rng.Intn(10)])
	case 4:
		return S("Weight", []int64{0, 1, 40, 100, 101, 255, 256, 257}[rng.Intn(8)])
	case 5:
		return S("KillDate", int64(rng.Intn(4)/3), []int64{1893456000, 1, 0, -1, 253402300799, -62135596800}[rng.Intn(6)])
	case 6:
		return S("WorkHours", int64(rng.Intn(256)), int64(rng.Intn(26)), int64(rng.Intn(62)), int64(rng.Intn(24)), int64(rng.Intn(60)))
	case 7:
		if rng.Intn(5) == 0 {
			return SB("KeyPin", nil, pat(0, 0, 0))
		}
		return SB("KeyPin", nil, pat(1+rng.Intn(40), rng.Intn(256), 1+rng.Intn(7)))
	case 8:
		return S("Bit", []int64{0xA7, 0xAA, 0xAB, 0xAC, 0xAD, 0xAE}[rng.Intn(6)])
	case 9:
		return S("Bit", int64(0xC0+rng.Intn(6)))
	case 10, 11:
		return S("Bit", int64(0xD0+rng.Intn(4)))
	case 12:
		return S("Bit", 0xE0)
	case 13:
		return S("IP", []int64{1, 47, 255, 0, 256, 300}[rng.Intn(6)])
	case 14:
		s := SB("WC2", nil, randArg(rng, mx), randArg(rng, mx), randArg(rng, mx))
		for i, n := 0, rng.Intn(4); i < n; i++ {
			s.Hdrs = append(s.Hdrs, [2]Arg{pat(1+rng.Intn(12), 'A'+i, 1), randArg(rng, 255)})
		}
		return s
	case 15:
		return S("TLSEx", []int64{0, 1, 2, 3, 4, 254, 255, 256, 771}[rng.Intn(9)])
	case 16:
		if rng.Bool() {
			return SB("TLSExCA", []int64{int64(rng.Intn(5))}, Arg{K: "cert"})
		}
		return SB("TLSExCA", []int64{int64(rng.Intn(5))}, randArg(rng, mx))
	case 17:
		if rng.Bool() {
			return SB("TLSCerts", []int64{int64(rng.Intn(5))}, Arg{K: "cert"}, Arg{K: "key"})
		}
		return SB("TLSCerts", []int64{int64(rng.Intn(5))}, randArg(rng, mx), randArg(rng, mx))
	case 18:
		if rng.Bool() {
			return SB("MuTLS", []int64{int64(rng.Intn(5))}, Arg{K: "cert"}, Arg{K: "cert"}, Arg{K: "key"})
		}
		return SB("MuTLS", []int64{int64(rng.Intn(5))}, randArg(rng, mx), randArg(rng, mx), randArg(rng, mx))
	case 19:
		return SB("XOR", nil, randArg(rng, mx))
	case 20:
		if rng.Bool() {
			return S("CBK", int64(rng.Intn(256)), int64(rng.Intn(256)), int64(rng.Intn(256)), int64(rng.Intn(256)))
		}
		return S("CBKSize", int64(rng.Intn(256)), int64(rng.Intn(256)), int64(rng.Intn(256)), int64(rng.Intn(256)), int64(rng.Intn(256)))
	case 21:
		k := []int{16, 24, 32, 16, 32, 0, 15, 33}[rng.Intn(8)]
		iv := []int{16, 16, 16, 0, 8}[rng.Intn(5)]
		return SB("AES", nil, pat(k, rng.Intn(256), 1), pat(iv, rng.Intn(256), 3))
	case 22:
		s := Spec{Ctor: "DNS"}
		for i, n := 0, rng.Intn(4); i < n; i++ {
			s.Args = append(s.Args, pat(1+rng.Intn(30), 'a'+rng.Intn(26), 1))
		}
		return s
	}
	return S("B64S", int64(rng.Intn(300)-20))
}

// a group in the documented domain: at most one connector / transform, arguments valid
func goodGroup(rng *vh.Rand, n int) []Spec {
	var g []Spec
	conn, tr := false, false
	for len(g) < n {
		s := randSetting(rng, false)
		e := Exp{Domain: true}
		m := Make(s, &e)
		if m.Panic != "" || !e.Domain {
			continue
		}
		if e.Conns > 0 {
			if conn {
				continue
			}
			conn = true
		}
		if e.Trans > 0 {
			if tr {
				continue
			}
			tr = true
		}
		g = append(g, s)
	}
	return g
}

func main() {
	fl := vh.ParseFlags()
	out = vh.NewOut("C08", fl, "From XMT Require Import Base.Prelude Model.Cfg Model.CfgSettings.", "scase", "scheck",
		"setting lists through the real constructors, Pack/AddGroup, Validate/Build/Groups/Group/MarshalBinary: every length-prefixed constructor family with argument lengths "+
			"{0,1,2,254,255,256,257,511,512,65534,65535} after prefixes chosen so that offset+header+low byte carries, a sweep of all prefix lengths 0..300 for 255/256/511-byte hosts, "+
			"random in-domain and out-of-domain groups (1..5 groups, every selector); distinct = distinct Coq case term, non-trivial = the packed config is non-empty")
	out.ShardSize = 60
	thorough := fl.Tier == "thorough"
	rng := vh.NewRand(fl.Seed)
	var err error
	tls, err = cfgx.LoadTLS(filepath.Join(filepath.Dir(fl.Out), "cfg_tls"))
	if err != nil {
		panic(err)
	}
	out.Imports += "\nDefinition tls_cert : list Z := " + vh.Bytes(tls.Cert) + ".\nDefinition tls_key : list Z := " + vh.Bytes(tls.Key) + "."

	if fl.Replay != "" {
		var rp struct {
			Input struct {
				Case
				History *History `json:"history"`
			} `json:"input"`
		}
		raw, err := os.ReadFile(fl.Replay)
		if err != nil {
			panic(err)
		}
		if err := json.Unmarshal(raw, &rp); err != nil {
			panic(err)
		}
		if rp.Input.History != nil {
			runAlias(*rp.Input.History, "replay")
		} else {
			run(rp.Input.Case, "replay")
		}
		out.Finish()
		return
	}

	// 1. regression corpus: one input per defect found on the pinned tree (all repaired by fix: commits)
	reg := []Case{
		{Focus: "host", Groups: [][]Spec{{S("Sleep", 1e9), S("Jitter", 1), SB("Host", nil, pat(511, 'a', 0))}}},
		{Focus: "tlscerts-pem", Groups: [][]Spec{{SB("Host", nil, lit("h:1")), SB("TLSCerts", []int64{0}, Arg{K: "cert"}, Arg{K: "key"})}}},
		{Focus: "dns", Groups: [][]Spec{{S("Jitter", 5), SB("DNS", nil, lit("a.com"))}}},
		{Focus: "tlsca", Groups: [][]Spec{{SB("TLSExCA", []int64{0}, pat(0, 0, 0)), SB("Host", nil, lit("h:1"))}}},
		{Focus: "tlsca", Groups: [][]Spec{{S("Jitter", 1), SB("TLSExCA", []int64{1}, Arg{K: "cert"}), SB("Host", nil, lit("h:1"))}}},
		{Focus: "xor", Groups: [][]Spec{{S("Jitter", 3), S("Weight", 3), SB("XOR", nil, pat(300, 1, 1)), S("Bit", 0xC0), SB("Host", nil, lit("h"))}}},
		{Focus: "mix", UseP: true, Groups: [][]Spec{
			{SB("Host", nil, lit("one")), S("Bit", 0xC3), S("Weight", 10), S("Bit", 0xAC)},
			{SB("Host", nil, lit("two")), S("Bit", 0xC4), S("Weight", 40)},
			{SB("Host", nil, lit("three")), S("Bit", 0xC5), S("Weight", 40), S("CBKSize", 64, 9, 8, 7, 6)}}},
		{Focus: "mix", Groups: [][]Spec{{SB("Host", nil, lit("h:1")), SB("MuTLS", []int64{1}, Arg{K: "cert"}, Arg{K: "cert"}, Arg{K: "key"}), S("Bit", 0xD0)}}},
		{Focus: "mix", Groups: [][]Spec{{}}},
	}
	{
		// many headers (the count byte)
		s := SB("WC2", nil, lit("/"), lit("h"), lit("a"))
		for i := 0; i < 255; i++ {
			s.Hdrs = append(s.Hdrs, [2]Arg{lit(fmt.Sprintf("K%03d", i)), lit(fmt.Sprintf("%d", i))})
		}
		reg = append(reg, Case{Focus: "wc2-255-headers", Groups: [][]Spec{{S("Jitter", 2), s, SB("Host", nil, lit("h"))}}})
		s2 := s
		s2.Hdrs = append(append([][2]Arg{}, s.Hdrs...), [2]Arg{lit("K255"), lit("x")})
		reg = append(reg, Case{Focus: "wc2-256-headers", Groups: [][]Spec{{S("Jitter", 2), s2, SB("Host", nil, lit("h"))}}})
	}
	{
		h := func(kv ...string) Spec {
			s := SB("WC2", nil, lit("/a"), lit(""), lit(""))
			for i := 0; i+1 < len(kv); i += 2 {
				s.Hdrs = append(s.Hdrs, [2]Arg{lit(kv[i]), lit(kv[i+1])})
			}
			return s
		}
		for _, s := range []Spec{h("", "v"), h("", ""), h("k", ""), h("a", "1", "", "2", "c", "3"), h("a", "", "b", "", "c", ""), h("k", "v", "kk", "vv"),
			SB("DNS", nil, lit("")), SB("DNS", nil, lit("a.b"), lit(""), lit("c.d")), SB("DNS", nil, lit(""), lit(""))} {
			reg = append(reg, Case{Focus: "empty-field", Groups: [][]Spec{{s}}})
			reg = append(reg, Case{Focus: "empty-field", Groups: [][]Spec{{SB("Host", nil, lit("h:1")), s, S("Jitter", 4)}}})
		}
	}
	for _, c := range reg {
		run(c, "regression")
	}
	// 1a. AES: EVERY key length 0..40 (and 48, 56, 64) with a 16 byte IV, and IV lengths around 16 with valid keys,
	// deterministically, in several placements (alone, first, middle, last, inside a second / third group)
	{
		type kv struct{ k, iv int }
		var sizes []kv
		for k := 0; k <= 40; k++ {
			sizes = append(sizes, kv{k, 16})
		}
		for _, k := range []int{48, 56, 64} {
			sizes = append(sizes, kv{k, 16})
		}
		for _, k := range []int{8, 16, 24, 32} {
			for _, iv := range []int{0, 1, 8, 15, 17, 24, 32} {
				sizes = append(sizes, kv{k, iv})
			}
		}
		for _, z := range sizes {
			a := SB("AES", nil, pat(z.k, 3, 5), pat(z.iv, 9, 1))
			h, t, j := SB("Host", nil, lit("h:1")), S("Bit", 0xC0), S("Jitter", 7)
			for _, g := range [][][]Spec{{{a}}, {{a, h, t}}, {{h, a, t}}, {{h, t, a}}, {{h, t}, {j, a, S("Bit", 0xC2)}}, {{h, a}, {h, t}, {a}}} {
				run(Case{Focus: "aes-size", Groups: g}, "aes-sizes")
			}
		}
	}

	// 1b. aliasing histories: Setting values shared between live Configs (single-setting Pack, then Add / AddGroup,
	// interleaved), evaluated only after every config is complete
	{
		fr := func(s Spec) Item { return Item{Shared: -1, Spec: &s} }
		runAlias(History{Shared: []Spec{SB("Host", nil, lit("127.0.0.1:8085"))}, Confs: []HConf{
			{First: 0, Ops: []Op{{Kind: "add", Items: []Item{fr(S("Bit", 0xC0)), fr(S("Jitter", 10)), fr(S("Bit", 0xD0))}}}},
			{First: 0, Ops: []Op{{Kind: "add", Items: []Item{fr(S("Bit", 0xC2)), fr(S("Jitter", 70)), fr(S("Bit", 0xD3))}}}},
		}}, "regression")
		na := 150
		if thorough {
			na = 4000
		}
		for i := 0; i < na; i++ {
			runAlias(aliasHistory(rng), "alias-history")
		}
	}
	// 2. every family x every length of the grid x prefixes that make the offset arithmetic carry
	for _, f := range families() {
		for _, L := range grid {
			if L > f.max {
				continue
			}
			offs := []int{0, 9, 4 + rng.Intn(297)}
			// the setting's own header is 3..8 bytes: choose prefixes so that (offset + header + low byte) crosses 256
			for _, h := range []int{3, 4, 6, 8} {
				o := (256 - ((L & 0xFF) + h) + 256) % 256
				if o == 5 || (o > 0 && o < 4) {
					o += 256
				}
				if o != 2 {
					offs = append(offs, o)
				}
				if !thorough {
					break
				}
			}
			offs = append(offs, 255, 256, 257)
			if L >= 65534 && !thorough {
				offs = []int{255}
				if f.name == "host" || f.name == "xor" || f.name == "tlsca" {
					offs = []int{4 + rng.Intn(297), 255}
				}
			}
			seen := map[int]bool{}
			for _, o := range offs {
				if seen[o] {
					continue
				}
				seen[o] = true
				g := append(append(prefix(o), f.mk(L)), tail(f)...)
				run(Case{Focus: f.name, Groups: [][]Spec{g}}, "family-grid")
			}
		}
	}
	// 3. sweep: hosts of 255 / 256 / 511 bytes after every prefix length (every value of offset + low byte)
	step := 3
	if thorough {
		step = 1
	}
	for _, L := range []int{255, 256, 511} {
		for o := 0; o <= 300; o += step {
			if o == 1 || o == 3 {
				continue
			}
			g := append(append(prefix(o), SB("Host", nil, pat(L, 'h', 1))), S("Bit", 0xC2), S("Jitter", 11))
			run(Case{Focus: "host", Groups: [][]Spec{g}}, "offset-sweep")
		}
	}
	if thorough {
		for _, f := range families() {
			if f.name == "host" {
				continue
			}
			for _, L := range []int{255, 256} {
				if L > f.max {
					continue
				}
				for o := 0; o <= 300; o++ {
					if o == 1 || o == 3 {
						continue
					}
					run(Case{Focus: f.name, Groups: [][]Spec{append(append(prefix(o), f.mk(L)), tail(f)...)}}, "offset-sweep")
				}
			}
		}
	}
	// 4. random groups in the documented domain: 1..5 groups, every selector
	ng := 500
	if thorough {
		ng = 12000
	}
	for i := 0; i < ng; i++ {
		var cs Case
		cs.Focus, cs.UseP = "mix", rng.Bool()
		for g, n := 0, 1+rng.Intn(5); g < n; g++ {
			cs.Groups = append(cs.Groups, goodGroup(rng, 1+rng.Intn(7)))
		}
		run(cs, "random-domain")
	}
	// 5. random groups, arguments possibly outside their domain, nil settings, separators as settings
	nb := 300
	if thorough {
		nb = 8000
	}
	for i := 0; i < nb; i++ {
		var cs Case
		cs.Focus, cs.UseP = "any", rng.Bool()
		for g, n := 0, 1+rng.Intn(4); g < n; g++ {
			var gr []Spec
			for k, m := 0, rng.Intn(7); k < m; k++ {
				if rng.Intn(25) == 0 {
					gr = append(gr, S("Bit", 0xFA))
				} else {
					gr = append(gr, randSetting(rng, rng.Intn(40) == 0))
				}
			}
			cs.Groups = append(cs.Groups, gr)
		}
		run(cs, "random-any")
	}
	out.Finish()
}
