// Package vh holds what every property harness shares: one PRNG, Coq term printing, the
// sharded cases.v writer and the meta.json the orchestrator reads.
package vh

import (
	"bufio"
	"crypto/sha1"
	"encoding/hex"
	"encoding/json"
	"flag"
	"fmt"
	"os"
	"path/filepath"
	"sort"
	"strconv"
	"strings"
)

// ---------------------------------------------------------------- PRNG (splitmix64)

type Rand struct{ s uint64 }

// NewRand: the seed goes through the splitmix64 finaliser first, so that consecutive seeds give
// unrelated streams (seed*golden+c made seed+1 the stream of seed shifted by one draw).
func NewRand(seed uint64) *Rand {
	z := seed + 0x9E3779B97F4A7C15
	z = (z ^ (z >> 30)) * 0xBF58476D1CE4E5B9
	z = (z ^ (z >> 27)) * 0x94D049BB133111EB
	return &Rand{s: z ^ (z >> 31)}
}
func (r *Rand) U64() uint64 {
	r.s += 0x9E3779B97F4A7C15
	z := r.s
	z = (z ^ (z >> 30)) * 0xBF58476D1CE4E5B9
	z = (z ^ (z >> 27)) * 0x94D049BB133111EB
	return z ^ (z >> 31)
}
func (r *Rand) Intn(n int) int {
	if n <= 0 {
		return 0
	}
	return int(r.U64() % uint64(n))
}
func (r *Rand) Bool() bool { return r.U64()&1 == 1 }
func (r *Rand) Bytes(n int) []byte {
	b := make([]byte, n)
	for i := range b {
		b[i] = byte(r.U64())
	}
	return b
}
func (r *Rand) Pick(xs []int) int { return xs[r.Intn(len(xs))] }

// ---------------------------------------------------------------- Coq terms

func Z(v int64) string {
	if v < 0 {
		return "(" + strconv.FormatInt(v, 10) + ")"
	}
	return strconv.FormatInt(v, 10)
}
func ZU(v uint64) string { return strconv.FormatUint(v, 10) }
func B(b bool) string {
	if b {
		return "true"
	}
	return "false"
}
func ZList64(v []int64) string {
	var sb strings.Builder
	sb.WriteByte('[')
	for i, x := range v {
		if i > 0 {
			sb.WriteByte(';')
		}
		sb.WriteString(Z(x))
	}
	sb.WriteByte(']')
	return sb.String()
}
func Bytes(v []byte) string {
	var sb strings.Builder
	sb.WriteByte('[')
	for i, x := range v {
		if i > 0 {
			sb.WriteByte(';')
		}
		sb.WriteString(strconv.Itoa(int(x)))
	}
	sb.WriteByte(']')
	return sb.String()
}
func Str(s string) string { return Bytes([]byte(s)) }
func List(items []string) string { return "[" + strings.Join(items, ";") + "]" }
func Some(s string) string     { return "(Some " + s + ")" }

// Res prints a res value: class 0 = Ok payload, 1 = Err code, 2 = Panic.
func ResOk(payload string) string { return "(Ok " + payload + ")" }
func ResErr(code int) string     { return "(Err " + strconv.Itoa(code) + ")" }
func ResPanic() string           { return "Panic" }

// ---------------------------------------------------------------- output

type OracleFailure struct {
	What string      `json:"what"`
	Case interface{} `json:"case"`
	Key  string      `json:"key,omitempty"` // matcher key for known findings
}

type Out struct {
	Prop      string
	Dir       string
	Seed      uint64
	Tier      string
	Imports   string // e.g. "From XMT Require Import Base.Prelude Model.Utf16."
	CaseType  string // e.g. "case"
	CheckFn   string // e.g. "check"
	ShardSize int
	Rule      string

	n          int
	shard      int
	inShard    int
	w          *bufio.Writer
	f          *os.File
	idx        *bufio.Writer
	idxF       *os.File
	seen       map[[20]byte]struct{}
	nontrivial int
	dist       map[string]int
	samples    []interface{}
	failures   []OracleFailure
	shards     []string
	notes      []string
	extra      map[string]interface{}
}

type Flags struct {
	Seed   uint64
	Tier   string
	Out    string
	Replay string
}

func ParseFlags() Flags {
	var f Flags
	flag.Uint64Var(&f.Seed, "seed", 1, "PRNG seed")
	flag.StringVar(&f.Tier, "tier", "quick", "quick|thorough")
	flag.StringVar(&f.Out, "out", "", "output directory")
	flag.StringVar(&f.Replay, "replay", "", "replay file")
	flag.Parse()
	if f.Out == "" {
		fmt.Fprintln(os.Stderr, "missing -out")
		os.Exit(2)
	}
	return f
}

func NewOut(prop string, fl Flags, imports, caseType, checkFn, rule string) *Out {
	o := &Out{Prop: prop, Dir: fl.Out, Seed: fl.Seed, Tier: fl.Tier, Imports: imports, CaseType: caseType,
		CheckFn: checkFn, ShardSize: 400, Rule: rule, seen: map[[20]byte]struct{}{}, dist: map[string]int{}, failures: []OracleFailure{}, notes: []string{}, samples: []interface{}{},
		extra: map[string]interface{}{}}
	os.MkdirAll(o.Dir, 0o755)
	var err error
	o.idxF, err = os.Create(filepath.Join(o.Dir, "cases.jsonl"))
	if err != nil {
		panic(err)
	}
	o.idx = bufio.NewWriterSize(o.idxF, 1<<20)
	return o
}

func (o *Out) openShard() {
	name := fmt.Sprintf("cases_%03d.v", o.shard)
	var err error
	o.f, err = os.Create(filepath.Join(o.Dir, name))
	if err != nil {
		panic(err)
	}
	o.w = bufio.NewWriterSize(o.f, 1<<20)
	fmt.Fprintf(o.w, "%s\nDefinition cases : list %s := [\n", o.Imports, o.CaseType)
	o.shards = append(o.shards, name)
	o.inShard = 0
}
func (o *Out) closeShard() {
	if o.w == nil {
		return
	}
	fmt.Fprintf(o.w, "\n].\nDefinition bad := Eval vm_compute in bad_cases %s cases.\nPrint bad.\n", o.CheckFn)
	o.w.Flush()
	o.f.Close()
	o.w, o.f = nil, nil
	o.shard++
}

// Add records one correspondence case: term is the Coq value of type CaseType, class is a
// label for the input distribution, nontrivial says whether the case is non-trivial by Rule,
// desc is a JSON-able human description (kept for replays and samples).
func (o *Out) Add(term, class string, nontrivial bool, desc interface{}) {
	if o.w == nil {
		o.openShard()
	}
	if o.inShard > 0 {
		o.w.WriteString(";\n")
	}
	o.w.WriteString(term)
	h := sha1.Sum([]byte(term))
	if _, ok := o.seen[h]; !ok {
		o.seen[h] = struct{}{}
		if nontrivial {
			o.nontrivial++
		}
	}
	o.dist[class]++
	if len(o.samples) < 6 || (o.n%997 == 0 && len(o.samples) < 14) {
		o.samples = append(o.samples, map[string]interface{}{"class": class, "case": desc, "coq": clip(term, 400)})
	}
	rec, _ := json.Marshal(map[string]interface{}{"i": o.n, "shard": o.shards[len(o.shards)-1], "k": o.inShard,
		"class": class, "desc": desc, "coq": clip(term, 20000), "h": hex.EncodeToString(h[:6])})
	o.idx.Write(rec)
	o.idx.WriteByte('\n')
	o.n++
	o.inShard++
	if o.inShard >= o.ShardSize {
		o.closeShard()
	}
}

// Count records an evaluation that is only checked by the Go-side oracle (no model case).
func (o *Out) Count(class string, key string, nontrivial bool) {
	h := sha1.Sum([]byte(class + "|" + key))
	if _, ok := o.seen[h]; !ok {
		o.seen[h] = struct{}{}
		if nontrivial {
			o.nontrivial++
		}
	}
	o.dist[class]++
	o.n++
}

func clip(s string, n int) string {
	if len(s) <= n {
		return s
	}
	return s[:n] + "…"
}

// Fail records a failure of the Go-side oracle: the property itself evaluated on the
// implementation is false on this input.
func (o *Out) Fail(what, key string, c interface{}) {
	if len(o.failures) < 200 {
		o.failures = append(o.failures, OracleFailure{What: what, Case: c, Key: key})
	}
	o.dist["ORACLE-FAIL"]++
}
func (o *Out) Note(s string)                      { o.notes = append(o.notes, s) }
func (o *Out) Extra(k string, v interface{})      { o.extra[k] = v }
func (o *Out) N() int                             { return o.n }

func (o *Out) Finish() {
	o.closeShard()
	o.idx.Flush()
	o.idxF.Close()
	keys := make([]string, 0, len(o.dist))
	for k := range o.dist {
		keys = append(keys, k)
	}
	sort.Strings(keys)
	m := map[string]interface{}{
		"property": o.Prop, "seed": o.Seed, "tier": o.Tier, "evaluations": o.n, "distinct": len(o.seen),
		"distinct_nontrivial": o.nontrivial, "rule": o.Rule, "distribution": o.dist, "samples": o.samples,
		"oracle_failures": o.failures, "shards": o.shards, "notes": o.notes, "extra": o.extra,
	}
	b, _ := json.MarshalIndent(m, "", " ")
	if err := os.WriteFile(filepath.Join(o.Dir, "meta.json"), b, 0o644); err != nil {
		panic(err)
	}
}
