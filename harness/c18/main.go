// C18 harness: task, filter and launcher descriptions.
//
// Descriptions (task.Process, task.DLL, task.Zombie, task.Assembly with their *filter.Filter,
// stand-alone filters behind a pointer and as a value, task.Script entries, man.Sentinel plain and
// behind an AES/DES-CTR launcher file) are generated, encoded with the REAL server-side code
// (Packet() / MarshalStream in c2/task/v_*.go, cmd/filter, man/sentinel.go), decoded with the REAL
// implant-side UnmarshalStream, and every step is compared with the Gallina model (Model/Tasks.v).
//
// Oracle (the property evaluated on the implementation): the decoded description equals the
// encoded one modulo the normalisation of empty filters (nil or attribute-less filter behind a
// pointer -> nil; empty embedded filter value -> zero value), and decoding consumed exactly the
// encoded bytes (trailing bytes are put after every encoding and must be left untouched).
package main

import (
	"bytes"
	"context"
	"crypto/aes"
	"crypto/cipher"
	"crypto/des"
	"crypto/sha1"
	"encoding/hex"
	"fmt"
	"io"
	"strings"
	"time"

	"github.com/iDigitalFlame/xmt/c2/task"
	"github.com/iDigitalFlame/xmt/cmd/filter"
	"github.com/iDigitalFlame/xmt/com"
	"github.com/iDigitalFlame/xmt/data"
	"github.com/iDigitalFlame/xmt/man"

	"verifharness/vh"
)

var out *vh.Out

const (
	kProcess = iota
	kDll
	kZombie
	kAsm
	kFilterPtr
	kFilterVal
	kSentinel
	kScript
)

var kindNames = []string{"process", "dll", "zombie", "assembly", "filter-ptr", "filter-val", "sentinel", "script"}

// ---------------------------------------------------------------- strings

// S is a generated string: literal bytes, or (seed, n) of the generator the model also has.
type S struct {
	b    []byte
	gen  bool
	seed int
}

func genBytes(seed, n int) []byte {
	b := make([]byte, n)
	for i := range b {
		b[i] = byte(seed + 131*i + (i >> 8))
	}
	return b
}
func mkGen(seed, n int) S { return S{b: genBytes(seed, n), gen: true, seed: seed} }
func mkLit(b []byte) S    { return S{b: b} }
func (s S) coq() string {
	if s.gen {
		return fmt.Sprintf("(Gen %d %d)", s.seed, len(s.b))
	}
	return "(Lit " + vh.Bytes(s.b) + ")"
}
func coqList(l []S) string {
	it := make([]string, len(l))
	for i := range l {
		it[i] = l[i].coq()
	}
	return vh.List(it)
}
func lens(l []S) []int {
	r := make([]int, len(l))
	for i := range l {
		r[i] = len(l[i].b)
	}
	if len(r) > 8 {
		return append(r[:8:8], -len(r))
	}
	return r
}

// ck is Model.Tasks.ck: sum_i (n - i) * (b_i + 1)
func ck(b []byte) uint64 {
	var a, s uint64
	for _, x := range b {
		a += uint64(x) + 1
		s += a
	}
	return s
}

type pr func([]byte) string

func prShape(b []byte) string { return fmt.Sprintf("(%d,%d)", len(b), ck(b)) }
func prFull(b []byte) string {
	h := sha1.Sum(b)
	return fmt.Sprintf("(%d,%s)", len(b), hex.EncodeToString(h[:8]))
}

// ---------------------------------------------------------------- descriptions

type fdesc struct {
	pid      uint32
	fb       bool
	se, el   uint8 // 0 Empty, 1 False, 2 True
	ex, inc  []S
	emptyNon bool // empty lists are non-nil empty slices
}
type spdesc struct {
	t     uint8
	path  S
	extra []S
}
type entry struct {
	id uint8
	pl S
}
type desc struct {
	kind                  int
	data                  S
	args                  []S
	dir                   S
	env                   []S
	wait                  bool
	flags                 uint32
	tmo                   int64
	hide                  bool
	user, dom, pass       S
	filt                  *fdesc
	stdin                 S
	path                  S
	fval                  fdesc
	paths                 []spdesc
	rep                   int // > 0: paths[0] repeated rep times
	sflags                uint8
	entries               []entry
	emptyNon              bool
}

func (f *fdesc) coq() string {
	return fmt.Sprintf("(mkFilter %d %s %d %d %s %s)", f.pid, vh.B(f.fb), f.se, f.el, coqList(f.ex), coqList(f.inc))
}
func coqFiltOpt(f *fdesc) string {
	if f == nil {
		return "None"
	}
	return "(Some " + f.coq() + ")"
}
func (p *spdesc) coq() string {
	return fmt.Sprintf("(mkSpath %d %s %s)", p.t, p.path.coq(), coqList(p.extra))
}
func (d *desc) sentCoq() string {
	var ps string
	if d.rep > 0 {
		ps = fmt.Sprintf("(repeat %s (Z.to_nat %d))", d.paths[0].coq(), d.rep)
	} else {
		it := make([]string, len(d.paths))
		for i := range d.paths {
			it[i] = d.paths[i].coq()
		}
		ps = vh.List(it)
	}
	return fmt.Sprintf("(mkSentinel %s %s)", d.fval.coq(), ps)
}
func (d *desc) coq() string {
	switch d.kind {
	case kProcess:
		return fmt.Sprintf("(DProcess (mkProcess %s %s %s %s %d %s %s %s %s %s %s %s))", coqList(d.args), d.dir.coq(), coqList(d.env),
			vh.B(d.wait), d.flags, vh.Z(d.tmo), vh.B(d.hide), d.user.coq(), d.dom.coq(), d.pass.coq(), coqFiltOpt(d.filt), d.stdin.coq())
	case kDll:
		return fmt.Sprintf("(DDll (mkDll %s %s %s %s %s))", d.path.coq(), vh.B(d.wait), vh.Z(d.tmo), coqFiltOpt(d.filt), d.data.coq())
	case kZombie:
		return fmt.Sprintf("(DZombie (mkZombie %s %s %s %s %s %d %s %s %s %s %s %s %s))", d.data.coq(), coqList(d.args), d.dir.coq(), coqList(d.env),
			vh.B(d.wait), d.flags, vh.Z(d.tmo), vh.B(d.hide), d.user.coq(), d.dom.coq(), d.pass.coq(), coqFiltOpt(d.filt), d.stdin.coq())
	case kAsm:
		return fmt.Sprintf("(DAsm (mkAsm %s %s %s %s))", vh.B(d.wait), vh.Z(d.tmo), coqFiltOpt(d.filt), d.data.coq())
	case kFilterPtr:
		return "(DFilterPtr " + coqFiltOpt(d.filt) + ")"
	case kFilterVal:
		return "(DFilterVal " + d.fval.coq() + ")"
	case kSentinel:
		return "(DSentinel " + d.sentCoq() + ")"
	}
	it := make([]string, len(d.entries))
	for i := range d.entries {
		it[i] = fmt.Sprintf("(%d, %s)", d.entries[i].id, d.entries[i].pl.coq())
	}
	return fmt.Sprintf("(DScript %d %s)", d.sflags, vh.List(it))
}

func fsum(f *fdesc) interface{} {
	if f == nil {
		return nil
	}
	return map[string]interface{}{"pid": f.pid, "fallback": f.fb, "session": f.se, "elevated": f.el, "exclude": lens(f.ex), "include": lens(f.inc), "non_nil_empty": f.emptyNon}
}
func (d *desc) summary() map[string]interface{} {
	m := map[string]interface{}{"type": kindNames[d.kind]}
	switch d.kind {
	case kProcess, kZombie:
		m["args"], m["env"], m["dir"], m["wait"], m["hide"], m["flags"], m["timeout"] = lens(d.args), lens(d.env), len(d.dir.b), d.wait, d.hide, d.flags, d.tmo
		m["user"], m["domain"], m["pass"], m["stdin"], m["filter"] = len(d.user.b), len(d.dom.b), len(d.pass.b), len(d.stdin.b), fsum(d.filt)
		if d.kind == kZombie {
			m["data"] = len(d.data.b)
		}
	case kDll:
		m["path"], m["wait"], m["timeout"], m["data"], m["filter"] = len(d.path.b), d.wait, d.tmo, len(d.data.b), fsum(d.filt)
	case kAsm:
		m["wait"], m["timeout"], m["data"], m["filter"] = d.wait, d.tmo, len(d.data.b), fsum(d.filt)
	case kFilterPtr:
		m["filter"] = fsum(d.filt)
	case kFilterVal:
		m["filter"] = fsum(&d.fval)
	case kSentinel:
		m["filter"] = fsum(&d.fval)
		if d.rep > 0 {
			m["paths"] = fmt.Sprintf("%d x kind %d", d.rep, d.paths[0].t)
		} else {
			ps := make([]interface{}, 0, len(d.paths))
			for i := range d.paths {
				if i >= 8 {
					ps = append(ps, fmt.Sprintf("... %d paths", len(d.paths)))
					break
				}
				ps = append(ps, map[string]interface{}{"kind": d.paths[i].t, "path": len(d.paths[i].path.b), "extra": lens(d.paths[i].extra)})
			}
			m["paths"] = ps
		}
	case kScript:
		es := make([]interface{}, len(d.entries))
		for i := range d.entries {
			es[i] = map[string]interface{}{"id": d.entries[i].id, "payload": len(d.entries[i].pl.b)}
		}
		m["flags"], m["entries"] = d.sflags, es
	}
	return m
}

// ---------------------------------------------------------------- real values

func toStrs(l []S, emptyNon bool) []string {
	if len(l) == 0 {
		if emptyNon {
			return []string{}
		}
		return nil
	}
	r := make([]string, len(l))
	for i := range l {
		r[i] = string(l[i].b)
	}
	return r
}
func toBytes(s S, emptyNon bool) []byte {
	if len(s.b) == 0 {
		if emptyNon {
			return []byte{}
		}
		return nil
	}
	return append([]byte(nil), s.b...)
}
func tri(f *filter.Filter, se, el uint8) {
	// only the exported constants exist outside package filter: Empty, False, True
	switch se {
	case 1:
		f.Session = filter.False
	case 2:
		f.Session = filter.True
	}
	switch el {
	case 1:
		f.Elevated = filter.False
	case 2:
		f.Elevated = filter.True
	}
}
func (f *fdesc) real() *filter.Filter {
	if f == nil {
		return nil
	}
	r := &filter.Filter{PID: f.pid, Fallback: f.fb, Exclude: toStrs(f.ex, f.emptyNon), Include: toStrs(f.inc, f.emptyNon)}
	tri(r, f.se, f.el)
	return r
}

// isEmpty is the harness' OWN statement of "empty filter" (not the library's Empty(), which is
// part of what is being checked): no selecting attribute is set.  Fallback is not a selecting
// attribute (filter.Clear: "clears the Filter settings, except for Fallback").
func isEmpty(f *filter.Filter) bool {
	return f == nil || (f.PID == 0 && uint8(f.Session) == 0 && uint8(f.Elevated) == 0 && len(f.Exclude) == 0 && len(f.Include) == 0)
}

// normPtr is the documented normalisation of a filter behind a pointer: nil and empty are both nil.
func normPtr(f *filter.Filter) *filter.Filter {
	if isEmpty(f) {
		return nil
	}
	return f
}
func (d *desc) process() task.Process {
	return task.Process{Args: toStrs(d.args, d.emptyNon), Dir: string(d.dir.b), Env: toStrs(d.env, d.emptyNon), Wait: d.wait, Flags: d.flags,
		Timeout: time.Duration(d.tmo), Hide: d.hide, User: string(d.user.b), Domain: string(d.dom.b), Pass: string(d.pass.b),
		Filter: d.filt.real(), Stdin: toBytes(d.stdin, d.emptyNon)}
}
func (d *desc) dll() task.DLL {
	return task.DLL{Path: string(d.path.b), Wait: d.wait, Timeout: time.Duration(d.tmo), Filter: d.filt.real(), Data: toBytes(d.data, d.emptyNon)}
}
func (d *desc) zombie() task.Zombie {
	return task.Zombie{Data: toBytes(d.data, d.emptyNon), Args: toStrs(d.args, d.emptyNon), Dir: string(d.dir.b), Env: toStrs(d.env, d.emptyNon), Wait: d.wait,
		Flags: d.flags, Timeout: time.Duration(d.tmo), Hide: d.hide, User: string(d.user.b), Domain: string(d.dom.b), Pass: string(d.pass.b),
		Filter: d.filt.real(), Stdin: toBytes(d.stdin, d.emptyNon)}
}
func (d *desc) asm() task.Assembly {
	return task.Assembly{Wait: d.wait, Timeout: time.Duration(d.tmo), Filter: d.filt.real(), Data: toBytes(d.data, d.emptyNon)}
}

// sentinel builds the launcher description through the public API only.
func (d *desc) sentinel() *man.Sentinel {
	s := new(man.Sentinel)
	s.Filter = *d.fval.real()
	add := func(p *spdesc) {
		switch p.t {
		case 0:
			s.AddExecute(string(p.path.b))
		case 1:
			s.AddDLL(string(p.path.b))
		case 2:
			s.AddASM(string(p.path.b))
		case 3:
			s.AddDownload(string(p.path.b), toStrs(p.extra, false)...)
		default:
			s.AddZombie(string(p.path.b), toStrs(p.extra, false)...)
		}
	}
	if d.rep > 0 {
		for i := 0; i < d.rep; i++ {
			add(&d.paths[0])
		}
		return s
	}
	for i := range d.paths {
		add(&d.paths[i])
	}
	return s
}
func (d *desc) script() (*task.Script, error) {
	s := task.NewScript(d.sflags&4 != 0, d.sflags&2 == 0)
	s.Channel(d.sflags&1 != 0)
	for i := range d.entries {
		n := &com.Packet{ID: d.entries[i].id}
		n.Write(d.entries[i].pl.b)
		if err := s.Add(n); err != nil {
			return nil, err
		}
	}
	return s, nil
}

// marshal runs the real MarshalStream of the description on w.
func (d *desc) marshal(w data.Writer) error {
	switch d.kind {
	case kProcess:
		return d.process().MarshalStream(w)
	case kDll:
		return d.dll().MarshalStream(w)
	case kZombie:
		return d.zombie().MarshalStream(w)
	case kAsm:
		return d.asm().MarshalStream(w)
	case kFilterPtr:
		return d.filt.real().MarshalStream(w) // nil receiver when there is no filter
	case kFilterVal:
		return d.fval.real().MarshalStream(w)
	case kSentinel:
		return d.sentinel().MarshalStream(w)
	}
	s, err := d.script()
	if err != nil {
		return err
	}
	n, err := s.Packet()
	if err != nil {
		return err
	}
	_, err = w.Write(n.Payload())
	return err
}

// packet runs the server-side Packet() where the type has one; nil otherwise.
func (d *desc) packet() (*com.Packet, error) {
	switch d.kind {
	case kProcess:
		return d.process().Packet()
	case kDll:
		return d.dll().Packet()
	case kZombie:
		return d.zombie().Packet()
	case kAsm:
		return d.asm().Packet()
	case kScript:
		s, err := d.script()
		if err != nil {
			return nil, err
		}
		return s.Packet()
	}
	return nil, nil
}

// ---------------------------------------------------------------- decode targets

type target struct {
	kind int
	p    task.Process
	d    task.DLL
	z    task.Zombie
	a    task.Assembly
	fp   *filter.Filter
	fv   filter.Filter
	s    man.Sentinel
	sf   uint8
	es   []entry
}

// targetFrom builds the struct a description stands for; norm applies the documented
// normalisation of empty filters (what a decoder is expected to deliver).
func targetFrom(d *desc, norm bool) *target {
	t := &target{kind: d.kind}
	np := func(f *filter.Filter) *filter.Filter {
		if norm {
			return normPtr(f)
		}
		return f
	}
	switch d.kind {
	case kProcess:
		t.p = d.process()
		t.p.Filter = np(t.p.Filter)
	case kDll:
		t.d = d.dll()
		t.d.Filter = np(t.d.Filter)
	case kZombie:
		t.z = d.zombie()
		t.z.Filter = np(t.z.Filter)
	case kAsm:
		t.a = d.asm()
		t.a.Filter = np(t.a.Filter)
	case kFilterPtr:
		t.fp = np(d.filt.real())
	case kFilterVal:
		t.fv = *d.fval.real()
		if norm && isEmpty(&t.fv) {
			t.fv = filter.Filter{}
		}
	case kSentinel:
		t.s = *d.sentinel()
		if norm && isEmpty(&t.s.Filter) {
			t.s.Filter = filter.Filter{}
		}
	case kScript:
		t.sf = d.sflags
		t.es = append([]entry(nil), d.entries...)
	}
	return t
}

func (t *target) unmarshal(r data.Reader) error {
	switch t.kind {
	case kProcess:
		return t.p.UnmarshalStream(r)
	case kDll:
		return t.d.UnmarshalStream(r)
	case kZombie:
		return t.z.UnmarshalStream(r)
	case kAsm:
		return t.a.UnmarshalStream(r)
	case kFilterPtr:
		return filter.UnmarshalStream(r, &t.fp)
	case kFilterVal:
		return t.fv.UnmarshalStream(r)
	case kSentinel:
		return t.s.UnmarshalStream(r)
	}
	// the script framing is read by c2.muxHandleScript, which also RUNS the entries; the
	// harness repeats its reading loop (flag byte, then id + payload until the id read hits EOF)
	// with the real reader primitives
	f, err := r.Uint8()
	if err != nil {
		return err
	}
	t.sf, t.es = f, nil
	for {
		var (
			id uint8
			pl []byte
		)
		if err = r.ReadUint8(&id); err != nil {
			if err == io.EOF {
				return nil
			}
			return err
		}
		if err = r.ReadBytes(&pl); err != nil {
			return err
		}
		t.es = append(t.es, entry{id: id, pl: mkLit(append([]byte(nil), pl...))})
	}
}

func rList(l []string, p pr) string {
	it := make([]string, len(l))
	for i := range l {
		it[i] = p([]byte(l[i]))
	}
	return vh.List(it)
}
func rFilter(f *filter.Filter, p pr) string {
	return fmt.Sprintf("(mkFilter %d %s %d %d %s %s)", f.PID, vh.B(f.Fallback), uint8(f.Session), uint8(f.Elevated), rList(f.Exclude, p), rList(f.Include, p))
}
func rFilterOpt(f *filter.Filter, p pr) string {
	if f == nil {
		return "None"
	}
	return "(Some " + rFilter(f, p) + ")"
}
func rPath(v *man.VerifPath, p pr) string {
	return fmt.Sprintf("(mkSpath %d %s %s)", v.T, p([]byte(v.Path)), rList(v.Extra, p))
}
func (t *target) render(p pr) string {
	switch t.kind {
	case kProcess:
		x := &t.p
		return fmt.Sprintf("(DProcess (mkProcess %s %s %s %s %d %s %s %s %s %s %s %s))", rList(x.Args, p), p([]byte(x.Dir)), rList(x.Env, p), vh.B(x.Wait),
			x.Flags, vh.Z(int64(x.Timeout)), vh.B(x.Hide), p([]byte(x.User)), p([]byte(x.Domain)), p([]byte(x.Pass)), rFilterOpt(x.Filter, p), p(x.Stdin))
	case kDll:
		x := &t.d
		return fmt.Sprintf("(DDll (mkDll %s %s %s %s %s))", p([]byte(x.Path)), vh.B(x.Wait), vh.Z(int64(x.Timeout)), rFilterOpt(x.Filter, p), p(x.Data))
	case kZombie:
		x := &t.z
		return fmt.Sprintf("(DZombie (mkZombie %s %s %s %s %s %d %s %s %s %s %s %s %s))", p(x.Data), rList(x.Args, p), p([]byte(x.Dir)), rList(x.Env, p), vh.B(x.Wait),
			x.Flags, vh.Z(int64(x.Timeout)), vh.B(x.Hide), p([]byte(x.User)), p([]byte(x.Domain)), p([]byte(x.Pass)), rFilterOpt(x.Filter, p), p(x.Stdin))
	case kAsm:
		x := &t.a
		return fmt.Sprintf("(DAsm (mkAsm %s %s %s %s))", vh.B(x.Wait), vh.Z(int64(x.Timeout)), rFilterOpt(x.Filter, p), p(x.Data))
	case kFilterPtr:
		return "(DFilterPtr " + rFilterOpt(t.fp, p) + ")"
	case kFilterVal:
		return "(DFilterVal " + rFilter(&t.fv, p) + ")"
	case kSentinel:
		ps := man.VerifSentinelPaths(&t.s)
		var l string
		if len(ps) > 1000 {
			same := true
			for i := 1; i < len(ps) && same; i++ {
				same = ps[i].T == ps[0].T && ps[i].Path == ps[0].Path && len(ps[i].Extra) == 0 && len(ps[0].Extra) == 0
			}
			if same {
				l = fmt.Sprintf("(repeat %s (Z.to_nat %d))", rPath(&ps[0], p), len(ps))
			}
		}
		if l == "" {
			it := make([]string, len(ps))
			for i := range ps {
				it[i] = rPath(&ps[i], p)
			}
			l = vh.List(it)
		}
		return fmt.Sprintf("(DSentinel (mkSentinel %s %s))", rFilter(&t.s.Filter, p), l)
	}
	it := make([]string, len(t.es))
	for i := range t.es {
		it[i] = fmt.Sprintf("(%d, %s)", t.es[i].id, p(t.es[i].pl.b))
	}
	return fmt.Sprintf("(DScript %d %s)", t.sf, vh.List(it))
}

// ---------------------------------------------------------------- readers

// sreader delivers the given chunks, one (part of a) chunk per Read call.
type sreader struct {
	chunks [][]byte
	pos    int
}

func (s *sreader) Read(p []byte) (int, error) {
	for len(s.chunks) > 0 && len(s.chunks[0]) == 0 {
		s.chunks = s.chunks[1:]
	}
	if len(s.chunks) == 0 {
		return 0, io.EOF
	}
	if len(p) == 0 {
		return 0, nil
	}
	n := copy(p, s.chunks[0])
	s.chunks[0] = s.chunks[0][n:]
	s.pos += n
	return n, nil
}
func split(rng *vh.Rand, b []byte, mode int) [][]byte {
	var r [][]byte
	switch mode {
	case 0:
		if len(b) > 0 {
			r = append(r, b)
		}
	case 1:
		for i := range b {
			if i >= 3000 {
				r = append(r, b[i:])
				break
			}
			r = append(r, b[i:i+1])
		}
	default:
		for len(b) > 0 {
			n := 1 + rng.Intn(40)
			if rng.Intn(4) == 0 {
				n = 1 + rng.Intn(700)
			}
			if n > len(b) {
				n = len(b)
			}
			r = append(r, b[:n])
			b = b[n:]
		}
	}
	return r
}

type decRes struct {
	t      *target
	err    error
	panicv bool
	left   int
}

func (r *decRes) coq() string {
	switch {
	case r.panicv:
		return "Panic"
	case r.err != nil:
		return vh.ResErr(errCode(r.err))
	}
	return fmt.Sprintf("(Ok (%s, %d))", r.t.render(prShape), r.left)
}
func errCode(err error) int {
	switch err {
	case io.EOF:
		return 1
	case io.ErrUnexpectedEOF:
		return 2
	case data.ErrInvalidType:
		return 3
	case data.ErrTooLarge:
		return 4
	}
	return 99
}

// decode runs the real UnmarshalStream on input: from a com.Packet (what the implant's task
// handler is given) or from data.NewReader over a reader delivering chunks.
func decode(t *target, input []byte, chunks [][]byte) (res decRes) {
	res.t = t
	defer func() {
		if x := recover(); x != nil {
			res.panicv = true
		}
	}()
	if chunks == nil {
		n := &com.Packet{}
		n.Write(input)
		res.err = t.unmarshal(n)
		res.left = n.Remaining()
		return res
	}
	sr := &sreader{chunks: chunks}
	res.err = t.unmarshal(data.NewReader(sr))
	res.left = len(input) - sr.pos
	return res
}

func obs(b []byte) string {
	if len(b) <= 200 {
		return "(OBytes " + vh.Bytes(b) + ")"
	}
	return fmt.Sprintf("(OSum %d %d)", len(b), ck(b))
}

// encode runs both real writers; returns the bytes of the in-memory writer (a com.Packet).
func encode(d *desc, dd map[string]interface{}) ([]byte, bool) {
	var (
		n   com.Packet
		buf bytes.Buffer
		e1  = d.marshal(&n)
		e2  = d.marshal(data.NewWriter(&buf))
	)
	if e1 != nil || e2 != nil {
		out.Fail("encoding a description the server can build returned an error", kindNames[d.kind]+"/encode-error", dd)
		return nil, false
	}
	b := append([]byte(nil), n.Payload()...)
	if !bytes.Equal(b, buf.Bytes()) {
		out.Fail("MarshalStream writes different bytes to a Packet and to a stream writer", kindNames[d.kind]+"/writers-differ", dd)
	}
	if p, err := d.packet(); err != nil {
		out.Fail("Packet() returned an error", kindNames[d.kind]+"/packet-error", dd)
		return nil, false
	} else if p != nil && !bytes.Equal(p.Payload(), b) {
		out.Fail("Packet() payload differs from MarshalStream", kindNames[d.kind]+"/packet-differs", dd)
	}
	return b, true
}

func nontrivial(d *desc) bool {
	switch d.kind {
	case kProcess, kZombie:
		return len(d.args)+len(d.env) > 0 || d.filt != nil
	case kDll, kAsm:
		return len(d.data.b) > 0 || d.filt != nil
	case kFilterPtr:
		return d.filt != nil
	case kSentinel:
		return len(d.paths) > 0
	case kScript:
		return len(d.entries) > 0
	}
	return true
}

func failKey(d *desc, what string) string {
	if d.kind == kSentinel && (d.rep > 65535 || len(d.paths) > 65535) {
		return "sentinel/paths>65535"
	}
	return kindNames[d.kind] + "/" + what
}

// judge evaluates the property on one decode of enc(d) ++ rest.
func judge(d *desc, r *decRes, want *target, nrest int, via string, dd map[string]interface{}) {
	switch {
	case r.panicv:
		out.Fail("decoding a valid encoding panicked ("+via+")", failKey(d, "decode-panic"), dd)
	case r.err != nil:
		dd["error"] = r.err.Error()
		out.Fail("decoding a valid encoding failed ("+via+")", failKey(d, "decode-error"), dd)
	default:
		if got, exp := r.t.render(prFull), want.render(prFull); got != exp {
			dd["decoded"], dd["expected"] = clip(got), clip(exp)
			out.Fail("the decoded description differs from the encoded one beyond the normalisation of empty filters ("+via+")", failKey(d, "decoded-differs"), dd)
		} else if r.left != nrest {
			dd["left"], dd["trailing"] = r.left, nrest
			out.Fail("decoding did not consume exactly the encoded bytes ("+via+")", failKey(d, "consumption"), dd)
		}
	}
}
func clip(s string) string {
	if len(s) > 600 {
		return s[:600] + "..."
	}
	return s
}

// round: encode d, decode enc ++ rest into a fresh value with both readers, emit the case.
func round(rng *vh.Rand, d *desc, class string) { roundOpt(rng, d, class, true) }

// roundOpt with model = false evaluates only the Go-side oracle (the description is too long for
// the model's reader, whose length test makes decoding n paths quadratic inside Coq).
func roundOpt(rng *vh.Rand, d *desc, class string, model bool) {
	dd := d.summary()
	enc, ok := encode(d, dd)
	if !ok {
		return
	}
	var rest []byte
	if d.kind != kScript { // a script is read to the end of its packet
		rest = rng.Bytes(1 + rng.Intn(4))
		if rng.Intn(8) == 0 {
			rest = nil
		}
	}
	dd["encoded_len"], dd["trailing"] = len(enc), len(rest)
	if f := d.filt.real(); f.Empty() != isEmpty(f) {
		out.Fail("Filter.Empty() disagrees with 'no selecting attribute is set'", "filter/empty-predicate", dd)
	}
	input := append(append([]byte(nil), enc...), rest...)
	want := targetFrom(d, true)
	r1 := decode(&target{kind: d.kind}, input, nil)
	judge(d, &r1, want, len(rest), "Packet reader", dd)
	term := fmt.Sprintf("CRound %s %s %s %s", d.coq(), vh.Bytes(rest), obs(enc), r1.coq())
	if model {
		out.Add(term, "round/"+class, nontrivial(d), dd)
	} else {
		out.Count("round-oracle-only/"+class, term, nontrivial(d))
	}
	mode := rng.Intn(3)
	if len(input) > 20000 && mode == 1 {
		mode = 2
	}
	r2 := decode(&target{kind: d.kind}, input, split(rng, input, mode))
	judge(d, &r2, want, len(rest), "stream reader", dd)
	if c2 := r2.coq(); c2 != r1.coq() && model {
		out.Add(fmt.Sprintf("CRound %s %s %s %s", d.coq(), vh.Bytes(rest), obs(enc), c2), "round-stream-reader-differs/"+class, true, dd)
	} else {
		out.Count("round-stream-reader/"+class, term, nontrivial(d))
	}
	// the *Unmarshal entry points that have no side effects (nothing is started)
	switch d.kind {
	case kProcess:
		if len(d.args) > 0 {
			func() {
				defer func() {
					if recover() != nil {
						out.Fail("ProcessUnmarshal panicked", "process/unmarshal-panic", dd)
					}
				}()
				n := &com.Packet{}
				n.Write(input)
				v, w, err := task.ProcessUnmarshal(context.Background(), n)
				special := len(d.args[0].b) == 7 && d.args[0].b[0] == '@' && d.args[0].b[6] == '@'
				if err != nil || w != d.wait || v.Dir != string(d.dir.b) || int64(v.Timeout) != d.tmo || !sameStrs(v.Env, d.env) || (!special && !sameStrs(v.Args, d.args)) {
					out.Fail("ProcessUnmarshal delivers a different command than the one encoded", "process/unmarshal-differs", dd)
				}
				out.Count("process-unmarshal", term, true)
			}()
		}
	case kAsm:
		if len(d.data.b) > 0 {
			func() {
				defer func() {
					if recover() != nil {
						out.Fail("AssemblyUnmarshal panicked", "assembly/unmarshal-panic", dd)
					}
				}()
				n := &com.Packet{}
				n.Write(input)
				v, w, err := task.AssemblyUnmarshal(context.Background(), n)
				if err != nil || w != d.wait || !bytes.Equal(v.Data, d.data.b) || int64(v.Timeout) != d.tmo {
					out.Fail("AssemblyUnmarshal delivers a different payload than the one encoded", "assembly/unmarshal-differs", dd)
				}
				out.Count("assembly-unmarshal", term, true)
			}()
		}
	}
}
func sameStrs(a []string, b []S) bool {
	if len(a) != len(b) {
		return false
	}
	for i := range a {
		if a[i] != string(b[i].b) {
			return false
		}
	}
	return true
}

// into: decode enc(d) ++ rest into a value pre-populated from old (correspondence only: the
// property speaks about decoding into a fresh value).
func into(rng *vh.Rand, old, d *desc) {
	dd := map[string]interface{}{"old": old.summary(), "new": d.summary()}
	enc, ok := encode(d, dd)
	if !ok {
		return
	}
	rest := rng.Bytes(rng.Intn(3))
	input := append(append([]byte(nil), enc...), rest...)
	var r decRes
	if rng.Bool() {
		r = decode(targetFrom(old, false), input, nil)
	} else {
		r = decode(targetFrom(old, false), input, split(rng, input, 2))
	}
	out.Add(fmt.Sprintf("CInto %s %s %s %s", old.coq(), d.coq(), vh.Bytes(rest), r.coq()), "into-populated/"+kindNames[d.kind], true, dd)
}

func hasWide(b []byte) bool { return bytes.IndexAny(b, "\x05\x06\x07\x08") >= 0 }

// raw: arbitrary bytes decoded into a fresh value.  Inputs never contain the class bytes 5..8
// (32/64-bit counts: a forged count there makes ReadStringList allocate gigabytes, which is
// C04's subject and would take the harness down).
func raw(rng *vh.Rand, kind int, input []byte, class string) {
	if hasWide(input) || kind == kScript {
		return
	}
	ints := make([]int, len(input))
	for i := range input {
		ints[i] = int(input[i])
	}
	dd := map[string]interface{}{"type": kindNames[kind], "input": ints}
	var r decRes
	if rng.Intn(3) > 0 {
		r = decode(&target{kind: kind}, input, nil)
	} else {
		r = decode(&target{kind: kind}, input, split(rng, input, 2))
		dd["stream"] = true
	}
	out.Add(fmt.Sprintf("CRaw %s %s %s", zeroDesc(kind).coq(), vh.Bytes(input), r.coq()), class+"/"+kindNames[kind], true, dd)
}
func zeroDesc(kind int) *desc { return &desc{kind: kind} }

// ---------------------------------------------------------------- launcher files

type blockAlg struct {
	name string
	c    cipher.Block
}

func mkCipher(rng *vh.Rand, which int) blockAlg {
	switch which {
	case 0, 1, 2:
		k := rng.Bytes(16 + 8*which)
		c, err := aes.NewCipher(k)
		if err != nil {
			panic(err)
		}
		return blockAlg{fmt.Sprintf("aes-%d", 128+64*which), c}
	case 3:
		c, err := des.NewCipher(rng.Bytes(8))
		if err != nil {
			panic(err)
		}
		return blockAlg{"des", c}
	}
	c, err := des.NewTripleDESCipher(rng.Bytes(24))
	if err != nil {
		panic(err)
	}
	return blockAlg{"3des", c}
}
func ctrInc(c []byte) {
	for i := len(c) - 1; i >= 0; i-- {
		c[i]++
		if c[i] != 0 {
			return
		}
	}
}

// ctrTable is the block function as observed: (counter, E(counter)) for the n counters from iv.
func ctrTable(c cipher.Block, iv []byte, n int) string {
	ctr := append([]byte(nil), iv...)
	it := make([]string, n)
	blk := make([]byte, c.BlockSize())
	for i := 0; i < n; i++ {
		c.Encrypt(blk, ctr)
		it[i] = "(" + vh.Bytes(ctr) + "," + vh.Bytes(blk) + ")"
		ctrInc(ctr)
	}
	return vh.List(it)
}
func chunksCoq(cs [][]byte) string {
	it := make([]string, len(cs))
	for i := range cs {
		it[i] = vh.Bytes(cs[i])
	}
	return vh.List(it)
}
func copyChunks(cs [][]byte) [][]byte { return append([][]byte(nil), cs...) }

func sentRead(c cipher.Block, r io.Reader) (res decRes) {
	res.t = &target{kind: kSentinel}
	defer func() {
		if x := recover(); x != nil {
			res.panicv = true
		}
	}()
	res.err = res.t.s.Read(c, r)
	return res
}

// file: Sentinel.Write with a cipher, Sentinel.Read of the result from a buffer and from split
// readers (with and without trailing bytes).
func file(rng *vh.Rand, d *desc, alg blockAlg) {
	dd := d.summary()
	dd["cipher"] = alg.name
	bs := alg.c.BlockSize()
	var (
		buf bytes.Buffer
		err error
	)
	func() {
		defer func() {
			if recover() != nil {
				err = io.ErrClosedPipe
			}
		}()
		err = d.sentinel().Write(alg.c, &buf)
	}()
	if err != nil {
		out.Fail("Sentinel.Write failed", "sentinel-file/write-error", dd)
		return
	}
	f := append([]byte(nil), buf.Bytes()...)
	if len(f) < bs {
		out.Fail("Sentinel.Write wrote less than the IV", "sentinel-file/short", dd)
		return
	}
	dd["file_len"] = len(f)
	iv := f[:bs]
	want := targetFrom(d, true)
	br := bytes.NewReader(f)
	r := sentRead(alg.c, br)
	r.left = br.Len()
	judge(d, &r, want, 0, "Sentinel.Read from a buffer, "+alg.name, dd)
	tab := ctrTable(alg.c, iv, (len(f)-bs)/bs+1)
	out.Add(fmt.Sprintf("CFile %s %s %s %s %s", tab, vh.Bytes(iv), d.sentCoq(), obs(f), r.coq()), "file/"+alg.name, true, dd)
	if len(f) > 700 {
		return
	}
	// split readers; trailing bytes after the file
	for v := 0; v < 4; v++ {
		extra := 0
		var cs [][]byte
		all := f
		switch v {
		case 0: // first delivery is exactly the IV, then small pieces
			cs = append([][]byte{f[:bs]}, split(rng, f[bs:], 2)...)
		case 1: // first delivery longer than the IV, trailing bytes
			extra = 1 + rng.Intn(5)
			all = append(append([]byte(nil), f...), rng.Bytes(extra)...)
			k := bs + 1 + rng.Intn(len(all)-bs)
			cs = append([][]byte{all[:k]}, split(rng, all[k:], 2)...)
		case 2: // first delivery SHORTER than the IV: Sentinel.Read asks for the IV with one Read
			cs = append([][]byte{f[:1+rng.Intn(bs-1)]}, nil...)
			cs = append(cs, f[len(cs[0]):])
		case 3: // byte by byte
			cs = split(rng, f, 1)
		}
		d2 := map[string]interface{}{"description": dd, "variant": []string{"iv-then-pieces", "long-first+trailing", "short-first", "byte-by-byte"}[v], "first_chunk": len(cs[0])}
		sr := &sreader{chunks: copyChunks(cs)}
		r := sentRead(alg.c, sr)
		r.left = len(all) - sr.pos
		if len(cs[0]) >= bs {
			judge(d, &r, want, extra, "Sentinel.Read from a split reader, "+alg.name, d2)
		}
		t2 := "[]"
		if len(cs[0]) >= bs {
			t2 = ctrTable(alg.c, iv, (len(all)-bs)/bs+1)
		}
		cl := "file-split-reader/"
		if len(cs[0]) < bs {
			cl = "file-split-reader-short-iv-read/"
		}
		out.Add(fmt.Sprintf("CFileSrc %s %d %s %s", t2, bs, chunksCoq(cs), r.coq()), cl+alg.name, true, d2)
	}
}

// ctr: one pass of the real crypto/cipher CTR stream against the model's keystream.
func ctr(rng *vh.Rand, alg blockAlg, iv []byte, n int) {
	dat := rng.Bytes(n)
	dst := make([]byte, n)
	cipher.NewCTR(alg.c, iv).XORKeyStream(dst, dat)
	bs := alg.c.BlockSize()
	iv2 := make([]int, len(iv))
	for i := range iv {
		iv2[i] = int(iv[i])
	}
	out.Add(fmt.Sprintf("CCtr %s %s %s %s", ctrTable(alg.c, iv, n/bs+1), vh.Bytes(iv), vh.Bytes(dat), vh.Bytes(dst)), "ctr-stream/"+alg.name, n > 0,
		map[string]interface{}{"cipher": alg.name, "iv": iv2, "len": n})
	back := make([]byte, n)
	cipher.NewCTR(alg.c, iv).XORKeyStream(back, dst)
	if !bytes.Equal(back, dat) {
		out.Fail("CTR stream is not an involution", "ctr/involution", map[string]interface{}{"cipher": alg.name, "len": n})
	}
}

// ---------------------------------------------------------------- generators

var strGrid = []int{0, 1, 2, 127, 128, 255, 256, 257}
var bigGrid = []int{65535, 65536, 65537}
var cntGrid = []int{0, 1, 2, 255, 256, 300}

// safe: generate values whose encodings avoid the bytes 5..8 (bases for the malformed group)
var safe bool

func rstr(rng *vh.Rand, n int) S {
	if safe {
		if n >= 5 && n <= 8 {
			n = 9
		}
		b := make([]byte, n)
		for i := range b {
			b[i] = byte('a' + rng.Intn(26))
		}
		return mkLit(b)
	}
	if n <= 12 && rng.Bool() {
		return mkLit(rng.Bytes(n))
	}
	return mkGen(rng.Intn(256), n)
}
func rlen(rng *vh.Rand) int {
	if safe {
		return []int{0, 1, 2, 3, 4, 9, 10, 12}[rng.Intn(8)]
	}
	switch rng.Intn(6) {
	case 0:
		return 0
	case 1, 2:
		return strGrid[rng.Intn(len(strGrid))]
	}
	return rng.Intn(24)
}
func rlist(rng *vh.Rand, n int) []S {
	l := make([]S, n)
	for i := range l {
		switch {
		case n > 16:
			l[i] = rstr(rng, rng.Intn(4))
		default:
			l[i] = rstr(rng, rlen(rng))
		}
	}
	return l
}
func rcnt(rng *vh.Rand) int {
	if safe {
		return rng.Intn(4)
	}
	if rng.Intn(10) == 0 {
		return cntGrid[rng.Intn(len(cntGrid))]
	}
	return rng.Intn(4)
}
func rfilter(rng *vh.Rand) *fdesc {
	switch rng.Intn(6) {
	case 0:
		return nil
	case 1:
		return &fdesc{emptyNon: rng.Bool(), fb: rng.Bool()} // empty (Fallback is not looked at)
	}
	f := &fdesc{fb: rng.Bool(), se: uint8(rng.Intn(3)), el: uint8(rng.Intn(3))}
	switch rng.Intn(4) {
	case 0:
		f.pid = uint32(rng.U64())
	case 1:
		f.pid = uint32(rng.Intn(70000))
	}
	if safe {
		f.pid = []uint32{0, 1, 300}[rng.Intn(3)]
	}
	if rng.Bool() {
		f.ex = rlist(rng, rcnt(rng))
	}
	if rng.Bool() {
		f.inc = rlist(rng, rcnt(rng))
	}
	return f
}
func rtmo(rng *vh.Rand) int64 {
	if safe {
		return []int64{0, -1, 1000}[rng.Intn(3)]
	}
	switch rng.Intn(6) {
	case 0:
		return 0
	case 1:
		return -1
	case 2:
		return int64(time.Second) * int64(rng.Intn(7200))
	case 3:
		return -1 << 63
	case 4:
		return 1<<63 - 1
	}
	return int64(rng.U64())
}
func rflags(rng *vh.Rand) uint32 {
	if safe {
		return []uint32{0, 1, 16}[rng.Intn(3)]
	}
	switch rng.Intn(4) {
	case 0:
		return 0
	case 1:
		return 0xFFFFFFFF
	case 2:
		return 1 << uint(rng.Intn(32))
	}
	return uint32(rng.U64())
}
func rdesc(rng *vh.Rand, kind int) *desc {
	d := &desc{kind: kind, emptyNon: rng.Intn(4) == 0}
	switch kind {
	case kProcess, kZombie:
		d.args, d.env = rlist(rng, rcnt(rng)), rlist(rng, rcnt(rng))
		d.dir, d.user, d.dom, d.pass, d.stdin = rstr(rng, rlen(rng)), rstr(rng, rlen(rng)), rstr(rng, rlen(rng)), rstr(rng, rlen(rng)), rstr(rng, rlen(rng))
		d.wait, d.hide, d.flags, d.tmo, d.filt = rng.Bool(), rng.Bool(), rflags(rng), rtmo(rng), rfilter(rng)
		if kind == kZombie {
			d.data = rstr(rng, rlen(rng)*3)
		}
	case kDll:
		d.path, d.data, d.wait, d.tmo, d.filt = rstr(rng, rlen(rng)), rstr(rng, rlen(rng)*3), rng.Bool(), rtmo(rng), rfilter(rng)
	case kAsm:
		d.data, d.wait, d.tmo, d.filt = rstr(rng, rlen(rng)*3), rng.Bool(), rtmo(rng), rfilter(rng)
	case kFilterPtr:
		d.filt = rfilter(rng)
	case kFilterVal:
		f := rfilter(rng)
		if f == nil {
			f = &fdesc{}
		}
		d.fval = *f
	case kSentinel:
		f := rfilter(rng)
		if f == nil {
			f = &fdesc{}
		}
		d.fval = *f
		n := rng.Intn(7)
		for i := 0; i < n; i++ {
			d.paths = append(d.paths, rpath(rng, uint8(rng.Intn(5))))
		}
	case kScript:
		d.sflags = uint8(rng.Intn(8))
		n := 1 + rng.Intn(5)
		for i := 0; i < n; i++ {
			d.entries = append(d.entries, rentry(rng))
		}
	}
	return d
}
func rpath(rng *vh.Rand, t uint8) spdesc {
	p := spdesc{t: t, path: rstr(rng, rlen(rng))}
	if t >= 3 {
		p.extra = rlist(rng, rcnt(rng))
	}
	return p
}
func rentry(rng *vh.Rand) entry {
	id := uint8(7 + rng.Intn(249))
	for id == task.MvScript {
		id = uint8(7 + rng.Intn(249))
	}
	if rng.Intn(3) == 0 {
		// a real task as the entry: its Packet() payload
		k := []int{kProcess, kDll, kZombie, kAsm}[rng.Intn(4)]
		var n *com.Packet
		for n == nil || n.Size() > 900 {
			n, _ = rdesc(rng, k).packet()
		}
		return entry{id: n.ID, pl: mkLit(append([]byte(nil), n.Payload()...))}
	}
	return entry{id: id, pl: rstr(rng, rlen(rng))}
}

// the nine filter shapes: nil, zero, Fallback only (still empty), one field each, full
func filterShapes() []*fdesc {
	return []*fdesc{nil, {}, {emptyNon: true}, {fb: true}, {pid: 4321}, {se: 1}, {el: 2}, {ex: []S{mkLit([]byte("lsass.exe"))}}, {inc: []S{mkLit([]byte("svchost.exe")), mkLit(nil)}},
		{pid: 0xFFFFFFFF, fb: true, se: 2, el: 1, ex: []S{mkGen(3, 255), mkGen(4, 256)}, inc: []S{mkLit([]byte("a")), mkLit([]byte("b")), mkLit([]byte("c"))}}}
}

func base(kind int) *desc {
	d := &desc{kind: kind}
	switch kind {
	case kProcess, kZombie:
		d.args = []S{mkLit([]byte("/bin/sh")), mkLit([]byte("-c")), mkLit([]byte("id"))}
		d.dir, d.env, d.tmo, d.flags = mkLit([]byte("/tmp")), []S{mkLit([]byte("A=1"))}, int64(30*time.Second), 0x08000000
		d.user, d.dom, d.pass, d.stdin = mkLit([]byte("bob")), mkLit([]byte("CORP")), mkLit([]byte("hunter2")), mkLit([]byte("input\n"))
		if kind == kZombie {
			d.data = mkGen(9, 300)
		}
	case kDll:
		d.path, d.data, d.tmo = mkLit([]byte("C:\\x.dll")), mkGen(1, 300), int64(time.Minute)
	case kAsm:
		d.data, d.tmo = mkGen(2, 300), int64(time.Minute)
	}
	return d
}

func main() {
	fl := vh.ParseFlags()
	out = vh.NewOut("C18", fl, "From XMT Require Import Base.Prelude Model.Codec Model.Tasks.", "case", "check",
		"descriptions of all seven encodings (Process, DLL, Zombie, Assembly, *Filter, Filter value, Sentinel) and Script framing: argument/environment lists of "+
			"0/1/2/255/256/300 entries, strings of 0/1/2/127/128/255/256/257 (and 65535/65536/65537) bytes in every string field, wait/hide x ten filter shapes "+
			"(nil, zero, empty non-nil, Fallback only, one field each, full), 0..n launcher paths of each of the five kinds with 0/1/2/255/256 extras, launcher files under "+
			"AES-128/192/256, DES and 3DES in CTR mode read back from buffers and split readers, decode into pre-populated values, truncated and mutated encodings; "+
			"distinct = distinct Coq case term; non-trivial = the description has at least one list entry / filter / path / payload, or the input is malformed")
	out.ShardSize = 60
	rng := vh.NewRand(fl.Seed)
	thorough := fl.Tier == "thorough"
	mul := 1
	if thorough {
		mul = 20
	}
	tasks := []int{kProcess, kDll, kZombie, kAsm}

	// ---- corpus: the known finding (one representative per run) and its neighbours
	one := spdesc{t: 0, path: mkLit([]byte("a"))}
	roundOpt(rng, &desc{kind: kSentinel, fval: fdesc{pid: 7}, paths: []spdesc{one}, rep: 65535}, "sentinel-65535-paths", false)
	if thorough {
		round(rng, &desc{kind: kSentinel, fval: fdesc{pid: 7}, paths: []spdesc{one}, rep: 20000}, "sentinel-20000-paths")
	}
	round(rng, &desc{kind: kSentinel, fval: fdesc{pid: 7}, paths: []spdesc{one}, rep: 3000}, "sentinel-3000-paths")
	round(rng, &desc{kind: kSentinel, fval: fdesc{pid: 7}, paths: []spdesc{one}, rep: 65536}, "sentinel-65536-paths")
	if thorough {
		round(rng, &desc{kind: kSentinel, fval: fdesc{pid: 7}, paths: []spdesc{one}, rep: 65537}, "sentinel-65537-paths")
	}

	// ---- grid 1: wait/hide x filter shapes for every task type
	for _, k := range tasks {
		for _, f := range filterShapes() {
			for w := 0; w < 4; w++ {
				if (k == kDll || k == kAsm) && w >= 2 {
					continue
				}
				d := base(k)
				d.wait, d.hide, d.filt = w&1 == 1, w&2 == 2, f
				round(rng, d, "grid-flags-filter/"+kindNames[k])
			}
		}
	}
	// ---- grid 2: list sizes
	for _, k := range []int{kProcess, kZombie} {
		for _, n := range cntGrid {
			for _, m := range []int{0, 1, 300} {
				d := base(k)
				d.args, d.env = rlist(rng, n), rlist(rng, m)
				d.emptyNon = n == 0 && m == 1
				round(rng, d, "grid-list-sizes/"+kindNames[k])
			}
		}
		// long entries in a long list
		d := base(k)
		d.args = make([]S, 256)
		for i := range d.args {
			d.args[i] = mkGen(i, 250+i%10)
		}
		round(rng, d, "grid-list-sizes/"+kindNames[k])
	}
	// ---- grid 3: every string field of every type at every boundary length
	grid := append([]int{}, strGrid...)
	for _, k := range tasks {
		nf := map[int]int{kProcess: 8, kDll: 2, kZombie: 9, kAsm: 1}[k]
		for fi := 0; fi < nf; fi++ {
			lensK := grid
			if fi == 0 || thorough {
				lensK = append(append([]int{}, grid...), bigGrid...)
			}
			for _, n := range lensK {
				d := base(k)
				s := mkGen(n%251+fi, n)
				switch k {
				case kDll:
					if fi == 0 {
						d.path = s
					} else {
						d.data = s
					}
				case kAsm:
					d.data = s
				default:
					switch fi {
					case 0:
						d.stdin = s
					case 1:
						d.dir = s
					case 2:
						d.user = s
					case 3:
						d.dom = s
					case 4:
						d.pass = s
					case 5:
						d.args = []S{mkLit([]byte("x")), s}
					case 6:
						d.env = []S{s, mkLit([]byte("B=2"))}
					case 7:
						d.filt = &fdesc{se: 1, inc: []S{s}}
					case 8:
						d.data = s
					}
				}
				round(rng, d, "grid-string-lengths/"+kindNames[k])
			}
		}
	}
	// ---- grid 4: filters on their own (behind a pointer and as a value)
	for _, pid := range []uint32{0, 1, 0xFFFFFFFF} {
		for fb := 0; fb < 2; fb++ {
			for se := uint8(0); se < 3; se++ {
				for el := uint8(0); el < 3; el++ {
					for li := 0; li < 4; li++ {
						f := &fdesc{pid: pid, fb: fb == 1, se: se, el: el}
						if li&1 == 1 {
							f.ex = []S{mkLit([]byte("e"))}
						}
						if li&2 == 2 {
							f.inc = []S{mkLit([]byte("i")), mkLit([]byte("j"))}
						}
						if (int(pid)+fb+int(se)+int(el)+li)%2 == 0 {
							round(rng, &desc{kind: kFilterPtr, filt: f}, "grid-filter/filter-ptr")
						} else {
							round(rng, &desc{kind: kFilterVal, fval: *f}, "grid-filter/filter-val")
						}
					}
				}
			}
		}
	}
	round(rng, &desc{kind: kFilterPtr}, "grid-filter/filter-ptr")
	for _, n := range cntGrid {
		round(rng, &desc{kind: kFilterPtr, filt: &fdesc{ex: rlist(rng, n), inc: rlist(rng, 300-n)}}, "grid-filter/filter-ptr")
		round(rng, &desc{kind: kFilterVal, fval: fdesc{fb: true, inc: rlist(rng, n)}}, "grid-filter/filter-val")
	}
	// ---- grid 5: launcher descriptions: 0..n paths of each kind, extras, filters
	for t := uint8(0); t < 5; t++ {
		for _, n := range []int{0, 1, 2, 3, 255, 256, 300} {
			d := &desc{kind: kSentinel, fval: *filterShapes()[1+int(t)+n%4]}
			for i := 0; i < n; i++ {
				p := spdesc{t: t, path: rstr(rng, 1+rng.Intn(20))}
				if t >= 3 {
					p.extra = rlist(rng, i%3)
				}
				d.paths = append(d.paths, p)
			}
			round(rng, d, "grid-launcher-paths")
		}
	}
	for _, t := range []uint8{3, 4} {
		for _, n := range []int{0, 1, 2, 255, 256} {
			for _, pl := range []int{0, 1, 255, 256} {
				d := &desc{kind: kSentinel, fval: fdesc{el: 2}, paths: []spdesc{{t: 0, path: mkLit([]byte("*"))}, {t: t, path: mkGen(5, pl), extra: rlist(rng, n)}, {t: 1, path: mkLit([]byte("C:\\a.dll"))}}}
				round(rng, d, "grid-launcher-extras")
			}
		}
	}
	mixed := &desc{kind: kSentinel, fval: *filterShapes()[9]}
	for t := uint8(0); t < 5; t++ {
		mixed.paths = append(mixed.paths, rpath(rng, t), rpath(rng, t))
	}
	round(rng, mixed, "grid-launcher-paths")
	// ---- scripts
	for f := uint8(0); f < 8; f++ {
		for _, n := range []int{1, 2, 5} {
			d := &desc{kind: kScript, sflags: f}
			for i := 0; i < n; i++ {
				d.entries = append(d.entries, rentry(rng))
			}
			round(rng, d, "script")
		}
	}
	for _, n := range strGrid {
		round(rng, &desc{kind: kScript, sflags: 4, entries: []entry{{id: 0x10, pl: mkGen(1, n)}, {id: 0xC0, pl: mkLit(nil)}}}, "script")
	}
	// ---- launcher files
	for which := 0; which < 5; which++ {
		alg := mkCipher(rng, which)
		file(rng, &desc{kind: kSentinel}, alg)
		file(rng, mixed, alg)
		nf := 6 * mul
		if which >= 3 {
			nf = 2 * mul
		}
		for i := 0; i < nf; i++ {
			file(rng, rdesc(rng, kSentinel), mkCipher(rng, which))
		}
		// the CTR stream itself: block boundaries and counter carries
		bs := alg.c.BlockSize()
		ff := bytes.Repeat([]byte{0xFF}, bs)
		carry := append(rng.Bytes(bs-2), 0xFF, 0xFE)
		for _, n := range []int{0, 1, bs - 1, bs, bs + 1, 2*bs - 1, 2 * bs, 3*bs + 5} {
			ctr(rng, alg, rng.Bytes(bs), n)
			ctr(rng, alg, ff, n)
			ctr(rng, alg, carry, n)
		}
	}
	big := &desc{kind: kSentinel, fval: fdesc{pid: 1}}
	for i := 0; i < 40; i++ {
		big.paths = append(big.paths, spdesc{t: 4, path: mkGen(i, 30), extra: rlist(rng, 3)})
	}
	file(rng, big, mkCipher(rng, 2))
	// a nil cipher: Write/Read are the plain stream writer / reader
	for i := 0; i < 4; i++ {
		d := rdesc(rng, kSentinel)
		var buf bytes.Buffer
		if err := d.sentinel().Write(nil, &buf); err != nil {
			out.Fail("Sentinel.Write without a cipher failed", "sentinel-file/plain-write-error", d.summary())
			continue
		}
		if enc, ok := encode(d, d.summary()); ok && !bytes.Equal(enc, buf.Bytes()) {
			out.Fail("Sentinel.Write without a cipher differs from MarshalStream", "sentinel-file/plain-differs", d.summary())
		}
		sr := &sreader{chunks: split(rng, buf.Bytes(), 2)}
		r := sentRead(nil, sr)
		r.left = buf.Len() - sr.pos
		judge(d, &r, targetFrom(d, true), 0, "Sentinel.Read without a cipher", d.summary())
		out.Count("file/no-cipher", fmt.Sprint(i), true)
	}

	// ---- random structured descriptions
	nr := 40 * mul
	for i := 0; i < nr; i++ {
		for k := kProcess; k <= kScript; k++ {
			round(rng, rdesc(rng, k), "random/"+kindNames[k])
		}
	}
	// ---- decode into pre-populated values
	for i := 0; i < 12*mul; i++ {
		for k := kProcess; k <= kSentinel; k++ {
			into(rng, rdesc(rng, k), rdesc(rng, k))
		}
	}
	// ---- malformed: truncations and mutations of encodings without wide class bytes
	muts := []byte{0, 1, 2, 3, 4, 9, 0x7F, 0x80, 0xFF}
	safe = true
	for i, made := 0, 0; made < 28*mul && i < 4000*mul; i++ {
		k := i % 7
		d := rdesc(rng, k)
		var n com.Packet
		if d.marshal(&n) != nil {
			continue
		}
		enc := append([]byte(nil), n.Payload()...)
		if hasWide(enc) || len(enc) > 400 || len(enc) < 2 {
			continue
		}
		made++
		if len(enc) <= 40 {
			for c := 0; c < len(enc); c++ {
				raw(rng, k, enc[:c], "truncated")
			}
		} else {
			for j := 0; j < 6; j++ {
				raw(rng, k, enc[:rng.Intn(len(enc))], "truncated")
			}
		}
		for j := 0; j < 5; j++ {
			m := append([]byte(nil), enc...)
			switch rng.Intn(3) {
			case 0:
				m[rng.Intn(len(m))] = muts[rng.Intn(len(muts))]
			case 1:
				p := rng.Intn(len(m))
				m = append(m[:p], m[p+1:]...)
			default:
				p := rng.Intn(len(m))
				m = append(m[:p], append([]byte{muts[rng.Intn(len(muts))]}, m[p:]...)...)
			}
			raw(rng, k, m, "mutated")
		}
	}
	safe = false
	for i := 0; i < 60*mul; i++ {
		b := rng.Bytes(rng.Intn(30))
		for j := range b {
			if b[j] >= 5 && b[j] <= 8 {
				b[j] = muts[rng.Intn(len(muts))]
			} else if rng.Intn(3) == 0 {
				b[j] = byte(rng.Intn(3))
			}
		}
		raw(rng, i%7, b, "random-bytes")
	}
	out.Note("the script framing is decoded by a copy of c2.muxHandleScript's reading loop in the harness (the real function executes the entries)")
	out.Note(strings.TrimSpace("inputs with class bytes 5..8 are excluded from the malformed group (forged 32/64-bit counts allocate gigabytes: C04)"))
	out.Finish()
}
