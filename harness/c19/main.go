// C19 harness: sleep, jitter, work hours, kill date.
//
//   - WorkHours.Work/Empty/Verify: the REAL functions under an injected clock (derived overlay copy
//     of workhours.go: `time.Now()` -> hook) for all 256 day masks x a (start,end) grid (equal, zero,
//     end < start, 23:59, minute 60, out of range) x instants at every rule edge +-1 ns / +-1 min,
//     midnight, each weekday, month/year ends, leap day, random.
//   - (*Session).wait: the REAL function on a bare client Session with the three random draws, the
//     kill-date clock and the timer redirected to hooks (derived overlay copy of session.go): the
//     computed delay is observed WITHOUT sleeping, for sleeps x jitter 0..255 x scripted draws; also
//     single wait() steps with a kill date / work hours / sleep < 1 / closing already set.
//   - kill date end to end: real client and server sessions over TCP loopback, a counting
//     Connector, the injected clock advanced exactly by the durations wait() asks to sleep and by
//     scripted exchange durations; scripted Connect failures and Close() calls.
//
// Every evaluation is checked by a Go-side oracle that states the property directly, and (a
// subset, batched per rule / per (sleep, jitter)) emitted as a Coq case for Model/Sched.v.
// The zone is UTC (DST-free): time.Local is set before anything else.
package main

import (
	"context"
	"errors"
	"fmt"
	"math/big"
	"net"
	"os"
	"strings"
	"sync"
	"time"

	"github.com/PurpleSec/logx"
	"github.com/iDigitalFlame/xmt/c2"
	"github.com/iDigitalFlame/xmt/c2/cfg"
	"github.com/iDigitalFlame/xmt/com"
	"github.com/iDigitalFlame/xmt/device/local"

	"verifharness/vh"
)

var (
	out      *vh.Out
	rng      *vh.Rand
	thorough bool
)

const (
	dayNs = int64(86400000000000)
	minNs = int64(60000000000)
	msNs  = int64(1000000)
)

// epoch0 is a Sunday 00:00 UTC; the model's absolute instants are ns since it.
var epoch0 = time.Date(2023, 1, 1, 0, 0, 0, 0, time.UTC)

// ------------------------------------------------------------------ work hours

type ruleT struct{ Days, SH, SM, EH, EM int }

func (r ruleT) wh() cfg.WorkHours {
	return cfg.WorkHours{Days: uint8(r.Days), StartHour: uint8(r.SH), StartMin: uint8(r.SM), EndHour: uint8(r.EH), EndMin: uint8(r.EM)}
}
func (r ruleT) coq() string {
	return fmt.Sprintf("(mkRule %d %d %d %d %d)", r.Days, r.SH, r.SM, r.EH, r.EM)
}
func (r ruleT) String() string {
	return fmt.Sprintf("days=%d start=%d:%d end=%d:%d", r.Days, r.SH, r.SM, r.EH, r.EM)
}

// the specification of the window, written independently of the code's control flow.
// Out-of-range fields are read the way the code reads them (stated in Props/C19.v):
// start hour > 23 or start minute > 60 = midnight; end hour > 23 or end minute > 60 = no end;
// minute 60 = the next full hour; 0:00 as an end = no end.
type winT struct {
	allDays   bool
	start     int64
	noEnd     bool
	end       int64
	endBefore bool
}

func (r ruleT) window() winT {
	var w winT
	w.allDays = r.Days == 0 || r.Days > 126
	if !((r.SH == 0 && r.SM == 0) || r.SH > 23 || r.SM > 60) {
		w.start = int64(r.SH*60+r.SM) * minNs
	}
	w.noEnd = (r.EH == 0 && r.EM == 0) || r.EH > 23 || r.EM > 60
	if !w.noEnd {
		w.end = int64(r.EH*60+r.EM) * minNs
		w.endBefore = w.end < w.start
	}
	return w
}
func (r ruleT) dayOn(wd int) bool {
	return r.Days == 0 || r.Days > 126 || r.Days&(1<<uint(wd)) != 0
}
func (r ruleT) inWindow(wd int, ns int64) bool {
	w := r.window()
	return r.dayOn(wd) && ns >= w.start && (w.noEnd || ns <= w.end)
}
func (r ruleT) inRange() bool { return r.SH <= 23 && r.SM <= 59 && r.EH <= 23 && r.EM <= 59 }

// weeks: Sundays whose weeks contain a month end, a year end, a leap day, an ordinary week.
var sundays = []time.Time{
	time.Date(2023, 1, 1, 0, 0, 0, 0, time.UTC),
	time.Date(2023, 4, 30, 0, 0, 0, 0, time.UTC),  // month end Sunday
	time.Date(2023, 12, 31, 0, 0, 0, 0, time.UTC), // year end Sunday
	time.Date(2024, 2, 25, 0, 0, 0, 0, time.UTC),  // week of Feb 29
	time.Date(2026, 9, 27, 0, 0, 0, 0, time.UTC),
	time.Date(1970, 1, 4, 0, 0, 0, 0, time.UTC),
	time.Date(2100, 2, 28, 0, 0, 0, 0, time.UTC), // 2100 is not a leap year
}

var cfgNow time.Time

func instant(week, wd int, ns int64) time.Time {
	s := sundays[week%len(sundays)]
	// built through time.Date in time.Local (= UTC) so that n.Location() is the local zone
	t := time.Date(s.Year(), s.Month(), s.Day()+wd, 0, 0, 0, 0, time.Local)
	return t.Add(time.Duration(ns))
}

func realWork(r ruleT, week, wd int, ns int64) (d int64, pan bool) {
	cfgNow = instant(week, wd, ns)
	if int(cfgNow.Weekday()) != wd {
		panic("harness: weekday table is wrong")
	}
	defer func() {
		if recover() != nil {
			pan = true
		}
	}()
	return int64(r.wh().Work()), false
}

type obsW struct {
	wd   int
	ns   int64
	res  int64
	week int
}

var workEvals, workPositive, workZero int

// evalWork runs the real Work and the oracle on one instant.
func evalWork(r ruleT, week, wd int, ns int64) obsW {
	got, pan := realWork(r, week, wd, ns)
	workEvals++
	desc := map[string]interface{}{"rule": r.String(), "weekday": wd, "ns_of_day": ns, "date": cfgNow.Format(time.RFC3339Nano), "work_ns": got}
	w := r.window()
	switch {
	case pan:
		out.Fail("WorkHours.Work panicked", "work-panic", desc)
	case got < 0:
		out.Fail("WorkHours.Work returned a negative duration", "work-negative", desc)
	case got > dayNs:
		out.Fail("WorkHours.Work asks to wait longer than a day", "work-longer-than-a-day", desc)
	case !w.endBefore:
		in := r.inWindow(wd, ns)
		if in && got != 0 {
			out.Fail("WorkHours.Work says wait although the instant is inside the configured days / start-end window", "work-wait-inside-window", desc)
		} else if !in && got == 0 {
			k := "after-end"
			if !r.dayOn(wd) {
				k = "day-disabled"
			} else if ns < w.start {
				k = "before-start"
			}
			out.Fail("WorkHours.Work says go although the instant is outside the configured days / start-end window", "work-go-outside-window-"+k, desc)
		}
	}
	if got > 0 {
		workPositive++
	} else {
		workZero++
	}
	return obsW{wd, ns, got, week}
}

func clampDay(v int64) (int64, bool) { return v, v >= 0 && v < dayNs }

// instantsFor lists (weekday, ns) pairs at every edge of the rule.
func instantsFor(r ruleT, nrand int) [][2]int64 {
	var edges []int64
	add := func(v int64) {
		if v, ok := clampDay(v); ok {
			edges = append(edges, v)
		}
	}
	for _, v := range []int64{0, 1, minNs, dayNs - 1, dayNs - minNs, dayNs / 2, 3600000000000, 3600000000000 - 1} {
		add(v)
	}
	for _, hm := range [][2]int{{r.SH, r.SM}, {r.EH, r.EM}} {
		b := int64(hm[0]*60+hm[1]) * minNs
		for _, dlt := range []int64{-minNs, -1, 0, 1, minNs} {
			add(b + dlt)
			add(b%dayNs + dlt)
		}
	}
	// weekdays: one enabled, one disabled (when the mask distinguishes), Saturday, Sunday
	on, off := -1, -1
	for wd := 0; wd < 7; wd++ {
		if r.dayOn(wd) && on < 0 {
			on = wd
		}
		if !r.dayOn(wd) && off < 0 {
			off = wd
		}
	}
	var res [][2]int64
	seen := map[[2]int64]bool{}
	put := func(wd int, ns int64) {
		k := [2]int64{int64(wd), ns}
		if !seen[k] {
			seen[k] = true
			res = append(res, k)
		}
	}
	for _, e := range edges {
		if on >= 0 {
			put(on, e)
		}
		if off >= 0 {
			put(off, e)
		}
	}
	for wd := 0; wd < 7; wd++ {
		put(wd, dayNs/2)
		put(wd, 0)
		put(wd, dayNs-1)
	}
	for i := 0; i < nrand; i++ {
		put(rng.Intn(7), int64(rng.U64()%uint64(dayNs)))
	}
	return res
}

var hmStarts = [][2]int{{0, 0}, {0, 1}, {9, 0}, {9, 30}, {12, 0}, {23, 59}, {23, 60}, {24, 0}, {5, 61}, {5, 60}, {0, 60}, {255, 255}, {0, 61}}
var hmEnds = [][2]int{{0, 0}, {0, 1}, {9, 0}, {9, 30}, {12, 0}, {17, 45}, {23, 59}, {23, 60}, {24, 0}, {5, 61}, {5, 60}, {255, 255}}

func emitWork(r ruleT, obs []obsW, class string) {
	if len(obs) == 0 {
		return
	}
	items := make([]string, len(obs))
	pos := 0
	for i, o := range obs {
		items[i] = fmt.Sprintf("(mkW %d %d %d)", o.wd, o.ns, o.res)
		if o.res > 0 {
			pos++
		}
	}
	first := obs[0]
	out.Add(fmt.Sprintf("CWork %s %s", r.coq(), vh.List(items)), class, !(r.wh().Empty()) && pos > 0 && pos < len(obs),
		map[string]interface{}{"rule": r.String(), "observations": len(obs), "first": []int64{int64(first.wd), first.ns, first.res}})
}

func verifyCode(err error) int {
	if err == nil {
		return 0
	}
	switch s := err.Error(); {
	case strings.Contains(s, "EndMin"):
		return 0x73
	case strings.Contains(s, "EndHour"):
		return 0x72
	case strings.Contains(s, "StartMin"):
		return 0x71
	case strings.Contains(s, "StartHour"):
		return 0x70
	}
	return -1
}

func runWork() {
	cfg.VerifC19SetNow(func() time.Time { return cfgNow })
	defer cfg.VerifC19SetNow(nil)
	special := map[int]bool{0: true, 1: true, 2: true, 62: true, 64: true, 65: true, 85: true, 126: true, 127: true, 128: true, 255: true}
	var pairs [][4]int
	for _, s := range hmStarts {
		for _, e := range hmEnds {
			pairs = append(pairs, [4]int{s[0], s[1], e[0], e[1]})
		}
	}
	nrand := 4
	if thorough {
		nrand = 24
	}
	week := 0
	ruleCases := 0
	for days := 0; days < 256; days++ {
		for pi, p := range pairs {
			r := ruleT{days, p[0], p[1], p[2], p[3]}
			ins := instantsFor(r, nrand)
			var obs []obsW
			allZero := true
			for _, in := range ins {
				week++
				o := evalWork(r, week, int(in[0]), in[1])
				obs = append(obs, o)
				if o.res != 0 {
					allZero = false
				}
			}
			// Empty / Verify
			wh := r.wh()
			em, vc := wh.Empty(), verifyCode(wh.Verify())
			desc := map[string]interface{}{"rule": r.String(), "empty": em, "verify": vc}
			if em && !allZero {
				out.Fail("an Empty() rule asked to wait", "empty-rule-waits", desc)
			}
			if (vc == 0) != r.inRange() || vc < 0 {
				out.Fail("Verify() does not accept exactly the in-range rules", "verify-range", desc)
			}
			// what goes to Coq
			emit, sub := false, 0
			switch {
			case thorough:
				emit, sub = (special[days] && pi%2 == 0) || (days*7+pi)%9 == 0, 40
			case special[days]:
				emit, sub = (days+pi)%2 == 0, 14
			default:
				emit, sub = (days*7+pi)%39 == 0, 22
			}
			if emit {
				sel := obs
				if sub > 0 && len(obs) > sub {
					// keep a rotating subset, always including the first positive and first zero result
					sel = nil
					st := rng.Intn(len(obs))
					for k := 0; k < sub; k++ {
						sel = append(sel, obs[(st+k*(len(obs)/sub+1))%len(obs)])
					}
				}
				cl := "work/in-range"
				if !r.inRange() {
					cl = "work/out-of-range-fields"
				} else if r.window().endBefore {
					cl = "work/end-before-start"
				}
				emitWork(r, sel, cl)
			} else {
				out.Count("work/oracle-only", r.String(), !wh.Empty())
			}
			if emit && (ruleCases < 700 || thorough) {
				ruleCases++
				out.Add(fmt.Sprintf("CRule %s %s %d", r.coq(), vh.B(em), vc), "rule/empty-verify", !em, desc)
			}
		}
	}
	// random rules (any bytes) x random instants
	n := 3000
	if thorough {
		n = 20000
	}
	for i := 0; i < n; i++ {
		r := ruleT{rng.Intn(256), rng.Intn(26), rng.Intn(64), rng.Intn(26), rng.Intn(64)}
		if rng.Intn(8) == 0 {
			r = ruleT{rng.Intn(256), rng.Intn(256), rng.Intn(256), rng.Intn(256), rng.Intn(256)}
		}
		var obs []obsW
		for k := 0; k < 6; k++ {
			obs = append(obs, evalWork(r, rng.Intn(1000), rng.Intn(7), int64(rng.U64()%uint64(dayNs))))
		}
		if i%6 == 0 || thorough {
			emitWork(r, obs, "work/random-rule")
		} else {
			out.Count("work/oracle-only", r.String()+fmt.Sprint(i), true)
		}
	}
	out.Extra("work_evaluations_go", workEvals)
	out.Extra("work_results_positive", workPositive)
	out.Extra("work_results_zero", workZero)
}

// ------------------------------------------------------------------ jitter

type drawScript struct {
	gate, sign uint32
	d          int64
	used       int
	n63        int64
	bad        string
}

var (
	ds        drawScript
	lastReset []time.Duration
	fakeNow   time.Time
	fakeMu    sync.Mutex
	curSess   *c2.Session
)

func jitterHooks() *c2.VerifC19Hooks {
	return &c2.VerifC19Hooks{
		Now: func() time.Time { return fakeNow },
		RandN: func(n int) uint32 {
			switch n {
			case 100:
				ds.used |= 1
				return ds.gate
			case 2:
				ds.used |= 4
				return ds.sign
			}
			ds.bad = fmt.Sprintf("FastRandN(%d)", n)
			return 0
		},
		Int63n: func(n int64) int64 {
			ds.used |= 2
			ds.n63 = n
			if n <= 0 {
				ds.bad = fmt.Sprintf("Int63n(%d)", n)
				return 0
			}
			if ds.d >= n {
				ds.bad = fmt.Sprintf("scripted draw %d out of range %d", ds.d, n)
			}
			return ds.d
		},
		Reset: func(s *c2.Session, w time.Duration) time.Duration {
			if lastReset = append(lastReset, w); len(lastReset) > 64 {
				panic("harness: wait() armed its timer more than 64 times (a work-hours rule that never lets the client work?)")
			}
			fakeNow = fakeNow.Add(w)
			return 0
		},
	}
}

var twoSleepOK = func(delay, sleep int64) bool {
	// |delay - sleep| <= sleep  <=>  0 <= delay <= 2*sleep, without overflow
	d, s := big.NewInt(delay), big.NewInt(sleep)
	return d.Sign() >= 0 && d.Cmp(new(big.Int).Mul(s, big.NewInt(2))) <= 0
}

var jitEvals int

func runJitter() {
	c2.VerifC19Set(jitterHooks())
	defer c2.VerifC19Set(nil)
	ws := c2.VerifC19Waiter()
	if !c2.VerifC19TickerResetPanics(ws, -1) || !c2.VerifC19TickerResetPanics(ws, 0) {
		out.Note("time.Ticker.Reset did not panic on a non-positive interval on this toolchain")
		out.Extra("ticker_reset_panics_on_nonpositive", false)
	} else {
		out.Extra("ticker_reset_panics_on_nonpositive", true)
	}
	// sleeps: the listed grid; above 2^62 the addition can wrap.  witness: sleep + d*1ms = 2^63.
	const wit = int64(5223372036854775808)
	sleeps := []int64{msNs, msNs + 1, 2 * msNs, 2*msNs - 1, 1000 * msNs, 3600 * 1000 * msNs, 1 << 62, 1<<62 + 1, 1<<62 + msNs, 1<<63 - 1, wit}
	if thorough {
		sleeps = append(sleeps, 3*msNs, 60000*msNs, 1<<62-1, 1<<61, 7000000000000000000, 9223372036853775808)
		for i := 0; i < 6; i++ {
			sleeps = append(sleeps, msNs+int64(rng.U64()%uint64(1<<62)))
		}
	}
	for si, sleep := range sleeps {
		nmax := sleep / msNs
		out.Add(fmt.Sprintf("CJitN %d %d", sleep, nmax), "jitter/int63n-range", true, map[string]interface{}{"sleep_ns": sleep})
		for j := 0; j < 256; j++ {
			// scripted draws
			// the gate that lets the jitter through (j-1) comes last: the Coq-side selection
			// below keeps the tail of the list
			gates := []uint32{99}
			if j >= 1 && j < 100 {
				gates = append(gates, uint32(j))
			}
			gates = append(gates, 0)
			if j >= 2 && j <= 100 {
				gates = append(gates, uint32(j-1))
			}
			dvals := []int64{0}
			if nmax > 1 {
				dvals = append(dvals, nmax-1, int64(rng.U64()%uint64(nmax)))
			}
			if nmax > 2 {
				dvals = append(dvals, 1)
			}
			if sleep == wit {
				dvals = append(dvals, 4000000000000, 4000000000000-1, 4000000000000+1)
			}
			if sleep > 1<<62 {
				// the smallest draw whose addition wraps, and its neighbour
				k := ((1<<63-1)-sleep)/msNs + 1
				if k < nmax {
					dvals = append(dvals, k)
					if k > 0 {
						dvals = append(dvals, k-1)
					}
				}
			}
			var items []string
			var nontriv bool
			for _, g := range gates {
				for _, d := range dvals {
					for sg := uint32(0); sg < 2; sg++ {
						ds = drawScript{gate: g, sign: sg, d: d}
						lastReset = lastReset[:0]
						fakeNow = epoch0
						closing, pan := c2.VerifC19Wait(ws, time.Duration(sleep), uint8(j), time.Time{}, nil, false)
						jitEvals++
						desc := map[string]interface{}{"sleep_ns": sleep, "jitter": j, "gate": g, "draw_ms": d, "sign": sg}
						if pan != nil || closing || len(lastReset) != 1 || ds.bad != "" {
							panic(fmt.Sprintf("harness: wait() did not arm its timer exactly once: %v pan=%v closing=%v resets=%v bad=%q", desc, pan, closing, lastReset, ds.bad))
						}
						if ds.used&2 != 0 && ds.n63 != nmax {
							out.Fail("wait() drew the jitter amount from a range other than sleep/1ms", "jitter-int63n-range", desc)
						}
						delay := int64(lastReset[0])
						desc["delay_ns"] = delay
						switch {
						case delay <= 0:
							k := "jitter-delay-not-positive"
							if b := new(big.Int).Add(big.NewInt(sleep), new(big.Int).Mul(big.NewInt(d), big.NewInt(msNs))); sg == 0 && ds.used&2 != 0 && b.Cmp(new(big.Int).Lsh(big.NewInt(1), 63)) == 0 {
								k = "jitter-delay-int64-min-when-sleep-plus-draw-is-2^63"
							}
							out.Fail(fmt.Sprintf("the delay chosen by wait() is not positive (%d ns)", delay), k, desc)
						case j == 0 && delay != sleep:
							out.Fail("jitter 0 but the delay differs from the sleep", "jitter-zero-not-exact", desc)
						case !twoSleepOK(delay, sleep):
							out.Fail("the delay is further than one sleep away from the sleep", "jitter-delay-out-of-bounds", desc)
						}
						if delay != sleep {
							nontriv = true
						}
						items = append(items, fmt.Sprintf("(mkJ %d %d %d %s %d)", g, d, sg, vh.Z(delay), ds.used))
					}
				}
			}
			// Coq side: every jitter value for the small sleeps, a rotating selection for the rest
			emit := (thorough && (j+si)%3 == 0) || j <= 2 || (j >= 99 && j <= 101) || j == 255 || j == 50 || (j+si)%16 == 0
			if emit {
				if !thorough && (j == 0 || j > 100) && len(items) > 4 {
					// no draw is consumed: the first and the last script say it all
					items = []string{items[0], items[1], items[len(items)-2], items[len(items)-1]}
				} else if !thorough && len(items) > 16 {
					// keep the wrap-edge scripts (appended last) and a rotating selection of the rest
					keep := items[len(items)-8:]
					for k := 0; k < 8; k++ {
						keep = append(keep, items[(j+k*5)%(len(items)-8)])
					}
					items = keep
				}
				out.Add(fmt.Sprintf("CJit %d %d %s", sleep, j, vh.List(items)), jitClass(sleep, j), nontriv,
					map[string]interface{}{"sleep_ns": sleep, "jitter": j, "draw_scripts": len(items)})
			} else {
				out.Count("jitter/oracle-only", fmt.Sprintf("%d/%d", sleep, j), nontriv)
			}
		}
	}
	out.Extra("jitter_wait_calls_go", jitEvals)
}

func jitClass(sleep int64, j int) string {
	s := "jitter/sleep<=2^62"
	if sleep > 1<<62 {
		s = "jitter/sleep>2^62"
	}
	switch {
	case j == 0:
		return s + "/jitter=0"
	case j > 100:
		return s + "/jitter>100"
	}
	return s + "/jitter=1..100"
}

// ------------------------------------------------------------------ single wait() steps

type kcfgT struct {
	Sleep int64
	Kill  *int64 // ns since epoch0; nil = no kill date
	Work  *ruleT
}

func (k kcfgT) coq() string {
	kill, work := "None", "None"
	if k.Kill != nil {
		kill = "(Some " + vh.Z(*k.Kill) + ")"
	}
	if k.Work != nil {
		work = "(Some " + k.Work.coq() + ")"
	}
	return fmt.Sprintf("(mkK %s %s %s)", vh.Z(k.Sleep), kill, work)
}
func (k kcfgT) killTime() time.Time {
	if k.Kill == nil {
		return time.Time{}
	}
	return epoch0.Add(time.Duration(*k.Kill))
}
func (k kcfgT) desc() map[string]interface{} {
	m := map[string]interface{}{"sleep_ns": k.Sleep}
	if k.Kill != nil {
		m["kill_ns_since_2023-01-01"] = *k.Kill
		m["kill"] = k.killTime().Format(time.RFC3339Nano)
	}
	if k.Work != nil {
		m["work"] = k.Work.String()
	}
	return m
}
func absNs(t time.Time) int64 { return int64(t.Sub(epoch0)) }
func i64p(v int64) *int64   { return &v }

func runWaitSteps() {
	h := jitterHooks()
	c2.VerifC19Set(h)
	cfg.VerifC19SetNow(func() time.Time { return fakeNow })
	defer c2.VerifC19Set(nil)
	defer cfg.VerifC19SetNow(nil)
	ws := c2.VerifC19Waiter()
	base := int64(2*86400+10*3600) * 1000000000 // Tuesday 10:00
	sleepsMs := []int64{0, 1, 60, 1000, 3600000}
	rules := []*ruleT{nil, nil, {62, 9, 0, 17, 0}, {0, 0, 0, 0, 0}, {2, 0, 0, 0, 0}, {62, 10, 0, 10, 0}, {127, 22, 30, 0, 0}, {65, 0, 0, 12, 0}, {1, 23, 59, 0, 0}}
	n := 600
	if thorough {
		n = 6000
	}
	for i := 0; i < n; i++ {
		var k kcfgT
		k.Sleep = sleepsMs[rng.Intn(len(sleepsMs))] * msNs
		if i%17 == 0 {
			k.Sleep = -5
		}
		now := base + int64(rng.U64()%uint64(7*dayNs))
		if rng.Intn(3) == 0 {
			now = base + int64(rng.Intn(3))*minNs*30
		}
		k.Work = rules[rng.Intn(len(rules))]
		switch rng.Intn(6) {
		case 0:
		case 1:
			k.Kill = i64p(now) // exactly now: not "after"
		case 2:
			k.Kill = i64p(now - 1 - int64(rng.Intn(1000)))
		case 3:
			k.Kill = i64p(now + k.Sleep) // exactly at the wake-up
		case 4:
			k.Kill = i64p(now + k.Sleep - 1) // passes during the sleep
		default:
			k.Kill = i64p(now + int64(rng.U64()%uint64(2*dayNs)) - dayNs/2)
		}
		closing0 := rng.Intn(10) == 0
		var wh *cfg.WorkHours
		if k.Work != nil {
			v := k.Work.wh()
			if !v.Empty() { // s.work is only ever set to a non-empty rule
				wh = &v
			}
		}
		ds = drawScript{}
		lastReset = lastReset[:0]
		fakeNow = epoch0.Add(time.Duration(now))
		closing, pan := c2.VerifC19Wait(ws, time.Duration(k.Sleep), 0, k.killTime(), wh, closing0)
		if pan != nil {
			panic(fmt.Sprintf("harness: wait() panicked: %v", pan))
		}
		now2 := absNs(fakeNow)
		d := k.desc()
		d["now_ns"], d["closing_before"], d["now_after_ns"], d["closing_after"] = now, closing0, now2, closing
		// oracle: a wait() that returns "not closing" returns at an instant that is not after the kill date
		if !closing && k.Kill != nil && now2 > *k.Kill {
			out.Fail("wait() returned to the connect loop, not closing, at an instant after the kill date (the date passed during the sleep)",
				"exchange-connect-after-kill-date-passed-during-sleep", d)
		}
		cl := "wait-step/no-kill"
		if k.Kill != nil {
			cl = "wait-step/kill"
		}
		if k.Work != nil {
			cl += "+work"
		}
		out.Add(fmt.Sprintf("CWait %s %s %s %s %s %s", k.coq(), vh.Z(k.Sleep), vh.Z(now), vh.B(closing0), vh.Z(now2), vh.B(closing)), cl,
			!closing0 && (k.Kill != nil || k.Work != nil), d)
	}
}

// ------------------------------------------------------------------ kill date end to end

type itemT struct {
	DurNs int64 `json:"dur_ns"`
	Fail  bool  `json:"fail"`
	Close bool  `json:"close"`
}
type scenT struct {
	Name   string
	K      kcfgT
	T0     int64
	Script []itemT
}
type evT struct {
	T      int64
	Notice bool
}

type countConn struct {
	sc     *scenT
	events []evT
	over   bool
	sess   *c2.Session
	ready  chan struct{} // closed once sess is set (right after ConnectContext returned)
}

func (c *countConn) Connect(x context.Context, a string) (net.Conn, error) {
	if len(c.events) > 0 {
		<-c.ready
	}
	fakeMu.Lock()
	idx := len(c.events)
	s := c.sess
	ev := evT{T: absNs(fakeNow)}
	if s != nil && idx > 0 {
		ev.Notice = c2.VerifC19Closing(s)
	}
	c.events = append(c.events, ev)
	var it itemT
	if idx < len(c.sc.Script) {
		it = c.sc.Script[idx]
	} else {
		c.over, it.Close = true, true
	}
	fakeNow = fakeNow.Add(time.Duration(it.DurNs))
	fakeMu.Unlock()
	if it.Close && s != nil && idx > 0 {
		c2.VerifC19CloseNoWait(s)
	}
	if it.Fail {
		return nil, errors.New("scripted connect failure")
	}
	return com.TCP.Connect(x, a)
}

var (
	srvAddr string
	e2eRuns int
)

// draws of the e2e runs: the gate always lets the jitter through (0), the amount is the largest
// in range, the sign is +; recorded for the Coq case
var (
	e2eLastD  int64
	e2eResets []int64
)

func killHooks() *c2.VerifC19Hooks {
	return &c2.VerifC19Hooks{
		RandN: func(n int) uint32 { return 0 },
		Int63n: func(n int64) int64 {
			fakeMu.Lock()
			defer fakeMu.Unlock()
			e2eLastD = n - 1
			return n - 1
		},
		Now: func() time.Time {
			fakeMu.Lock()
			defer fakeMu.Unlock()
			return fakeNow
		},
		Reset: func(s *c2.Session, w time.Duration) time.Duration {
			fakeMu.Lock()
			defer fakeMu.Unlock()
			curSess = s
			fakeNow = fakeNow.Add(w)
			e2eResets = append(e2eResets, int64(w))
			return 150 * time.Microsecond
		},
		Sleep: func(s *c2.Session, d time.Duration) {
			fakeMu.Lock()
			defer fakeMu.Unlock()
			fakeNow = fakeNow.Add(d)
		},
	}
}

func dbg(f string, a ...interface{}) {
	if os.Getenv("C19_DEBUG") != "" {
		fmt.Fprintf(os.Stderr, f+"\n", a...)
	}
}

func runScenario(sc *scenT, class string) {
	e2eRuns++
	dbg("scenario %s", sc.Name)
	fakeMu.Lock()
	fakeNow, curSess = epoch0.Add(time.Duration(sc.T0)), nil
	fakeMu.Unlock()
	cc := &countConn{sc: sc, ready: make(chan struct{})}
	p := cfg.Static{C: cc, H: srvAddr, S: time.Duration(sc.K.Sleep), J: 0}
	if sc.K.Kill != nil {
		k := sc.K.killTime()
		p.K = &k
	}
	if sc.K.Work != nil {
		w := sc.K.Work.wh()
		p.A = &w
	}
	old := local.UUID
	b := rng.Bytes(len(local.UUID))
	b[0] |= 1 // device.ID.Read treats an ID with a zero first byte as a read error
	copy(local.UUID[:], b)
	ctx, cancel := context.WithCancel(context.Background())
	s, err := c2.ConnectContext(ctx, logx.NOP, p)
	local.UUID = old
	cc.sess = s
	close(cc.ready)
	timedOut := false
	if err == nil {
		select {
		case <-s.Done():
		case <-time.After(20 * time.Second):
			timedOut = true
			cancel()
			select {
			case <-s.Done():
			case <-time.After(15 * time.Second):
			}
		}
	}
	cancel()
	fakeMu.Lock()
	events := append([]evT(nil), cc.events...)
	fakeMu.Unlock()
	d := sc.K.desc()
	d["scenario"], d["t0_ns"], d["script"] = sc.Name, sc.T0, sc.Script
	var evd []string
	var evc []string
	after := 0
	for i, e := range events {
		evc = append(evc, fmt.Sprintf("(mkE %s %s)", vh.Z(e.T), vh.B(e.Notice)))
		rel := "at or before"
		if sc.K.Kill != nil && e.T > *sc.K.Kill {
			rel = fmt.Sprintf("%d ns AFTER", e.T-*sc.K.Kill)
			after++
		}
		kind := "exchange"
		if i == 0 {
			kind = "initial"
		} else if e.Notice {
			kind = "shutdown-notice"
		}
		evd = append(evd, fmt.Sprintf("#%d %s at t0+%d ns (%s the kill date)", i, kind, e.T-sc.T0, rel))
	}
	d["connects"] = evd
	if err != nil {
		d["connect_error"] = err.Error()
	}
	switch {
	case timedOut:
		out.Fail("the client did not stop within 20 s of real time", "kill-scenario-timeout", d)
	case cc.over:
		out.Fail("the client kept connecting beyond the scripted number of passes", "kill-scenario-script-exhausted", d)
	}
	if sc.K.Kill != nil {
		for i, e := range events {
			if e.T <= *sc.K.Kill {
				continue
			}
			switch {
			case i == 0:
				out.Fail("the first Connect was made after the kill date", "initial-connect-after-kill", d)
			case e.Notice:
				out.Fail("a Connect was made after the kill date to deliver the shutdown notice", "shutdown-notice-connect-after-kill", d)
			default:
				out.Fail("an ordinary exchange was started after the kill date (the date passed during the sleep; wait() tests it only before sleeping)",
					"exchange-connect-after-kill-date-passed-during-sleep", d)
			}
		}
	}
	var its []string
	for _, it := range sc.Script {
		its = append(its, fmt.Sprintf("(mkI %s %s %s %s)", vh.Z(sc.K.Sleep), vh.Z(it.DurNs), vh.B(it.Fail), vh.B(it.Close)))
	}
	out.Add(fmt.Sprintf("CKill %s %s %s %s", sc.K.coq(), vh.Z(sc.T0), vh.List(its), vh.List(evc)), class, len(events) >= 2, d)
}

// ------------------------------------------------------------------ Profile swap in the real listen loop

// swapProf is a Profile whose Sleep()/Jitter() answers are free (cfg.Static maps "unset" to the
// defaults; a built cfg profile answers 0 / -1 for unset).
type swapProf struct {
	cfg.Static
	sl time.Duration
	j  int8
}

func (p swapProf) Sleep() time.Duration { return p.sl }
func (p swapProf) Jitter() int8         { return p.j }

type setT struct {
	Sleep  int64
	Jitter int
	Kill   *int64
	Work   *ruleT
}

func (v setT) coq() string {
	kill, work := "None", "None"
	if v.Kill != nil {
		kill = "(Some " + vh.Z(*v.Kill) + ")"
	}
	if v.Work != nil {
		work = "(Some " + v.Work.coq() + ")"
	}
	return fmt.Sprintf("(mkS %s %d %s %s)", vh.Z(v.Sleep), v.Jitter, kill, work)
}
func (v setT) desc() map[string]interface{} {
	m := map[string]interface{}{"sleep_ns": v.Sleep, "jitter": v.Jitter}
	if v.Kill != nil {
		m["kill_ns_since_2023-01-01"] = *v.Kill
	}
	if v.Work != nil {
		m["work"] = v.Work.String()
	}
	return m
}
func readSettings(s *c2.Session) setT {
	sl, j, k, w := c2.VerifC19Settings(s)
	v := setT{Sleep: int64(sl), Jitter: int(j)}
	if !k.IsZero() {
		v.Kill = i64p(absNs(k))
	}
	if w != nil {
		v.Work = &ruleT{int(w.Days), int(w.StartHour), int(w.StartMin), int(w.EndHour), int(w.EndMin)}
	}
	return v
}

// what the pushed Profile answers
type pvalT struct {
	Sleep    int64 // Sleep(): <= 0 = not set
	Jitter   int   // Jitter(): -1 = not set
	KillSet  bool  // KillDate() ok
	Kill     *int64
	WorkSet  bool
	Work     ruleT
}

func (v pvalT) coq() string {
	kill, work := "None", "None"
	if v.KillSet {
		if v.Kill != nil {
			kill = "(Some (Some " + vh.Z(*v.Kill) + "))"
		} else {
			kill = "(Some None)"
		}
	}
	if v.WorkSet {
		work = "(Some " + v.Work.coq() + ")"
	}
	return fmt.Sprintf("(mkP %s %s %s %s)", vh.Z(v.Sleep), vh.Z(int64(v.Jitter)), kill, work)
}
func (v pvalT) desc() map[string]interface{} {
	m := map[string]interface{}{"Sleep()_ns": v.Sleep, "Jitter()": v.Jitter, "KillDate()_ok": v.KillSet, "WorkHours()_non_nil": v.WorkSet}
	if v.Kill != nil {
		m["kill_ns_since_2023-01-01"] = *v.Kill
	}
	if v.WorkSet {
		m["work"] = v.Work.String()
	}
	return m
}

type swapConn struct {
	pv       pvalT
	n        int
	old, got setT
	resetsAt [8]int
	over     bool
	sess     *c2.Session
	ready    chan struct{}
}

func (c *swapConn) profile() cfg.Profile {
	p := swapProf{Static: cfg.Static{C: c, H: srvAddr}, sl: time.Duration(c.pv.Sleep), j: int8(c.pv.Jitter)}
	if c.pv.KillSet {
		var k time.Time
		if c.pv.Kill != nil {
			k = epoch0.Add(time.Duration(*c.pv.Kill))
		}
		p.Static.K = &k
	}
	if c.pv.WorkSet {
		w := c.pv.Work.wh()
		p.Static.A = &w
	}
	return p
}

// Connect #0 initial, #1 stores the new Profile in s.swap (as the MvProfile handler does), #2 is
// the first Connect after the swap (settings are read), #3 calls Close(), #4 is the notice.
func (c *swapConn) Connect(x context.Context, a string) (net.Conn, error) {
	if c.n > 0 {
		<-c.ready
	}
	fakeMu.Lock()
	idx, s := c.n, c.sess
	c.n++
	if idx < len(c.resetsAt) {
		c.resetsAt[idx] = len(e2eResets)
	}
	fakeMu.Unlock()
	switch {
	case idx == 1 && s != nil:
		c.old = readSettings(s)
		c2.VerifC19SetSwap(s, c.profile())
	case idx == 2 && s != nil:
		c.got = readSettings(s)
	case idx == 3 && s != nil:
		c2.VerifC19CloseNoWait(s)
	case idx > 4:
		c.over = true
		if s != nil {
			c2.VerifC19CloseNoWait(s)
		}
	}
	return com.TCP.Connect(x, a)
}

func runSwapScenario(oldSleep int64, oldJ int, oldKill *int64, oldWork *ruleT, pv pvalT, t0 int64, class string) {
	e2eRuns++
	fakeMu.Lock()
	fakeNow, curSess, e2eResets, e2eLastD = epoch0.Add(time.Duration(t0)), nil, nil, 0
	fakeMu.Unlock()
	cc := &swapConn{pv: pv, ready: make(chan struct{})}
	dbg("swap scenario old jitter %d profile %+v", oldJ, pv)
	p := cfg.Static{C: cc, H: srvAddr, S: time.Duration(oldSleep), J: int8(oldJ)}
	if oldKill != nil {
		k := epoch0.Add(time.Duration(*oldKill))
		p.K = &k
	}
	if oldWork != nil {
		w := oldWork.wh()
		p.A = &w
	}
	old := local.UUID
	ub := rng.Bytes(len(local.UUID))
	ub[0] |= 1
	copy(local.UUID[:], ub)
	ctx, cancel := context.WithCancel(context.Background())
	s, err := c2.ConnectContext(ctx, logx.NOP, p)
	local.UUID = old
	if err != nil {
		cancel()
		panic("harness: swap scenario: connect: " + err.Error())
	}
	cc.sess = s
	close(cc.ready)
	select {
	case <-s.Done():
	case <-time.After(20 * time.Second):
		cancel()
		panic("harness: swap scenario did not end within 20 s")
	}
	cancel()
	fakeMu.Lock()
	resets := append([]int64(nil), e2eResets...)
	lastD := e2eLastD
	fakeMu.Unlock()
	if cc.n < 4 || cc.over {
		panic(fmt.Sprintf("harness: swap scenario made %d connects", cc.n))
	}
	// the delay of the first wait() that ran with the new settings: the last timer armed
	// between Connect #2 and Connect #3 (earlier ones in that wait are work-hours waits)
	if cc.resetsAt[3] <= cc.resetsAt[2] {
		panic("harness: swap scenario: no timer armed after the swap")
	}
	delay := resets[cc.resetsAt[3]-1]
	d := int64(0)
	if cc.got.Jitter >= 1 && cc.got.Jitter <= 100 && cc.got.Sleep > msNs {
		d = lastD
	}
	desc := map[string]interface{}{"before_swap": cc.old.desc(), "profile": pv.desc(), "after_swap": cc.got.desc(),
		"next_delay_ns": delay, "draws": map[string]int64{"gate": 0, "amount_ms": d, "sign": 0}}
	// oracle: the values in force after the swap are the Profile's where it sets them ...
	wantSleep, wantJ := cc.old.Sleep, cc.old.Jitter
	if pv.Sleep > 0 {
		wantSleep = pv.Sleep
	}
	if pv.Jitter >= 0 && pv.Jitter <= 100 {
		wantJ = pv.Jitter
	}
	if cc.got.Sleep != wantSleep {
		out.Fail("after a Profile swap the sleep in force is not the Profile's sleep", "profile-swap-sleep-not-applied", desc)
	}
	if cc.got.Jitter != wantJ {
		k := "profile-swap-jitter-not-applied"
		if pv.Jitter == 0 {
			k = "profile-swap-jitter-0-not-applied"
		}
		out.Fail(fmt.Sprintf("after a Profile swap the jitter in force is %d, the Profile configures %d", cc.got.Jitter, wantJ), k, desc)
	}
	// ... and with a configured jitter of 0 the delay is exactly the configured sleep
	if wantJ == 0 && delay != wantSleep {
		out.Fail(fmt.Sprintf("the configured jitter is 0 and the configured sleep %d ns, but the delay chosen after the Profile swap is %d ns", wantSleep, delay),
			"profile-swap-jitter-0-delay-not-the-sleep", desc)
	}
	if pv.KillSet {
		if (pv.Kill == nil) != (cc.got.Kill == nil) || (pv.Kill != nil && *pv.Kill != *cc.got.Kill) {
			out.Fail("after a Profile swap the kill date in force is not the Profile's", "profile-swap-kill-not-applied", desc)
		}
	}
	if pv.WorkSet {
		w := pv.Work.wh()
		if w.Empty() != (cc.got.Work == nil) || (!w.Empty() && *cc.got.Work != pv.Work) {
			out.Fail("after a Profile swap the work hours in force are not the Profile's", "profile-swap-workhours-not-applied", desc)
		}
	}
	out.Add(fmt.Sprintf("CSwap %s %s %s 0 %s 0 %s", cc.old.coq(), pv.coq(), cc.got.coq(), vh.Z(d), vh.Z(delay)), class,
		cc.old.Jitter != cc.got.Jitter || cc.old.Sleep != cc.got.Sleep || pv.KillSet || pv.WorkSet, desc)
}

func runSwap() {
	t0 := int64(2*86400+10*3600) * 1000000000 // Tuesday 10:00:00
	s40, s60 := 40*msNs, 60*msNs
	// the grid: old jitter x Profile jitter x Profile sleep
	for _, oj := range []int{0, 1, 50, 100} {
		for _, pj := range []int{-1, 0, 1, 100} {
			for _, ps := range []int64{0, s40} {
				runSwapScenario(s60, oj, nil, nil, pvalT{Sleep: ps, Jitter: pj}, t0, "swap-e2e/grid")
			}
		}
	}
	// other Jitter() answers (int8), kill date and work hours carried by the Profile
	far := t0 + 400*dayNs
	workday, night, emptyR := ruleT{62, 9, 0, 17, 0}, ruleT{0, 8, 30, 0, 0}, ruleT{255, 0, 0, 0, 0}
	extra := []struct {
		oj            int
		okill         *int64
		owork         *ruleT
		pv            pvalT
	}{
		{100, nil, nil, pvalT{Sleep: -5, Jitter: 101}},
		{50, nil, nil, pvalT{Sleep: s40, Jitter: 127}},
		{50, nil, nil, pvalT{Sleep: s40, Jitter: -128}},
		{100, nil, nil, pvalT{Sleep: msNs, Jitter: 0}},
		{0, nil, nil, pvalT{Sleep: 3600 * 1000 * msNs, Jitter: 99}},
		{100, nil, nil, pvalT{Sleep: s40, Jitter: 0, KillSet: true, Kill: &far}},
		{100, &far, nil, pvalT{Sleep: 0, Jitter: -1, KillSet: true}}, // ok with the zero time: clears the date
		{1, &far, nil, pvalT{Sleep: s40, Jitter: 0}},
		{100, nil, nil, pvalT{Sleep: s40, Jitter: 0, WorkSet: true, Work: workday}},
		{100, nil, &workday, pvalT{Sleep: s40, Jitter: 0, WorkSet: true, Work: emptyR}}, // Empty rule clears
		{50, nil, &workday, pvalT{Sleep: 0, Jitter: 0, WorkSet: true, Work: night}},
		{50, nil, &workday, pvalT{Sleep: s40, Jitter: -1}},
	}
	for _, e := range extra {
		runSwapScenario(s60, e.oj, e.okill, e.owork, e.pv, t0, "swap-e2e/extra")
	}
	n := 0
	if thorough {
		n = 120
	}
	for i := 0; i < n; i++ {
		pv := pvalT{Sleep: []int64{0, -1, msNs, s40, 1000 * msNs}[rng.Intn(5)], Jitter: rng.Intn(256) - 128}
		if rng.Intn(3) == 0 {
			pv.Jitter = []int{-1, 0, 1, 100, 101}[rng.Intn(5)]
		}
		runSwapScenario([]int64{msNs, s60, 1000 * msNs}[rng.Intn(3)], rng.Intn(101), nil, nil, pv, t0, "swap-e2e/random")
	}
}

// ------------------------------------------------------------------ runtime kill-date update (MvTime)

// runKillUpdate: the client-side handler of a kill-date update (muxHandleInternal, MvTime /
// timeKillDate) on a bare client Session under the injected clock, followed by one wait().
func runKillUpdate() {
	h := jitterHooks()
	c2.VerifC19Set(h)
	cfg.VerifC19SetNow(func() time.Time { return fakeNow })
	defer c2.VerifC19Set(nil)
	defer cfg.VerifC19SetNow(nil)
	ws := c2.VerifC19Waiter()
	now := int64(2*86400+10*3600) * 1000000000 // Tuesday 10:00:00
	nowUnix := epoch0.Unix() + now/1000000000
	sleep := 60 * msNs
	type upd struct {
		name string
		u    int64
	}
	ups := []upd{{"zero (clear)", 0}, {"two hours ago", nowUnix - 7200}, {"one second ago", nowUnix - 1}, {"now", nowUnix},
		{"in one second", nowUnix + 1}, {"in two hours", nowUnix + 7200}, {"1 (1970)", 1}, {"negative", -5}, {"far future", nowUnix + 400*86400}}
	for _, before := range []*int64{nil, i64p(now + 3600*1000000000), i64p(now - 3600*1000000000)} {
		for _, up := range ups {
			var bk time.Time
			if before != nil {
				bk = epoch0.Add(time.Duration(*before))
			}
			c2.VerifC19SetKill(ws, bk)
			fakeNow = epoch0.Add(time.Duration(now))
			stored, err := c2.VerifC19MvTimeKill(ws, up.u)
			var st *int64
			if !stored.IsZero() {
				st = i64p(absNs(stored))
			}
			ds = drawScript{}
			lastReset = lastReset[:0]
			closing, pan := c2.VerifC19WaitKeepKill(ws, time.Duration(sleep))
			if pan != nil {
				panic(fmt.Sprintf("harness: wait() panicked: %v", pan))
			}
			now2 := absNs(fakeNow)
			d := map[string]interface{}{"update": up.name, "update_unix": up.u, "now_unix": nowUnix, "kill_before": bk.Format(time.RFC3339),
				"kill_stored": stored.Format(time.RFC3339), "handler_error": fmt.Sprint(err), "wait_returned_closing": closing, "wait_returned_at_ns": now2}
			// oracle: a value other than 0 is the kill date from now on, and the contact loop is not
			// re-entered after it
			if up.u != 0 {
				if stored.IsZero() || stored.Unix() != up.u {
					out.Fail("a runtime kill-date update with a non-zero value did not become the Session's kill date", "kill-update-not-stored", d)
				}
				if !closing && epoch0.Add(time.Duration(now2)).After(time.Unix(up.u, 0)) {
					out.Fail("after a runtime kill-date update the client went back to its contact loop after the new kill date", "kill-update-not-obeyed", d)
				}
			} else if !stored.IsZero() {
				out.Fail("a kill-date update with value 0 did not clear the kill date", "kill-update-zero-not-cleared", d)
			}
			k := kcfgT{Sleep: sleep}
			sts := "None"
			if st != nil {
				sts = "(Some " + vh.Z(*st) + ")"
			}
			out.Add(fmt.Sprintf("CKillUpd %s %s %s %s %s %s %s", k.coq(), vh.Z(up.u), sts, vh.Z(sleep), vh.Z(now), vh.Z(now2), vh.B(closing)),
				"kill-update/mvtime", up.u != 0, d)
		}
	}
}

// ------------------------------------------------------------------ the spawn path

type refuseConn struct{ at []int64 }

func (c *refuseConn) Connect(context.Context, string) (net.Conn, error) {
	fakeMu.Lock()
	c.at = append(c.at, absNs(fakeNow))
	fakeMu.Unlock()
	return nil, errors.New("scripted connect failure")
}

// runSpawn: connectContextInner with an infoSync block (what LoadContext does for a spawned client,
// job id 0) whose inherited kill date differs from the Profile's; a counting connector that refuses.
func runSpawn() {
	now := int64(2*86400+10*3600) * 1000000000 // Tuesday 10:00:00
	sec := int64(1000000000)
	opt := func(v int64) *int64 { return &v }
	kills := []*int64{nil, opt(now - 7200*sec), opt(now - sec), opt(now), opt(now + sec), opt(now + 7200*sec)}
	waiting := &ruleT{62, 11, 0, 17, 0} // would make a fresh client sleep for an hour first
	for _, pk := range kills {
		for _, ik := range kills {
			for _, pw := range []*ruleT{nil, waiting} {
				k := kcfgT{Sleep: 60 * msNs, Kill: pk, Work: pw}
				fakeMu.Lock()
				fakeNow, curSess = epoch0.Add(time.Duration(now)), nil
				fakeMu.Unlock()
				var ikt time.Time
				if ik != nil {
					ikt = epoch0.Add(time.Duration(*ik))
				}
				info, err := c2.VerifC19SyncInfo(5*time.Second, 0, ikt, nil)
				if err != nil {
					panic("harness: writeDeviceInfo: " + err.Error())
				}
				cc := &refuseConn{}
				p := cfg.Static{C: cc, H: "c19:1", S: time.Duration(k.Sleep), J: 0}
				if pk != nil {
					t := k.killTime()
					p.K = &t
				}
				if pw != nil {
					w := pw.wh()
					p.A = &w
				}
				_, cerr := c2.VerifC19ConnectInner(context.Background(), info, logx.NOP, p)
				d := k.desc()
				d["path"] = "spawn (connectContextInner with the parent's infoSync block)"
				d["now_ns"] = now
				if ik != nil {
					d["inherited_kill_ns_since_2023-01-01"], d["inherited_kill"] = *ik, ikt.Format(time.RFC3339Nano)
				} else {
					d["inherited_kill"] = "none"
				}
				d["connect_instants_ns"] = cc.at
				d["error"] = fmt.Sprint(cerr)
				// oracle: the kill date in force after the device info was absorbed is the inherited one
				if ik != nil {
					for _, t := range cc.at {
						if t > *ik {
							out.Fail("a spawned client dialed although its effective (inherited) kill date had passed", "spawn-connect-after-effective-kill", d)
						}
					}
				}
				inh := "None"
				if ik != nil {
					inh = "(Some " + vh.Z(*ik) + ")"
				}
				out.Add(fmt.Sprintf("CSpawn %s %s %s %s", k.coq(), inh, vh.Z(now), vh.ZList64(cc.at)), "spawn/kill-date", ik != nil || pk != nil, d)
			}
		}
	}
}

// ------------------------------------------------------------------ effective delay (real time)

// staleTickSurvivesReset probes the timer semantics of THIS build: under the `go 1.18` line of the
// main module (GODEBUG asynctimerchan=1) a Ticker's channel is buffered and a tick that fired
// before Reset is still received afterwards; with go >= 1.23 semantics it is not.
func staleTickSurvivesReset() bool {
	t := time.NewTicker(2 * time.Millisecond)
	defer t.Stop()
	time.Sleep(15 * time.Millisecond)
	t.Reset(time.Hour)
	select {
	case <-t.C:
		return true
	default:
		return false
	}
}

// slowConn: every contact after the first takes `contact` (spent inside Connect); attempt 2 then
// fails, the others go on to a real exchange.  Start and end of every Connect are recorded.
type slowConn struct {
	contact    time.Duration
	start, end []time.Time
	sess       *c2.Session
	ready      chan struct{}
}

func (c *slowConn) Connect(x context.Context, a string) (net.Conn, error) {
	idx := len(c.start)
	c.start = append(c.start, time.Now())
	if idx > 0 {
		time.Sleep(c.contact)
	}
	var (
		v   net.Conn
		err error
	)
	if idx == 2 {
		err = errors.New("scripted connect failure")
	} else {
		v, err = com.TCP.Connect(x, a)
	}
	if idx >= 3 {
		<-c.ready
		c2.VerifC19CloseNoWait(c.sess)
	}
	c.end = append(c.end, time.Now())
	return v, err
}

// runEffective: a real Session with jitter 0 and NO work hours, real timers; the time between the
// end of an attempt and the start of the next must not be (much) shorter than the sleep.  Being
// late is never a failure.
func runEffective() {
	c2.VerifC19Set(nil)
	cfg.VerifC19SetNow(nil)
	if !staleTickSurvivesReset() {
		out.Note("effective-delay scenarios skipped: in this build a stale tick does not survive Ticker.Reset (timer semantics of go >= 1.23), the drain loop of wait() cannot be observed")
		out.Extra("stale_tick_survives_reset", false)
		return
	}
	out.Extra("stale_tick_survives_reset", true)
	for _, ms := range []int64{20, 40, 80} {
		sleep := time.Duration(ms) * time.Millisecond
		// 2.5 x sleep: the end of the contact does not fall on the grid of the previous period
		cc := &slowConn{contact: 5 * sleep / 2, ready: make(chan struct{})}
		old := local.UUID
		ub := rng.Bytes(len(local.UUID))
		ub[0] |= 1
		copy(local.UUID[:], ub)
		ctx, cancel := context.WithCancel(context.Background())
		s, err := c2.ConnectContext(ctx, logx.NOP, cfg.Static{C: cc, H: srvAddr, S: sleep, J: 0})
		local.UUID = old
		if err != nil {
			cancel()
			panic("harness: effective-delay scenario: connect: " + err.Error())
		}
		cc.sess = s
		close(cc.ready)
		select {
		case <-s.Done():
		case <-time.After(30 * time.Second):
			cancel()
			panic("harness: effective-delay scenario did not end within 30 s")
		}
		cancel()
		var gaps []int64
		var gd []string
		// attempts 1 -> 2 (after a long, successful contact) and 2 -> 3 (after a long, failed one);
		// Close() is called during attempt 3, what follows is the notice without a sleep
		for i := 1; i <= 2 && i+1 < len(cc.start) && i < len(cc.end); i++ {
			g := int64(cc.start[i+1].Sub(cc.end[i]))
			gaps = append(gaps, g)
			gd = append(gd, fmt.Sprintf("attempt %d started %s after attempt %d ended", i+1, time.Duration(g), i))
		}
		desc := map[string]interface{}{"sleep_ns": int64(sleep), "jitter": 0, "work_hours": "none", "contact_ns": int64(cc.contact), "gaps": gd}
		for _, g := range gaps {
			if g*10 < int64(sleep)*8 {
				out.Fail(fmt.Sprintf("jitter is 0 and the sleep is %s, but after a contact of %s the client waited only %s before its next contact", sleep, cc.contact, time.Duration(g)),
					"effective-delay-shorter-than-sleep-after-long-contact", desc)
				break
			}
		}
		out.Add(fmt.Sprintf("CTick %d %d %s", int64(sleep), int64(cc.contact), vh.ZList64(gaps)), "effective-delay/real-time", len(gaps) >= 2, desc)
	}
}

// wakeConn: fast contacts; the harness calls Wake() in the middle of the sleep after attempt 1:
// attempt 2 starts early (that is what Wake is for), the wait AFTER it is undisturbed and must last
// the whole sleep again (the timer is re-armed, it does not stay on the grid of the interrupted sleep).
type wakeConn struct {
	start, end []time.Time
	sess       *c2.Session
	ready      chan struct{}
	wakeAfter  time.Duration
}

func (c *wakeConn) Connect(x context.Context, a string) (net.Conn, error) {
	idx := len(c.start)
	c.start = append(c.start, time.Now())
	v, err := com.TCP.Connect(x, a)
	if idx >= 1 {
		<-c.ready
	}
	if idx == 1 {
		go func(s *c2.Session, d time.Duration) {
			time.Sleep(d)
			s.Wake()
		}(c.sess, c.wakeAfter)
	}
	if idx >= 4 {
		c2.VerifC19CloseNoWait(c.sess)
	}
	c.end = append(c.end, time.Now())
	return v, err
}

func runWake() {
	c2.VerifC19Set(nil)
	cfg.VerifC19SetNow(nil)
	for _, ms := range []int64{80, 120} {
		sleep := time.Duration(ms) * time.Millisecond
		cc := &wakeConn{ready: make(chan struct{}), wakeAfter: sleep * 6 / 10}
		old := local.UUID
		ub := rng.Bytes(len(local.UUID))
		ub[0] |= 1
		copy(local.UUID[:], ub)
		ctx, cancel := context.WithCancel(context.Background())
		s, err := c2.ConnectContext(ctx, logx.NOP, cfg.Static{C: cc, H: srvAddr, S: sleep, J: 0})
		local.UUID = old
		if err != nil {
			cancel()
			panic("harness: wake scenario: connect: " + err.Error())
		}
		cc.sess = s
		close(cc.ready)
		select {
		case <-s.Done():
		case <-time.After(30 * time.Second):
			cancel()
			panic("harness: wake scenario did not end within 30 s")
		}
		cancel()
		// gap 1->2 is the interrupted sleep; gaps 2->3 and 3->4 are undisturbed
		var gaps []int64
		var gd []string
		for i := 1; i <= 3 && i+1 < len(cc.start) && i < len(cc.end); i++ {
			g := int64(cc.start[i+1].Sub(cc.end[i]))
			gd = append(gd, fmt.Sprintf("attempt %d started %s after attempt %d ended", i+1, time.Duration(g), i))
			if i >= 2 {
				gaps = append(gaps, g)
			}
		}
		desc := map[string]interface{}{"sleep_ns": int64(sleep), "jitter": 0, "work_hours": "none", "wake_called_after_ns": int64(cc.wakeAfter),
			"history": "attempt 1, Wake() in mid-sleep, attempt 2, undisturbed sleep, attempt 3, undisturbed sleep, attempt 4", "gaps": gd}
		for _, g := range gaps {
			if g*10 < int64(sleep)*8 {
				out.Fail(fmt.Sprintf("jitter is 0 and the sleep is %s, but the undisturbed wait after a sleep that Wake() had cut short lasted only %s", sleep, time.Duration(g)),
					"effective-delay-shorter-than-sleep-after-wake", desc)
				break
			}
		}
		out.Add(fmt.Sprintf("CTick %d %d %s", int64(sleep), int64(cc.wakeAfter), vh.ZList64(gaps)), "effective-delay/after-wake", len(gaps) >= 2, desc)
	}
}

func okItems(n int) []itemT { return make([]itemT, n) }

func runKill() {
	var slog logx.Log = logx.NOP
	if os.Getenv("C19_DEBUG") == "2" {
		slog = logx.Writer(os.Stderr, logx.Trace)
	}
	srv := c2.NewServer(slog)
	srv.Keys.Fill()
	l, err := srv.Listen("c19", "127.0.0.1:0", cfg.Static{L: com.TCP})
	if err != nil {
		panic("listen: " + err.Error())
	}
	defer srv.Close()
	srvAddr = l.Address()
	time.Sleep(100 * time.Millisecond)
	c2.VerifC19Set(killHooks())
	cfg.VerifC19SetNow(func() time.Time {
		fakeMu.Lock()
		defer fakeMu.Unlock()
		return fakeNow
	})
	defer c2.VerifC19Set(nil)
	defer cfg.VerifC19SetNow(nil)

	t0 := int64(2*86400+10*3600) * 1000000000 // Tuesday 10:00:00
	mon8 := int64(1*86400+8*3600) * 1000000000
	s60 := 60 * msNs
	fail := func(n int, idx ...int) []itemT {
		r := okItems(n)
		for _, i := range idx {
			r[i].Fail = true
		}
		return r
	}
	closeAt := func(n, i int) []itemT {
		r := okItems(n)
		r[i].Close = true
		return r
	}
	workday := &ruleT{62, 9, 0, 17, 0}
	corpus := []scenT{
		// DESIGN section 6: sleep 60 ms, the date passes 30 ms into the third sleep
		{"kill-date-passes-during-sleep", kcfgT{s60, i64p(t0 + 150*msNs), nil}, t0, okItems(8)},
		{"kill-date-before-start", kcfgT{s60, i64p(t0 - 1), nil}, t0, okItems(4)},
		{"kill-date-equals-start", kcfgT{s60, i64p(t0), nil}, t0, okItems(6)},
		{"kill-date-exactly-at-a-wake-up", kcfgT{s60, i64p(t0 + 120*msNs), nil}, t0, okItems(8)},
		{"kill-date-one-ns-before-a-wake-up", kcfgT{s60, i64p(t0 + 120*msNs - 1), nil}, t0, okItems(8)},
		{"kill-date-passes-during-exchange", kcfgT{s60, i64p(t0 + 100*msNs), nil}, t0, []itemT{{}, {DurNs: 70 * msNs}, {}, {}, {}, {}}},
		{"no-kill-date-close-on-third-connect", kcfgT{s60, nil, nil}, t0, closeAt(8, 2)},
		{"close-after-kill-date-far-away", kcfgT{s60, i64p(t0 + 3600*1000*msNs), nil}, t0, closeAt(8, 3)},
		{"connect-failures-then-recover", kcfgT{s60, i64p(t0 + 400*msNs), nil}, t0, fail(12, 1, 2)},
		{"too-many-connect-failures", kcfgT{s60, nil, nil}, t0, fail(12, 1, 2, 3, 4, 5, 6, 7, 8, 9)},
		{"close-during-failing-connect", kcfgT{s60, nil, nil}, t0, []itemT{{}, {}, {Fail: true, Close: true}, {}, {}}},
		{"initial-connect-fails", kcfgT{s60, i64p(t0 + 150*msNs), nil}, t0, fail(4, 0)},
		{"shutdown-notice-connect-fails", kcfgT{s60, i64p(t0 + 100*msNs), nil}, t0, fail(8, 2)},
		{"work-hours-wait-then-kill-date-passed", kcfgT{s60, i64p(mon8 + 1800*1000*msNs), workday}, mon8, okItems(4)},
		{"work-hours-wait-then-connect-then-kill", kcfgT{s60, i64p(mon8 + 3600*1000*msNs + 100*msNs), workday}, mon8, okItems(8)},
		{"work-hours-end-then-kill-date-overnight", kcfgT{s60, i64p(mon8 + 12*3600*1000*msNs), workday}, mon8 + 9*3600*1000*msNs - 100*msNs, okItems(8)},
		{"one-hour-sleep", kcfgT{3600 * 1000 * msNs, i64p(t0 + 2*3600*1000*msNs + 1), nil}, t0, okItems(8)},
		{"one-ms-sleep", kcfgT{msNs, i64p(t0 + 3*msNs + 500000), nil}, t0, okItems(10)},
	}
	for i := range corpus {
		runScenario(&corpus[i], "kill-e2e/corpus")
	}
	n := 24
	if thorough {
		n = 400
	}
	sleeps := []int64{msNs, 5 * msNs, s60, 1000 * msNs, 3600 * 1000 * msNs}
	rules := []*ruleT{nil, nil, nil, workday, {0, 10, 0, 10, 1}, {127, 0, 0, 12, 0}, {4, 0, 0, 0, 0}}
	for i := 0; i < n; i++ {
		var sc scenT
		sc.Name = fmt.Sprintf("random-%d", i)
		sc.K.Sleep = sleeps[rng.Intn(len(sleeps))]
		sc.T0 = t0 + int64(rng.Intn(4))*dayNs + int64(rng.Intn(3))*minNs
		sc.K.Work = rules[rng.Intn(len(rules))]
		sc.Script = okItems(18)
		for k := range sc.Script {
			if rng.Intn(8) == 0 {
				sc.Script[k].Fail = true
			}
			if rng.Intn(3) == 0 {
				sc.Script[k].DurNs = int64(rng.U64() % uint64(2*sc.K.Sleep))
			}
		}
		// termination: a kill date within a few sleeps, or a Close()
		if rng.Intn(4) != 0 {
			sc.K.Kill = i64p(sc.T0 + int64(rng.U64()%uint64(7*sc.K.Sleep)) - sc.K.Sleep/2)
			if rng.Intn(3) == 0 {
				sc.K.Kill = i64p(sc.T0 + int64(rng.Intn(6))*sc.K.Sleep) // exactly on a wake-up when durations are 0
			}
		}
		if sc.K.Kill == nil || sc.K.Work != nil || rng.Intn(3) == 0 {
			sc.Script[1+rng.Intn(7)].Close = true
		}
		cl := "kill-e2e/random"
		if sc.K.Work != nil {
			cl += "+work"
		}
		runScenario(&sc, cl)
	}
	runSwap()
	runSpawn()
	runKillUpdate()
	out.Extra("kill_e2e_scenarios", e2eRuns)
	runEffective()
	if staleTickSurvivesReset() {
		runWake()
	}
}

func main() {
	time.Local = time.UTC
	os.Setenv("TZ", "UTC")
	fl := vh.ParseFlags()
	out = vh.NewOut("C19", fl, "From XMT Require Import Base.Prelude Model.Sched.", "case", "check",
		"WorkHours.Work under an injected clock: 256 day masks x 156 (start,end) pairs (equal, zero, end<start, 23:59, minute 60, out of range) x instants at "+
			"every rule edge +-1 ns/+-1 min, midnight, each weekday, month/year ends, leap day, random (one Coq case = one rule with a batch of instants); "+
			"wait(): sleeps {1 ms, 1 ms+1 ns, 2 ms, 1 s, 1 h, 2^62, above 2^62} x jitter 0..255 x scripted draws (gate 0/j-1/j/99, amount 0/1/max/random/wrap edge, both signs), "+
			"single wait() steps with kill date / work hours; kill date: real sessions over TCP loopback with a counting connector and the injected clock. "+
			"distinct = distinct Coq case term or oracle-only key; non-trivial = non-empty rule with both answers / a delay different from the sleep / kill date or work hours set / two or more connects")
	out.ShardSize = 150
	rng = vh.NewRand(fl.Seed)
	thorough = fl.Tier == "thorough"
	runKill()
	dbg("wait steps")
	runWaitSteps()
	dbg("jitter")
	runJitter()
	dbg("work")
	runWork()
	out.Finish()
}
