// C13 harness: the session state word (c2/state.go) on the real `state` type.
//
// Sequential part (correspondence + oracle): every one of the 2^16 flag states, under a boundary /
// hashed group value, is put through every method; the Go-side oracle runs on every row, and the
// results of 64 consecutive flag states are folded into one digest per CBlock case which the
// Gallina model recomputes inside Coq (a literal case per row costs Coq more to parse than to
// evaluate).  Single rows with free group values (CRow: boundary grid + random), random multi-bit
// mutator calls (CMut) and random call sequences (CSeq) follow.  The Go-side oracle states the property
// itself: a mutator changes exactly its own bits, the two halves are independent, closed
// dominates, the channel request protocol, the 'updated' notice is consumed once.
//
// Concurrent part (search only, no model case): 2 and 4 goroutines in tight set/check/unset loops
// on disjoint bits, and SetLast against Set, on one shared word under GOMAXPROCS >= 4; and the channel
// request protocol: SetChannel on one goroutine against a goroutine polling ChannelCanStop (an off
// request must be answered by exactly one "stop", an on request by none; key "channel-protocol-race").  Each
// goroutine is the only writer of its bits (or of the group half), so with atomic
// read-modify-write mutators every check must succeed; a failed check is a lost update
// (oracle failure, key "lost-update").
package main

import (
	"encoding/json"
	"fmt"
	"os"
	"path/filepath"
	"runtime"
	"sync"
	"sync/atomic"
	"time"

	"github.com/iDigitalFlame/xmt/c2"

	"verifharness/vh"
)

type S = c2.VerifC13State

var out *vh.Out
var stressOps int64
var protoRounds int64

// modelWitness is what tools/propcfg/c13.py wrote into <out>/witness.json before this run: the
// atomic shapes atomics2v translated from the c2/state.go under check and, evaluated inside Coq on
// those generated terms, the three-step schedule [T0.load; T1 runs to completion; T0.rest].  It is
// attached to the replay of a lost update observed by the stress run (nil when the file is absent).
var modelWitness interface{}

var bits = c2.VerifC13Bits

const (
	bCanRecv = iota
	bReady
	bClosed
	bClosing
	bShutdown
	bSendClose
	bRecvClose
	bWakeClose
	bChannel
	bChannelValue
	bChannelUpdated
	bChannelProxy
	bSeen
	bMoving
	bReplacing
	bShutdownWait
)

func word(s *S) uint32 { return atomic.LoadUint32((*uint32)(s)) }

func b2u(b bool) uint64 {
	if b {
		return 1
	}
	return 0
}

const mixMul = 1000003

func mix(h uint64, x uint32) uint64 { return h*mixMul + uint64(x) + 1 }
func mix64(h, x uint64) uint64      { return h*mixMul + x + 1 }

type row struct {
	w                       uint32
	pv                      uint64
	last                    uint16
	wget                    uint32 // the word after all the getters ran on one copy
	wtag, wstop, won, woff  uint32
	rtag, rstop, ron, roff  bool
	gs                      []uint16
	set, unset              [16]uint32
	setlast                 []uint32
	lastAfter               []uint16
	stop2ret                bool
	wstop2                  uint32
	closed, ready, canrecv  bool
	closing, value, channel bool
	proxy, updated          bool
	dg                      uint64
	sweep                   []uint32 // Model/State.v sweep: every word left by a call, in order
}

// evalRow runs every method on copies of w.
func evalRow(w uint32, gs []uint16) (r row) {
	r.w, r.gs = w, gs
	s := S(w)
	// the getters, all on the same copy, in the order of Model/State.v pred_vector
	g := []bool{s.Seen(), s.Ready(), s.Moving(), s.Closed(), s.CanRecv(), s.Closing(), s.Channel(), s.Shutdown(),
		s.Replacing(), s.RecvClosed(), s.SendClosed(), s.WakeClosed(), s.ShutdownWait(), s.ChannelValue(),
		s.ChannelProxy(), s.ChannelUpdated(), s.ChannelCanStart()}
	r.last = s.Last()
	r.wget = word(&s)
	r.ready, r.closed, r.canrecv, r.closing, r.channel = g[1], g[3], g[4], g[5], g[6]
	r.value, r.proxy, r.updated = g[13], g[14], g[15]
	a := S(w)
	r.rtag = a.Tag()
	r.wtag = word(&a)
	b := S(w)
	r.rstop = b.ChannelCanStop()
	r.wstop = word(&b)
	r.stop2ret = b.ChannelCanStop() // a second call without a new request
	r.wstop2 = word(&b)
	c := S(w)
	r.ron = c.SetChannel(true)
	r.won = word(&c)
	d := S(w)
	r.roff = d.SetChannel(false)
	r.woff = word(&d)
	g = append(g, r.rtag, r.rstop, r.ron, r.roff)
	for i, x := range g {
		r.pv |= b2u(x) << uint(i)
	}
	h := mix(0, r.wget)
	r.sweep = append(r.sweep, r.wget, r.wtag, r.wstop, r.won, r.woff)
	for _, x := range []uint32{r.wtag, r.wstop, r.won, r.woff} {
		h = mix(h, x)
	}
	for i, m := range bits {
		x := S(w)
		x.Set(m)
		r.set[i] = word(&x)
		r.sweep = append(r.sweep, r.set[i])
		h = mix(h, r.set[i])
	}
	for i, m := range bits {
		x := S(w)
		x.Unset(m)
		r.unset[i] = word(&x)
		r.sweep = append(r.sweep, r.unset[i])
		h = mix(h, r.unset[i])
	}
	for _, gv := range gs {
		x := S(w)
		x.SetLast(gv)
		r.setlast = append(r.setlast, word(&x))
		r.lastAfter = append(r.lastAfter, x.Last())
		r.sweep = append(r.sweep, word(&x))
		h = mix(h, word(&x))
	}
	r.dg = h
	return r
}

func (r *row) desc() map[string]interface{} {
	return map[string]interface{}{"word": r.w, "flags": r.w & 0xFFFF, "group": r.w >> 16}
}

// oracle: the property itself, evaluated on the implementation's results for this row.
func (r *row) oracle() {
	w := r.w
	fail := func(what, key string, extra map[string]interface{}) {
		d := r.desc()
		for k, v := range extra {
			d[k] = v
		}
		out.Fail(what, key, d)
	}
	if r.wget != w {
		fail("a getter changed the state word", "getter-mutates", map[string]interface{}{"after": r.wget})
	}
	for i, m := range bits {
		if r.set[i] != w|m {
			fail("Set(bit) did not set exactly that bit (another flag or the group half changed, or the bit is missing)", "set-bit",
				map[string]interface{}{"method": "Set", "arg": m, "after": r.set[i], "want": w | m})
		}
		if r.unset[i] != w&^m {
			fail("Unset(bit) did not clear exactly that bit", "unset-bit",
				map[string]interface{}{"method": "Unset", "arg": m, "after": r.unset[i], "want": w &^ m})
		}
	}
	for i, g := range r.gs {
		if r.setlast[i] != uint32(g)<<16|w&0xFFFF || r.lastAfter[i] != g {
			fail("SetLast(g) altered the flags or Last() does not return g", "setlast",
				map[string]interface{}{"method": "SetLast", "arg": g, "after": r.setlast[i], "last": r.lastAfter[i]})
		}
	}
	if r.last != uint16(w>>16) {
		fail("Last() is not the high half", "last", map[string]interface{}{"last": r.last})
	}
	// no flag operation may touch the group half
	for _, p := range []struct {
		n string
		v uint32
	}{{"Tag", r.wtag}, {"ChannelCanStop", r.wstop}, {"SetChannel(true)", r.won}, {"SetChannel(false)", r.woff}} {
		if p.v>>16 != w>>16 {
			fail(p.n+" altered the group half", "group-altered", map[string]interface{}{"method": p.n, "after": p.v})
		}
	}
	// closed dominates
	if r.closed && (r.ready || r.canrecv || !r.closing) {
		fail("a closed state reports ready / receivable / non-closing", "closed-dominates",
			map[string]interface{}{"ready": r.ready, "canrecv": r.canrecv, "closing": r.closing})
	}
	// channel request protocol
	vbit, ubit := bits[bChannelValue], bits[bChannelUpdated]
	chk := func(e, ret bool, after uint32) {
		name := fmt.Sprintf("SetChannel(%t)", e)
		differs := (e && !r.value) || (!e && (r.value || (r.channel && r.proxy)))
		switch {
		case !ret && after != w:
			fail(name+" returned false but changed the state", "channel-protocol", map[string]interface{}{"method": name, "after": after})
		case ret != differs:
			fail(name+" does not report whether the request differs from the standing request", "channel-protocol",
				map[string]interface{}{"method": name, "ret": ret, "value": r.value, "channel": r.channel, "proxy": r.proxy})
		case ret:
			want := w&^vbit | ubit
			if e {
				want |= vbit
			}
			if after != want {
				fail(name+" changed something other than the request bit and the updated notice", "channel-protocol",
					map[string]interface{}{"method": name, "after": after, "want": want})
			}
		}
	}
	chk(true, r.ron, r.won)
	chk(false, r.roff, r.woff)
	// the updated notice is consumed exactly once
	active := !r.closing && r.channel
	switch {
	case active && r.updated:
		if r.wstop != w&^ubit || r.rstop != !r.value {
			fail("ChannelCanStop did not consume the updated notice (exactly that bit) or misreports the request", "updated-once",
				map[string]interface{}{"after": r.wstop, "ret": r.rstop})
		}
		if r.wstop2 != r.wstop || r.stop2ret {
			fail("a second ChannelCanStop without a new request saw the notice again", "updated-once",
				map[string]interface{}{"after": r.wstop2, "ret": r.stop2ret})
		}
	default:
		if r.wstop != w || r.wstop2 != w {
			fail("ChannelCanStop changed the state without a pending notice", "updated-once", map[string]interface{}{"after": r.wstop})
		}
	}
	// Tag: the seen mark is taken once
	if seen := w&bits[bSeen] != 0; r.rtag != seen || r.wtag != w&^bits[bSeen] {
		fail("Tag did not take exactly the seen mark", "tag", map[string]interface{}{"after": r.wtag, "ret": r.rtag})
	}
}

func (r *row) emit(class string) {
	// hexadecimal numerals: Coq parses them markedly faster than decimal ones
	gl := make([]string, len(r.gs))
	for i, g := range r.gs {
		gl[i] = fmt.Sprintf("0x%x", g)
	}
	term := fmt.Sprintf("CRow 0x%x 0x%x %s 0x%x", r.w, r.pv|uint64(r.last)<<21, vh.List(gl), r.dg)
	f := r.w & 0xFFFF
	// non-trivial: at least one flag set and at least one of the compound predicates / protocol calls is not constant
	out.Add(term, class, f != 0, map[string]interface{}{"word": r.w, "flags": f, "group": r.w >> 16, "results": r.pv, "last": r.last, "after_tag_stop_on_off": []uint32{r.wtag, r.wstop, r.won, r.woff}, "groups": r.gs})
}

func doRow(w uint32, gs []uint16, class string) {
	defer func() {
		if x := recover(); x != nil {
			out.Fail(fmt.Sprintf("a state method panicked: %v", x), "panic", map[string]interface{}{"word": w})
		}
	}()
	r := evalRow(w, gs)
	r.oracle()
	r.emit(class)
}

// ---- blocks of consecutive flag states (Model/State.v blk_*, block_digest)

var edgeGroups = []uint16{0, 0xFFFF, 1, 0x8000, 0x00FF, 0xFF00}

func edgeGroup(i uint64) uint16  { return edgeGroups[i%6] }
func blkHash(s, f uint64) uint16 { return uint16(((f + 1) * (2*s + 1) * 40503) >> 3) }
func blkGroup(s, f uint64) uint16 {
	if f&3 == 0 {
		return edgeGroup(f>>2 + s)
	}
	return blkHash(s, f)
}
func blkArgs(s, f uint64) []uint16 {
	a := blkHash(s+1, f)
	if f&7 == 1 {
		a = blkGroup(s, f)
	}
	return []uint16{a, edgeGroup(f + s)}
}

// doBlock runs the n flag states f0.. through every method (oracle on every row) and emits ONE
// case carrying the digest of all their results.
func doBlock(s, f0, n uint64) {
	var h uint64
	nontriv := false
	var first *row
	for f := f0; f < f0+n; f++ {
		w := uint32(blkGroup(s, f))<<16 | uint32(f)
		gs := blkArgs(s, f)
		func() {
			defer func() {
				if x := recover(); x != nil {
					out.Fail(fmt.Sprintf("a state method panicked: %v", x), "panic", map[string]interface{}{"word": w})
				}
			}()
			r := evalRow(w, gs)
			r.oracle()
			h = mix64(h, r.pv|uint64(r.last)<<21)
			for _, x := range r.sweep {
				h = mix(h, x)
			}
			if first == nil {
				first = &r
			}
		}()
		out.Count("row", fmt.Sprintf("%x/%x/%x", w, gs[0], gs[1]), f != 0)
		nontriv = nontriv || f != 0
	}
	desc := map[string]interface{}{"block_seed": s, "first_flags": f0, "rows": n, "digest": h,
		"note": "rows f0..f0+n-1; group half and SetLast arguments derived from the block seed (Model/State.v blk_group, blk_args)"}
	if first != nil {
		desc["first_row"] = map[string]interface{}{"word": first.w, "results": first.pv, "last": first.last, "groups": first.gs,
			"after_tag_stop_on_off": []uint32{first.wtag, first.wstop, first.won, first.woff}}
	}
	out.Add(fmt.Sprintf("CBlock 0x%x 0x%x %d 0x%x", s, f0, n, h), "row-block", nontriv, desc)
}

// applyOp mirrors Model/State.v apply_op: 0 Set 1 Unset 2 SetLast 3 Tag 4 ChannelCanStop 5 SetChannel(true) 6 SetChannel(false)
func applyOp(s *S, op int, v uint32) bool {
	switch op {
	case 0:
		s.Set(v)
	case 1:
		s.Unset(v)
	case 2:
		s.SetLast(uint16(v))
	case 3:
		return s.Tag()
	case 4:
		return s.ChannelCanStop()
	case 5:
		return s.SetChannel(true)
	default:
		return s.SetChannel(false)
	}
	return false
}

var opNames = []string{"Set", "Unset", "SetLast", "Tag", "ChannelCanStop", "SetChannel(true)", "SetChannel(false)"}

func doMut(op int, w, v uint32, class string) {
	s := S(w)
	applyOp(&s, op, v)
	a := word(&s)
	desc := map[string]interface{}{"method": opNames[op], "word": w, "arg": v, "after": a}
	out.Add(fmt.Sprintf("CMut %d %d %d %d", op, w, v, a), class, v != 0, desc)
	// oracle: one part never alters the other (arguments confined to their half)
	switch {
	case op == 0 && v < 1<<16 && a != w|v:
		out.Fail("Set(v) with a flag-half argument did not yield word|v", "set-bits", desc)
	case op == 1 && v < 1<<16 && a != w&^v:
		out.Fail("Unset(v) with a flag-half argument did not yield word&^v", "unset-bits", desc)
	case op == 2 && (a != v<<16|w&0xFFFF || s.Last() != uint16(v)):
		out.Fail("SetLast(g) altered the flags or Last() does not return g", "setlast", desc)
	}
}

func doSeq(w uint32, ops [][2]uint32, class string) {
	s := S(w)
	var rets uint64
	terms := make([]string, len(ops))
	hist := make([]map[string]interface{}, len(ops))
	for i, o := range ops {
		before := word(&s)
		r := applyOp(&s, int(o[0]), o[1])
		rets |= b2u(r) << uint(i)
		after := word(&s)
		terms[i] = fmt.Sprintf("(%d,%d)", o[0], o[1])
		hist[i] = map[string]interface{}{"method": opNames[o[0]], "arg": o[1], "ret": r, "after": after}
		// oracle: the half that the call does not own is unchanged
		if o[0] == 2 {
			if after&0xFFFF != before&0xFFFF || s.Last() != uint16(o[1]) {
				out.Fail("SetLast(g) altered the flags or Last() does not return g", "setlast", map[string]interface{}{"word": w, "history": hist[:i+1]})
			}
		} else if (o[0] >= 3 || o[1] < 1<<16) && after>>16 != before>>16 {
			out.Fail(opNames[o[0]]+" altered the group half", "group-altered", map[string]interface{}{"word": w, "history": hist[:i+1]})
		}
	}
	out.Add(fmt.Sprintf("CSeq %d %s %d %d", w, vh.List(terms), word(&s), rets), class, len(ops) > 1,
		map[string]interface{}{"word": w, "history": hist})
}

// ---------------------------------------------------------------- the word through the connHost wrappers

var hostKinds = []string{"client *Session", "*proxyClient", "server *Session"}
var hostOps = []string{"stateSet", "stateUnset", "chanRunning", "chanStart", "chanStop", "close(false)"}

// hostApply mirrors Model/State.v host_op
func hostApply(h *c2.VerifC13Host, op int, v uint32) bool {
	switch op {
	case 0:
		h.StateSet(v)
	case 1:
		h.StateUnset(v)
	case 2:
		return h.ChanRunning()
	case 3:
		return h.ChanStart()
	case 4:
		return h.ChanStop()
	default:
		h.Close()
	}
	return false
}

// doHost runs a history through the connHost methods of one host (ops that the bare host cannot
// execute are replaced by chanRunning), with the oracle on every step.
func doHost(kind int, w uint32, ops [][2]uint32, class string) {
	defer func() {
		if x := recover(); x != nil {
			out.Fail(fmt.Sprintf("a connHost method panicked: %v", x), "panic", map[string]interface{}{"host": hostKinds[kind], "word": w, "ops": ops})
		}
	}()
	h := c2.VerifC13NewHost(kind, w)
	var rets uint64
	terms := make([]string, len(ops))
	hist := make([]map[string]interface{}, len(ops))
	for i, o := range ops {
		op := int(o[0])
		if op == 5 && !h.CloseCovered() {
			op, o[1] = 2, 0
		}
		before := h.Word()
		r := hostApply(h, op, o[1])
		after := h.Word()
		rets |= b2u(r) << uint(i)
		terms[i] = fmt.Sprintf("(%d,%d)", op, o[1])
		hist[i] = map[string]interface{}{"method": hostOps[op], "arg": o[1], "ret": r, "before": before, "after": after}
		d := map[string]interface{}{"host": hostKinds[kind], "word": w, "history": hist[:i+1]}
		switch op {
		case 0:
			if after != before|o[1] {
				out.Fail(fmt.Sprintf("a flag set through %s.stateSet did not take effect", hostKinds[kind]), "host-set", d)
			}
		case 1:
			if after != before&^o[1] {
				out.Fail(fmt.Sprintf("a flag clear through %s.stateUnset did not take effect (word 0x%x, Unset(0x%x) left 0x%x)", hostKinds[kind], before, o[1], after), "host-unset", d)
			}
		case 2:
			if r != (before&bits[bChannel] != 0) || after != before {
				out.Fail("chanRunning does not report the Channel flag", "host-running", d)
			}
		case 5:
			closing := before&(bits[bClosing]|bits[bClosed]) != 0
			if !closing && after&(bits[bChannel]|bits[bChannelValue]|bits[bChannelUpdated]) != 0 {
				out.Fail(fmt.Sprintf("Session.close left part of the channel request behind (word 0x%x -> 0x%x): a notice that outlives its request is consumed by the next, unrelated channel", before, after), "close-leaves-notice", d)
			}
			if !closing && after&(bits[bClosing]|bits[bClosed]) == 0 {
				// the Session keeps running: the peer starts a channel, the first poll must not find a stale notice
				x := c2.VerifC13NewHost(kind, after)
				x.StateSet(bits[bChannel])
				if x.ChanStop() {
					d["after_channel_start"] = x.Word()
					out.Fail(fmt.Sprintf("after Session.close (word 0x%x -> 0x%x) a channel started by the peer is stopped by its first ChannelCanStop: a stale notice was consumed", before, after), "close-leaves-notice", d)
				}
			}
		}
	}
	out.Add(fmt.Sprintf("CHost %d %d %s %d %d", kind, w, vh.List(terms), h.Word(), rets), class, len(ops) > 1,
		map[string]interface{}{"host": hostKinds[kind], "word": w, "history": hist})
}

// ---------------------------------------------------------------- concurrent search

type lostInfo struct {
	Kind      string `json:"kind"` // set | unset | setlast
	Goroutine int    `json:"goroutine"`
	Iteration int    `json:"iteration"`
	Arg       uint32 `json:"arg"`
	Observed  uint32 `json:"observed_word"`
}

type stressCfg struct {
	Name      string   `json:"name"`
	Setters   []uint32 `json:"setter_bits"` // one goroutine per entry: Set(b) check Unset(b) check
	GroupGoer bool     `json:"setlast_goroutine"`
	Millis    int      `json:"millis"`
	Init      uint32   `json:"initial_word"`
	Via       string   `json:"via,omitempty"` // "" = the bare state value; "session" / "proxyclient" = through the connHost methods stateSet / stateUnset
}

// wordAccess: how the goroutines of the stress run reach the word
type wordAccess struct {
	set, unset func(uint32)
	setlast    func(uint16)
	load       func() uint32
}

func newWordAccess(via string, init uint32) wordAccess {
	switch via {
	case "session", "proxyclient":
		kind := 0
		if via == "proxyclient" {
			kind = 1
		}
		h := c2.VerifC13NewHost(kind, init)
		return wordAccess{set: h.StateSet, unset: h.StateUnset, setlast: func(uint16) {}, load: h.Word}
	}
	p := new(S)
	*p = S(init)
	return wordAccess{set: p.Set, unset: p.Unset, setlast: p.SetLast, load: func() uint32 { return word(p) }}
}

// stress runs the configuration once and returns the number of operations, the number of lost
// updates and the first one observed.
func stress(c stressCfg) (ops, lost int64, first *lostInfo) {
	s := newWordAccess(c.Via, c.Init)
	var mu sync.Mutex
	var stop int32
	var wg sync.WaitGroup
	start := make(chan struct{})
	record := func(l lostInfo) {
		mu.Lock()
		if first == nil {
			first = &l
		}
		mu.Unlock()
	}
	for gi, b := range c.Setters {
		wg.Add(1)
		go func(gi int, b uint32) {
			defer wg.Done()
			var n, l int64
			<-start
			for i := 0; atomic.LoadInt32(&stop) == 0; i++ {
				s.set(b)
				if x := s.load(); x&b != b {
					if l == 0 {
						record(lostInfo{"set", gi, i, b, x})
					}
					l++
				}
				s.unset(b)
				if x := s.load(); x&b != 0 {
					if l == 0 {
						record(lostInfo{"unset", gi, i, b, x})
					}
					l++
				}
				n += 2
			}
			atomic.AddInt64(&ops, n)
			atomic.AddInt64(&lost, l)
		}(gi, b)
	}
	if c.GroupGoer {
		wg.Add(1)
		go func(gi int) {
			defer wg.Done()
			var n, l int64
			<-start
			for i := 0; atomic.LoadInt32(&stop) == 0; i++ {
				g := uint16(i*40503 + 1)
				s.setlast(g)
				if x := s.load(); uint16(x>>16) != g {
					if l == 0 {
						record(lostInfo{"setlast", gi, i, uint32(g), x})
					}
					l++
				}
				n++
			}
			atomic.AddInt64(&ops, n)
			atomic.AddInt64(&lost, l)
		}(len(c.Setters))
	}
	close(start)
	time.Sleep(time.Duration(c.Millis) * time.Millisecond)
	atomic.StoreInt32(&stop, 1)
	wg.Wait()
	return
}

// programs describes what each goroutine of the configuration executes.
func programs(c stressCfg) []string {
	var p []string
	for i, b := range c.Setters {
		p = append(p, fmt.Sprintf("goroutine %d: loop { Set(0x%x); load, expect bit 0x%x set; Unset(0x%x); load, expect bit 0x%x clear }", i, b, b, b, b))
	}
	if c.GroupGoer {
		p = append(p, fmt.Sprintf("goroutine %d: loop i { g := uint16(i*40503+1); SetLast(g); load, expect high half == g }", len(c.Setters)))
	}
	return p
}

func doStress(c stressCfg) {
	ops, lost, first := stress(c)
	n := len(c.Setters)
	if c.GroupGoer {
		n++
	}
	out.Count("stress-"+c.Name, fmt.Sprintf("%v-%v-%d", c.Setters, c.GroupGoer, c.Init), true)
	stressOps += ops
	out.Extra("stress_ops", stressOps)
	if lost > 0 {
		out.Fail(fmt.Sprintf("lost update: %d of %d concurrent state operations did not take effect (%d goroutines, each the only writer of its bits)", lost, ops, n),
			"lost-update", map[string]interface{}{"stress": c, "goroutines": n, "operations": ops, "lost": lost, "first_lost": first,
				"gomaxprocs": runtime.GOMAXPROCS(0), "goroutine_programs": programs(c), "model_witness": modelWitness,
				"via": c.Via, "how": "each goroutine loops Set(b); check b is set; Unset(b); check b is clear (or SetLast(g); check Last()==g) on ONE shared state word; it is the only writer of b / of the group half"})
	}
}

// ---------------------------------------------------------------- channel protocol race (search)

// protoCfg: one SetChannel(Request) call on one goroutine against a goroutine polling
// ChannelCanStop, round after round from the word Start (a running channel, no pending notice).
type protoCfg struct {
	Name    string `json:"name"`
	Start   uint32 `json:"initial_word"`
	Request bool   `json:"request"`
	Stops   int    `json:"expected_stop_answers"` // polls answering "stop" per round: 1 for an off request, 0 for an on request
	Millis  int    `json:"millis"`
}

type protoBad struct {
	Round     int64  `json:"round"`
	Accepted  bool   `json:"setchannel_answer"`
	Stops     uint32 `json:"stop_answers"`
	Polls     uint32 `json:"polls"`
	Final     uint32 `json:"final_word"`
	NowStop   bool   `json:"channelcanstop_now"`
	Value     bool   `json:"final_channel_value"`
	Updated   bool   `json:"final_channel_updated"`
	StillChan bool   `json:"final_channel"`
}

// protoRace returns the number of rounds played and the first round whose outcome breaks the protocol.
func protoRace(c protoCfg) (rounds int64, bad *protoBad) {
	var (
		s                      S
		round, stop            uint32
		filed, polled          uint32
		stops, polls, accepted uint32
		wg                     sync.WaitGroup
	)
	wg.Add(2)
	go func() { // the user thread: files the request
		defer wg.Done()
		var seen, spin uint32
		for atomic.LoadUint32(&stop) == 0 {
			r := atomic.LoadUint32(&round)
			if r == seen {
				runtime.Gosched()
				continue
			}
			seen = r
			for i := uint32(0); i < r%7; i++ { // vary the alignment of the two threads
				atomic.AddUint32(&spin, 1)
			}
			if s.SetChannel(c.Request) {
				atomic.StoreUint32(&accepted, 1)
			}
			atomic.StoreUint32(&filed, r)
		}
	}()
	go func() { // the channel thread: polls
		defer wg.Done()
		var seen uint32
		for atomic.LoadUint32(&stop) == 0 {
			r := atomic.LoadUint32(&round)
			if r == seen {
				runtime.Gosched()
				continue
			}
			seen = r
			var n, st uint32
			for atomic.LoadUint32(&filed) != r {
				if s.ChannelCanStop() {
					st++
				}
				n++
			}
			if s.ChannelCanStop() { // SetChannel has returned: one more poll
				st++
			}
			atomic.StoreUint32(&stops, st)
			atomic.StoreUint32(&polls, n+1)
			atomic.StoreUint32(&polled, r)
		}
	}()
	deadline := time.Now().Add(time.Duration(c.Millis) * time.Millisecond)
	for r := uint32(1); r < 1<<31; r++ {
		if r&255 == 0 && time.Now().After(deadline) {
			break
		}
		atomic.StoreUint32((*uint32)(&s), c.Start)
		atomic.StoreUint32(&accepted, 0)
		atomic.StoreUint32(&round, r)
		for atomic.LoadUint32(&polled) != r {
		}
		rounds++
		w := word(&s)
		acc, st := atomic.LoadUint32(&accepted) == 1, atomic.LoadUint32(&stops)
		wantValue := c.Request
		if !acc || int(st) != c.Stops || (w&bits[bChannelValue] != 0) != wantValue || w&bits[bChannelUpdated] != 0 || w&bits[bChannel] == 0 {
			x := S(w)
			bad = &protoBad{Round: rounds, Accepted: acc, Stops: st, Polls: atomic.LoadUint32(&polls), Final: w, NowStop: x.ChannelCanStop(),
				Value: w&bits[bChannelValue] != 0, Updated: w&bits[bChannelUpdated] != 0, StillChan: w&bits[bChannel] != 0}
			break
		}
	}
	atomic.StoreUint32(&stop, 1)
	wg.Wait()
	return
}

func doProto(c protoCfg) {
	rounds, bad := protoRace(c)
	out.Count("stress-protocol-"+c.Name, fmt.Sprintf("%x-%t", c.Start, c.Request), true)
	protoRounds += rounds
	out.Extra("protocol_rounds", protoRounds)
	if bad == nil {
		return
	}
	what := fmt.Sprintf("channel protocol broken under concurrency: SetChannel(%t) against a polling ChannelCanStop from word 0x%x: ", c.Request, c.Start)
	switch {
	case !bad.Accepted:
		what += "SetChannel refused a request that differs from the standing one"
	case c.Stops == 1 && bad.Stops == 0:
		what += fmt.Sprintf("the request was accepted but no ChannelCanStop call (nor one more after SetChannel returned) answered stop; final word 0x%x, ChannelCanStop now = %t: the notice was consumed against the old request, the request is lost", bad.Final, bad.NowStop)
	case c.Stops == 0 && bad.Stops > 0:
		what += fmt.Sprintf("a request to turn the channel ON made ChannelCanStop answer stop (final word 0x%x)", bad.Final)
	case int(bad.Stops) != c.Stops:
		what += fmt.Sprintf("%d polls answered stop, expected %d (the notice was not consumed exactly once)", bad.Stops, c.Stops)
	default:
		what += fmt.Sprintf("final word 0x%x does not hold the request with its notice consumed", bad.Final)
	}
	out.Fail(what, "channel-protocol-race", map[string]interface{}{"protocol": c, "outcome": bad, "rounds_played": rounds,
		"gomaxprocs": runtime.GOMAXPROCS(0), "model_witness": modelWitness,
		"goroutine_programs": []string{
			fmt.Sprintf("goroutine 0 (every round, word reset to 0x%x): SetChannel(%t)", c.Start, c.Request),
			"goroutine 1 (every round): loop { ChannelCanStop() } until goroutine 0 has returned; then ChannelCanStop() once more; counts the calls answering true"},
		"expected": fmt.Sprintf("SetChannel answers true; exactly %d poll(s) answer stop; final word has ChannelValue=%t, ChannelUpdated clear, Channel set", c.Stops, c.Request)})
}

// ---------------------------------------------------------------- two goroutines, the SAME bit (search)

type sameCfg struct {
	Name   string `json:"name"`
	Bit    uint32 `json:"bit"`
	Base   uint32 `json:"base_word"` // the bit is clear in it
	Millis int    `json:"millis"`
}

// sameBitRace: odd rounds both goroutines call Set(bit) on base, even rounds both call Unset(bit)
// on base|bit; whatever the interleaving the word must be base|bit resp. base afterwards.
func sameBitRace(c sameCfg) (rounds int64, badRound int64, got, want uint32) {
	var (
		s           S
		round, stop uint32
		done        [2]uint32
		wg          sync.WaitGroup
	)
	for g := 0; g < 2; g++ {
		wg.Add(1)
		go func(g int) {
			defer wg.Done()
			var seen uint32
			for atomic.LoadUint32(&stop) == 0 {
				r := atomic.LoadUint32(&round)
				if r == seen {
					runtime.Gosched()
					continue
				}
				seen = r
				if r&1 == 1 {
					s.Set(c.Bit)
				} else {
					s.Unset(c.Bit)
				}
				atomic.StoreUint32(&done[g], r)
			}
		}(g)
	}
	deadline := time.Now().Add(time.Duration(c.Millis) * time.Millisecond)
	for r := uint32(1); r < 1<<31; r++ {
		if r&255 == 0 && time.Now().After(deadline) {
			break
		}
		start, w := c.Base, c.Base|c.Bit
		if r&1 == 0 {
			start, w = c.Base|c.Bit, c.Base
		}
		atomic.StoreUint32((*uint32)(&s), start)
		atomic.StoreUint32(&round, r)
		for atomic.LoadUint32(&done[0]) != r || atomic.LoadUint32(&done[1]) != r {
		}
		rounds++
		if x := word(&s); x != w {
			badRound, got, want = rounds, x, w
			break
		}
	}
	atomic.StoreUint32(&stop, 1)
	wg.Wait()
	return
}

func doSame(c sameCfg) {
	rounds, bad, got, want := sameBitRace(c)
	out.Count("stress-same-bit", fmt.Sprintf("%x-%x", c.Bit, c.Base), true)
	if bad == 0 {
		return
	}
	op := "Set"
	if bad&1 == 0 {
		op = "Unset"
	}
	out.Fail(fmt.Sprintf("two goroutines calling %s(0x%x) at the same time left the word 0x%x instead of 0x%x (another flag or the group half changed, or the flag itself is wrong)", op, c.Bit, got, want),
		"same-bit-race", map[string]interface{}{"same_bit": c, "round": bad, "rounds_played": rounds, "observed_word": got, "expected_word": want,
			"gomaxprocs": runtime.GOMAXPROCS(0), "model_witness": modelWitness,
			"goroutine_programs": []string{"goroutine 0 and goroutine 1, odd rounds (word reset to base_word): Set(bit); even rounds (word reset to base_word|bit): Unset(bit)"}})
}

func pickBits(rng *vh.Rand, n int) []uint32 {
	p := make([]int, 16)
	for i := range p {
		p[i] = i
	}
	for i := 15; i > 0; i-- {
		j := rng.Intn(i + 1)
		p[i], p[j] = p[j], p[i]
	}
	r := make([]uint32, n)
	for i := range r {
		r[i] = bits[p[i]]
	}
	return r
}

// ---------------------------------------------------------------- main

func main() {
	fl := vh.ParseFlags()
	out = vh.NewOut("C13", fl, "From XMT Require Import Base.Prelude Model.State.", "case", "check",
		"sequential: EVERY one of the 2^16 flag states (group half boundary/hashed) through every method of the real c2.state: the Go-side oracle on every row (class row), and for the model "+
			"one CBlock case per 64 consecutive flag states carrying the digest of all their results (packed results of the 21 bool-valued calls, Last, the words left by the 4 mutating protocol calls, "+
			"by Set/Unset with each of the 16 single-bit arguments and by SetLast); single CRow cases with free group values (boundary grid + random); "+
			"random multi-bit mutator calls (CMut) and random call sequences (CSeq); histories through the connHost methods of a client *Session, a *proxyClient and a server *Session "+
			"(CHost: stateSet, stateUnset, chanRunning, chanStart, chanStop, Session.close) with the oracle on every step; concurrent (oracle only): tight set/check/unset loops of 2 and 4 goroutines on disjoint bits and SetLast against Set on one shared word, and SetChannel on one goroutine against a goroutine polling ChannelCanStop; "+
			"distinct = distinct Coq case term, non-trivial = some flag set / non-zero argument / sequence longer than one call")
	rng := vh.NewRand(fl.Seed)
	thorough := fl.Tier == "thorough"
	if runtime.GOMAXPROCS(0) < 4 {
		runtime.GOMAXPROCS(4)
	}
	out.Extra("gomaxprocs", runtime.GOMAXPROCS(0))
	out.Extra("numcpu", runtime.NumCPU())

	if b, err := os.ReadFile(filepath.Join(fl.Out, "witness.json")); err == nil {
		if json.Unmarshal(b, &modelWitness) == nil {
			out.Extra("atomic_shapes", modelWitness)
		}
	}

	// 0. replay of a recorded lost update, if any
	if fl.Replay != "" {
		if b, err := os.ReadFile(fl.Replay); err == nil {
			var rp struct {
				Input struct {
					Stress   *stressCfg `json:"stress"`
					Same     *sameCfg   `json:"same_bit"`
					Protocol *protoCfg  `json:"protocol"`
				} `json:"input"`
			}
			if json.Unmarshal(b, &rp) == nil && rp.Input.Protocol != nil {
				c := *rp.Input.Protocol
				c.Name = "replay"
				if c.Millis < 1000 {
					c.Millis = 1000
				}
				doProto(c)
			}
			if rp.Input.Same != nil {
				c := *rp.Input.Same
				if c.Millis < 1000 {
					c.Millis = 1000
				}
				doSame(c)
			}
			if rp.Input.Stress != nil {
				c := *rp.Input.Stress
				c.Name = "replay"
				if c.Millis < 1000 {
					c.Millis = 1000
				}
				doStress(c)
			}
		}
	}

	// 1. concurrent search first (so that a lost update is the first failure recorded)
	ms := 250
	rounds := 1
	if thorough {
		ms, rounds = 3000, 3
	}
	for r := 0; r < rounds; r++ {
		two := pickBits(rng, 2)
		four := pickBits(rng, 4)
		doStress(stressCfg{Name: "2-disjoint-bits", Setters: two, Millis: ms, Init: uint32(rng.U64())})
		doStress(stressCfg{Name: "4-disjoint-bits", Setters: four, Millis: ms, Init: uint32(rng.U64())})
		doStress(stressCfg{Name: "setlast-vs-set", Setters: pickBits(rng, 1), GroupGoer: true, Millis: ms, Init: uint32(rng.U64())})
		doStress(stressCfg{Name: "setlast-vs-3-setters", Setters: pickBits(rng, 3), GroupGoer: true, Millis: ms, Init: uint32(rng.U64())})
	}
	// 1'. the same lost-update scenario with the flags set / cleared THROUGH the connHost methods of a *Session and a *proxyClient
	for r := 0; r < rounds; r++ {
		doStress(stressCfg{Name: "2-disjoint-bits-via-session", Via: "session", Setters: pickBits(rng, 2), Millis: ms / 2, Init: uint32(rng.U64())})
		doStress(stressCfg{Name: "2-disjoint-bits-via-proxyclient", Via: "proxyclient", Setters: pickBits(rng, 2), Millis: ms / 2, Init: uint32(rng.U64())})
	}
	// 1a. two goroutines setting / clearing the SAME flag
	sms := 100
	if thorough {
		sms = 2000
	}
	for r := 0; r < rounds; r++ {
		b := pickBits(rng, 1)[0]
		doSame(sameCfg{Name: "same-bit", Bit: b, Base: uint32(rng.U64()) &^ b, Millis: sms})
		doSame(sameCfg{Name: "same-bit-below-set-neighbour", Bit: bits[bChannelValue], Base: uint32(rng.U64())&^bits[bChannelValue] | bits[bChannelUpdated], Millis: sms})
	}
	// 1b. the channel request protocol: SetChannel on one goroutine, ChannelCanStop polling on another
	pms := 150
	if thorough {
		pms = 3000
	}
	for r := 0; r < rounds; r++ {
		other := uint32(rng.U64()) &^ 0xFFFF // the group half and the flags outside the protocol are free
		free := uint32(rng.U64()) & (bits[bCanRecv] | bits[bSeen] | bits[bMoving] | bits[bReplacing])
		doProto(protoCfg{Name: "off-request", Start: other | free | bits[bReady] | bits[bChannel] | bits[bChannelValue], Request: false, Stops: 1, Millis: pms})
		doProto(protoCfg{Name: "on-request", Start: other | free | bits[bReady] | bits[bChannel], Request: true, Stops: 0, Millis: pms})
		doProto(protoCfg{Name: "off-request-proxy-channel", Start: other | free | bits[bReady] | bits[bChannel] | bits[bChannelProxy], Request: false, Stops: 1, Millis: pms})
	}

	// 2. the complete flag table: every one of the 2^16 flag states, in blocks of 64 consecutive states
	passes := 1
	if thorough {
		passes = 6
	}
	const blk = 64
	out.ShardSize = 32 // 32 blocks = 2048 rows per shard
	for p := 0; p < passes; p++ {
		seed := rng.U64() & 0xFFFF
		for f := uint64(0); f < 1<<16; f += blk {
			doBlock(seed, f, blk)
		}
	}
	out.ShardSize = 2048
	// 2b. single rows with free group values and arguments: the boundary grid (no flag, every single
	// flag, all flags, every flag but one; boundary groups) and random rows
	edge := []uint16{0, 0xFFFF, 1, 0x8000, 0x00FF, 0xFF00}
	grid := []uint32{0, 0xFFFF}
	for _, b := range bits {
		grid = append(grid, b, 0xFFFF&^b, b|bits[bClosed], b|bits[bChannel])
	}
	for _, f := range grid {
		for _, g := range []uint16{0, 0xFFFF, uint16(rng.U64())} {
			doRow(uint32(g)<<16|f, []uint16{g, edge[rng.Intn(len(edge))], uint16(rng.U64())}, "row-grid")
		}
	}
	nr := 1500
	if thorough {
		nr = 30000
	}
	for i := 0; i < nr; i++ {
		gs := []uint16{uint16(rng.U64()), edge[rng.Intn(len(edge))]}
		doRow(uint32(rng.U64()), gs, "row-random")
	}

	// 3. mutators with arbitrary arguments (several bits, bits of the other half: the model follows the code)
	nm := 3000
	if thorough {
		nm = 60000
	}
	for i := 0; i < nm; i++ {
		w := uint32(rng.U64())
		op := rng.Intn(3)
		var v uint32
		switch rng.Intn(5) {
		case 0:
			v = uint32(rng.U64()) // any 32-bit value, may reach into the group half
		case 1:
			v = bits[rng.Intn(16)] | bits[rng.Intn(16)]
		case 2:
			v = []uint32{0, 0xFFFF, 0xFFFFFFFF, 0xFFFF0000, 0x10000, 0x80000000}[rng.Intn(6)]
		default:
			v = uint32(rng.U64()) & 0xFFFF
		}
		if op == 2 {
			v &= 0xFFFF
		}
		doMut(op, w, v, "mut-"+opNames[op])
	}

	// 4. call sequences
	ns := 2000
	if thorough {
		ns = 40000
	}
	for i := 0; i < ns; i++ {
		w := uint32(rng.U64())
		if rng.Intn(3) == 0 {
			w &^= bits[bClosed] | bits[bClosing] // keep the channel protocol reachable
			w |= bits[bChannel]
		}
		n := 1 + rng.Intn(12)
		ops := make([][2]uint32, n)
		for j := range ops {
			op := uint32(rng.Intn(7))
			var v uint32
			switch op {
			case 0, 1:
				v = bits[rng.Intn(16)]
				if rng.Intn(4) == 0 {
					v |= bits[rng.Intn(16)]
				}
			case 2:
				v = uint32(rng.U64()) & 0xFFFF
			}
			ops[j] = [2]uint32{op, v}
		}
		doSeq(w, ops, "seq")
	}
	// 5. the word through the connHost wrappers of *Session and *proxyClient (what the rest of c2 calls)
	for kind := 0; kind < 3; kind++ {
		// every flag set then cleared through the interface, and the documented close histories
		for _, b := range bits {
			doHost(kind, 0, [][2]uint32{{0, b}, {2, 0}, {1, b}, {2, 0}}, "host-grid")
			doHost(kind, uint32(rng.U64())|b, [][2]uint32{{1, b}, {0, b}, {1, b}}, "host-grid")
		}
		if kind != 1 {
			// SetChannel(true) raised a notice (ChannelValue|ChannelUpdated), close, the peer starts a channel, poll
			for _, w0 := range []uint32{bits[bChannelValue] | bits[bChannelUpdated], bits[bReady] | bits[bChannelUpdated],
				bits[bReady] | bits[bChannel] | bits[bChannelValue] | bits[bChannelUpdated], bits[bReady] | bits[bChannel] | bits[bChannelUpdated] | bits[bChannelProxy],
				bits[bShutdownWait] | bits[bChannelValue] | bits[bChannelUpdated], 0} {
				doHost(kind, w0, [][2]uint32{{5, 0}, {0, bits[bChannel]}, {4, 0}, {4, 0}}, "host-close")
				doHost(kind, w0|uint32(rng.U64())&^(bits[bClosed]|bits[bClosing]|bits[bShutdownWait]), [][2]uint32{{5, 0}, {2, 0}, {0, bits[bChannel]}, {4, 0}}, "host-close")
			}
		}
		nh := 700
		if thorough {
			nh = 15000
		}
		for i := 0; i < nh; i++ {
			w := uint32(rng.U64())
			if rng.Intn(2) == 0 {
				w &^= bits[bClosed] | bits[bClosing] | bits[bShutdownWait]
			}
			n := 1 + rng.Intn(10)
			ops := make([][2]uint32, n)
			for j := range ops {
				nop := 6
				if kind == 1 {
					nop = 5
				}
				op := uint32(rng.Intn(nop))
				var v uint32
				if op < 2 {
					v = bits[rng.Intn(16)]
					if rng.Intn(4) == 0 {
						v |= bits[rng.Intn(16)]
					}
				}
				ops[j] = [2]uint32{op, v}
			}
			doHost(kind, w, ops, "host-seq")
		}
	}
	out.Finish()
}
