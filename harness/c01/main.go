// C01 harness: com.Packet wire form (Marshal/Unmarshal), nested stream form
// (MarshalStream/UnmarshalStream), Packet.Size and the com.Flag word against the Gallina model
// (cases_*.v) and against the property itself evaluated on the implementation (Go-side oracle:
// decode(encode p) == p field for field, consumed == len(encoded), flag fields independent).
package main

import (
	"bytes"
	"errors"
	"fmt"
	"io"
	"math/big"
	"regexp"
	"sort"
	"strconv"
	"strings"
	"testing/iotest"

	"github.com/iDigitalFlame/xmt/com"
	"github.com/iDigitalFlame/xmt/data"
	"github.com/iDigitalFlame/xmt/device"

	"verifharness/vh"
)

var (
	out      *vh.Out
	rng      *vh.Rand
	thorough bool
)

// marshalled byte strings longer than this are compared by length and position-weighted checksum
// only (the quick tier prints fewer literals: parsing them is what costs time in Coq)
var litMax = 2048

// ---------------------------------------------------------------- deferred, balanced emission
// Cases are buffered and dealt to the shards by decreasing cost, so that every cases_NNN.v takes
// about the same time in Coq (the cases with 64 KiB payloads would otherwise sit in two shards).
type pending struct {
	term, class string
	nontrivial  bool
	desc        interface{}
	w           int
}

var (
	buf   []pending
	genRe = regexp.MustCompile(`(BGen|SPay|TGen|STags) \d+ (\d+)`)
)

func add(term, class string, nontrivial bool, desc interface{}) {
	w := len(term)
	for _, m := range genRe.FindAllStringSubmatch(term, -1) {
		n, _ := strconv.Atoi(m[2])
		if m[1] == "TGen" || m[1] == "STags" {
			if n >= 4096 && !strings.HasPrefix(term, "CMarshal") && !strings.HasPrefix(term, "CSize") && !strings.Contains(term, "(SEvery ") {
				w += n / 400 * n // quadratic in Coq: see the grid loop in main
			}
			n *= 8
		}
		w += n / 5
	}
	buf = append(buf, pending{term, class, nontrivial, desc, w})
}
func flush() {
	n := len(buf)
	if n == 0 {
		return
	}
	order := make([]int, n)
	for i := range order {
		order[i] = i
	}
	sort.SliceStable(order, func(a, b int) bool { return buf[order[a]].w > buf[order[b]].w })
	shards := (n + out.ShardSize - 1) / out.ShardSize
	bins := make([][]int, shards)
	load := make([]int, shards)
	for _, i := range order { // longest first, into the least loaded shard that still has room
		best := -1
		for b := 0; b < shards; b++ {
			if len(bins[b]) < out.ShardSize && (best < 0 || load[b] < load[best]) {
				best = b
			}
		}
		bins[best] = append(bins[best], i)
		load[best] += buf[i].w
	}
	// only the last shard may be short (vh closes a shard when it is full)
	sort.SliceStable(bins, func(a, b int) bool { return len(bins[a]) > len(bins[b]) })
	for _, bin := range bins {
		sort.Ints(bin)
		for _, i := range bin {
			c := buf[i]
			out.Add(c.term, c.class, c.nontrivial, c.desc)
		}
	}
	buf = nil
}

// ---------------------------------------------------------------- generators shared with Model/Packet.v

func payGen(seed uint64, n int) []byte {
	b := make([]byte, n)
	for i := range b {
		b[i] = byte((seed + uint64(i)*31 + uint64(i/256)*7) % 256)
	}
	return b
}
func tagsGen(seed uint64, n int) []uint32 {
	t := make([]uint32, n)
	for i := range t {
		t[i] = uint32(seed+uint64(i)*2654435761) | 1
	}
	return t
}
func cksum(b []byte) *big.Int {
	var s1, s2 uint64
	for _, x := range b {
		s1 += uint64(x) + 1
		s2 += s1
	}
	r := new(big.Int).SetUint64(s2)
	r.Lsh(r, 32)
	return r.Add(r, new(big.Int).SetUint64(s1))
}

// ---------------------------------------------------------------- descriptions

// bytes: literal or generated
type bdesc struct {
	gen  bool
	seed uint64
	n    int
	lit  []byte
}

func (d bdesc) bytes() []byte {
	if d.gen {
		return payGen(d.seed, d.n)
	}
	return d.lit
}
func (d bdesc) coq() string {
	if d.gen {
		return fmt.Sprintf("(BGen %d %d)", d.seed, d.n)
	}
	return "(BLit " + vh.Bytes(d.lit) + ")"
}
func (d bdesc) json() interface{} {
	if d.gen {
		return map[string]interface{}{"gen_seed": d.seed, "len": d.n}
	}
	return ints(d.lit)
}

type tdesc struct {
	gen  bool
	seed uint64
	n    int
	lit  []uint32
}

func (d tdesc) tags() []uint32 {
	if d.gen {
		return tagsGen(d.seed, d.n)
	}
	return d.lit
}
func u32list(t []uint32) string {
	v := make([]int64, len(t))
	for i, x := range t {
		v[i] = int64(x)
	}
	return vh.ZList64(v)
}
func (d tdesc) coq() string {
	if d.gen {
		return fmt.Sprintf("(TGen %d %d)", d.seed, d.n)
	}
	return "(TLit " + u32list(d.lit) + ")"
}
func (d tdesc) json() interface{} {
	if d.gen {
		return map[string]interface{}{"gen_seed": d.seed, "count": d.n}
	}
	return d.lit
}

type pdesc struct {
	id    uint8
	job   uint16
	flags uint64
	tags  tdesc
	dev   device.ID
	pay   bdesc
}

func (p pdesc) coq() string {
	return fmt.Sprintf("(PD %d %d %d %s %s %s)", p.id, p.job, p.flags, p.tags.coq(), vh.Bytes(p.dev[:]), p.pay.coq())
}
func (p pdesc) json() map[string]interface{} {
	return map[string]interface{}{"id": p.id, "job": p.job, "flags": fmt.Sprintf("%#x", p.flags), "tags": p.tags.json(),
		"device": ints(p.dev[:]), "payload": p.pay.json()}
}
func (p pdesc) build() *com.Packet {
	q := &com.Packet{ID: p.id, Job: p.job, Flags: com.Flag(p.flags), Device: p.dev}
	if t := p.tags.tags(); len(t) > 0 {
		q.Tags = append([]uint32(nil), t...)
	}
	if b := p.pay.bytes(); len(b) > 0 {
		q.Write(b)
	}
	return q
}
func (p pdesc) wellFormed() bool {
	if p.dev[0] == 0 {
		return false
	}
	t := p.tags.tags()
	if len(t) > com.PacketMaxTags {
		return false
	}
	for _, x := range t {
		if x == 0 {
			return false
		}
	}
	return true
}

func ints(b []byte) []int {
	if len(b) > 96 {
		o := make([]int, 0, 100)
		for _, x := range b[:96] {
			o = append(o, int(x))
		}
		return append(o, -1, len(b)) // clipped: -1, total length
	}
	o := make([]int, len(b))
	for i, x := range b {
		o[i] = int(x)
	}
	return o
}

// describe an observed packet, reusing the generator descriptions of the expected one when the
// observed data equals them (checked here, byte for byte)
func observe(q *com.Packet, hint *pdesc) pdesc {
	o := pdesc{id: q.ID, job: q.Job, flags: uint64(q.Flags), dev: q.Device}
	if hint != nil && equalTags(q.Tags, hint.tags.tags()) {
		o.tags = hint.tags
	} else {
		o.tags = tdesc{lit: append([]uint32(nil), q.Tags...)}
	}
	pl := q.Payload()
	if hint != nil && bytes.Equal(pl, hint.pay.bytes()) {
		o.pay = hint.pay
	} else {
		o.pay = bdesc{lit: append([]byte(nil), pl...)}
	}
	return o
}
func equalTags(a, b []uint32) bool {
	if len(a) != len(b) {
		return false
	}
	for i := range a {
		if a[i] != b[i] {
			return false
		}
	}
	return true
}
func samePacket(q *com.Packet, p *pdesc) bool {
	return q.ID == p.id && q.Job == p.job && uint64(q.Flags) == p.flags && q.Device == p.dev &&
		equalTags(q.Tags, p.tags.tags()) && bytes.Equal(q.Payload(), p.pay.bytes())
}

// a byte string as segments (Model/Packet.v seg)
type seg struct {
	kind int // 0 literal, 1 generated payload, 2 generated tags (big endian u32)
	lit  []byte
	seed uint64
	n    int
}

func (s seg) bytes() []byte {
	switch s.kind {
	case 1:
		return payGen(s.seed, s.n)
	case 2:
		t := tagsGen(s.seed, s.n)
		b := make([]byte, 0, 4*len(t))
		for _, x := range t {
			b = append(b, byte(x>>24), byte(x>>16), byte(x>>8), byte(x))
		}
		return b
	}
	return s.lit
}
func segsBytes(l []seg) []byte {
	var b []byte
	for _, s := range l {
		b = append(b, s.bytes()...)
	}
	return b
}
func segsCoq(l []seg) string {
	it := make([]string, 0, len(l))
	for _, s := range l {
		switch s.kind {
		case 1:
			it = append(it, fmt.Sprintf("SPay %d %d", s.seed, s.n))
		case 2:
			it = append(it, fmt.Sprintf("STags %d %d", s.seed, s.n))
		default:
			if len(s.lit) > 0 {
				it = append(it, "SLit "+vh.Bytes(s.lit))
			}
		}
	}
	return vh.List(it)
}

// describe `actual` (an encoding of p followed by more) compactly: the generated parts of p are
// located in the bytes and replaced by their generator; the description is verified against the
// bytes, else everything is printed literally
func describe(actual []byte, parts []*pdesc) []seg {
	var l []seg
	pos := 0
	for _, p := range parts {
		if p.tags.gen && p.tags.n > 16 {
			tb := seg{kind: 2, seed: p.tags.seed, n: p.tags.n}.bytes()
			if i := bytes.Index(actual[pos:], tb); i >= 0 {
				l = append(l, seg{lit: actual[pos : pos+i]}, seg{kind: 2, seed: p.tags.seed, n: p.tags.n})
				pos += i + len(tb)
			}
		}
		if p.pay.gen && p.pay.n > 64 {
			pb := p.pay.bytes()
			if i := bytes.Index(actual[pos:], pb); i >= 0 {
				l = append(l, seg{lit: actual[pos : pos+i]}, seg{kind: 1, seed: p.pay.seed, n: p.pay.n})
				pos += i + len(pb)
			}
		}
	}
	l = append(l, seg{lit: actual[pos:]})
	if !bytes.Equal(segsBytes(l), actual) {
		return []seg{{lit: actual}}
	}
	return l
}

// ---------------------------------------------------------------- the chunking reader

// chunkReader replays a split of data into chunks: explicit sizes (0 = one (0, nil) read) then
// the rest in one chunk, or chunks of `every` bytes.  A Read never crosses a chunk boundary; a
// Read shorter than the chunk leaves the remainder of the chunk for the next Read (this is
// read1 of Model/Codec.v).
type chunkReader struct {
	data  []byte
	pos   int
	sizes []int
	every int
	cur   int // bytes left in the current chunk, -1: take the next chunk
	reads int
	// how the stream ends (Model/Packet.v fin): eofLast: the Read that delivers the last byte of
	// the data also returns io.EOF; failEnd: one (0, failEnd) after the data, then (0, io.EOF)
	eofLast bool
	failEnd error
	failed  bool
}

var errTimeout = errors.New("verif: read timeout")

// fmode of Model/Packet.v esplit: 0 plain, 1 last chunk with io.EOF, 13 failing Read after the data
func newEndReader(b []byte, sp split, fmode int) *chunkReader {
	r := newChunkReader(b, sp)
	switch fmode {
	case 1:
		r.eofLast = true
	case 13:
		r.failEnd = errTimeout
	}
	return r
}

func newChunkReader(b []byte, sp split) *chunkReader {
	return &chunkReader{data: b, sizes: append([]int(nil), sp.sizes...), every: sp.every, cur: -1}
}
func (r *chunkReader) exhausted() bool { return r.pos >= len(r.data) }
func (r *chunkReader) remaining() int  { return len(r.data) - r.pos }
func (r *chunkReader) Read(p []byte) (int, error) {
	r.reads++
	if r.cur < 0 {
		rem := len(r.data) - r.pos
		if rem <= 0 {
			if r.failEnd != nil && !r.failed {
				r.failed = true
				return 0, r.failEnd
			}
			return 0, io.EOF
		}
		switch {
		case r.every > 0:
			r.cur = imin(r.every, rem)
		case len(r.sizes) > 0:
			r.cur = imin(r.sizes[0], rem)
			r.sizes = r.sizes[1:]
		default:
			r.cur = rem
		}
	}
	if len(p) == 0 {
		return 0, nil
	}
	n := imin(len(p), r.cur)
	copy(p, r.data[r.pos:r.pos+n])
	r.pos += n
	if r.cur -= n; r.cur == 0 {
		r.cur = -1
		if r.eofLast && r.pos >= len(r.data) {
			return n, io.EOF
		}
	}
	return n, nil
}
func imin(a, b int) int {
	if a < b {
		return a
	}
	return b
}

type split struct {
	sizes []int
	every int
	name  string
}

func (s split) coq() string {
	if s.every > 0 {
		return fmt.Sprintf("(SEvery %d)", s.every)
	}
	v := make([]int64, len(s.sizes))
	for i, x := range s.sizes {
		v[i] = int64(x)
	}
	return "(SOnce " + vh.ZList64(v) + ")"
}
func (s split) hasZero() bool {
	for _, x := range s.sizes {
		if x == 0 {
			return true
		}
	}
	return false
}
func (s split) json() interface{} {
	if s.every > 0 {
		return map[string]interface{}{"every": s.every}
	}
	if len(s.sizes) > 64 {
		return map[string]interface{}{"sizes_head": s.sizes[:64], "count": len(s.sizes)}
	}
	return map[string]interface{}{"sizes": s.sizes}
}

// the splits of DESIGN.md: all at once, 1-byte reads, random, header/body boundary -1/0/+1
func splitsFor(total, hdr, bodyStart int, small bool, mode int) []split {
	if mode == 3 { // tens of thousands of tags: see the grid loop in main
		return []split{{every: 97, name: "every-k"}, {name: "whole"}}
	}
	l := []split{{name: "whole"}}
	if mode == 1 { // large payloads in the quick tier: the header chunkings are those of the small packets
		if bodyStart > 0 && bodyStart < total {
			l = append(l, split{sizes: []int{bodyStart}, name: "boundary"})
		}
		l = append(l, randomSplit(total, small))
		return append(l, split{every: total/64 + 1 + rng.Intn(total/2+1), name: "every-k"})
	}
	if small {
		l = append(l, split{every: 1, name: "1byte"})
	}
	seen := map[int]bool{}
	for _, at := range []int{hdr - 1, hdr, hdr + 1, bodyStart - 1, bodyStart, bodyStart + 1, total - 1} {
		if at > 0 && at < total && !seen[at] {
			seen[at] = true
			l = append(l, split{sizes: []int{at}, name: "boundary"})
		}
	}
	l = append(l, split{sizes: []int{32, 14}, name: "fields"})
	l = append(l, randomSplit(total, small))
	l = append(l, split{every: total/64 + 1 + rng.Intn(total/2+1), name: "every-k"})
	return l
}
func randomSplit(total int, small bool) split {
	var s []int
	max := 24
	if small {
		max = 200
	}
	left := total
	for len(s) < max && left > 0 {
		var k int
		switch rng.Intn(4) {
		case 0:
			k = 1 + rng.Intn(4)
		case 1:
			k = 1 + rng.Intn(64)
		default:
			k = 1 + rng.Intn(left)
		}
		s = append(s, k)
		left -= k
	}
	return split{sizes: s, name: "random"}
}

// ---------------------------------------------------------------- errors

func errCode(err error) int {
	switch {
	case errors.Is(err, io.EOF):
		return 1
	case errors.Is(err, io.ErrUnexpectedEOF):
		return 2
	case errors.Is(err, data.ErrInvalidType):
		return 3
	case errors.Is(err, data.ErrTooLarge):
		return 4
	case errors.Is(err, data.ErrLimit):
		return 5
	case errors.Is(err, com.ErrMalformedTag):
		return 10
	case errors.Is(err, io.ErrNoProgress):
		return 11
	case strings.Contains(err.Error(), "tags list is too large"):
		return 12
	case errors.Is(err, errTimeout), errors.Is(err, iotest.ErrTimeout):
		return 13
	}
	return 99
}

type callRes struct {
	err   error
	panic interface{}
}

func call(f func() error) (r callRes) {
	defer func() {
		if x := recover(); x != nil {
			r = callRes{panic: x}
		}
	}()
	return callRes{err: f()}
}
func (r callRes) ok() bool { return r.panic == nil && r.err == nil }
func (r callRes) coq(okPayload string) string {
	switch {
	case r.panic != nil:
		return vh.ResPanic()
	case r.err != nil:
		return vh.ResErr(errCode(r.err))
	}
	return vh.ResOk(okPayload)
}
func (r callRes) String() string {
	switch {
	case r.panic != nil:
		return fmt.Sprintf("panic: %v", r.panic)
	case r.err != nil:
		return "error: " + r.err.Error()
	}
	return "ok"
}

func litOpt(b []byte) string {
	if len(b) <= litMax {
		return vh.Some(vh.Bytes(b))
	}
	return "None"
}

func lenClass(n int) string {
	switch {
	case n == 0:
		return "len0"
	case n < 256:
		return "len8"
	case n < 65536:
		return "len16"
	}
	return "len32"
}

// ---------------------------------------------------------------- wire form

// doMarshal runs Marshal and Size; returns the bytes (nil if Marshal failed)
func doMarshal(p *pdesc) []byte {
	q := p.build()
	sz := q.Size()
	add(fmt.Sprintf("CSize %s %d", p.coq(), sz), "size-"+lenClass(p.pay.n), p.pay.n > 0, map[string]interface{}{"fn": "Size", "packet": p.json()})
	var buf bytes.Buffer
	r := call(func() error { return q.Marshal(&buf) })
	b := buf.Bytes()
	desc := map[string]interface{}{"fn": "Marshal", "packet": p.json(), "result": r.String(), "len": len(b)}
	o := r.coq(fmt.Sprintf("(%d, %s)", len(b), cksum(b)))
	lit := litOpt(b)
	if !r.ok() {
		lit = "None"
	}
	add(fmt.Sprintf("CMarshal %s %s %s", p.coq(), o, lit), "marshal-"+lenClass(p.pay.n), p.pay.n > 0 || p.tags.n > 0, desc)
	if p.wellFormed() && !r.ok() {
		out.Fail("Marshal of a well-formed packet failed: "+r.String(), "marshal-fails/"+lenClass(p.pay.n), desc)
	}
	if !r.ok() {
		return nil
	}
	return append([]byte(nil), b...)
}

// doUnmarshal reads `input` (= enc ++ trailing when p != nil) through the chunking reader
func doUnmarshal(input []byte, segs []seg, sp split, p *pdesc, encLen int, class string) {
	rd := newChunkReader(input, sp)
	var q com.Packet
	r := call(func() error { return q.Unmarshal(rd) })
	o := observe(&q, p)
	desc := map[string]interface{}{"fn": "Unmarshal", "split": sp.json(), "input_len": len(input), "encoded_len": encLen,
		"result": r.String(), "left": rd.remaining(), "reads": rd.reads}
	if p != nil {
		desc["packet"] = p.json()
	} else {
		desc["input"] = ints(input)
	}
	add(fmt.Sprintf("CUnmarshal %s %s %s", segsCoq(segs), sp.coq(), r.coq(fmt.Sprintf("(%s, %d)", o.coq(), rd.remaining()))),
		class, len(input) > 46, desc)
	if p == nil || !p.wellFormed() || sp.hasZero() {
		return
	}
	// the property, on the implementation
	key := "/" + lenClass(p.pay.n) + "/" + sp.name
	switch {
	case !r.ok():
		out.Fail("Unmarshal of a marshalled packet failed: "+r.String(), "wire-roundtrip-fails"+key, desc)
	case !samePacket(&q, p):
		desc["got"] = o.json()
		out.Fail("Unmarshal(Marshal(p)) differs from p", "wire-roundtrip-differs"+key, desc)
	case len(input)-rd.remaining() != encLen:
		out.Fail("Unmarshal did not consume exactly the bytes Marshal produced", "wire-consumed"+key, desc)
	}
}

func wireCases(p *pdesc, mode int) {
	enc := doMarshal(p)
	if enc == nil {
		return
	}
	trail := rng.Bytes(rng.Intn(65))
	if rng.Intn(4) == 0 {
		trail = nil
	}
	input := append(append([]byte(nil), enc...), trail...)
	segs := describe(input, []*pdesc{p})
	hdr := len(enc) - p.pay.n - 4*p.tags.n
	small := len(input) <= 4096
	var sps []split
	if mode > 0 {
		sps = splitsFor(len(input), hdr, len(enc)-p.pay.n, small, mode)
	} else {
		sps = []split{randomSplit(len(input), small)}
	}
	for _, sp := range sps {
		doUnmarshal(input, segs, sp, p, len(enc), "unmarshal-"+lenClass(p.pay.n)+"-"+sp.name)
	}
	endCases(enc, p, false, mode, len(enc)-p.pay.n)
	ioCases(enc, p, false)
}

// concatenated packets on one stream
func manyCase(ps []*pdesc) {
	var all []byte
	for _, p := range ps {
		var buf bytes.Buffer
		if err := p.build().Marshal(&buf); err != nil {
			return
		}
		all = append(all, buf.Bytes()...)
	}
	segs := describe(all, ps)
	sp := randomSplit(len(all), len(all) <= 4096)
	if rng.Intn(4) == 0 {
		sp = split{every: 1 + rng.Intn(100), name: "every-k"}
	}
	rd := newChunkReader(all, sp)
	var got []*com.Packet
	r := call(func() error {
		for !rd.exhausted() {
			q := new(com.Packet)
			if err := q.Unmarshal(rd); err != nil {
				return err
			}
			got = append(got, q)
		}
		return nil
	})
	items := make([]string, len(got))
	same := len(got) == len(ps)
	for i, q := range got {
		var h *pdesc
		if i < len(ps) {
			h = ps[i]
			same = same && samePacket(q, h)
		}
		items[i] = observe(q, h).coq()
	}
	pj := make([]interface{}, len(ps))
	for i, p := range ps {
		pj[i] = p.json()
	}
	desc := map[string]interface{}{"fn": "Unmarshal*", "packets": pj, "split": sp.json(), "result": r.String(), "decoded": len(got)}
	add(fmt.Sprintf("CMany %s %s %s", segsCoq(segs), sp.coq(), r.coq(vh.List(items))), "concat-wire", true, desc)
	if !r.ok() || !same {
		out.Fail("a concatenation of marshalled packets does not decode to the same list: "+r.String(), fmt.Sprintf("wire-concat/%d", len(ps)), desc)
	}
}

// ---------------------------------------------------------------- stream (nested) form

func marshalStreamChunk(p *pdesc) ([]byte, callRes) {
	var w com.Packet
	q := p.build()
	r := call(func() error { return q.MarshalStream(&w) })
	return append([]byte(nil), w.Payload()...), r
}

func streamCases(p *pdesc, mode int) {
	enc, r := marshalStreamChunk(p)
	desc := map[string]interface{}{"fn": "MarshalStream(Chunk)", "packet": p.json(), "result": r.String(), "len": len(enc)}
	if !r.ok() {
		if p.wellFormed() {
			out.Fail("MarshalStream of a well-formed packet failed: "+r.String(), "mstream-fails/"+lenClass(p.pay.n), desc)
		}
		return
	}
	add(fmt.Sprintf("CMarshalStream %s %d %s %s", p.coq(), len(enc), cksum(enc), litOpt(enc)), "mstream-chunk-"+lenClass(p.pay.n), true, desc)
	// the same through data.NewWriter
	var bb bytes.Buffer
	q := p.build()
	w := data.NewWriter(&bb)
	r2 := call(func() error {
		if err := q.MarshalStream(w); err != nil {
			return err
		}
		return w.Flush()
	})
	if r2.ok() {
		add(fmt.Sprintf("CMarshalStream %s %d %s %s", p.coq(), bb.Len(), cksum(bb.Bytes()), litOpt(bb.Bytes())), "mstream-writer-"+lenClass(p.pay.n), true,
			map[string]interface{}{"fn": "MarshalStream(data.NewWriter)", "packet": p.json(), "len": bb.Len()})
	} else if p.wellFormed() {
		out.Fail("MarshalStream (stream writer) of a well-formed packet failed: "+r2.String(), "mstream-writer-fails/"+lenClass(p.pay.n), desc)
	}
	trail := rng.Bytes(rng.Intn(65))
	if rng.Intn(4) == 0 {
		trail = nil
	}
	input := append(append([]byte(nil), enc...), trail...)
	segs := describe(input, []*pdesc{p})
	doUnmarshalStream(input, segs, p, len(enc), "ustream-chunk-"+lenClass(p.pay.n))
	small := len(input) <= 4096
	var sps []split
	if mode == 3 {
		sps = []split{{every: 97, name: "every-k"}}
	} else if mode > 0 {
		sps = splitsFor(len(input), 45, len(enc)-p.pay.n, small, mode)
	} else {
		sps = []split{randomSplit(len(input), small)}
	}
	for _, sp := range sps {
		doUnmarshalSrd(input, segs, sp, p, len(enc), "ustream-reader-"+lenClass(p.pay.n)+"-"+sp.name)
	}
	if mode != 3 {
		endCases(enc, p, true, mode, len(enc)-p.pay.n)
	}
	ioCases(enc, p, true)
}

// UnmarshalStream from a Packet used as the container (flat Chunk reader)
func doUnmarshalStream(input []byte, segs []seg, p *pdesc, encLen int, class string) {
	var src, q com.Packet
	if len(input) > 0 {
		src.Write(input)
	}
	r := call(func() error { return q.UnmarshalStream(&src) })
	left := src.Remaining()
	o := observe(&q, p)
	desc := map[string]interface{}{"fn": "UnmarshalStream(Chunk)", "input_len": len(input), "encoded_len": encLen, "result": r.String(), "left": left}
	if p != nil {
		desc["packet"] = p.json()
	} else {
		desc["input"] = ints(input)
	}
	add(fmt.Sprintf("CUnmarshalStream %s %s", segsCoq(segs), r.coq(fmt.Sprintf("(%s, %d)", o.coq(), left))), class, len(input) > 45, desc)
	if p == nil || !p.wellFormed() {
		return
	}
	key := "/" + lenClass(p.pay.n)
	switch {
	case !r.ok():
		out.Fail("UnmarshalStream of a stream-marshalled packet failed: "+r.String(), "stream-roundtrip-fails"+key, desc)
	case !samePacket(&q, p):
		desc["got"] = o.json()
		out.Fail("UnmarshalStream(MarshalStream(p)) differs from p", "stream-roundtrip-differs"+key, desc)
	case len(input)-left != encLen:
		out.Fail("UnmarshalStream did not consume exactly the bytes MarshalStream produced", "stream-consumed"+key, desc)
	}
}

// UnmarshalStream from data.NewReader over the chunking reader
func doUnmarshalSrd(input []byte, segs []seg, sp split, p *pdesc, encLen int, class string) {
	rd := newChunkReader(input, sp)
	var q com.Packet
	dr := data.NewReader(rd)
	r := call(func() error { return q.UnmarshalStream(dr) })
	o := observe(&q, p)
	desc := map[string]interface{}{"fn": "UnmarshalStream(data.NewReader)", "split": sp.json(), "input_len": len(input), "encoded_len": encLen,
		"result": r.String(), "left": rd.remaining()}
	if p != nil {
		desc["packet"] = p.json()
	} else {
		desc["input"] = ints(input)
	}
	add(fmt.Sprintf("CUnmarshalSrd %s %s %s", segsCoq(segs), sp.coq(), r.coq(fmt.Sprintf("(%s, %d)", o.coq(), rd.remaining()))),
		class, len(input) > 45, desc)
	if p == nil || !p.wellFormed() || sp.hasZero() {
		return
	}
	key := "/" + lenClass(p.pay.n) + "/" + sp.name
	switch {
	case !r.ok():
		out.Fail("UnmarshalStream (stream reader) of a stream-marshalled packet failed: "+r.String(), "srd-roundtrip-fails"+key, desc)
	case !samePacket(&q, p):
		desc["got"] = o.json()
		out.Fail("UnmarshalStream(MarshalStream(p)) through a stream reader differs from p", "srd-roundtrip-differs"+key, desc)
	case len(input)-rd.remaining() != encLen:
		out.Fail("UnmarshalStream (stream reader) did not consume exactly the bytes MarshalStream produced", "srd-consumed"+key, desc)
	}
}

// several packets nested in one container, as in a batched packet
func streamManyCase(ps []*pdesc) {
	var w com.Packet
	for _, p := range ps {
		if err := p.build().MarshalStream(&w); err != nil {
			return
		}
	}
	all := append([]byte(nil), w.Payload()...)
	segs := describe(all, ps)
	var got []*com.Packet
	r := call(func() error {
		for w.Remaining() > 0 {
			q := new(com.Packet)
			if err := q.UnmarshalStream(&w); err != nil {
				return err
			}
			got = append(got, q)
		}
		return nil
	})
	items := make([]string, len(got))
	same := len(got) == len(ps)
	for i, q := range got {
		var h *pdesc
		if i < len(ps) {
			h = ps[i]
			same = same && samePacket(q, h)
		}
		items[i] = observe(q, h).coq()
	}
	pj := make([]interface{}, len(ps))
	for i, p := range ps {
		pj[i] = p.json()
	}
	desc := map[string]interface{}{"fn": "UnmarshalStream*", "packets": pj, "result": r.String(), "decoded": len(got)}
	add(fmt.Sprintf("CStreamMany %s %s", segsCoq(segs), r.coq(vh.List(items))), "concat-stream", true, desc)
	if !r.ok() || !same {
		out.Fail("packets nested in one container do not decode to the same list: "+r.String(), fmt.Sprintf("stream-concat/%d", len(ps)), desc)
	}
}

// ---------------------------------------------------------------- flags

func flagCase(op int, f uint64, n uint64) {
	g := com.Flag(f)
	var o uint64
	switch op {
	case 0:
		g.Clear()
		o = uint64(g)
	case 1:
		g.Set(com.Flag(n))
		o = uint64(g)
	case 2:
		g.Unset(com.Flag(n))
		o = uint64(g)
	case 3:
		o = uint64(g.Len())
	case 4:
		o = uint64(g.Position())
	case 5:
		o = uint64(g.Group())
	case 6:
		g.SetLen(uint16(n))
		o = uint64(g)
	case 7:
		g.SetPosition(uint16(n))
		o = uint64(g)
	case 8:
		g.SetGroup(uint16(n))
		o = uint64(g)
	}
	names := []string{"Clear", "Set", "Unset", "Len", "Position", "Group", "SetLen", "SetPosition", "SetGroup"}
	add(fmt.Sprintf("CFlag %d %d %d %d", op, f, n, o), "flag-"+names[op], f != 0,
		map[string]interface{}{"fn": "Flag." + names[op], "word": fmt.Sprintf("%#x", f), "arg": n, "out": fmt.Sprintf("%#x", o)})
}

// field independence, evaluated on the implementation
func flagOracle(f uint64, n uint16) {
	desc := map[string]interface{}{"word": fmt.Sprintf("%#x", f), "value": n}
	fail := func(what, key string) {
		d := map[string]interface{}{"word": desc["word"], "value": n, "setter": key}
		out.Fail(what, "flag-"+key, d)
	}
	g0 := com.Flag(f)
	lowFrag := uint16(f) | 1
	g := g0
	g.SetLen(n)
	if g.Len() != n || g.Position() != g0.Position() || g.Group() != g0.Group() || uint16(g) != lowFrag {
		fail("SetLen changed another field (or did not store the value)", "SetLen")
	}
	g = g0
	g.SetPosition(n)
	if g.Position() != n || g.Len() != g0.Len() || g.Group() != g0.Group() || uint16(g) != lowFrag {
		fail("SetPosition changed another field (or did not store the value)", "SetPosition")
	}
	g = g0
	g.SetGroup(n)
	if g.Group() != n || g.Len() != g0.Len() || g.Position() != g0.Position() || uint16(g) != lowFrag {
		fail("SetGroup changed another field (or did not store the value)", "SetGroup")
	}
	// flag bits: setting / unsetting bits of the low 16 never touches the fragment fields
	g = g0
	g.Set(com.Flag(n))
	if g.Len() != g0.Len() || g.Position() != g0.Position() || g.Group() != g0.Group() || uint16(g) != uint16(f)|n {
		fail("Set of flag bits changed a fragment field", "Set")
	}
	g = g0
	g.Unset(com.Flag(n))
	if g.Len() != g0.Len() || g.Position() != g0.Position() || g.Group() != g0.Group() || uint16(g) != uint16(f)&^n {
		fail("Unset of flag bits changed a fragment field", "Unset")
	}
	// Clear on a fragment: fragment fields zero, the other 15 flag bits survive
	if f&1 == 1 {
		g = g0
		g.Clear()
		if g.Len() != 0 || g.Position() != 0 || g.Group() != 0 || uint64(g) != uint64(uint16(f)&^1) {
			fail("Clear of a fragment word did not zero the fragment fields and keep the flag bits", "Clear")
		}
	}
	out.Count("flag-oracle", fmt.Sprintf("%d/%d", f, n), f != 0)
}

// ---------------------------------------------------------------- generation

func randDev() device.ID {
	var d device.ID
	copy(d[:], rng.Bytes(32))
	if d[0] == 0 {
		d[0] = byte(1 + rng.Intn(255))
	}
	return d
}
func randFlags() uint64 {
	switch rng.Intn(6) {
	case 0:
		return 0
	case 1:
		return uint64(1) << uint(rng.Intn(64))
	case 2:
		return ^uint64(0)
	case 3:
		return rng.U64() & 0xFFFF
	}
	return rng.U64()
}
func mkPacket(payLen, nTags int) *pdesc {
	p := &pdesc{id: uint8(rng.U64()), job: uint16(rng.U64()), flags: randFlags(), dev: randDev()}
	if rng.Intn(8) == 0 {
		p.id, p.job = 0, 0
	}
	if payLen > 600 {
		p.pay = bdesc{gen: true, seed: rng.U64() % 1000, n: payLen}
	} else {
		b := rng.Bytes(payLen)
		if payLen > 0 && rng.Intn(4) == 0 {
			b[0] = 0
		}
		p.pay = bdesc{lit: b, n: payLen}
	}
	if nTags > 8 {
		p.tags = tdesc{gen: true, seed: rng.U64() % 4294967295, n: nTags}
	} else {
		t := make([]uint32, nTags)
		for i := range t {
			switch rng.Intn(4) {
			case 0:
				t[i] = 1 + uint32(rng.Intn(255))
			case 1:
				t[i] = 0xFFFFFFFF
			default:
				t[i] = uint32(rng.U64())
				if t[i] == 0 {
					t[i] = 1
				}
			}
		}
		p.tags = tdesc{lit: t, n: nTags}
	}
	return p
}

func malformed() {
	// truncation of a valid encoding at every offset; every value of the class byte
	for _, sh := range [][2]int{{0, 0}, {3, 0}, {3, 2}, {300, 1}} {
		p := mkPacket(sh[0], sh[1])
		var buf bytes.Buffer
		if p.build().Marshal(&buf) != nil {
			continue
		}
		enc := buf.Bytes()
		step := 1
		if len(enc) > 120 {
			step = 7
			if !thorough {
				step = 13
			}
		}
		for cut := 0; cut < len(enc); cut += step {
			in := append([]byte(nil), enc[:cut]...)
			sp := split{name: "whole"}
			if rng.Bool() {
				sp = randomSplit(len(in), true)
			}
			doUnmarshal(in, []seg{{lit: in}}, sp, nil, 0, "malformed-truncated")
		}
		for c := 0; c < 10; c++ {
			in := append([]byte(nil), enc...)
			in[45] = byte(c)
			doUnmarshal(in, []seg{{lit: in}}, split{name: "whole"}, nil, 0, "malformed-class")
		}
		in := append([]byte(nil), enc...)
		in[45] = byte(9 + rng.Intn(247))
		doUnmarshal(in, []seg{{lit: in}}, split{name: "whole"}, nil, 0, "malformed-class")
		in = append([]byte(nil), enc...)
		in[0] = 0
		doUnmarshal(in, []seg{{lit: in}}, split{name: "whole"}, nil, 0, "malformed-device")
		if sh[1] > 0 {
			in = append([]byte(nil), enc...)
			o := len(enc) - sh[0] - 4
			in[o], in[o+1], in[o+2], in[o+3] = 0, 0, 0, 0
			doUnmarshal(in, []seg{{lit: in}}, split{name: "whole"}, nil, 0, "malformed-zerotag")
		}
		// the same for the stream form
		se, r := marshalStreamChunk(p)
		if !r.ok() {
			continue
		}
		for cut := 0; cut < len(se); cut += step {
			in := append([]byte(nil), se[:cut]...)
			if thorough || cut%2 == 0 || cut > len(se)-4 {
				doUnmarshalStream(in, []seg{{lit: in}}, nil, 0, "malformed-stream-truncated")
			}
			if thorough || cut%2 == 1 || cut > len(se)-4 {
				doUnmarshalSrd(in, []seg{{lit: in}}, randomSplit(len(in), true), nil, 0, "malformed-stream-truncated")
			}
		}
		in = append([]byte(nil), se...)
		in[13] = 0
		doUnmarshalStream(in, []seg{{lit: in}}, nil, 0, "malformed-stream-device")
		for c := 0; c < 10; c++ {
			in = append([]byte(nil), se...)
			in[45+4*sh[1]] = byte(c)
			doUnmarshalStream(in, []seg{{lit: in}}, nil, 0, "malformed-stream-class")
			if orig := int(se[45+4*sh[1]]); c == 0 || c == orig || c == orig+1 {
				// (the stream reader allocates the announced length; other classes forge huge ones)
				doUnmarshalSrd(in, []seg{{lit: in}}, split{name: "whole"}, nil, 0, "malformed-stream-class")
			}
		}
	}
	// forged headers announcing 2^32-1, 2^32, 2^32+1, 2^63 bytes with a short body: reader side only
	for _, l := range []uint64{1<<32 - 1, 1 << 32, 1<<32 + 1, 1 << 63, 1<<64 - 1} {
		p := mkPacket(0, 0)
		var buf bytes.Buffer
		p.build().Marshal(&buf)
		in := append([]byte(nil), buf.Bytes()...)
		if l < 1<<32 {
			in[45] = 5
			in = append(in, byte(l>>24), byte(l>>16), byte(l>>8), byte(l))
		} else {
			in[45] = 7
			in = append(in, byte(l>>56), byte(l>>48), byte(l>>40), byte(l>>32), byte(l>>24), byte(l>>16), byte(l>>8), byte(l))
		}
		n := 100 + rng.Intn(40000)
		hdr := append([]byte(nil), in...)
		in = append(in, payGen(uint64(n%251), n)...)
		segs := []seg{{lit: hdr}, {kind: 1, seed: uint64(n % 251), n: n}}
		doUnmarshal(in, segs, randomSplit(len(in), false), nil, 0, "forged-length")
	}
	// writer side refusals: too many tags, a zero tag
	p := mkPacket(5, 3)
	p.tags.lit[1] = 0
	doMarshal(p)
	p = mkPacket(5, com.PacketMaxTags+1)
	doMarshal(p)
	// (0, nil) reads inside header and body: compared with the model only
	for i := 0; i < 12; i++ {
		p := mkPacket(1+rng.Intn(300), rng.Intn(3))
		var buf bytes.Buffer
		p.build().Marshal(&buf)
		in := append([]byte(nil), buf.Bytes()...)
		var s []int
		left := len(in)
		for left > 0 && len(s) < 40 {
			k := rng.Intn(imin(left, 60) + 1)
			if rng.Intn(3) == 0 {
				k = 0
			}
			s = append(s, k)
			left -= k
		}
		doUnmarshal(in, describe(in, []*pdesc{p}), split{sizes: s, name: "zero-reads"}, p, len(in), "unmarshal-zero-reads")
	}
}

func main() {
	fl := vh.ParseFlags()
	out = vh.NewOut("C01", fl, "From XMT Require Import Base.Prelude Model.Codec Model.Packet.", "case", "check",
		"packets over the grid payload length {0,1,2,254..257,65534..65537,100000[,256 KiB]} x tag count {0,1,2,255,256} (quick tier: lengths >= 65534 with 1-3 tag counts each and four chunkings; thorough: the full product, 256 KiB with tags {0,256}, and 32767/32768 tags with payload lengths 0 and 255) with random id/job/flag word/device, "+
			"each marshalled by the real code (bytes compared with the model) and read back through a chunking io.Reader replaying all-at-once / 1-byte / random / "+
			"boundary+-1 splits with 0-64 trailing bytes (fields and bytes consumed compared); the same for the nested stream form (Chunk container and data.NewReader); "+
			"concatenated packets; packets in every read-cursor state of their payload Chunk (fresh, typed reads partial / to EOF, Read partial / all / drained, Seek start/mid/end/back, marshalled before, received then read) each followed by a second packet on the same stream, wire and nested form; truncations at every offset, every class byte, forged 2^32/2^63 lengths; flag setters on random and single-bit words. "+
			"distinct = distinct Coq case term; non-trivial = input longer than a bare header (flags: non-zero word)")
	out.ShardSize = 60
	rng = vh.NewRand(fl.Seed)
	thorough = fl.Tier == "thorough"
	if !thorough {
		litMax = 640
	}

	// corpus: the packet of com::TestPacket's shape, and one fragment-flagged packet with tags
	c0 := &pdesc{id: 0xF0, job: 0x1234, flags: 0x0003000100070001, dev: randDev(), tags: tdesc{lit: []uint32{0xDEADBEEF, 1}, n: 2},
		pay: bdesc{lit: []byte("hello packet wire format!!!"), n: 27}}
	wireCases(c0, 2)
	streamCases(c0, 2)

	// boundary grid
	lens := []int{0, 1, 2, 254, 255, 256, 257, 65534, 65535, 65536, 65537, 100000}
	tagc := []int{0, 1, 2, 255, 256}
	if thorough {
		// (1 MiB payloads are not used: vm_compute scans its stack at every minor collection, a list
		// of 2^20 bytes costs minutes per pass; 256 KiB crosses no further format boundary either)
		lens = append(lens, 1<<18)
		tagc = append(tagc, 32767, 32768)
	}
	for _, L := range lens {
		for _, T := range tagc {
			mode := 2
			if L >= 60000 && !thorough {
				// quick tier: both sides of the 2/4-byte length switch with three tag counts, the other
				// large lengths with one tag count each, reduced chunkings (whole / body boundary /
				// random / every-k); the full product is the thorough tier
				keep := ((L == 65535 || L == 65536) && (T == 0 || T == 2 || T == 256)) ||
					(L == 65534 && T == 1) || (L == 65537 && T == 255) || (L == 100000 && T == 2)
				if !keep {
					continue
				}
				mode = 1
			}
			if L >= 1<<18 { // thorough tier only: two tag counts, reduced chunkings
				if T != 0 && T != 256 {
					continue
				}
				mode = 1
			}
			if T >= 32767 {
				// thorough tier only.  Inside Coq every read of a tag measures the chunk it reads from
				// (len c in read1, len s in rd_fixed), so 32768 tags in ONE chunk of 128 KiB cost minutes
				// of vm_compute; small chunks are cheap.  Two payload lengths, chunks of 97 bytes plus one
				// whole-buffer read each for the wire reader and the flat stream reader.
				if L != 0 && L != 255 {
					continue
				}
				mode = 3
			}
			p := mkPacket(L, T)
			wireCases(p, mode)
			streamCases(p, mode)
		}
	}
	// random structured packets
	nr := 70
	if thorough {
		nr = 2000
	}
	for i := 0; i < nr; i++ {
		L := rng.Intn(600)
		switch k := rng.Intn(40); {
		case k < 4:
			L = 0
		case k < 8:
			L = 250 + rng.Intn(12)
		case k < 9 || (thorough && k < 12):
			L = 65530 + rng.Intn(12)
		case k < 12:
			L = 1000 + rng.Intn(12000)
		case k < 16 && thorough:
			L = 1000 + rng.Intn(70000)
		}
		T := rng.Intn(5)
		if rng.Intn(10) == 0 {
			T = 250 + rng.Intn(12)
		}
		p := mkPacket(L, T)
		wireCases(p, 0)
		streamCases(p, 0)
	}
	// concatenations
	nc := 24
	if thorough {
		nc = 600
	}
	for i := 0; i < nc; i++ {
		k := 2 + rng.Intn(5)
		ps := make([]*pdesc, k)
		for j := range ps {
			L := rng.Intn(300)
			if rng.Intn(4) == 0 {
				L = 0
			}
			if (thorough && rng.Intn(12) == 0) || (!thorough && i < 2 && j == 1) {
				L = 65530 + rng.Intn(12)
			}
			ps[j] = mkPacket(L, rng.Intn(4))
		}
		manyCase(ps)
		streamManyCase(ps)
	}
	// the largest tag lists also in the quick tier (the thorough grid has them with all chunkings)
	if !thorough {
		manyTagsQuick()
	}
	// packets whose payload Chunk has been read, rewound, sought, received or marshalled before
	if thorough {
		cursorCases(40, 10)
	} else {
		cursorCases(4, 2)
	}
	malformed()

	// flags
	for b := 0; b < 64; b++ {
		f := uint64(1) << uint(b)
		for op := 0; op <= 8; op++ {
			flagCase(op, f, uint64(rng.Intn(65536)))
		}
		flagOracle(f, uint16(rng.U64()))
		flagOracle(f, 0)
		flagOracle(f, 0xFFFF)
	}
	for _, f := range []uint64{0, 1, 0xFFFF, 0x10000, 0xFFFFFFFF, 0xFFFF0000FFFF0000, ^uint64(0)} {
		for op := 0; op <= 8; op++ {
			for _, n := range []uint64{0, 1, 0xFFFF, 0x8000} {
				flagCase(op, f, n)
			}
		}
	}
	nf, no := 600, 1200
	if thorough {
		nf, no = 60000, 1000000
	}
	for i := 0; i < nf; i++ {
		f := randFlags()
		op := rng.Intn(9)
		n := rng.U64() & 0xFFFF
		if op == 1 || op == 2 {
			if rng.Bool() {
				n = rng.U64()
			}
		}
		flagCase(op, f, n)
	}
	for i := 0; i < no; i++ {
		flagOracle(randFlags(), uint16(rng.U64()))
	}
	flush()
	out.Note("payloads of 2^32 bytes and more are not allocated: the 2^32 / 2^63 length classes are exercised on the reader side only, with forged headers and short bodies")
	out.Finish()
}
