// C01 harness, part 3: readers of every kind.  An io.Reader may deliver its last bytes together
// with io.EOF (n > 0, err == io.EOF), may fail, may hand out one byte or half of what was asked
// for.  endCases replays such endings through the chunking reader (compared with the model:
// unmarshal_e / unmarshal_srd_e over esplit), ioCases drives the real testing/iotest wrappers
// (oracle only: their read-ahead is not a fixed split).
package main

import (
	"bytes"
	"fmt"
	"io"
	"testing/iotest"

	"github.com/iDigitalFlame/xmt/com"
	"github.com/iDigitalFlame/xmt/data"
)

// one read-back of `input` (= enc ++ trailing when p != nil) through a reader with the given end
func doUnmarshalEnd(input []byte, segs []seg, sp split, fmode int, p *pdesc, encLen int, stream bool, class string) {
	rd := newEndReader(input, sp, fmode)
	var q com.Packet
	var r callRes
	ctor, fn := "CUnmarshalE", "Unmarshal"
	if stream {
		ctor, fn = "CUnmarshalSrdE", "UnmarshalStream(data.NewReader)"
		dr := data.NewReader(rd)
		r = call(func() error { return q.UnmarshalStream(dr) })
	} else {
		r = call(func() error { return q.Unmarshal(rd) })
	}
	o := observe(&q, p)
	desc := map[string]interface{}{"fn": fn, "split": sp.json(), "stream_end": map[int]string{0: "(0, EOF)", 1: "last chunk with EOF", 13: "(0, timeout) after the data"}[fmode],
		"input_len": len(input), "encoded_len": encLen, "result": r.String(), "left": rd.remaining(), "reads": rd.reads}
	if p != nil {
		desc["packet"] = p.json()
	} else {
		desc["input"] = ints(input)
	}
	add(fmt.Sprintf("%s %s %s %d %s", ctor, segsCoq(segs), sp.coq(), fmode, r.coq(fmt.Sprintf("(%s, %d)", o.coq(), rd.remaining()))), class, len(input) > 46, desc)
	if p == nil || !p.wellFormed() || sp.hasZero() {
		return
	}
	form := "wire"
	if stream {
		form = "stream"
	}
	key := fmt.Sprintf("/%s/%s/end%d/%s", form, lenClass(p.pay.n), fmode, sp.name)
	switch {
	case !r.ok():
		out.Fail(fn+" of a complete encoding failed on a reader that ends with "+desc["stream_end"].(string)+": "+r.String(), "end-roundtrip-fails"+key, desc)
	case !samePacket(&q, p):
		desc["got"] = o.json()
		out.Fail(fn+" differs from the packet written, on a reader that ends with "+desc["stream_end"].(string), "end-roundtrip-differs"+key, desc)
	case len(input)-rd.remaining() != encLen:
		out.Fail(fn+" did not consume exactly the bytes written, on a reader that ends with "+desc["stream_end"].(string), "end-consumed"+key, desc)
	}
}

// endCases: enc is the complete encoding of p (wire or nested form).  mode 2: grid packet (all
// kinds), 1: large payload in the quick tier (two cases), 0: random packet (two cases)
func endCases(enc []byte, p *pdesc, stream bool, mode int, bodyStart int) {
	small := len(enc) <= 4096
	cls := "end-wire-"
	if stream {
		cls = "end-stream-"
	}
	cls += lenClass(p.pay.n) + "-"
	segs := describe(enc, []*pdesc{p})
	trailing := func() {
		// trailing data behind the packet, the LAST chunk of the stream comes with io.EOF
		in := append(append([]byte(nil), enc...), rng.Bytes(1+rng.Intn(64))...)
		doUnmarshalEnd(in, describe(in, []*pdesc{p}), randomSplit(len(in), small), 1, p, len(enc), stream, cls+"eof-last-trailing")
	}
	failAfter := func() { // a failing Read right after the complete packet
		doUnmarshalEnd(enc, segs, randomSplit(len(enc), small), 13, p, len(enc), stream, cls+"fail-after")
	}
	early := func(fm int) { // data + io.EOF, or a failing Read, BEFORE the end: nothing follows (model only)
		if !small || len(enc) < 2 {
			failAfter()
			return
		}
		cut := 1 + rng.Intn(len(enc)-1)
		if rng.Intn(3) == 0 {
			cut = imin(len(enc)-1, bodyStart+rng.Intn(3))
		}
		t := append([]byte(nil), enc[:cut]...)
		doUnmarshalEnd(t, []seg{{lit: t}}, randomSplit(len(t), true), fm, nil, 0, stream, cls+fmt.Sprintf("early-end%d", fm))
	}
	// nothing behind the packet: the Read that delivers its last byte also delivers io.EOF
	switch mode {
	case 1:
		doUnmarshalEnd(enc, segs, split{name: "whole"}, 1, p, len(enc), stream, cls+"eof-last-whole")
		trailing()
	case 0:
		if thorough || rng.Bool() {
			doUnmarshalEnd(enc, segs, randomSplit(len(enc), small), 1, p, len(enc), stream, cls+"eof-last-random")
			switch rng.Intn(4) {
			case 0:
				trailing()
			case 1:
				failAfter()
			case 2:
				early(1)
			default:
				early(13)
			}
		}
	default:
		sps := []split{{name: "whole"}, randomSplit(len(enc), small)}
		if len(enc) > 1 {
			sps = append(sps, split{sizes: []int{len(enc) - 1}, name: "boundary"})
		}
		if thorough {
			sps = append(sps, split{every: 1 + rng.Intn(len(enc)/2+1), name: "every-k"})
			if bodyStart > 0 && bodyStart < len(enc) {
				sps = append(sps, split{sizes: []int{bodyStart}, name: "boundary"})
			}
			if small {
				sps = append(sps, split{every: 1, name: "1byte"})
			}
		}
		for _, sp := range sps {
			doUnmarshalEnd(enc, segs, sp, 1, p, len(enc), stream, cls+"eof-last-"+sp.name)
		}
		trailing()
		if thorough {
			failAfter()
			early(1)
			early(13)
		} else {
			[]func(){failAfter, func() { early(1) }, func() { early(13) }}[rng.Intn(3)]()
		}
	}
}

// ioCases: the real testing/iotest readers (oracle only)
func ioCases(enc []byte, p *pdesc, stream bool) {
	if !p.wellFormed() {
		return
	}
	form := "wire"
	if stream {
		form = "stream"
	}
	in := enc
	if rng.Bool() {
		in = append(append([]byte(nil), enc...), rng.Bytes(1+rng.Intn(64))...)
	}
	kinds := []string{"onebyte", "half", "dataerr", "dataerr-chunked", "dataerr-onebyte", "timeout"}
	if len(in) > 4096 {
		kinds = []string{"half", "dataerr", "dataerr-chunked", "timeout"}
	}
	for _, kind := range kinds {
		br := bytes.NewReader(in)
		var rd io.Reader
		exact := false // consumption is observable (no read-ahead in the wrapper)
		switch kind {
		case "onebyte":
			rd, exact = iotest.OneByteReader(br), true
		case "half":
			rd, exact = iotest.HalfReader(br), true
		case "dataerr":
			rd = iotest.DataErrReader(br)
		case "dataerr-chunked":
			rd = iotest.DataErrReader(newChunkReader(in, randomSplit(len(in), len(in) <= 4096)))
		case "dataerr-onebyte":
			rd = iotest.OneByteReader(iotest.DataErrReader(br))
		case "timeout":
			rd = iotest.TimeoutReader(br)
		}
		var q com.Packet
		var r callRes
		if stream {
			dr := data.NewReader(rd)
			r = call(func() error { return q.UnmarshalStream(dr) })
		} else {
			r = call(func() error { return q.Unmarshal(rd) })
		}
		out.Count("iotest-"+form+"-"+kind, fmt.Sprintf("%d/%s", out.N(), kind), true)
		desc := map[string]interface{}{"fn": "Unmarshal through iotest reader", "form": form, "reader": kind, "packet": p.json(), "input_len": len(in),
			"encoded_len": len(enc), "result": r.String()}
		key := fmt.Sprintf("iotest/%s/%s/%s", form, kind, lenClass(p.pay.n))
		switch {
		case kind == "timeout":
			if r.ok() && !samePacket(&q, p) {
				out.Fail("a reader that failed produced a different packet without an error", key, desc)
			}
		case !r.ok():
			out.Fail("reading a complete encoding through iotest."+kind+" failed: "+r.String(), key, desc)
		case !samePacket(&q, p):
			desc["got"] = observe(&q, p).json()
			out.Fail("reading through iotest."+kind+" gives a different packet", key, desc)
		case exact && len(in)-br.Len() != len(enc):
			desc["consumed"] = len(in) - br.Len()
			out.Fail("reading through iotest."+kind+" did not consume exactly the bytes written", key, desc)
		}
	}
}
