// C01 harness, part 4: the largest tag lists (PacketMaxTags and PacketMaxTags-1) in the QUICK tier.
// The round trip, each time followed by a second packet on the same stream, is evaluated on the
// implementation (oracle); the model is compared on the writer side (Size, Marshal, MarshalStream:
// length and checksum, the tag list is described by its generator); the readers are compared with
// the model on such lists in the thorough tier only -- inside Coq a read of a tag measures the chunk
// it reads from and the chunk list, 32768 tags cost from 25 s (97-byte chunks) to minutes per case.
package main

import (
	"bytes"
	"fmt"

	"github.com/iDigitalFlame/xmt/com"
)

func manyTagsQuick() {
	for _, lt := range [][2]int{{0, com.PacketMaxTags}, {255, com.PacketMaxTags - 1}} {
		p := mkPacket(lt[0], lt[1])
		second := mkPacket(rng.Intn(40), rng.Intn(3))
		key := fmt.Sprintf("manytags/%d", lt[1])
		desc := map[string]interface{}{"packet": p.json(), "second": second.json()}
		// ---- wire form (doMarshal: Size and Marshal against the model; a refusal is an oracle failure)
		enc := doMarshal(p)
		if enc != nil {
			var wb bytes.Buffer
			wb.Write(enc)
			if second.build().Marshal(&wb) == nil {
				all := append([]byte(nil), wb.Bytes()...)
				rd := newChunkReader(all, randomSplit(len(all), false))
				var x, y com.Packet
				r := call(func() error {
					if err := x.Unmarshal(rd); err != nil {
						return err
					}
					return y.Unmarshal(rd)
				})
				out.Count("manytags-wire-concat", key, true)
				d := map[string]interface{}{"fn": "Marshal;Marshal;Unmarshal;Unmarshal", "packet": p.json(), "second": second.json(), "result": r.String(), "left": rd.remaining()}
				switch {
				case !r.ok():
					out.Fail("a packet with "+fmt.Sprint(lt[1])+" tags followed by a second packet does not read back: "+r.String(), key+"/wire-fails", d)
				case !samePacket(&x, p) || !samePacket(&y, second) || rd.remaining() != 0:
					out.Fail("a packet with "+fmt.Sprint(lt[1])+" tags followed by a second packet reads back differently", key+"/wire-differs", d)
				}
			}
		}
		// ---- nested form
		se, r := marshalStreamChunk(p)
		if !r.ok() {
			out.Fail("MarshalStream of a packet with "+fmt.Sprint(lt[1])+" tags failed: "+r.String(), key+"/mstream-fails", desc)
			continue
		}
		add(fmt.Sprintf("CMarshalStream %s %d %s %s", p.coq(), len(se), cksum(se), litOpt(se)), "manytags-mstream", true,
			map[string]interface{}{"fn": "MarshalStream(Chunk)", "packet": p.json(), "len": len(se)})
		var w com.Packet
		q := p.build()
		rr := call(func() error {
			if err := q.MarshalStream(&w); err != nil {
				return err
			}
			if err := second.build().MarshalStream(&w); err != nil {
				return err
			}
			return nil
		})
		var x, y com.Packet
		if rr.ok() {
			rr = call(func() error {
				if err := x.UnmarshalStream(&w); err != nil {
					return err
				}
				return y.UnmarshalStream(&w)
			})
		}
		out.Count("manytags-stream-concat", key, true)
		d := map[string]interface{}{"fn": "MarshalStream x2; UnmarshalStream x2", "packet": p.json(), "second": second.json(), "result": rr.String(), "left": w.Remaining()}
		switch {
		case !rr.ok():
			out.Fail("a packet with "+fmt.Sprint(lt[1])+" tags nested before a second packet does not read back: "+rr.String(), key+"/stream-fails", d)
		case !samePacket(&x, p) || !samePacket(&y, second) || w.Remaining() != 0:
			out.Fail("a packet with "+fmt.Sprint(lt[1])+" tags nested before a second packet reads back differently", key+"/stream-differs", d)
		}
	}
}
