// C01 harness, part 2: packets whose payload Chunk is NOT fresh.  A packet that was written,
// received, read with the typed readers or with Read, rewound or moved with Seek, or already
// marshalled once has its read cursor anywhere in [0, Size()].  Marshal must not care (it rewinds
// and writes the whole buffer; the header announces Chunk.Size()), MarshalStream writes the unread
// part.  Every subject is marshalled with a SECOND packet behind it on the same stream and both
// are read back: "reading consumes exactly the bytes that writing produced, so packets can be
// concatenated" is what a proxy that forwards a packet it has looked into relies on.
package main

import (
	"bytes"
	"fmt"
	"io"

	"github.com/iDigitalFlame/xmt/com"
	"github.com/iDigitalFlame/xmt/device"

	"verifharness/vh"
)

// typed payload items (data.Writer / data.Reader of the Chunk)
type titem struct {
	kind int // 0 u8, 1 u16, 2 u32, 3 u64, 4 string, 5 bytes, 6 bool
	u    uint64
	b    []byte
}

func randItems(n, maxBlob int) []titem {
	l := make([]titem, n)
	for i := range l {
		l[i] = titem{kind: rng.Intn(7), u: rng.U64()}
		if l[i].kind == 4 || l[i].kind == 5 {
			l[i].b = rng.Bytes(rng.Intn(maxBlob + 1))
		}
	}
	return l
}
func writeItem(q *com.Packet, it titem) error {
	switch it.kind {
	case 0:
		return q.WriteUint8(uint8(it.u))
	case 1:
		return q.WriteUint16(uint16(it.u))
	case 2:
		return q.WriteUint32(uint32(it.u))
	case 3:
		return q.WriteUint64(it.u)
	case 4:
		return q.WriteString(string(it.b))
	case 5:
		return q.WriteBytes(it.b)
	}
	return q.WriteBool(it.u&1 == 1)
}
func readItem(q *com.Packet, it titem) error {
	var err error
	switch it.kind {
	case 0:
		_, err = q.Uint8()
	case 1:
		_, err = q.Uint16()
	case 2:
		_, err = q.Uint32()
	case 3:
		_, err = q.Uint64()
	case 4:
		_, err = q.StringVal()
	case 5:
		_, err = q.Bytes()
	default:
		_, err = q.Bool()
	}
	return err
}

// the whole buffer and the read cursor of a packet, observed through the exported API
func snapshot(q *com.Packet) ([]byte, int) {
	cur := q.Chunk.Size() - q.Remaining()
	q.Seek(0, io.SeekStart)
	b := append([]byte(nil), q.Payload()...)
	q.Seek(int64(cur), io.SeekStart)
	return b, cur
}

var cursorStates = []string{"fresh", "typed-partial", "typed-eof", "raw-read", "raw-read-all", "drained", "seek-start",
	"seek-mid", "seek-end", "seek-back", "marshalled-before", "mstream-before", "received-typed-eof", "received-partial", "received-fresh"}

// subject builds a packet with the given header fields and content (typed items, or raw bytes when
// items is nil) and brings it into the named state
func subject(state string, h *pdesc, items []titem, raw []byte) *com.Packet {
	q := &com.Packet{ID: h.id, Job: h.job, Flags: com.Flag(h.flags), Device: h.dev}
	if t := h.tags.tags(); len(t) > 0 {
		q.Tags = append([]uint32(nil), t...)
	}
	for _, it := range items {
		writeItem(q, it)
	}
	if len(raw) > 0 {
		q.Write(raw)
	}
	total := q.Chunk.Size()
	readTyped := func(p *com.Packet, all bool) {
		if items == nil {
			k := total
			if !all && total > 0 {
				k = rng.Intn(total)
			}
			p.Read(make([]byte, k))
			return
		}
		n := len(items)
		if !all && n > 0 {
			n = rng.Intn(n)
		}
		for _, it := range items[:n] {
			readItem(p, it)
		}
	}
	switch state {
	case "typed-partial":
		readTyped(q, false)
	case "typed-eof":
		readTyped(q, true)
	case "raw-read":
		if total > 0 {
			q.Read(make([]byte, 1+rng.Intn(total)))
		}
	case "raw-read-all":
		q.Read(make([]byte, total))
	case "drained": // io.ReadAll style: the Read after the last byte resets the buffer
		if total > 0 { // (Read on a never-written Chunk returns (0, nil) for ever)
			io.Copy(io.Discard, readerOnly{q})
		}
	case "seek-start":
		readTyped(q, true)
		q.Seek(0, io.SeekStart)
	case "seek-mid":
		q.Seek(int64(rng.Intn(total+1)), io.SeekStart)
	case "seek-end":
		q.Seek(0, io.SeekEnd)
	case "seek-back":
		readTyped(q, true)
		if total > 0 {
			q.Seek(-int64(1+rng.Intn(total)), io.SeekCurrent)
		}
	case "marshalled-before":
		q.Marshal(io.Discard)
	case "mstream-before":
		readTyped(q, false)
		var w com.Packet
		q.MarshalStream(&w)
	case "received-typed-eof", "received-partial", "received-fresh":
		var b bytes.Buffer
		if q.Marshal(&b) != nil {
			return q
		}
		r := new(com.Packet)
		if r.Unmarshal(&b) != nil {
			return q
		}
		if state == "received-typed-eof" {
			readTyped(r, true)
		} else if state == "received-partial" {
			readTyped(r, false)
		}
		return r
	}
	return q
}

// readerOnly hides WriteTo, so that io.Copy drains through Read
type readerOnly struct{ r io.Reader }

func (r readerOnly) Read(b []byte) (int, error) { return r.r.Read(b) }

func fieldsEqual(x *com.Packet, id uint8, job uint16, flags uint64, dev device.ID, tags []uint32, pay []byte) bool {
	return x.ID == id && x.Job == job && uint64(x.Flags) == flags && x.Device == dev && equalTags(x.Tags, tags) && bytes.Equal(x.Payload(), pay)
}

// cursorCase: one subject in one state, followed by a second packet, wire form and nested form
func cursorCase(state string, h *pdesc, items []titem, raw []byte, rawGen *bdesc) {
	q := subject(state, h, items, raw)
	buf, cur := snapshot(q)
	// the description of the subject: its header fields, the WHOLE buffer, the cursor
	d := pdesc{id: q.ID, job: q.Job, flags: uint64(q.Flags), dev: q.Device, tags: tdesc{lit: append([]uint32(nil), q.Tags...), n: len(q.Tags)},
		pay: bdesc{lit: buf, n: len(buf)}}
	if rawGen != nil && bytes.Equal(buf, rawGen.bytes()) {
		d.pay = *rawGen
	}
	unreadPay := bdesc{lit: buf[cur:], n: len(buf) - cur}
	if cur == 0 {
		unreadPay = d.pay
	}
	du := d
	du.pay = unreadPay
	second := mkPacket(rng.Intn(40), rng.Intn(3))
	cls := "cursor-" + state
	base := map[string]interface{}{"state": state, "packet": d.json(), "cursor": cur, "second": second.json()}
	with := func(kv ...interface{}) map[string]interface{} {
		m := map[string]interface{}{}
		for k, v := range base {
			m[k] = v
		}
		for i := 0; i+1 < len(kv); i += 2 {
			m[kv[i].(string)] = kv[i+1]
		}
		return m
	}
	nontrivial := len(buf) > 0

	// Size()
	sz := q.Size()
	add(fmt.Sprintf("CSizeCur %s %d %d", d.coq(), cur, sz), cls+"-size", nontrivial, with("fn", "Size", "size", sz))

	// ---- nested form first (it does not move the cursor): subject, then the second packet, in one container
	// (skipped when the unread part is a long suffix of a generated payload: it would have to be printed)
	var w com.Packet
	r := callRes{}
	nested := unreadPay.gen || unreadPay.n <= 4096
	if nested {
		r = call(func() error { return q.MarshalStream(&w) })
	}
	if !nested {
	} else if r.ok() {
		enc := append([]byte(nil), w.Payload()...)
		add(fmt.Sprintf("CMarshalStreamCur %s %d %d %s %s", d.coq(), cur, len(enc), cksum(enc), litOpt(enc)), cls+"-mstream", nontrivial,
			with("fn", "MarshalStream", "len", len(enc)))
		if _, c2 := snapshot(q); c2 != cur {
			out.Note(fmt.Sprintf("MarshalStream moved the read cursor from %d to %d in state %s", cur, c2, state))
		}
		r2 := call(func() error { return second.build().MarshalStream(&w) })
		if r2.ok() {
			all := append([]byte(nil), w.Payload()...)
			segs := describe(all, []*pdesc{&du, second})
			var x, y com.Packet
			rr := call(func() error {
				if err := x.UnmarshalStream(&w); err != nil {
					return err
				}
				return y.UnmarshalStream(&w)
			})
			left := w.Remaining()
			items2 := []string{}
			if rr.ok() {
				items2 = []string{observe(&x, &du).coq(), observe(&y, second).coq()}
			}
			desc := with("fn", "MarshalStream;MarshalStream;UnmarshalStream;UnmarshalStream", "result", rr.String(), "left", left, "first_len", len(enc))
			add(fmt.Sprintf("CStreamMany %s %s", segsCoq(segs), rr.coq(vh.List(items2))), cls+"-stream-concat", true, desc)
			switch {
			case !rr.ok():
				out.Fail("a packet stream-marshalled in cursor state "+state+" followed by a second packet does not read back: "+rr.String(), "stream-cursor-fails/"+state, desc)
			case !fieldsEqual(&x, d.id, d.job, d.flags, d.dev, d.tags.tags(), buf[cur:]):
				desc["got"] = observe(&x, nil).json()
				out.Fail("UnmarshalStream(MarshalStream(p)) in cursor state "+state+" differs from p (header fields, unread payload)", "stream-cursor-differs/"+state, desc)
			case !samePacket(&y, second) || left != 0:
				desc["got_second"] = observe(&y, nil).json()
				out.Fail("the packet FOLLOWING a packet stream-marshalled in cursor state "+state+" is not read back (stream desynchronised)", "stream-cursor-desync/"+state, desc)
			}
			// the first one again through data.NewReader over short reads, the second packet as trailing data
			doUnmarshalSrd(all, segs, randomSplit(len(all), len(all) <= 4096), &du, len(enc), cls+"-ustream-reader")
		}
	} else if d.wellFormed() {
		out.Fail("MarshalStream of a well-formed packet failed in cursor state "+state+": "+r.String(), "mstream-cursor-fails/"+state, with("result", r.String()))
	}

	// ---- wire form: subject, then the second packet, on one stream
	var wb bytes.Buffer
	r = call(func() error { return q.Marshal(&wb) })
	n1 := wb.Len()
	_, curAfter := snapshot(q)
	enc := append([]byte(nil), wb.Bytes()...)
	o := r.coq(fmt.Sprintf("(%d, %s)", n1, cksum(enc)))
	lit := litOpt(enc)
	if !r.ok() {
		lit = "None"
	}
	mdesc := with("fn", "Marshal", "result", r.String(), "len", n1, "cursor_after", curAfter)
	add(fmt.Sprintf("CMarshalCur %s %d %s %s %d", d.coq(), cur, o, lit, curAfter), cls+"-marshal", nontrivial, mdesc)
	if !r.ok() {
		if d.wellFormed() {
			out.Fail("Marshal of a well-formed packet failed in cursor state "+state+": "+r.String(), "marshal-cursor-fails/"+state, mdesc)
		}
		return
	}
	if call(func() error { return second.build().Marshal(&wb) }).ok() {
		all := append([]byte(nil), wb.Bytes()...)
		segs := describe(all, []*pdesc{&d, second})
		sp := randomSplit(len(all), len(all) <= 4096)
		if rng.Intn(3) == 0 {
			sp = split{name: "whole"}
		}
		rd := newChunkReader(all, sp)
		var got []*com.Packet
		rr := call(func() error {
			for !rd.exhausted() && len(got) < 4 {
				x := new(com.Packet)
				if err := x.Unmarshal(rd); err != nil {
					return err
				}
				got = append(got, x)
			}
			return nil
		})
		its := make([]string, len(got))
		for i, x := range got {
			hint := &d
			if i > 0 {
				hint = second
			}
			its[i] = observe(x, hint).coq()
		}
		desc := with("fn", "Marshal;Marshal;Unmarshal*", "split", sp.json(), "result", rr.String(), "decoded", len(got), "first_len", n1,
			"announced", device.IDSize+14+len(d.tags.tags())*4+len(buf))
		if len(got) < 4 || !rr.ok() { // (a runaway reader loop is cut at four packets: then only the oracle speaks)
			add(fmt.Sprintf("CMany %s %s %s", segsCoq(segs), sp.coq(), rr.coq(vh.List(its))), cls+"-wire-concat", true, desc)
		}
		switch {
		case !rr.ok():
			out.Fail("a packet marshalled in cursor state "+state+" followed by a second packet does not read back: "+rr.String(), "wire-cursor-fails/"+state, desc)
		case len(got) < 1 || !fieldsEqual(got[0], d.id, d.job, d.flags, d.dev, d.tags.tags(), buf):
			if len(got) > 0 {
				desc["got"] = observe(got[0], nil).json()
			}
			out.Fail("Unmarshal(Marshal(p)) in cursor state "+state+" differs from p (header fields, whole payload buffer)", "wire-cursor-differs/"+state, desc)
		case len(got) != 2 || !samePacket(got[1], second):
			out.Fail("the packet FOLLOWING a packet marshalled in cursor state "+state+" is not read back (stream desynchronised)", "wire-cursor-desync/"+state, desc)
		}
		// exact consumption of the first one, the second packet as trailing data
		doUnmarshal(all, segs, randomSplit(len(all), len(all) <= 4096), &d, n1, cls+"-unmarshal")
	}
}

// cursorCases: every cursor state over small typed payloads (with and without tags, around the
// 255/256 length switch) and raw payloads; nbig large raw payloads
func cursorCases(rounds, nbig int) {
	for round := 0; round < rounds; round++ {
		for _, st := range cursorStates {
			h := mkPacket(0, []int{0, 2, 1, 5}[round%4])
			var items []titem
			switch round % 4 {
			case 0:
				items = randItems(1+rng.Intn(4), 12)
			case 1:
				items = randItems(3+rng.Intn(6), 90) // often crosses 255/256
			case 2:
				items = randItems(2+rng.Intn(3), 300)
			}
			if items != nil {
				cursorCase(st, h, items, nil, nil)
			} else {
				cursorCase(st, h, nil, rng.Bytes(1+rng.Intn(520)), nil)
			}
		}
	}
	// no payload at all: every state is the same state, the header announces 0
	cursorCase("fresh", mkPacket(0, 1), nil, nil, nil)
	cursorCase("seek-end", mkPacket(0, 0), nil, nil, nil)
	cursorCase("received-typed-eof", mkPacket(0, 2), nil, nil, nil)
	for i := 0; i < nbig; i++ {
		n := []int{65536, 65535, 70000, 16384, 16385}[i%5]
		g := bdesc{gen: true, seed: rng.U64() % 1000, n: n}
		st := []string{"raw-read-all", "seek-mid", "received-typed-eof", "seek-end", "raw-read"}[i%5]
		cursorCase(st, mkPacket(0, i%3), nil, g.bytes(), &g)
	}
}
