module verifharness

go 1.18

require github.com/iDigitalFlame/xmt v0.0.0

replace github.com/iDigitalFlame/xmt => /repo
