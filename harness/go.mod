module verifharness

go 1.18

require (
	github.com/PurpleSec/logx v1.6.1
	github.com/iDigitalFlame/xmt v0.0.0
)

require github.com/PurpleSec/escape v1.0.0 // indirect

replace github.com/iDigitalFlame/xmt => /repo
