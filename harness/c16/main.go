// C16 harness: real teardown of sessions, listeners and servers over TCP loopback.
//
// The parent process draws the scenarios from one PRNG and runs them in a child process (a
// run-time panic in a library goroutine kills the process: it has to be observed, not
// suffered).  Each scenario starts a real Server + Listener, connects a real client Session,
// drives it to a protocol instant, issues the close calls phase by phase (the calls of one
// phase start together), waits for quiescence and evaluates the property directly (oracle):
// every call returned, Wait/Done released, a reachable peer closed too and is no longer
// listed, no goroutine of a closed session is left, NumGoroutine is back at the baseline
// after the final clean-up, nothing panicked.  The abstract trace (closing bits and channel
// states of both ends, listing, listener / server done, live client goroutines) is emitted as
// a Coq case and compared with the Gallina model (Model/Close.v) on the same scenario.
// The racing groups through the real receiveSingle / Session.Close (stress) are compared with
// the model too (one group under the round-robin schedule: no fault, closed, released,
// unlisted).  A child that dies is an observation: the failure key names the kind of the
// panic and the first function of package c2 on the panicking stack.
package main

import (
	"bufio"
	"bytes"
	"context"
	"encoding/json"
	"flag"
	"fmt"
	"net"
	"os"
	"os/exec"
	"runtime"
	"runtime/debug"
	"strings"
	"sync"
	"sync/atomic"
	"time"

	"github.com/PurpleSec/logx"
	"github.com/iDigitalFlame/xmt/c2"
	"github.com/iDigitalFlame/xmt/c2/cfg"
	"github.com/iDigitalFlame/xmt/com"
	"github.com/iDigitalFlame/xmt/com/limits"
	"github.com/iDigitalFlame/xmt/device"
	"github.com/iDigitalFlame/xmt/device/local"

	"verifharness/vh"
)

const (
	cClientClose = 1
	cCtxCancel   = 3
	cServerClose = 4
	cRemove      = 5
	cRemoveSoft  = 6
	cSrvClose    = 9
	cLsnClose    = 10
	cReplaceOK   = 20
	cProxyClose  = 30
	cReplaceFail = 21

	stCanRecv   = 1 << 0
	stClosed    = 1 << 2
	stClosing   = 1 << 3
	stShutdown  = 1 << 4
	stSendClose = 1 << 5
	stRecvClose = 1 << 6
	stWakeClose = 1 << 7
	stShutWait  = 1 << 15
	stReplacing = 1 << 14
)

// Scn is one scenario (also the replay format: the "input" of a replay file).
type Scn struct {
	Kind    string  `json:"kind"`    // "e2e" | "noclient" | "stress"
	Instant string  `json:"instant"` // protocol instant at which the first phase is issued
	Cpk     bool    `json:"client_packets"`
	Spk     bool    `json:"server_packets"`
	Chm     bool    `json:"channel_mode"`
	Cbk     bool    `json:"client_calls_back"`
	Phases  [][]int `json:"phases"`
	Compare bool    `json:"model_compared"`
	DelayUs []int   `json:"delay_us,omitempty"`
	Pairs   int     `json:"pairs,omitempty"`
	Variant string  `json:"variant,omitempty"`
	SleepMs int     `json:"sleep_ms"`
	Repeat  int     `json:"repeat,omitempty"` // replay only: run the scenario this many times (schedule-dependent failures)
}

type failRec struct {
	What string `json:"what"`
	Key  string `json:"key"`
}

// Res is what the child reports for one scenario.
type Res struct {
	K         int            `json:"k"`
	Panic     bool           `json:"panic"`
	PanicMsg  string         `json:"panic_msg,omitempty"`
	Returned  bool           `json:"returned"`
	Final     []int64        `json:"final"`
	Fails     []failRec      `json:"fails"`
	Obs       []string       `json:"obs,omitempty"`
	Extra     map[string]int `json:"extra,omitempty"`
	AllClosed bool           `json:"all_closed,omitempty"` // stress: every session closed, released and unlisted
	NoCompare bool           `json:"no_compare,omitempty"` // the observation window was too short for the model\'s "eventually"
	Ms        int64          `json:"ms"`
}

func b2i(b bool) int64 {
	if b {
		return 1
	}
	return 0
}

func waitCh(ch <-chan struct{}, d time.Duration) bool {
	select {
	case <-ch:
		return true
	case <-time.After(d):
		return false
	}
}

// liveClientGoroutines counts goroutines standing in Session.listen or eventer.listen.
func liveClientGoroutines() int {
	buf := make([]byte, 1<<20)
	n := runtime.Stack(buf, true)
	s := string(buf[:n])
	return strings.Count(s, "/c2.eventer.listen(") + strings.Count(s, "/c2.(*Session).listen(")
}

func settleGoroutines(base int, d time.Duration) int {
	end := time.Now().Add(d)
	for {
		n := runtime.NumGoroutine()
		if n <= base || time.Now().After(end) {
			return n
		}
		time.Sleep(2 * time.Millisecond)
	}
}

func obsSess(s *c2.Session) []int64 {
	st := c2.VerifC16State(s)
	ch := c2.VerifC16Chans(s)
	return []int64{b2i(st&stClosing != 0), b2i(st&stShutdown != 0), b2i(st&stClosed != 0), b2i(st&stSendClose != 0),
		b2i(st&stWakeClose != 0), b2i(st&stRecvClose != 0), b2i(st&stShutWait != 0),
		int64(ch[0]), int64(ch[1]), int64(ch[2]), int64(ch[3])}
}

func quickState(c, ss *c2.Session, srv *c2.Server, l *c2.Listener) string {
	var sb strings.Builder
	if c != nil {
		fmt.Fprintf(&sb, "%x/", c2.VerifC16State(c)&0xFFFF)
	}
	if ss != nil {
		fmt.Fprintf(&sb, "%x/%v/", c2.VerifC16State(ss)&0xFFFF, c2.VerifC16Listed(srv, ss))
	}
	fmt.Fprintf(&sb, "%x/%d", c2.VerifC16ListenerState(l)&0xFFFF, liveClientGoroutines())
	select {
	case <-srv.Done():
		sb.WriteString("/sd")
	default:
	}
	return sb.String()
}

// quiesce waits until the observable state has not changed for `stable`.
func quiesce(c, ss *c2.Session, srv *c2.Server, l *c2.Listener, stable, max time.Duration) {
	var (
		last  = quickState(c, ss, srv, l)
		since = time.Now()
		end   = time.Now().Add(max)
	)
	for time.Now().Before(end) {
		time.Sleep(2 * time.Millisecond)
		if s := quickState(c, ss, srv, l); s != last {
			last, since = s, time.Now()
		} else if time.Since(since) >= stable {
			return
		}
	}
}

func chanObs(ch <-chan struct{}) int64 {
	select {
	case <-ch:
		return 2
	default:
		return 1
	}
}

func newID(r *vh.Rand) device.ID {
	var id device.ID
	copy(id[:], r.Bytes(len(id)))
	id[0] |= 1
	return id
}

// runE2E executes one end-to-end scenario on the real code.
func runE2E(k int, sc Scn, r *vh.Rand) (res Res) {
	res.K, res.Returned, res.Extra = k, true, map[string]int{}
	fail := func(what, key string) { res.Fails = append(res.Fails, failRec{what, key}) }
	t0 := time.Now()
	base := runtime.NumGoroutine()
	sleep := time.Duration(sc.SleepMs) * time.Millisecond
	if !sc.Cbk {
		sleep = time.Hour
	}
	srv := c2.NewServer(logx.NOP)
	srv.Keys.Fill() // otherwise generated asynchronously by the server loop
	l, err := srv.Listen("c16", "127.0.0.1:0", cfg.Static{L: com.TCP})
	if err != nil {
		panic("listen: " + err.Error())
	}
	addr := l.Address()
	var (
		c      *c2.Session
		ss     *c2.Session
		cancel context.CancelFunc = func() {}
	)
	if sc.Kind == "e2e" {
		var ctx context.Context
		ctx, cancel = context.WithCancel(context.Background())
		old := local.UUID
		local.UUID = newID(r)
		c, err = c2.ConnectContext(ctx, logx.NOP, cfg.Static{C: com.TCP, H: addr, S: sleep})
		id := local.UUID
		local.UUID = old
		if err != nil {
			panic("connect: " + err.Error())
		}
		for i := 0; i < 200 && ss == nil; i++ {
			if ss = srv.Session(id); ss == nil {
				time.Sleep(time.Millisecond)
			}
		}
		if ss == nil {
			panic("server never listed the session")
		}
		if sc.Cpk {
			c.Packets()
		}
		if sc.Spk {
			ss.Packets()
		}
		switch sc.Instant {
		case "registered":
		case "idle":
			time.Sleep(3 * time.Duration(sc.SleepMs) * time.Millisecond)
		case "queued-client":
			for i := 0; i < 3; i++ {
				c.Write(&com.Packet{ID: 0xE0, Device: c.ID})
			}
		case "queued-server":
			for i := 0; i < 3; i++ {
				ss.Write(&com.Packet{ID: 0xE0, Device: ss.ID})
			}
		case "queued-both":
			for i := 0; i < 3; i++ {
				c.Write(&com.Packet{ID: 0xE0, Device: c.ID})
				ss.Write(&com.Packet{ID: 0xE0, Device: ss.ID})
			}
		case "fragments":
			p := &com.Packet{ID: 0xE0, Device: c.ID}
			p.Write(make([]byte, 2*limits.Frag+limits.Frag/2))
			c.Write(p)
			time.Sleep(time.Duration(r.Intn(3*sc.SleepMs*1000+1)) * time.Microsecond)
		case "mid-exchange":
			time.Sleep(time.Duration(r.Intn(2*sc.SleepMs*1000+1)) * time.Microsecond)
		}
		if sc.Chm {
			c.SetChannel(true)
			ok := false
			for i := 0; i < 500 && !ok; i++ {
				time.Sleep(time.Millisecond)
				ok = c2.VerifC16State(c)&(1<<8) != 0 && c2.VerifC16State(ss)&(1<<8) != 0
			}
			if !ok {
				res.Obs = append(res.Obs, "channel mode was not reached within 500 ms")
			}
		}
	}
	// ---- the close calls, phase by phase
	var (
		clientClosed, serverSessClosed, lsnClosed, srvClosed bool // calls issued so far
		reachable                                            = true
	)
	for pi, ph := range sc.Phases {
		var (
			wg    sync.WaitGroup
			start = make(chan struct{})
			done  = make(chan struct{})
		)
		for ti, code := range ph {
			d := time.Duration(0)
			if pi == 0 && ti < len(sc.DelayUs) {
				d = time.Duration(sc.DelayUs[ti]) * time.Microsecond
			}
			wg.Add(1)
			go func(code int, d time.Duration) {
				defer wg.Done()
				<-start
				if d > 0 {
					time.Sleep(d)
				}
				switch code {
				case cClientClose:
					c.Close()
				case cCtxCancel:
					cancel()
				case cServerClose:
					ss.Close()
				case cRemove:
					srv.Remove(ss.ID, true)
				case cSrvClose:
					srv.Close()
				case cLsnClose:
					l.Close()
				}
			}(code, d)
			switch code {
			case cClientClose, cCtxCancel:
				clientClosed = true
			case cServerClose, cRemove:
				if reachable && sc.Cbk && !srvClosed {
					serverSessClosed = true
				}
			case cSrvClose:
				srvClosed, lsnClosed = true, true
			case cLsnClose:
				lsnClosed = true
			}
		}
		close(start)
		go func() { wg.Wait(); close(done) }()
		if !waitCh(done, 3*time.Second) {
			res.Returned = false
			fail(fmt.Sprintf("a close call of phase %d %v did not return within 3 s (instant %s)", pi, ph, sc.Instant), "hang-"+sc.Instant)
		}
		quiesce(c, ss, srv, l, time.Duration(20*sc.SleepMs)*time.Millisecond, 2*time.Second)
		if lsnClosed {
			reachable = false
		}
		// a client that calls back and finds the listener gone gives up after maxErrors failed
		// connects (the model's "eventually"): give it the time before the next phase / the
		// final observation
		if c != nil && lsnClosed && sc.Cbk && !res.NoCompare {
			if !waitCh(c.Done(), 3*time.Second) {
				res.NoCompare = true
				res.Obs = append(res.Obs, "the client had not given up 3 s after the listener was closed (trace not compared)")
			} else {
				quiesce(c, ss, srv, l, time.Duration(20*sc.SleepMs)*time.Millisecond, 2*time.Second)
			}
		}
	}
	// ---- what the property promises, evaluated on the implementation
	wasReachable := func() bool { // could the close handshake run? (listener alive when the first session-level close was issued)
		for _, ph := range sc.Phases {
			for _, code := range ph {
				switch code {
				case cSrvClose, cLsnClose:
					return false
				case cClientClose, cCtxCancel, cServerClose, cRemove:
					return true
				}
			}
		}
		return false
	}()
	mixed := false // a phase that races session closes with the listener / server teardown: who wins is schedule dependent
	for _, ph := range sc.Phases {
		var a, b bool
		for _, code := range ph {
			if code == cSrvClose || code == cLsnClose {
				a = true
			} else {
				b = true
			}
		}
		mixed = mixed || (a && b)
	}
	if c != nil {
		expClient := clientClosed || (serverSessClosed && wasReachable && !mixed)
		expServer := wasReachable && !mixed && (clientClosed || serverSessClosed)
		if expClient {
			if !waitCh(c.Done(), time.Second) {
				fail("client Session.Wait/Done was not released after the close ("+sc.Instant+")", "client-wait-"+sc.Instant)
			} else if !c.IsClosed() {
				fail("client Done released but IsClosed is false", "client-closed-flag")
			}
		}
		if expServer {
			if !waitCh(ss.Done(), time.Second) {
				fail("server-side Session.Wait/Done was not released although the peer was reachable ("+sc.Instant+")", "server-wait-"+sc.Instant)
			}
			if c2.VerifC16Listed(srv, ss) {
				fail("the server still lists the session after the close handshake ("+sc.Instant+")", "still-listed-"+sc.Instant)
			}
		}
		if n := liveClientGoroutines(); c.IsClosed() && n > 0 {
			fail(fmt.Sprintf("%d goroutine(s) of the closed client session still running (eventer.listen / Session.listen)", n), "client-goroutine-left")
		}
		// candidate (b): an unreachable / silent peer
		if !expServer && len(sc.Phases) > 0 && !srvClosed && (func() bool {
			for _, ph := range sc.Phases {
				for _, code := range ph {
					if code == cServerClose || code == cRemove {
						return true
					}
				}
			}
			return false
		})() && !clientClosed {
			select {
			case <-ss.Done():
			default:
				res.Obs = append(res.Obs, "server-side Close with a silent peer: Wait not released, session still listed="+fmt.Sprint(c2.VerifC16Listed(srv, ss)))
				res.Extra["silent-peer-stays-open"] = 1
			}
		}
	}
	if lsnClosed {
		if !waitCh(l.Done(), time.Second) {
			fail("Listener.Wait/Done not released after Close", "listener-wait")
		}
	}
	if srvClosed {
		if !waitCh(srv.Done(), time.Second) {
			fail("Server.Wait/Done not released after Close", "server-wait")
		}
	}
	// ---- abstract trace
	var fin []int64
	live := int64(liveClientGoroutines())
	if c != nil {
		fin = append(fin, obsSess(c)...)
		fin = append(fin, obsSess(ss)...)
		fin = append(fin, b2i(c2.VerifC16Listed(srv, ss)))
		// flag / channel coherence (the model's invariant, checked on the implementation)
		for _, x := range []struct {
			n string
			o []int64
		}{{"client", fin[0:11]}, {"server", fin[11:22]}} {
			if (x.o[3] == 1) != (x.o[7] == 2) || (x.o[4] == 1) != (x.o[8] == 2) || (x.o[5] == 1) != (x.o[9] == 2) || (x.o[2] == 1) != (x.o[10] == 2) {
				fail(fmt.Sprintf("%s session: state bits and channel states disagree at quiescence: %v", x.n, x.o), "flag-channel-"+x.n)
			}
		}
	}
	fin = append(fin, b2i(c2.VerifC16ListenerState(l)&stClosed != 0), chanObs(l.Done()), chanObs(srv.Done()), live)
	res.Final = fin
	// ---- clean-up, then the goroutine baseline
	cancel()
	cl := make(chan struct{})
	go func() {
		if c != nil {
			c.Close()
		}
		l.Close()
		srv.Close()
		close(cl)
	}()
	if !waitCh(cl, 3*time.Second) {
		fail("clean-up (client Close, Listener.Close, Server.Close) did not return within 3 s", "cleanup-hang")
		res.Returned = false
	}
	if n := settleGoroutines(base, 1500*time.Millisecond); n > base {
		buf := make([]byte, 1<<16)
		buf = buf[:runtime.Stack(buf, true)]
		what := "other"
		switch s := string(buf); {
		case strings.Contains(s, "/c2.eventer.listen("):
			what = "eventer"
		case strings.Contains(s, "/c2.(*Session).listen("):
			what = "session-listen"
		case strings.Contains(s, "/c2.handle("):
			what = "handler"
		case strings.Contains(s, "/c2.(*Listener).listen("):
			what = "listener"
		case strings.Contains(s, "/c2.(*Server).listen("):
			what = "server"
		}
		fail(fmt.Sprintf("goroutines did not return to the baseline after teardown: %d > %d (%s)", n, base, what), "goroutine-baseline-"+what)
	}
	res.Ms = time.Since(t0).Milliseconds()
	return res
}

// runStress: racing pairs through the real receiveSingle on server-side sessions (search only).
func runStress(k int, sc Scn, r *vh.Rand) (res Res) {
	res.K, res.Returned, res.Extra = k, true, map[string]int{}
	base := runtime.NumGoroutine()
	srv := c2.NewServer(logx.NOP)
	srv.Keys.Fill()
	l, err := srv.Listen("c16s", "127.0.0.1:0", cfg.Static{L: com.TCP})
	if err != nil {
		panic("listen: " + err.Error())
	}
	var (
		dbl, snd, other int
		sndStack        string
		mu              sync.Mutex
		notClosed       int
		stillListed     int
	)
	call := func(f func()) {
		defer func() {
			if x := recover(); x != nil {
				m := fmt.Sprint(x)
				mu.Lock()
				switch {
				case strings.Contains(m, "close of closed channel"):
					dbl++
				case strings.Contains(m, "send on closed channel"):
					snd++
					if sndStack == "" {
						sndStack = string(debug.Stack())
					}
				default:
					other++
					if res.PanicMsg == "" {
						res.PanicMsg = m
					}
				}
				mu.Unlock()
			}
		}()
		f()
	}
	n := 2
	if sc.Variant == "quad" {
		n = 4
	}
	sess := make([]*c2.Session, 0, 64)
	for i := 0; i < sc.Pairs; i++ {
		s := c2.VerifC16ServerSession(l, newID(r))
		var (
			wg    sync.WaitGroup
			start = make(chan struct{})
		)
		for j := 0; j < n; j++ {
			wg.Add(1)
			go func(j int) {
				defer wg.Done()
				<-start
				call(func() {
					if sc.Variant == "chanwake" && j == 0 {
						// a channel-mode connection stops (conn.stop -> chanWake) while the notice is handled
						for n := 0; n < 200000 && c2.VerifC16State(s)&stClosed == 0; n++ {
							c2.VerifC16ChanWake(s)
							c2.VerifC16WakeDrain(s)
						}
						return
					}
					if sc.Variant == "close-vs-shutdown" && j == 0 {
						// the operator closes the session while the client's notice is handled
						for c2.VerifC16State(s)&stShutWait == 0 && c2.VerifC16State(s)&stClosed == 0 {
							runtime.Gosched()
						}
						s.Close()
						return
					}
					c2.VerifC16ReceiveSingle(s, &com.Packet{ID: c2.SvShutdown, Device: s.ID})
				})
			}(j)
		}
		close(start)
		wg.Wait()
		if !s.IsClosed() {
			notClosed++
		} else {
			select {
			case <-s.Done():
			default:
				notClosed++
			}
		}
		sess = append(sess, s)
		if len(sess) == 64 || i+1 == sc.Pairs {
			// the server loop drains delSession asynchronously
			end := time.Now().Add(500 * time.Millisecond)
			for len(srv.Sessions()) > 0 && time.Now().Before(end) {
				time.Sleep(time.Millisecond)
			}
			for _, x := range sess {
				if c2.VerifC16Listed(srv, x) {
					stillListed++
					c2.VerifC16Forget(srv, x)
				}
			}
			sess = sess[:0]
		}
	}
	res.Extra["pairs"] = sc.Pairs
	res.AllClosed = notClosed == 0 && stillListed == 0
	res.Extra["close-of-closed-channel"] = dbl
	res.Extra["send-on-closed-channel"] = snd
	if sndStack != "" {
		res.PanicMsg = sndStack
	}
	if dbl > 0 {
		res.Panic = true
		res.Fails = append(res.Fails, failRec{fmt.Sprintf("%d 'close of closed channel' panic(s) in %d racing groups of %d concurrent SvShutdown notices through receiveSingle (variant %q)", dbl, sc.Pairs, n, sc.Variant), "double-close-ch"})
	}
	if snd > 0 {
		res.Panic = true
		res.Fails = append(res.Fails, failRec{fmt.Sprintf("%d 'send on closed channel' panic(s) in %d racing groups through receiveSingle (variant %q)", snd, sc.Pairs, sc.Variant), "send-on-closed-race"})
	}
	if other > 0 {
		res.Panic = true
		res.Fails = append(res.Fails, failRec{"unexpected panic in receiveSingle: " + res.PanicMsg, "stress-panic"})
	}
	if notClosed > 0 {
		res.Fails = append(res.Fails, failRec{fmt.Sprintf("%d session(s) not closed / Wait not released after concurrent SvShutdown notices", notClosed), "stress-not-closed"})
	}
	if stillListed > 0 {
		res.Fails = append(res.Fails, failRec{fmt.Sprintf("%d session(s) still listed after concurrent SvShutdown notices", stillListed), "stress-still-listed"})
	}
	cl := make(chan struct{})
	go func() { l.Close(); srv.Close(); close(cl) }()
	if !waitCh(cl, 3*time.Second) {
		res.Returned = false
		res.Fails = append(res.Fails, failRec{"stress clean-up did not return", "cleanup-hang"})
	}
	if g := settleGoroutines(base, time.Second); g > base {
		res.Fails = append(res.Fails, failRec{fmt.Sprintf("goroutines did not return to the baseline after the stress: %d > %d", g, base), "goroutine-baseline-stress"})
	}
	return res
}

// runRemoveRace: Server.Remove(id, false) in a loop (it is what every server-side shutdown and
// every handled SvShutdown notice calls) while the Server is closed; a fresh Server per attempt.
// Variant "started": with a Listener (the event thread drains delSession until it takes the
// cancel); variant "idle": no Listener, nobody drains, the senders block on the full channel.
func runRemoveRace(k int, sc Scn, r *vh.Rand) (res Res) {
	res.K, res.Returned, res.Extra = k, true, map[string]int{}
	base := runtime.NumGoroutine()
	var (
		snd, other, hung int
		mu               sync.Mutex
		first            string
	)
	for a := 0; a < sc.Pairs; a++ {
		srv := c2.NewServer(logx.NOP)
		srv.Keys.Fill()
		var l *c2.Listener
		if sc.Variant == "started" {
			var err error
			if l, err = srv.Listen("c16r", "127.0.0.1:0", cfg.Static{L: com.TCP}); err != nil {
				panic("listen: " + err.Error())
			}
		}
		var (
			id   = newID(r)
			wg   sync.WaitGroup
			stop uint32
		)
		for j := 0; j < 3; j++ {
			wg.Add(1)
			go func() {
				defer wg.Done()
				defer func() {
					if x := recover(); x != nil {
						m := fmt.Sprint(x)
						mu.Lock()
						if strings.Contains(m, "send on closed channel") {
							snd++
						} else {
							other++
						}
						if first == "" {
							first = m + "\n" + string(debug.Stack())
						}
						mu.Unlock()
					}
				}()
				for n := 0; n < 4000 && atomic.LoadUint32(&stop) == 0; n++ {
					srv.Remove(id, false)
				}
			}()
		}
		time.Sleep(time.Duration(20+r.Intn(200)) * time.Microsecond)
		cl := make(chan struct{})
		go func() { srv.Close(); close(cl) }()
		if !waitCh(cl, 3*time.Second) {
			hung++
		}
		atomic.StoreUint32(&stop, 1)
		dn := make(chan struct{})
		go func() { wg.Wait(); close(dn) }()
		if !waitCh(dn, 3*time.Second) {
			hung++
		}
		_ = l
		if hung >= 3 {
			break // every further attempt would cost the same 3 s
		}
	}
	res.Extra["remove-race-attempts"] = sc.Pairs
	res.Extra["remove-race-send-on-closed"] = snd
	if snd > 0 {
		res.Panic, res.PanicMsg = true, first
		res.Fails = append(res.Fails, failRec{fmt.Sprintf("%d 'send on closed channel' panic(s) in Server.Remove(id, false) racing Server.Close in %d attempts (variant %q)", snd, sc.Pairs, sc.Variant), "remove-vs-server-close"})
	}
	if other > 0 {
		res.Panic, res.PanicMsg = true, first
		res.Fails = append(res.Fails, failRec{"unexpected panic in Server.Remove racing Server.Close: " + first, "remove-race-panic"})
	}
	if hung > 0 {
		res.Returned = false
		res.Fails = append(res.Fails, failRec{fmt.Sprintf("%d attempt(s): Server.Close or a Server.Remove(id, false) caller did not return within 3 s", hung), "remove-race-hang"})
	}
	if g := settleGoroutines(base, 2*time.Second); g > base && hung == 0 {
		res.Fails = append(res.Fails, failRec{fmt.Sprintf("goroutines did not return to the baseline after the Remove/Close attempts: %d > %d", g, base), "goroutine-baseline-remove-race"})
	}
	return res
}

// runFresh: Close on a Server whose event thread never started (no Listener was ever added, or
// the only Listen failed), 1..4 concurrent calls, repeated.
func runFresh(k int, sc Scn, r *vh.Rand) (res Res) {
	res.K, res.Returned, res.Extra = k, true, map[string]int{}
	base := runtime.NumGoroutine()
	srv := c2.NewServer(logx.NOP)
	if sc.Variant == "listen-failed" {
		// the address is taken: Listen fails before the event thread is started
		o := c2.NewServer(logx.NOP)
		o.Keys.Fill()
		ol, err := o.Listen("c16o", "127.0.0.1:0", cfg.Static{L: com.TCP})
		if err != nil {
			panic("listen: " + err.Error())
		}
		if _, err = srv.Listen("c16f", ol.Address(), cfg.Static{L: com.TCP}); err == nil {
			res.Obs = append(res.Obs, "a second Listen on a taken address did not fail")
		}
		defer func() {
			cl := make(chan struct{})
			go func() { ol.Close(); o.Close(); close(cl) }()
			waitCh(cl, 3*time.Second)
		}()
	}
	for pi, ph := range sc.Phases {
		var wg sync.WaitGroup
		for range ph {
			wg.Add(1)
			go func() { defer wg.Done(); srv.Close() }()
		}
		done := make(chan struct{})
		go func() { wg.Wait(); close(done) }()
		if !waitCh(done, 3*time.Second) {
			res.Returned = false
			res.Fails = append(res.Fails, failRec{fmt.Sprintf("Server.Close (phase %d, %d concurrent call(s)) on a Server whose event thread never started did not return within 3 s (variant %q)", pi, len(ph), sc.Variant), "fresh-server-close-hang"})
			break
		}
	}
	if res.Returned {
		if !waitCh(srv.Done(), time.Second) {
			res.Fails = append(res.Fails, failRec{"Server.Wait/Done not released after Close on a never-started Server", "fresh-server-wait"})
		}
		if srv.IsActive() {
			res.Fails = append(res.Fails, failRec{"a closed never-started Server is still active", "fresh-server-active"})
		}
		if g := settleGoroutines(base, 1500*time.Millisecond); g > base && sc.Variant != "listen-failed" {
			res.Fails = append(res.Fails, failRec{fmt.Sprintf("goroutines did not return to the baseline: %d > %d", g, base), "goroutine-baseline-fresh"})
		}
	}
	res.Final = []int64{b2i(res.Returned), chanObs(srv.Done())}
	return res
}

// runReplace: histories of Listener.Close / Listener.Replace on a running Listener; codes 10 =
// Close, 20 = Replace to a free address, 21 = Replace to an address that is in use (a second
// socket is bound first, so the bind fails), 9 = Server.Close.  The calls of one phase start
// together; every call runs under recover (it is the caller's goroutine that would panic).
func runReplace(k int, sc Scn, r *vh.Rand) (res Res) {
	res.K, res.Returned, res.Extra = k, true, map[string]int{}
	fail := func(what, key string) { res.Fails = append(res.Fails, failRec{what, key}) }
	base := runtime.NumGoroutine()
	srv := c2.NewServer(logx.NOP)
	srv.Keys.Fill()
	l, err := srv.Listen("c16p", "127.0.0.1:0", cfg.Static{L: com.TCP})
	if err != nil {
		panic("listen: " + err.Error())
	}
	time.Sleep(2 * time.Millisecond) // let the event thread take the listener (start-up races are other scenarios)
	busy, err := net.Listen("tcp", "127.0.0.1:0")
	if err != nil {
		panic("listen: " + err.Error())
	}
	defer busy.Close()
	var (
		mu                            sync.Mutex
		closeIssued, failIssued, down bool
		okReturned                    int
	)
	for pi, ph := range sc.Phases {
		var (
			wg    sync.WaitGroup
			start = make(chan struct{})
			done  = make(chan struct{})
		)
		for ti, code := range ph {
			d := time.Duration(0)
			if ti < len(sc.DelayUs) {
				d = time.Duration(sc.DelayUs[ti]) * time.Microsecond
			}
			wg.Add(1)
			go func(code int, d time.Duration) {
				defer wg.Done()
				defer func() {
					if x := recover(); x != nil {
						mu.Lock()
						res.Panic = true
						if res.PanicMsg == "" {
							res.PanicMsg = fmt.Sprint(x) + "\n" + string(debug.Stack())
						}
						mu.Unlock()
					}
				}()
				<-start
				if d > 0 {
					time.Sleep(d)
				}
				switch code {
				case cLsnClose:
					l.Close()
				case cSrvClose:
					srv.Close()
				case cReplaceOK:
					if err := l.Replace("127.0.0.1:0", nil); err == nil {
						mu.Lock()
						okReturned++
						mu.Unlock()
					}
				case cReplaceFail:
					if err := l.Replace(busy.Addr().String(), nil); err == nil {
						mu.Lock()
						res.Obs = append(res.Obs, "Replace to an address in use did not fail")
						mu.Unlock()
					}
				}
			}(code, d)
			switch code {
			case cLsnClose:
				closeIssued = true
			case cSrvClose:
				closeIssued, down = true, true
			case cReplaceFail:
				failIssued = true
			}
		}
		close(start)
		go func() { wg.Wait(); close(done) }()
		if !waitCh(done, 3*time.Second) {
			res.Returned = false
			fail(fmt.Sprintf("a Listener call of phase %d %v did not return within 3 s (history %v)", pi, ph, sc.Phases), "listener-call-hang")
			break
		}
		time.Sleep(time.Duration(40+10*sc.SleepMs) * time.Millisecond) // > the 30 ms nap of the accept loop
	}
	if res.Panic {
		first := res.PanicMsg
		if i := strings.Index(first, "\n"); i > 0 {
			first = first[:i]
		}
		fail("a Listener.Close / Replace call panicked: "+first, "listener-call-panic")
	}
	if res.Returned && (closeIssued || failIssued) {
		// a failed Replace closes the Listener itself
		if !waitCh(l.Done(), time.Second) {
			fail(fmt.Sprintf("Listener.Wait/Done not released after Close / a failed Replace (history %v)", sc.Phases), "listener-wait")
		}
	}
	if res.Returned && !closeIssued && !failIssued {
		// only successful Replaces: the Listener must still serve, on the new address
		if c2.VerifC16ListenerState(l)&(stClosed|stClosing) != 0 || c2.VerifC16ListenerNil(l) {
			fail("the Listener is closed / has no socket after successful Replace calls only", "replace-ok-closed")
		} else if cn, err := net.DialTimeout("tcp", l.Address(), time.Second); err != nil {
			fail("the replaced Listener does not accept connections on its new address: "+err.Error(), "replace-ok-no-accept")
		} else {
			cn.Close()
		}
	}
	if down && res.Returned {
		if !waitCh(srv.Done(), time.Second) {
			fail("Server.Wait/Done not released after Close", "server-wait")
		}
	}
	st := c2.VerifC16ListenerState(l)
	res.Final = []int64{b2i(st&stClosed != 0), chanObs(l.Done()), chanObs(srv.Done()), b2i(st&stReplacing != 0), b2i(c2.VerifC16ListenerNil(l))}
	cl := make(chan struct{})
	go func() {
		defer func() { recover(); close(cl) }()
		l.Close()
		srv.Close()
	}()
	if !waitCh(cl, 3*time.Second) {
		fail(fmt.Sprintf("clean-up (Listener.Close, Server.Close) did not return within 3 s (history %v)", sc.Phases), "listener-cleanup-hang")
		res.Returned = false
	}
	if n := settleGoroutines(base, 1500*time.Millisecond); n > base {
		buf := make([]byte, 1<<16)
		buf = buf[:runtime.Stack(buf, true)]
		what := "other"
		if strings.Contains(string(buf), "/c2.(*Listener).listen(") {
			what = "listener"
		} else if strings.Contains(string(buf), "/c2.(*Server).listen(") {
			what = "server"
		}
		fail(fmt.Sprintf("goroutines did not return to the baseline after the Listener history %v: %d > %d (%s)", sc.Phases, n, base, what), "goroutine-baseline-replace-"+what)
	}
	_ = okReturned
	return res
}

// runReplaceStorm: several Listeners are replaced over and over (successfully) while the
// processors are kept busy, so that the Replace goroutine is preempted between its steps; the
// accept threads follow the swaps.  A nil socket dereference in an accept thread kills the
// child (observed by the parent).
func runReplaceStorm(k int, sc Scn, r *vh.Rand) (res Res) {
	res.K, res.Returned, res.Extra = k, true, map[string]int{}
	base := runtime.NumGoroutine()
	srv := c2.NewServer(logx.NOP)
	srv.Keys.Fill()
	var (
		stop uint32
		wg   sync.WaitGroup
		ls   []*c2.Listener
	)
	for i := 0; i < 8; i++ {
		l, err := srv.Listen(fmt.Sprintf("c16q%d", i), "127.0.0.1:0", cfg.Static{L: com.TCP})
		if err != nil {
			panic("listen: " + err.Error())
		}
		ls = append(ls, l)
	}
	for i := 0; i < 2*runtime.NumCPU(); i++ {
		go func() {
			for x := 0; atomic.LoadUint32(&stop) == 0; x++ {
				if x&0xFFF == 0 {
					runtime.Gosched()
				}
			}
		}()
	}
	for _, l := range ls {
		wg.Add(1)
		go func(l *c2.Listener) {
			defer wg.Done()
			defer func() { recover() }()
			for n := 0; n < sc.Pairs; n++ {
				if l.Replace("127.0.0.1:0", nil) != nil {
					return
				}
			}
		}(l)
	}
	done := make(chan struct{})
	go func() { wg.Wait(); close(done) }()
	if !waitCh(done, 60*time.Second) {
		res.Returned = false
		res.Fails = append(res.Fails, failRec{"Listener.Replace calls did not return within 60 s", "replace-storm-hang"})
	}
	atomic.StoreUint32(&stop, 1)
	cl := make(chan struct{})
	go func() { srv.Close(); close(cl) }()
	if !waitCh(cl, 5*time.Second) {
		res.Returned = false
		res.Fails = append(res.Fails, failRec{"Server.Close did not return within 5 s after the Replace storm", "replace-storm-close-hang"})
	}
	if n := settleGoroutines(base, 3*time.Second); n > base && res.Returned {
		res.Fails = append(res.Fails, failRec{fmt.Sprintf("goroutines did not return to the baseline after the Replace storm: %d > %d", n, base), "goroutine-baseline-replace-storm"})
	}
	return res
}

// runProxy: a client Session that owns a Proxy, a second client registered through that Proxy
// (optionally in channel mode), then the owning Session (code 1), the Proxy (code 30) or the
// context (code 3) is closed.  The proxied connection is served by library goroutines: a panic
// there kills the child.
func runProxy(k int, sc Scn, r *vh.Rand) (res Res) {
	res.K, res.Returned, res.Extra = k, true, map[string]int{}
	fail := func(what, key string) { res.Fails = append(res.Fails, failRec{what, key}) }
	base := runtime.NumGoroutine()
	sleep := time.Duration(sc.SleepMs) * time.Millisecond
	srv := c2.NewServer(logx.NOP)
	srv.Keys.Fill()
	l, err := srv.Listen("c16x", "127.0.0.1:0", cfg.Static{L: com.TCP})
	if err != nil {
		panic("listen: " + err.Error())
	}
	ctx, cancel := context.WithCancel(context.Background())
	old := local.UUID
	local.UUID = newID(r)
	a, err := c2.ConnectContext(ctx, logx.NOP, cfg.Static{C: com.TCP, H: l.Address(), S: sleep})
	idA := local.UUID
	if err != nil {
		panic("connect: " + err.Error())
	}
	px, err := a.NewProxy("px", "127.0.0.1:0", cfg.Static{L: com.TCP})
	if err != nil {
		panic("proxy: " + err.Error())
	}
	local.UUID = newID(r)
	b, err := c2.Connect(logx.NOP, cfg.Static{C: com.TCP, H: px.Address(), S: sleep})
	idB := local.UUID
	local.UUID = old
	if err != nil {
		res.Obs = append(res.Obs, "the proxied client could not register through the Proxy: "+err.Error())
	}
	var sb *c2.Session
	for i := 0; i < 500 && sb == nil && b != nil; i++ {
		if sb = srv.Session(idB); sb == nil {
			time.Sleep(time.Millisecond)
		}
	}
	if b != nil && sb == nil {
		res.Obs = append(res.Obs, "the server never listed the proxied client")
	}
	if sc.Chm && b != nil {
		b.SetChannel(true)
		ok := false
		for i := 0; i < 800 && !ok; i++ {
			time.Sleep(time.Millisecond)
			ok = c2.VerifC16State(b)&(1<<8) != 0
		}
		if !ok {
			res.Obs = append(res.Obs, "the proxied client did not reach channel mode within 800 ms")
		}
		time.Sleep(3 * sleep)
	}
	_ = idA
	for pi, ph := range sc.Phases {
		var wg sync.WaitGroup
		for _, code := range ph {
			wg.Add(1)
			go func(code int) {
				defer wg.Done()
				switch code {
				case cClientClose:
					a.Close()
				case cCtxCancel:
					cancel()
				case cProxyClose:
					px.Close()
				}
			}(code)
		}
		done := make(chan struct{})
		go func() { wg.Wait(); close(done) }()
		if !waitCh(done, 3*time.Second) {
			res.Returned = false
			fail(fmt.Sprintf("a close call of phase %d %v on a Session with a Proxy did not return within 3 s", pi, ph), "proxy-close-hang")
			break
		}
		time.Sleep(time.Duration(30*sc.SleepMs) * time.Millisecond)
	}
	closedA := false
	for _, ph := range sc.Phases {
		for _, code := range ph {
			if code == cClientClose || code == cCtxCancel {
				closedA = true
			}
		}
	}
	if res.Returned && closedA {
		if !waitCh(a.Done(), time.Second) {
			fail("Session.Wait/Done of the Session that owns the Proxy was not released after its close", "proxy-owner-wait")
		}
		if !waitCh(px.Done(), time.Second) {
			fail("Proxy.Wait/Done was not released after the owning Session closed", "proxy-wait")
		}
	}
	cancel()
	cl := make(chan struct{})
	go func() {
		a.Close()
		if b != nil {
			b.Close()
		}
		l.Close()
		srv.Close()
		close(cl)
	}()
	if !waitCh(cl, 5*time.Second) {
		fail("clean-up after the Proxy scenario did not return within 5 s", "proxy-cleanup-hang")
		res.Returned = false
	}
	if n := settleGoroutines(base, 2*time.Second); n > base && res.Returned {
		fail(fmt.Sprintf("goroutines did not return to the baseline after the Proxy scenario: %d > %d", n, base), "goroutine-baseline-proxy")
	}
	return res
}

// runBurst: many server-side Sessions receive their client's shutdown notice at the same time
// while the operator's Shutdown callback keeps the event thread busy for a moment: more than
// the 64 removal requests that delSession buffers are pending.  Every Session must end up
// closed, released and unlisted.
func runBurst(k int, sc Scn, r *vh.Rand) (res Res) {
	res.K, res.Returned, res.Extra = k, true, map[string]int{}
	base := runtime.NumGoroutine()
	srv := c2.NewServer(logx.NOP)
	srv.Keys.Fill()
	var slow uint32
	srv.Shutdown = func(*c2.Session) {
		if atomic.AddUint32(&slow, 1) == 1 {
			time.Sleep(400 * time.Millisecond) // a slow operator callback, once
		}
	}
	l, err := srv.Listen("c16b", "127.0.0.1:0", cfg.Static{L: com.TCP})
	if err != nil {
		panic("listen: " + err.Error())
	}
	var (
		sess   []*c2.Session
		wg     sync.WaitGroup
		start  = make(chan struct{})
		mu     sync.Mutex
		panics int
	)
	for i := 0; i < sc.Pairs; i++ {
		sess = append(sess, c2.VerifC16ServerSession(l, newID(r)))
	}
	for _, s := range sess {
		wg.Add(1)
		go func(s *c2.Session) {
			defer wg.Done()
			defer func() {
				if x := recover(); x != nil {
					mu.Lock()
					panics++
					if res.PanicMsg == "" {
						res.PanicMsg = fmt.Sprint(x)
					}
					mu.Unlock()
				}
			}()
			<-start
			c2.VerifC16ReceiveSingle(s, &com.Packet{ID: c2.SvShutdown, Device: s.ID})
		}(s)
	}
	close(start)
	done := make(chan struct{})
	go func() { wg.Wait(); close(done) }()
	if !waitCh(done, 10*time.Second) {
		res.Returned = false
		res.Fails = append(res.Fails, failRec{fmt.Sprintf("the handlers of %d simultaneous shutdown notices did not all return within 10 s", sc.Pairs), "burst-hang"})
	}
	if panics > 0 {
		res.Panic = true
		res.Fails = append(res.Fails, failRec{fmt.Sprintf("%d handler(s) of simultaneous shutdown notices panicked: %s", panics, res.PanicMsg), "burst-panic"})
	}
	listed, open := 0, 0
	if res.Returned {
		end := time.Now().Add(5 * time.Second)
		for len(srv.Sessions()) > 0 && time.Now().Before(end) {
			time.Sleep(5 * time.Millisecond)
		}
		for _, s := range sess {
			if c2.VerifC16Listed(srv, s) {
				listed++
				c2.VerifC16Forget(srv, s)
			}
			select {
			case <-s.Done():
			default:
				open++
			}
		}
	}
	res.Extra["burst-sessions"] = sc.Pairs
	res.Extra["burst-still-listed"] = listed
	if listed > 0 {
		res.Fails = append(res.Fails, failRec{fmt.Sprintf("%d of %d Sessions closed by simultaneous shutdown notices are still listed 5 s later (the event thread was busy in a Shutdown callback for 400 ms)", listed, sc.Pairs), "burst-still-listed"})
	}
	if open > 0 {
		res.Fails = append(res.Fails, failRec{fmt.Sprintf("%d of %d Sessions were not closed / released by their shutdown notice", open, sc.Pairs), "burst-not-closed"})
	}
	res.AllClosed = listed == 0 && open == 0
	cl := make(chan struct{})
	go func() { l.Close(); srv.Close(); close(cl) }()
	if !waitCh(cl, 3*time.Second) {
		res.Returned = false
		res.Fails = append(res.Fails, failRec{"burst clean-up did not return", "cleanup-hang"})
	}
	if g := settleGoroutines(base, 2*time.Second); g > base && res.Returned {
		res.Fails = append(res.Fails, failRec{fmt.Sprintf("goroutines did not return to the baseline after the burst: %d > %d", g, base), "goroutine-baseline-burst"})
	}
	return res
}

// runMulti: one Server with sc.Pairs Listeners on distinct ports (optionally a registered client
// on the first one), closed by Server.Close (9), by cancelling the Server's context (3) or by
// Listener.Close of every Listener in a random order, concurrently or one after the other
// (10), followed by Server.Close.
func perm(r *vh.Rand, n int) []int {
	p := make([]int, n)
	for i := range p {
		p[i] = i
	}
	for i := n - 1; i > 0; i-- {
		j := r.Intn(i + 1)
		p[i], p[j] = p[j], p[i]
	}
	return p
}
func runMulti(k int, sc Scn, r *vh.Rand) (res Res) {
	res.K, res.Returned, res.Extra = k, true, map[string]int{}
	fail := func(what, key string) { res.Fails = append(res.Fails, failRec{what, key}) }
	base := runtime.NumGoroutine()
	ctx, cancel := context.WithCancel(context.Background())
	srv := c2.NewServerContext(ctx, logx.NOP)
	srv.Keys.Fill()
	var ls []*c2.Listener
	for i := 0; i < sc.Pairs; i++ {
		l, err := srv.Listen(fmt.Sprintf("c16m%d", i), "127.0.0.1:0", cfg.Static{L: com.TCP})
		if err != nil {
			panic("listen: " + err.Error())
		}
		ls = append(ls, l)
		time.Sleep(2 * time.Millisecond) // Listen calls in quick succession are another matter (see notes)
	}
	var c *c2.Session
	if sc.Cbk {
		old := local.UUID
		local.UUID = newID(r)
		var err error
		c, err = c2.Connect(logx.NOP, cfg.Static{C: com.TCP, H: ls[0].Address(), S: time.Duration(sc.SleepMs) * time.Millisecond})
		id := local.UUID
		local.UUID = old
		if err != nil {
			panic("connect: " + err.Error())
		}
		for i := 0; i < 300 && srv.Session(id) == nil; i++ {
			time.Sleep(time.Millisecond)
		}
	}
	for pi, ph := range sc.Phases {
		var wg sync.WaitGroup
		for _, code := range ph {
			switch code {
			case cSrvClose:
				wg.Add(1)
				go func() { defer wg.Done(); srv.Close() }()
			case cCtxCancel:
				cancel()
			case cLsnClose:
				for _, i := range perm(r, len(ls)) {
					if sc.Variant == "concurrent" {
						wg.Add(1)
						go func(l *c2.Listener) { defer wg.Done(); l.Close() }(ls[i])
					} else {
						wg.Add(1)
						func(l *c2.Listener) { defer wg.Done(); l.Close() }(ls[i])
					}
				}
			}
		}
		done := make(chan struct{})
		go func() { wg.Wait(); close(done) }()
		if !waitCh(done, 3*time.Second) {
			res.Returned = false
			fail(fmt.Sprintf("a close call of phase %d %v on a Server with %d Listeners did not return within 3 s", pi, ph, sc.Pairs), "multi-listener-close-hang")
			break
		}
		time.Sleep(time.Duration(10*sc.SleepMs) * time.Millisecond)
	}
	if res.Returned {
		for i, l := range ls {
			if !waitCh(l.Done(), time.Second) {
				fail(fmt.Sprintf("Listener %d of %d: Wait/Done not released after the teardown %v", i, sc.Pairs, sc.Phases), "multi-listener-wait")
				break
			}
		}
		if !waitCh(srv.Done(), 2*time.Second) {
			fail(fmt.Sprintf("Server.Wait/Done not released after the teardown %v of a Server with %d Listeners", sc.Phases, sc.Pairs), "multi-server-wait")
		}
	}
	cancel()
	cl := make(chan struct{})
	go func() {
		if c != nil {
			c.Close()
		}
		srv.Close()
		close(cl)
	}()
	if !waitCh(cl, 4*time.Second) {
		fail(fmt.Sprintf("clean-up of a Server with %d Listeners did not return within 4 s", sc.Pairs), "multi-cleanup-hang")
		res.Returned = false
	}
	if n := settleGoroutines(base, 2*time.Second); n > base && res.Returned {
		fail(fmt.Sprintf("goroutines did not return to the baseline after the teardown of %d Listeners: %d > %d", sc.Pairs, n, base), "goroutine-baseline-multi")
	}
	return res
}

// runPending: Server.Close while sc.Pairs Listeners (made with ListenContext and a context of
// their own, so that only the Server can stop them) still wait in the Server's new queue: the
// event thread is parked in a slow callback when they are added and released once Close has
// cancelled the context.  After Close returned every Listener must be done, inactive, its
// socket closed, no goroutine left; a Listener left behind panics later (child crash).
func runPending(k int, sc Scn, r *vh.Rand) (res Res) {
	res.K, res.Returned, res.Extra = k, true, map[string]int{}
	fail := func(what, key string) { res.Fails = append(res.Fails, failRec{what, key}) }
	base := runtime.NumGoroutine()
	srv := c2.NewServer(logx.NOP)
	srv.Keys.Fill()
	p := cfg.Static{L: com.TCP}
	first, err := srv.Listen("first", "127.0.0.1:0", p)
	if err != nil {
		panic("listen: " + err.Error())
	}
	for i := 0; c2.VerifC16NewLen(srv) > 0 && i < 1000; i++ {
		time.Sleep(time.Millisecond)
	}
	started, release := make(chan struct{}), make(chan struct{})
	c2.VerifC16Park(srv, started, release)
	if !waitCh(started, 3*time.Second) {
		panic("the event thread never ran the parking callback")
	}
	all := []*c2.Listener{first}
	for i := 0; i < sc.Pairs; i++ {
		l, err := srv.ListenContext(context.Background(), fmt.Sprintf("p%d", i), "127.0.0.1:0", p)
		if err != nil {
			panic("listen: " + err.Error())
		}
		all = append(all, l)
	}
	var addrs []string
	for _, l := range all {
		addrs = append(addrs, l.Address())
	}
	done := make(chan struct{})
	go func() { srv.Close(); close(done) }()
	for i := 0; !c2.VerifC16Cancelled(srv) && i < 3000; i++ {
		time.Sleep(time.Millisecond)
	}
	close(release)
	if !waitCh(done, 5*time.Second) {
		res.Returned = false
		fail(fmt.Sprintf("Server.Close with %d Listeners pending in the new queue did not return within 5 s", sc.Pairs), "pending-close-hang")
	} else {
		for i, l := range all {
			select {
			case <-l.Done():
			default:
				fail(fmt.Sprintf("Server.Close returned, but Listener %d of %d (pending in the new queue at Close) is not done (IsActive=%t)", i, len(all), l.IsActive()), "pending-listener-left")
				continue
			}
			if l.IsActive() {
				fail("a Listener is done but still active after Server.Close", "pending-listener-active")
			}
			if cn, err := net.DialTimeout("tcp", addrs[i], 300*time.Millisecond); err == nil {
				cn.Close()
				fail(fmt.Sprintf("the socket of Listener %d still accepts connections after Server.Close", i), "pending-socket-open")
			}
		}
		if !waitCh(srv.Done(), time.Second) {
			fail("Server.Wait/Done not released after Close", "server-wait")
		}
	}
	if len(res.Fails) > 0 {
		// stop what was left behind (this is where a forgotten Listener sends on the closed channel)
		cl := make(chan struct{})
		go func() {
			defer func() { recover(); close(cl) }()
			for _, l := range all {
				l.Close()
			}
		}()
		waitCh(cl, 3*time.Second)
	}
	if n := settleGoroutines(base, 2*time.Second); n > base && res.Returned {
		fail(fmt.Sprintf("goroutines did not return to the baseline after Server.Close with %d pending Listeners: %d > %d", sc.Pairs, n, base), "goroutine-baseline-pending")
	}
	return res
}

// runDropped: the Server drops a Session (Remove(id, false): server side only; or Remove(id,
// true): with the close handshake) while the client lives on, then the client continues:
// variant "poll" (its next ordinary exchange), "setchannel" (SetChannel(true): the next Packet
// carries the Channel flag) or "close" (Session.Close).  sc.Chm: the client is in channel mode
// before the removal.  Oracle: nothing panics (the connection handlers are library goroutines:
// a panic kills the child), and both ends end consistently: the client closed, or it was told
// to register again and the Server lists it again; clean-up returns, goroutine baseline.
func runDropped(k int, sc Scn, r *vh.Rand) (res Res) {
	res.K, res.Returned, res.Extra = k, true, map[string]int{}
	fail := func(what, key string) { res.Fails = append(res.Fails, failRec{what, key}) }
	base := runtime.NumGoroutine()
	sleep := time.Duration(sc.SleepMs) * time.Millisecond
	srv := c2.NewServer(logx.NOP)
	srv.Keys.Fill()
	l, err := srv.Listen("c16d", "127.0.0.1:0", cfg.Static{L: com.TCP})
	if err != nil {
		panic("listen: " + err.Error())
	}
	old := local.UUID
	local.UUID = newID(r)
	c, err := c2.Connect(logx.NOP, cfg.Static{C: com.TCP, H: l.Address(), S: sleep})
	id := local.UUID
	local.UUID = old
	if err != nil {
		panic("connect: " + err.Error())
	}
	var ss *c2.Session
	for i := 0; i < 300 && ss == nil; i++ {
		if ss = srv.Session(id); ss == nil {
			time.Sleep(time.Millisecond)
		}
	}
	if ss == nil {
		panic("server never listed the session")
	}
	if sc.Chm {
		c.SetChannel(true)
		for i := 0; i < 500 && c2.VerifC16State(c)&(1<<8) == 0; i++ {
			time.Sleep(time.Millisecond)
		}
	}
	hard := len(sc.Phases) > 0 && len(sc.Phases[0]) > 0 && sc.Phases[0][0] == cRemove
	srv.Remove(id, hard)
	if !hard {
		for i := 0; i < 500 && c2.VerifC16Listed(srv, ss); i++ {
			time.Sleep(time.Millisecond)
		}
		if c2.VerifC16Listed(srv, ss) {
			fail("Remove(id, false) did not unlist the Session within 500 ms", "dropped-still-listed")
		}
	}
	done := make(chan struct{})
	go func() {
		defer close(done)
		switch sc.Variant {
		case "setchannel":
			c.SetChannel(true)
		case "close":
			c.Close()
		}
	}()
	if !waitCh(done, 3*time.Second) {
		res.Returned = false
		fail(fmt.Sprintf("the client's %s after the Server dropped its Session did not return within 3 s", sc.Variant), "dropped-call-hang")
	}
	// the client is told to register again (a new server-side Session appears) or it closes
	ok := false
	for i := 0; i < 400 && !ok; i++ {
		select {
		case <-c.Done():
			ok = true
		default:
			if n := srv.Session(id); n != nil && n != ss && !hard && sc.Variant != "close" {
				ok = true
			}
		}
		if !ok {
			time.Sleep(5 * time.Millisecond)
		}
	}
	if !ok && res.Returned && (sc.Chm || sc.Variant == "setchannel") {
		// Remove(id, false) only drops the entry "until the client connects again": a client in
		// (or entering) channel mode keeps its connection and is not seen to register again in
		// this window; observed, not condemned
		res.Obs = append(res.Obs, fmt.Sprintf("dropped Session (handshake=%t), client %s, channel mode before=%t: the client was neither closed nor registered again within 2 s", hard, sc.Variant, sc.Chm))
	} else if !ok && res.Returned {
		fail(fmt.Sprintf("2 s after the Server dropped the Session (handshake=%t) and the client's %s (channel mode before: %t) the client is neither closed nor registered again", hard, sc.Variant, sc.Chm), "dropped-inconsistent")
	}
	if sc.Variant == "close" && res.Returned {
		if !waitCh(c.Done(), time.Second) {
			fail("client Session.Wait/Done not released after Close (Session dropped by the Server before)", "dropped-client-wait")
		}
	}
	cl := make(chan struct{})
	go func() { c.Close(); l.Close(); srv.Close(); close(cl) }()
	if !waitCh(cl, 4*time.Second) {
		fail("clean-up after the dropped-Session scenario did not return within 4 s", "dropped-cleanup-hang")
		res.Returned = false
	}
	if n := settleGoroutines(base, 2*time.Second); n > base && res.Returned {
		fail(fmt.Sprintf("goroutines did not return to the baseline after the dropped-Session scenario: %d > %d", n, base), "goroutine-baseline-dropped")
	}
	return res
}

// ---------------------------------------------------------------- scenario generation

var instants = []string{"registered", "idle", "queued-client", "queued-server", "queued-both", "fragments", "mid-exchange"}

func gen(r *vh.Rand, tier string) []Scn {
	var out []Scn
	add := func(s Scn) {
		if s.SleepMs == 0 {
			s.SleepMs = 3
		}
		if s.Cbk && s.Kind == "e2e" {
			// Server.Close queues the notice for a client that calls back and then closes the
			// listener: whether the client still fetches it is schedule dependent (oracle only)
			for _, ph := range s.Phases {
				for _, c := range ph {
					if c == cSrvClose {
						s.Compare = false
					}
				}
			}
		}
		if s.Chm {
			// an established channel-mode connection outlives its listener: the model's
			// "reachable" does not cover that, such scenarios are oracle-only
			for _, ph := range s.Phases {
				for _, c := range ph {
					if c == cLsnClose || c == cSrvClose {
						s.Compare = false
					}
				}
			}
		}
		out = append(out, s)
	}
	e := func(instant string, cpk, spk, chm, cbk bool, phases ...[]int) Scn {
		return Scn{Kind: "e2e", Instant: instant, Cpk: cpk, Spk: spk, Chm: chm, Cbk: cbk, Phases: phases, Compare: true}
	}
	// corpus: one of each close source at the plain instant; the two repaired defects
	add(Scn{Kind: "stress", Variant: "pair", Pairs: 3000})
	add(Scn{Kind: "stress", Variant: "quad", Pairs: 1000})
	add(Scn{Kind: "stress", Variant: "close-vs-shutdown", Pairs: 5000})
	add(Scn{Kind: "stress", Variant: "chanwake", Pairs: 3000})
	add(Scn{Kind: "stress", Variant: "burst", Pairs: 100})
	rr := 400
	if tier == "thorough" {
		rr = 6000
	}
	add(Scn{Kind: "remove-race", Variant: "started", Pairs: rr})
	add(Scn{Kind: "remove-race", Variant: "idle", Pairs: rr / 4})
	rp := func(phases ...[]int) Scn { return Scn{Kind: "replace", Instant: "listener", Phases: phases} }
	add(rp([]int{cReplaceOK}))
	add(rp([]int{cReplaceFail}))
	add(rp([]int{cReplaceOK}, []int{cLsnClose}))
	add(rp([]int{cLsnClose}, []int{cReplaceOK}))
	add(rp([]int{cReplaceFail}, []int{cLsnClose}))
	add(rp([]int{cLsnClose}, []int{cReplaceFail}))
	add(rp([]int{cReplaceOK}, []int{cReplaceOK}, []int{cLsnClose, cLsnClose}))
	add(rp([]int{cReplaceOK}, []int{cReplaceFail}, []int{cSrvClose}))
	add(rp([]int{cReplaceFail}, []int{cSrvClose}))
	add(rp([]int{cReplaceFail}, []int{cReplaceOK}))
	add(rp([]int{cReplaceFail}, []int{cReplaceFail}, []int{cReplaceOK}, []int{cLsnClose}))
	add(rp([]int{cLsnClose}, []int{cReplaceOK}, []int{cReplaceFail}, []int{cLsnClose}))
	add(rp([]int{cReplaceOK}, []int{cSrvClose, cLsnClose}))
	for i := 0; i < 3; i++ {
		// two Replace calls at once (serialised by the Listener's lock since edac22b+1)
		add(rp([]int{cReplaceOK, cReplaceOK}, []int{cLsnClose}))
		add(rp([]int{cReplaceOK, cReplaceFail}))
		s1 := rp([]int{cReplaceOK, cLsnClose})
		s1.DelayUs = []int{r.Intn(200), r.Intn(200)}
		add(s1)
		s2 := rp([]int{cReplaceFail, cLsnClose})
		s2.DelayUs = []int{r.Intn(200), r.Intn(200)}
		add(s2)
	}
	for _, chm := range []bool{true, false} {
		add(Scn{Kind: "proxy", Instant: "proxy", Chm: chm, Cbk: true, Phases: [][]int{{cClientClose}}})
		add(Scn{Kind: "proxy", Instant: "proxy", Chm: chm, Cbk: true, Phases: [][]int{{cProxyClose}, {cClientClose}}})
		add(Scn{Kind: "proxy", Instant: "proxy", Chm: chm, Cbk: true, Phases: [][]int{{cCtxCancel}}})
	}
	for _, n := range []int{2, 3, 5, 20} {
		add(Scn{Kind: "multi", Instant: "listeners", Pairs: n, Phases: [][]int{{cSrvClose}}})
		add(Scn{Kind: "multi", Instant: "listeners", Pairs: n, Phases: [][]int{{cCtxCancel}}})
		add(Scn{Kind: "multi", Instant: "listeners", Pairs: n, Cbk: n < 20, Phases: [][]int{{cLsnClose}, {cSrvClose}}})
		add(Scn{Kind: "multi", Instant: "listeners", Pairs: n, Variant: "concurrent", Cbk: n < 20, Phases: [][]int{{cLsnClose, cSrvClose}}})
	}
	add(Scn{Kind: "multi", Instant: "listeners", Pairs: 3, Cbk: true, Phases: [][]int{{cSrvClose, cSrvClose}}})
	add(Scn{Kind: "multi", Instant: "listeners", Pairs: 5, Cbk: true, Phases: [][]int{{cCtxCancel}, {cSrvClose}}})
	for _, n := range []int{0, 1, 2, 3, 4, 2, 3, 4} {
		add(Scn{Kind: "pending", Instant: "listeners-pending", Pairs: n, Phases: [][]int{{cSrvClose}}})
	}
	for _, chm := range []bool{false, true} {
		for _, v := range []string{"poll", "setchannel", "close"} {
			add(Scn{Kind: "dropped", Instant: "dropped", Variant: v, Chm: chm, Cbk: true, Phases: [][]int{{cRemoveSoft}}})
			add(Scn{Kind: "dropped", Instant: "dropped", Variant: v, Chm: chm, Cbk: true, Phases: [][]int{{cRemove}}})
		}
	}
	add(Scn{Kind: "replace-storm", Instant: "listener", Pairs: 40})
	add(Scn{Kind: "fresh", Variant: "never-listened", Phases: [][]int{{cSrvClose}}})
	add(Scn{Kind: "fresh", Variant: "never-listened", Phases: [][]int{{cSrvClose, cSrvClose, cSrvClose, cSrvClose}, {cSrvClose}}})
	add(Scn{Kind: "fresh", Variant: "listen-failed", Phases: [][]int{{cSrvClose}}})
	add(e("idle", false, false, false, true, []int{cClientClose}))
	add(e("idle", false, false, false, true, []int{cServerClose}))
	add(e("idle", false, false, false, true, []int{cCtxCancel}))
	add(e("idle", false, false, false, true, []int{cRemove}))
	add(e("idle", false, false, false, false, []int{cServerClose}))                      // candidate (b): silent peer
	add(e("idle", false, false, false, false, []int{cServerClose}, []int{cClientClose})) // ... until the client calls
	add(e("idle", false, false, false, true, []int{cLsnClose}))
	add(e("idle", false, false, false, true, []int{cSrvClose}))
	add(e("idle", false, false, false, true, []int{cLsnClose}, []int{cClientClose})) // unreachable peer
	add(Scn{Kind: "noclient", Instant: "before-registration", Phases: [][]int{{cLsnClose}}, Compare: false})
	add(Scn{Kind: "noclient", Instant: "before-registration", Phases: [][]int{{cSrvClose}}, Compare: false})
	add(Scn{Kind: "noclient", Instant: "before-registration", Phases: [][]int{{cSrvClose, cSrvClose, cLsnClose, cLsnClose}}, Compare: false})
	// Close right after Listen (the event thread may not have started / not have taken the listener yet)
	for i := 0; i < 6; i++ {
		add(Scn{Kind: "noclient", Instant: "before-registration", Phases: [][]int{{cSrvClose}}, Compare: false})
		add(Scn{Kind: "noclient", Instant: "before-registration", Phases: [][]int{{cSrvClose, cSrvClose, cLsnClose, cLsnClose}}, Compare: false})
		add(Scn{Kind: "noclient", Instant: "before-registration", Phases: [][]int{{cLsnClose}, {cSrvClose}}, Compare: false})
	}
	// grid: every instant x every source x multiplicity 1, 2, 8
	srcs := [][]int{{cClientClose}, {cServerClose}, {cCtxCancel}, {cRemove}, {cClientClose, cServerClose}, {cClientClose, cCtxCancel}}
	for _, in := range instants {
		for si, src := range srcs {
			if tier == "quick" && (len(out)%3 != 0) && si > 2 {
				continue
			}
			for _, mult := range []int{1, 2, 8} {
				if tier == "quick" && mult == 2 && si != 0 {
					continue
				}
				var ph []int
				for i := 0; i < mult; i++ {
					ph = append(ph, src[i%len(src)])
				}
				s := e(in, false, false, false, true, ph)
				if mult > 1 {
					for range ph {
						s.DelayUs = append(s.DelayUs, r.Intn(300))
					}
				}
				add(s)
			}
		}
	}
	// channel mode, Packets() on either side
	for _, src := range srcs[:4] {
		add(e("idle", false, false, true, true, src))
		add(e("idle", true, false, false, true, src))
		add(e("idle", false, true, false, true, src))
	}
	add(e("idle", true, true, true, true, []int{cClientClose, cClientClose, cServerClose, cCtxCancel}))
	// repeated closes, closes after the peer or the listener is gone, server teardown with a live session
	add(e("idle", false, false, false, true, []int{cClientClose}, []int{cClientClose, cServerClose, cRemove}, []int{cCtxCancel}))
	add(e("idle", false, false, false, true, []int{cServerClose}, []int{cServerClose, cClientClose}))
	add(e("idle", false, false, false, true, []int{cSrvClose}, []int{cSrvClose, cLsnClose}, []int{cClientClose, cServerClose, cRemove}))
	add(e("idle", false, false, false, true, []int{cLsnClose, cLsnClose}, []int{cSrvClose, cSrvClose}))
	add(e("idle", false, false, false, false, []int{cServerClose, cRemove, cServerClose}, []int{cCtxCancel}))
	add(e("queued-both", false, false, false, false, []int{cSrvClose}, []int{cClientClose}))
	// random
	n := 12
	if tier == "thorough" {
		n = 600
	}
	for i := 0; i < n; i++ {
		s := e(instants[r.Intn(len(instants))], r.Intn(4) == 0, r.Intn(4) == 0, r.Intn(5) == 0, r.Intn(6) != 0)
		s.SleepMs = 2 + r.Intn(3)
		np := 1 + r.Intn(3)
		torn := false
		for p := 0; p < np; p++ {
			var ph []int
			m := 1 + r.Intn(8)
			if r.Intn(6) == 0 { // a teardown phase: only listener / server codes (racing them with session closes is schedule dependent)
				for j := 0; j < 1+r.Intn(3); j++ {
					ph = append(ph, []int{cSrvClose, cLsnClose}[r.Intn(2)])
				}
				torn = true
			} else {
				for j := 0; j < m; j++ {
					ph = append(ph, []int{cClientClose, cClientClose, cServerClose, cCtxCancel, cRemove}[r.Intn(5)])
				}
			}
			s.Phases = append(s.Phases, ph)
			if p == 0 {
				for range ph {
					s.DelayUs = append(s.DelayUs, r.Intn(400))
				}
			}
		}
		_ = torn
		add(s)
	}
	// oracle-only: session closes racing the listener / server teardown (final state is schedule dependent)
	m := 4
	if tier == "thorough" {
		m = 150
	}
	for i := 0; i < m; i++ {
		s := e(instants[r.Intn(len(instants))], false, false, r.Intn(4) == 0, true)
		s.Compare = false
		var ph []int
		for j := 0; j < 2+r.Intn(6); j++ {
			ph = append(ph, []int{cClientClose, cServerClose, cCtxCancel, cRemove, cSrvClose, cLsnClose}[r.Intn(6)])
			s.DelayUs = append(s.DelayUs, r.Intn(2000))
		}
		s.Phases = [][]int{ph}
		add(s)
	}
	if tier == "thorough" {
		add(Scn{Kind: "stress", Variant: "pair", Pairs: 300000, SleepMs: 3})
		add(Scn{Kind: "stress", Variant: "quad", Pairs: 100000, SleepMs: 3})
		add(Scn{Kind: "stress", Variant: "close-vs-shutdown", Pairs: 100000, SleepMs: 3})
	}
	return out
}

// ---------------------------------------------------------------- child / parent

func childMain(file string, from int, seed uint64) {
	if !c2.VerifC16ProbeSelfTest() {
		fmt.Fprintln(os.Stderr, "channel-header probe self-test failed (runtime.hchan layout changed?)")
		os.Exit(3)
	}
	b, err := os.ReadFile(file)
	if err != nil {
		panic(err)
	}
	var scs []Scn
	if err = json.Unmarshal(b, &scs); err != nil {
		panic(err)
	}
	w := bufio.NewWriter(os.Stdout)
	for k := from; k < len(scs); k++ {
		fmt.Fprintf(w, "BEGIN %d\n", k)
		w.Flush()
		r := vh.NewRand(seed ^ uint64(k+1)*0x9E3779B97F4A7C15)
		var res Res
		if scs[k].Kind == "stress" && scs[k].Variant == "burst" {
			res = runBurst(k, scs[k], r)
		} else if scs[k].Kind == "stress" {
			res = runStress(k, scs[k], r)
		} else if scs[k].Kind == "remove-race" {
			res = runRemoveRace(k, scs[k], r)
		} else if scs[k].Kind == "fresh" {
			res = runFresh(k, scs[k], r)
		} else if scs[k].Kind == "replace" {
			res = runReplace(k, scs[k], r)
		} else if scs[k].Kind == "dropped" {
			res = runDropped(k, scs[k], r)
		} else if scs[k].Kind == "pending" {
			res = runPending(k, scs[k], r)
		} else if scs[k].Kind == "multi" {
			res = runMulti(k, scs[k], r)
		} else if scs[k].Kind == "proxy" {
			res = runProxy(k, scs[k], r)
		} else if scs[k].Kind == "replace-storm" {
			res = runReplaceStorm(k, scs[k], r)
		} else {
			res = runE2E(k, scs[k], r)
		}
		j, _ := json.Marshal(res)
		fmt.Fprintf(w, "RESULT %s\n", j)
		w.Flush()
	}
}

func coqBool(b bool) string { return vh.B(b) }

func phasesCoq(p [][]int) string {
	var items []string
	for _, ph := range p {
		v := make([]int64, len(ph))
		for i := range ph {
			v[i] = int64(ph[i])
		}
		items = append(items, vh.ZList64(v))
	}
	return vh.List(items)
}

func classOf(sc Scn) string {
	if sc.Kind != "e2e" {
		return sc.Kind + "-" + sc.Variant + sc.Instant
	}
	src := map[int]bool{}
	n := 0
	for _, ph := range sc.Phases {
		for _, c := range ph {
			src[c] = true
			n++
		}
	}
	var s []string
	for _, c := range []struct {
		c int
		n string
	}{{cClientClose, "client"}, {cServerClose, "server"}, {cCtxCancel, "ctx"}, {cRemove, "remove"}, {cLsnClose, "listener"}, {cSrvClose, "srvclose"}} {
		if src[c.c] {
			s = append(s, c.n)
		}
	}
	m := "x1"
	if n > 1 {
		m = "xN"
	}
	cl := sc.Instant + ":" + strings.Join(s, "+") + ":" + m
	if sc.Chm {
		cl += ":channel"
	}
	if !sc.Cbk {
		cl += ":silent"
	}
	if !sc.Compare {
		cl += ":oracle-only"
	}
	return cl
}

func main() {
	child := flag.Bool("child", false, "run scenarios (internal)")
	scnFile := flag.String("scn", "", "scenario file (internal)")
	from := flag.Int("from", 0, "first scenario (internal)")
	fl := vh.ParseFlags()
	if *child {
		childMain(*scnFile, *from, fl.Seed)
		return
	}
	out := vh.NewOut("C16", fl, "From XMT Require Import Base.Prelude Model.Close.", "case", "check",
		"a scenario is non-trivial when at least one close call is issued on a registered session pair or a running listener/server; distinct = distinct (instant, flags, phases, observed trace)")
	out.ShardSize = 60
	r := vh.NewRand(fl.Seed)
	var scs []Scn
	if fl.Replay != "" {
		b, err := os.ReadFile(fl.Replay)
		if err != nil {
			panic(err)
		}
		var rp struct {
			Input Scn `json:"input"`
		}
		if err = json.Unmarshal(b, &rp); err != nil {
			panic(err)
		}
		scs = []Scn{rp.Input}
		for i := 1; i < rp.Input.Repeat; i++ {
			scs = append(scs, rp.Input)
		}
	} else {
		scs = gen(r, fl.Tier)
	}
	sf := fl.Out + "/scenarios.json"
	b, _ := json.Marshal(scs)
	if err := os.WriteFile(sf, b, 0o644); err != nil {
		panic(err)
	}
	results := make([]*Res, len(scs))
	next := 0
	crashes := 0
	for next < len(scs) {
		cmd := exec.Command(os.Args[0], "-child", "-scn", sf, "-from", fmt.Sprint(next), "-seed", fmt.Sprint(fl.Seed), "-tier", fl.Tier, "-out", fl.Out)
		var stderr bytes.Buffer
		cmd.Stderr = &stderr
		po, _ := cmd.StdoutPipe()
		if err := cmd.Start(); err != nil {
			panic(err)
		}
		cur := -1
		scan := bufio.NewScanner(po)
		scan.Buffer(make([]byte, 1<<20), 1<<24)
		for scan.Scan() {
			line := scan.Text()
			switch {
			case strings.HasPrefix(line, "BEGIN "):
				fmt.Sscanf(line, "BEGIN %d", &cur)
			case strings.HasPrefix(line, "RESULT "):
				var res Res
				if err := json.Unmarshal([]byte(line[7:]), &res); err == nil {
					results[res.K] = &res
					next = res.K + 1
				}
			}
		}
		err := cmd.Wait()
		if err != nil && cur >= 0 && results[cur] == nil {
			// the child died inside scenario cur: a fatal panic / runtime error is an observation
			msg := stderr.String()
			first := msg
			if i := strings.Index(first, "\n"); i > 0 {
				first = first[:i]
			}
			kind := "crash"
			switch {
			case strings.Contains(msg, "close of closed channel"):
				kind = "close-of-closed-channel"
			case strings.Contains(msg, "send on closed channel"):
				kind = "send-on-closed-channel"
			case strings.Contains(msg, "all goroutines are asleep"):
				kind = "deadlock"
			}
			// the call site: the first function of package c2 on the panicking goroutine's stack
			site := "unknown"
			for _, ln := range strings.Split(msg, "\n") {
				if i := strings.Index(ln, "/xmt/c2."); i >= 0 && !strings.Contains(ln, "c2.VerifC16") && !strings.Contains(ln, "c2.c16") {
					site = ln[i+len("/xmt/c2."):]
					if j := strings.LastIndex(site, "("); j > 0 {
						site = site[:j]
					}
					break
				}
			}
			if len(msg) > 1200 {
				msg = msg[:1200]
			}
			results[cur] = &Res{K: cur, Panic: true, PanicMsg: msg, Returned: false,
				Fails: []failRec{{"the process died during the scenario: " + first + " || " + strings.Join(strings.Fields(msg), " "), "fatal-" + kind + "-at-" + site}}}
			next = cur + 1
			crashes++
			if crashes > 20 {
				break
			}
		} else if err != nil && cur < 0 {
			fmt.Fprintln(os.Stderr, "child failed before the first scenario:", err, stderr.String())
			os.Exit(2)
		} else if err == nil && next < len(scs) {
			next = len(scs)
		}
	}
	obsCount := map[string]int{}
	extra := map[string]int{}
	var totalMs int64
	for k, sc := range scs {
		res := results[k]
		if res == nil {
			continue
		}
		totalMs += res.Ms
		desc := map[string]interface{}{"scenario": sc, "observed_final": res.Final, "returned": res.Returned, "panic": res.Panic}
		if res.PanicMsg != "" {
			desc["panic_msg"] = res.PanicMsg
		}
		nontrivial := len(sc.Phases) > 0 || sc.Kind == "stress" || sc.Kind == "remove-race" || sc.Kind == "replace-storm"
		if sc.Kind == "e2e" && sc.Compare && !res.NoCompare && len(res.Final) == 27 {
			term := fmt.Sprintf("CRun %s %s %s true %s %s %s %s %s", coqBool(sc.Cpk), coqBool(sc.Spk), coqBool(sc.Chm), coqBool(sc.Cbk),
				phasesCoq(sc.Phases), coqBool(res.Panic), coqBool(res.Returned), vh.ZList64(res.Final))
			out.Add(term, classOf(sc), nontrivial, desc)
		} else if sc.Kind == "replace" && len(res.Final) == 5 && func() bool {
			for _, ph := range sc.Phases { // concurrent calls: the final bits depend on who came first
				if len(ph) != 1 {
					return false
				}
			}
			return true
		}() {
			out.Add(fmt.Sprintf("CLsn %s %s %s %s", phasesCoq(sc.Phases), coqBool(res.Panic), coqBool(res.Returned), vh.ZList64(res.Final)), classOf(sc), nontrivial, desc)
		} else if sc.Kind == "pending" {
			// shutdown adopts ALL Listeners pending in the new queue: the first plus sc.Pairs of them
			out.Add(fmt.Sprintf("CMulti %s %s", vh.Z(int64(sc.Pairs+1)), coqBool(res.Returned && len(res.Fails) == 0)), classOf(sc), true, desc)
		} else if sc.Kind == "multi" && len(sc.Phases) == 1 && len(sc.Phases[0]) == 1 && sc.Phases[0][0] != cLsnClose {
			// Server.Close / context cancel with n Listeners: did the whole teardown finish?
			out.Add(fmt.Sprintf("CMulti %s %s", vh.Z(int64(sc.Pairs)), coqBool(res.Returned && len(res.Fails) == 0)), classOf(sc), true, desc)
		} else if sc.Kind == "stress" && res.Returned && sc.Variant != "chanwake" && sc.Variant != "burst" {
			// the model runs one racing group (the calls of the variant) under the round-robin schedule
			calls := map[string][]int64{"pair": {7, 7}, "quad": {7, 7, 7, 7}, "close-vs-shutdown": {7, 4}}[sc.Variant]
			desc["all_closed"] = res.AllClosed
			out.Add(fmt.Sprintf("CStress %s %s %s", vh.ZList64(calls), coqBool(res.Panic), coqBool(res.AllClosed)), classOf(sc), nontrivial, desc)
		} else {
			out.Count(classOf(sc), fmt.Sprintf("%v|%v|%v", sc, res.Final, res.Returned), nontrivial)
		}
		for _, f := range res.Fails {
			out.Fail(f.What, f.Key, sc)
		}
		for _, o := range res.Obs {
			obsCount[o]++
		}
		for kx, v := range res.Extra {
			extra[kx] += v
		}
	}
	for o, n := range obsCount {
		out.Note(fmt.Sprintf("observation (%d scenario(s)): %s", n, o))
	}
	out.Extra("stress", extra)
	out.Extra("scenarios", len(scs))
	out.Extra("child_crashes", crashes)
	out.Extra("scenario_ms_total", totalMs)
	out.Finish()
}
