// C12 harness: session settings and identity on every synchronisation path.
//
// The real writeDeviceInfo / readDeviceInfo (six kinds), the machine / network / work-hours /
// key codecs, the server-side setters, the client MvTime handler and handleInfoResult are run on
// Sessions built without a network (overlay shims) and compared (a) with the property itself
// (oracle: the receiving side equals the sending side, modulo the documented normalisations) and
// (b) with the Gallina model in coq/Model/DevInfo.v (cases_*.v).
package main

import (
	"bytes"
	"context"
	"fmt"
	"net"
	"go/ast"
	"go/parser"
	"go/token"
	"os"
	"path/filepath"
	"sort"
	"io"
	"math"
	"reflect"
	"strings"
	"time"

	"github.com/iDigitalFlame/xmt/c2"
	"github.com/iDigitalFlame/xmt/c2/cfg"
	"github.com/iDigitalFlame/xmt/c2/task"
	"github.com/iDigitalFlame/xmt/com"
	"github.com/iDigitalFlame/xmt/data"
	"github.com/iDigitalFlame/xmt/device"
	"github.com/iDigitalFlame/xmt/device/local"

	"verifharness/vh"
)

const (
	kHello = iota
	kMigrate
	kRefresh
	kSync
	kProxy
	kSyncMigrate
)

var kindName = []string{"hello", "migrate", "refresh", "sync", "proxy", "syncMigrate"}

var (
	out *vh.Out
	rng *vh.Rand
)

// ---------------------------------------------------------------- generated values and their Coq form

var regBytes = map[string]string{}
var regNet = map[string]string{}

// gb returns the bytes of the model's gen_bytes n a b.
func gb(n, a, b int) []byte {
	o := make([]byte, n)
	x := a
	for i := range o {
		o[i] = byte(x)
		x += b
	}
	if n > 20 {
		regBytes[string(o)] = fmt.Sprintf("(gen_bytes %d %d %d)", n, a, b)
	}
	return o
}
func bt(b []byte) string {
	if g, ok := regBytes[string(b)]; ok {
		return g
	}
	return vh.Bytes(b)
}
func st(s string) string { return bt([]byte(s)) }

func netLit(n []device.VerifDev) string {
	var sb strings.Builder
	sb.WriteByte('[')
	for i, d := range n {
		if i > 0 {
			sb.WriteByte(';')
		}
		sb.WriteString("mkDev ")
		sb.WriteString(st(d.Name))
		sb.WriteByte(' ')
		sb.WriteString(vh.ZU(d.Mac))
		sb.WriteString(" [")
		for j, a := range d.Addrs {
			if j > 0 {
				sb.WriteByte(';')
			}
			sb.WriteString("mkAddr " + vh.ZU(a[0]) + " " + vh.ZU(a[1]))
		}
		sb.WriteString("]")
	}
	sb.WriteByte(']')
	return sb.String()
}
func netTerm(n []device.VerifDev) string {
	l := netLit(n)
	if g, ok := regNet[l]; ok {
		return g
	}
	return l
}

// gnet mirrors the model's gen_net n m c c0.
func gnet(n, m, c, c0 int) []device.VerifDev {
	o := make([]device.VerifDev, n)
	for i := range o {
		nm := make([]byte, 1+i%7)
		x := i
		for k := range nm {
			nm[k] = byte(x)
			x += 3
		}
		cnt := (c + i) % 4
		if i == 0 {
			cnt = c0
		}
		o[i] = device.VerifDev{Name: string(nm), Mac: uint64(m + i), Addrs: make([][2]uint64, cnt)}
		for j := range o[i].Addrs {
			o[i].Addrs[j] = [2]uint64{uint64(i), 281470681743360 + uint64(j)}
		}
	}
	if n > 4 || c0 > 8 {
		regNet[netLit(o)] = fmt.Sprintf("(gen_net %d %d %d %d)", n, m, c, c0)
	}
	return o
}

// ---------------------------------------------------------------- the plain session

type msess struct {
	ID                   [32]byte
	DevID                [32]byte
	System, Elev         uint8
	PID, PPID, Caps      uint32
	User, Version, Host  string
	Net                  []device.VerifDev
	Jitter               uint8
	Sleep                int64
	Kill                 time.Time
	Work                 *cfg.WorkHours
	Pub                  [133]byte
	Priv                 [66]byte
	Share                [65]byte
	Client, Closing      bool
	Proxy                *c2.VerifC12Proxy
}

func (m *msess) machine() device.Machine {
	return device.Machine{User: m.User, Version: m.Version, Hostname: m.Host, Network: device.VerifNetwork(m.Net),
		PID: m.PID, PPID: m.PPID, Capabilities: m.Caps, ID: device.ID(m.DevID), System: m.System, Elevated: m.Elev}
}
func (m *msess) build() *c2.Session {
	s := c2.VerifC12NewSession(m.Client)
	var k data.KeyPair
	k.Public, k.Private = data.PublicKey(m.Pub), data.PrivateKey(m.Priv)
	data.VerifSetShare(&k, data.SharedKeys(m.Share))
	var w *cfg.WorkHours
	if m.Work != nil {
		c := *m.Work
		w = &c
	}
	c2.VerifC12Set(s, c2.VerifC12Settings{ID: device.ID(m.ID), Device: m.machine(), Jitter: m.Jitter, Sleep: m.Sleep, Kill: m.Kill, Work: w, Keys: k})
	if m.Proxy != nil {
		p := *m.Proxy
		c2.VerifC12SetProxy(s, &p)
	}
	if m.Closing {
		c2.VerifC12SetClosing(s)
	}
	return s
}

// observe copies the receiver-side observables of a real Session into a plain session (role and
// proxy are taken from base: they are not observables of a read).
func observe(s *c2.Session, base *msess) *msess {
	v := c2.VerifC12Get(s)
	o := *base
	o.ID, o.DevID = [32]byte(v.ID), [32]byte(v.Device.ID)
	o.System, o.Elev, o.PID, o.PPID, o.Caps = v.Device.System, v.Device.Elevated, v.Device.PID, v.Device.PPID, v.Device.Capabilities
	o.User, o.Version, o.Host = v.Device.User, v.Device.Version, v.Device.Hostname
	o.Net = device.VerifNetworkDump(v.Device.Network)
	o.Jitter, o.Sleep, o.Kill = v.Jitter, v.Sleep, v.Kill
	o.Work = nil
	if v.Work != nil {
		c := *v.Work
		o.Work = &c
	}
	o.Pub, o.Priv, o.Share = [133]byte(v.Keys.Public), [66]byte(v.Keys.Private), [65]byte(v.Keys.Shared())
	return &o
}

func workTerm(w *cfg.WorkHours) string {
	if w == nil {
		return "None"
	}
	return fmt.Sprintf("(Some (mkWork %d %d %d %d %d))", w.Days, w.StartHour, w.StartMin, w.EndHour, w.EndMin)
}
func whTerm(w cfg.WorkHours) string {
	return fmt.Sprintf("(mkWork %d %d %d %d %d)", w.Days, w.StartHour, w.StartMin, w.EndHour, w.EndMin)
}
func timeTerm(t time.Time) string {
	return fmt.Sprintf("(mkTime %s %d)", vh.Z(t.Unix()), t.Nanosecond())
}
func (m *msess) term() string {
	px := "None"
	if m.Proxy != nil {
		px = fmt.Sprintf("(Some (mkProxy %s %s %s %s))", st(m.Proxy.Name), st(m.Proxy.Addr), bt(m.Proxy.Profile), vh.B(m.Proxy.Active))
	}
	return fmt.Sprintf("(mkSession %s (mkMachine %s %d %d %d %s %s %s %d %d %s) %d %s %s %s (mkKeys %s %s %s) %s %s)",
		bt(m.ID[:]), bt(m.DevID[:]), m.System, m.PID, m.PPID, st(m.User), st(m.Version), st(m.Host), m.Elev, m.Caps, netTerm(m.Net),
		m.Jitter, vh.Z(m.Sleep), timeTerm(m.Kill), workTerm(m.Work), bt(m.Pub[:]), bt(m.Priv[:]), bt(m.Share[:]),
		vh.B(m.Client && !m.Closing), px)
}

func clipS(s string) interface{} {
	if len(s) > 40 {
		return fmt.Sprintf("<%d bytes, first %v>", len(s), []int{int(s[0]), int(s[1]), int(s[2])})
	}
	o := make([]int, len(s))
	for i := range o {
		o[i] = int(s[i])
	}
	return o
}
func (m *msess) desc() map[string]interface{} {
	d := map[string]interface{}{
		"id0": int(m.ID[0]), "id1": int(m.ID[1]), "devid0": int(m.DevID[0]), "system": m.System, "pid": m.PID, "ppid": m.PPID,
		"user": clipS(m.User), "version": clipS(m.Version), "host": clipS(m.Host), "elevated": m.Elev, "caps": m.Caps,
		"interfaces": len(m.Net), "jitter": m.Jitter, "sleep": m.Sleep, "kill_unix": m.Kill.Unix(), "kill_nsec": m.Kill.Nanosecond(),
		"kill_zero": m.Kill.IsZero(), "client": m.Client, "closing": m.Closing,
	}
	if len(m.Net) > 0 {
		d["addresses_if0"] = len(m.Net[0].Addrs)
	}
	if m.Work != nil {
		d["work"] = []int{int(m.Work.Days), int(m.Work.StartHour), int(m.Work.StartMin), int(m.Work.EndHour), int(m.Work.EndMin)}
	}
	if m.Proxy != nil {
		d["proxy"] = map[string]interface{}{"name": clipS(m.Proxy.Name), "addr": clipS(m.Proxy.Addr), "profile_len": len(m.Proxy.Profile), "active": m.Proxy.Active}
	}
	return d
}

// ---------------------------------------------------------------- well-formedness and expectation (Go side, independent of the model)

func idOK(b [32]byte) bool { return b[0] != 0 }
func wfKind(k int, m *msess) bool {
	act := m.Client && !m.Closing
	switch k {
	case kProxy:
		return act
	case kHello, kRefresh:
		return idOK(m.DevID) && netOK(m.Net) && act
	case kSyncMigrate:
		return idOK(m.DevID) && netOK(m.Net)
	case kMigrate:
		return idOK(m.ID) && act
	}
	return true
}
func netOK(n []device.VerifDev) bool {
	if len(n) > 255 {
		return false
	}
	for i := range n {
		if len(n[i].Addrs) > 255 {
			return false
		}
	}
	return true
}
func hasDevice(k int) bool { return k == kHello || k == kRefresh || k == kSyncMigrate }

func normNet(n []device.VerifDev) []device.VerifDev {
	o := make([]device.VerifDev, len(n))
	for i := range n {
		o[i] = device.VerifDev{Name: n[i].Name, Mac: n[i].Mac, Addrs: append([][2]uint64{}, n[i].Addrs...)}
	}
	return o
}

// expectKill: the documented wire normalisation: whole seconds, Unix 0 (and the zero Time) = none.
func killMatches(sent, got time.Time) bool {
	if sent.IsZero() || sent.Unix() == 0 {
		return got.IsZero()
	}
	return got.Equal(time.Unix(sent.Unix(), 0))
}
// emptySpec: the documented meaning of "no work hours" (all times zero and the day mask 0 or above 126 = every
// day), written out here so that the oracle does not depend on WorkHours.Empty itself.
func emptySpec(w *cfg.WorkHours) bool {
	return w.StartHour == 0 && w.StartMin == 0 && w.EndHour == 0 && w.EndMin == 0 && (w.Days == 0 || w.Days > 126)
}
func workMatches(sent, got *cfg.WorkHours) bool {
	if sent == nil || emptySpec(sent) {
		return got == nil
	}
	return got != nil && *got == *sent
}

// compare the receiver (after) with what kind k must have carried from the sender; fields the
// kind does not carry must be as before.  Returns "" or the name of the first differing field.
func diffCarried(k int, snd, before, after *msess) string {
	exp := *before
	if k == kProxy {
		// nothing but the returned list
	} else {
		if hasDevice(k) {
			exp.DevID, exp.System, exp.Elev, exp.PID, exp.PPID, exp.Caps = snd.DevID, snd.System, snd.Elev, snd.PID, snd.PPID, snd.Caps
			exp.User, exp.Version, exp.Host, exp.Net = snd.User, snd.Version, snd.Host, snd.Net
		}
		if k == kMigrate {
			exp.ID, exp.Pub, exp.Priv, exp.Share = snd.ID, snd.Pub, snd.Priv, snd.Share
		}
		exp.Jitter, exp.Sleep = snd.Jitter, snd.Sleep
	}
	switch {
	case exp.ID != after.ID:
		return "ID"
	case exp.DevID != after.DevID:
		return "Device.ID"
	case exp.System != after.System:
		return "Device.System"
	case exp.PID != after.PID:
		return "Device.PID"
	case exp.PPID != after.PPID:
		return "Device.PPID"
	case exp.User != after.User:
		return "Device.User"
	case exp.Version != after.Version:
		return "Device.Version"
	case exp.Host != after.Host:
		return "Device.Hostname"
	case exp.Elev != after.Elev:
		return "Device.Elevated"
	case exp.Caps != after.Caps:
		return "Device.Capabilities"
	case !reflect.DeepEqual(normNet(exp.Net), normNet(after.Net)):
		return "Device.Network"
	case exp.Jitter != after.Jitter:
		return "jitter"
	case exp.Sleep != after.Sleep:
		return "sleep"
	case exp.Pub != after.Pub:
		return "keys.Public"
	case exp.Priv != after.Priv:
		return "keys.Private"
	case exp.Share != after.Share:
		return "keys.share"
	}
	if k == kProxy {
		if !after.Kill.Equal(before.Kill) || !reflect.DeepEqual(after.Work, before.Work) {
			return "kill/work touched by a proxy update"
		}
		return ""
	}
	if !killMatches(snd.Kill, after.Kill) {
		return "kill date"
	}
	if !workMatches(snd.Work, after.Work) {
		return "work hours"
	}
	return ""
}
func expectProxies(k int, snd *msess) []c2.VerifC12PD {
	if k > kRefresh && k != kProxy {
		return nil
	}
	if snd.Proxy == nil || !snd.Proxy.Active {
		return []c2.VerifC12PD{}
	}
	p := c2.VerifC12PD{Name: snd.Proxy.Name, Addr: snd.Proxy.Addr}
	if k != kProxy {
		p.Profile = snd.Proxy.Profile
	}
	return []c2.VerifC12PD{p}
}
func pdEqual(a, b []c2.VerifC12PD) bool {
	if len(a) != len(b) {
		return false
	}
	for i := range a {
		if a[i].Name != b[i].Name || a[i].Addr != b[i].Addr || !bytes.Equal(a[i].Profile, b[i].Profile) {
			return false
		}
	}
	return true
}
func pdTerm(p []c2.VerifC12PD) string {
	it := make([]string, len(p))
	for i := range p {
		it[i] = fmt.Sprintf("mkPData %s %s %s", st(p[i].Name), st(p[i].Addr), bt(p[i].Profile))
	}
	return vh.List(it)
}

// ---------------------------------------------------------------- running the real code

func digest(b []byte) uint32 {
	h := uint32(2166136261)
	for _, c := range b {
		h = h*16777619 + uint32(c) + 1
	}
	return h
}
func bobs(b []byte) string {
	if len(b) <= 300 {
		return "(BLit " + vh.Bytes(b) + ")"
	}
	return fmt.Sprintf("(BDig %d %d)", len(b), digest(b))
}

type wres struct {
	b     []byte
	err   error
	panic bool
}

func writeTo(m *msess, k int, stream bool) (r wres) {
	defer func() {
		if x := recover(); x != nil {
			r = wres{panic: true}
		}
	}()
	s := m.build()
	if stream {
		var buf bytes.Buffer
		err := c2.VerifC12Write(s, uint8(k), data.NewWriter(&buf))
		return wres{b: buf.Bytes(), err: err}
	}
	var p com.Packet
	err := c2.VerifC12Write(s, uint8(k), &p)
	return wres{b: p.Payload(), err: err}
}

type rres struct {
	after *msess
	pd    []c2.VerifC12PD
	left  int
	err   error
	panic bool
}

func (r rres) term() string {
	switch {
	case r.panic:
		return "Panic"
	case r.err != nil:
		return "(Err 1)"
	}
	return fmt.Sprintf("(Ok (%s, %s, %d))", r.after.term(), pdTerm(r.pd), r.left)
}

// chunkReader: a reader delivering exactly the given chunks (for CReadStream / SSizes semantics the
// model splits a chunk when the caller's buffer is smaller, exactly like read1).
type chunkReader struct{ c [][]byte }

func (r *chunkReader) Read(p []byte) (int, error) {
	for len(r.c) > 0 && len(r.c[0]) == 0 {
		r.c = r.c[1:]
	}
	if len(r.c) == 0 {
		return 0, io.EOF
	}
	if len(p) == 0 {
		return 0, nil
	}
	n := copy(p, r.c[0])
	if r.c[0] = r.c[0][n:]; len(r.c[0]) == 0 {
		r.c = r.c[1:]
	}
	return n, nil
}
func (r *chunkReader) left() int {
	n := 0
	for _, c := range r.c {
		n += len(c)
	}
	return n
}

func chop(b []byte, sizes []int) [][]byte {
	if len(sizes) == 0 {
		if len(b) == 0 {
			return nil
		}
		return [][]byte{b}
	}
	var o [][]byte
	for i := 0; len(b) > 0; i++ {
		n := sizes[i%len(sizes)]
		if n < 1 {
			n = 1
		}
		if n > len(b) {
			n = len(b)
		}
		o = append(o, b[:n])
		b = b[n:]
	}
	return o
}

func readFlat(r0 *msess, k int, in []byte) (r rres) {
	defer func() {
		if x := recover(); x != nil {
			r = rres{panic: true}
		}
	}()
	s := r0.build()
	var p com.Packet
	p.Write(in)
	pd, err := c2.VerifC12Read(s, uint8(k), &p)
	return rres{after: observe(s, r0), pd: pd, left: p.Remaining(), err: err}
}
func readStream(r0 *msess, k int, chunks [][]byte) (r rres) {
	defer func() {
		if x := recover(); x != nil {
			r = rres{panic: true}
		}
	}()
	s := r0.build()
	cr := &chunkReader{c: append([][]byte{}, chunks...)}
	pd, err := c2.VerifC12Read(s, uint8(k), data.NewReader(cr))
	return rres{after: observe(s, r0), pd: pd, left: cr.left(), err: err}
}

func splitTerm(sizes []int) string {
	switch {
	case len(sizes) == 0:
		return "SWhole"
	case len(sizes) == 1:
		return fmt.Sprintf("(SEach %d)", sizes[0])
	}
	it := make([]string, len(sizes))
	for i, v := range sizes {
		it[i] = fmt.Sprint(v)
	}
	return "(SSizes " + vh.List(it) + ")"
}

var stats = map[string]int{}
var thoroughTier bool
var splitTurn int

// fail records an oracle failure; at most three records per key are kept (vh keeps only the first
// 200 failures of a run, so one frequent failure must not hide a different one), the rest is counted.
var failsPerKey = map[string]int{}

func fail(what, key string, c interface{}) {
	if failsPerKey[key]++; failsPerKey[key] > 3 {
		stats["more-failures-"+key]++
		return
	}
	out.Fail(what, key, c)
}

// one sender, one kind: write (packet + stream), read back through every split
func doKind(k int, snd, r0 *msess, rest []byte, class string, modelSplits bool) {
	wp, ws := writeTo(snd, k, false), writeTo(snd, k, true)
	desc := map[string]interface{}{"kind": kindName[k], "sender": snd.desc(), "rest": len(rest)}
	if wp.panic || ws.panic {
		fail("writeDeviceInfo panicked", "write-panic-"+kindName[k], desc)
		return
	}
	if wp.err != nil || ws.err != nil {
		fail("writeDeviceInfo returned an error", "write-error-"+kindName[k], desc)
		return
	}
	if !bytes.Equal(wp.b, ws.b) {
		fail("writeDeviceInfo writes different bytes into a Packet and into a stream writer", "write-differs-"+kindName[k], desc)
	}
	wf := wfKind(k, snd)
	nontriv := snd.Jitter != r0.Jitter || snd.Sleep != r0.Sleep || k == kProxy
	out.Add(fmt.Sprintf("CWrite %d %s %s", k, snd.term(), bobs(wp.b)), "write-"+kindName[k]+"-"+class, nontriv, desc)

	in := append(append([]byte{}, wp.b...), rest...)
	judge := func(how string, r rres, sizes []int) {
		d := map[string]interface{}{"kind": kindName[k], "sender": snd.desc(), "receiver_before": r0.desc(), "rest": len(rest), "reader": how, "chunk_sizes": sizes}
		if r.panic {
			fail("readDeviceInfo panicked", "read-panic-"+kindName[k], d)
			return
		}
		if !wf {
			// outside the documented domain (writer not an active client for a kind that carries the
			// proxy list, 256+ interfaces, empty ID): observation only
			if r.err != nil {
				stats["outside-domain-unreadable-"+kindName[k]]++
			} else {
				stats["outside-domain-readable-"+kindName[k]]++
			}
			return
		}
		if r.err != nil {
			d["error"] = r.err.Error()
			fail(fmt.Sprintf("%s message of a well-formed session is rejected by readDeviceInfo (%s reader): %s", kindName[k], how, r.err.Error()),
				"read-error-"+kindName[k]+"-"+how, d)
			return
		}
		if f := diffCarried(k, snd, r0, r.after); f != "" {
			d["field"] = f
			d["receiver_after"] = r.after.desc()
			fail(fmt.Sprintf("%s message: receiver's %s differs from the sender's", kindName[k], f), "field-"+kindName[k]+"-"+f, d)
			return
		}
		if e := expectProxies(k, snd); !pdEqual(e, r.pd) {
			fail(kindName[k]+" message: proxy list differs from the sender's", "proxies-"+kindName[k], d)
			return
		}
		if r.left != len(rest) {
			d["left"] = r.left
			fail(kindName[k]+" message: reader consumed bytes beyond the message (or left some of it)", "consumed-"+kindName[k], d)
		}
	}
	// flat (Packet)
	rf := readFlat(r0, k, in)
	judge("packet", rf, nil)
	out.Add(fmt.Sprintf("CRoundFlat %d %s %s %s %s", k, snd.term(), r0.term(), vh.Bytes(rest), rf.term()), "packet-"+kindName[k]+"-"+class, nontriv, desc)
	// streams
	big := len(in) > 3000
	type sp struct {
		how   string
		sizes []int
		model bool
	}
	rs := []int{1 + rng.Intn(7), 1 + rng.Intn(40), 1 + rng.Intn(3), 1 + rng.Intn(300)}
	if big {
		rs = []int{500 + rng.Intn(3000), 1 + rng.Intn(9000), 2000 + rng.Intn(70000)}
	}
	sps := []sp{{"whole", nil, true}, {"1-byte", []int{1}, !big}, {"random", rs, true}}
	if !big {
		sps = append(sps, sp{"2-byte", []int{2}, true}, sp{"at-132", []int{132, 1, 65, 67, 1000}, true})
	}
	splitTurn++
	for i, x := range sps {
		r := readStream(r0, k, chop(in, x.sizes))
		judge(x.how, r, x.sizes)
		// quick tier: the whole and the random split always go to the model, the fixed ones take turns
		// (every split is still judged by the oracle on the implementation)
		if !thoroughTier && i != 0 && i != 2 && (i+splitTurn)%3 != 0 {
			x.model = false
		}
		if x.model && modelSplits {
			out.Add(fmt.Sprintf("CRoundStream %d %s %s %s %s %s", k, snd.term(), r0.term(), vh.Bytes(rest), splitTerm(x.sizes), r.term()),
				"stream-"+x.how+"-"+kindName[k]+"-"+class, nontriv, desc)
		} else {
			out.Count("stream-"+x.how+"-"+kindName[k]+"-"+class+"-oracle-only", fmt.Sprint(out.N()), nontriv)
		}
	}
}

// damaged input: truncations and count-byte changes of a valid message, model comparison only
// (the property says nothing about them; the model must still follow the code)
func doDamaged(k int, snd, r0 *msess) {
	w := writeTo(snd, k, false)
	if w.panic || w.err != nil || len(w.b) > 700 {
		return
	}
	cut := func(n int) {
		in := w.b[:n]
		// A Packet that was never written to (nil buffer) answers Read with (0, nil) for ever, so the
		// io.ReadFull of ID.Read spins on an EMPTY hello/refresh/syncMigrate/migrate body: that is a
		// malformed-input matter (C04), not a round trip; the empty body is only given to the stream reader.
		if n > 0 || !(hasDevice(k) || k == kMigrate) {
			rf := readFlat(r0, k, in)
			out.Add(fmt.Sprintf("CReadFlat %d %s %s %s", k, r0.term(), vh.Bytes(in), rf.term()), "damaged-truncated-packet-"+kindName[k], n > 0,
				map[string]interface{}{"kind": kindName[k], "truncated_to": n, "of": len(w.b)})
		} else {
			stats["empty-packet-body-not-read-"+kindName[k]]++
		}
		ch := chop(in, []int{1 + rng.Intn(5)})
		r := readStream(r0, k, ch)
		it := make([]string, len(ch))
		for i := range ch {
			it[i] = vh.Bytes(ch[i])
		}
		out.Add(fmt.Sprintf("CReadStream %d %s %s %s", k, r0.term(), vh.List(it), r.term()), "damaged-truncated-stream-"+kindName[k], n > 0,
			map[string]interface{}{"kind": kindName[k], "truncated_to": n, "of": len(w.b)})
	}
	step := 1
	if len(w.b) > 120 {
		step = 1 + len(w.b)/60
	}
	if !thoroughTier && len(w.b) > 14 {
		step = 1 + len(w.b)/12
	}
	for n := 0; n < len(w.b); n += step {
		cut(n)
	}
	// change single bytes to small values (count bytes, ID[0], work hours): never a length class byte
	// towards a larger class, so that no huge allocation is requested from the stream reader
	nb := 12
	if !thoroughTier {
		nb = 5
	}
	for t := 0; t < nb && len(w.b) > 0; t++ {
		i := rng.Intn(len(w.b))
		in := append([]byte{}, w.b...)
		if in[i] > 8 || in[i] == 0 {
			in[i] = byte(rng.Intn(3))
		} else {
			in[i] = 0
		}
		rf := readFlat(r0, k, in)
		out.Add(fmt.Sprintf("CReadFlat %d %s %s %s", k, r0.term(), vh.Bytes(in), rf.term()), "damaged-byte-packet-"+kindName[k], true,
			map[string]interface{}{"kind": kindName[k], "changed_offset": i, "to": int(in[i])})
	}
}

// ---------------------------------------------------------------- MvTime

type order struct {
	kind string // SetDuration SetKill SetWork TaskDuration TaskKill TaskWork
	t, j int64
	k    time.Time
	w    *cfg.WorkHours
}

func (o order) term() string {
	switch o.kind {
	case "SetDuration":
		return fmt.Sprintf("(OSetDuration %s %s)", vh.Z(o.t), vh.Z(o.j))
	case "TaskDuration":
		return fmt.Sprintf("(OTaskDuration %s %s)", vh.Z(o.t), vh.Z(o.j))
	case "SetKill":
		return "(OSetKill " + timeTerm(o.k) + ")"
	case "TaskKill":
		return "(OTaskKill " + timeTerm(o.k) + ")"
	case "SetWork":
		return "(OSetWork " + workTerm(o.w) + ")"
	}
	return "(OTaskWork " + whTerm(*o.w) + ")"
}
func (o order) desc() map[string]interface{} {
	d := map[string]interface{}{"order": o.kind}
	switch o.kind {
	case "SetDuration", "TaskDuration":
		d["sleep"], d["jitter"] = o.t, o.j
	case "SetKill", "TaskKill":
		d["kill_unix"], d["kill_nsec"], d["kill_zero"] = o.k.Unix(), o.k.Nanosecond(), o.k.IsZero()
	default:
		if o.w != nil {
			d["work"] = []int{int(o.w.Days), int(o.w.StartHour), int(o.w.StartMin), int(o.w.EndHour), int(o.w.EndMin)}
		} else {
			d["work"] = nil
		}
	}
	return d
}

type tres struct {
	payload  []byte
	cli, srv *msess
	err      error
	panic    bool
	stage    string
}

func runOrder(srvM, cliM *msess, o order) (r tres) {
	defer func() {
		if x := recover(); x != nil {
			r.panic = true
		}
	}()
	srv, cli := srvM.build(), cliM.build()
	var err error
	switch o.kind {
	case "SetDuration":
		_, err = srv.SetDuration(time.Duration(o.t), int(o.j))
	case "SetKill":
		_, err = srv.SetKillDate(o.k)
	case "SetWork":
		var w *cfg.WorkHours
		if o.w != nil {
			c := *o.w
			w = &c
		}
		_, err = srv.SetWorkHours(w)
	case "TaskDuration":
		_, err = srv.Task(task.Duration(time.Duration(o.t), int(o.j)))
	case "TaskKill":
		_, err = srv.Task(task.KillDate(o.k))
	case "TaskWork":
		_, err = srv.Task(task.WorkHours(o.w.Days, o.w.StartHour, o.w.StartMin, o.w.EndHour, o.w.EndMin))
	}
	if err != nil {
		return tres{err: err, stage: "setter"}
	}
	n := c2.VerifC12PopSend(srv)
	if n == nil {
		return tres{err: io.ErrNoProgress, stage: "no packet queued"}
	}
	r.payload = n.Payload()
	if !c2.VerifC12ClientMux(cli, n) {
		return tres{err: io.ErrNoProgress, stage: "client mux refused"}
	}
	res := c2.VerifC12PopSend(cli)
	if res == nil {
		return tres{err: io.ErrNoProgress, stage: "no result queued"}
	}
	if res.Flags&com.FlagError != 0 {
		return tres{err: io.ErrUnexpectedEOF, stage: "client handler error"}
	}
	if !c2.VerifC12Handle(srv, res) {
		return tres{err: io.ErrNoProgress, stage: "server did not accept the result"}
	}
	r.cli, r.srv = observe(cli, cliM), observe(srv, srvM)
	return r
}

func clampJ(j int64) uint8 {
	switch {
	case j < 0:
		return 0
	case j > 100:
		return 100
	}
	return uint8(j)
}

func doOrder(srvM, cliM *msess, o order, class string) {
	r := runOrder(srvM, cliM, o)
	desc := map[string]interface{}{"order": o.desc(), "client_before": cliM.desc(), "server_view_before": srvM.desc()}
	var term string
	switch {
	case r.panic:
		term = "Panic"
	case r.err != nil:
		term = "(Err 1)"
	default:
		term = fmt.Sprintf("(Ok (%s, %s, %s))", vh.Bytes(r.payload), r.cli.term(), r.srv.term())
	}
	out.Add(fmt.Sprintf("CTime %s %s %s %s", srvM.term(), cliM.term(), o.term(), term), "time-"+o.kind+"-"+class, true, desc)
	if r.panic {
		fail("MvTime exchange panicked", "time-panic-"+o.kind, desc)
		return
	}
	synced := srvM.Jitter == cliM.Jitter && srvM.Sleep == cliM.Sleep && srvM.Kill.Equal(cliM.Kill) && reflect.DeepEqual(srvM.Work, cliM.Work)
	// the order is refused before anything is sent only for work hours that fail Verify
	if r.err != nil {
		if o.kind == "SetWork" && o.w != nil && !emptySpec(o.w) && o.w.Verify() != nil && r.stage == "setter" {
			stats["setworkhours-verify-refused"]++
			return
		}
		desc["stage"] = r.stage
		fail("a settings order did not complete: "+r.stage, "time-incomplete-"+o.kind, desc)
		return
	}
	desc["client_after"], desc["server_view_after"] = r.cli.desc(), r.srv.desc()
	// (1) the server's view equals the client's afterwards (always, synced or not)
	// kill date at the wire's one-second resolution with Unix 0 / the zero Time = none; an Empty() work-hours
	// value and nil both mean "no work hours" (documented normalisations, see notes/C12.md)
	if r.srv.Jitter != r.cli.Jitter || r.srv.Sleep != r.cli.Sleep || !killMatches(r.cli.Kill, r.srv.Kill) || !workMatches(r.cli.Work, r.srv.Work) {
		fail("after the echo the server's view of sleep/jitter/kill date/work hours differs from the client's", "view-"+o.kind, desc)
		return
	}
	// (2) the ordered values took effect; judged inside the documented domain: views in sync and
	// jitter a percentage (every client-side assignment keeps it <= 100)
	if !synced || cliM.Jitter > 100 {
		stats["order-outside-domain"]++
		return
	}
	bad := ""
	switch o.kind {
	case "SetDuration", "TaskDuration":
		wantJ, wantS := cliM.Jitter, cliM.Sleep
		if o.j != -1 {
			wantJ = clampJ(o.j)
		}
		if o.t > 0 {
			wantS = o.t
		}
		if r.cli.Jitter != wantJ {
			bad = fmt.Sprintf("jitter is %d, ordered %d (expected %d)", r.cli.Jitter, o.j, wantJ)
		} else if r.cli.Sleep != wantS {
			bad = fmt.Sprintf("sleep is %d, ordered %d", r.cli.Sleep, o.t)
		} else if !r.cli.Kill.Equal(cliM.Kill) || !reflect.DeepEqual(r.cli.Work, cliM.Work) {
			bad = "kill date / work hours changed by a duration order"
		}
	case "SetKill", "TaskKill":
		if !killMatches(o.k, r.cli.Kill) {
			bad = "kill date differs from the ordered one"
		} else if r.cli.Jitter != cliM.Jitter || r.cli.Sleep != cliM.Sleep || !reflect.DeepEqual(r.cli.Work, cliM.Work) {
			bad = "other settings changed by a kill-date order"
		}
	default:
		if !workMatches(o.w, r.cli.Work) {
			bad = "work hours differ from the ordered ones"
		} else if r.cli.Jitter != cliM.Jitter || r.cli.Sleep != cliM.Sleep || !r.cli.Kill.Equal(cliM.Kill) {
			bad = "other settings changed by a work-hours order"
		}
	}
	if bad != "" {
		key := "effect-" + o.kind
		if o.kind == "TaskDuration" && (o.j > 127 || o.j < -128) {
			key = "effect-TaskDuration-jitter-outside-int8"
		}
		fail("the ordered change did not take effect on the client exactly: "+bad, key, desc)
	}
}


// ---------------------------------------------------------------- proxy histories

// popOp is one proxy operation run on a REAL client Session: the Session / Proxy API directly
// (api) or the MvProxy task through the client's muxHandleInternal (task = operation + infoProxy echo).
type popOp struct {
	kind string // attach replace close write
	task bool
	name string
	addr string // as given ("" = take the profile's host)
	prof []byte // config bytes of the profile
	k    int    // write: the kind
}

func (o popOp) eff() string {
	if o.addr == "" {
		return "127.0.0.1:0" // the Host of every generated profile
	}
	return o.addr
}
func (o popOp) term(prof []byte) string {
	var t string
	switch o.kind {
	case "attach":
		t = fmt.Sprintf("PAttach %s %s %s", st(o.name), st(o.eff()), bt(prof))
	case "replace":
		t = fmt.Sprintf("PReplace %s %s", st(o.eff()), bt(prof))
	case "close":
		t = "PClose"
	default:
		return fmt.Sprintf("PWrite %d", o.k)
	}
	if o.task {
		return "PTask (" + t + ")"
	}
	return t
}
func (o popOp) desc() map[string]interface{} {
	d := map[string]interface{}{"op": o.kind, "via": map[bool]string{true: "MvProxy task", false: "Session/Proxy API"}[o.task]}
	switch o.kind {
	case "attach":
		d["name"], d["addr"], d["profile"] = o.name, o.addr, intsOf(o.prof)
	case "replace":
		d["addr"], d["profile"] = o.addr, intsOf(o.prof)
	case "write":
		d["kind"] = kindName[o.k]
	}
	return d
}
func intsOf(b []byte) []int {
	o := make([]int, len(b))
	for i := range b {
		o[i] = int(b[i])
	}
	return o
}

// marshalled returns MarshalBinary() of an independent Profile instance parsed from the config bytes.
func marshalled(b []byte) []byte {
	p, err := cfg.Raw(b)
	if err != nil {
		panic("harness profile does not parse: " + err.Error())
	}
	m, ok := p.(interface{ MarshalBinary() ([]byte, error) })
	if !ok {
		panic("harness profile does not marshal")
	}
	v, err := m.MarshalBinary()
	if err != nil {
		panic(err)
	}
	return v
}

type pentry struct {
	name, addr string
	prof       []byte
}

// doProxyHistory runs h on a fresh real client Session built from base, then writes and reads back
// every kind.  The oracle keeps its own record of what the proxy currently IS (updated from the
// operations that returned no error) and compares every message with it.
func doProxyHistory(base, r0 *msess, h []popOp, class string) {
	done := make(chan bool, 1)
	var (
		s    *c2.Session
		cur  *pentry
		last = "none"
	)
	b0 := *base
	b0.Proxy, b0.Client, b0.Closing = nil, true, false
	hterm := make([]string, 0, len(h))
	hdesc := make([]interface{}, 0, len(h))
	effective := false
	go func() {
		defer func() {
			if x := recover(); x != nil {
				fail(fmt.Sprintf("a proxy operation panicked: %v", x), "proxy-history-panic-after-"+last, map[string]interface{}{"history": hdesc})
				done <- false
				return
			}
			done <- true
		}()
		s = b0.build()
		for _, o := range h {
			var (
				err  error
				mp   []byte
				echo []byte
			)
			if o.kind == "attach" || o.kind == "replace" {
				mp = marshalled(o.prof)
			}
			attached, active, _, _ := c2.VerifC12ProxyState(s)
			switch {
			case o.kind == "write":
				var p com.Packet
				err = c2.VerifC12Write(s, uint8(o.k), &p)
			case o.task:
				n := &com.Packet{ID: task.MvProxy}
				n.WriteString(o.name)
				switch o.kind {
				case "close":
					n.WriteUint8(0)
				case "replace":
					n.WriteUint8(1)
					n.WriteString(o.addr)
					n.WriteBytes(o.prof)
				default:
					n.WriteUint8(2)
					n.WriteString(o.addr)
					n.WriteBytes(o.prof)
				}
				echo, err = c2.VerifC12MuxInternal(s, n)
			case o.kind == "attach":
				var p cfg.Profile
				if p, err = cfg.Raw(o.prof); err == nil {
					_, err = s.NewProxy(o.name, o.addr, p)
				}
			case o.kind == "replace":
				var p cfg.Profile
				if p, err = cfg.Raw(o.prof); err == nil {
					err = s.Proxy("").Replace(o.addr, p)
				}
			case o.kind == "close":
				err = s.Proxy("").Close()
			}
			hterm = append(hterm, o.term(mp))
			d := o.desc()
			if err != nil {
				d["error"] = err.Error()
			}
			hdesc = append(hdesc, d)
			if o.kind == "write" {
				continue
			}
			last = o.kind
			// the expectation: what an operator may conclude from the call's result
			switch {
			case err != nil:
			case o.kind == "attach":
				cur, effective = &pentry{o.name, o.eff(), mp}, true
			case o.kind == "replace":
				cur.addr, cur.prof, effective = o.eff(), mp, true
			case o.kind == "close":
				cur = nil
			}
			// an operation that must be refused
			if err == nil && ((o.kind == "attach" && attached) || (o.kind != "attach" && !attached) || (o.kind == "replace" && !active)) {
				fail("a proxy operation that cannot apply returned no error", "proxy-history-accepted-"+o.kind, map[string]interface{}{"history": hdesc})
			}
			// the MvProxy echo (infoProxy: name and address) of a successful task
			if o.task && err == nil {
				r := readFlat(r0, kProxy, echo)
				var want []c2.VerifC12PD
				if cur != nil {
					want = []c2.VerifC12PD{{Name: cur.name, Addr: cur.addr}}
				}
				if r.err != nil || r.panic || !pdEqual(want, r.pd) {
					fail("the MvProxy echo does not describe the proxy as it is after the operation", "proxy-history-echo-after-"+o.kind,
						map[string]interface{}{"history": hdesc, "echo": intsOf(echo)})
				}
			}
			// the Proxy object itself
			at, ac, nm, ad := c2.VerifC12ProxyState(s)
			if cur != nil && !(at && ac && nm == cur.name && ad == cur.addr) {
				fail("the attached Proxy is not the one the operations describe", "proxy-history-object-after-"+o.kind,
					map[string]interface{}{"history": hdesc, "attached": at, "active": ac, "name": nm, "addr": ad})
			}
			if cur == nil && at && ac {
				fail("a Proxy is active although none should be", "proxy-history-object-after-"+o.kind, map[string]interface{}{"history": hdesc})
			}
		}
	}()
	select {
	case ok := <-done:
		if !ok {
			return
		}
	case <-time.After(20 * time.Second):
		fail("a proxy operation did not return within 20 s", "proxy-history-timeout-after-"+last, map[string]interface{}{"history": hdesc})
		return
	}
	defer func() {
		if at, ac, _, _ := c2.VerifC12ProxyState(s); at && ac {
			fin := make(chan struct{})
			go func() { defer func() { recover(); close(fin) }(); s.Proxy("").Close() }()
			select {
			case <-fin:
			case <-time.After(5 * time.Second):
			}
		}
	}()
	// the sender as the oracle sees it
	snd := b0
	if cur != nil {
		snd.Proxy = &c2.VerifC12Proxy{Name: cur.name, Addr: cur.addr, Profile: cur.prof, Active: true}
	}
	for k := kHello; k <= kSyncMigrate; k++ {
		var p com.Packet
		werr := func() (err error) {
			defer func() {
				if x := recover(); x != nil {
					err = io.ErrClosedPipe
				}
			}()
			return c2.VerifC12Write(s, uint8(k), &p)
		}()
		desc := map[string]interface{}{"history": hdesc, "then": kindName[k], "session": b0.desc()}
		if cur != nil {
			desc["proxy_now"] = map[string]interface{}{"name": cur.name, "addr": cur.addr, "profile": intsOf(cur.prof)}
		} else {
			desc["proxy_now"] = nil
		}
		if werr != nil {
			fail("writeDeviceInfo failed after a history of proxy operations", "proxy-history-write-"+kindName[k]+"-after-"+last, desc)
			continue
		}
		wb := append([]byte{}, p.Payload()...)
		sizes := []int{1 + rng.Intn(9), 1 + rng.Intn(60)}
		if k%2 == 0 {
			sizes = nil
		}
		r := readStream(r0, k, chop(wb, sizes))
		rf := readFlat(r0, k, wb)
		for _, x := range []rres{r, rf} {
			switch {
			case x.panic || x.err != nil:
				fail(kindName[k]+" message written after a history of proxy operations is not readable", "proxy-history-read-"+kindName[k]+"-after-"+last, desc)
			case diffCarried(k, &snd, r0, x.after) != "":
				desc["field"] = diffCarried(k, &snd, r0, x.after)
				fail(kindName[k]+" message after a history of proxy operations: a field differs from the sender's", "proxy-history-field-"+kindName[k]+"-after-"+last, desc)
			case !pdEqual(expectProxies(k, &snd), x.pd):
				got := make([]interface{}, len(x.pd))
				for i := range x.pd {
					got[i] = map[string]interface{}{"name": x.pd[i].Name, "addr": x.pd[i].Addr, "profile": intsOf(x.pd[i].Profile)}
				}
				desc["receiver_got"] = got
				fail(kindName[k]+" message carries a proxy list that is not the proxy's current name / bind address / profile", "proxy-history-list-"+kindName[k]+"-after-"+last, desc)
			default:
				continue
			}
			break
		}
		out.Add(fmt.Sprintf("CProxyHist %s %s %d %s %s %s %s", b0.term(), vh.List(hterm), k, r0.term(), splitTerm(sizes), bobs(wb), r.term()),
			"proxy-history-"+kindName[k]+"-"+class, effective, desc)
	}
}

var proxyAddrs = []string{"127.0.0.1:0", "127.0.0.2:0", "localhost:0", "127.9.8.7:0", ""}

func proxyProfile(i int) []byte {
	set := []cfg.Setting{cfg.Host("127.0.0.1:0"), cfg.ConnectTCP, cfg.Sleep(time.Duration(5+i) * time.Second)}
	if i%2 == 1 {
		set = append(set, cfg.WrapHex)
	}
	if i%3 == 1 {
		set = append(set, cfg.Jitter(uint(10+i)))
	}
	if i%4 == 3 {
		set = append(set, cfg.WrapBase64)
	}
	return []byte(cfg.Pack(set...))
}

func randHistory(n int) []popOp {
	var (
		h                []popOp
		attached, active bool
	)
	for len(h) < n {
		o := popOp{task: rng.Bool(), name: "px" + fmt.Sprint(rng.Intn(3)), addr: proxyAddrs[rng.Intn(len(proxyAddrs))], prof: proxyProfile(rng.Intn(12))}
		switch x := rng.Intn(10); {
		case x < 3:
			o.kind = "attach"
			if attached && rng.Intn(3) > 0 {
				continue // a refused attach now and then only
			}
			if !attached {
				attached, active = true, true
			}
		case x < 7:
			o.kind = "replace"
			if attached && !active {
				continue // Replace on a closed Proxy is not exercised (see notes)
			}
			if !attached && (!o.task || rng.Intn(3) > 0) {
				continue // without a record only the task can be asked (os.ErrNotExist)
			}
		case x < 8:
			o.kind = "close"
			if !attached && (!o.task || rng.Intn(3) > 0) {
				continue
			}
			if attached {
				active = false
				if o.task {
					attached = false // the echo drops the record
				}
			}
		default:
			o.kind, o.k = "write", rng.Intn(6)
			if attached && !active && (o.k <= kRefresh || o.k == kProxy) {
				attached = false
			}
		}
		h = append(h, o)
	}
	return h
}


// ---------------------------------------------------------------- every producer of a synchronisation message

// scanSites parses the c2 sources of the tree under test and lists every call of writeDeviceInfo /
// readDeviceInfo: the site (function, and inside the big switches the case) and the kind expression
// (a constant, or a variable that is announced / read as one kind byte right before).
func scanSites() (writes, reads []string, desc []string) {
	repo := os.Getenv("VERIF_REPO")
	if repo == "" {
		repo = "/repo"
	}
	files, _ := filepath.Glob(filepath.Join(repo, "c2", "*.go"))
	sort.Strings(files)
	kinds := map[string]int{"infoHello": 0, "infoMigrate": 1, "infoRefresh": 2, "infoSync": 3, "infoProxy": 4, "infoSyncMigrate": 5}
	fset := token.NewFileSet()
	for _, fn := range files {
		if strings.HasSuffix(fn, "_test.go") || strings.HasPrefix(filepath.Base(fn), "zz_verif") {
			continue
		}
		f, err := parser.ParseFile(fset, fn, nil, 0)
		if err != nil {
			continue
		}
		for _, d := range f.Decls {
			fd, ok := d.(*ast.FuncDecl)
			if !ok || fd.Body == nil || fd.Name.Name == "writeDeviceInfo" || fd.Name.Name == "readDeviceInfo" {
				continue
			}
			var stack []ast.Node
			ast.Inspect(fd.Body, func(n ast.Node) bool {
				if n == nil {
					stack = stack[:len(stack)-1]
					return true
				}
				stack = append(stack, n)
				call, ok := n.(*ast.CallExpr)
				if !ok {
					return true
				}
				sel, ok := call.Fun.(*ast.SelectorExpr)
				if !ok || (sel.Sel.Name != "writeDeviceInfo" && sel.Sel.Name != "readDeviceInfo") || len(call.Args) != 2 {
					return true
				}
				wr := sel.Sel.Name == "writeDeviceInfo"
				// enclosing case clause and enclosing block
				cs := ""
				var blk []ast.Stmt
				var self ast.Stmt
				for i := len(stack) - 1; i >= 0; i-- {
					if st, ok := stack[i].(ast.Stmt); ok && self == nil {
						if _, isBlk := st.(*ast.BlockStmt); !isBlk {
							self = st
						}
					}
					if cc, ok := stack[i].(*ast.CaseClause); ok && cs == "" {
						var parts []string
						for _, e := range cc.List {
							parts = append(parts, exprText(e))
						}
						cs = strings.Join(parts, ",")
						if blk == nil {
							blk = cc.Body
						}
					}
					if b, ok := stack[i].(*ast.BlockStmt); ok && blk == nil {
						blk = b.List
					}
				}
				kind := "(KFixed (-1))"
				if id, ok := call.Args[0].(*ast.Ident); ok {
					if k, ok := kinds[id.Name]; ok {
						kind = fmt.Sprintf("(KFixed %d)", k)
					} else if wr && announcedBefore(blk, call, id.Name, exprText(call.Args[1])) {
						kind = "KAnnounced"
					} else if !wr && readAsByte(fd.Body, id.Name, exprText(call.Args[1])) {
						kind = "KAnnounced"
					}
				}
				site := siteName(wr, fd.Name.Name, cs)
				t := fmt.Sprintf("(%s, %s)", site, kind)
				desc = append(desc, fmt.Sprintf("%s:%d %s %s/%s %s -> %s", filepath.Base(fn), fset.Position(call.Pos()).Line, sel.Sel.Name, fd.Name.Name, cs, exprText(call.Args[0]), t))
				if wr {
					writes = append(writes, t)
				} else {
					reads = append(reads, t)
				}
				return true
			})
		}
	}
	return
}
func exprText(e ast.Expr) string {
	switch v := e.(type) {
	case *ast.Ident:
		return v.Name
	case *ast.SelectorExpr:
		return exprText(v.X) + "." + v.Sel.Name
	case *ast.UnaryExpr:
		return v.Op.String() + exprText(v.X)
	}
	return "?"
}

// announcedBefore: among the statements of the block, one statement before the one containing call is
// `<w>.WriteUint8(<name>)` on the same writer and nothing between them.
func announcedBefore(blk []ast.Stmt, call *ast.CallExpr, name, w string) bool {
	for i, st := range blk {
		if st.Pos() <= call.Pos() && call.End() <= st.End() && i > 0 {
			es, ok := blk[i-1].(*ast.ExprStmt)
			if !ok {
				return false
			}
			c, ok := es.X.(*ast.CallExpr)
			if !ok || len(c.Args) != 1 {
				return false
			}
			return exprText(c.Fun) == w+".WriteUint8" && exprText(c.Args[0]) == name
		}
	}
	return false
}

// readAsByte: the function assigns `<name>, _ := <r>.Uint8()` from the same reader.
func readAsByte(body *ast.BlockStmt, name, r string) bool {
	found := false
	ast.Inspect(body, func(n ast.Node) bool {
		as, ok := n.(*ast.AssignStmt)
		if !ok || len(as.Lhs) == 0 || len(as.Rhs) != 1 {
			return true
		}
		if exprText(as.Lhs[0]) != name {
			return true
		}
		if c, ok := as.Rhs[0].(*ast.CallExpr); ok && exprText(c.Fun) == r+".Uint8" {
			found = true
		}
		return true
	})
	return found
}
func siteName(wr bool, fn, cs string) string {
	if wr {
		switch {
		case fn == "connectContextInner":
			return "W_Connect"
		case fn == "receiveSingle" && cs == "SvRegister":
			return "W_Register"
		case fn == "LoadContext":
			return "W_LoadContext"
		case fn == "muxHandleScript":
			return "W_Script"
		case fn == "muxHandleInternal" && cs == "task.MvTime":
			return "W_MvTime"
		case fn == "muxHandleInternal" && cs == "task.MvProxy":
			return "W_MvProxy"
		case fn == "muxHandleInternal" && cs == "task.MvRefresh":
			return "W_MvRefresh"
		case fn == "muxHandleInternal" && cs == "task.MvProfile":
			return "W_MvProfile"
		case fn == "SpawnProfile":
			return "W_Spawn"
		case fn == "MigrateProfile":
			return "W_Migrate"
		}
		return "S_Other"
	}
	switch {
	case fn == "connectContextInner":
		return "R_Load"
	case fn == "LoadContext":
		return "R_LoadContext"
	case fn == "talk" || fn == "talkSub":
		return "R_Listener"
	case fn == "receiveSingle" && cs == "SvResync":
		return "R_Resync"
	case fn == "handleInfoResult" && cs == "task.MvProxy":
		return "R_MvProxy"
	case fn == "handleInfoResult" && cs == "task.MvMigrate":
		return "R_MvMigrate"
	case fn == "handleInfoResult" && cs == "task.MvRefresh":
		return "R_MvRefresh"
	case fn == "handleInfoResult" && cs == "task.MvTime,task.MvProfile":
		return "R_MvTime"
	}
	return "S_Other"
}


// ---------------------------------------------------------------- Scripts and direct tasks: SvResync / result absorbed by the server

type sentry struct {
	kind string // time refresh profile bad plain
	o    order  // time: a Task* order
	name string
}

func (e sentry) packet() *com.Packet {
	switch e.kind {
	case "time":
		switch e.o.kind {
		case "TaskDuration":
			return task.Duration(time.Duration(e.o.t), int(e.o.j))
		case "TaskKill":
			return task.KillDate(e.o.k)
		}
		return task.WorkHours(e.o.w.Days, e.o.w.StartHour, e.o.w.StartMin, e.o.w.EndHour, e.o.w.EndMin)
	case "refresh":
		return task.Refresh()
	case "profile":
		return task.Profile(proxyProfile(3))
	case "bad":
		n := &com.Packet{ID: task.MvTime}
		n.WriteUint8(0) // sleep/jitter order cut after its type byte
		return n
	case "cwd":
		return task.Cwd("/nonexistent-c12/missing-directory") // fails: no such directory
	}
	return task.Pwd()
}
func machTerm(m *msess) string {
	return fmt.Sprintf("(mkMachine %s %d %d %d %s %s %s %d %d %s)", bt(m.DevID[:]), m.System, m.PID, m.PPID, st(m.User), st(m.Version), st(m.Host), m.Elev, m.Caps, netTerm(m.Net))
}
func (e sentry) term(after *msess) string {
	switch e.kind {
	case "time":
		return "ETime " + e.o.term()
	case "refresh":
		return "ERefresh " + machTerm(after)
	case "profile":
		return "EProfile"
	case "bad", "cwd":
		return "EBad"
	}
	return "EPlain"
}
func (e sentry) desc() interface{} {
	if e.kind == "time" {
		d := e.o.desc()
		d["entry"] = e.name
		return d
	}
	return map[string]interface{}{"entry": e.name}
}

type sres struct {
	resync   []byte
	hasSync  bool
	cli, srv *msess
	err      string
	panic    bool
}

func runSync(srvM, cliM *msess, script bool, stop bool, es []sentry) (r sres) {
	defer func() {
		if x := recover(); x != nil {
			r = sres{panic: true, err: fmt.Sprint(x)}
		}
	}()
	srv, cli := srvM.build(), cliM.build()
	var n *com.Packet
	if script {
		sc := task.NewScript(stop, true)
		for _, e := range es {
			if err := sc.Add(e.packet()); err != nil {
				return sres{err: "Script.Add: " + err.Error()}
			}
		}
		var err error
		if n, err = sc.Packet(); err != nil {
			return sres{err: "Script.Packet: " + err.Error()}
		}
	} else {
		n = es[0].packet()
	}
	if _, err := srv.Task(n); err != nil {
		return sres{err: "Task: " + err.Error()}
	}
	q := c2.VerifC12PopSend(srv)
	if q == nil {
		return sres{err: "no packet queued"}
	}
	if script {
		c2.VerifC12ScriptSync(cli, q)
	} else if !c2.VerifC12ClientMux(cli, q) {
		return sres{err: "client mux refused"}
	}
	got := false
	for {
		p := c2.VerifC12PopSend(cli)
		if p == nil {
			break
		}
		switch p.ID {
		case c2.SvResync:
			r.resync, r.hasSync = append([]byte{}, p.Payload()...), true
			c2.VerifC12ReceiveSingle(srv, p)
		case c2.RvResult:
			got = true
			if p.Flags&com.FlagError != 0 {
				r.err = "task error"
			} else if !script {
				switch es[0].kind {
				case "time", "refresh", "profile":
					r.resync, r.hasSync = append([]byte{}, p.Payload()...), true
				}
			}
			c2.VerifC12Handle(srv, p)
		}
	}
	if !got {
		return sres{err: "no result queued"}
	}
	r.cli, r.srv = observe(cli, cliM), observe(srv, srvM)
	return r
}

func stripProf(p []c2.VerifC12PD) []c2.VerifC12PD {
	o := make([]c2.VerifC12PD, len(p))
	for i := range p {
		o[i] = c2.VerifC12PD{Name: p[i].Name, Addr: p[i].Addr}
	}
	return o
}
func sameDevice(a, b *msess) bool {
	return a.DevID == b.DevID && a.System == b.System && a.PID == b.PID && a.PPID == b.PPID && a.User == b.User && a.Version == b.Version &&
		a.Host == b.Host && a.Elev == b.Elev && a.Caps == b.Caps && reflect.DeepEqual(normNet(a.Net), normNet(b.Net))
}

func doSync(srvM, cliM *msess, script, stop bool, es []sentry, class string) {
	r := runSync(srvM, cliM, script, stop, es)
	hd := make([]interface{}, len(es))
	names := make([]string, len(es))
	for i := range es {
		hd[i], names[i] = es[i].desc(), es[i].name
	}
	how := "direct task"
	if script {
		how = "Script"
	}
	desc := map[string]interface{}{"sent_as": how, "stop_on_error": stop, "entries": hd, "client_before": cliM.desc(), "server_view_before": srvM.desc()}
	if r.panic {
		fail("a "+how+" panicked: "+r.err, "sync-panic-"+strings.Join(names, "+"), desc)
		return
	}
	// which entries ran and succeeded (the documented Script semantics)
	var ran []sentry
	for _, e := range es {
		if e.kind == "bad" || e.kind == "cwd" {
			if stop || !script {
				break
			}
			continue
		}
		ran = append(ran, e)
	}
	lastSync := ""
	for _, e := range ran {
		if e.kind == "time" || e.kind == "refresh" || e.kind == "profile" {
			lastSync = e.kind
		}
	}
	var term string
	switch {
	case r.err != "" && (r.cli == nil || !script):
		term = "(Err 1)"
	default:
		rs := "None"
		if r.hasSync {
			rs = "(Some " + vh.Bytes(r.resync) + ")"
		}
		term = fmt.Sprintf("(Ok (%s, %s, %s))", rs, r.cli.term(), r.srv.term())
	}
	et := make([]string, len(es))
	for i := range es {
		after := cliM
		if r.cli != nil {
			after = r.cli
		}
		et[i] = es[i].term(after)
	}
	if script {
		out.Add(fmt.Sprintf("CScript %s %s %s %s %s", vh.B(stop), srvM.term(), cliM.term(), vh.List(et), term), "script-"+class+"-last-"+lastSync, lastSync != "", desc)
	} else {
		out.Add(fmt.Sprintf("CDirect %s %s (%s) %s", srvM.term(), cliM.term(), et[0], term), "direct-"+es[0].kind, lastSync != "", desc)
	}
	if r.cli == nil {
		if !(len(es) > 0 && (es[0].kind == "bad" || es[0].kind == "cwd") && !script) {
			desc["stage"] = r.err
			fail("a "+how+" did not complete: "+r.err, "sync-incomplete-"+strings.Join(names, "+"), desc)
		}
		return
	}
	desc["client_after"], desc["server_view_after"] = r.cli.desc(), r.srv.desc()
	if lastSync == "" {
		return
	}
	key := how[:6] + "-" + strings.Join(names, "+")
	// (1) the server's view of the four settings equals the client's
	if r.srv.Jitter != r.cli.Jitter || r.srv.Sleep != r.cli.Sleep || !killMatches(r.cli.Kill, r.srv.Kill) || !workMatches(r.cli.Work, r.srv.Work) {
		fail("after a "+how+" with synchronising entries the server's view of sleep/jitter/kill date/work hours differs from the client's", "sync-view-"+key, desc)
		return
	}
	// (2) a refresh that is the last synchronising entry delivers the device details
	if lastSync == "refresh" && !sameDevice(r.srv, r.cli) {
		fail("after a "+how+" ending in a refresh the server's device details differ from the client's", "sync-identity-"+key, desc)
		return
	}
	if lastSync != "refresh" {
		for _, e := range ran {
			if e.kind == "refresh" {
				stats["refresh-followed-by-a-settings-entry-device-not-resynchronised"]++
				break
			}
		}
	}
	// (3) the last ordered in-domain value of each setting is the client's
	var wantJ, wantS *int64
	var wantK *time.Time
	var wantW *cfg.WorkHours
	for i := range ran {
		e := ran[i]
		if e.kind != "time" {
			continue
		}
		switch e.o.kind {
		case "TaskDuration":
			if e.o.j >= 0 && e.o.j <= 100 {
				wantJ = &ran[i].o.j
			} else if e.o.j != -1 {
				wantJ = nil
			}
			if e.o.t > 0 {
				wantS = &ran[i].o.t
			}
		case "TaskKill":
			wantK = &ran[i].o.k
		default:
			wantW = ran[i].o.w
		}
	}
	bad := ""
	switch {
	case wantJ != nil && int64(r.cli.Jitter) != *wantJ:
		bad = "jitter"
	case wantS != nil && r.cli.Sleep != *wantS:
		bad = "sleep"
	case wantK != nil && !killMatches(*wantK, r.cli.Kill):
		bad = "kill date"
	case wantW != nil && !workMatches(wantW, r.cli.Work):
		bad = "work hours"
	}
	if bad != "" {
		fail("the client's "+bad+" after a "+how+" is not the last ordered value", "sync-effect-"+bad+"-"+key, desc)
	}
}


// ---------------------------------------------------------------- a full in-process migration

type migRunnable struct{}

func (migRunnable) Pid() uint32    { return uint32(os.Getpid()) }
func (migRunnable) Start() error   { return nil }
func (migRunnable) Release() error { return nil }

func waitFor(d time.Duration, f func() bool) bool {
	for e := time.Now().Add(d); time.Now().Before(e); time.Sleep(5 * time.Millisecond) {
		if f() {
			return true
		}
	}
	return f()
}

type migSetup struct {
	sleep   time.Duration
	jitter  int
	kill    time.Time
	work    *cfg.WorkHours
	proxy   bool
	comment string
}

// doMigration: real Server + Listener (TCP loopback), real client (ConnectContext), settings changed on
// the client, optionally a proxy attached; then Session.MigrateProfile on the old side and LoadContext
// on the new side over the real local pipe.  The new process is emulated by giving local.UUID /
// local.Device.ID another per-process half right before the hand-off.  Afterwards the migrated client and
// the server's view (after the MvMigrate result) are compared with the old client.
func doMigration(idx int, st migSetup) {
	desc := map[string]interface{}{"history": []string{"ConnectContext (registration)", st.comment, "MigrateProfile(job) || LoadContext over the pipe", "server absorbs the MvMigrate result"}}
	setupFail := func(what string) { stats["migration-not-run: "+what]++ }
	z, err := net.Listen("tcp", "127.0.0.1:0")
	if err != nil {
		setupFail("no loopback port")
		return
	}
	addr := z.Addr().String()
	z.Close()
	srv := c2.VerifC12NewServer()
	defer srv.Close()
	lis, err := srv.Listen(fmt.Sprintf("c12mig%d", idx), addr, cfg.Static{L: com.TCP})
	if err != nil {
		setupFail("listen")
		return
	}
	defer lis.Close()
	if !waitFor(10*time.Second, func() bool { return c2.VerifC12KeysReady(srv) }) {
		setupFail("server keys")
		return
	}
	time.Sleep(50 * time.Millisecond)
	p, err := cfg.Build(cfg.Host(addr), cfg.ConnectTCP, cfg.Sleep(50*time.Millisecond), cfg.Jitter(0))
	if err != nil {
		setupFail("profile")
		return
	}
	ctx, cancel := context.WithCancel(context.Background())
	defer cancel()
	old, err := c2.VerifC12Connect(ctx, p)
	if err != nil {
		setupFail("connect")
		return
	}
	orig := old.ID
	defer func() {
		copy(local.UUID[:], orig[:])
		copy(local.Device.ID[:], orig[:])
	}()
	var ss *c2.Session
	if !waitFor(10*time.Second, func() bool { ss = srv.Session(orig); return ss != nil }) {
		setupFail("registration")
		return
	}
	time.Sleep(300 * time.Millisecond)
	// the old client's settings and proxy at the time of the hand-off
	old.SetDuration(st.sleep, st.jitter)
	old.SetKillDate(st.kill)
	if st.work != nil {
		w := *st.work
		old.SetWorkHours(&w)
	}
	if st.proxy {
		// ordered by the server (MvProxy task), so that the server's own proxy list knows it
		done := false
		if j, err := ss.Task(task.Proxy("mig", "127.0.0.1:0", proxyProfile(2+idx))); err == nil {
			done = waitFor(10*time.Second, func() bool { return j.IsDone() }) && !j.IsError()
		}
		if !done {
			setupFail("proxy task")
			return
		}
	}
	time.Sleep(120 * time.Millisecond)
	base := zeroSess(true)
	oldM := observe(old, base)
	if px := c2.VerifC12AttachedProxy(old); px != nil {
		oldM.Proxy = &c2.VerifC12Proxy{Name: px.Name, Addr: px.Addr, Profile: px.Profile, Active: true}
	}
	srvB := zeroSess(false)
	srvM := observe(ss, srvB)
	pxBefore := c2.VerifC12Proxies(ss)
	jid := uint16(0x4D00 + idx)
	job := c2.VerifC12TrackJob(ss, jid, task.MvMigrate)
	// the new process has its own per-process half of the ID
	var fresh device.ID
	copy(fresh[:], orig[:])
	for i := device.MachineIDSize + 1; i < device.IDSize; i++ {
		fresh[i] = ^orig[i]
	}
	if fresh[device.MachineIDSize] ^= 0x40; fresh[device.MachineIDSize] == 0 {
		fresh[device.MachineIDSize] = 1
	}
	copy(local.UUID[:], fresh[:])
	copy(local.Device.ID[:], fresh[:])
	pipeName := filepath.Join(os.TempDir(), fmt.Sprintf("c12mig-%d-%d-%d", os.Getpid(), idx, time.Now().UnixNano()))
	defer os.Remove(pipeName + "." + fmt.Sprintf("%X", os.Getpid()))
	type res struct {
		s   *c2.Session
		err error
	}
	ch := make(chan res, 1)
	go func() {
		defer func() {
			if x := recover(); x != nil {
				ch <- res{nil, fmt.Errorf("panic: %v", x)}
			}
		}()
		s, err := c2.VerifC12LoadContext(ctx, pipeName, 30*time.Second)
		ch <- res{s, err}
	}()
	desc["old_client"] = oldM.desc()
	desc["new_process_id_tail"] = intsOf(fresh[device.MachineIDSize:])
	desc["migrated_id_tail"] = intsOf(orig[device.MachineIDSize:])
	if _, err = old.MigrateProfile(false, pipeName, nil, jid, 30*time.Second, migRunnable{}); err != nil {
		desc["error"] = err.Error()
		fail("the migration hand-off failed on the old side: "+err.Error(), "migrate-handoff-old", desc)
		return
	}
	var ns *c2.Session
	select {
	case r := <-ch:
		if r.err != nil {
			desc["error"] = r.err.Error()
			fail("the migration hand-off failed on the new side (LoadContext): "+r.err.Error(), "migrate-handoff-new", desc)
			return
		}
		ns = r.s
	case <-time.After(40 * time.Second):
		fail("LoadContext did not return", "migrate-handoff-timeout", desc)
		return
	}
	defer ns.Close()
	if !waitFor(20*time.Second, func() bool { return job.IsDone() }) {
		fail("the server never completed the MvMigrate job", "migrate-result-missing", desc)
		return
	}
	nsM := observe(ns, base)
	srvA := observe(ss, srvB)
	var pds []c2.VerifC12PD
	if px := c2.VerifC12AttachedProxy(ns); px != nil {
		pds = []c2.VerifC12PD{*px}
	} else {
		pds = []c2.VerifC12PD{}
	}
	desc["new_client"], desc["server_view_after"] = nsM.desc(), srvA.desc()
	desc["new_client_ids"] = map[string]interface{}{"session_id_tail": intsOf(nsM.ID[device.MachineIDSize:]), "device_id_tail": intsOf(nsM.DevID[device.MachineIDSize:])}
	desc["server_ids"] = map[string]interface{}{"session_id_tail": intsOf(srvA.ID[device.MachineIDSize:]), "device_id_tail": intsOf(srvA.DevID[device.MachineIDSize:])}
	out.Add(fmt.Sprintf("CMigrate %s %s %s %s (Ok (%s, %s, %s))", oldM.term(), base.term(), machTerm(nsM), srvM.term(), nsM.term(), pdTerm(pds), srvA.term()),
		"migration-in-process", true, desc)
	out.Add(fmt.Sprintf("CServerProxies %d %s [] %s", kSyncMigrate, pdTerm(pxBefore), pdTerm(c2.VerifC12Proxies(ss))), "migration-server-proxy-list", len(pxBefore) > 0, desc)
	// oracle: identity, key material, settings and proxy list survive; the server's view equals the migrated client's
	var o [32]byte
	copy(o[:], orig[:])
	switch {
	case nsM.ID != o:
		fail("after the migration the new client's Session.ID is not the migrated ID", "migrate-identity-client-ID", desc)
	case nsM.DevID != o:
		fail("after the migration the new client's Device.ID is not the migrated ID", "migrate-identity-client-Device.ID", desc)
	case srvA.ID != o:
		fail("after the migration the server's Session.ID is not the migrated ID", "migrate-identity-server-ID", desc)
	case srvA.DevID != o:
		fail("after the migration the server's view of Device.ID is not the migrated ID", "migrate-identity-server-Device.ID", desc)
	case nsM.Pub != oldM.Pub || nsM.Priv != oldM.Priv || nsM.Share != oldM.Share:
		fail("after the migration the new client's key material differs from the old client's", "migrate-keys", desc)
	case nsM.Jitter != oldM.Jitter || nsM.Sleep != oldM.Sleep || !killMatches(oldM.Kill, nsM.Kill) || !workMatches(oldM.Work, nsM.Work):
		fail("after the migration the new client's sleep/jitter/kill date/work hours differ from the old client's", "migrate-settings-client", desc)
	case srvA.Jitter != nsM.Jitter || srvA.Sleep != nsM.Sleep || !killMatches(nsM.Kill, srvA.Kill) || !workMatches(nsM.Work, srvA.Work):
		fail("after the migration the server's view of the settings differs from the new client's", "migrate-settings-server", desc)
	case !sameDevice(srvA, nsM):
		fail("after the migration the server's device details differ from the new client's", "migrate-device-server", desc)
	case !pdEqual(stripProf(pds), c2.VerifC12Proxies(ss)):
		desc["server_proxy_list_before"], desc["server_proxy_list_after"] = fmt.Sprint(pxBefore), fmt.Sprint(c2.VerifC12Proxies(ss))
		fail("after the Migrate result was absorbed the server's proxy list is not the migrated client's (name / bind address)", "migrate-server-proxy-list", desc)
	case !pdEqual(expectProxies(kMigrate, oldM), pds):
		fail("after the migration the new client's proxy differs from the old client's (name / bind address / profile)", "migrate-proxy", desc)
	}
}


// ---------------------------------------------------------------- the migration window

func keysTerm(m *msess) string {
	return fmt.Sprintf("(mkKeys %s %s %s)", bt(m.Pub[:]), bt(m.Priv[:]), bt(m.Share[:]))
}

// doWindow: registration with the real key functions; `pre` idle exchanges with the re-key roll forced
// (rotations happen); MigrateProfile's first steps (Moving, hand-off written); `win` idle exchanges
// with the roll forced INSIDE the window; then the new process reads the hand-off.  The key material
// (and identity) it loads must be what the old client and the server hold at that moment.
func doWindow(pre, win int) {
	cM := randSess(true)
	cM.Proxy, cM.Net = nil, gnet(1, 3, 1, 1)
	svM := zeroSess(false)
	svM.ID = cM.ID
	hist := []string{"registration (keySessionGenerate / keyListenerInit / keySessionSync)"}
	desc := map[string]interface{}{"history": &hist}
	defer func() {
		if x := recover(); x != nil {
			fail(fmt.Sprintf("the migration-window scenario panicked: %v", x), "migrate-window-panic", desc)
		}
	}()
	c, sv := cM.build(), svM.build()
	if err := c2.VerifC12KeyRegister(c, sv); err != nil {
		stats["window-not-run: registration"]++
		return
	}
	c0 := observe(c, cM)
	run := func(n int, where string) (string, bool) {
		it := make([]string, 0, n)
		for i := 0; i < n; i++ {
			rot, err := c2.VerifC12IdleExchange(c, sv, 40000)
			if err != nil {
				hist = append(hist, where+": idle exchange failed: "+err.Error())
				fail("an idle exchange with a forced re-key roll failed", "migrate-window-exchange-error", desc)
				return "", false
			}
			hist = append(hist, fmt.Sprintf("%s: idle exchange, re-key roll forced: rotation started = %v", where, rot))
			it = append(it, "(true, "+keysTerm(observe(c, cM))+")")
		}
		return vh.List(it), true
	}
	preT, ok := run(pre, "before the migration")
	if !ok {
		return
	}
	c2.VerifC12SetMoving(c)
	var h com.Packet
	if err := c2.VerifC12Write(c, kMigrate, &h); err != nil {
		fail("writing the migration hand-off failed", "migrate-window-write", desc)
		return
	}
	hist = append(hist, "MigrateProfile: state Moving set, hand-off (infoMigrate) written")
	winT, ok := run(win, "in the window (hand-off written, not confirmed)")
	if !ok {
		return
	}
	cEnd, svEnd := observe(c, cM), observe(sv, svM)
	d0 := zeroSess(false)
	d := d0.build()
	if _, err := c2.VerifC12Read(d, kMigrate, &h); err != nil {
		fail("the new process cannot read the hand-off", "migrate-window-read", desc)
		return
	}
	hist = append(hist, "LoadContext: hand-off read by the new process")
	dM := observe(d, d0)
	out.Add(fmt.Sprintf("CWindow %s %s %s %s (Ok (%s, %s))", c0.term(), preT, winT, d0.term(), dM.term(), cEnd.term()),
		fmt.Sprintf("migration-window-pre%d-win%d", pre, win), pre+win > 0, map[string]interface{}{"history": hist})
	switch {
	case dM.ID != cEnd.ID:
		fail("the migrated session's ID is not the old client's", "migrate-window-identity", desc)
	case dM.Pub != cEnd.Pub || dM.Priv != cEnd.Priv || dM.Share != cEnd.Share:
		fail("the key material the migrated session loaded is not what the old client holds at confirmation (a rotation started inside the migration window)", "migrate-window-keys-client", desc)
	case dM.Share != svEnd.Share:
		fail("the migrated session's shared secret is not the server's", "migrate-window-keys-server", desc)
	case cEnd.Share != svEnd.Share:
		fail("client and server lost key agreement", "migrate-window-agreement", desc)
	}
}

// ---------------------------------------------------------------- generators

var (
	sleeps  = []int64{1, 1000000, 1 << 62, math.MaxInt64}
	sleepsX = []int64{0, -1, math.MinInt64, 30000000000}
	lens    = []int{0, 1, 255, 256, 65535, 65536}
)

func kills() []time.Time {
	return []time.Time{{}, time.Unix(1, 0), time.Unix(-1, 0), time.Unix(1790380800, 0), time.Unix(1 << 40, 0),
		time.Unix(math.MinInt64, 0), time.Unix(math.MaxInt64, 0), time.Unix(0, 0), time.Unix(0, 500000000),
		time.Unix(1790380800, 123456789), time.Unix(-62135596800, 0), time.Unix(-62135596800, 7), time.Unix(-5, 999999999)}
}
func works() []*cfg.WorkHours {
	var o []*cfg.WorkHours
	o = append(o, nil)
	nz := [5]uint8{0x3E, 9, 30, 17, 45}
	for m := 0; m < 32; m++ {
		var v [5]uint8
		for i := 0; i < 5; i++ {
			if m&(1<<i) != 0 {
				v[i] = nz[i]
			}
		}
		o = append(o, &cfg.WorkHours{Days: v[0], StartHour: v[1], StartMin: v[2], EndHour: v[3], EndMin: v[4]})
	}
	for _, d := range []uint8{126, 127, 200, 255} {
		o = append(o, &cfg.WorkHours{Days: d}, &cfg.WorkHours{Days: d, StartHour: 8})
	}
	o = append(o, &cfg.WorkHours{Days: 1, StartHour: 24}, &cfg.WorkHours{Days: 1, EndMin: 60}, &cfg.WorkHours{Days: 255, StartHour: 255, StartMin: 255, EndHour: 255, EndMin: 255},
		&cfg.WorkHours{StartHour: 23, StartMin: 59, EndHour: 23, EndMin: 59})
	return o
}
func randWork() *cfg.WorkHours {
	switch rng.Intn(4) {
	case 0:
		return nil
	case 1:
		return &cfg.WorkHours{Days: uint8(rng.Intn(256)), StartHour: uint8(rng.Intn(24)), StartMin: uint8(rng.Intn(60)), EndHour: uint8(rng.Intn(24)), EndMin: uint8(rng.Intn(60))}
	}
	w := works()
	return w[rng.Intn(len(w))]
}

func strOf(n int) string {
	if n == 0 {
		return ""
	}
	return string(gb(n, 1+rng.Intn(255), 1+rng.Intn(12)))
}
func randStr() string {
	switch rng.Intn(10) {
	case 0:
		return ""
	case 1:
		return strOf(lens[rng.Intn(4)])
	}
	return strOf(1 + rng.Intn(18))
}
func arr(n int, nonzeroFirst bool) []byte {
	a := rng.Intn(256)
	if nonzeroFirst && a == 0 {
		a = 1 + rng.Intn(255)
	}
	return gb(n, a, 1+rng.Intn(250))
}

func randNet() []device.VerifDev {
	switch rng.Intn(8) {
	case 0:
		return nil
	case 1:
		return gnet(1, rng.Intn(1<<40), rng.Intn(4), rng.Intn(3))
	case 2:
		return gnet(3, rng.Intn(1<<40), rng.Intn(4), 1+rng.Intn(3))
	}
	n := 1 + rng.Intn(3)
	o := make([]device.VerifDev, n)
	for i := range o {
		o[i] = device.VerifDev{Name: strOf(1 + rng.Intn(8)), Mac: rng.U64() >> uint(rng.Intn(64)), Addrs: make([][2]uint64, rng.Intn(3))}
		for j := range o[i].Addrs {
			if rng.Bool() {
				o[i].Addrs[j] = [2]uint64{0, 0xFFFF00000000 | uint64(uint32(rng.U64()))}
			} else {
				o[i].Addrs[j] = [2]uint64{rng.U64(), rng.U64()}
			}
		}
	}
	return o
}
func randProxy() *c2.VerifC12Proxy {
	switch rng.Intn(5) {
	case 0, 1:
		return nil
	case 2:
		return &c2.VerifC12Proxy{Name: randStr(), Addr: randStr(), Profile: []byte(randStr()), Active: false}
	}
	return &c2.VerifC12Proxy{Name: randStr(), Addr: "127.0.0.1:" + fmt.Sprint(1024+rng.Intn(60000)), Profile: []byte(strOf(rng.Intn(40))), Active: true}
}

func randSess(client bool) *msess {
	m := &msess{Client: client}
	copy(m.ID[:], arr(32, true))
	copy(m.DevID[:], arr(32, true))
	copy(m.Pub[:], arr(133, false))
	copy(m.Priv[:], arr(66, false))
	copy(m.Share[:], arr(65, false))
	m.System, m.Elev = uint8(rng.Intn(256)), uint8(rng.Intn(256))
	m.PID, m.PPID, m.Caps = uint32(rng.U64()>>uint(32+rng.Intn(32))), uint32(rng.U64()), uint32(rng.U64())
	m.User, m.Version, m.Host = randStr(), randStr(), randStr()
	m.Net = randNet()
	m.Jitter = uint8(rng.Intn(256))
	if rng.Intn(3) > 0 {
		m.Jitter = uint8(rng.Intn(101))
	}
	m.Sleep = sleeps[rng.Intn(len(sleeps))]
	switch rng.Intn(6) {
	case 0:
		m.Sleep = sleepsX[rng.Intn(len(sleepsX))]
	case 1:
		m.Sleep = int64(rng.U64())
	}
	ks := kills()
	m.Kill = ks[rng.Intn(len(ks))]
	if rng.Intn(4) == 0 {
		m.Kill = time.Unix(int64(rng.U64()>>uint(rng.Intn(40))), 0)
	}
	m.Work = randWork()
	if client {
		m.Proxy = randProxy()
	}
	return m
}

func zeroSess(client bool) *msess {
	m := &msess{Client: client}
	copy(m.ID[:], gb(32, 0, 0))
	copy(m.DevID[:], gb(32, 0, 0))
	copy(m.Pub[:], gb(133, 0, 0))
	copy(m.Priv[:], gb(66, 0, 0))
	copy(m.Share[:], gb(65, 0, 0))
	return m
}

func main() {
	fl := vh.ParseFlags()
	out = vh.NewOut("C12", fl, "From XMT Require Import Base.Prelude Model.Codec Model.DevInfo.", "case", "check",
		"client/server Sessions built without a network; settings grid (sleep 1/1e6/2^62/2^63-1 and 0/negative/random int64, jitter 0..255, kill date none/+-1/now/2^40/min/max int64/Unix 0/sub-second, "+
			"all 2^5 zero/non-zero work-hour patterns + Days 126/127/200/255 + out-of-range + random, 0/1/3/255/256 interfaces, 0/255/256 addresses, strings of 0/1/255/256/65535/65536 bytes, "+
			"proxy none/active/inactive, writer client/server/closing) x six message kinds, written by the real writeDeviceInfo into a Packet and a stream writer, read back by the real "+
			"readDeviceInfo from a Packet and through whole/1-byte/2-byte/random/key-boundary split readers with and without trailing bytes; truncations and byte changes of valid messages (model only); "+
			"server setters and task builders -> real client MvTime handler -> real handleInfoResult; histories (1..6 operations) of NewProxy / Proxy.Replace with another profile and address / Proxy.Close / re-attach, "+
			"through the Session/Proxy API and through the MvProxy task of the real client handler, on a real client Session with loopback TCP listeners, followed by each of the six kinds (the carried list is compared with "+
			"the proxy's current name, bind address and profile bytes). distinct = distinct Coq case term; non-trivial = the sender's settings differ from the receiver's previous ones "+
			"(a field that is not carried would be seen)")
	out.ShardSize = 110
	rng = vh.NewRand(fl.Seed)
	thorough := fl.Tier == "thorough"
	thoroughTier = thorough
	mul := 1
	if thorough {
		mul = 12
	}
	allKinds := []int{kHello, kMigrate, kRefresh, kSync, kProxy, kSyncMigrate}

	// ---- corpus: one plain session through every kind, with a busy receiver
	{
		s := randSess(true)
		s.Jitter, s.Sleep, s.Kill, s.Work = 37, 60000000000, time.Unix(1790380800, 0), &cfg.WorkHours{Days: 0x3E, StartHour: 9, EndHour: 17, EndMin: 30}
		s.Proxy = &c2.VerifC12Proxy{Name: "px", Addr: "127.0.0.1:8080", Profile: []byte{0xA0, 0, 1, 'x'}, Active: true}
		s.Net = gnet(3, 0x0242AC110002, 1, 2)
		r := randSess(false)
		for _, k := range allKinds {
			doKind(k, s, r, nil, "corpus", true)
			doKind(k, s, zeroSess(false), []byte{0xEE, 0, 1}, "corpus", true)
			doDamaged(k, s, r)
		}
	}

	// ---- boundary grid on the settings (kind sync carries exactly them; every other kind once per value)
	{
		base := randSess(true)
		base.Net, base.Proxy = gnet(1, 77, 1, 1), nil
		r0 := randSess(false)
		gridKinds := func(i int) []int {
			if thorough {
				return allKinds
			}
			if i%3 == 0 {
				return []int{kSync, allKinds[(i/3)%6]}
			}
			return []int{kSync}
		}
		i := 0
		for j := 0; j < 256; j++ {
			if !thorough && j > 3 && j < 250 && j%16 != 0 && (j < 99 || j > 102) && j != 50 && j != 127 && j != 128 {
				continue
			}
			s := *base
			s.Jitter = uint8(j)
			for _, k := range gridKinds(i) {
				doKind(k, &s, r0, nil, "grid-jitter", k == kSync)
			}
			i++
		}
		for _, v := range append(append([]int64{}, sleeps...), sleepsX...) {
			s := *base
			s.Sleep = v
			for _, k := range gridKinds(i) {
				doKind(k, &s, r0, nil, "grid-sleep", true)
			}
			i++
		}
		for _, v := range kills() {
			s := *base
			s.Kill = v
			for _, k := range gridKinds(i) {
				doKind(k, &s, r0, nil, "grid-kill", true)
			}
			i++
		}
		for _, v := range works() {
			s := *base
			s.Work = v
			for _, k := range gridKinds(i) {
				doKind(k, &s, r0, nil, "grid-work", true)
			}
			i++
		}
	}

	// ---- boundary grid on the device block: interfaces, addresses, string lengths
	{
		r0 := randSess(false)
		for _, n := range []int{0, 1, 3, 255, 256, 257} {
			s := randSess(true)
			s.Net = gnet(n, 1000, 1, 1)
			for _, k := range []int{kHello, kRefresh, kSyncMigrate} {
				doKind(k, s, r0, nil, fmt.Sprintf("grid-interfaces-%d", n), true)
			}
		}
		for _, n := range []int{0, 1, 255} {
			s := randSess(true)
			s.Net = gnet(2, 5, 2, n)
			doKind(kHello, s, r0, nil, fmt.Sprintf("grid-addresses-%d", n), true)
		}
		{
			s := randSess(true)
			s.Net = gnet(1, 5, 2, 3)
			s.Net[0].Addrs = make([][2]uint64, 256) // the count byte wraps to 0
			doKind(kHello, s, r0, nil, "grid-addresses-256", true)
		}
		for fi := 0; fi < 7; fi++ {
			for _, n := range lens {
				if !thorough && n >= 65535 && fi != 0 && fi != 6 {
					continue
				}
				s := randSess(true)
				s.Net = gnet(1, 9, 1, 1)
				if s.Proxy == nil || fi >= 4 {
					s.Proxy = &c2.VerifC12Proxy{Name: "p", Addr: "a:1", Profile: []byte{1, 2, 3}, Active: true}
				}
				v := strOf(n)
				ks := []int{kHello, kSyncMigrate}
				switch fi {
				case 0:
					s.User = v
				case 1:
					s.Version = v
				case 2:
					s.Host = v
				case 3:
					if n > 0 {
						s.Net[0].Name = v
					} else {
						s.Net[0].Name = ""
					}
					ks = []int{kRefresh}
				case 4:
					s.Proxy.Name = v
					ks = []int{kProxy, kHello, kMigrate}
				case 5:
					s.Proxy.Addr = v
					ks = []int{kProxy, kRefresh}
				case 6:
					s.Proxy.Profile = []byte(v)
					ks = []int{kMigrate, kHello}
				}
				for _, k := range ks {
					doKind(k, s, r0, nil, fmt.Sprintf("grid-string-%d", n), true)
				}
			}
		}
	}

	// ---- who writes the proxy list: active client / closing client / server-side session, proxy none/active/inactive
	for _, role := range []string{"client", "closing-client", "server"} {
		for _, px := range []string{"none", "active", "inactive"} {
			s := randSess(role != "server")
			s.Closing = role == "closing-client"
			switch px {
			case "none":
				s.Proxy = nil
			case "active":
				s.Proxy = &c2.VerifC12Proxy{Name: "edge", Addr: "0.0.0.0:443", Profile: []byte(strOf(12)), Active: true}
			default:
				s.Proxy = &c2.VerifC12Proxy{Name: "gone", Addr: "0.0.0.0:80", Profile: []byte{9}, Active: false}
			}
			for _, k := range allKinds {
				doKind(k, s, randSess(false), nil, "writer-"+role+"-proxy-"+px, true)
				if thorough || px == "active" {
					doKind(k, s, zeroSess(false), []byte{1, 1, 65, 1, 1, 66, 0}, "writer-"+role+"-proxy-"+px+"-trailing", true)
				}
			}
		}
	}
	// ---- identity that the reader refuses: first ID byte zero (ID.Empty())
	{
		s := randSess(true)
		s.ID[0], s.DevID[0] = 0, 0
		for _, k := range allKinds {
			doKind(k, s, randSess(false), nil, "empty-id", true)
		}
	}

	// ---- random structured sessions
	nr := 14
	if thorough {
		nr = 480
	}
	for i := 0; i < nr; i++ {
		s := randSess(rng.Intn(8) > 0)
		var r0 *msess
		if rng.Intn(4) == 0 {
			r0 = zeroSess(rng.Bool())
		} else {
			r0 = randSess(rng.Bool())
		}
		var rest []byte
		if rng.Intn(3) == 0 {
			rest = rng.Bytes(1 + rng.Intn(12))
		}
		for _, k := range allKinds {
			doKind(k, s, r0, rest, "random", true)
		}
		if (!thorough && i%2 == 0) || (thorough && i%5 == 0) {
			doDamaged(allKinds[(i/2)%6], s, r0)
		}
	}

	// ---- MvTime: orders
	{
		mk := func(synced bool) (*msess, *msess) {
			cli := randSess(true)
			if rng.Intn(5) > 0 && cli.Jitter > 100 {
				cli.Jitter = uint8(rng.Intn(101))
			}
			srv := randSess(false)
			srv.ID, srv.DevID = cli.ID, cli.DevID
			if synced {
				srv.Jitter, srv.Sleep, srv.Kill, srv.Work = cli.Jitter, cli.Sleep, cli.Kill, cli.Work
			}
			return srv, cli
		}
		js := []int64{-1, 0, 1, 50, 99, 100, 101, 127, 128, 200, 255, 256, 355, 1000, -2, -128, -129, -1000, math.MaxInt32, math.MinInt32}
		ts := []int64{0, -1, 1, 1000000, 1 << 62, math.MaxInt64, math.MinInt64, 30000000000}
		for _, j := range js {
			for ti, t := range ts {
				if !thorough && (ti+int(j&0xFFFF))%2 != 0 && !(t == 1000000 && j >= 100) {
					continue
				}
				srv, cli := mk(true)
				doOrder(srv, cli, order{kind: "SetDuration", t: t, j: j}, "grid")
				if thorough || (j+t)%3 == 0 || (t == 1000000 && j >= 100) {
					srv, cli = mk(true)
					doOrder(srv, cli, order{kind: "TaskDuration", t: t, j: j}, "grid")
				}
			}
		}
		for j := int64(-3); j <= 130; j++ {
			if !thorough && j > 3 && (j < 98 || j > 103) && j < 126 && j != 50 {
				continue
			}
			srv, cli := mk(true)
			doOrder(srv, cli, order{kind: "SetDuration", t: sleeps[rng.Intn(4)], j: j}, "jitter-sweep")
			srv, cli = mk(true)
			doOrder(srv, cli, order{kind: "TaskDuration", t: 0, j: j}, "jitter-sweep")
		}
		for _, k := range kills() {
			srv, cli := mk(true)
			doOrder(srv, cli, order{kind: "SetKill", k: k}, "grid")
			srv, cli = mk(true)
			doOrder(srv, cli, order{kind: "TaskKill", k: k}, "grid")
		}
		for _, w := range works() {
			srv, cli := mk(true)
			doOrder(srv, cli, order{kind: "SetWork", w: w}, "grid")
			if w != nil {
				srv, cli = mk(true)
				doOrder(srv, cli, order{kind: "TaskWork", w: w}, "grid")
			}
		}
		// the client's jitter outside 0..100 (cannot arise from the client's own assignments) and views out of sync
		for i := 0; i < 36*mul; i++ {
			srv, cli := mk(i%2 == 0)
			if i%3 == 0 {
				cli.Jitter = uint8(101 + rng.Intn(155))
				if i%2 == 0 {
					srv.Jitter = cli.Jitter
				}
			}
			var o order
			switch rng.Intn(6) {
			case 0:
				o = order{kind: "SetDuration", t: ts[rng.Intn(len(ts))], j: js[rng.Intn(len(js))]}
			case 1:
				o = order{kind: "TaskDuration", t: int64(rng.U64()), j: int64(rng.Intn(300)) - 20}
			case 2:
				o = order{kind: "SetKill", k: kills()[rng.Intn(len(kills()))]}
			case 3:
				o = order{kind: "TaskKill", k: time.Unix(int64(rng.U64()), 0)}
			case 4:
				o = order{kind: "SetWork", w: randWork()}
			default:
				w := randWork()
				if w == nil {
					w = &cfg.WorkHours{}
				}
				o = order{kind: "TaskWork", w: w}
			}
			doOrder(srv, cli, o, "random")
		}
	}

	// ---- histories of proxy operations on a real client Session (loopback listeners), then every kind
	{
		P := proxyProfile
		base := randSess(true)
		base.Net = gnet(1, 31, 1, 1)
		r0 := randSess(false)
		corpus := [][]popOp{
			{{kind: "attach", name: "px", addr: "127.0.0.1:0", prof: P(0)}},
			{{kind: "attach", name: "px", addr: "127.0.0.1:0", prof: P(0)}, {kind: "replace", task: true, name: "px", addr: "127.0.0.1:0", prof: P(1)}},
			{{kind: "attach", task: true, name: "edge", addr: "127.0.0.2:0", prof: P(2)}, {kind: "replace", addr: "localhost:0", prof: P(5)}, {kind: "replace", task: true, name: "edge", addr: "", prof: P(7)}},
			{{kind: "attach", name: "a", addr: "", prof: P(3)}, {kind: "close", task: true, name: "a"}, {kind: "attach", task: true, name: "b", addr: "127.0.0.2:0", prof: P(4)}},
			{{kind: "attach", name: "a", addr: "127.0.0.1:0", prof: P(3)}, {kind: "close"}, {kind: "attach", name: "b", addr: "127.0.0.1:0", prof: P(4)}, {kind: "write", k: kRefresh}, {kind: "attach", name: "c", addr: "127.0.0.2:0", prof: P(6)}},
			{{kind: "replace", task: true, name: "px", addr: "127.0.0.1:0", prof: P(1)}, {kind: "close", task: true, name: "px"}},
			{{kind: "attach", name: "px", addr: "127.0.0.1:0", prof: P(8)}, {kind: "attach", task: true, name: "other", addr: "127.0.0.2:0", prof: P(9)}, {kind: "replace", addr: "127.0.0.2:0", prof: P(8)}, {kind: "close"}},
		}
		for _, h := range corpus {
			doProxyHistory(base, r0, h, "corpus")
		}
		nh := 24
		if thorough {
			nh = 400
		}
		for i := 0; i < nh; i++ {
			doProxyHistory(randSess(true), r0, randHistory(1+rng.Intn(6)), "random")
		}
	}

	// ---- every producer: the call sites in the sources, Scripts in every ordering, direct tasks
	{
		ws, rs, sd := scanSites()
		out.Add(fmt.Sprintf("CSites %s %s", vh.List(ws), vh.List(rs)), "producer-sites", true, map[string]interface{}{"call_sites": sd})
		mk := func() (*msess, *msess) {
			cli := randSess(true)
			cli.Proxy = nil
			if cli.Jitter > 100 {
				cli.Jitter = uint8(rng.Intn(101))
			}
			srv := randSess(false)
			srv.ID = cli.ID
			return srv, cli
		}
		ks := kills()
		pool := func() []sentry {
			w := works()[1+rng.Intn(40)]
			return []sentry{
				{kind: "time", name: "Duration", o: order{kind: "TaskDuration", t: sleeps[rng.Intn(4)], j: int64(rng.Intn(101))}},
				{kind: "time", name: "Sleep", o: order{kind: "TaskDuration", t: 1 + int64(rng.Intn(1<<30)), j: -1}},
				{kind: "time", name: "Jitter", o: order{kind: "TaskDuration", t: 0, j: int64(rng.Intn(140)) - 10}},
				{kind: "time", name: "KillDate", o: order{kind: "TaskKill", k: ks[rng.Intn(len(ks))]}},
				{kind: "time", name: "WorkHours", o: order{kind: "TaskWork", w: w}},
				{kind: "refresh", name: "Refresh"},
				{kind: "profile", name: "Profile"},
				{kind: "plain", name: "Pwd"},
				{kind: "bad", name: "BrokenTime"},
			}
		}
		for i := 0; i < 9; i++ {
			srv, cli := mk()
			doSync(srv, cli, false, false, []sentry{pool()[i]}, "direct")
			srv, cli = mk()
			doSync(srv, cli, true, i%2 == 0, []sentry{pool()[i]}, "single")
		}
		for i := 0; i < 7; i++ {
			for j := 0; j < 7; j++ {
				srv, cli := mk()
				doSync(srv, cli, true, false, []sentry{pool()[i], pool()[j]}, "pair")
			}
		}
		// a failing step after / before / between the synchronising steps, stop-on-error and continue-on-error
		for i := 0; i < 7; i++ {
			fl := sentry{kind: "bad", name: "BrokenTime"}
			if i%2 == 0 {
				fl = sentry{kind: "cwd", name: "CwdMissingDir"}
			}
			for _, stop := range []bool{true, false} {
				srv, cli := mk()
				doSync(srv, cli, true, stop, []sentry{pool()[i], fl}, "fail-after")
				srv, cli = mk()
				doSync(srv, cli, true, stop, []sentry{fl, pool()[i]}, "fail-before")
				srv, cli = mk()
				doSync(srv, cli, true, stop, []sentry{pool()[i], fl, pool()[(i+3)%7]}, "fail-between")
			}
		}
		{
			srv, cli := mk()
			doSync(srv, cli, false, false, []sentry{{kind: "cwd", name: "CwdMissingDir"}}, "direct")
		}
		nt := 20
		if thorough {
			nt = 1500
		}
		for i := 0; i < nt; i++ {
			n := 2 + rng.Intn(5)
			es := make([]sentry, n)
			for k := range es {
				es[k] = pool()[rng.Intn(9)]
			}
			srv, cli := mk()
			doSync(srv, cli, true, rng.Intn(3) == 0, es, "random")
		}
	}

	// ---- full in-process migrations (real server, listener, client, pipe)
	{
		now := time.Now()
		var wh *cfg.WorkHours
		if now.Hour() < 23 {
			wh = &cfg.WorkHours{Days: 127, EndHour: 23, EndMin: 59}
		}
		sets := []migSetup{
			{sleep: 70 * time.Millisecond, jitter: 7, kill: time.Unix(now.Unix()+86400*400, 0), comment: "client: SetDuration(70ms, 7), SetKillDate(now+400d)"},
			{sleep: 45 * time.Millisecond, jitter: 0, proxy: true, work: wh, comment: "client: SetDuration(45ms, 0), SetWorkHours(all days 00:00-23:59); server: Task(task.Proxy(mig, 127.0.0.1:0, P)) completed"},
		}
		if thorough {
			for i := 0; i < 8; i++ {
				sets = append(sets, migSetup{sleep: time.Duration(40+rng.Intn(50)) * time.Millisecond, jitter: rng.Intn(30), proxy: rng.Bool(),
					kill: time.Unix(now.Unix()+int64(rng.Intn(1<<30))+3600, 0), comment: "client: random settings"})
			}
		}
		for i, st := range sets {
			doMigration(i, st)
		}
	}

	// ---- the migration window: forced re-key rolls before / after the hand-off was written
	{
		ws := [][2]int{{0, 1}, {2, 3}, {1, 0}}
		if thorough {
			for i := 0; i < 20; i++ {
				ws = append(ws, [2]int{rng.Intn(4), rng.Intn(6)})
			}
		}
		for _, w := range ws {
			doWindow(w[0], w[1])
		}
	}

	for k, v := range stats {
		out.Extra(k, v)
	}
	if n := stats["outside-domain-unreadable-hello"] + stats["outside-domain-unreadable-refresh"] + stats["outside-domain-unreadable-migrate"] + stats["outside-domain-unreadable-proxy"]; n > 0 {
		out.Note(fmt.Sprintf("observation (not a violation): %d reads of hello/refresh/migrate/proxy messages whose writer was not an active client session (or had an empty ID / 256+ interfaces) "+
			"failed: writeProxyData emits nothing, not even a zero count, unless the writer is an active client, while readProxyData always expects the count", n))
	}
	out.Finish()
}
