// C03 harness: batching of queued packets.  A Session without a network gets a generated send
// queue; the real (*Session).next is called until the queue is drained; every transmission goes
// through the real com.Packet Marshal/Unmarshal and into the real (*conn).process ->
// receive / processMultiple of a listener whose sessions share a recording mux.  The observed
// transmissions and deliveries are written as Coq cases for Model/Batch.v, and the property
// itself (delivered sequence == queued sequence minus keep-alives, each once, in order, fields
// equal) is evaluated here on the implementation (the oracle).
package main

import (
	"bytes"
	"fmt"
	"hash/crc32"
	"os"
	"runtime"
	"sort"
	"strings"
	"time"

	"github.com/iDigitalFlame/xmt/c2"
	"github.com/iDigitalFlame/xmt/com"
	"github.com/iDigitalFlame/xmt/com/limits"
	"github.com/iDigitalFlame/xmt/data"
	"github.com/iDigitalFlame/xmt/device"

	"verifharness/vh"
)

const (
	F   = limits.Frag
	NP  = limits.Packets
	HDR = com.PacketHeaderSize
)

var out *vh.Out

// rec collects what one scenario reports; it is applied to out by the main goroutine only when
// the scenario has finished in time (a stalled scenario keeps running in its goroutine)
type rec struct{ ops []func() }

func (r *rec) Add(term, class string, nt bool, desc interface{}) {
	r.ops = append(r.ops, func() { out.Add(term, class, nt, desc) })
}
func (r *rec) Fail(what, key string, c interface{}) {
	r.ops = append(r.ops, func() { out.Fail(what, key, c) })
}
func (r *rec) Count(class, key string, nt bool) {
	r.ops = append(r.ops, func() { out.Count(class, key, nt) })
}
func (r *rec) Note(s string) { r.ops = append(r.ops, func() { out.Note(s) }) }

const scenarioTimeout = 5 * time.Second

// a stalled scenario cannot be stopped (its goroutine may spin and allocate): the run goes on only
// while the heap stays small, otherwise it is closed in an orderly way with what it has
var stalled int

func heapTooBig() bool {
	var m runtime.MemStats
	runtime.ReadMemStats(&m)
	return m.HeapAlloc > 1<<30
}
func finishEarly(why string) {
	out.Note("run closed early: " + why)
	out.Finish()
	os.Exit(0)
}

// guard runs one scenario under a watchdog and a recover(): a scenario that stalls or panics is an
// oracle failure whose replay is the scenario itself (queue, sizes, seeds); the run goes on.
func guard(c qcase, kind string, body func(qcase, *rec)) {
	desc := map[string]interface{}{"scenario": kind, "own": c.Own, "inter": c.Inter, "last": c.Last, "reg": c.Reg, "class": c.Class,
		"frag": F, "packets": NP, "server_side_sender": c.Server, "oracle_only": c.OracleOnly}
	if c.Host {
		desc["receiver_hosts_proxy_for"] = c.Prox
	}
	if c.HasProxy {
		desc["proxy_tags"] = c.PTags
	}
	qd := make([]interface{}, 0, len(c.Q))
	for i := range c.Q {
		if i == 40 {
			qd = append(qd, fmt.Sprintf("... %d more (regenerate with the seed)", len(c.Q)-40))
			break
		}
		qd = append(qd, c.Q[i].desc())
	}
	desc["queue"] = qd
	if stalled > 0 && heapTooBig() {
		finishEarly(fmt.Sprintf("%d scenario(s) stalled and the stalled code keeps allocating; the remaining scenarios were not run", stalled))
	}
	r := &rec{}
	done := make(chan interface{}, 1)
	go func() {
		defer func() {
			if x := recover(); x != nil {
				done <- fmt.Sprint(x)
			}
		}()
		body(c, r)
		done <- nil
	}()
	select {
	case x := <-done:
		if x != nil {
			desc["panic"] = x
			out.Fail("a scenario panicked outside the calls it guards", "scenario-panic", desc)
			return
		}
		for _, f := range r.ops {
			f()
		}
	case <-time.After(scenarioTimeout):
		desc["timeout_s"] = int(scenarioTimeout / time.Second)
		out.Fail("a scenario did not finish: the implementation stalled (next / Marshal / receive never returned)", "scenario-stalled", desc)
		if stalled++; stalled >= 3 || heapTooBig() {
			finishEarly(fmt.Sprintf("%d scenario(s) stalled; the remaining scenarios were not run", stalled))
		}
	}
}

// ---------------------------------------------------------------- generated packets

type gp struct {
	ID    uint8
	Job   uint16
	Dev   int // 0 = empty device id
	Flags uint64
	Tags  []uint32
	Len   int
	Seed  uint64
	cid   uint32
	// a queued container (FlagMulti and/or FlagMultiDevice in Flags): the packets it holds;
	// Flags carries the count (com.Flag.SetLen), Len is computed when it is built
	Inner []gp
	cont  bool
}

// container builds a queued container for device dev holding inner; extra = further flag bits
// (FlagMultiDevice, FlagProxy, FlagChannel)
func container(dev int, extra uint64, tags []uint32, inner ...gp) gp {
	f := com.FlagMulti | com.Flag(extra)
	f.SetLen(uint16(len(inner)))
	return gp{Dev: dev, Flags: uint64(f), Tags: tags, Inner: inner, cont: true}
}

func payload(seed uint64, n int) []byte {
	b := make([]byte, n)
	s := seed*0x9E3779B97F4A7C15 + 0x7F4A7C15
	for i := 0; i < n; i += 8 {
		s += 0x9E3779B97F4A7C15
		z := s
		z = (z ^ (z >> 30)) * 0xBF58476D1CE4E5B9
		z = (z ^ (z >> 27)) * 0x94D049BB133111EB
		z ^= z >> 31
		for k := 0; k < 8 && i+k < n; k++ {
			b[i+k] = byte(z >> (8 * uint(k)))
		}
	}
	return b
}
func cidOf(b []byte) uint32 {
	if len(b) == 0 {
		return 0
	}
	return crc32.ChecksumIEEE(b)
}

func devID(d int) device.ID {
	var i device.ID
	if d == 0 {
		return i
	}
	i[0] = byte(d)
	for k := 1; k < len(i); k++ {
		i[k] = byte(d*31 + k*7 + 1)
	}
	return i
}
func devNum(i device.ID) int {
	d := int(i[0])
	if devID(d) == i {
		return d
	}
	return 999
}

func (g *gp) build() *com.Packet {
	p := &com.Packet{ID: g.ID, Job: g.Job, Device: devID(g.Dev), Flags: com.Flag(g.Flags)}
	if len(g.Tags) > 0 {
		p.Tags = append([]uint32(nil), g.Tags...)
	}
	if g.cont {
		for i := range g.Inner {
			if err := g.Inner[i].build().MarshalStream(p); err != nil {
				panic("c03: MarshalStream: " + err.Error())
			}
		}
		g.Len = p.Chunk.Size()
		return p
	}
	if g.Len > 0 {
		b := payload(g.Seed, g.Len)
		g.cid = cidOf(b)
		p.Chunk = *data.NewChunk(b)
	}
	return p
}

func tagsCoq(t []uint32) string {
	v := make([]int64, len(t))
	for i := range t {
		v[i] = int64(t[i])
	}
	return vh.ZList64(v)
}
func (g *gp) coq() string {
	if g.cont {
		in := make([]string, len(g.Inner))
		for i := range g.Inner {
			in[i] = g.Inner[i].coq()
		}
		return fmt.Sprintf("pkc %d %d %d %d %s %d %s", g.ID, g.Job, g.Dev, g.Flags, tagsCoq(g.Tags), g.Len, vh.List(in))
	}
	return fmt.Sprintf("pk %d %d %d %d %s %d %d", g.ID, g.Job, g.Dev, g.Flags, tagsCoq(g.Tags), g.Len, g.cid)
}
func (g *gp) isNop() bool {
	return !g.cont && g.ID < 2 && g.Len == 0 && (g.Flags == 0 || g.Flags == uint64(com.FlagProxy))
}
func (g *gp) group() uint16   { return uint16(g.Flags >> 16) }
func (g *gp) fragLen() uint16 { return uint16(g.Flags >> 48) }
func (g *gp) desc() map[string]interface{} {
	if g.cont {
		in := make([]interface{}, len(g.Inner))
		for i := range g.Inner {
			in[i] = g.Inner[i].desc()
		}
		return map[string]interface{}{"container": true, "dev": g.Dev, "flags": fmt.Sprintf("0x%X", g.Flags), "tags": g.Tags, "holds": in}
	}
	return map[string]interface{}{"id": g.ID, "job": g.Job, "dev": g.Dev, "flags": fmt.Sprintf("0x%X", g.Flags),
		"tags": g.Tags, "len": g.Len, "seed": g.Seed}
}

// ---------------------------------------------------------------- one delivered packet

type dlv struct {
	Sid   int
	ID    uint8
	Job   uint16
	Dev   int
	Flags uint64
	Tags  []uint32
	Len   int
	Cid   uint32
}

func (d dlv) coq() string {
	return fmt.Sprintf("dl %d %d %d %d %d %s %d %d", d.Sid, d.ID, d.Job, d.Dev, d.Flags, tagsCoq(d.Tags), d.Len, d.Cid)
}
func (d dlv) key() string {
	return fmt.Sprintf("%d/%d/%d/%d/%x/%d/%d", d.Sid, d.ID, d.Job, d.Dev, d.Flags, d.Len, d.Cid)
}

// ---------------------------------------------------------------- a case

type qcase struct {
	Own      int
	Inter    bool
	Server   bool // sender is a listener-side session (not part of the model)
	HasProxy bool
	PTags    []uint32
	Last     uint16
	Reg      []int
	Q        []gp
	Class    string
	// OracleOnly: judged by the oracle on the implementation only, no model case (queues whose
	// fragment groups COMPLETE on the receiver: reassembly is C02's model, not this one)
	OracleOnly bool
	// Host: the receiver is a client Session hosting a Proxy whose proxied clients are Prox
	// (real Proxy.accept routing); the sender is the server's side of the host
	Host bool
	Prox []int
}

func errCode(err error) int {
	switch {
	case err == nil:
		return 0
	case err == c2.ErrInvalidPacketCount:
		return 1
	case err == c2.ErrMalformedPacket:
		return 3
	}
	s := err.Error()
	if strings.Contains(s, "does not match our own device ID") || strings.Contains(s, "0x57") {
		return 2
	}
	return 9
}

func optPeek(p *com.Packet) string {
	if p == nil {
		return "None"
	}
	if p.Flags&(com.FlagMulti|com.FlagMultiDevice) != 0 {
		return fmt.Sprintf("(Some (%d,0))", p.Job) // a container: its content is the packets it holds
	}
	return fmt.Sprintf("(Some (%d,%d))", p.Job, cidOf(p.Payload()))
}

func run(c qcase) { guard(c, "session", runBody) }

func runBody(c qcase, o *rec) {
	desc := map[string]interface{}{"own": c.Own, "inter": c.Inter, "server_side_sender": c.Server, "last": c.Last,
		"reg": c.Reg, "class": c.Class, "frag": F, "packets": NP}
	if c.HasProxy {
		desc["proxy_tags"] = c.PTags
	}
	qd := make([]interface{}, len(c.Q))
	for i := range c.Q {
		qd[i] = c.Q[i].desc()
	}
	desc["queue"] = qd

	ids := make([]device.ID, len(c.Reg))
	for i, d := range c.Reg {
		ids[i] = devID(d)
	}
	w := c2.C03NewWorld(ids)
	var host *c2.C03Host
	if c.Host {
		pi := make([]device.ID, len(c.Prox))
		for i, d := range c.Prox {
			pi[i] = devID(d)
		}
		host = c2.C03NewHost(devID(c.Own), pi)
		w = host.World()
		desc["receiver_hosts_proxy_for"] = c.Prox
	}
	s := c2.C03NewSender(devID(c.Own), c.Server)
	if c.Last != 0 {
		c2.C03SetLast(s, c.Last)
	}
	for i := range c.Q {
		if !c2.C03Push(s, c.Q[i].build()) {
			panic("c03: queue full")
		}
	}
	var (
		obs      []string
		mux      []dlv // every mux event, in order
		frags    []dlv // every stored fragment, per (sid, group) in arrival order
		seen     = map[*com.Packet]bool{}
		panicked = false
		trans    = 0
		lenzero  = false
		anyErr   = 0
	)
	for iter := 0; ; iter++ {
		if iter > 2*len(c.Q)+4 {
			o.Fail("next() does not drain the queue", "no-progress", desc)
			return
		}
		if c.HasProxy {
			c2.C03SetProxyTags(s, c.PTags)
		}
		var n *com.Packet
		func() {
			defer func() {
				if x := recover(); x != nil {
					panicked = true
					desc["panic"] = fmt.Sprint(x)
				}
			}()
			n = c2.C03Next(s, c.Inter)
		}()
		if panicked {
			o.Fail("next() panicked", "next-panic", desc)
			return
		}
		if n == nil {
			break
		}
		trans++
		var (
			fl    = uint64(n.Flags)
			multi = n.Flags&com.FlagMulti != 0
			plen  = n.Chunk.Size()
			size  = n.Size()
			cid   = uint32(0)
			tags  = append([]uint32(nil), n.Tags...)
			id    = n.ID
			job   = n.Job
			dev   = devNum(n.Device)
		)
		if !multi {
			cid = cidOf(n.Payload())
		}
		if multi && n.Flags.Len() == 0 {
			lenzero = true
		}
		peek, qlen := optPeek(c2.C03Peek(s)), c2.C03QLen(s)
		// the wire: real Marshal / Unmarshal
		var (
			buf bytes.Buffer
			r   com.Packet
		)
		if err := n.Marshal(&buf); err != nil {
			desc["marshal_error"] = err.Error()
			o.Fail("Marshal of a transmission failed", "marshal", desc)
			return
		}
		if err := r.Unmarshal(&buf); err != nil {
			desc["unmarshal_error"] = err.Error()
			o.Fail("Unmarshal of a transmission failed", "unmarshal", desc)
			return
		}
		if r.ID != id || r.Job != job || uint64(r.Flags) != fl || r.Device != devID(dev) || r.Chunk.Size() != plen || len(r.Tags) != len(tags) {
			o.Fail("a transmission changed on the wire", "wire", desc)
			return
		}
		e0 := len(w.Events)
		var perr error
		func() {
			defer func() {
				if x := recover(); x != nil {
					panicked = true
					desc["panic"] = fmt.Sprint(x)
				}
			}()
			if host != nil {
				perr = host.Receive(&r)
			} else {
				perr = w.C03Process(devID(c.Own), &r)
			}
		}()
		if panicked {
			o.Fail("the receiving side panicked", "recv-panic", desc)
			return
		}
		ec := errCode(perr)
		if ec != 0 {
			anyErr++
		}
		dm, df := collect(o, desc, w, e0, seen)
		if host != nil {
			// what landed in the queue of each proxied client, in order
			for k, d := range c.Prox {
				for _, q := range host.Queued(k) {
					e := dlv{Sid: d, ID: q.ID, Job: q.Job, Dev: devNum(q.Device), Flags: uint64(q.Flags),
						Tags: append([]uint32(nil), q.Tags...), Len: q.Chunk.Size()}
					if q.Flags&(com.FlagMulti|com.FlagMultiDevice) == 0 {
						e.Cid = cidOf(q.Payload())
					}
					dm = append(dm, e)
				}
			}
		}
		mux = append(mux, dm...)
		frags = append(frags, df...)
		ds := make([]string, len(dm))
		for i := range dm {
			ds[i] = dm[i].coq()
		}
		fs := make([]string, len(df))
		for i := range df {
			fs[i] = df[i].coq()
		}
		obs = append(obs, fmt.Sprintf("ob %d %d %d %d %s %d %d %d %s %d %s %s %d", id, job, dev, fl, tagsCoq(tags), plen, size, cid,
			peek, qlen, vh.List(ds), vh.List(fs), ec))
		if c2.C03Peek(s) == nil && c2.C03QLen(s) == 0 {
			break
		}
	}
	if c2.C03Last(s) != 0 && trans > 0 {
		desc["last_after"] = c2.C03Last(s)
	}
	desc["transmissions"] = trans

	// ---- the Coq case
	qs := make([]string, len(c.Q))
	for i := range c.Q {
		qs[i] = c.Q[i].coq()
	}
	pt := "None"
	if c.HasProxy {
		pt = vh.Some(tagsCoq(c.PTags))
	}
	reg := make([]int64, len(c.Reg))
	for i, d := range c.Reg {
		reg[i] = int64(d)
	}
	term := fmt.Sprintf("CDrain (mkConf %d %d %d %s %s) %s %d %s %s", F, NP, c.Own, vh.B(c.Inter), pt, vh.ZList64(reg), c.Last,
		vh.List(qs), vh.List(obs))
	if c.Host {
		px := make([]int64, len(c.Prox))
		for i, d := range c.Prox {
			px[i] = int64(d)
		}
		term = fmt.Sprintf("CHost (mkConf %d %d %d %s %s) %s %d %s %s", F, NP, c.Own, vh.B(c.Inter), pt, vh.ZList64(px), c.Last,
			vh.List(qs), vh.List(obs))
	}
	nontrivial := false
	for i := range c.Q {
		if !c.Q[i].isNop() {
			nontrivial = true
		}
	}
	// keep the replay description small
	if len(qd) > 40 {
		desc["queue"] = append(qd[:40:40], fmt.Sprintf("... %d more (regenerate with the seed)", len(qd)-40))
	}
	if c.OracleOnly {
		o.Count(c.Class, term, nontrivial && len(c.Q) >= 2)
	} else {
		o.Add(term, c.Class, nontrivial && len(c.Q) >= 2, desc)
	}
	if lenzero {
		o.Note("observation (not a violation): a queue of only keep-alives (>= 2) produced a Multi container with Len 0; the peer rejects it with ErrInvalidPacketCount; the delivered sequence (empty) is as specified")
	}

	oracle(o, c, desc, mux, frags)
}

// collect returns the mux events since e0 and the packets newly stored in fragment tables.
func collect(o *rec, desc map[string]interface{}, w *c2.C03World, e0 int, seen map[*com.Packet]bool) ([]dlv, []dlv) {
	var dm, df []dlv
	for k, e := range w.Events[e0:] {
		// the view of the (asynchronous) mux consumer: the Packet as it is once receive() has returned
		d := dlv{Sid: devNum(e.Sid), ID: e.P.ID, Job: e.P.Job, Dev: devNum(e.P.Device), Flags: uint64(e.P.Flags),
			Tags: append([]uint32(nil), e.P.Tags...), Len: len(e.P.Payload()), Cid: cidOf(e.P.Payload())}
		// ... against what was handed over at the moment it was queued
		q := dlv{Sid: devNum(e.Sid), ID: e.ID, Job: e.Job, Dev: devNum(e.Device), Flags: uint64(e.Flags), Tags: e.Tags,
			Len: len(e.Payload), Cid: cidOf(e.Payload)}
		if d.key() != q.key() {
			desc["event_index"] = k
			desc["queued_as"] = q
			desc["consumer_sees"] = d
			o.Fail("a packet handed to the handlers changed before the (asynchronous) consumer looked at it: the consumer sees another packet", "event-aliased", desc)
		}
		dm = append(dm, d)
	}
	fr := w.C03Frags()
	sort.Slice(fr, func(a, b int) bool {
		if x, y := devNum(fr[a].Sid), devNum(fr[b].Sid); x != y {
			return x < y
		}
		if fr[a].Group != fr[b].Group {
			return fr[a].Group < fr[b].Group
		}
		return fr[a].Index < fr[b].Index
	})
	for _, f := range fr {
		if seen[f.P] {
			continue
		}
		seen[f.P] = true
		df = append(df, dlv{Sid: devNum(f.Sid), ID: f.P.ID, Job: f.P.Job, Dev: devNum(f.P.Device), Flags: uint64(f.P.Flags),
			Tags: append([]uint32(nil), f.P.Tags...), Len: f.P.Chunk.Size(), Cid: cidOf(f.P.Payload())})
	}
	return dm, df
}

// oracle evaluates the property itself on what the implementation delivered.
func oracle(o *rec, c qcase, desc map[string]interface{}, mux, frags []dlv) {
	// queued containers are opened: the peer's handlers must see the packets they hold
	{
		var flat []gp
		for i := range c.Q {
			if c.Q[i].cont {
				flat = append(flat, c.Q[i].Inner...)
			} else {
				flat = append(flat, c.Q[i])
			}
		}
		c.Q = flat
	}
	// ---- the oracle: the property on the implementation
	// expected: the queued packets, device filled in, keep-alives removed; restricted to what
	// the mux / fragment tables can show (ID >= MvRefresh).
	type exp struct {
		d         dlv
		abandoned bool // the peer asked to abandon this packet's group: it may be missing
		stored    bool
	}
	var em, ef []exp
	// fragment groups that are queued completely (positions 0..total-1, in order): the peer
	// reassembles them and its handlers see ONE packet when the last fragment arrives
	type grp struct{ idx []int }
	groups := map[string]*grp{}
	for i := range c.Q {
		g := &c.Q[i]
		if g.Flags&uint64(com.FlagFrag) != 0 && g.fragLen() >= 2 && g.ID >= 7 {
			d := g.Dev
			if d == 0 {
				d = c.Own
			}
			k := fmt.Sprintf("%d/%d", d, g.group())
			if groups[k] == nil {
				groups[k] = &grp{}
			}
			groups[k].idx = append(groups[k].idx, i)
		}
	}
	completeAt := map[int]exp{} // index of the completing fragment -> the reassembled packet
	member := map[int]bool{}
	completeKey := map[string]bool{}
	for k, gr := range groups {
		first := &c.Q[gr.idx[0]]
		if len(gr.idx) != int(first.fragLen()) {
			continue
		}
		// any arrival order with position 0 first (the peer drops a group that starts otherwise)
		ok := uint16(first.Flags>>32) == 0
		byPos := make([]*gp, len(gr.idx))
		for _, i := range gr.idx {
			q := &c.Q[i]
			pos := int(uint16(q.Flags >> 32))
			if pos >= len(byPos) || byPos[pos] != nil || q.ID != first.ID || q.Job != first.Job || q.fragLen() != first.fragLen() {
				ok = false
				break
			}
			byPos[pos] = q
		}
		var data []byte
		fl := uint64(0)
		if ok {
			for _, q := range byPos {
				if q.Len > 0 {
					data = append(data, payload(q.Seed, q.Len)...)
					fl |= uint64(uint16(q.Flags))
				}
			}
		}
		if !ok || len(data) == 0 {
			continue
		}
		d := first.Dev
		if d == 0 {
			d = c.Own
		}
		for _, i := range gr.idx {
			member[i] = true
		}
		completeKey[k] = true
		completeAt[gr.idx[len(gr.idx)-1]] = exp{d: dlv{Sid: d, ID: first.ID, Job: first.Job, Dev: d,
			Flags: uint64(uint16(fl)) ^ uint64(com.FlagFrag), Len: len(data), Cid: cidOf(data)}}
	}
	for i := range c.Q {
		g := &c.Q[i]
		if e, ok := completeAt[i]; ok {
			em = append(em, e)
			continue
		}
		if member[i] {
			continue
		}
		if g.isNop() || g.ID < 7 {
			continue
		}
		d := g.Dev
		if d == 0 {
			d = c.Own
		}
		e := exp{d: dlv{Sid: d, ID: g.ID, Job: g.Job, Dev: d, Flags: g.Flags, Len: g.Len, Cid: g.cid}}
		frag := g.Flags&uint64(com.FlagFrag) != 0
		e.abandoned = c.Last != 0 && g.group() == c.Last
		if frag && g.fragLen() == 1 {
			// a group of one fragment is complete: the peer clears the fragment fields (com.Flag.Clear)
			e.d.Flags = uint64(uint16(g.Flags)) ^ uint64(com.FlagFrag)
			frag = false
		}
		if frag {
			e.stored = true
			ef = append(ef, e)
		} else {
			em = append(em, e)
		}
	}
	if c.Host {
		// routing by device: compare per destination (the host's handlers, then each proxied client's queue)
		key := func(sid int) int {
			if sid == c.Own {
				return -1
			}
			return sid
		}
		sort.SliceStable(em, func(a, b int) bool { return key(em[a].d.Sid) < key(em[b].d.Sid) })
		sort.SliceStable(mux, func(a, b int) bool { return key(mux[a].Sid) < key(mux[b].Sid) })
	}
	// mux-visible packets: delivered must be a subsequence of expected; what is missing must be abandonable
	j := 0
	for _, d := range mux {
		for j < len(em) && em[j].d.key() != d.key() {
			if !em[j].abandoned {
				desc["missing_or_misplaced"] = em[j].d
				desc["delivered"] = d
				o.Fail("a queued packet was lost, changed or reordered (delivered sequence is not the queued sequence)", "lost-or-reordered", desc)
				return
			}
			j++
		}
		if j == len(em) {
			desc["unexpected"] = d
			o.Fail("the peer observed a packet that was not queued (or observed it twice)", "duplicate-or-alien", desc)
			return
		}
		j++
	}
	for ; j < len(em); j++ {
		if !em[j].abandoned {
			desc["missing"] = em[j].d
			o.Fail("a queued packet was never delivered although the queue drained", "lost", desc)
			return
		}
	}
	// stored fragments: same test per (session, group); frags is already in per-group arrival order
	by := map[string][]dlv{}
	for _, d := range frags {
		k := fmt.Sprintf("%d/%d", d.Sid, uint16(d.Flags>>16))
		by[k] = append(by[k], d)
	}
	eby := map[string][]exp{}
	var order []string
	for _, e := range ef {
		k := fmt.Sprintf("%d/%d", e.d.Sid, uint16(e.d.Flags>>16))
		if _, ok := eby[k]; !ok {
			order = append(order, k)
		}
		eby[k] = append(eby[k], e)
	}
	for k := range by {
		if completeKey[k] {
			continue // seen stored before the group completed
		}
		if _, ok := eby[k]; !ok {
			desc["unexpected_group"] = k
			o.Fail("the peer stored a fragment that was not queued", "duplicate-or-alien", desc)
			return
		}
	}
	for _, k := range order {
		got, want := by[k], eby[k]
		j := 0
		for _, d := range got {
			for j < len(want) && want[j].d.key() != d.key() {
				if !want[j].abandoned {
					desc["missing_or_misplaced"] = want[j].d
					o.Fail("a queued fragment was lost, changed or reordered", "lost-or-reordered", desc)
					return
				}
				j++
			}
			if j == len(want) {
				desc["unexpected"] = d
				o.Fail("the peer stored a fragment that was not queued (or stored it twice)", "duplicate-or-alien", desc)
				return
			}
			j++
		}
		for ; j < len(want); j++ {
			if !want[j].abandoned {
				desc["missing"] = want[j].d
				o.Fail("a queued fragment was never delivered although the queue drained", "lost", desc)
				return
			}
		}
	}
}

// ---------------------------------------------------------------- the proxy's queue for one client

const pcExtra = 2 // polls after the queue has drained: they may only yield keep-alives

// runPC drives the real proxyClient.next (c2/proxy.go): the queue a Proxy holds for one of its
// clients, polled by that client until nothing is pending plus pcExtra more polls; every
// transmission goes over the wire (Marshal, Clear as writePacket does, Unmarshal) into the real
// receive(s, nil, n) of the client's Session.
func runPC(c qcase) { guard(c, "proxy-client", runPCBody) }

func runPCBody(c qcase, o *rec) {
	desc := map[string]interface{}{"own": c.Own, "inter": c.Inter, "proxy_client_queue": true, "class": c.Class,
		"frag": F, "packets": NP, "extra_polls": pcExtra}
	qd := make([]interface{}, len(c.Q))
	for i := range c.Q {
		qd[i] = c.Q[i].desc()
	}
	desc["queue"] = qd
	w := c2.C03NewWorld([]device.ID{devID(c.Own)})
	pc := c2.C03NewPC(devID(c.Own))
	for i := range c.Q {
		if !pc.Push(c.Q[i].build()) {
			panic("c03: queue full")
		}
	}
	var (
		obs        []string
		mux, frags []dlv
		seen       = map[*com.Packet]bool{}
		panicked   = false
		extra      = -1 // >= 0: number of extra polls still to do
		polls      = 0
	)
	for iter := 0; ; iter++ {
		if iter > 2*len(c.Q)+4+pcExtra {
			desc["polls"] = polls
			oracle(o, c, desc, mux, frags) // what was delivered so far: duplicates show up here
			o.Fail("proxyClient.next() does not drain the queue (something stays pending)", "pc-no-progress", desc)
			return
		}
		var n *com.Packet
		func() {
			defer func() {
				if x := recover(); x != nil {
					panicked = true
					desc["panic"] = fmt.Sprint(x)
				}
			}()
			n = pc.Next(c.Inter)
		}()
		if panicked {
			o.Fail("proxyClient.next() panicked", "pc-next-panic", desc)
			return
		}
		if n == nil {
			break
		}
		polls++
		var (
			fl    = uint64(n.Flags)
			multi = n.Flags&com.FlagMulti != 0
			plen  = n.Chunk.Size()
			size  = n.Size()
			cid   = uint32(0)
			tags  = append([]uint32(nil), n.Tags...)
			id    = n.ID
			job   = n.Job
			dev   = devNum(n.Device)
		)
		if !multi {
			cid = cidOf(n.Payload())
		}
		peek, qlen := optPeek(pc.Peek()), pc.QLen()
		var (
			buf bytes.Buffer
			r   com.Packet
		)
		if err := n.Marshal(&buf); err != nil {
			desc["marshal_error"] = err.Error()
			o.Fail("Marshal of a transmission failed", "marshal", desc)
			return
		}
		n.Clear() // writePacket clears what it has sent
		if err := r.Unmarshal(&buf); err != nil {
			desc["unmarshal_error"] = err.Error()
			o.Fail("Unmarshal of a transmission failed", "unmarshal", desc)
			return
		}
		e0 := len(w.Events)
		var perr error
		func() {
			defer func() {
				if x := recover(); x != nil {
					panicked = true
					desc["panic"] = fmt.Sprint(x)
				}
			}()
			perr = w.C03ClientReceive(devID(c.Own), &r)
		}()
		if panicked {
			o.Fail("the receiving client panicked", "pc-recv-panic", desc)
			return
		}
		dm, df := collect(o, desc, w, e0, seen)
		mux = append(mux, dm...)
		frags = append(frags, df...)
		ds := make([]string, len(dm))
		for i := range dm {
			ds[i] = dm[i].coq()
		}
		fs := make([]string, len(df))
		for i := range df {
			fs[i] = df[i].coq()
		}
		obs = append(obs, fmt.Sprintf("ob %d %d %d %d %s %d %d %d %s %d %s %s %d", id, job, dev, fl, tagsCoq(tags), plen, size, cid,
			peek, qlen, vh.List(ds), vh.List(fs), errCode(perr)))
		if extra < 0 && pc.Peek() == nil && pc.QLen() == 0 {
			extra = pcExtra
		}
		if extra == 0 {
			break
		}
		if extra > 0 {
			extra--
		}
	}
	desc["polls"] = polls
	qs := make([]string, len(c.Q))
	for i := range c.Q {
		qs[i] = c.Q[i].coq()
	}
	term := fmt.Sprintf("CProxy (mkConf %d %d %d %s None) %d %s %s", F, NP, c.Own, vh.B(c.Inter), pcExtra, vh.List(qs), vh.List(obs))
	nontrivial := false
	for i := range c.Q {
		if !c.Q[i].isNop() {
			nontrivial = true
		}
	}
	if len(qd) > 40 {
		desc["queue"] = append(qd[:40:40], fmt.Sprintf("... %d more (regenerate with the seed)", len(qd)-40))
	}
	o.Add(term, c.Class, nontrivial && len(c.Q) >= 2, desc)
	oracle(o, c, desc, mux, frags)
}

// ---------------------------------------------------------------- hand-over of a queue (oracle-only)

// runHandOver: npre packets are queued for device 2; its queue is handed over to the connection of
// its host (Listener.clientSet / Proxy.clientSet: the host's connection switched to Channel mode with
// a tag naming the device); the rest of c.Q is queued afterwards.  What the host's queue then holds
// must be the queued sequence, each once, in order, and nothing may be stranded behind.
func runHandOver(proxy bool, npre int, q []gp) {
	class := "handover-listener"
	if proxy {
		class = "handover-proxy"
	}
	c := qcase{Own: 1, Reg: []int{1, 2}, Q: q, Class: class, OracleOnly: true}
	guard(c, class, func(c qcase, o *rec) {
		desc := map[string]interface{}{"scenario": class, "queued_before_hand_over": npre, "queued_after": len(c.Q) - npre, "device": 2, "host": 1}
		qd := make([]interface{}, len(c.Q))
		pk := make([]*com.Packet, len(c.Q))
		for i := range c.Q {
			pk[i] = c.Q[i].build()
			qd[i] = c.Q[i].desc()
		}
		desc["queue"] = qd
		var red, str []*com.Packet
		if proxy {
			h := c2.C03NewHost(devID(1), []device.ID{devID(2), devID(3)})
			red, str = h.C03ProxyHandOver(0, 1, pk[:npre], pk[npre:])
		} else {
			w := c2.C03NewWorld([]device.ID{devID(1), devID(2)})
			red, str = w.C03ListenerHandOver(devID(2), devID(1), pk[:npre], pk[npre:])
		}
		o.Count(class, fmt.Sprintf("%d/%d", npre, len(c.Q)-npre), len(c.Q) >= 2)
		got := make([]string, len(red))
		for i, n := range red {
			got[i] = fmt.Sprintf("%d/%d/%d", n.ID, n.Job, cidOf(n.Payload()))
		}
		want := make([]string, len(c.Q))
		for i := range c.Q {
			want[i] = fmt.Sprintf("%d/%d/%d", c.Q[i].ID, c.Q[i].Job, c.Q[i].cid)
		}
		desc["host_queue_holds"] = got
		desc["stranded"] = len(str)
		if len(str) > 0 {
			o.Fail("packets queued before a hand-over stay behind on the device's own queue (later packets overtake them)", "handover-stranded", desc)
			return
		}
		if strings.Join(got, " ") != strings.Join(want, " ") {
			o.Fail("after a hand-over the host's queue does not hold the queued sequence, each once, in order", "handover-order", desc)
		}
	})
}

// ---------------------------------------------------------------- generators

type gen struct {
	r   *vh.Rand
	job uint16
}

func (g *gen) nextJob() uint16 {
	g.job++
	if g.job == 0 {
		g.job = 1
	}
	return g.job
}

// payload length such that Size() == sz for a packet with t tags (sz > HDR+1)
func lenForSize(sz, t int) int {
	for _, pre := range []int{1, 2, 4, 8} {
		l := sz - HDR - 4*t - pre
		if l <= 0 {
			continue
		}
		p := com.Packet{Chunk: *data.NewChunk(make([]byte, l))}
		p.Tags = make([]uint32, t)
		if p.Size() == sz {
			return l
		}
	}
	return 1
}

var sizeSet = []string{"0", "1", "1k", "F/3", "F/2", "F-1", "F"}

func (g *gen) sizeOf(kind string, t int) int {
	switch kind {
	case "0":
		return 0
	case "1":
		return 1
	case "1k":
		return 1024
	case "F/3":
		return F / 3
	case "F/2":
		return lenForSize(F/2, t) // two of them fill the budget exactly
	case "F-1":
		return lenForSize(F-1, t)
	case "F":
		return lenForSize(F, t)
	case "F+1":
		return lenForSize(F+1, t)
	}
	return g.r.Intn(300)
}

func (g *gen) tags() []uint32 {
	if g.r.Intn(5) != 0 {
		return nil
	}
	n := 1 + g.r.Intn(3)
	t := make([]uint32, n)
	for i := range t {
		if g.r.Intn(3) == 0 {
			t[i] = uint32(1 + g.r.Intn(4)) // collisions on purpose
		} else {
			t[i] = uint32(g.r.U64()) | 1
		}
	}
	return t
}

var dataFlags = []uint64{0, 0, 0, 0, uint64(com.FlagProxy), uint64(com.FlagError), uint64(com.FlagChannel), uint64(com.FlagChannelEnd),
	uint64(com.FlagProxy | com.FlagError), 1 << 9, 1 << 15, uint64(com.FlagChannel | com.FlagError),
	uint64(com.FlagCrypt), uint64(com.FlagCrypt | com.FlagError)}

func (g *gen) dev(own int, foreign []int, pOwn, pEmpty int) int {
	x := g.r.Intn(100)
	switch {
	case x < pOwn || len(foreign) == 0:
		return own
	case x < pOwn+pEmpty:
		return 0
	}
	return foreign[g.r.Intn(len(foreign))]
}

func (g *gen) nop(own int, foreign []int) gp {
	p := gp{ID: uint8(g.r.Intn(2)), Dev: g.dev(own, foreign, 60, 15)}
	if g.r.Intn(4) == 0 {
		p.Flags = uint64(com.FlagProxy)
	}
	if g.r.Intn(6) == 0 {
		p.Tags = g.tags()
	}
	return p
}

func (g *gen) dataPkt(own int, foreign []int, sizes []string) gp {
	p := gp{ID: uint8(7 + g.r.Intn(249)), Job: g.nextJob(), Dev: g.dev(own, foreign, 60, 10), Flags: dataFlags[g.r.Intn(len(dataFlags))],
		Tags: g.tags(), Seed: g.r.U64()}
	p.Len = g.sizeOf(sizes[g.r.Intn(len(sizes))], len(p.Tags))
	if p.Flags&uint64(com.FlagCrypt) != 0 {
		// key material: the payload of such a packet belongs to the peer's key machinery
		// (Listener.notify -> keyCryptAndUpdate reads it), not to the handlers: empty here
		p.Len = 0
	}
	return p
}

// a run of k fragments (positions 0..k-1) of a group that has more than k fragments
func (g *gen) fragRun(dev int, group uint16, k int, sizes []string) []gp {
	id, job, total := uint8(7+g.r.Intn(249)), g.nextJob(), k+1+g.r.Intn(3)
	base := dataFlags[g.r.Intn(len(dataFlags))] &^ uint64(com.FlagChannel|com.FlagChannelEnd|com.FlagCrypt)
	r := make([]gp, k)
	for i := range r {
		var f com.Flag = com.Flag(base)
		f.SetGroup(group)
		f.SetLen(uint16(total))
		f.SetPosition(uint16(i))
		r[i] = gp{ID: id, Job: job, Dev: dev, Flags: uint64(f), Seed: g.r.U64()}
		r[i].Len = g.sizeOf(sizes[g.r.Intn(len(sizes))], 0)
		if r[i].Len == 0 {
			r[i].Len = 1 + g.r.Intn(64) // empty fragments are counted, not stored (C02)
		}
	}
	return r
}

func regOf(own int, foreign []int) []int { return append([]int{own}, foreign...) }

func main() {
	fl := vh.ParseFlags()
	out = vh.NewOut("C03", fl, "From XMT Require Import Base.Prelude Model.Batch.", "case", "check",
		"one case = one send queue (0..127 packets: keep-alives in every position, own / empty / foreign device ids, payload sizes "+
			"{0,1,1 KiB,F/3,F/2,F-1,F by Size()}, tags, fragment runs, abandoned group in state.Last, proxy tags) drained by the real next(); "+
			"every transmission is marshalled, unmarshalled and processed by the real conn.process/receive/processMultiple; "+
			"distinct = distinct Coq case term; non-trivial = at least two queued packets, at least one of them not a keep-alive")
	out.ShardSize = 24
	out.Extra("frag", F)
	out.Extra("packets", NP)
	g := &gen{r: vh.NewRand(fl.Seed)}
	thorough := fl.Tier == "thorough"

	mk := func(id uint8, dev int, flags uint64, n int) gp {
		return gp{ID: id, Job: g.nextJob(), Dev: dev, Flags: flags, Len: n, Seed: g.r.U64()}
	}
	nopOf := func(dev int) gp { return gp{Dev: dev} }
	add := func(class string, own int, foreign []int, inter bool, last uint16, q ...gp) {
		run(qcase{Own: own, Inter: inter, Server: g.r.Bool(), Last: last, Reg: regOf(own, foreign), Q: q, Class: class})
	}

	// ---- corpus
	add("corpus-empty", 1, nil, false, 0)
	add("corpus-empty", 1, nil, true, 0)
	add("corpus-empty", 3, nil, false, 9)
	add("corpus-single", 1, nil, false, 0, mk(7, 1, 0, 10))
	add("corpus-single", 1, nil, true, 0, mk(7, 0, 0, 10))
	add("corpus-single", 1, []int{2}, false, 0, mk(7, 2, 0, 10))
	add("corpus-single", 1, []int{2}, false, 0, nopOf(1))
	add("corpus-single", 1, []int{2}, false, 0, nopOf(2))
	// the known observation: only keep-alives, at least two
	add("corpus-all-keepalive", 1, nil, false, 0, nopOf(1), nopOf(1))
	add("corpus-all-keepalive", 1, nil, false, 0, nopOf(1), nopOf(0), nopOf(1), gp{ID: 1, Dev: 1, Flags: 4})
	add("corpus-all-keepalive", 1, []int{2}, false, 0, nopOf(2), nopOf(2))
	add("corpus-all-keepalive", 1, []int{2}, false, 0, nopOf(1), nopOf(2))
	// unwrap: exactly one own packet among keep-alives
	add("corpus-unwrap", 1, nil, false, 0, nopOf(1), mk(9, 1, 0, 100))
	add("corpus-unwrap", 1, nil, false, 0, mk(9, 1, 0, 100), nopOf(1))
	add("corpus-unwrap", 1, nil, false, 0, nopOf(1), mk(9, 0, 16, 0), nopOf(0), nopOf(1))
	add("corpus-unwrap", 1, []int{2}, false, 0, nopOf(1), mk(9, 2, 0, 100), nopOf(1))
	add("corpus-unwrap", 1, nil, false, 0, nopOf(1), gp{ID: 9, Job: 77, Dev: 1, Tags: []uint32{5, 6}, Len: 3, Seed: 4})
	// two and more
	add("corpus-small", 1, nil, false, 0, mk(7, 1, 0, 1), mk(8, 1, 0, 2))
	add("corpus-small", 1, []int{2}, false, 0, mk(7, 1, 0, 1), mk(8, 2, 0, 2), mk(9, 1, 0, 3))
	add("corpus-small", 1, []int{2}, false, 0, mk(7, 2, 0, 1), mk(8, 1, 0, 2))
	add("corpus-small", 1, []int{2, 3}, false, 0, mk(7, 1, 0, 1), nopOf(2), mk(8, 3, 0, 2), nopOf(2), nopOf(1), mk(9, 1, 0, 0))
	add("corpus-small", 1, []int{2}, false, 0, nopOf(2), mk(7, 1, 0, 1), nopOf(2))
	// count budget
	for _, n := range []int{NP - 1, NP, NP + 1, 2 * NP, 2*NP + 1, 127} {
		if n > 127 {
			n = 127
		}
		q := make([]gp, n)
		for i := range q {
			q[i] = mk(uint8(7+i%200), 1, 0, i%5)
		}
		add("corpus-count-budget", 1, nil, false, 0, q...)
		// keep-alives consume iterations of the loop as well
		q2 := make([]gp, n)
		for i := range q2 {
			if i%3 == 1 {
				q2[i] = nopOf(1)
			} else {
				q2[i] = mk(uint8(7+i%200), 1, 0, i%5)
			}
		}
		add("corpus-count-budget", 1, nil, false, 0, q2...)
	}
	// size budget: exactly full, one over
	half := lenForSize(F/2, 0)
	add("corpus-size-budget", 1, nil, false, 0, mk(7, 1, 0, half), mk(8, 1, 0, half))
	add("corpus-size-budget", 1, nil, false, 0, mk(7, 1, 0, half), mk(8, 1, 0, half+1))
	add("corpus-size-budget", 1, nil, false, 0, mk(7, 1, 0, half), mk(8, 1, 0, half+1), mk(9, 1, 0, 5))
	add("corpus-size-budget", 1, nil, false, 0, mk(7, 1, 0, lenForSize(F, 0)), mk(8, 1, 0, 0))
	add("corpus-size-budget", 1, nil, false, 0, mk(7, 1, 0, lenForSize(F-HDR, 0)), mk(8, 1, 0, 0), mk(9, 1, 0, 0))
	add("corpus-size-budget", 1, []int{2}, false, 0, mk(7, 2, 0, lenForSize(F-HDR, 0)), nopOf(2), nopOf(2), mk(9, 1, 0, 0))
	add("corpus-size-budget", 1, nil, false, 0, mk(7, 1, 0, lenForSize(F, 0)), mk(8, 1, 0, lenForSize(F, 0)), mk(9, 1, 0, lenForSize(F, 0)))
	add("corpus-oversize", 1, nil, false, 0, mk(7, 1, 0, lenForSize(F+1, 0)), mk(8, 1, 0, 1))
	add("corpus-oversize", 1, nil, false, 0, mk(8, 1, 0, 1), mk(7, 1, 0, lenForSize(F+1, 0)), mk(9, 1, 0, 1))
	// abandoned group
	{
		sm := []string{"1", "1k"}
		r1 := g.fragRun(1, 500, 3, sm)
		add("corpus-abandoned", 1, nil, false, 500, append(append([]gp{}, r1...), mk(7, 1, 0, 4), mk(8, 1, 0, 4))...)
		add("corpus-abandoned", 1, nil, false, 500, r1...)
		add("corpus-abandoned", 1, nil, false, 500, r1[0])
		add("corpus-abandoned", 1, []int{2}, false, 500, g.fragRun(2, 500, 1, sm)...)
		add("corpus-abandoned", 1, nil, false, 501, append(append([]gp{}, r1...), mk(7, 1, 0, 4))...)
		add("corpus-abandoned", 1, nil, false, 0, append(append([]gp{}, r1...), mk(7, 1, 0, 4))...)
		add("corpus-abandoned", 1, []int{2}, false, 500, append(append(append([]gp{}, r1...), mk(7, 1, 0, 4)), g.fragRun(2, 500, 2, sm)...)...)
		add("corpus-abandoned", 1, nil, false, 500, append([]gp{mk(7, 1, 0, 4)}, r1...)...)
		add("corpus-abandoned", 1, nil, false, 500, append(append([]gp{}, r1...), nopOf(1))...)
		// a complete group of one fragment
		var f com.Flag
		f.SetGroup(77)
		f.SetLen(1)
		add("corpus-frag-len1", 1, nil, false, 0, mk(7, 1, 0, 4), mk(10, 1, uint64(f), 9), mk(8, 1, 0, 4))
	}
	// a picked packet of our own that carries key material (FlagCrypt) is sent alone, the rest stays queued,
	// state.Last is not reset on that path
	{
		cr := uint64(com.FlagCrypt)
		sm := []string{"1", "1k"}
		add("corpus-crypt", 1, nil, false, 0, mk(7, 1, cr, 0), mk(8, 1, 0, 4), mk(9, 1, 0, 4))
		add("corpus-crypt", 1, []int{2}, false, 0, mk(7, 1, cr, 0), mk(8, 2, 0, 4), mk(9, 1, 0, 4))
		add("corpus-crypt", 1, []int{2}, false, 0, mk(7, 2, cr, 0), mk(8, 1, 0, 4), mk(9, 1, 0, 4))
		add("corpus-crypt", 1, nil, false, 0, mk(7, 0, cr, 0), mk(8, 1, 0, 4))
		add("corpus-crypt", 1, nil, false, 0, mk(8, 1, 0, 4), mk(7, 1, cr, 0), mk(9, 1, 0, 4))
		add("corpus-crypt", 1, nil, false, 0, mk(7, 1, cr, 0), mk(8, 1, cr, 0), mk(9, 1, cr, 0), mk(10, 1, 0, 4))
		add("corpus-crypt", 1, nil, false, 0, mk(7, 1, cr, 0), nopOf(1), nopOf(1))
		add("corpus-crypt", 1, nil, false, 0, nopOf(1), mk(7, 1, cr, 0), mk(8, 1, 0, 1))
		add("corpus-crypt", 1, nil, false, 0, mk(7, 1, cr, 0))
		// the key-material packet does not fit, is carried over, and is then sent alone
		add("corpus-crypt", 1, nil, false, 0, mk(7, 1, 0, lenForSize(F-40, 0)), mk(8, 1, cr, 0), mk(9, 1, 0, 5))
		r2 := g.fragRun(1, 600, 2, sm)
		add("corpus-crypt", 1, nil, false, 600, append(append([]gp{mk(7, 1, cr, 0)}, r2...), mk(8, 1, 0, 4))...)
		add("corpus-crypt", 1, nil, false, 600, append(append([]gp{mk(7, 1, cr, 0), mk(11, 1, cr, 0)}, r2...), mk(8, 1, 0, 4))...)
		// the abandoned group belongs to another device and follows the key-material packet
		add("corpus-crypt", 1, []int{2}, false, 600, append(append([]gp{mk(7, 1, cr, 0)}, g.fragRun(2, 600, 2, sm)...), mk(9, 1, 0, 4))...)
		add("corpus-crypt", 1, []int{2}, false, 600, append(append([]gp{mk(7, 2, cr, 0)}, r2...), mk(9, 1, 0, 4))...)
	}
	// proxy tags and packet tags
	run(qcase{Own: 1, Reg: []int{1, 2}, HasProxy: true, PTags: []uint32{11, 12}, Class: "corpus-tags",
		Q: []gp{mk(7, 1, 0, 4), {ID: 8, Job: 99, Dev: 2, Tags: []uint32{12, 13}, Len: 7, Seed: 5}, mk(9, 1, 0, 4)}})
	run(qcase{Own: 1, Reg: []int{1, 2}, HasProxy: true, PTags: nil, Class: "corpus-tags",
		Q: []gp{{ID: 8, Job: 99, Dev: 1, Tags: []uint32{12, 13}, Len: 7, Seed: 5}, mk(9, 1, 0, 4)}})
	run(qcase{Own: 1, Reg: []int{1, 2}, Class: "corpus-tags",
		Q: []gp{{ID: 8, Job: 99, Dev: 1, Tags: []uint32{12, 13, 12}, Len: 7, Seed: 5}, {ID: 9, Job: 98, Dev: 1, Tags: []uint32{13, 14}, Len: 7, Seed: 6}}})
	run(qcase{Own: 1, Reg: []int{1, 2}, Class: "corpus-tags",
		Q: []gp{{ID: 8, Job: 99, Dev: 1, Tags: []uint32{12, 13, 12}, Len: 7, Seed: 5}}})
	run(qcase{Own: 1, Reg: []int{1, 2}, HasProxy: true, PTags: []uint32{3}, Class: "corpus-tags", Q: []gp{mk(7, 1, 0, 4)}})
	run(qcase{Own: 1, Reg: []int{1, 2}, HasProxy: true, PTags: []uint32{3}, Class: "corpus-tags", Q: nil})
	run(qcase{Own: 1, Reg: []int{1, 2}, HasProxy: true, PTags: []uint32{3, 4}, Class: "corpus-crypt",
		Q: []gp{mk(7, 1, uint64(com.FlagCrypt), 0), mk(8, 2, 0, 4), mk(9, 1, 0, 4)}})

	// ---- keep-alives in every position of a short queue (exhaustive over masks)
	for n := 1; n <= 4; n++ {
		for mask := 0; mask < 1<<uint(n); mask++ {
			for _, fdev := range []int{1, 2} {
				q := make([]gp, n)
				for i := range q {
					if mask>>uint(i)&1 == 1 {
						q[i] = nopOf(fdev)
						if i%2 == 1 {
							q[i].Dev = 1
						}
					} else {
						q[i] = mk(uint8(7+i), 1+(i+mask)%2*(fdev-1), 0, 3)
					}
				}
				add("grid-keepalive-positions", 1, []int{2}, false, 0, q...)
			}
		}
	}

	// ---- random structured queues
	nrand := 450
	if thorough {
		nrand = 5000
	}
	profiles := [][]string{
		{"0", "1", "1k"},
		{"0", "1", "1k", "F/3", "F/2", "F-1", "F"},
		{"F/3", "F/2", "1k"},
		{"F/2", "F-1", "F", "0"},
		{"0", "1", "1k", "r", "r", "r"},
	}
	for it := 0; it < nrand; it++ {
		own := 1 + g.r.Intn(4)
		var foreign []int
		for d := 1; d <= 6; d++ {
			if d != own && g.r.Intn(3) == 0 {
				foreign = append(foreign, d)
			}
		}
		prof := profiles[g.r.Intn(len(profiles))]
		big := 0
		for _, s := range prof {
			if strings.HasPrefix(s, "F") {
				big++
			}
		}
		var n int
		switch g.r.Intn(6) {
		case 0:
			n = g.r.Intn(4)
		case 1:
			n = NP - 2 + g.r.Intn(5)
		case 2:
			n = 120 + g.r.Intn(8)
		default:
			n = g.r.Intn(128)
		}
		if big > 0 && n > 48 && !thorough {
			n = 8 + g.r.Intn(40)
		}
		pNop := []int{0, 10, 30, 60, 90}[g.r.Intn(5)]
		c := qcase{Own: own, Inter: g.r.Intn(4) == 0, Server: g.r.Bool(), Reg: regOf(own, foreign), Class: "random-" + strings.Join(prof[:1], "") + fmt.Sprint(len(prof))}
		if g.r.Intn(5) == 0 {
			c.HasProxy = true
			k := g.r.Intn(4)
			seen := map[uint32]bool{}
			for i := 0; i < k; i++ {
				t := uint32(1 + g.r.Intn(6))
				if !seen[t] {
					seen[t] = true
					c.PTags = append(c.PTags, t)
				}
			}
		}
		var q []gp
		usedGroups := map[uint16]bool{}
		// abandoned group scenario
		scen := g.r.Intn(10)
		if scen < 3 && n > 0 {
			grp := uint16(1 + g.r.Intn(65535))
			usedGroups[grp] = true
			k := 1 + g.r.Intn(4)
			if k > n {
				k = n
			}
			d := own
			if len(foreign) > 0 && g.r.Intn(3) == 0 {
				d = foreign[g.r.Intn(len(foreign))]
			}
			q = append(q, g.fragRun(d, grp, k, []string{"1", "1k"})...)
			switch scen {
			case 0, 1:
				c.Last = grp // the leading run is skipped
			case 2:
				c.Last = grp + 1 // some other group: nothing is skipped
				if c.Last == 0 {
					c.Last = 1
				}
				usedGroups[c.Last] = true
			}
			// the same group number on another device later on: must be delivered
			if scen == 1 && len(foreign) > 0 && len(q)+2 < n {
				d2 := foreign[g.r.Intn(len(foreign))]
				if d2 != d {
					q = append(q, g.dataPkt(own, foreign, prof))
					q = append(q, g.fragRun(d2, grp, 2, []string{"1", "1k"})...)
				}
			}
		} else if scen == 3 {
			c.Last = uint16(1 + g.r.Intn(65535)) // nothing queued belongs to it
			usedGroups[c.Last] = true
		}
		for len(q) < n {
			x := g.r.Intn(100)
			switch {
			case x < pNop:
				q = append(q, g.nop(own, foreign))
			case x < pNop+6 && len(q)+3 <= n:
				grp := uint16(1 + g.r.Intn(65535))
				if usedGroups[grp] {
					continue
				}
				usedGroups[grp] = true
				d := g.dev(own, foreign, 60, 0)
				q = append(q, g.fragRun(d, grp, 1+g.r.Intn(3), []string{"1", "1k", prof[0]})...)
			default:
				q = append(q, g.dataPkt(own, foreign, prof))
			}
		}
		if len(q) > 127 {
			q = q[:127]
		}
		c.Q = q
		if c.Last != 0 && scen < 2 {
			c.Class = "random-abandoned"
		}
		run(c)
	}

	// ---- queued containers: Proxy.notify re-queues the batch of a proxied client whole on the parent
	// Session; writeUnpack splices it into the next transmission (both flag forms)
	{
		px, md, ch := uint64(com.FlagProxy), uint64(com.FlagMultiDevice), uint64(com.FlagChannel)
		cc := func(class string, own int, foreign []int, q ...gp) {
			run(qcase{Own: own, Server: g.r.Bool(), Reg: regOf(own, foreign), Q: q, Class: class})
		}
		x1 := func(d int) gp { return mk(8, d, 0, 2) }
		// the scenario of a proxying Session: its own packet, then the batch of client 2
		cc("cont-corpus", 1, []int{2}, mk(8, 1, 0, 1), container(2, px, nil, x1(2), x1(2)))
		cc("cont-corpus", 1, []int{2}, mk(8, 1, 0, 1), container(2, 0, nil, x1(2), x1(2)))
		cc("cont-corpus", 1, []int{2}, container(2, px, nil, x1(2), x1(2)), mk(8, 1, 0, 1))
		cc("cont-corpus", 1, []int{2}, container(2, px, nil, x1(2), x1(2)))
		cc("cont-corpus", 1, []int{2}, container(2, px|md, nil, x1(2), x1(2)))
		cc("cont-corpus", 1, []int{2, 3}, mk(8, 1, 0, 1), container(2, px|md, nil, x1(2), x1(3), x1(2)), mk(9, 1, 0, 3))
		cc("cont-corpus", 1, []int{2, 3}, container(2, px, nil, x1(2)), container(3, px, nil, x1(3), x1(3)), mk(9, 1, 0, 3))
		cc("cont-corpus", 1, []int{2}, container(2, px|ch, []uint32{7}, x1(2), gp{ID: 9, Job: 77, Dev: 2, Tags: []uint32{5, 6}, Len: 3, Seed: 4}), mk(9, 1, 0, 3))
		// an own container: alone (sent as it is), with others (spliced), holding one packet (unwrapped)
		cc("cont-corpus", 1, nil, container(1, 0, nil, x1(1), x1(1)))
		cc("cont-corpus", 1, nil, container(0, 0, nil, x1(1), x1(1)))
		cc("cont-corpus", 1, nil, container(1, md, nil, x1(1), x1(1)))
		cc("cont-corpus", 1, nil, container(1, 0, nil, x1(1), x1(1)), mk(9, 1, 0, 3))
		cc("cont-corpus", 1, nil, mk(9, 1, 0, 3), container(1, 0, []uint32{4}, x1(1), x1(1)), mk(10, 1, 0, 3))
		cc("cont-corpus", 1, nil, nopOf(1), container(1, 0, nil, x1(1)), nopOf(1))
		cc("cont-corpus", 1, nil, container(1, 0, nil, x1(1)))
		cc("cont-corpus", 1, []int{2}, nopOf(1), container(2, px, nil, x1(2)))
		// a container with count 0 is dropped (ErrInvalidPacketCount ignored by nextPacket): it holds nothing
		cc("cont-corpus", 1, []int{2}, mk(8, 1, 0, 1), container(2, px, nil), mk(9, 1, 0, 1))
		// budget: the container is the packet that does not fit
		hb := lenForSize(F/2, 0)
		cc("cont-budget", 1, []int{2}, mk(8, 1, 0, hb), container(2, px, nil, mk(8, 2, 0, hb), x1(2)), mk(9, 1, 0, 1))
		cc("cont-budget", 1, []int{2}, container(2, px, nil, mk(8, 2, 0, hb), x1(2)), mk(8, 1, 0, hb), mk(9, 1, 0, 1))
		cc("cont-budget", 1, nil, container(1, 0, nil, mk(8, 1, 0, hb), x1(1)), container(1, 0, nil, mk(8, 1, 0, hb), x1(1)))
		// count: containers count as one packet each against limits.Packets
		{
			var q []gp
			for i := 0; i < NP+3; i++ {
				if i%3 == 0 {
					q = append(q, container(2, px, nil, x1(2), x1(2), x1(2)))
				} else {
					q = append(q, mk(uint8(7+i), 1, 0, i%4))
				}
			}
			cc("cont-budget", 1, []int{2}, q...)
		}
		ncont := 90
		if thorough {
			ncont = 1200
		}
		for it := 0; it < ncont; it++ {
			own := 1 + g.r.Intn(3)
			foreign := []int{own + 3}
			if g.r.Bool() {
				foreign = append(foreign, own+4)
			}
			n := 1 + g.r.Intn(8)
			if g.r.Intn(5) == 0 {
				n = NP - 2 + g.r.Intn(6)
			}
			prof := [][]string{{"0", "1", "1k"}, {"F/3", "1k", "1"}, {"0", "1", "r", "r"}}[g.r.Intn(3)]
			var q []gp
			for len(q) < n {
				switch x := g.r.Intn(100); {
				case x < 35:
					d := foreign[g.r.Intn(len(foreign))]
					extra := []uint64{0, px, px, px | md, px | ch}[g.r.Intn(5)]
					if g.r.Intn(4) == 0 {
						d, extra = []int{own, 0}[g.r.Intn(2)], []uint64{0, md}[g.r.Intn(2)]
					}
					k := 1 + g.r.Intn(4)
					in := make([]gp, k)
					for j := range in {
						dd := d
						if dd == 0 {
							dd = own
						}
						if extra&md != 0 && dd != own && g.r.Intn(3) == 0 {
							dd = foreign[g.r.Intn(len(foreign))]
						}
						in[j] = g.dataPkt(dd, nil, prof)
						in[j].Dev = dd
						if g.r.Intn(6) == 0 {
							in[j].Tags = nil
						}
					}
					var tg []uint32
					if g.r.Intn(4) == 0 {
						tg = g.tags()
					}
					q = append(q, container(d, extra, tg, in...))
				case x < 45:
					q = append(q, g.nop(own, foreign))
				default:
					q = append(q, g.dataPkt(own, foreign, prof))
				}
			}
			cc("cont-random", own, foreign, q...)
		}
		// ... and on the proxy's queue for one of its clients (the batch the server sent for that client)
		runPC(qcase{Own: 1, Reg: []int{1}, Class: "pc-cont", Q: []gp{container(1, md, nil, x1(1), x1(1))}})
		runPC(qcase{Own: 1, Reg: []int{1}, Class: "pc-cont", Q: []gp{container(1, md, nil, x1(1), x1(1)), mk(9, 1, 0, 3)}})
		runPC(qcase{Own: 1, Reg: []int{1}, Class: "pc-cont", Q: []gp{mk(9, 1, 0, 3), container(1, md, nil, x1(1), x1(1)), container(1, 0, nil, x1(1))}})
		runPC(qcase{Own: 1, Reg: []int{1}, Class: "pc-cont", Q: []gp{container(1, md, nil, mk(8, 1, 0, hb), x1(1)), container(1, md, nil, mk(8, 1, 0, hb))}})
	}

	// ---- the receiver hosts a Proxy: every sub-packet must reach the destination its Device names
	// (the host's handlers or the queue of that proxied client), runs of the same device included
	{
		hh := func(class string, own int, prox []int, q ...gp) {
			run(qcase{Own: own, Server: true, Reg: regOf(own, prox), Q: q, Class: class, Host: true, Prox: prox})
		}
		d := func(id uint8, dev int) gp { return mk(id, dev, 0, 3) }
		hh("host-corpus", 1, []int{2}, d(8, 2), d(9, 2), d(10, 1), d(11, 2))
		hh("host-corpus", 1, []int{2}, d(8, 1), d(9, 1), d(10, 2), d(11, 2), d(12, 1))
		hh("host-corpus", 1, []int{2, 3}, d(8, 2), d(9, 2), d(10, 2), d(11, 3), d(12, 3), d(13, 1), d(14, 1))
		hh("host-corpus", 1, []int{2}, d(8, 2))
		hh("host-corpus", 1, []int{2}, d(8, 2), d(9, 2))
		hh("host-corpus", 1, []int{2}, nopOf(2), d(8, 2), nopOf(2), d(9, 2), nopOf(1), d(10, 1))
		hh("host-corpus", 1, []int{2, 3}, d(8, 3), d(9, 2), d(10, 3), d(11, 2))
		hh("host-corpus", 1, []int{2}, d(8, 0), d(9, 2), d(10, 2), d(11, 0))
		hh("host-corpus", 1, []int{2}, gp{ID: 9, Job: 77, Dev: 2, Tags: []uint32{5, 6}, Len: 3, Seed: 4}, d(10, 2), d(11, 1))
		hh("host-corpus", 1, []int{2})
		nhost := 70
		if thorough {
			nhost = 1200
		}
		for it := 0; it < nhost; it++ {
			own := 1 + g.r.Intn(3)
			prox := []int{own + 3}
			if g.r.Bool() {
				prox = append(prox, own+4)
			}
			n := 1 + g.r.Intn(10)
			if g.r.Intn(6) == 0 {
				n = NP - 2 + g.r.Intn(6)
			}
			var q []gp
			cur := own
			for len(q) < n {
				if g.r.Intn(3) == 0 { // runs of the same destination
					cur = append([]int{own, 0}, prox...)[g.r.Intn(2+len(prox))]
				}
				switch x := g.r.Intn(100); {
				case x < 10:
					q = append(q, gp{Dev: cur, ID: uint8(g.r.Intn(2))})
				case x < 16 && (cur == own || cur == 0) && len(q)+2 <= n:
					q = append(q, g.fragRun(own, uint16(1+g.r.Intn(65535)), 1+g.r.Intn(2), []string{"1", "1k"})...)
				default:
					p := g.dataPkt(own, nil, []string{"0", "1", "1k", "r"})
					p.Dev = cur
					q = append(q, p)
				}
			}
			hh("host-random", own, prox, q...)
		}
	}

	// ---- oracle-only: the queue of a device is handed over to its host's connection
	for _, proxy := range []bool{false, true} {
		for npre := 0; npre <= 5; npre++ {
			for npost := 0; npost <= 2; npost++ {
				q := make([]gp, npre+npost)
				for i := range q {
					q[i] = mk(uint8(10+i), 2, 0, 1+i)
				}
				runHandOver(proxy, npre, q)
			}
		}
	}

	// ---- oracle-only: a fragment group that COMPLETES inside one container, followed by more packets
	// (regression for Chunk.Bytes handing out sub-slices with spare capacity: the reassembly
	// appended in place over the not yet decoded rest of the container)
	{
		// a complete group; lens by position; order: position 0 first, the rest as given by perm (nil = in order)
		fullp := func(dev int, group uint16, perm []int, lens ...int) []gp {
			id, job := uint8(7+g.r.Intn(249)), g.nextJob()
			r := make([]gp, len(lens))
			for i := range r {
				pos := i
				if perm != nil {
					pos = perm[i]
				}
				var f com.Flag
				f.SetGroup(group)
				f.SetLen(uint16(len(lens)))
				f.SetPosition(uint16(pos))
				r[i] = gp{ID: id, Job: job, Dev: dev, Flags: uint64(f), Len: lens[pos], Seed: g.r.U64()}
			}
			return r
		}
		full := func(dev int, group uint16, lens ...int) []gp { return fullp(dev, group, nil, lens...) }
		oo := func(class string, own int, foreign []int, q ...gp) {
			run(qcase{Own: own, Reg: regOf(own, foreign), Q: q, Class: class, OracleOnly: true})
		}
		cat := func(parts ...[]gp) []gp {
			var r []gp
			for _, p := range parts {
				r = append(r, p...)
			}
			return r
		}
		one := func(p gp) []gp { return []gp{p} }
		oo("group-completes-in-container", 1, nil, cat(full(1, 700, 8, 1), one(mk(8, 1, 0, 4)), one(mk(9, 1, 0, 6)))...)
		oo("group-completes-in-container", 1, nil, cat(one(mk(7, 1, 0, 3)), full(1, 701, 100, 3), one(mk(8, 1, 0, 4)))...)
		oo("group-completes-in-container", 1, nil, cat(full(1, 702, 5, 0), one(mk(8, 1, 0, 4)))...)
		oo("group-completes-in-container", 1, nil, cat(full(1, 703, 5, 7, 9), one(mk(8, 1, 0, 4)), one(mk(9, 1, 0, 4)))...)
		oo("group-completes-in-container", 1, []int{2}, cat(full(2, 704, 8, 2), one(mk(8, 1, 0, 4)), one(mk(9, 2, 0, 6)))...)
		oo("group-completes-in-container", 1, nil, cat(full(1, 705, 8, 1))...)
		oo("group-completes-in-container", 1, nil, cat(full(1, 706, 1024, 1024), full(1, 707, 3, 300), one(mk(9, 1, 0, 6)))...)
		// the lowest stored position arrives last: empty position 0, then 2, then 1 (the reassembly appends
		// the payload of position 2 behind the payload of position 1, i.e. behind the last decoded sub-packet)
		oo("group-completes-in-container", 1, nil, cat(fullp(1, 708, []int{0, 2, 1}, 0, 4, 5), one(mk(8, 1, 0, 4)), one(mk(9, 1, 0, 6)))...)
		oo("group-completes-in-container", 1, nil, cat(one(mk(7, 1, 0, 2)), fullp(1, 709, []int{0, 2, 1}, 0, 30, 60), one(mk(8, 1, 0, 4)))...)
		oo("group-completes-in-container", 1, []int{2}, cat(fullp(2, 710, []int{0, 3, 2, 1}, 0, 9, 9, 9), one(mk(8, 2, 0, 4)), one(mk(9, 1, 0, 6)))...)
		oo("group-completes-in-container", 1, nil, cat(fullp(1, 711, []int{0, 2, 1}, 7, 4, 5), one(mk(8, 1, 0, 4)))...)
		ngrp := 40
		if thorough {
			ngrp = 600
		}
		for it := 0; it < ngrp; it++ {
			own := 1 + g.r.Intn(3)
			var foreign []int
			if g.r.Intn(3) == 0 {
				foreign = []int{own + 3}
			}
			var q []gp
			ngroups := 1 + g.r.Intn(2)
			for x := 0; x < 1+g.r.Intn(3); x++ {
				q = append(q, g.dataPkt(own, foreign, []string{"0", "1", "r"}))
			}
			for x := 0; x < ngroups; x++ {
				lens := make([]int, 2+g.r.Intn(3))
				for i := range lens {
					lens[i] = []int{0, 1, 2, 17, 300}[g.r.Intn(5)]
				}
				if lens[len(lens)-1] == 0 && lens[0] == 0 {
					lens[len(lens)-1] = 1 + g.r.Intn(40)
				}
				// arrival order: position 0 first, the others shuffled half of the time
				perm := make([]int, len(lens))
				for i := range perm {
					perm[i] = i
				}
				if g.r.Bool() {
					for i := len(perm) - 1; i > 1; i-- {
						j := 1 + g.r.Intn(i)
						perm[i], perm[j] = perm[j], perm[i]
					}
				}
				q = append(q, fullp(g.dev(own, foreign, 70, 0), uint16(800+it*4+x), perm, lens...)...)
				for y := 0; y < g.r.Intn(3); y++ {
					q = append(q, g.dataPkt(own, foreign, []string{"0", "1", "r"}))
				}
			}
			oo("group-completes-in-container", own, foreign, q...)
		}
	}

	// ---- the proxy's queue for one of its clients (proxyClient.next), polled until drained + 2 polls
	{
		pc := func(class string, own int, inter bool, q ...gp) {
			runPC(qcase{Own: own, Inter: inter, Reg: []int{own}, Q: q, Class: class})
		}
		big := lenForSize(F/2+1024, 0)
		pc("pc-corpus", 1, false)
		pc("pc-corpus", 1, true)
		pc("pc-corpus", 1, false, mk(7, 1, 0, 10))
		pc("pc-corpus", 1, true, mk(7, 0, 0, 10))
		pc("pc-corpus", 1, false, nopOf(1))
		pc("pc-corpus", 1, false, nopOf(1), nopOf(1))
		pc("pc-corpus", 1, false, mk(7, 1, 0, 1), mk(8, 1, 0, 2))
		pc("pc-corpus", 1, false, nopOf(1), mk(9, 1, 0, 100), nopOf(0))
		pc("pc-corpus", 1, false, gp{ID: 9, Job: 77, Dev: 1, Tags: []uint32{5, 6}, Len: 3, Seed: 4}, mk(8, 1, 0, 2))
		pc("pc-corpus", 1, false, gp{ID: 9, Job: 77, Dev: 1, Tags: []uint32{5, 6}, Len: 3, Seed: 4})
		// the carried-over packet is the last one queued: it goes out through the lone-packet shortcut
		pc("pc-carry-last", 1, false, mk(80, 1, 0, big), mk(81, 1, 0, big))
		pc("pc-carry-last", 1, true, mk(80, 1, 0, big), mk(81, 1, 0, big))
		pc("pc-carry-last", 1, false, mk(80, 0, 0, big), mk(81, 0, 0, big))
		pc("pc-carry-last", 1, false, mk(7, 1, 0, 5), mk(80, 1, 0, big), mk(81, 1, 0, big))
		pc("pc-carry-last", 1, false, mk(80, 1, 0, lenForSize(F, 0)), mk(81, 1, 0, 1))
		pc("pc-carry-last", 1, false, mk(80, 1, 0, big), mk(81, 1, 0, big), nopOf(1))
		pc("pc-carry-last", 1, false, mk(80, 1, 0, big), mk(81, 1, 0, big), mk(82, 1, 0, big))
		// ... and is followed by more
		pc("pc-carry-followed", 1, false, mk(80, 1, 0, big), mk(81, 1, 0, big), mk(82, 1, 0, 32))
		pc("pc-carry-followed", 1, false, mk(80, 1, 0, big), mk(81, 1, 0, big), mk(82, 1, 0, 32), mk(83, 1, 0, big))
		for _, n := range []int{NP - 1, NP, NP + 1, 2*NP + 1} {
			q := make([]gp, n)
			for i := range q {
				if i%4 == 3 {
					q[i] = nopOf(1)
				} else {
					q[i] = mk(uint8(7+i%200), i%2, 0, i%5)
				}
			}
			pc("pc-count-budget", 1, false, q...)
		}
		npc := 110
		if thorough {
			npc = 1500
		}
		profiles := [][]string{{"0", "1", "1k"}, {"F/3", "F/2", "1k"}, {"F/2", "F-1", "F", "0"}, {"0", "1", "1k", "r", "r"}}
		for it := 0; it < npc; it++ {
			own := 1 + g.r.Intn(4)
			prof := profiles[g.r.Intn(len(profiles))]
			n := g.r.Intn(6)
			switch g.r.Intn(4) {
			case 0:
				n = 2 + g.r.Intn(3)
			case 1:
				n = g.r.Intn(70)
			}
			if strings.HasPrefix(prof[0], "F") && n > 24 {
				n = 24
			}
			pNop := []int{0, 10, 40}[g.r.Intn(3)]
			var q []gp
			for len(q) < n {
				if g.r.Intn(100) < pNop {
					p := g.nop(own, nil)
					q = append(q, p)
				} else if g.r.Intn(12) == 0 && len(q)+2 <= n {
					q = append(q, g.fragRun(own, uint16(1+g.r.Intn(65535)), 1+g.r.Intn(2), []string{"1", "1k"})...)
				} else {
					p := g.dataPkt(own, nil, prof)
					if g.r.Intn(5) == 0 {
						p.Dev = 0
					}
					q = append(q, p)
				}
			}
			runPC(qcase{Own: own, Inter: g.r.Intn(4) == 0, Reg: []int{own}, Q: q, Class: "pc-random-" + prof[0]})
		}
	}
	out.Finish()
}
