// C14 harness: a Job finishes exactly once.
//
// Part 1 (correspondence + oracle): sequential operation sequences on a real server-side
// Session built without a network (overlay shim c2--c14.go), compared step by step with the
// Gallina model (Model/Job.v) and judged by a Go-side oracle that states the property directly.
// Part 2 (search only): goroutines racing result / error result / duplicate / Cancel / Wait /
// IsDone on one job of a fresh Session, under recover(); a panic, a waiter that never returns,
// a lock left held or an inconsistent final state is an oracle failure.
// Part 3: two concurrent Task calls with the same number (known finding).
package main

import (
	"bytes"
	"fmt"
	"os"
	"os/exec"
	"regexp"
	"runtime"
	"strings"
	"sync"
	"sync/atomic"
	"time"

	"github.com/iDigitalFlame/xmt/c2"
	"github.com/iDigitalFlame/xmt/com"
	"github.com/iDigitalFlame/xmt/device"

	"verifharness/vh"
)

var out *vh.Out

// at most three recorded failures per key (vh keeps 200 in total)
var failCount = map[string]int{}

func failOnce(what, key string, c interface{}) {
	failCount[key]++
	if failCount[key] <= 3 {
		out.Fail(what, key, c)
	}
}

const pktTask = 0xC0 // a plain task id (> MvRefresh, no handleInfoResult side effects)

// ------------------------------------------------------------------ operations

type op struct {
	K    string `json:"op"`            // task new handle cancel wait isdone jobs job hasjob accept frag
	ID   int    `json:"id,omitempty"`  // job number
	Full bool   `json:"full,omitempty"`
	WF   int    `json:"wf,omitempty"`  // handle: 0 well formed, 1 not RvResult, 2 empty device
	Err  bool   `json:"err,omitempty"` // handle: FlagError
	H    int    `json:"h,omitempty"`   // job handle (index in creation order)
	Max  int    `json:"max,omitempty"`
	PL   int    `json:"payload,omitempty"` // handle: payload shape, see payloadShapes
	Info bool   `json:"info,omitempty"`    // task: an information job (Type MvTime): handle calls handleInfoResult
}

// payload shapes of a result packet (what ReadString(&j.Error) finds for an error-flagged one)
var payloadShapes = []string{"text", "empty-string", "zero-byte", "no-payload", "truncated-header", "truncated-body", "length-zero", "bad-class", "short-16bit-header", "sync-info"}

// mkResult builds the result packet of a handle operation; the payload bytes go into the model
func mkResult(dev device.ID, o op) (*com.Packet, []int) {
	p := &com.Packet{ID: c2.RvResult, Job: uint16(o.ID), Device: dev}
	switch o.WF {
	case 1:
		p.ID = c2.RvResult + 1
	case 2:
		p.Device[0] = 0
	}
	if o.Err {
		p.Flags |= com.FlagError
	}
	switch o.PL {
	case 0:
		if o.Err {
			p.WriteString("boom")
		} else {
			p.WriteString("fine")
		}
	case 1:
		p.WriteString("")
	case 2:
		p.WriteUint8(0)
	case 3:
	case 4:
		p.WriteUint8(1)
	case 5:
		p.WriteUint8(1)
		p.WriteUint8(4)
		p.WriteUint8(98)
	case 6:
		p.WriteUint8(1)
		p.WriteUint8(0)
	case 7:
		p.WriteUint8(200)
	case 8:
		p.WriteUint8(3)
		p.WriteUint8(0)
	case 9: // what an MvTime result carries (infoSync): jitter, sleep, kill date, work hours
		p.WriteUint8(0)
		p.WriteInt64(int64(time.Second))
		p.WriteInt64(0)
		p.WriteUint32(0)
		p.WriteUint8(0)
	}
	b := p.Payload()
	pl := make([]int, len(b))
	for i, x := range b {
		pl[i] = int(x)
	}
	return p, pl
}

func plTerm(pl []int) string {
	items := make([]string, len(pl))
	for i, x := range pl {
		items[i] = fmt.Sprint(x)
	}
	return vh.List(items)
}

type waiter struct {
	ret chan struct{}
}

type jobRec struct {
	j  *c2.Job
	id uint16
	// oracle state (the specification, kept independently of the model)
	pending  bool
	fin      int // 0 none, 3 completed, 4 error, 5 cancelled: the FIRST finishing event
	finTag   int
	frozen   [3]int // status, result tag, error non-empty, recorded right after the finishing event
	waiters  []*waiter
	finKind  string
	inCS     bool // a result thread is parked INSIDE its write-locked section for this job (Status may be written, done not yet)
	orphan   bool // overwritten in the table by a concurrent Task (known finding): no expectations
}

type world struct {
	s      *c2.Session
	jobs   []*jobRec
	byID   map[uint16]*jobRec // oracle's own pending table
	tags   map[*com.Packet]int
	nextTg int
	raw    bool // a goroutine is parked inside the write-locked section: read the table without the lock
}

func (w *world) tableIDs() []uint16 {
	if w.raw {
		return c2.VerifC14TableRaw(w.s)
	}
	return c2.VerifC14Table(w.s)
}

func (w *world) entry(id uint16) *c2.Job {
	if w.raw {
		return c2.VerifC14EntryRaw(w.s, id)
	}
	return c2.VerifC14Entry(w.s, id)
}

func newWorld() *world {
	return &world{s: c2.VerifC14Session(), byID: map[uint16]*jobRec{}, tags: map[*com.Packet]int{}, nextTg: 1}
}

func (w *world) handleOf(j *c2.Job) int {
	for i, r := range w.jobs {
		if r.j == j {
			return i
		}
	}
	return -1
}

func (w *world) job(h int) *c2.Job {
	if h < 0 || h >= len(w.jobs) {
		return nil
	}
	return w.jobs[h].j
}

func errCode(err error) int {
	switch {
	case err == c2.ErrFullBuffer:
		return 1
	case strings.Contains(err.Error(), "already registered"):
		return 91
	case strings.Contains(err.Error(), "cannot assign"):
		return 90
	}
	return 99
}

func b2i(b bool) int {
	if b {
		return 1
	}
	return 0
}

func (w *world) resTag(j *c2.Job) int {
	if j.Result == nil {
		return 0
	}
	if t, ok := w.tags[j.Result]; ok {
		return t
	}
	return -1
}

func tableTerm(w *world) (string, bool) {
	ids := w.tableIDs()
	items := make([]string, 0, len(ids))
	ok := true
	for _, id := range ids {
		h := w.handleOf(w.entry(id))
		if h < 0 {
			ok = false
		}
		items = append(items, fmt.Sprintf("(%d,%d%%nat)", id, h))
	}
	return vh.List(items), ok
}

func (w *world) snapshot() string {
	items := make([]string, 0, len(w.jobs))
	for _, r := range w.jobs {
		items = append(items, fmt.Sprintf("(%d,%d,%d,%d,%s)", int(r.j.Status), c2.VerifC14Done(r.j), w.resTag(r.j), int(r.j.Frags), vh.B(len(r.j.Error) > 0)))
	}
	t, _ := tableTerm(w)
	return vh.List(items) + " " + t
}

// run executes one operation on the implementation; returns the Coq terms of the operation
// and of its result, and whether it panicked.
func (w *world) run(o op, seq []op, idx int) (opTerm, retTerm string, panicked bool) {
	fail := func(what, key string) {
		failOnce(what, key, map[string]interface{}{"ops": seq, "failing_step": idx})
	}
	defer func() {
		if x := recover(); x != nil {
			panicked = true
			retTerm = vh.ResPanic()
			fail(fmt.Sprintf("%s panicked: %v", o.K, x), "seq:panic:"+o.K)
			if opTerm == "" {
				opTerm = "OJobs"
			}
		}
	}()
	s := w.s
	switch o.K {
	case "task":
		before := map[uint16]bool{}
		for _, id := range c2.VerifC14Table(s) {
			before[id] = true
		}
		if o.Full {
			c2.VerifC14Fill(s)
		}
		n := &com.Packet{ID: pktTask, Job: uint16(o.ID)}
		if o.Info {
			n.ID = 0x08 // task.MvTime
		}
		j, err := s.Task(n)
		c2.VerifC14Drain(s)
		draws := "[]"
		if o.ID == 0 && n.Job != 0 {
			draws = fmt.Sprintf("[%d]", n.Job)
		}
		opTerm = fmt.Sprintf("(OTask %d %s %s)", o.ID, draws, vh.B(o.Full))
		if err != nil {
			if j != nil {
				fail("Task returned a Job together with an error", "seq:task-job-and-error")
			}
			retTerm = vh.ResOk(fmt.Sprintf("(RErr %d)", errCode(err)))
			if o.ID != 0 && !before[uint16(o.ID)] && !o.Full {
				fail("Task refused a job number that is not pending", "seq:task-refused")
			}
			return
		}
		rec := &jobRec{j: j, id: j.ID, pending: true}
		w.jobs = append(w.jobs, rec)
		retTerm = vh.ResOk(fmt.Sprintf("(RJob %d%%nat)", len(w.jobs)-1))
		// oracle: numbers handed out are never 0 or 1 and never a pending job's
		if o.ID == 0 && j.ID < 2 {
			fail(fmt.Sprintf("Task handed out job number %d", j.ID), "seq:job-id-0-1")
		}
		if before[j.ID] {
			fail(fmt.Sprintf("Task accepted job number %d although a pending job has it", j.ID), "seq:job-id-pending")
		}
		if old := w.byID[j.ID]; old != nil && old.pending {
			fail("oracle table: number of a pending job reused", "seq:job-id-pending")
		}
		w.byID[j.ID] = rec
	case "new":
		before := map[uint16]bool{}
		for _, id := range c2.VerifC14Table(s) {
			before[id] = true
		}
		i := c2.VerifC14NewJobID(s)
		draws := "[]"
		if i != 0 {
			draws = fmt.Sprintf("[%d]", i)
		}
		opTerm = "(ONew " + draws + ")"
		retTerm = vh.ResOk(fmt.Sprintf("(RId %d)", i))
		if i == 1 || before[i] {
			fail(fmt.Sprintf("newJobID returned %d (1 or a pending job's number)", i), "seq:job-id-pending")
		}
	case "handle":
		p, pl := mkResult(w.s.ID, o)
		tag := w.nextTg
		w.nextTg++
		w.tags[p] = tag
		opTerm = fmt.Sprintf("(OHandle %s %d %s %d %s)", vh.B(o.WF == 0), o.ID, vh.B(o.Err), tag, plTerm(pl))
		target := w.byID[uint16(o.ID)]
		if o.WF != 0 || o.ID < 2 || (target != nil && !target.pending) {
			target = nil
		}
		before := make([][3]int, len(w.jobs))
		for i, r := range w.jobs {
			before[i] = [3]int{int(r.j.Status), w.resTag(r.j), b2i(len(r.j.Error) > 0)}
		}
		ok := c2.VerifC14Handle(s, p)
		retTerm = vh.ResOk("(RBool " + vh.B(ok) + ")")
		if target == nil {
			// unknown, reused, cancelled, completed or malformed: must be ignored
			if ok {
				fail("a result with a job number that is not pending was accepted", "seq:unknown-result-accepted")
			}
			for i, r := range w.jobs {
				if before[i] != [3]int{int(r.j.Status), w.resTag(r.j), b2i(len(r.j.Error) > 0)} {
					fail("a result with a job number that is not pending changed a job", "seq:unknown-result-attributed")
				}
			}
		} else {
			if !ok {
				fail("the result of a pending job was not accepted", "seq:result-dropped")
			}
			target.pending = false
			target.fin = 3
			target.finKind = "result"
			if o.Err {
				target.fin = 4
				target.finKind = "error result"
			}
			target.finTag = tag
			delete(w.byID, uint16(o.ID))
		}
	case "cancel":
		opTerm = fmt.Sprintf("(OCancel %d%%nat)", o.H)
		retTerm = vh.ResOk("RUnit")
		j := w.job(o.H)
		j.Cancel()
		if j != nil {
			r := w.jobs[o.H]
			if r.pending {
				r.pending, r.fin, r.finKind = false, 5, "Cancel"
				if w.byID[r.id] == r {
					delete(w.byID, r.id)
				}
			}
		}
	case "wait":
		opTerm = fmt.Sprintf("(OWait %d%%nat)", o.H)
		j := w.job(o.H)
		wt := &waiter{ret: make(chan struct{})}
		expectReturn := j == nil || c2.VerifC14Done(j) != 0
		go func() {
			defer func() { recover(); close(wt.ret) }()
			j.Wait()
		}()
		d := 2 * time.Millisecond
		if expectReturn {
			d = 3 * time.Second
		}
		select {
		case <-wt.ret:
			retTerm = vh.ResOk("RUnit")
			if j != nil && w.jobs[o.H].pending {
				fail("Wait returned although the job is still pending", "seq:wait-returned-early")
			}
		case <-time.After(d):
			retTerm = vh.ResOk("RBlocked")
			if j != nil {
				w.jobs[o.H].waiters = append(w.jobs[o.H].waiters, wt)
				if !w.jobs[o.H].pending {
					fail("Wait blocks on a finished job", "seq:waiter-not-released")
				}
			}
		}
	case "isdone":
		opTerm = fmt.Sprintf("(OIsDone %d%%nat)", o.H)
		j := w.job(o.H)
		d := j.IsDone()
		retTerm = vh.ResOk("(RBool " + vh.B(d) + ")")
		if j != nil && d == w.jobs[o.H].pending {
			fail(fmt.Sprintf("IsDone = %v on a job whose pending state is %v", d, w.jobs[o.H].pending), "seq:isdone-wrong")
		}
	case "jobs":
		opTerm = "OJobs"
		js := s.Jobs()
		// sorted by number
		items := []string{}
		ids := map[int]int{}
		keys := []int{}
		for _, j := range js {
			ids[int(j.ID)] = w.handleOf(j)
			keys = append(keys, int(j.ID))
		}
		for i := 0; i < len(keys); i++ {
			for k := i + 1; k < len(keys); k++ {
				if keys[k] < keys[i] {
					keys[i], keys[k] = keys[k], keys[i]
				}
			}
		}
		for _, k := range keys {
			items = append(items, fmt.Sprintf("(%d,%d%%nat)", k, ids[k]))
		}
		retTerm = vh.ResOk("(RJobs " + vh.List(items) + ")")
		np := 0
		for _, r := range w.jobs {
			if r.pending {
				np++
			}
		}
		if np != len(js) {
			fail(fmt.Sprintf("Jobs() lists %d jobs, %d are pending", len(js), np), "seq:jobs-list")
		}
	case "job":
		opTerm = fmt.Sprintf("(OJob %d)", o.ID)
		j := s.Job(uint16(o.ID))
		if j == nil {
			retTerm = vh.ResOk("(RJobOpt None)")
		} else {
			retTerm = vh.ResOk(fmt.Sprintf("(RJobOpt (Some %d%%nat))", w.handleOf(j)))
		}
	case "hasjob":
		opTerm = fmt.Sprintf("(OHasJob %d)", o.ID)
		retTerm = vh.ResOk("(RBool " + vh.B(c2.VerifC14HasJob(s, uint16(o.ID))) + ")")
	case "accept":
		opTerm = fmt.Sprintf("(OAccept %d)", o.ID)
		c2.VerifC14Accept(s, uint16(o.ID))
		retTerm = vh.ResOk("RUnit")
	case "frag":
		opTerm = fmt.Sprintf("(OFrag %d %d)", o.ID, o.Max)
		c2.VerifC14Frag(s, uint16(o.ID), 9, uint16(o.Max), 0)
		retTerm = vh.ResOk("RUnit")
	default:
		panic("bad op " + o.K)
	}
	return
}

// invariants of the property, evaluated on the implementation after every step
func (w *world) oracle(seq []op, idx int) {
	w.oracleWith(func(what, key string) {
		failOnce(what, key, map[string]interface{}{"ops": seq, "failing_step": idx})
	}, seq[idx].K)
}

// oracleWith: keys are "seq:..." (the same property, whether the history was sequential or a
// deterministic interleaving; the replay tells which)
func (w *world) oracleWith(fail func(what, key string), opname string) {
	for h, r := range w.jobs {
		if r.orphan {
			continue
		}
		st := int(r.j.Status)
		cur := [3]int{st, w.resTag(r.j), b2i(len(r.j.Error) > 0)}
		inTable := w.entry(r.id) == r.j
		done := c2.VerifC14Done(r.j)
		if r.pending {
			if !inTable {
				fail(fmt.Sprintf("pending job %d (number %d) is not in the table", h, r.id), "seq:pending-not-in-table")
			}
			if done != 0 {
				fail(fmt.Sprintf("pending job %d has its done channel released", h), "seq:pending-done-released")
			}
			if st >= 3 && !r.inCS {
				fail(fmt.Sprintf("pending job %d has final status %d", h, st), "seq:pending-final-status")
			}
			continue
		}
		if r.frozen == [3]int{} {
			// first look after the finishing event
			if st != r.fin {
				key := "seq:result-status"
				if r.fin == 5 {
					key = "seq:cancel-status"
				}
				fail(fmt.Sprintf("job %d was finished first by %s: Status is %d, want %d", h, r.finKind, st, r.fin), key)
			}
			if r.fin != 5 && cur[1] != r.finTag {
				fail(fmt.Sprintf("job %d: Result is not the packet that completed it", h), "seq:result-packet")
			}
			if r.fin == 5 && cur[1] != 0 {
				fail(fmt.Sprintf("cancelled job %d carries a Result", h), "seq:cancel-result")
			}
			r.frozen = cur
			r.frozen[0] += 100 // mark as set (status 0 would look unset)
		} else if cur[0]+100 != r.frozen[0] || cur[1] != r.frozen[1] || cur[2] != r.frozen[2] {
			fail(fmt.Sprintf("finished job %d changed afterwards (by %s): status/result/error %v, was %v", h, opname, cur, r.frozen),
				"seq:finished-job-changed:"+opname)
		}
		if inTable {
			fail(fmt.Sprintf("finished job %d is still in the table", h), "seq:finished-in-table")
		}
		if done == 0 {
			fail(fmt.Sprintf("finished job %d: done channel still open (waiters blocked)", h), "seq:done-open-after-finish")
		}
	}
}

func (w *world) finish(seq []op) {
	if !c2.VerifC14LockFree(w.s) {
		failOnce("Session.lock was left held at the end of the sequence (a panicking critical section?)", "seq:lock-left-held",
			map[string]interface{}{"ops": seq})
		return
	}
	// every waiter of a finished job must have returned; waiters of pending jobs are released by a final Cancel
	for h, r := range w.jobs {
		if r.pending {
			func() {
				defer func() { recover() }()
				if c2.VerifC14LockFree(w.s) {
					r.j.Cancel()
				}
			}()
		}
		for _, wt := range r.waiters {
			select {
			case <-wt.ret:
			case <-time.After(2 * time.Second):
				failOnce(fmt.Sprintf("a goroutine blocked in Wait on job %d was never released", h), "seq:waiter-not-released",
					map[string]interface{}{"ops": seq})
			}
		}
	}
}

var seenSeq = map[string]bool{}

func doSeq(seq []op, class string) {
	key := fmt.Sprint(seq)
	if seenSeq[key] {
		return
	}
	seenSeq[key] = true
	w := newWorld()
	steps := make([]string, 0, len(seq))
	finishing := 0
	for i, o := range seq {
		ot, rt, p := w.run(o, seq, i)
		if p {
			steps = append(steps, fmt.Sprintf("OStep %s Panic [] []", ot))
			break
		}
		w.oracle(seq, i)
		steps = append(steps, fmt.Sprintf("OStep %s %s %s", ot, rt, w.snapshot()))
	}
	for _, r := range w.jobs {
		if !r.pending {
			finishing++
		}
	}
	w.finish(seq)
	out.Add("CSeq "+vh.List(steps), class, finishing > 0, map[string]interface{}{"ops": seq})
}

// ------------------------------------------------------------------ generators

func alphabet() []op {
	return []op{
		{K: "task", ID: 7}, {K: "task", ID: 0}, {K: "handle", ID: 7}, {K: "handle", ID: 7, Err: true}, {K: "handle", ID: 7, Err: true, PL: 2}, {K: "handle", ID: 9},
		{K: "cancel", H: 0}, {K: "wait", H: 0}, {K: "isdone", H: 0}, {K: "jobs"}, {K: "accept", ID: 7}, {K: "frag", ID: 7, Max: 3},
	}
}

func randOp(r *vh.Rand, njobs int) op {
	ids := []int{7, 7, 7, 8, 9, 2, 65535, 1, 0}
	id := ids[r.Intn(len(ids))]
	h := 0
	if njobs > 0 {
		h = r.Intn(njobs + 1) // njobs = one past the end: a nil *Job
	}
	switch r.Intn(20) {
	case 0, 1, 2, 3:
		if r.Intn(4) == 0 {
			return op{K: "task", ID: 0, Full: r.Intn(12) == 0}
		}
		return op{K: "task", ID: id, Full: r.Intn(12) == 0}
	case 4, 5, 6, 7:
		wf := 0
		if r.Intn(10) == 0 {
			wf = 1 + r.Intn(2)
		}
		pl := 0
		if r.Intn(3) == 0 {
			pl = r.Intn(9)
		}
		return op{K: "handle", ID: id, Err: r.Intn(3) == 0, WF: wf, PL: pl}
	case 8, 9, 10, 11:
		return op{K: "cancel", H: h}
	case 12:
		return op{K: "wait", H: h}
	case 13, 14:
		return op{K: "isdone", H: h}
	case 15:
		return op{K: "jobs"}
	case 16:
		if r.Bool() {
			return op{K: "job", ID: id}
		}
		return op{K: "hasjob", ID: id}
	case 17:
		return op{K: "accept", ID: id}
	case 18:
		return op{K: "frag", ID: id, Max: r.Intn(3)}
	}
	return op{K: "new"}
}

// ------------------------------------------------------------------ deterministic interleavings
//
// The Session logger is used as a scheduling point (shim VerifC14SessionHooked): a goroutine can
// be parked inside handle between the read-locked lookup and the write-locked finish (point 1)
// and inside Task between the duplicate check and the insert (point 2).  A thread is one
// operation on its own goroutine; a schedule is a sequence of SEGMENTS (start a thread and let it
// run to its park point or to its end / resume a parked thread to its end).  Exactly one
// goroutine is runnable at any time, so the outcome is deterministic; the same segments are run
// through Model/Job.v (CSched) and compared after every segment, and the property is judged on
// the implementation after every segment.

type cthread struct {
	o       op
	tid     int
	ev      chan int // 1 = parked at a scheduling point, 2 = returned
	resume  chan struct{}
	started bool
	point   int // where it is parked: 1 handle before the lock, 2 Task before the insert, 3 handle inside handleInfoResult (lock held)
	pl      []int
	parked  bool
	blocked bool // a Wait that has not returned
	fin     bool
	panicv  string
	opTerm  string
	pkt     *com.Packet // handle / task
	tag     int
	target  *jobRec // handle: the job the oracle's table held under the number at the lookup
	job     *c2.Job
	err     error
	bret    bool
}

type sworld struct {
	*world
	cur  *cthread
	nthr int
	all  []*cthread
}

func newSWorld() *sworld {
	sw := &sworld{}
	w := &world{byID: map[uint16]*jobRec{}, tags: map[*com.Packet]int{}, nextTg: 1}
	w.s = c2.VerifC14SessionHooked(func(point int) {
		t := sw.cur
		if t == nil || (point == 3 && !t.o.Info) {
			return
		}
		t.point = point
		t.ev <- 1
		<-t.resume
	})
	sw.world = w
	return sw
}

func (sw *sworld) body(t *cthread) {
	defer func() {
		if x := recover(); x != nil {
			t.panicv = fmt.Sprint(x)
		}
		t.ev <- 2
	}()
	switch t.o.K {
	case "task":
		t.job, t.err = sw.s.Task(t.pkt)
	case "handle":
		t.bret = c2.VerifC14Handle(sw.s, t.pkt)
	case "cancel":
		sw.job(t.o.H).Cancel()
	case "wait":
		sw.job(t.o.H).Wait()
	case "isdone":
		t.bret = sw.job(t.o.H).IsDone()
	default:
		panic("bad scheduled op " + t.o.K)
	}
}

func (sw *sworld) rec(h int) *jobRec {
	if h < 0 || h >= len(sw.jobs) {
		return nil
	}
	return sw.jobs[h]
}

// seg runs one segment of thread t (complete: no parking, the thread runs to its end) and returns
// the Coq term of the segment with its observation ("" if there was nothing to run).
func (sw *sworld) seg(t *cthread, complete bool, fail func(what, key string)) (term string, hung bool) {
	if t.fin {
		return "", false
	}
	w := sw.world
	first := !t.started
	sw.cur = t
	if complete {
		sw.cur = nil
	}
	timeout := 3 * time.Second
	if t.o.K == "wait" {
		if j := sw.job(t.o.H); j != nil && c2.VerifC14Done(j) == 0 {
			timeout = 2 * time.Millisecond
		}
	}
	var segTerm string
	if first {
		t.started = true
		t.tid = sw.nthr
		sw.nthr++
		switch t.o.K {
		case "task":
			t.pkt = &com.Packet{ID: pktTask, Job: uint16(t.o.ID)}
			if t.o.Info {
				t.pkt.ID = 0x08 // task.MvTime
			}
		case "handle":
			p, pl := mkResult(w.s.ID, t.o)
			t.pl = pl
			t.pkt, t.tag = p, w.nextTg
			w.nextTg++
			w.tags[p] = t.tag
			if x := w.byID[uint16(t.o.ID)]; t.o.ID >= 2 && x != nil && x.pending {
				t.target = x
			}
		}
		go sw.body(t)
	} else if t.parked {
		t.parked = false
		t.resume <- struct{}{}
	}
	select {
	case e := <-t.ev:
		t.blocked = false
		if e == 1 {
			t.parked = true
		} else {
			t.fin = true
		}
	case <-time.After(timeout):
		if t.o.K != "wait" {
			fail(fmt.Sprintf("%s did not return and is not at a scheduling point (deadlock / lock left held)", t.o.K), "sched:hang:"+t.o.K)
			return "", true
		}
		t.blocked = true
	}
	sw.cur = nil
	w.raw = false
	for _, x := range sw.all {
		if x.parked && x.point == 3 {
			w.raw = true
		}
	}
	if t.panicv != "" {
		fail(fmt.Sprintf("%s panicked: %s", t.o.K, t.panicv), "sched:panic:"+t.o.K+":"+t.panicv)
		return "", true
	}
	// ---- Coq term of the segment
	if first {
		switch t.o.K {
		case "task":
			draws := "[]"
			if t.o.ID == 0 && t.pkt.Job != 0 {
				draws = fmt.Sprintf("[%d]", t.pkt.Job)
			}
			t.opTerm = fmt.Sprintf("(OTask %d %s false)", t.o.ID, draws)
		case "handle":
			t.opTerm = fmt.Sprintf("(OHandle true %d %s %d %s)", t.o.ID, vh.B(t.o.Err), t.tag, plTerm(t.pl))
		case "cancel":
			t.opTerm = fmt.Sprintf("(OCancel %d%%nat)", t.o.H)
		case "wait":
			t.opTerm = fmt.Sprintf("(OWait %d%%nat)", t.o.H)
		case "isdone":
			t.opTerm = fmt.Sprintf("(OIsDone %d%%nat)", t.o.H)
		}
		// steps of the model up to the scheduling point: Task: PTask0, PTask1; handle: PH0, PH1.
		// Everything else (and every final segment) gets more steps than it needs: a thread that
		// has returned, or that is blocked, stutters.
		k := 16
		if !complete && (t.o.K == "task" || t.o.K == "handle") {
			k = 2
		}
		segTerm = fmt.Sprintf("(SSpawn %s %d%%nat)", t.opTerm, k)
	} else {
		// resumed from point 1 and parked again at point 3 (inside handleInfoResult, lock held):
		// exactly the lock, j.Result and j.Status have been written (PH2, HRes, HSt)
		k := 16
		if t.parked && t.point == 3 {
			k = 3
		}
		segTerm = fmt.Sprintf("(SResume %d%%nat %d%%nat)", t.tid, k)
	}
	// ---- the specification (oracle), in the order in which the segments ran
	obs := "TParked"
	switch t.o.K {
	case "task":
		id := t.pkt.Job
		if first {
			dup := false
			if x := w.byID[id]; t.o.ID != 0 && x != nil && x.pending {
				dup = true
			}
			switch {
			case t.fin && t.err == nil && !complete:
				fail("Task returned without passing its scheduling point", "sched:task-no-park")
			case t.fin && t.err != nil && !dup:
				fail("Task refused a job number that is not pending: "+t.err.Error(), "seq:task-refused")
			case !t.fin && dup:
				fail(fmt.Sprintf("Task went on with job number %d although a pending job has it", id), "seq:job-id-pending")
			}
			if t.o.ID == 0 && (id < 2 || (w.byID[id] != nil && w.byID[id].pending)) && t.err == nil {
				fail(fmt.Sprintf("Task allocated job number %d (0, 1 or pending)", id), "seq:job-id-pending")
			}
		}
		if t.fin {
			c2.VerifC14Drain(w.s)
			if t.err != nil {
				obs = fmt.Sprintf("(TRet (RErr %d))", errCode(t.err))
			} else {
				r := &jobRec{j: t.job, id: t.job.ID, pending: true}
				w.jobs = append(w.jobs, r)
				obs = fmt.Sprintf("(TRet (RJob %d%%nat))", len(w.jobs)-1)
				if old := w.byID[r.id]; old != nil && old.pending {
					// the recorded finding, reproduced deterministically: both Task calls passed
					// the check before either inserted
					old.orphan = true
					tracked := c2.VerifC14Entry(w.s, r.id)
					fail(fmt.Sprintf("two overlapping Task calls registered job number %d; the first job is overwritten in the table "+
						"(tracked is the second: %v), stays pending and can only be released by Cancel", r.id, tracked == t.job),
						"concurrent-task-id-reuse")
				}
				w.byID[r.id] = r
			}
		}
	case "handle":
		tg := t.target
		if tg != nil && tg.orphan {
			tg = nil
			t.target = nil
		}
		if first && !complete {
			if tg == nil && !t.fin {
				fail("a result with a job number that is not pending passed the lookup", "seq:unknown-result-accepted")
			}
			if tg != nil && t.fin {
				fail("the result of a pending job was dropped at the lookup", "seq:result-dropped")
			}
		}
		if tg != nil {
			tg.inCS = t.parked && t.point == 3
		}
		if t.fin {
			obs = "(TRet (RBool " + vh.B(t.bret) + "))"
			live := tg != nil && tg.pending && !tg.orphan && w.byID[tg.id] == tg
			if live {
				if !t.bret {
					fail("the result of a pending job was not accepted", "seq:result-dropped")
				}
				tg.pending, tg.fin, tg.finKind, tg.finTag = false, 3, "result", t.tag
				if t.o.Err {
					tg.fin, tg.finKind = 4, "error result"
				}
				delete(w.byID, tg.id)
			} else if t.bret {
				fail("a result whose job was finished (or whose number was re-issued) since the lookup was accepted", "seq:unknown-result-accepted")
			}
		}
	case "cancel":
		obs = "(TRet RUnit)"
		if r := sw.rec(t.o.H); r != nil && r.pending {
			r.pending, r.fin, r.finKind = false, 5, "Cancel"
			if w.byID[r.id] == r {
				delete(w.byID, r.id)
			}
		}
	case "wait":
		r := sw.rec(t.o.H)
		if t.fin {
			obs = "(TRet RUnit)"
			if r != nil && r.pending {
				fail("Wait returned although the job is still pending", "seq:wait-returned-early")
			}
		} else if r != nil && !r.pending {
			fail("Wait blocks on a finished job", "seq:waiter-not-released")
		}
	case "isdone":
		obs = "(TRet (RBool " + vh.B(t.bret) + "))"
		if r := sw.rec(t.o.H); r != nil && t.bret == r.pending {
			fail(fmt.Sprintf("IsDone = %v on a job whose pending state is %v", t.bret, r.pending), "seq:isdone-wrong")
		}
	}
	w.oracleWith(fail, t.o.K)
	return fmt.Sprintf("CStep %s %s %s", segTerm, obs, w.snapshot()), false
}

// release everything that is still parked or blocked (not part of the case)
func (sw *sworld) cleanup() {
	sw.cur = nil
	parkedInside := false
	for _, t := range sw.all {
		if t.parked && t.point == 3 {
			parkedInside = true
		}
	}
	if !parkedInside && !c2.VerifC14LockFree(sw.s) {
		failOnce("Session.lock was left held at the end of the schedule", "sched:lock-left-held", map[string]interface{}{"threads": len(sw.all)})
		return
	}
	for _, t := range sw.all {
		if t.parked {
			t.parked = false
			t.resume <- struct{}{}
			select {
			case <-t.ev:
			case <-time.After(2 * time.Second):
			}
		}
	}
	for _, r := range sw.jobs {
		func() {
			defer func() { recover() }()
			if c2.VerifC14LockFree(sw.s) {
				r.j.Cancel()
			}
		}()
	}
	for _, t := range sw.all {
		if t.blocked {
			select {
			case <-t.ev:
			case <-time.After(2 * time.Second):
				failOnce("a goroutine blocked in Wait was not released by the final Cancel", "sched:waiter-never-released", map[string]interface{}{"op": t.o})
			}
		}
	}
}

var seenSched = map[string]bool{}

// doSched: setup ops run alone (complete), then the threads interleaved as the schedule says
// (an entry is a thread index; its first occurrence starts the thread, the second resumes it),
// then an epilogue of complete operations.
func doSched(setup, threads []op, schedule []int, epilogue []op, class string) {
	sw := newSWorld()
	desc := map[string]interface{}{"setup": setup, "threads": threads, "schedule": schedule, "epilogue": epilogue,
		"note": "schedule entry i = next segment of threads[i]: its first occurrence starts the goroutine and lets it run to its scheduling point " +
			"(handle: between lookup and finish; Task: between check and insert) or to its end, the second resumes it"}
	var steps []string
	nseg := 0
	fail := func(what, key string) {
		d := map[string]interface{}{}
		for k, v := range desc {
			d[k] = v
		}
		d["failing_segment"] = nseg
		failOnce(what, key, d)
	}
	stop := false
	run := func(t *cthread, complete bool) {
		if stop {
			return
		}
		term, hung := sw.seg(t, complete, fail)
		if hung {
			stop = true
			return
		}
		if term != "" {
			steps = append(steps, term)
			nseg++
		}
	}
	mk := func(o op) *cthread {
		t := &cthread{o: o, ev: make(chan int, 2), resume: make(chan struct{}, 1)}
		sw.all = append(sw.all, t)
		return t
	}
	for _, o := range setup {
		run(mk(o), true)
	}
	ts := make([]*cthread, len(threads))
	for i, o := range threads {
		ts[i] = mk(o)
	}
	for _, i := range schedule {
		run(ts[i], false)
	}
	// whatever is still parked runs to its end, in thread order
	for _, t := range ts {
		for n := 0; n < 3 && t.started && t.parked && !stop; n++ {
			run(t, false)
		}
	}
	for _, t := range ts {
		if t.started && !t.fin && !stop {
			run(t, false) // a Wait that was blocked: has it been released?
		}
	}
	for _, o := range epilogue {
		run(mk(o), true)
	}
	sw.cleanup()
	term := "CSched " + vh.List(steps)
	if seenSched[term] {
		return
	}
	seenSched[term] = true
	fin := 0
	for _, r := range sw.jobs {
		if !r.pending {
			fin++
		}
	}
	out.Add(term, class, fin > 0 && len(threads) > 1, desc)
}

// every order of the segments of the threads (segs[i] = how often thread i appears)
func interleavings(segs []int, f func([]int)) {
	total := 0
	for _, n := range segs {
		total += n
	}
	left := append([]int(nil), segs...)
	cur := make([]int, 0, total)
	var rec func()
	rec = func() {
		if len(cur) == total {
			f(append([]int(nil), cur...))
			return
		}
		for i := range left {
			if left[i] > 0 {
				left[i]--
				cur = append(cur, i)
				rec()
				cur = cur[:len(cur)-1]
				left[i]++
			}
		}
	}
	rec()
}

func segCount(o op) int {
	switch o.K {
	case "handle":
		if o.Info {
			return 3
		}
		return 2
	case "task", "wait":
		return 2
	}
	return 1
}

func schedPart(rng *vh.Rand, thorough bool) {
	T7 := op{K: "task", ID: 7}
	T8 := op{K: "task", ID: 8}
	T0 := op{K: "task", ID: 0}
	R7 := op{K: "handle", ID: 7}
	E7 := op{K: "handle", ID: 7, Err: true}
	R8 := op{K: "handle", ID: 8}
	C0 := op{K: "cancel", H: 0}
	C1 := op{K: "cancel", H: 1}
	W0 := op{K: "wait", H: 0}
	D0 := op{K: "isdone", H: 0}
	D1 := op{K: "isdone", H: 1}
	type prog struct {
		name            string
		setup, thr, epi []op
	}
	progs := []prog{
		// the number of a cancelled job re-issued while its late result is inside handle
		{"result||cancel||reissue", []op{T7}, []op{R7, C0, T7}, []op{R7, D0, D1}},
		{"result||result", []op{T7}, []op{R7, E7}, []op{D0}},
		{"result||cancel", []op{T7}, []op{R7, C0}, []op{R7, D0}},
		{"result||result||cancel", []op{T7}, []op{R7, E7, C0}, []op{D0}},
		{"result||cancel||cancel", []op{T7}, []op{E7, C0, C0}, []op{D0}},
		{"task||task", nil, []op{T7, T7}, []op{R7, D0, D1}},
		{"task||task||result", nil, []op{T7, T7, R7}, []op{D0, D1}},
		// the displaced job (both Task calls passed the check before either inserted) is cancelled:
		// the LIVE job registered under the number must stay in the table and get its result
		{"task||task;cancel-displaced", nil, []op{T7, T7}, []op{C0, R7, D0, D1}},
		{"task||task;cancel-live", nil, []op{T7, T7}, []op{C1, R7, D0, D1}},
		{"task||task||cancel", nil, []op{T7, T7, C0}, []op{R7, D0, D1}},
		{"task||task-allocated", nil, []op{T0, T0}, []op{D0, D1}},
		{"task||cancel||result", []op{T7}, []op{T7, C0, R7}, []op{R7, D0, D1}},
		{"result||cancel||wait||isdone", []op{T7}, []op{R7, C0, W0, D0}, nil},
		{"two-jobs", []op{T7, T8}, []op{R7, R8, C0, C1}, []op{D0, D1}},
		// error-flagged results with an empty text / a truncated text racing a Cancel
		{"empty-error||cancel", []op{T7}, []op{{K: "handle", ID: 7, Err: true, PL: 1}, C0}, []op{D0}},
		{"zero-byte-error||truncated-error", []op{T7}, []op{{K: "handle", ID: 7, Err: true, PL: 2}, {K: "handle", ID: 7, Err: true, PL: 5}}, []op{D0}},
		// an information job: the result thread can also be parked INSIDE its write-locked section
		// (handleInfoResult), where only the lock-free readers can run: they must not see it released
		{"info-result||isdone||wait", []op{{K: "task", ID: 7, Info: true}}, []op{{K: "handle", ID: 7, PL: 9, Info: true}, D0, W0}, []op{C0, D0}},
		{"info-result||isdone||isdone", []op{{K: "task", ID: 7, Info: true}}, []op{{K: "handle", ID: 7, PL: 9, Info: true}, D0, D0}, []op{R7, D0}},
	}
	for _, p := range progs {
		segs := make([]int, len(p.thr))
		for i, o := range p.thr {
			segs[i] = segCount(o)
		}
		interleavings(segs, func(s []int) { doSched(p.setup, p.thr, s, p.epi, "sched:"+p.name) })
	}
	// random programs and schedules
	pool := []op{R7, E7, R7, C0, C0, C1, T7, T7, T8, R8, W0, D0, D1, {K: "wait", H: 1}, {K: "handle", ID: 9}, T0,
		{K: "handle", ID: 7, Err: true, PL: 1}, {K: "handle", ID: 7, Err: true, PL: 2}, {K: "handle", ID: 7, Err: true, PL: 4}, {K: "handle", ID: 8, PL: 3}}
	n := 400
	if thorough {
		n = 6000
	}
	for k := 0; k < n; k++ {
		var setup []op
		if rng.Intn(4) != 0 {
			setup = append(setup, T7)
			if rng.Intn(3) == 0 {
				setup = append(setup, T8)
			}
		}
		nt := 2 + rng.Intn(3)
		thr := make([]op, nt)
		var sched []int
		for i := range thr {
			thr[i] = pool[rng.Intn(len(pool))]
			for c := 0; c < segCount(thr[i]); c++ {
				sched = append(sched, i)
			}
		}
		for i := len(sched) - 1; i > 0; i-- {
			j := rng.Intn(i + 1)
			sched[i], sched[j] = sched[j], sched[i]
		}
		doSched(setup, thr, sched, []op{R7, D0, D1}, "sched:random")
	}
}

// ------------------------------------------------------------------ stress (search only)

type stressFail struct {
	what, key string
	actors    []string
}

var lastActors string

var actorNames = []string{"result", "error-result", "duplicate-result", "cancel", "cancel", "wait", "isdone", "result", "cancel"}

func stressRound(r *vh.Rand, round int) (fail *stressFail) {
	defer func() { out.Count("stress", lastActors, true) }()
	s := c2.VerifC14Session()
	j, err := s.Task(&com.Packet{ID: pktTask})
	if err != nil {
		return &stressFail{what: "Task failed on a fresh session: " + err.Error(), key: "stress:task-failed"}
	}
	c2.VerifC14Drain(s)
	id := j.ID
	n := 2 + r.Intn(3)
	names := make([]string, n)
	// make sure that a result and a Cancel race in most rounds
	names[0], names[1] = "result", "cancel"
	if r.Intn(4) == 0 {
		names[0] = "error-result"
	}
	for i := 2; i < n; i++ {
		names[i] = actorNames[r.Intn(len(actorNames))]
	}
	lastActors = strings.Join(names, ",")
	var (
		start  uint32
		wg     sync.WaitGroup
		panics = make([]string, n)
		delays = make([]int, n)
	)
	for i := range delays {
		delays[i] = r.Intn(60)
	}
	pkts := make([]*com.Packet, n)
	for i := range pkts {
		p := &com.Packet{ID: c2.RvResult, Job: id, Device: s.ID}
		if names[i] == "error-result" {
			p.Flags |= com.FlagError
			p.WriteString("boom")
		}
		pkts[i] = p
	}
	wg.Add(n)
	for i := 0; i < n; i++ {
		go func(i int) {
			defer wg.Done()
			defer func() {
				if x := recover(); x != nil {
					panics[i] = fmt.Sprint(x)
				}
			}()
			for atomic.LoadUint32(&start) == 0 {
			}
			for k := 0; k < delays[i]; k++ {
				atomic.LoadUint32(&start)
			}
			switch names[i] {
			case "result", "error-result", "duplicate-result":
				c2.VerifC14Handle(s, pkts[i])
			case "cancel":
				j.Cancel()
			case "wait":
				j.Wait()
			case "isdone":
				j.IsDone()
			}
		}(i)
	}
	atomic.StoreUint32(&start, 1)
	fin := make(chan struct{})
	go func() { wg.Wait(); close(fin) }()
	hung := false
	select {
	case <-fin:
	case <-time.After(2 * time.Second):
		hung = true
	}
	for i, p := range panics {
		if p != "" {
			return &stressFail{what: fmt.Sprintf("%s panicked while racing %v: %s", names[i], names, p), key: "stress:panic:" + p, actors: names}
		}
	}
	if hung {
		return &stressFail{what: fmt.Sprintf("racing %v: a goroutine never returned (Wait not released or Session.lock left held)", names), key: "stress:hang", actors: names}
	}
	if !c2.VerifC14LockFree(s) {
		return &stressFail{what: fmt.Sprintf("racing %v left Session.lock held", names), key: "stress:lock-held", actors: names}
	}
	if c2.VerifC14Done(j) == 0 || !j.IsDone() {
		return &stressFail{what: fmt.Sprintf("racing %v: the job finished but its done channel is open", names), key: "stress:done-open", actors: names}
	}
	if len(c2.VerifC14Table(s)) != 0 {
		return &stressFail{what: fmt.Sprintf("racing %v: the job is still in the pending table", names), key: "stress:still-in-table", actors: names}
	}
	st := int(j.Status)
	has := func(k string) bool {
		for _, x := range names {
			if x == k {
				return true
			}
		}
		return false
	}
	okStatus := (st == 3 && (has("result") || has("duplicate-result"))) || (st == 4 && has("error-result")) || (st == 5 && has("cancel"))
	if !okStatus {
		return &stressFail{what: fmt.Sprintf("racing %v: final Status %d is not the status of any finishing event issued", names, st), key: "stress:status-of-no-event", actors: names}
	}
	// the final state must be that of ONE event (the first): a cancelled job carries no result,
	// a completed one carries its packet, an errored one its message
	switch {
	case st == 5 && (j.Result != nil || len(j.Error) > 0):
		return &stressFail{what: fmt.Sprintf("racing %v: Status is Canceled but a result was attributed to the job", names), key: "stress:status-mix", actors: names}
	case st == 3 && (j.Result == nil || len(j.Error) > 0):
		return &stressFail{what: fmt.Sprintf("racing %v: Status is Completed but Result/Error belong to another event", names), key: "stress:status-mix", actors: names}
	case st == 4 && (j.Result == nil || len(j.Error) == 0):
		return &stressFail{what: fmt.Sprintf("racing %v: Status is Error but Result/Error belong to another event", names), key: "stress:status-mix", actors: names}
	}
	if st == 3 || st == 4 {
		found := false
		for i, p := range pkts {
			if p == j.Result && ((st == 4) == (names[i] == "error-result")) && names[i] != "cancel" && names[i] != "wait" && names[i] != "isdone" {
				found = true
			}
		}
		if !found {
			return &stressFail{what: fmt.Sprintf("racing %v: Status %d does not match the packet stored in Result", names, st), key: "stress:status-mix", actors: names}
		}
	}
	return nil
}

// ---- readers (search only): what a thread sees at the moment the job is REPORTED done ----------
//
// Job.Wait / Job.IsDone look at Job.done only, without the lock.  The outcome (Status, Error,
// Result) has to be written before done is released: a reader that is told "done" and looks at
// the job must see the final outcome.  One poller (tight IsDone loop) and one Wait reader race
// one finisher (error result with text / empty text / info result / plain result / Cancel).

type outcome struct {
	st     int
	errLen int // only the length word of Job.Error is read: the string header may be half written
	res    *com.Packet
}

func look(j *c2.Job) outcome { return outcome{int(j.Status), len(j.Error), j.Result} }

var finisherNames = []string{"error-result", "error-result-empty", "result", "info-result", "cancel"}

func readerRound(r *vh.Rand, round int) *stressFail {
	kind := finisherNames[round%len(finisherNames)]
	out.Count("readers", kind, true)
	s := c2.VerifC14Session()
	id := uint8(pktTask)
	if kind == "info-result" {
		id = 0x08 // task.MvTime: handle calls handleInfoResult, which reads Job.Result
	}
	j, err := s.Task(&com.Packet{ID: id})
	if err != nil {
		return &stressFail{what: "Task failed on a fresh session: " + err.Error(), key: "readers:task-failed"}
	}
	c2.VerifC14Drain(s)
	p := &com.Packet{ID: c2.RvResult, Job: j.ID, Device: s.ID}
	switch kind {
	case "error-result":
		p.Flags |= com.FlagError
		p.WriteString("boom")
	case "error-result-empty":
		p.Flags |= com.FlagError
		p.WriteString("")
	case "info-result":
		p.WriteUint8(0)
		p.WriteInt64(int64(time.Second))
		p.WriteInt64(0)
		p.WriteUint32(0)
		p.WriteUint8(0)
	default:
		p.WriteString("fine")
	}
	var (
		start      uint32
		wg         sync.WaitGroup
		seenPoll   outcome
		seenWait   outcome
		pollPanic  string
		delay      = r.Intn(200)
	)
	wg.Add(3)
	go func() { // poller
		defer wg.Done()
		defer func() {
			if x := recover(); x != nil {
				pollPanic = fmt.Sprint(x)
			}
		}()
		for atomic.LoadUint32(&start) == 0 {
		}
		for !j.IsDone() {
		}
		seenPoll = look(j)
	}()
	go func() { // waiter
		defer wg.Done()
		defer func() { recover() }()
		j.Wait()
		seenWait = look(j)
	}()
	go func() { // finisher
		defer wg.Done()
		defer func() { recover() }()
		for atomic.LoadUint32(&start) == 0 {
		}
		for k := 0; k < delay; k++ {
			atomic.LoadUint32(&start)
		}
		if kind == "cancel" {
			j.Cancel()
		} else {
			c2.VerifC14Handle(s, p)
		}
	}()
	atomic.StoreUint32(&start, 1)
	fin := make(chan struct{})
	go func() { wg.Wait(); close(fin) }()
	select {
	case <-fin:
	case <-time.After(3 * time.Second):
		return &stressFail{what: "readers racing " + kind + ": a goroutine never returned", key: "readers:hang:" + kind, actors: []string{kind}}
	}
	if pollPanic != "" {
		return &stressFail{what: "IsDone panicked: " + pollPanic, key: "readers:panic", actors: []string{kind}}
	}
	final := look(j)
	d := func(o outcome) string {
		return fmt.Sprintf("(Status %d, len(Error) %d, Result set %v)", o.st, o.errLen, o.res != nil)
	}
	if seenPoll != final {
		return &stressFail{what: fmt.Sprintf("%s: a thread polling IsDone() was told the job is done and saw %s; the job ended as %s (outcome published before it was written)",
			kind, d(seenPoll), d(final)), key: "readers:poll-saw-unfinished:" + kind, actors: []string{"poll-isdone", kind}}
	}
	if seenWait != final {
		return &stressFail{what: fmt.Sprintf("%s: a thread released from Wait() saw %s; the job ended as %s", kind, d(seenWait), d(final)),
			key: "readers:wait-saw-unfinished:" + kind, actors: []string{"wait", kind}}
	}
	want := map[string]int{"error-result": 4, "error-result-empty": 4, "result": 3, "info-result": 3, "cancel": 5}[kind]
	if final.st != want {
		return &stressFail{what: fmt.Sprintf("%s: final Status %d, want %d", kind, final.st, want), key: "readers:final-status:" + kind, actors: []string{kind}}
	}
	return nil
}

// ---- fragmented results (oracle only): the real receive() frag branch ---------------------------
//
// A result may arrive in fragments (16-bit group chosen by the client).  Whatever fragments
// arrive, in whatever order: a job is only ever completed with data that was sent under ITS
// number, and fragments naming another job leave it alone.  Every fragment body is "<job:text>",
// so the assembled Result tells whose data it holds.

type fragSpec struct {
	Job, Group, Pos, Max int
	Body                 string
	Err                  bool `json:"flag_error,omitempty"` // this fragment carries FlagError
	Cancel               int  `json:"cancel,omitempty"` // instead of a fragment: 1 = Cancel(job 10), 2 = Task(10) again
}

var markRe = regexp.MustCompile(`<(\d+):`)

// wantDone: job -> exact payload (clean scenarios; nil: only the weak oracle).  A job whose
// fragments carry FlagError anywhere must end with Status error (4), otherwise completed (3).
func fragScenario(name string, fr []fragSpec, wantDone map[int]string) {
	out.Count("fragments", name, true)
	s := c2.VerifC14SessionSync()
	jobs := map[int]*c2.Job{}
	for _, id := range []int{10, 11} {
		j, err := s.Task(&com.Packet{ID: pktTask, Job: uint16(id)})
		if err != nil {
			out.Fail("Task failed on a fresh session: "+err.Error(), "frag:task-failed", map[string]interface{}{"scenario": name})
			return
		}
		jobs[id] = j
	}
	c2.VerifC14Drain(s)
	desc := map[string]interface{}{"scenario": name, "pending_jobs": []int{10, 11}, "fragments": fr}
	fail := func(what, key string) { failOnce(what, key, desc) }
	cancelled := map[*c2.Job]bool{}
	var reissued *c2.Job
	for i, f := range fr {
		func() {
			defer func() {
				if x := recover(); x != nil {
					fail(fmt.Sprintf("fragment %d: panic: %v", i, x), "frag:panic")
				}
			}()
			switch f.Cancel {
			case 1:
				jobs[10].Cancel()
				cancelled[jobs[10]] = true
				return
			case 2:
				j, err := s.Task(&com.Packet{ID: pktTask, Job: 10})
				if err == nil {
					reissued = j
				}
				c2.VerifC14Drain(s)
				return
			}
			n := &com.Packet{ID: c2.RvResult, Job: uint16(f.Job), Device: s.ID}
			n.Flags.SetGroup(uint16(f.Group))
			n.Flags.SetLen(uint16(f.Max))
			n.Flags.SetPosition(uint16(f.Pos))
			if f.Err {
				n.Flags |= com.FlagError
			}
			n.Write([]byte(f.Body))
			c2.VerifC14Receive(s, n)
			c2.VerifC14Drain(s)
		}()
		// after every fragment: whose data does each finished job hold?
		check := func(id int, j *c2.Job) {
			if j == nil || j.Result == nil {
				return
			}
			pl := string(j.Result.Payload())
			for _, m := range markRe.FindAllStringSubmatch(pl, -1) {
				if m[1] != fmt.Sprint(id) {
					fail(fmt.Sprintf("after fragment %d: job %d was completed (Status %d) with %q: it holds data sent under job number %s",
						i, id, int(j.Status), pl, m[1]), "frag:foreign-data")
					return
				}
			}
		}
		check(10, jobs[10])
		check(11, jobs[11])
		check(10, reissued)
		for j := range cancelled {
			if int(j.Status) != 5 || j.Result != nil {
				fail(fmt.Sprintf("after fragment %d: a cancelled job changed (Status %d, Result set %v)", i, int(j.Status), j.Result != nil), "frag:cancelled-job-changed")
			}
		}
	}
	for id, j := range jobs {
		want, should := wantDone[id]
		anyErr := false
		for _, f := range fr {
			if f.Job == id && f.Err {
				anyErr = true
			}
		}
		switch {
		case should && !j.IsDone():
			fail(fmt.Sprintf("job %d did not complete although all its fragments arrived in order", id), "frag:not-completed")
		case should && anyErr:
			// an error result: the text is whatever ReadString makes of the payload; the Status is error
			if int(j.Status) != 4 {
				fail(fmt.Sprintf("job %d: a fragment of its result carries FlagError, final Status is %d (len(Error) %d), want 4 (error)", id, int(j.Status), len(j.Error)),
					"frag:error-flag-lost")
			}
		case should && (j.Result == nil || string(j.Result.Payload()) != want || int(j.Status) != 3):
			got := ""
			if j.Result != nil {
				got = string(j.Result.Payload())
			}
			fail(fmt.Sprintf("job %d completed with %q (Status %d), want %q", id, got, int(j.Status), want), "frag:wrong-payload")
		case !should && wantDone != nil && !cancelled[j] && j.IsDone():
			fail(fmt.Sprintf("job %d finished (Status %d) although no complete result of its own arrived", id, int(j.Status)), "frag:finished-without-result")
		case !should && wantDone != nil && !cancelled[j] && c2.VerifC14Entry(s, uint16(id)) != j && reissued == nil:
			fail(fmt.Sprintf("job %d left the table without a result", id), "frag:left-table")
		}
	}
}

func fragPart(rng *vh.Rand, thorough bool) {
	F := func(job, g, pos, max int, txt string) fragSpec {
		return fragSpec{Job: job, Group: g, Pos: pos, Max: max, Body: fmt.Sprintf("<%d:%s>", job, txt)}
	}
	none := map[int]string{}
	fragScenario("in-order", []fragSpec{F(10, 0x55, 0, 2, "head"), F(10, 0x55, 1, 2, "tail")}, map[int]string{10: "<10:head><10:tail>"})
	fragScenario("three", []fragSpec{F(11, 7, 0, 3, "a"), F(11, 7, 1, 3, "b"), F(11, 7, 2, 3, "c")}, map[int]string{11: "<11:a><11:b><11:c>"})
	fragScenario("single-fragment-group", []fragSpec{F(10, 9, 0, 1, "only")}, map[int]string{10: "<10:only>"})
	// a fragment naming ANOTHER pending job inside the group of job 10
	fragScenario("foreign-fragment", []fragSpec{F(10, 0x55, 0, 2, "head"), F(11, 0x55, 1, 2, "tail")}, none)
	fragScenario("foreign-fragment-then-own", []fragSpec{F(10, 0x55, 0, 2, "head"), F(11, 0x55, 1, 2, "tail"), F(10, 0x55, 1, 2, "tail")},
		map[int]string{10: "<10:head><10:tail>"})
	fragScenario("foreign-first", []fragSpec{F(11, 0x55, 0, 2, "head"), F(10, 0x55, 1, 2, "tail")}, none)
	fragScenario("foreign-middle-of-three", []fragSpec{F(10, 3, 0, 3, "a"), F(11, 3, 1, 3, "b"), F(11, 3, 2, 3, "c")}, none)
	fragScenario("two-groups-interleaved", []fragSpec{F(10, 1, 0, 2, "a"), F(11, 2, 0, 2, "x"), F(10, 1, 1, 2, "b"), F(11, 2, 1, 2, "y")},
		map[int]string{10: "<10:a><10:b>", 11: "<11:x><11:y>"})
	fragScenario("unknown-job-group", []fragSpec{F(12, 4, 0, 2, "a"), F(12, 4, 1, 2, "b")}, none)
	// FlagError on none / all / only a later / only the first fragment of 2..4
	for nf := 2; nf <= 4; nf++ {
		for mode := 0; mode < 5; mode++ {
			fs := make([]fragSpec, nf)
			want := ""
			for i := range fs {
				fs[i] = F(10, 0x20+nf, i, nf, string(rune('a'+i)))
				want += fs[i].Body
				switch mode {
				case 1:
					fs[i].Err = true
				case 2:
					fs[i].Err = i == nf-1
				case 3:
					fs[i].Err = i == 0
				case 4:
					fs[i].Err = i == 1
				}
			}
			fragScenario(fmt.Sprintf("error-flag-%d-fragments-mode-%d", nf, mode), fs, map[int]string{10: want})
		}
	}
	// duplicates and a stale group: only "no foreign data / cancelled job untouched" is claimed
	fragScenario("duplicate-fragment", []fragSpec{F(10, 5, 0, 2, "head"), F(10, 5, 0, 2, "head")}, nil)
	fragScenario("stale-group-after-cancel", []fragSpec{F(10, 6, 0, 2, "head"), {Cancel: 1}, F(10, 6, 1, 2, "tail")}, nil)
	fragScenario("stale-group-after-reissue", []fragSpec{F(10, 6, 0, 2, "head"), {Cancel: 1}, {Cancel: 2}, F(10, 6, 1, 2, "tail"), F(11, 6, 1, 2, "tail")}, nil)
	fragScenario("position-without-group", []fragSpec{F(10, 8, 1, 2, "tail"), F(11, 8, 1, 2, "tail")}, none)
	n := 300
	if thorough {
		n = 5000
	}
	for k := 0; k < n; k++ {
		m := 2 + rng.Intn(5)
		fr := make([]fragSpec, m)
		for i := range fr {
			max := 2 + rng.Intn(2)
			fr[i] = F(10+rng.Intn(3), 1+rng.Intn(2), rng.Intn(max), max, string(rune('a'+i)))
		}
		fragScenario("random", fr, nil)
	}
}

// ---- fatal errors of the Go run time (child process) --------------------------------------------
//
// "concurrent map read and map write" cannot be recovered: the stress that could provoke it runs
// in a child process (this binary with C14_CHILD set); a crash of the child is a violation.

func childMain(kind string) {
	d := 1500 * time.Millisecond
	if v := os.Getenv("C14_CHILD_MS"); v != "" {
		var ms int
		fmt.Sscan(v, &ms)
		d = time.Duration(ms) * time.Millisecond
	}
	runtime.GOMAXPROCS(runtime.NumCPU())
	s := c2.VerifC14Session()
	var (
		stop   uint32
		rounds int64
		wg     sync.WaitGroup
	)
	worker := func(seed uint64, what int) {
		defer wg.Done()
		r := vh.NewRand(seed)
		for atomic.LoadUint32(&stop) == 0 {
			func() {
				defer func() { recover() }()
				id := uint16(2 + r.Intn(24))
				switch what {
				case 0: // Task, then its result
					if _, err := s.Task(&com.Packet{ID: pktTask, Job: id}); err == nil {
						c2.VerifC14Handle(s, &com.Packet{ID: c2.RvResult, Job: id, Device: s.ID})
					}
				case 1: // Task, then Cancel
					if j, err := s.Task(&com.Packet{ID: pktTask, Job: id}); err == nil {
						j.Cancel()
					}
				case 2: // results for whatever is pending
					c2.VerifC14Handle(s, &com.Packet{ID: c2.RvResult, Job: id, Device: s.ID})
				case 3: // the readers of the table
					s.Jobs()
					if j := s.Job(id); j != nil {
						j.IsDone()
					}
				}
				c2.VerifC14Drain(s)
				atomic.AddInt64(&rounds, 1)
			}()
		}
	}
	for i := 0; i < 8; i++ {
		wg.Add(1)
		go worker(uint64(100+i), i%4)
	}
	time.Sleep(d)
	atomic.StoreUint32(&stop, 1)
	fin := make(chan struct{})
	go func() { wg.Wait(); close(fin) }()
	select {
	case <-fin:
	case <-time.After(5 * time.Second):
		fmt.Println("child: workers did not stop (lock left held?)")
		os.Exit(3)
	}
	fmt.Printf("child ok kind=%s rounds=%d\n", kind, atomic.LoadInt64(&rounds))
}

func runChild(thorough bool) {
	ms := "1500"
	if thorough {
		ms = "15000"
	}
	cmd := exec.Command(os.Args[0])
	cmd.Env = append(os.Environ(), "C14_CHILD=task-vs-result", "C14_CHILD_MS="+ms)
	var buf bytes.Buffer
	cmd.Stdout, cmd.Stderr = &buf, &buf
	done := make(chan error, 1)
	if err := cmd.Start(); err != nil {
		out.Note("child process could not be started: " + err.Error())
		return
	}
	go func() { done <- cmd.Wait() }()
	var err error
	select {
	case err = <-done:
	case <-time.After(60 * time.Second):
		cmd.Process.Kill()
		err = fmt.Errorf("child did not finish in 60 s")
	}
	o := buf.String()
	out.Count("child", "task-vs-result", true)
	if err != nil {
		first := ""
		for _, l := range strings.Split(o, "\n") {
			if strings.HasPrefix(l, "fatal error:") || strings.HasPrefix(l, "panic:") || strings.HasPrefix(l, "child:") {
				first = l
				break
			}
		}
		if len(o) > 1500 {
			o = o[:1500]
		}
		out.Fail("the child process running 8 goroutines of Task+result / Task+Cancel / results / Jobs+Job+IsDone on ONE session for "+ms+" ms crashed: "+first+" ("+err.Error()+")",
			"child:crash:"+first, map[string]interface{}{"workers": []string{"Task(id);handle(id)", "Task(id);Cancel", "handle(id)", "Jobs();Job(id).IsDone()"},
				"ids": "2..25", "goroutines": 8, "milliseconds": ms, "output_head": o})
		return
	}
	out.Extra("child", strings.TrimSpace(o))
}

// two Task calls with the same number at the same time: both must not succeed
func taskRace(r *vh.Rand) (both bool, detail map[string]interface{}) {
	s := c2.VerifC14Session()
	var (
		start uint32
		wg    sync.WaitGroup
		js    [2]*c2.Job
		es    [2]error
	)
	wg.Add(2)
	for i := 0; i < 2; i++ {
		go func(i int) {
			defer wg.Done()
			defer func() { recover() }()
			for atomic.LoadUint32(&start) == 0 {
			}
			js[i], es[i] = s.Task(&com.Packet{ID: pktTask, Job: 7})
		}(i)
	}
	atomic.StoreUint32(&start, 1)
	wg.Wait()
	if js[0] != nil && js[1] != nil && es[0] == nil && es[1] == nil {
		e := c2.VerifC14Entry(s, 7)
		lost := 0
		if e == js[0] {
			lost = 1
		}
		// the orphan can never complete: deliver the result and look
		c2.VerifC14Handle(s, &com.Packet{ID: c2.RvResult, Job: 7, Device: s.ID})
		return true, map[string]interface{}{"number": 7, "both_succeeded": true, "table_entries": 1,
			"orphan_done_state_after_result": c2.VerifC14Done(js[lost]), "orphan_status_after_result": int(js[lost].Status)}
	}
	return false, nil
}

func main() {
	if k := os.Getenv("C14_CHILD"); k != "" {
		childMain(k)
		return
	}
	fl := vh.ParseFlags()
	out = vh.NewOut("C14", fl, "From XMT Require Import Base.Prelude Model.Job.", "case", "check",
		"sequential operation sequences (Task explicit/allocated/duplicate/full queue, result normal/error/duplicate/unknown/malformed, Cancel repeated, "+
			"Wait with timeout, IsDone, Jobs, Job, hasJob, accept, frag) on a real server-side Session compared step by step (return value, every job's "+
			"Status/done/Result/Frags/Error, the table) with the model: corpus, every sequence over a 12-letter alphabet up to length L, random longer ones; "+
			"then racing goroutines (search only); distinct = distinct Coq case term / distinct racing actor multiset, non-trivial = at least one job finished")
	out.ShardSize = 500
	rng := vh.NewRand(fl.Seed)
	thorough := fl.Tier == "thorough"
	t0 := time.Now()

	// ---- corpus
	T7 := op{K: "task", ID: 7}
	T0 := op{K: "task", ID: 0}
	R7 := op{K: "handle", ID: 7}
	E7 := op{K: "handle", ID: 7, Err: true}
	C0 := op{K: "cancel", H: 0}
	C1 := op{K: "cancel", H: 1}
	W0 := op{K: "wait", H: 0}
	D0 := op{K: "isdone", H: 0}
	corpus := [][]op{
		{T7, C0},                 // DESIGN section 6: Cancel must record StatusCanceled
		{T7, C0, C0, D0, W0},     // repeated Cancel
		{T7, C0, R7, D0},         // result for a cancelled number is ignored
		{T7, R7, R7, C0, W0},     // duplicate result, Cancel after completion
		{T7, E7, R7, D0},         // error first, then a normal duplicate
		{T7, R7, E7},             // normal first, then an error duplicate
		{T7, R7, T7, C0, R7, D0}, // number reused after completion; Cancel of the OLD job must not touch the new one
		{T7, C0, T7, C0, R7, C1}, // number reused after cancellation
		{T7, T7},                 // duplicate registration refused
		{T0, T0, T0, {K: "jobs"}},
		{{K: "handle", ID: 9}, {K: "handle", ID: 0}, {K: "handle", ID: 1}},
		{{K: "task", ID: 1}, {K: "handle", ID: 1}, C0},
		{T7, {K: "handle", ID: 7, WF: 1}, {K: "handle", ID: 7, WF: 2}, D0},
		{{K: "task", ID: 7, Full: true}, T7, R7},
		{T7, W0, R7, W0},
		// error-flagged results: the Status is error whatever the text is (empty string, the single
		// zero byte of a failed fragment write, no payload, truncated / malformed string headers)
		{T7, {K: "handle", ID: 7, Err: true, PL: 1}, D0},
		{T7, {K: "handle", ID: 7, Err: true, PL: 2}, D0},
		{T7, {K: "handle", ID: 7, Err: true, PL: 3}, D0},
		{T7, {K: "handle", ID: 7, Err: true, PL: 4}, D0},
		{T7, {K: "handle", ID: 7, Err: true, PL: 5}, D0},
		{T7, {K: "handle", ID: 7, Err: true, PL: 6}, D0},
		{T7, {K: "handle", ID: 7, Err: true, PL: 7}, D0},
		{T7, {K: "handle", ID: 7, Err: true, PL: 8}, D0},
		{T7, {K: "handle", ID: 7, PL: 1}, D0},
		{T7, {K: "handle", ID: 7, PL: 3}, D0},
		{T7, {K: "handle", ID: 7, PL: 5}, R7, D0},
		// information jobs (handleInfoResult reads Job.Result under the lock)
		{{K: "task", ID: 7, Info: true}, {K: "handle", ID: 7, PL: 9}, D0, W0},
		{{K: "task", ID: 7, Info: true}, {K: "handle", ID: 7, PL: 3}, D0},
		{{K: "task", ID: 7, Info: true}, {K: "handle", ID: 7, Err: true, PL: 1}, D0},
		{T7, {K: "accept", ID: 7}, {K: "frag", ID: 7, Max: 2}, {K: "frag", ID: 7, Max: 2}, R7, {K: "accept", ID: 7}, {K: "frag", ID: 7, Max: 1}},
		{{K: "cancel", H: 3}, {K: "wait", H: 3}, {K: "isdone", H: 3}, {K: "new"}, {K: "job", ID: 7}, {K: "hasjob", ID: 7}},
		{T7, {K: "task", ID: 8}, {K: "task", ID: 65535}, {K: "jobs"}, {K: "job", ID: 8}, {K: "hasjob", ID: 8}, {K: "handle", ID: 8}, {K: "jobs"}, C0, {K: "jobs"}},
	}
	for _, c := range corpus {
		doSeq(c, "corpus")
	}
	// ---- every sequence over the alphabet up to length L
	L := 3
	if thorough {
		L = 4
	}
	al := alphabet()
	var rec func(cur []op)
	rec = func(cur []op) {
		if len(cur) > 0 {
			doSeq(append([]op(nil), cur...), fmt.Sprintf("exhaustive-len%d", len(cur)))
		}
		if len(cur) == L {
			return
		}
		for _, a := range al {
			rec(append(cur, a))
		}
	}
	rec(nil)
	// ---- random longer sequences
	nr := 2500
	if thorough {
		nr = 40000
	}
	for i := 0; i < nr; i++ {
		n := 3 + rng.Intn(12)
		seq := make([]op, 0, n)
		nj := 0
		for k := 0; k < n; k++ {
			o := randOp(rng, nj)
			if k == 0 && rng.Intn(4) != 0 {
				o = op{K: "task", ID: 7}
			}
			if o.K == "task" {
				nj++ // an upper bound: handles past the end are nil jobs
			}
			seq = append(seq, o)
		}
		doSeq(seq, "random")
	}
	out.Extra("sequential_seconds", time.Since(t0).Seconds())

	// ---- fragmented results through the real receive()
	fragPart(rng, thorough)
	// ---- run-time fatal errors (child process)
	runChild(thorough)

	// ---- deterministic interleavings through the scheduling points of the code
	ts := time.Now()
	schedPart(rng, thorough)
	out.Extra("scheduled", map[string]interface{}{"distinct_cases": len(seenSched), "seconds": time.Since(ts).Seconds()})

	// ---- number allocation against a nearly full table (oracle only)
	{
		s := c2.VerifC14Session()
		free := map[uint16]bool{}
		for len(free) < 300 {
			free[uint16(2+rng.Intn(65534))] = true
		}
		for i := 2; i < 65536; i++ {
			if !free[uint16(i)] {
				if _, err := s.Task(&com.Packet{ID: pktTask, Job: uint16(i)}); err != nil {
					out.Fail("Task refused a free number while filling the table: "+err.Error(), "full-table:fill", map[string]interface{}{"number": i})
					break
				}
				c2.VerifC14Drain(s)
			}
		}
		got, zero := 0, 0
		for k := 0; k < 400 && len(free) > 0; k++ {
			j, err := s.Task(&com.Packet{ID: pktTask})
			c2.VerifC14Drain(s)
			if err != nil {
				zero++
				out.Count("full-table-alloc", "refused", false)
				continue
			}
			if j.ID < 2 || !free[j.ID] {
				out.Fail(fmt.Sprintf("Task handed out number %d which is 0, 1 or pending (table holds all but %d numbers)", j.ID, len(free)),
					"full-table:job-id-pending", map[string]interface{}{"number": int(j.ID), "free": len(free)})
			}
			delete(free, j.ID)
			got++
			out.Count("full-table-alloc", fmt.Sprint(j.ID), true)
		}
		out.Extra("full_table", map[string]int{"allocated": got, "refused_after_512_draws": zero})
	}

	// ---- stress: racing goroutines on one job (search only)
	rounds, budget := 150000, 35*time.Second
	if thorough {
		rounds, budget = 6000000, 9*time.Minute
	}
	runtime.GOMAXPROCS(runtime.NumCPU())
	t1 := time.Now()
	done := 0
	failed := map[string]bool{}
	for i := 0; i < rounds && time.Since(t1) < budget; i++ {
		f := stressRound(rng, i)
		done++
		if f == nil {
			continue
		}
		if !failed[f.key] {
			failed[f.key] = true
			out.Fail(f.what, f.key, map[string]interface{}{"racing": f.actors, "round": i, "fresh_session_per_round": true})
		}
		if len(failed) >= 4 {
			break
		}
	}
	out.Extra("stress", map[string]interface{}{"rounds": done, "seconds": time.Since(t1).Seconds(), "failures": len(failed)})

	// ---- readers: released implies final (search only)
	rrounds, rbudget := 60000, 15*time.Second
	if thorough {
		rrounds, rbudget = 2000000, 4*time.Minute
	}
	t3 := time.Now()
	rdone := 0
	rfailed := map[string]bool{}
	for i := 0; i < rrounds && time.Since(t3) < rbudget; i++ {
		f := readerRound(rng, i)
		rdone++
		if f == nil {
			continue
		}
		if !rfailed[f.key] {
			rfailed[f.key] = true
			out.Fail(f.what, f.key, map[string]interface{}{"racing": f.actors, "round": i, "fresh_session_per_round": true})
		}
		if len(rfailed) >= 6 {
			break
		}
	}
	out.Extra("readers", map[string]interface{}{"rounds": rdone, "seconds": time.Since(t3).Seconds(), "failures": len(rfailed)})

	// ---- known finding: concurrent Task calls with the same number
	trials, hit := 0, false
	maxTrials := 60000
	t2 := time.Now()
	for trials < maxTrials && time.Since(t2) < 10*time.Second {
		trials++
		if both, d := taskRace(rng); both {
			d["trial"] = trials
			d["observed_on"] = "implementation (two goroutines, Task with Job=7 each, fresh Session)"
			if failCount["concurrent-task-id-reuse"] == 0 {
				out.Fail("two concurrent Task calls registered the same job number; the first job is overwritten in the table and never completes",
					"concurrent-task-id-reuse", d)
			}
			out.Extra("task_race_free_running", d)
			hit = true
			break
		}
	}
	if !hit && failCount["concurrent-task-id-reuse"] == 0 {
		out.Fail("two concurrent Task calls can register the same job number (check under RLock, insert under a later Lock)",
			"concurrent-task-id-reuse", map[string]interface{}{
				"observed_on": "model only in this run (the goroutine race was not hit in " + fmt.Sprint(trials) + " trials)",
				"witness_schedule": "Spawn Task(7); Spawn Task(7); Run 0 x3 (check passes); Run 1 x3 (check passes); Run 0 (insert); Run 1 (insert overwrites)",
				"coq": "Props/C14.v C14_task_id_race_refuted (Proofs/Job.v task_id_race_refuted)"})
	}
	out.Extra("task_race", map[string]interface{}{"trials": trials, "observed_on_implementation": hit})
	out.Note("real goroutine schedules are only sampled by the stress run; the theorems cover every interleaving of the modelled atomic steps")
	out.Finish()
	if len(os.Args) < 0 {
		fmt.Println()
	}
}
