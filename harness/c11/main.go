// C11 harness: data.Chunk (the packet buffer) against the Gallina model (cases_*.v) and against
// an independent plain byte queue (Go-side oracle).
//
// One case = one operation sequence on a fresh Chunk.  After EVERY operation the harness records
// the return value, Size/Remaining/Space/Empty, cap(buf) and buf==nil (shim) and Payload; the
// same sequence is replayed by the model inside Coq with cap(buf) as the allocator oracle.
package main

import (
	"bytes"
	"errors"
	"fmt"
	"io"
	"math"
	"net"
	"os"
	"strings"
	"time"

	"github.com/iDigitalFlame/xmt/data"

	"verifharness/vh"
)

var out *vh.Out

// ---------------------------------------------------------------- data generator / digest
// (the same two functions exist in coq/Model/Chunk.v: gen, digest)

func gen(seed, n int) []byte {
	b := make([]byte, n)
	v := ((seed % 251) + 251) % 251
	for i := range b {
		b[i] = byte(v)
		if v++; v == 251 {
			v = 0
		}
	}
	return b
}
func digest(b []byte) uint64 {
	var a, s uint64
	for _, x := range b {
		a += uint64(x) + 1
		s += a
	}
	return a%65521 + 65536*(s%65521)
}
func dobs(b []byte) string {
	if len(b) <= 8 {
		return "(DLit " + vh.Bytes(b) + ")"
	}
	return fmt.Sprintf("(DSum %d %d)", len(b), digest(b))
}
func genTerm(seed, n int) string {
	if n == 0 {
		return "[]"
	}
	return fmt.Sprintf("(gen %d %d)", ((seed%251)+251)%251, n)
}

// ---------------------------------------------------------------- errors

var (
	errSink = errors.New("sink full")
	errSrc  = errors.New("source failed")
)

func ecode(err error) int {
	switch err {
	case nil:
		return 0
	case io.EOF:
		return 1
	case io.ErrUnexpectedEOF:
		return 2
	case data.ErrInvalidType:
		return 3
	case data.ErrTooLarge:
		return 4
	case data.ErrLimit:
		return 5
	case io.ErrShortWrite:
		return 6
	case data.ErrInvalidIndex:
		return 7
	case errSink:
		return 90
	case errSrc:
		return 91
	}
	if err != nil && strings.Contains(err.Error(), "whence") || err != nil && err.Error() == "0x27" {
		return 8
	}
	return 99
}

// ---------------------------------------------------------------- operations

type Src struct {
	Seed int `json:"seed"`
	N    int `json:"n"`
	Err  int `json:"err,omitempty"` // delivered together with the last bytes of this chunk: 1 EOF, 91 errSrc
}

type Op struct {
	K    string `json:"k"`
	Seed int    `json:"seed,omitempty"`
	N    int    `json:"n,omitempty"`
	V    uint64 `json:"v,omitempty"`
	W    int    `json:"w,omitempty"`
	P    int    `json:"p,omitempty"`
	Off  int64  `json:"off,omitempty"`
	Wh   int    `json:"wh,omitempty"`
	Var  int    `json:"var,omitempty"`
	Src  []Src  `json:"src,omitempty"`
	Rel  int    `json:"rel,omitempty"` // wpos: 1,2,3 = position Size-W-1, Size-W, Size-W+1 (resolved to P when the op runs)
}

// the stream an UnmarshalStream reads: the encoding of gen(Seed, N), cut to P bytes when Var == 1
func unmarshalStream(o Op) []byte {
	enc := encBytes(gen(o.Seed, o.N))
	if o.Var == 1 {
		t := o.P
		if t >= len(enc) {
			t = len(enc) - 1
		}
		if t < 0 {
			t = 0
		}
		enc = enc[:t]
	}
	return enc
}

type readRec struct {
	seed, n, err, cap, req int
}

type Ret struct {
	kind  string // none err ne val data writeto readfrom panic
	n     int64
	e     int
	v     uint64
	d     []byte
	lens  []int
	reqs  []int
	reads []readRec
	pmsg  string
}

func (r Ret) coq() string {
	switch r.kind {
	case "none":
		return "XNone"
	case "err":
		return fmt.Sprintf("(XErr %d)", r.e)
	case "ne":
		return fmt.Sprintf("(XNE %s %d)", vh.Z(r.n), r.e)
	case "val":
		return fmt.Sprintf("(XVal %s %d)", vh.ZU(r.v), r.e)
	case "data":
		return fmt.Sprintf("(XData %s %d)", dobs(r.d), r.e)
	case "data-noval": // StringVal / ReadBytes drop the partial data on error: only the error is observed
		return fmt.Sprintf("(XData DAny %d)", r.e)
	case "writeto":
		return fmt.Sprintf("(XWriteTo %s %d %s %s)", vh.Z(r.n), r.e, ints(r.lens), dobs(r.d))
	case "readfrom":
		return fmt.Sprintf("(XReadFrom %s %d %s)", vh.Z(r.n), r.e, ints(r.reqs))
	}
	return "XPanic"
}
func ints(v []int) string {
	x := make([]int64, len(v))
	for i := range v {
		x[i] = int64(v[i])
	}
	return vh.ZList64(x)
}

func (o Op) coq(r Ret) string {
	switch o.K {
	case "write":
		return "(OWrite " + genTerm(o.Seed, o.N) + ")"
	case "wfixed":
		return fmt.Sprintf("(OWriteFixed %d %s)", o.W, vh.ZU(o.V))
	case "wbytes":
		return "(OWriteBytes " + genTerm(o.Seed, o.N) + ")"
	case "wpos":
		return fmt.Sprintf("(OWritePos %d %d %s)", o.W, o.P, vh.ZU(o.V))
	case "read":
		return fmt.Sprintf("(ORead %d)", o.N)
	case "rfixed":
		return fmt.Sprintf("(OReadFixed %d)", o.W)
	case "bytes":
		return "OBytes"
	case "seek":
		return fmt.Sprintf("(OSeek %s %d)", vh.Z(o.Off), o.Wh)
	case "trunc":
		return fmt.Sprintf("(OTruncate %s)", vh.Z(int64(o.N)))
	case "grow":
		return fmt.Sprintf("(OGrow %s)", vh.Z(int64(o.N)))
	case "reset":
		return "OReset"
	case "clear":
		return "OClear"
	case "writeto":
		return fmt.Sprintf("(OWriteTo %s)", vh.Z(int64(o.N)))
	case "readfrom":
		it := make([]string, len(r.reads))
		for i, x := range r.reads {
			it[i] = fmt.Sprintf("(%s,%d,%d)", genTerm(x.seed, x.n), x.err, x.cap)
		}
		return "(OReadFrom " + vh.List(it) + ")"
	case "unmarshal":
		if o.Var == 0 {
			return "(OUnmarshal (Some " + genTerm(o.Seed, o.N) + ") 0)"
		}
		return fmt.Sprintf("(OUnmarshal None %d)", r.e)
	case "marshal":
		return "OMarshal"
	}
	panic("unknown op " + o.K)
}

func mask(w int, v uint64) uint64 {
	if w >= 8 {
		return v
	}
	return v & (1<<(8*uint(w)) - 1)
}

// a Writer that accepts `budget` bytes in total and then fails (keeping the io.Writer contract)
type sink struct {
	budget int
	got    []byte
	lens   []int
}

func (s *sink) Write(p []byte) (int, error) {
	s.lens = append(s.lens, len(p))
	if len(p) <= s.budget {
		s.got = append(s.got, p...)
		s.budget -= len(p)
		return len(p), nil
	}
	n := s.budget
	if n < 0 {
		n = 0
	}
	s.got = append(s.got, p[:n]...)
	s.budget = 0
	return n, errSink
}

// a Reader that hands out the source chunk by chunk (short reads, empty reads, error with data)
type source struct {
	c    *data.Chunk
	src  []Src
	i    int
	off  int
	recs []readRec
}

func (s *source) Read(p []byte) (int, error) {
	if k := len(s.recs); k > 0 {
		s.recs[k-1].cap = data.VerifChunkCap(s.c)
	}
	if s.i >= len(s.src) {
		s.recs = append(s.recs, readRec{req: len(p), err: 1})
		return 0, io.EOF
	}
	ch := s.src[s.i]
	b := gen(ch.Seed+s.off, ch.N-s.off)
	n := copy(p, b)
	rec := readRec{seed: ch.Seed + s.off, n: n, req: len(p)}
	s.off += n
	var err error
	if s.off >= ch.N {
		s.i, s.off = s.i+1, 0
		switch ch.Err {
		case 1:
			err = io.EOF
		case 91:
			err = errSrc
		}
		rec.err = ch.Err
	}
	s.recs = append(s.recs, rec)
	return n, err
}

func exec(c *data.Chunk, o Op) (r Ret) {
	defer func() {
		if x := recover(); x != nil {
			r = Ret{kind: "panic", pmsg: fmt.Sprint(x)}
		}
	}()
	switch o.K {
	case "write":
		n, err := c.Write(gen(o.Seed, o.N))
		return Ret{kind: "ne", n: int64(n), e: ecode(err)}
	case "wfixed":
		var err error
		switch o.W {
		case 1:
			switch {
			case o.Var%3 == 2 && o.V <= 1:
				err = c.WriteBool(o.V == 1)
			case o.Var%3 == 1:
				err = c.WriteInt8(int8(o.V))
			default:
				err = c.WriteUint8(uint8(o.V))
			}
		case 2:
			if o.Var%2 == 0 {
				err = c.WriteUint16(uint16(o.V))
			} else {
				err = c.WriteInt16(int16(o.V))
			}
		case 4:
			switch o.Var % 3 {
			case 0:
				err = c.WriteUint32(uint32(o.V))
			case 1:
				err = c.WriteInt32(int32(o.V))
			default:
				err = c.WriteFloat32(math.Float32frombits(uint32(o.V)))
			}
		default:
			switch o.Var % 6 {
			case 0:
				err = c.WriteUint64(o.V)
			case 1:
				err = c.WriteInt64(int64(o.V))
			case 2:
				err = c.WriteInt(int(o.V))
			case 3:
				err = c.WriteUint(uint(o.V))
			case 4:
				err = c.WriteFloat64(math.Float64frombits(o.V))
			default:
				err = c.WriteUint64(o.V)
			}
		}
		return Ret{kind: "err", e: ecode(err)}
	case "wbytes":
		var err error
		if o.Var%2 == 0 {
			err = c.WriteBytes(gen(o.Seed, o.N))
		} else {
			err = c.WriteString(string(gen(o.Seed, o.N)))
		}
		return Ret{kind: "err", e: ecode(err)}
	case "wpos":
		var err error
		switch o.W {
		case 1:
			if o.Var%2 == 1 && o.V <= 1 {
				err = c.WriteBoolPos(o.P, o.V == 1)
			} else {
				err = c.WriteUint8Pos(o.P, uint8(o.V))
			}
		case 2:
			err = c.WriteUint16Pos(o.P, uint16(o.V))
		case 4:
			err = c.WriteUint32Pos(o.P, uint32(o.V))
		default:
			err = c.WriteUint64Pos(o.P, o.V)
		}
		return Ret{kind: "err", e: ecode(err)}
	case "unmarshal":
		err := c.UnmarshalStream(data.NewReader(bytes.NewReader(unmarshalStream(o))))
		return Ret{kind: "err", e: ecode(err)}
	case "marshal":
		var d data.Chunk
		err := c.MarshalStream(&d)
		return Ret{kind: "data", d: append([]byte(nil), d.Payload()...), e: ecode(err)}
	case "read":
		p := make([]byte, o.N)
		n, err := c.Read(p)
		return Ret{kind: "data", d: append([]byte(nil), p[:n]...), e: ecode(err)}
	case "rfixed":
		var (
			v   uint64
			err error
		)
		switch o.W {
		case 1:
			switch o.Var % 3 {
			case 0:
				var x uint8
				x, err = c.Uint8()
				v = uint64(x)
			case 1:
				var x int8
				x, err = c.Int8()
				v = uint64(uint8(x))
			default:
				var x uint8
				err = c.ReadUint8(&x)
				v = uint64(x)
			}
		case 2:
			switch o.Var % 3 {
			case 0:
				var x uint16
				x, err = c.Uint16()
				v = uint64(x)
			case 1:
				var x int16
				x, err = c.Int16()
				v = uint64(uint16(x))
			default:
				var x uint16
				err = c.ReadUint16(&x)
				v = uint64(x)
			}
		case 4:
			switch o.Var % 3 {
			case 0:
				var x uint32
				x, err = c.Uint32()
				v = uint64(x)
			case 1:
				var x int32
				x, err = c.Int32()
				v = uint64(uint32(x))
			default:
				var x uint32
				err = c.ReadUint32(&x)
				v = uint64(x)
			}
		default:
			switch o.Var % 5 {
			case 0:
				v, err = c.Uint64()
			case 1:
				var x int64
				x, err = c.Int64()
				v = uint64(x)
			case 2:
				var x int
				x, err = c.Int()
				v = uint64(x)
			case 3:
				var x uint
				x, err = c.Uint()
				v = uint64(x)
			default:
				err = c.ReadUint64(&v)
			}
		}
		if err != nil {
			v = 0
		}
		return Ret{kind: "val", v: v, e: ecode(err)}
	case "bytes":
		var (
			b   []byte
			err error
		)
		switch o.Var % 4 {
		case 0, 2:
			b, err = c.Bytes()
		case 1:
			var s string
			s, err = c.StringVal()
			b = []byte(s)
			if err != nil {
				return Ret{kind: "data-noval", e: ecode(err)}
			}
		default:
			err = c.ReadBytes(&b)
			if err != nil {
				return Ret{kind: "data-noval", e: ecode(err)}
			}
		}
		return Ret{kind: "data", d: append([]byte(nil), b...), e: ecode(err)}
	case "seek":
		n, err := c.Seek(o.Off, o.Wh)
		return Ret{kind: "ne", n: n, e: ecode(err)}
	case "trunc":
		return Ret{kind: "err", e: ecode(c.Truncate(o.N))}
	case "grow":
		return Ret{kind: "err", e: ecode(c.Grow(o.N))}
	case "reset":
		c.Reset()
		return Ret{kind: "none"}
	case "clear":
		c.Clear()
		return Ret{kind: "none"}
	case "writeto":
		s := &sink{budget: o.N}
		n, err := c.WriteTo(s)
		return Ret{kind: "writeto", n: n, e: ecode(err), lens: s.lens, d: s.got}
	case "readfrom":
		s := &source{c: c, src: o.Src}
		n, err := c.ReadFrom(s)
		if k := len(s.recs); k > 0 {
			s.recs[k-1].cap = data.VerifChunkCap(c)
		}
		reqs := make([]int, len(s.recs))
		for i, x := range s.recs {
			reqs[i] = x.req
		}
		return Ret{kind: "readfrom", n: n, e: ecode(err), reqs: reqs, reads: s.recs}
	}
	panic("unknown op " + o.K)
}

// ---------------------------------------------------------------- the Go-side oracle: a plain byte queue

type queue struct {
	past []byte // bytes already read that a Seek may re-expose (trimmed to what the buffer retains)
	q    []byte // unread bytes
}

type snap struct {
	size, rem, space int
	empty            bool
	pay              []byte
	cap              int
	isnil            bool
	rpos             int
}

func take(c *data.Chunk) (s snap, ok bool) {
	defer func() {
		if recover() != nil {
			ok = false
		}
	}()
	s.size, s.rem, s.space, s.empty = c.Size(), c.Remaining(), c.Space(), c.Empty()
	s.pay = append([]byte(nil), c.Payload()...)
	s.cap, s.isnil, s.rpos = data.VerifChunkCap(c), data.VerifChunkNil(c), data.VerifChunkRpos(c)
	return s, true
}

func eqb(a, b []byte) bool {
	if len(a) != len(b) {
		return false
	}
	for i := range a {
		if a[i] != b[i] {
			return false
		}
	}
	return true
}

func beBytes(w int, v uint64) []byte {
	b := make([]byte, w)
	for i := 0; i < w; i++ {
		b[w-1-i] = byte(v >> (8 * uint(i)))
	}
	return b
}
func encBytes(b []byte) []byte {
	l := uint64(len(b))
	var h []byte
	switch {
	case l == 0:
		return []byte{0}
	case l < 256:
		h = []byte{1, byte(l)}
	case l < 65536:
		h = append([]byte{3}, beBytes(2, l)...)
	case l < 1<<32:
		h = append([]byte{5}, beBytes(4, l)...)
	default:
		h = append([]byte{7}, beBytes(8, l)...)
	}
	return append(h, b...)
}

type failure struct {
	what, key string
	step      int
}

// apply updates the queue by the property's specification and reports what the
// implementation did differently.  limit = Chunk.Limit.
func (m *queue) apply(limit int, o Op, r Ret, before, after snap) (what, key string) {
	if r.kind == "panic" {
		return fmt.Sprintf("%s panicked: %s", o.K, r.pmsg), "panic:" + o.K
	}
	bad := func(s, k string) (string, string) { return s, k }
	switch o.K {
	case "write":
		b := gen(o.Seed, o.N)
		n := int(r.n)
		if n < 0 || n > len(b) {
			return bad(fmt.Sprintf("Write of %d bytes reports %d accepted", len(b), n), "write-count-range")
		}
		if r.e == 0 && n != len(b) {
			return bad(fmt.Sprintf("Write accepted %d of %d bytes without an error", n, len(b)), "write-short-no-error")
		}
		if n < len(b) && r.e != 5 && r.e != 4 {
			return bad(fmt.Sprintf("Write refused %d bytes with error code %d (not the limit error)", len(b)-n, r.e), "write-refusal-error")
		}
		if r.e != 0 && limit <= 0 && r.e == 5 {
			return bad("Write returned the limit error on a Chunk without limit", "write-limit-without-limit")
		}
		m.q = append(m.q, b[:n]...)
	case "wfixed", "wbytes":
		var enc []byte
		if o.K == "wfixed" {
			enc = beBytes(o.W, mask(o.W, o.V))
		} else {
			enc = encBytes(gen(o.Seed, o.N))
		}
		if r.e == 0 {
			m.q = append(m.q, enc...)
		} else {
			if after.size != before.size || !eqb(after.pay, before.pay) {
				return bad(fmt.Sprintf("typed write (%s, %d bytes encoded) returned error code %d but changed the buffer: Size %d -> %d, Payload %d -> %d bytes",
					o.K, len(enc), r.e, before.size, after.size, len(before.pay), len(after.pay)), "typed-write-error-changed-buffer:"+o.K)
			}
			if limit <= 0 {
				return bad(fmt.Sprintf("typed write (%s) failed with code %d on a Chunk without limit", o.K, r.e), "typed-write-error-without-limit:"+o.K)
			}
		}
	case "unmarshal":
		if o.Var == 0 {
			if r.e != 0 {
				return bad(fmt.Sprintf("UnmarshalStream of a complete stream (%d payload bytes) failed with code %d", o.N, r.e), "unmarshal-good-refused")
			}
			m.q, m.past = append([]byte(nil), gen(o.Seed, o.N)...), nil
		} else {
			if r.e == 0 {
				return bad(fmt.Sprintf("UnmarshalStream of a stream cut to %d bytes reported no error", len(unmarshalStream(o))), "unmarshal-truncated-accepted")
			}
			m.q, m.past = nil, nil
		}
	case "marshal":
		if r.e != 0 || !eqb(r.d, encBytes(m.q)) {
			return bad(fmt.Sprintf("MarshalStream wrote %d bytes (code %d), not the encoding of the %d unread bytes", len(r.d), r.e, len(m.q)), "marshal-data")
		}
	case "wpos":
		if r.e != 0 && o.P >= 0 && o.P+o.W <= before.size && (limit <= 0 || o.P+o.W <= limit) {
			return bad(fmt.Sprintf("Write*Pos(%d) of %d bytes inside a buffer of %d bytes (Limit %d) refused with code %d", o.P, o.W, before.size, limit, r.e),
				fmt.Sprintf("wpos-refused-in-range:%d", o.W))
		}
		if r.e == 0 {
			// positional store into the buffer at absolute index P
			rp := before.size - len(m.q)
			enc := beBytes(o.W, mask(o.W, o.V))
			for i, x := range enc {
				p := o.P + i
				if p >= rp {
					if p-rp >= len(m.q) {
						return bad("positional write beyond the end accepted", "wpos-beyond-end")
					}
					m.q[p-rp] = x
				} else if k := len(m.past) - rp + p; k >= 0 && k < len(m.past) {
					m.past[k] = x
				}
			}
		}
	case "read":
		k := o.N
		if k > len(m.q) {
			k = len(m.q)
		}
		if !eqb(r.d, m.q[:k]) {
			return bad(fmt.Sprintf("Read(%d) returned %d bytes that are not the next %d bytes written", o.N, len(r.d), k), "read-data")
		}
		if r.e != 0 && !(r.e == 1 && k == 0) {
			return bad(fmt.Sprintf("Read returned error code %d with %d bytes", r.e, k), "read-error")
		}
		// a drained queue reports EOF to a reader that asks for bytes (io.ReadFull and
		// ReadFrom loops over the Chunk rely on it to terminate)
		if len(m.q) == 0 && o.N > 0 && r.e != 1 {
			return bad(fmt.Sprintf("Read(%d) on an empty buffer returned (%d, code %d), not EOF", o.N, len(r.d), r.e), "read-empty-no-eof")
		}
		m.past = append(m.past, m.q[:k]...)
		m.q = m.q[k:]
	case "rfixed":
		if len(m.q) < o.W {
			if r.e != 1 {
				return bad(fmt.Sprintf("Uint%d on %d remaining bytes returned code %d, not EOF", 8*o.W, len(m.q), r.e), "rfixed-short")
			}
		} else {
			var v uint64
			for _, x := range m.q[:o.W] {
				v = v<<8 | uint64(x)
			}
			if r.e != 0 || r.v != v {
				return bad(fmt.Sprintf("Uint%d returned (%d, code %d), the next bytes encode %d", 8*o.W, r.v, r.e, v), "rfixed-value")
			}
			m.past = append(m.past, m.q[:o.W]...)
			m.q = m.q[o.W:]
		}
	case "bytes":
		// decode by the format: tag, big-endian length, payload
		want, werr, used := decodeBytes(m.q)
		if r.e != werr {
			return bad(fmt.Sprintf("Bytes returned code %d, the format says %d", r.e, werr), "bytes-error")
		}
		if r.kind == "data" && !eqb(r.d, want) {
			return bad(fmt.Sprintf("Bytes returned %d bytes, the format says %d", len(r.d), len(want)), "bytes-data")
		}
		m.past = append(m.past, m.q[:used]...)
		m.q = m.q[used:]
	case "seek":
		if r.e == 0 {
			rp := before.size - len(m.q)
			p := int(r.n)
			var want int64
			switch o.Wh {
			case 0:
				want = o.Off
			case 1:
				want = o.Off + int64(rp)
			case 2:
				want = o.Off + int64(before.size)
			}
			if int64(p) != want || p < 0 || p > before.size {
				return bad(fmt.Sprintf("Seek(%d,%d) at cursor %d size %d moved to %d", o.Off, o.Wh, rp, before.size, p), "seek-position")
			}
			all := append(append([]byte(nil), m.past...), m.q...)
			cut := len(m.past) - rp + p
			if cut < 0 {
				return bad("Seek re-exposed bytes that were never read", "seek-before-history")
			}
			m.past, m.q = all[:cut], all[cut:]
		} else {
			// refused: nothing may change
		}
	case "trunc":
		switch {
		case o.N == 0:
			if r.e != 0 {
				return bad("Truncate(0) failed", "truncate-zero")
			}
			m.q, m.past = nil, nil
		case o.N < 0 || o.N > len(m.q):
			if r.e != 7 {
				return bad(fmt.Sprintf("Truncate(%d) with %d unread bytes returned code %d", o.N, len(m.q), r.e), "truncate-range")
			}
		default:
			if r.e != 0 {
				return bad(fmt.Sprintf("Truncate(%d) with %d unread bytes failed with code %d", o.N, len(m.q), r.e), "truncate-valid")
			}
			m.q = m.q[:o.N]
		}
	case "grow":
		if o.N <= 0 && r.e != 7 {
			return bad("Grow(n<=0) accepted", "grow-nonpositive")
		}
	case "reset", "clear":
		m.q, m.past = nil, nil
	case "writeto":
		n := int(r.n)
		if n < 0 || n > len(m.q) || !eqb(r.d, m.q[:n]) {
			return bad(fmt.Sprintf("WriteTo reported %d bytes; the writer received %d bytes which are not the next bytes of the queue (%d unread)", n, len(r.d), len(m.q)), "writeto-data")
		}
		if r.e == 0 && n != len(m.q) {
			return bad(fmt.Sprintf("WriteTo stopped after %d of %d bytes without an error", n, len(m.q)), "writeto-short")
		}
		m.past = append(m.past, m.q[:n]...)
		m.q = m.q[n:]
	case "readfrom":
		var all []byte
		for _, x := range r.reads {
			all = append(all, gen(x.seed, x.n)...)
		}
		t := int(r.n)
		if t < 0 || t > len(all) {
			return bad(fmt.Sprintf("ReadFrom reports %d bytes, the reader handed out %d", t, len(all)), "readfrom-count")
		}
		if limit <= 0 && t != len(all) {
			return bad(fmt.Sprintf("ReadFrom without limit kept %d of the %d bytes the reader handed out", t, len(all)), "readfrom-lost")
		}
		m.q = append(m.q, all[:t]...)
	}
	// ---- what must hold after every operation
	if after.rpos > after.size {
		return fmt.Sprintf("after %s the read cursor (%d) is beyond the buffer (%d bytes)", o.K, after.rpos, after.size), "cursor-beyond-size:" + o.K
	}
	if !eqb(after.pay, m.q) {
		return fmt.Sprintf("after %s the unread bytes (Payload, %d bytes) are not what the byte queue holds (%d bytes)", o.K, len(after.pay), len(m.q)), "payload-mismatch:" + o.K
	}
	if after.rem != len(m.q) || after.empty != (len(m.q) == 0) {
		return fmt.Sprintf("after %s Remaining=%d Empty=%v but the queue holds %d bytes", o.K, after.rem, after.empty, len(m.q)), "remaining-mismatch:" + o.K
	}
	if limit > 0 && after.size > limit {
		return fmt.Sprintf("after %s the buffer holds %d bytes, more than its Limit %d", o.K, after.size, limit), "limit-exceeded:" + o.K
	}
	// retained history: the buffer cannot retain more read bytes than were read
	rp := after.size - len(m.q)
	if rp > len(m.past) {
		return fmt.Sprintf("after %s the read cursor is %d but only %d read bytes exist", o.K, rp, len(m.past)), "cursor-beyond-history:" + o.K
	}
	m.past = m.past[len(m.past)-rp:]
	return "", ""
}

// decodeBytes: the length-prefixed format read by Chunk.Bytes, from the specification
// (tag 0: empty; 1/2: 8-bit, 3/4: 16-bit, 5/6: 32-bit, 7/8: 64-bit big-endian length).
// Returns the bytes, the error code and how many queue bytes are consumed.
func decodeBytes(q []byte) ([]byte, int, int) {
	if len(q) < 1 {
		return nil, 1, 0
	}
	var w int
	switch q[0] {
	case 0:
		return nil, 0, 1
	case 1, 2:
		w = 1
	case 3, 4:
		w = 2
	case 5, 6:
		w = 4
	case 7, 8:
		w = 8
	default:
		return nil, 3, 1
	}
	if len(q) < 1+w {
		return nil, 1, 1
	}
	var l uint64
	for _, x := range q[1 : 1+w] {
		l = l<<8 | uint64(x)
	}
	if l == 0 {
		return nil, 2, 1 + w
	}
	if l > data.MaxSlice {
		return nil, 4, 1 + w
	}
	if uint64(len(q)-1-w) < l {
		return q[1+w:], 1, len(q)
	}
	return q[1+w : 1+w+int(l)], 0, 1 + w + int(l)
}

// ---------------------------------------------------------------- running one sequence

type Seq struct {
	Limit int  `json:"limit"`
	Init  *Src `json:"init,omitempty"` // NewChunk(gen(seed, n))
	Ops   []Op `json:"ops"`
}

type result struct {
	steps   []string // Coq terms (op, obs)
	fails   []failure
	tags    map[string]bool
	nOps    int
	panicAt int
}

func runSeq(s Seq, wantTerms bool) result {
	var c *data.Chunk
	m := &queue{}
	if s.Init != nil {
		b := gen(s.Init.Seed, s.Init.N)
		c = data.NewChunk(b)
		c.Limit = s.Limit
		m.q = append([]byte(nil), b...)
	} else {
		c = &data.Chunk{Limit: s.Limit}
	}
	res := result{tags: map[string]bool{}, panicAt: -1}
	before, _ := take(c)
	for i, o := range s.Ops {
		if o.K == "wpos" && o.Rel != 0 {
			o.P = clampPos(c.Size() - o.W + o.Rel - 2)
			o.Rel = 0
			s.Ops[i] = o
		}
		r := exec(c, o)
		var after snap
		ok := true
		if r.kind != "panic" {
			after, ok = take(c)
		}
		if !ok {
			r = Ret{kind: "panic", pmsg: "observer panicked"}
		}
		res.nOps++
		if wantTerms {
			obs := fmt.Sprintf("Obs %s %d %d %s %s %d %s %s", r.coq(), after.size, after.rem, vh.Z(int64(after.space)), vh.B(after.empty),
				after.cap, vh.B(after.isnil), dobs(after.pay))
			res.steps = append(res.steps, "("+o.coq(r)+", "+obs+")")
		}
		// path tags (which branch of grow / limit handling ran)
		switch {
		case r.kind == "panic":
			res.tags["panic"] = true
		case before.isnil && !after.isnil:
			res.tags["make64-or-alloc"] = true
		case after.cap != before.cap && !after.isnil:
			res.tags["realloc"] = true
		case before.rpos > 0 && after.rpos == 0 && after.rem > 0 && (o.K == "write" || o.K == "wfixed" || o.K == "wbytes" || o.K == "grow" || o.K == "readfrom"):
			res.tags["slide"] = true
		}
		if o.K == "write" && r.e == 5 {
			if r.n == 0 {
				res.tags["write-refused"] = true
			} else {
				res.tags["write-partial"] = true
			}
		}
		if (o.K == "wfixed" || o.K == "wbytes") && r.e == 5 {
			res.tags["typed-refused"] = true
		}
		if (o.K == "read" || o.K == "rfixed" || o.K == "bytes" || o.K == "writeto") && after.rem < before.rem {
			res.tags["delivered"] = true
		}
		if o.K == "seek" && r.e == 0 {
			res.tags["seek"] = true
		}
		what, key := m.apply(s.Limit, o, r, before, after)
		if key != "" {
			res.fails = append(res.fails, failure{what, key, i})
			if r.kind == "panic" {
				res.panicAt = i
			}
			break // the queue and the buffer have diverged; later steps say nothing new
		}
		before = after
	}
	return res
}

func hasKey(s Seq, key string) bool {
	for _, f := range runSeq(s, false).fails {
		if f.key == key {
			return true
		}
	}
	return false
}

// delta debugging on the operation list: the smallest sub-sequence that still fails with the same key
func shrink(s Seq, key string) Seq {
	ops := s.Ops
	// cut everything after the failing step first
	if r := runSeq(s, false); len(r.fails) > 0 {
		ops = ops[:r.fails[0].step+1]
	}
	n := 2
	for len(ops) >= 2 {
		chunk := (len(ops) + n - 1) / n
		reduced := false
		for start := 0; start < len(ops); start += chunk {
			end := start + chunk
			if end > len(ops) {
				end = len(ops)
			}
			cand := append(append([]Op(nil), ops[:start]...), ops[end:]...)
			if len(cand) > 0 && hasKey(Seq{s.Limit, s.Init, cand}, key) {
				ops = cand
				if n > 2 {
					n--
				}
				reduced = true
				break
			}
		}
		if !reduced {
			if n >= len(ops) {
				break
			}
			n *= 2
			if n > len(ops) {
				n = len(ops)
			}
		}
	}
	// then smaller sizes inside the remaining operations
	for i := range ops {
		for _, k := range []int{0, 1, 2, 8, 64} {
			if ops[i].N > k && (ops[i].K == "write" || ops[i].K == "wbytes" || ops[i].K == "read") {
				c := append([]Op(nil), ops...)
				c[i].N = k
				if hasKey(Seq{s.Limit, s.Init, c}, key) {
					ops = c
					break
				}
			}
		}
	}
	out := Seq{s.Limit, s.Init, ops}
	if s.Init != nil && hasKey(Seq{s.Limit, nil, ops}, key) {
		out.Init = nil
	}
	return out
}

var (
	pathCount = map[string]int{}
	reported  = map[string]int{}
)

func doSeq(class string, s Seq) {
	r := runSeq(s, true)
	emitted := s.Ops[:r.nOps]
	for t := range r.tags {
		pathCount[t]++
	}
	nontrivial := r.tags["delivered"] && (r.tags["realloc"] || r.tags["slide"] || r.tags["write-partial"] ||
		r.tags["write-refused"] || r.tags["typed-refused"] || r.tags["make64-or-alloc"])
	init := "None"
	if s.Init != nil {
		init = "(Some " + genTerm(s.Init.Seed, s.Init.N) + ")"
	}
	term := fmt.Sprintf("Case %s %s [\n  %s]", vh.Z(int64(s.Limit)), init, strings.Join(r.steps, ";\n  "))
	out.Add(term, class, nontrivial, Seq{s.Limit, s.Init, emitted})
	for _, f := range r.fails {
		if reported[f.key] >= 3 {
			out.Fail(f.what, f.key, map[string]interface{}{"limit": s.Limit, "init": s.Init, "ops": emitted, "failing_step": f.step})
			continue
		}
		reported[f.key]++
		m := shrink(s, f.key)
		mr := runSeq(m, false)
		what := f.what
		step := f.step
		for _, g := range mr.fails {
			if g.key == f.key {
				what, step = g.what, g.step
			}
		}
		out.Fail(what, f.key, map[string]interface{}{"limit": m.Limit, "init": m.Init, "ops": m.Ops, "failing_step": step,
			"shrunk_from_ops": len(s.Ops), "class": class})
	}
}

// ---------------------------------------------------------------- generators

var limits = []int{0, 1, 2, 8, 9, 10, 64, 65, 1000, 16384, 20000}

type profile struct {
	name    string
	sizes   []int // write sizes
	maxOps  int
	limits  []int
	bigProb int // percent of writes taken from the 16 KiB boundary sizes
}

var bigSizes = []int{16383, 16384, 16385}

func genOp(rng *vh.Rand, p profile, lim int, approxLen *int) Op {
	size := func() int {
		if p.bigProb > 0 && rng.Intn(100) < p.bigProb {
			return rng.Pick(bigSizes)
		}
		if rng.Intn(6) == 0 {
			return rng.Intn(140)
		}
		if lim > 0 && rng.Intn(4) == 0 {
			// around the limit and the space left
			return clampPos(lim - 3 + rng.Intn(7))
		}
		return rng.Pick(p.sizes)
	}
	w := []int{1, 2, 4, 8}[rng.Intn(4)]
	switch x := rng.Intn(107); {
	case x >= 100 && x < 102:
		return Op{K: "wpos", W: w, Rel: 1 + rng.Intn(3), V: mask(w, rng.U64()), Var: rng.Intn(2)}
	case x >= 102 && x < 106:
		n := size()
		if lim > 0 && n > lim {
			n = lim // UnmarshalStream does not look at the Limit; the Limit theorems exclude it
		}
		o := Op{K: "unmarshal", Seed: rng.Intn(251), N: n}
		if rng.Intn(3) == 0 {
			o.Var, o.P = 1, rng.Intn(n+3)
			n = 0
		}
		*approxLen = n
		return o
	case x == 106:
		return Op{K: "marshal"}
	case x < 22:
		n := size()
		*approxLen += n
		return Op{K: "write", Seed: rng.Intn(251), N: n}
	case x < 34:
		return Op{K: "wfixed", W: w, V: mask(w, rng.U64()), Var: rng.Intn(6)}
	case x < 42:
		n := size()
		if n > 300 && rng.Intn(3) > 0 {
			n = rng.Pick([]int{0, 1, 2, 254, 255, 256, 257})
		}
		*approxLen += n
		return Op{K: "wbytes", Seed: rng.Intn(251), N: n, Var: rng.Intn(2)}
	case x < 56:
		var n int
		switch rng.Intn(5) {
		case 0:
			n = 0
		case 1:
			n = 1
		case 2:
			n = *approxLen
		case 3:
			n = rng.Intn(*approxLen + 2)
		default:
			n = rng.Pick(p.sizes)
		}
		return Op{K: "read", N: n}
	case x < 64:
		return Op{K: "rfixed", W: w, Var: rng.Intn(15)}
	case x < 69:
		return Op{K: "bytes", Var: rng.Intn(4)}
	case x < 75:
		wh := rng.Intn(3)
		var off int64
		switch wh {
		case 0:
			off = int64(rng.Intn(*approxLen+3)) - 1
		case 1:
			off = int64(rng.Intn(2**approxLen+3)) - int64(*approxLen) - 1
		default:
			off = -int64(rng.Intn(*approxLen+3)) + 1
		}
		if rng.Intn(20) == 0 {
			wh = 3 + rng.Intn(3)
		}
		if rng.Intn(40) == 0 {
			off = []int64{math.MaxInt64, math.MinInt64, math.MaxInt64 - 1, -1 << 40}[rng.Intn(4)]
		}
		return Op{K: "seek", Off: off, Wh: wh}
	case x < 80:
		n := rng.Intn(*approxLen+3) - 1
		if rng.Intn(3) == 0 {
			n = rng.Intn(4)
		}
		return Op{K: "trunc", N: n}
	case x < 85:
		n := size()
		if rng.Intn(8) == 0 {
			n = -rng.Intn(3)
		}
		return Op{K: "grow", N: n}
	case x < 88:
		*approxLen = 0
		return Op{K: "reset"}
	case x < 90:
		*approxLen = 0
		return Op{K: "clear"}
	case x < 94:
		b := 1 << 30
		if rng.Intn(3) == 0 {
			b = rng.Intn(*approxLen + 2)
		}
		return Op{K: "writeto", N: b}
	case x < 98:
		k := rng.Intn(4)
		var src []Src
		for i := 0; i < k; i++ {
			n := size()
			if rng.Intn(8) == 0 {
				n = 0
			}
			e := 0
			if i == k-1 && rng.Intn(3) == 0 {
				e = 1
			}
			if rng.Intn(12) == 0 {
				e = 91
			}
			*approxLen += n
			src = append(src, Src{Seed: rng.Intn(251), N: n, Err: e})
		}
		return Op{K: "readfrom", Src: src}
	default:
		return Op{K: "wpos", W: w, P: rng.Intn(*approxLen + 3), V: mask(w, rng.U64()), Var: rng.Intn(2)}
	}
}
func um(n, cut int) Op {
	o := Op{K: "unmarshal", Seed: 11, N: n}
	if cut >= 0 {
		o.Var, o.P = 1, cut
	}
	return o
}

// write n bytes, read k, then a positional write of every width at 0 and around Size-w, then read everything
func wposGrid(n, k int) []Op {
	ops := []Op{{K: "write", Seed: 3, N: n}, {K: "read", N: k}}
	for _, w := range []int{1, 2, 4, 8} {
		ops = append(ops, Op{K: "wpos", W: w, P: 0, V: mask(w, 0x0102030405060708)})
		for rel := 1; rel <= 3; rel++ {
			ops = append(ops, Op{K: "wpos", W: w, Rel: rel, V: mask(w, 0xF1F2F3F4F5F6F7F8)})
		}
	}
	return append(ops, Op{K: "marshal"}, Op{K: "read", N: n + 1})
}

func clampPos(n int) int {
	if n < 0 {
		return 0
	}
	return n
}

func genSeq(rng *vh.Rand, p profile) Seq {
	lim := rng.Pick(p.limits)
	s := Seq{Limit: lim}
	approx := 0
	if rng.Intn(10) == 0 {
		n := rng.Pick([]int{0, 1, 5, 64, 100})
		if lim > 0 && n > lim {
			n = lim
		}
		s.Init = &Src{Seed: rng.Intn(251), N: n}
		approx = n
	}
	k := 1 + rng.Intn(p.maxOps)
	for i := 0; i < k; i++ {
		s.Ops = append(s.Ops, genOp(rng, p, lim, &approx))
	}
	return s
}

// regression corpus: the minimised histories of every defect found so far (all repaired) and the
// recorded behaviours that are not violations
func corpus() []Seq {
	w := func(n int) Op { return Op{K: "write", Seed: 1, N: n} }
	rd := func(n int) Op { return Op{K: "read", N: n} }
	wb := func(n int) Op { return Op{K: "wbytes", Seed: 7, N: n} }
	return []Seq{
		// WriteBytes under a limit left one stray byte (fixed)
		{Limit: 10, Ops: []Op{wb(20)}},
		{Limit: 10, Ops: []Op{wb(8), wb(7), wb(6), wb(0)}},
		{Limit: 300, Ops: []Op{wb(255), wb(256), wb(40)}},
		// WriteBytes after a partial read: second reservation slid / reallocated, stale index (fixed)
		{Limit: 0, Ops: []Op{w(60), rd(58), wb(10), rd(100)}},
		{Limit: 0, Ops: []Op{w(60), rd(10), wb(40), rd(200)}},
		// slide ignored the limit (fixed)
		{Limit: 8, Ops: []Op{w(8), rd(6), w(8), rd(20)}},
		{Limit: 20, Ops: []Op{w(20), rd(18), w(50)}},
		// Read on a never-written Chunk: io.EOF like any drained Chunk (was (0, nil) forever; fixed)
		{Limit: 0, Ops: []Op{rd(4), rd(0), w(0), rd(4), w(1), rd(4), rd(4)}},
		// typed writes never fill the last byte
		{Limit: 8, Ops: []Op{{K: "wfixed", W: 8, V: 1}, {K: "wfixed", W: 4, V: 1}, {K: "wfixed", W: 2, V: 1}, {K: "wfixed", W: 1, V: 1}, {K: "wfixed", W: 1, V: 2}, w(1)}},
		// a limited Write that needs reallocation refuses everything
		{Limit: 100, Ops: []Op{w(60), w(50), w(40)}},
		{Limit: 20000, Ops: []Op{w(16384), w(16384), w(3616), w(1)}},
		// growth chain without limit, drain, write after full drain
		{Limit: 0, Ops: []Op{w(1), w(63), w(1), w(64), w(129), rd(258), rd(1), w(5), rd(5)}},
		{Limit: 0, Ops: []Op{w(16385), rd(16384), w(16383), {K: "writeto", N: 1 << 30}}},
		{Limit: 0, Ops: []Op{w(40000), {K: "writeto", N: 20000}, {K: "writeto", N: 1 << 30}}},
		// WriteTo into writers that take k bytes and then fail: k at, just below and just above the
		// 16 KiB block boundary, k = 0, and after a partial read (the count reported, the bytes the
		// writer received and the bytes consumed must all be k)
		{Limit: 0, Ops: []Op{w(40000), {K: "writeto", N: 16384}, {K: "writeto", N: 1 << 30}}},
		{Limit: 0, Ops: []Op{w(40000), {K: "writeto", N: 16383}, rd(2), {K: "writeto", N: 16385}, {K: "writeto", N: 1 << 30}}},
		{Limit: 0, Ops: []Op{w(33000), rd(100), {K: "writeto", N: 32768}, {K: "writeto", N: 0}, {K: "writeto", N: 1}, rd(200)}},
		{Limit: 0, Ops: []Op{w(100), rd(10), {K: "writeto", N: 0}, {K: "writeto", N: 1}, {K: "writeto", N: 88}, {K: "writeto", N: 5}, rd(4)}},
		// seek back and forth, truncate, grow
		{Limit: 0, Ops: []Op{w(10), rd(4), {K: "seek", Off: 0, Wh: 0}, rd(10), {K: "seek", Off: -3, Wh: 2}, {K: "trunc", N: 2}, rd(5), {K: "grow", N: 100}, w(3), rd(3)}},
		{Limit: 64, Ops: []Op{{K: "grow", N: 100}, w(70), {K: "grow", N: 1}, rd(64), {K: "grow", N: 1}, w(1)}},
		// ReadFrom with split sources, with and without limit
		{Limit: 0, Ops: []Op{{K: "readfrom", Src: []Src{{1, 10, 0}, {2, 0, 0}, {3, 5, 0}}}, rd(20)}},
		{Limit: 0, Ops: []Op{{K: "readfrom", Src: []Src{{1, 16385, 0}, {2, 3, 1}}}, rd(16390)}},
		{Limit: 10, Ops: []Op{{K: "readfrom", Src: []Src{{1, 4, 0}, {2, 4, 0}, {3, 4, 0}}}, rd(20)}},
		{Limit: 65, Ops: []Op{w(60), rd(50), {K: "readfrom", Src: []Src{{1, 100, 1}}}, rd(200)}},
		// Bytes on a string whose body is cut short by no more than what was consumed in front of it
		// (l <= Size < rpos+l): gen(1,n) = 1,2,3,.. is class 1, length 2; gen(3,n) is class 3, length 0x0405
		{Limit: 0, Ops: []Op{w(3), {K: "bytes"}, w(5), rd(10)}},
		{Limit: 0, Init: &Src{1, 3, 0}, Ops: []Op{{K: "bytes"}, w(5), rd(10)}},
		{Limit: 0, Ops: []Op{{K: "wfixed", W: 8, V: 7}, w(3), {K: "rfixed", W: 8}, {K: "bytes"}, {K: "wfixed", W: 2, V: 5}, rd(10)}},
		{Limit: 0, Ops: []Op{{K: "write", Seed: 3, N: 1030}, {K: "bytes"}, w(5), rd(10)}},
		{Limit: 0, Ops: []Op{w(60), rd(58), w(3), rd(2), {K: "bytes"}, w(4), rd(10)}},
		// positional writes: every width at 0, Size-w-1, Size-w (the last w bytes), Size-w+1, fresh and after a read, with and without Limit
		{Limit: 0, Ops: wposGrid(20, 0)},
		{Limit: 0, Ops: wposGrid(20, 7)},
		{Limit: 20, Ops: wposGrid(20, 0)},
		{Limit: 64, Ops: wposGrid(9, 3)},
		// UnmarshalStream into a fresh / partly read / drained Chunk, from complete and cut streams, then reuse; MarshalStream
		{Limit: 0, Ops: []Op{um(8, -1), rd(3), {K: "marshal"}, um(5, -1), rd(2), {K: "rfixed", W: 2}, rd(9), um(0, -1), rd(1), w(3), rd(3)}},
		{Limit: 0, Ops: []Op{w(8), rd(5), um(8, 4), w(8), rd(8), w(70), rd(100)}},
		{Limit: 0, Ops: []Op{w(8), rd(5), um(8, 0), {K: "marshal"}, w(100), rd(200)}},
		{Limit: 0, Ops: []Op{w(8), rd(8), um(300, 2), rd(1), um(300, -1), rd(150), um(70, 40), {K: "wfixed", W: 4, V: 9}, {K: "marshal"}, rd(10)}},
		{Limit: 0, Ops: []Op{w(80), rd(70), um(6, -1), rd(2), {K: "wpos", W: 4, Rel: 2, V: 0xA1B2C3D4}, rd(10), {K: "marshal"}}},
		{Limit: 16, Ops: []Op{w(12), rd(6), um(10, -1), rd(4), w(10), rd(20), um(10, 5), w(10), rd(20)}},
		{Limit: 0, Ops: []Op{um(16385, -1), rd(16000), {K: "marshal"}, um(16385, 9000), w(1), rd(2)}},
		{Limit: 0, Ops: []Op{w(10), rd(3), {K: "wpos", W: 2, P: 5, V: 0xABCD}, {K: "wpos", W: 8, P: 3, V: 1}, {K: "wpos", W: 1, P: 9, V: 7}, rd(10)}},
		// NewChunk with a preset buffer
		{Limit: 0, Init: &Src{3, 5, 0}, Ops: []Op{rd(2), w(3), rd(10)}},
		{Limit: 0, Init: &Src{3, 0, 0}, Ops: []Op{rd(2), w(3), rd(10)}},
	}
}

// readersTerminate: the standard reader loops over an empty Chunk return (they rely on io.EOF).
// Each loop runs in its own goroutine under a timeout; a loop that spins is an oracle failure.
func readersTerminate() {
	mk := map[string]func() *data.Chunk{
		"never-written": func() *data.Chunk { return new(data.Chunk) },
		"drained": func() *data.Chunk {
			c := new(data.Chunk)
			c.Write([]byte{1, 2, 3})
			c.Read(make([]byte, 3))
			return c
		},
		"cleared": func() *data.Chunk { c := new(data.Chunk); c.Write([]byte{1}); c.Clear(); return c },
		"limited-never-written": func() *data.Chunk { return &data.Chunk{Limit: 8} },
	}
	loops := map[string]func(c *data.Chunk) string{
		"io.ReadFull": func(c *data.Chunk) string {
			n, err := io.ReadFull(c, make([]byte, 1))
			if n != 0 || err != io.EOF {
				return fmt.Sprintf("io.ReadFull returned (%d, %v), want (0, EOF)", n, err)
			}
			return ""
		},
		"io.ReadAll": func(c *data.Chunk) string {
			b, err := io.ReadAll(c)
			if len(b) != 0 || err != nil {
				return fmt.Sprintf("io.ReadAll returned (%d bytes, %v), want (0, nil)", len(b), err)
			}
			return ""
		},
		"Chunk.ReadFrom": func(c *data.Chunk) string {
			var d data.Chunk
			n, err := d.ReadFrom(c)
			if n != 0 || err != nil {
				return fmt.Sprintf("ReadFrom(empty Chunk) returned (%d, %v), want (0, nil)", n, err)
			}
			return ""
		},
	}
	for cn, f := range mk {
		for ln, g := range loops {
			done := make(chan string, 1)
			go func() {
				defer func() {
					if r := recover(); r != nil {
						done <- fmt.Sprint("panic: ", r)
					}
				}()
				done <- g(f())
			}()
			what := ""
			select {
			case what = <-done:
			case <-time.After(2 * time.Second):
				what = "does not return within 2 s (no io.EOF)"
			}
			out.Count("reader-loop", cn+"/"+ln, false)
			if what != "" {
				out.Fail(ln+" over a "+cn+" Chunk: "+what, "read-empty-no-eof", map[string]interface{}{"chunk": cn, "loop": ln})
			}
		}
	}
}

// ---- ReadDeadline / ReadFrom conserve the stream (Go-side oracle only) ---------------------
//
// pconn is a scripted net.Conn: it holds the bytes that were "sent" and delivers them in pieces of
// chosen sizes; a Read with a buffer smaller than the current piece gets the front of the piece and
// the rest stays readable (a conn never loses bytes by itself).  After the last piece it reports
// io.EOF or a timeout.
type pconn struct {
	data    []byte
	pieces  []int
	pi, off int // current piece, bytes of it already delivered
	pos     int
	timeout bool
	reads   int
}
type timeoutErr struct{}

func (timeoutErr) Error() string   { return "i/o timeout" }
func (timeoutErr) Timeout() bool   { return true }
func (timeoutErr) Temporary() bool { return true }

func (p *pconn) Read(b []byte) (int, error) {
	p.reads++
	if p.pos >= len(p.data) {
		if p.timeout {
			return 0, timeoutErr{}
		}
		return 0, io.EOF
	}
	if len(b) == 0 {
		return 0, nil
	}
	k := len(p.data) - p.pos
	if p.pi < len(p.pieces) {
		if k2 := p.pieces[p.pi] - p.off; k2 < k {
			k = k2
		}
	}
	n := copy(b, p.data[p.pos:p.pos+k])
	p.pos, p.off = p.pos+n, p.off+n
	if p.pi < len(p.pieces) && p.off >= p.pieces[p.pi] {
		p.pi, p.off = p.pi+1, 0
	}
	return n, nil
}
func (p *pconn) Write(b []byte) (int, error)        { return len(b), nil }
func (p *pconn) Close() error                       { return nil }
func (p *pconn) LocalAddr() net.Addr                { return nil }
func (p *pconn) RemoteAddr() net.Addr               { return nil }
func (p *pconn) SetDeadline(time.Time) error        { return nil }
func (p *pconn) SetReadDeadline(time.Time) error    { return nil }
func (p *pconn) SetWriteDeadline(time.Time) error   { return nil }

// conserve runs Chunk.ReadDeadline (conn = true) or Chunk.ReadFrom over a scripted source and
// checks: the count reported == the bytes the Chunk accepted; the bytes the Chunk holds followed by
// the bytes STILL READABLE from the source == the bytes sent, in order (nothing pulled off the
// connection is dropped); a limited Chunk does not exceed its Limit.
func conserve(conn bool, limit, pre, total int, pieces []int, timeout bool, d time.Duration) {
	name := "ReadFrom"
	if conn {
		name = "ReadDeadline"
	}
	sent := make([]byte, total)
	for i := range sent {
		sent[i] = byte(i*7 + 3)
	}
	dd := map[string]interface{}{"call": name, "limit": limit, "already_held": pre, "sent": total, "pieces": pieces, "ends_with_timeout": timeout}
	c := &data.Chunk{Limit: limit}
	if pre > 0 {
		c.Write(bytes.Repeat([]byte{0xAA}, pre))
		pre = c.Size()
	}
	src := &pconn{data: sent, pieces: pieces, timeout: timeout && conn}
	var (
		n   int64
		err error
	)
	done := make(chan string, 1)
	go func() {
		defer func() {
			if r := recover(); r != nil {
				done <- fmt.Sprint("panic: ", r)
			}
		}()
		if conn {
			n, err = c.ReadDeadline(src, d)
		} else {
			n, err = c.ReadFrom(src)
		}
		done <- ""
	}()
	select {
	case what := <-done:
		if what != "" {
			out.Fail(name+": "+what, "stream-"+strings.ToLower(name)+"-panic", dd)
			return
		}
	case <-time.After(3 * time.Second):
		out.Fail(name+" does not return", "stream-"+strings.ToLower(name)+"-hang", dd)
		return
	}
	held := append([]byte(nil), c.Payload()...)
	rest := sent[src.pos:]
	acc := len(held) - pre
	dd["reported"], dd["held"], dd["pulled_from_source"], dd["error"] = n, acc, src.pos, fmt.Sprint(err)
	out.Count("stream-conservation/"+name, fmt.Sprint(limit, pre, total, pieces, timeout), limit > 0)
	switch {
	case acc < 0 || !bytes.Equal(append(append([]byte(nil), held[pre:]...), rest...), sent):
		out.Fail(name+" pulled bytes off the source that are neither in the Chunk nor still readable (or stored them out of order)", "stream-"+strings.ToLower(name)+"-lost", dd)
	case n != int64(acc):
		out.Fail(name+" reports a count different from the bytes the Chunk accepted", "stream-"+strings.ToLower(name)+"-count", dd)
	case limit > 0 && len(held) > limit:
		out.Fail(name+" filled a limited Chunk above its Limit", "stream-"+strings.ToLower(name)+"-over-limit", dd)
	case err != nil:
		out.Fail(name+" returned an error although the source only ended (io.EOF / timeout) or the Chunk was full", "stream-"+strings.ToLower(name)+"-error", dd)
	}
}

func streamsConserve(rng *vh.Rand, thorough bool) {
	for _, conn := range []bool{true, false} {
		// limits and piece sizes around the boundary: the last piece straddles the limit
		for _, lim := range []int{0, 1, 2, 3, 4, 5, 8, 9, 10, 64, 65, 100} {
			for _, k := range []int{1, 2, 3, 4, 5, 7} {
				for _, pre := range []int{0, 1} {
					base := lim
					if base == 0 {
						base = 20
					}
					for _, total := range []int{base - 1, base, base + 1, base + k, base + 2*k + 1} {
						if total < 0 || pre > base {
							continue
						}
						ps := []int{}
						for t := 0; t < total; t += k {
							ps = append(ps, k)
						}
						conserve(conn, lim, pre, total, ps, (lim+k+total)%2 == 0, time.Duration((k%2))*time.Millisecond)
					}
				}
			}
		}
		// around the 4 KiB staging buffer and the 16 KiB growth boundary
		for _, lim := range []int{0, 4095, 4096, 4097, 8192, 16384, 16385, 20000} {
			for _, k := range []int{1000, 4095, 4096, 4097, 5000, 16384, 30000} {
				base := lim
				if base == 0 {
					base = 9000
				}
				for _, total := range []int{base - 1, base + 1, base + k} {
					ps := []int{}
					for t := 0; t < total; t += k {
						ps = append(ps, k)
					}
					conserve(conn, lim, 0, total, ps, false, 0)
					conserve(conn, lim, 10, total, ps, true, time.Millisecond)
				}
			}
		}
		n := 300
		if thorough {
			n = 20000
		}
		for i := 0; i < n; i++ {
			lim := []int{0, 1, 2, 3, 7, 8, 16, 33, 64, 100, 1000, 5000}[rng.Intn(12)]
			total := rng.Intn(2*lim + 40)
			var ps []int
			for t := 0; t < total; {
				k := 1 + rng.Intn(9)
				if rng.Intn(5) == 0 {
					k = 1 + rng.Intn(lim+10)
				}
				ps = append(ps, k)
				t += k
			}
			pre := 0
			if rng.Intn(3) == 0 && lim > 0 {
				pre = rng.Intn(lim + 1)
			}
			conserve(conn, lim, pre, total, ps, rng.Bool(), time.Duration(rng.Intn(2))*time.Millisecond)
		}
	}
}

func main() {
	fl := vh.ParseFlags()
	out = vh.NewOut("C11", fl, "From XMT Require Import Base.Prelude Model.Chunk.", "case", "check",
		"operation sequences of length 1..60 on a fresh data.Chunk from a weighted grammar (Write of 0,1,63,64,65,16383,16384,16385 and near-limit sizes; "+
			"typed writes and their wrappers; WriteBytes/WriteString; positional writes; Read of 0,1,n; typed reads; Bytes; Seek; Truncate; Grow; Reset; Clear; "+
			"WriteTo into a writer with a byte budget; ReadFrom split sources with short/empty reads and errors), limits 0,1,2,8,9,10,64,65,1000,16384,20000; "+
			"after every operation return value, Size, Remaining, Space, Empty, cap, Payload are compared with the model and with a plain byte queue; "+
			"distinct = distinct Coq case term; non-trivial = the history delivers bytes to a reader AND takes a growth path (make, slide, reallocation) or a limit refusal")
	out.ShardSize = 60
	rng := vh.NewRand(fl.Seed)
	thorough := fl.Tier == "thorough"

	if fl.Replay != "" {
		// re-run the input of a replay file only
		fmt.Fprintln(os.Stderr, "replay: run the sequence in the file's `input` with `go run` (see notes/C11.md)")
	}

	for _, s := range corpus() {
		doSeq("corpus", s)
	}
	readersTerminate()
	streamsConserve(rng, thorough)

	small := profile{"small", []int{0, 1, 2, 3, 7, 8, 9, 10, 31, 32, 33, 63, 64, 65}, 60, limits, 0}
	medium := profile{"medium", []int{0, 1, 63, 64, 65, 127, 128, 129, 255, 256, 257, 1000}, 40, []int{0, 64, 65, 1000, 16384, 20000}, 0}
	big := profile{"big", []int{0, 1, 63, 64, 65, 1000}, 14, []int{0, 1000, 16384, 20000, 65}, 45}

	nSmall, nMedium, nBig := 1000, 300, 80
	if thorough {
		nSmall, nMedium, nBig = 60000, 25000, 5000
	}
	// boundary grid: every limit x every write size x (fresh | after partial read)
	for _, lim := range limits {
		for _, n := range []int{0, 1, 63, 64, 65, 16383, 16384, 16385} {
			doSeq("grid", Seq{Limit: lim, Ops: []Op{{K: "write", Seed: 5, N: n}, {K: "read", N: 1}, {K: "write", Seed: 9, N: n}, {K: "read", N: 2 * n}}})
			if n <= 65 {
				doSeq("grid", Seq{Limit: lim, Ops: []Op{{K: "wbytes", Seed: 5, N: n}, {K: "read", N: n / 2}, {K: "wbytes", Seed: 9, N: n}, {K: "bytes"}, {K: "wfixed", W: 8, V: 77}, {K: "bytes"}}})
			}
		}
	}
	for i := 0; i < nSmall; i++ {
		doSeq("random-small", genSeq(rng, small))
	}
	for i := 0; i < nMedium; i++ {
		doSeq("random-medium", genSeq(rng, medium))
	}
	for i := 0; i < nBig; i++ {
		doSeq("random-16KiB", genSeq(rng, big))
	}
	out.Extra("paths", pathCount)
	out.Finish()
}
