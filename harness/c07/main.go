// C07 harness: every wrapper stack and transform is lossless.
//
// Three levels, all on the REAL code of /repo:
//
//	A  cfg.MultiWrapper / the single wrappers: Wrap -> chunked writes -> Close, then Unwrap over a
//	   reader that returns short reads, consumed with chunked reads until EOF;
//	B  cfg.Transform Write/Read (B64 with every shift, DNS with domain lists);
//	C  the full send and receive path: c2.writePacket / c2.readPacket over an in-memory
//	   buffered conn whose Read returns chunks;
//	D  histories on that path: good round trips mixed with faulty receives (cut / damaged / empty
//	   streams) in one process - the two functions share a pool of buffers.
//
// Oracle (Go side): exact equality after the round trip.  Model (Coq side): the wire bytes of
// stacks/transforms made of fully modelled elements (hex, base64, XOR-CFB, CBK, B64 shift, DNS)
// are recomputed by the Gallina model and compared (literal or length + a 64-bit xorshift digest);
// for a single CBK element the model of the writer's buffering is driven by the same sequence of
// Write calls (CCbkW); the exported CBK block functions are compared block by block (CBlock).
package main

import (
	"bytes"
	"encoding/json"
	"errors"
	"fmt"
	"io"
	"net"
	"os"
	"os/exec"
	"path/filepath"
	"sort"
	"strconv"
	"strings"
	"time"

	"github.com/iDigitalFlame/xmt/c2"
	"github.com/iDigitalFlame/xmt/c2/cfg"
	"github.com/iDigitalFlame/xmt/c2/transform"
	"github.com/iDigitalFlame/xmt/c2/wrapper"
	"github.com/iDigitalFlame/xmt/com"
	"github.com/iDigitalFlame/xmt/data"
	"github.com/iDigitalFlame/xmt/data/crypto"

	"verifharness/vh"
)

var (
	out      *vh.Out
	thorough bool
)

// ---------------------------------------------------------------- scenario guard
//
// Every scenario (one call of a run* function) is numbered.  An ordinary panic is recovered inside
// the scenario and becomes an oracle failure there.  A FATAL run-time error (stack overflow, e.g. a
// pooled compressor that ends up writing into itself) or a stall cannot be recovered in-process, so
// the program the orchestrator starts is only a supervisor: it runs the real harness as a worker
// process that journals the number of the scenario it is about to start.  When the worker dies or
// makes no progress, the supervisor adds the last journalled scenario to the list of scenarios
// that bring the process down and runs the worker again from the start (same seed, hence the same
// scenarios); the worker does not execute a listed scenario but reports it as an oracle failure
// (key scenario-panic, the scenario as replay input) and continues.  On a healthy tree the worker
// runs once.
var (
	scn         int
	crashed     = map[int]string{}
	giveUpAfter = -1
	journal     *os.File
)

func guard(c interface{}) bool {
	scn++
	if why, ok := crashed[scn]; ok {
		out.Fail("the scenario brings the process down: "+why, "scenario-panic", c)
		return false
	}
	if giveUpAfter >= 0 && scn > giveUpAfter {
		out.Count("skipped-after-too-many-crashes", strconv.Itoa(scn), false)
		return false
	}
	if journal != nil {
		fmt.Fprintf(journal, "%d\n", scn)
	}
	return true
}

const maxCrashes = 8

// supervise returns in the worker; in the supervisor it never returns.
func supervise(fl vh.Flags) {
	if j := os.Getenv("C07_JOURNAL"); j != "" {
		journal, _ = os.OpenFile(j, os.O_TRUNC|os.O_WRONLY|os.O_CREATE, 0o644)
		b, _ := os.ReadFile(os.Getenv("C07_CRASHED"))
		for _, l := range strings.Split(string(b), "\n") {
			if f := strings.SplitN(l, "\t", 2); len(f) == 2 {
				n, _ := strconv.Atoi(f[0])
				if crashed[n] = f[1]; len(crashed) >= maxCrashes {
					giveUpAfter = n
				}
			}
		}
		return
	}
	dir, err := os.MkdirTemp("", "c07sup")
	if err != nil {
		return // no supervisor: run in-process as before
	}
	var (
		jf, cf = filepath.Join(dir, "journal"), filepath.Join(dir, "crashed")
		list   string
		code   = 2
		eb     bytes.Buffer
	)
	last := func() int {
		b, _ := os.ReadFile(jf)
		l := strings.Fields(string(b))
		if len(l) == 0 {
			return 0
		}
		n, _ := strconv.Atoi(l[len(l)-1])
		return n
	}
	const stall = 40 * time.Second
	for n := 0; n <= maxCrashes; n++ {
		os.WriteFile(cf, []byte(list), 0o644)
		os.Remove(jf)
		if m, _ := filepath.Glob(filepath.Join(fl.Out, "cases*")); n > 0 {
			for _, f := range append(m, filepath.Join(fl.Out, "meta.json")) {
				os.Remove(f)
			}
		}
		eb.Reset()
		cmd := exec.Command(os.Args[0], os.Args[1:]...)
		cmd.Env = append(os.Environ(), "C07_JOURNAL="+jf, "C07_CRASHED="+cf)
		cmd.Stdout, cmd.Stderr = os.Stdout, &eb
		if err = cmd.Start(); err != nil {
			break
		}
		done, stalled := make(chan error, 1), false
		go func() { done <- cmd.Wait() }()
	wait:
		for sz, idle := int64(-1), time.Duration(0); ; {
			select {
			case err = <-done:
				break wait
			case <-time.After(time.Second):
				if st, e := os.Stat(jf); e == nil && st.Size() != sz {
					sz, idle = st.Size(), 0
				} else if idle += time.Second; idle >= stall && !stalled {
					stalled = true
					cmd.Process.Kill()
				}
			}
		}
		if err == nil && !stalled {
			code = 0
			break
		}
		if x, ok := err.(*exec.ExitError); ok && x.ExitCode() >= 0 && !stalled && !strings.Contains(eb.String(), "fatal error:") &&
			!strings.Contains(eb.String(), "panic:") {
			code = x.ExitCode() // an ordinary non-zero exit (bad replay file ...): hand it on
			break
		}
		at := last()
		if at == 0 || strings.Contains(list, fmt.Sprintf("\n%d\t", at)) || strings.HasPrefix(list, fmt.Sprintf("%d\t", at)) {
			break // died outside any scenario, or in one that was not executed: nothing to attribute
		}
		why := fmt.Sprint(err)
		if stalled {
			why = fmt.Sprintf("no progress for %v (worker killed)", stall)
		} else {
			for _, l := range strings.Split(eb.String(), "\n") {
				if strings.HasPrefix(l, "fatal error:") || strings.HasPrefix(l, "panic:") {
					why = strings.TrimSpace(l) + " (" + why + ")"
					break
				}
			}
		}
		list += fmt.Sprintf("%d\t%s\n", at, strings.ReplaceAll(why, "\n", " "))
	}
	if code != 0 {
		t := eb.String()
		if len(t) > 4000 {
			t = t[:4000]
		}
		os.Stderr.WriteString(t)
	}
	os.RemoveAll(dir)
	os.Exit(code)
}

// ---------------------------------------------------------------- payloads

// paySpec describes a payload either literally or by a generator the Coq model repeats.
type paySpec struct {
	Kind int    `json:"kind"` // -1 literal; 0 xorshift64 bytes; 1 zeros; 2 0xFF; 3 counter; 4 xorshift64 over a 4-letter alphabet (compressible)
	Seed uint64 `json:"seed"`
	N    int    `json:"n"`
	Lit  []int  `json:"lit,omitempty"`
}

// xs64 is one xorshift64 step (13, 7, 17): cheap for the Coq model to repeat (no multiplication).
func xs64(x uint64) uint64 {
	x ^= x << 13
	x ^= x >> 7
	x ^= x << 17
	return x
}

func genBytes(kind int, seed uint64, n int) []byte {
	b := make([]byte, n)
	s := seed
	for i := range b {
		switch kind {
		case 0:
			s = xs64(s)
			b[i] = byte(s)
		case 1:
			b[i] = 0
		case 2:
			b[i] = 0xFF
		case 3:
			b[i] = byte(uint64(i) + seed)
		case 4:
			s = xs64(s)
			b[i] = byte(65 + s&3)
		}
	}
	return b
}
func (p paySpec) bytes() []byte {
	if p.Kind < 0 {
		b := make([]byte, len(p.Lit))
		for i, v := range p.Lit {
			b[i] = byte(v)
		}
		return b
	}
	return genBytes(p.Kind, p.Seed, p.N)
}
func (p paySpec) coq() string {
	if p.Kind < 0 {
		return "(PLit " + vh.Bytes(p.bytes()) + ")"
	}
	return fmt.Sprintf("(PGen %d %d %d)", p.Kind, p.Seed, p.N)
}
func litPay(b []byte) paySpec {
	l := make([]int, len(b))
	for i, v := range b {
		l[i] = int(v)
	}
	return paySpec{Kind: -1, N: len(b), Lit: l}
}

// hash64 is the digest long wires are compared by: h = xs64(h) ^ c, position sensitive, and cheap
// for the Coq model to repeat.
func hash64(b []byte) uint64 {
	h := uint64(88172645463325252)
	for _, c := range b {
		h = xs64(h) ^ uint64(c)
	}
	return h
}

// wireCoq prints the observed wire: literally when short, else as length and digest.
func wireCoq(w []byte) string {
	if len(w) <= 384 {
		return "(WLit " + vh.Bytes(w) + ")"
	}
	return fmt.Sprintf("(WHash %d %d)", len(w), hash64(w))
}

// dnsWireCoq prints a DNS wire as the digest/literal plus the random bytes drawn for each packet
// (id bytes at offsets 0, 1; in the server role bytes 9, 12..15 of the answer record that follows
// the question).  The packet boundaries are the lengths the real decodePacket consumes.
func dnsWireCoq(w []byte) string {
	var draws []string
	o := 0
	for _, n := range transform.VerifC07PacketLens(w) {
		p := w[o : o+n]
		d := []byte{p[0], p[1]}
		if transform.VerifC07DNSServer {
			s := 12
			for s < len(p) && p[s] != 0 {
				s += int(p[s]) + 1
			}
			if a := s + 5; a+16 <= len(p) {
				d = append(d, p[a+9], p[a+12], p[a+13], p[a+14], p[a+15])
			}
		}
		draws = append(draws, vh.Bytes(d))
		o += n
	}
	return "(WDns " + wireCoq(w) + " " + vh.List(draws) + ")"
}

// ---------------------------------------------------------------- chunkings

type chunking struct {
	Name string `json:"name"`
	K    int    `json:"k"`    // fixed size (Name == "fixed"), or maximum (Name == "random")
	Seed uint64 `json:"seed"` // for random
}

func (c chunking) iter() func() int {
	switch c.Name {
	case "whole":
		return func() int { return 1 << 30 }
	case "fixed":
		return func() int { return c.K }
	}
	r := vh.NewRand(c.Seed)
	return func() int {
		switch r.Intn(8) {
		case 0:
			return 1
		case 1:
			return 0 // zero-length write / skipped on the read side
		case 2:
			return 1 + r.Intn(4096)
		}
		return 1 + r.Intn(c.K)
	}
}
func (c chunking) String() string {
	if c.Name == "fixed" {
		return fmt.Sprintf("fixed%d", c.K)
	}
	return c.Name
}

// chunkReader returns the bytes in pieces decided by next (never more than asked).
type chunkReader struct {
	b       []byte
	next    func() int
	eofWith bool // return io.EOF together with the last bytes
}

func (r *chunkReader) Read(p []byte) (int, error) {
	if len(r.b) == 0 {
		return 0, io.EOF
	}
	if len(p) == 0 {
		return 0, nil
	}
	k := r.next()
	for k <= 0 {
		k = r.next()
	}
	if k > len(p) {
		k = len(p)
	}
	if k > len(r.b) {
		k = len(r.b)
	}
	copy(p, r.b[:k])
	r.b = r.b[k:]
	if len(r.b) == 0 && r.eofWith {
		return k, io.EOF
	}
	return k, nil
}

var errNoProgress = errors.New("reader makes no progress")
var errTooMuch = errors.New("reader returns more than was written")

func readAll(r io.Reader, next func() int, limit int) ([]byte, error) {
	var (
		o    []byte
		zero int
		buf  []byte
	)
	for {
		k := next()
		for k <= 0 {
			k = next()
		}
		if k > 1<<20 {
			k = 1 << 20
		}
		if cap(buf) < k {
			buf = make([]byte, k)
		}
		n, err := r.Read(buf[:k])
		o = append(o, buf[:n]...)
		if err == io.EOF {
			return o, nil
		}
		if err != nil {
			return o, err
		}
		if n == 0 {
			if zero++; zero > 64 {
				return o, errNoProgress
			}
		} else {
			zero = 0
		}
		if len(o) > limit {
			return o, errTooMuch
		}
	}
}

// ---------------------------------------------------------------- wrapper elements

type elem struct {
	Kind string `json:"kind"` // hex b64 zlib gzip xor aes cbk
	Key  []int  `json:"key,omitempty"`
	IV   []int  `json:"iv,omitempty"`
	CBK  []int  `json:"cbk,omitempty"` // a b c d size
}

func ints(b []byte) []int {
	l := make([]int, len(b))
	for i, v := range b {
		l[i] = int(v)
	}
	return l
}
func unints(l []int) []byte {
	b := make([]byte, len(l))
	for i, v := range l {
		b[i] = byte(v)
	}
	return b
}

func (e elem) wrapper() (cfg.Wrapper, error) {
	switch e.Kind {
	case "hex":
		return wrapper.Hex, nil
	case "b64":
		return wrapper.Base64, nil
	case "zlib":
		return wrapper.Zlib, nil
	case "gzip":
		return wrapper.Gzip, nil
	case "xor":
		return wrapper.NewXOR(unints(e.Key)), nil
	case "aes":
		b, err := crypto.NewAes(unints(e.Key))
		if err != nil {
			return nil, err
		}
		return wrapper.NewBlock(b, unints(e.IV))
	case "cbk":
		return wrapper.NewCBK(byte(e.CBK[0]), byte(e.CBK[1]), byte(e.CBK[2]), byte(e.CBK[3]), byte(e.CBK[4])), nil
	}
	return nil, errors.New("unknown element " + e.Kind)
}
func (e elem) setting() cfg.Setting {
	switch e.Kind {
	case "hex":
		return cfg.WrapHex
	case "b64":
		return cfg.WrapBase64
	case "zlib":
		return cfg.WrapZlib
	case "gzip":
		return cfg.WrapGzip
	case "xor":
		return cfg.WrapXOR(unints(e.Key))
	case "aes":
		return cfg.WrapAES(unints(e.Key), unints(e.IV))
	case "cbk":
		return cfg.WrapCBKSize(byte(e.CBK[4]), byte(e.CBK[0]), byte(e.CBK[1]), byte(e.CBK[2]), byte(e.CBK[3]))
	}
	return nil
}
func (e elem) modelled() bool {
	switch e.Kind {
	case "hex", "b64", "xor", "cbk":
		return true
	}
	return false
}
func (e elem) blockSize() int {
	switch e.Kind {
	case "xor":
		return len(e.Key)
	case "aes":
		return 16
	case "cbk":
		if e.CBK[4] == 0 {
			return 128
		}
		return e.CBK[4]
	case "b64":
		return 3
	case "hex":
		return 2
	}
	return 64
}

// outLen is the wire length of a modelled element for n input bytes (used only to size the list
// of CBK constants put into the Coq term; a wrong value shows up as a model mismatch).
func (e elem) outLen(n int) int {
	switch e.Kind {
	case "hex":
		return 2 * n
	case "b64":
		return 4 * ((n + 2) / 3)
	case "cbk":
		s := e.blockSize()
		return ((n + s - 1) / s) * (s + 1)
	}
	return n
}

type cbkInfo struct {
	size   int
	off    []byte
	idx    [31]crypto.VerifC07CBKIndex
	anyBad bool // computing the constants of some block counter panics in the real code
}

var cbkCache = map[[5]byte]*cbkInfo{}

func cbkConsts(k [5]byte) *cbkInfo {
	if c, ok := cbkCache[k]; ok {
		return c
	}
	sz, off, idx, err := crypto.VerifC07CBK(k[0], k[1], k[2], k[3], k[4])
	if err != nil {
		panic(err)
	}
	bad := false
	for i := range idx {
		if idx[i].Bad {
			bad = true
			continue
		}
		for j := 0; j < 6; j++ {
			if idx[i].G[j] > 7 || idx[i].H[j] > 7 {
				panic("CBK step constant out of the contract range 0..7")
			}
		}
	}
	c := &cbkInfo{size: sz, off: off, idx: idx, anyBad: bad}
	cbkCache[k] = c
	return c
}

// coq prints the element for nIn input bytes.
func (e elem) coq(nIn int) string {
	switch e.Kind {
	case "hex":
		return "EHex"
	case "b64":
		return "EB64"
	case "xor":
		return "(EXor " + vh.Bytes(unints(e.Key)) + ")"
	case "cbk":
		c := cbkConsts(e.cbkKey())
		nb := (nIn + c.size - 1) / c.size
		if nb > 31 {
			nb = 31
		}
		// the constants of block j (j = 0, 1, ...) are those of index (j+1) mod 31
		items := make([]string, nb)
		for j := 0; j < nb; j++ {
			x := c.idx[(j+1)%31]
			if x.Bad {
				return "EOpaque"
			}
			gh := make([]string, 6)
			for i := 0; i < 6; i++ {
				gh[i] = fmt.Sprintf("(%d,%d)", x.G[i], x.H[i])
			}
			items[j] = "(" + vh.Bytes(x.T[:]) + "," + vh.List(gh) + ")"
		}
		return fmt.Sprintf("(ECbk %d %s %s)", c.size, vh.Bytes(c.off), vh.List(items))
	}
	return "EOpaque"
}

func stackName(ws []elem) string {
	if len(ws) == 0 {
		return "none"
	}
	n := make([]string, len(ws))
	for i, e := range ws {
		n[i] = e.Kind
		if e.Kind == "cbk" {
			n[i] = fmt.Sprintf("cbk%d", e.blockSize())
		}
	}
	return strings.Join(n, "+")
}
func stackKinds(ws []elem) string {
	// order-insensitive set of kinds: the narrow part of a failure key
	m := map[string]bool{}
	for _, e := range ws {
		m[e.Kind] = true
	}
	k := make([]string, 0, len(m))
	for s := range m {
		k = append(k, s)
	}
	sort.Strings(k)
	return strings.Join(k, "+")
}
func (e elem) cbkKey() (k [5]byte) {
	for i := range k {
		k[i] = byte(e.CBK[i])
	}
	return
}

// hasBadCBK: the stack holds a CBK key for which the real key schedule panics at some block counter.
func hasBadCBK(ws []elem) bool {
	for _, e := range ws {
		if e.Kind == "cbk" && cbkConsts(e.cbkKey()).anyBad {
			return true
		}
	}
	return false
}

const divZeroKey = "cbk-key-blockindex-divide-by-zero"

// failKey narrows a failure key: the recorded CBK defect is matched only when the stack holds an
// affected key AND the failure is the divide-by-zero panic itself.
func failKey(key string, ws []elem, err error) string {
	if err != nil && strings.Contains(err.Error(), "integer divide by zero") && hasBadCBK(ws) {
		return divZeroKey
	}
	return key
}

// stackCoq prints the stack for n payload bytes; ok is false when some element is not modelled
// (zlib, gzip, AES, or a CBK key whose constants cannot be computed).
func stackCoq(ws []elem, n int) (string, bool) {
	items := make([]string, len(ws))
	ok := true
	for i, e := range ws {
		if items[i] = e.coq(n); items[i] == "EOpaque" {
			ok = false
		}
		n = e.outLen(n)
	}
	return vh.List(items), ok
}

// buildStack returns the cfg.Wrapper for the stack the way a profile would hold it
// (nil, the element itself, or a MultiWrapper), or always a MultiWrapper when multi is set.
func buildStack(ws []elem, multi bool) (cfg.Wrapper, error) {
	l := make([]cfg.Wrapper, len(ws))
	for i, e := range ws {
		w, err := e.wrapper()
		if err != nil {
			return nil, err
		}
		l[i] = w
	}
	if multi || len(l) > 1 {
		return cfg.MultiWrapper(l), nil
	}
	if len(l) == 1 {
		return l[0], nil
	}
	return nil, nil
}

// ---------------------------------------------------------------- transforms

type tspec struct {
	Kind    string   `json:"kind"` // none b64 dns
	Shift   int      `json:"shift,omitempty"`
	Domains []string `json:"domains,omitempty"`
}

func (t tspec) transform() cfg.Transform {
	switch t.Kind {
	case "b64":
		return transform.B64(byte(t.Shift))
	case "dns":
		return transform.DNSTransform(append([]string(nil), t.Domains...))
	}
	return nil
}
func (t tspec) setting() cfg.Setting {
	switch t.Kind {
	case "b64":
		if t.Shift == 0 {
			return cfg.TransformB64
		}
		return cfg.TransformB64Shift(t.Shift)
	case "dns":
		return cfg.TransformDNS(t.Domains...)
	}
	return nil
}
func (t tspec) coq() string {
	switch t.Kind {
	case "b64":
		return fmt.Sprintf("(TB64 %d)", t.Shift)
	case "dns":
		ds := t.Domains
		if len(ds) == 0 {
			ds = transform.DefaultDomains() // what DNSTransform.pick substitutes for an empty list
		}
		d := make([]string, len(ds))
		for i, s := range ds {
			d[i] = vh.Str(s)
		}
		return fmt.Sprintf("(TDns %s %s)", vh.B(transform.VerifC07DNSServer), vh.List(d))
	}
	return "TNone"
}
func (t tspec) name() string {
	switch t.Kind {
	case "b64":
		if t.Shift == 0 {
			return "b64"
		}
		return "b64shift"
	case "dns":
		return "dns"
	}
	return "none"
}

// domainShape classifies a DNS domain list: the known defect was keyed on it.
func domainShape(ds []string) string {
	for _, d := range ds {
		for _, l := range strings.Split(d, ".") {
			if len(l) == 0 || len(l) >= 64 {
				return "dns-domain-empty-or-long-label"
			}
		}
	}
	return "dns-legal-domain"
}

// ---------------------------------------------------------------- level A: stacks

type stackCase struct {
	Level  string   `json:"level"`
	Stack  []elem   `json:"stack"`
	Multi  bool     `json:"multi"`
	Pay    paySpec  `json:"payload"`
	WChunk chunking `json:"write_chunks"`
	RChunk chunking `json:"reader_chunks"`
	CChunk chunking `json:"consumer_chunks"`
	EOFW   bool     `json:"eof_with_data"`
	// OracleOnly: the case is not handed to the Coq model (quick tier: 64 KiB payloads are costly there)
	OracleOnly bool `json:"oracle_only,omitempty"`
}

var wireSeen = map[string]uint64{}

func runStack(c stackCase) {
	c.Level = "stack"
	if !guard(c) {
		return
	}
	name := stackName(c.Stack)
	class := fmt.Sprintf("stack-d%d", len(c.Stack))
	payload := c.Pay.bytes()
	var (
		wire, got []byte
		stage     = "build"
		err       error
		writes    []int64 // the length of every Write call made
	)
	func() {
		defer func() {
			if x := recover(); x != nil {
				err = fmt.Errorf("panic: %v", x)
			}
		}()
		var w cfg.Wrapper
		if w, err = buildStack(c.Stack, c.Multi); err != nil {
			return
		}
		if w == nil {
			w = cfg.MultiWrapper(nil)
		}
		stage = "wrap"
		sink := new(data.Chunk)
		var o io.WriteCloser
		if o, err = w.Wrap(sink); err != nil {
			return
		}
		stage = "write"
		next := c.WChunk.iter()
		for p := payload; ; {
			k := next()
			if k > len(p) {
				k = len(p)
			}
			var n int
			writes = append(writes, int64(k))
			if n, err = o.Write(p[:k]); err != nil {
				return
			}
			if n != k {
				err = io.ErrShortWrite
				return
			}
			if p = p[k:]; len(p) == 0 {
				break
			}
		}
		stage = "close"
		if err = o.Close(); err != nil {
			return
		}
		wire = append([]byte(nil), sink.Payload()...)
		stage = "unwrap"
		var r io.Reader
		if r, err = w.Unwrap(&chunkReader{b: wire, next: c.RChunk.iter(), eofWith: c.EOFW}); err != nil {
			return
		}
		stage = "read"
		got, err = readAll(r, c.CChunk.iter(), len(payload)+4096)
	}()
	nontrivial := len(payload) > 0 && len(c.Stack) > 0
	ckey := fmt.Sprintf("%s|%d|w=%s r=%s c=%s", name, len(payload), c.WChunk, c.RChunk, c.CChunk)
	switch {
	case err != nil:
		out.Fail(fmt.Sprintf("wrapper stack %s: %s failed: %v", name, stage, err), failKey("stack-"+stage+":"+stackKinds(c.Stack), c.Stack, err), c)
	case !bytes.Equal(got, payload):
		out.Fail(fmt.Sprintf("wrapper stack %s: read back %d bytes that differ from the %d written", name, len(got), len(payload)),
			"stack-roundtrip:"+stackKinds(c.Stack), c)
	}
	if sc, ok := stackCoq(c.Stack, len(payload)); err == nil && ok && len(c.Stack) == 1 && c.Stack[0].Kind == "cbk" &&
		c.WChunk.Name != "whole" && len(writes) <= 2100 && len(payload) <= 4300 {
		// the model of the CBK writer's buffering, driven by the same sequence of Write calls
		e := strings.TrimSuffix(strings.TrimPrefix(sc, "[(ECbk "), ")]")
		out.Add(fmt.Sprintf("CCbkW %s %s %s %s", e, c.Pay.coq(), vh.ZList64(writes), wireCoq(wire)), "cbk-writer-model", len(payload) > 0, c)
	}
	if sc, ok := stackCoq(c.Stack, len(payload)); err == nil && ok && !c.OracleOnly {
		// one model case per distinct (stack, payload, observed wire)
		sk := sc + c.Pay.coq()
		h := hash64(wire)
		if v, ok := wireSeen[sk]; !ok || v != h {
			wireSeen[sk] = h
			out.Add(fmt.Sprintf("CStack %s %s %s", sc, c.Pay.coq(), wireCoq(wire)), class+"-model", nontrivial, c)
			return
		}
	}
	out.Count(class, ckey, nontrivial)
}

// ---------------------------------------------------------------- level B: transforms

type transCase struct {
	Level string  `json:"level"`
	T     tspec   `json:"transform"`
	Pay   paySpec `json:"payload"`
	Shape string  `json:"domain_shape,omitempty"`
}

func runTransform(c transCase) {
	c.Level = "transform"
	if !guard(c) {
		return
	}
	payload := c.Pay.bytes()
	if c.T.Kind == "dns" {
		c.Shape = domainShape(c.T.Domains)
	}
	var (
		wire, got []byte
		stage     = "write"
		err       error
	)
	func() {
		defer func() {
			if x := recover(); x != nil {
				err = fmt.Errorf("panic: %v", x)
			}
		}()
		t := c.T.transform()
		var w, o bytes.Buffer
		if err = t.Write(append([]byte(nil), payload...), &w); err != nil {
			return
		}
		wire = append([]byte(nil), w.Bytes()...)
		stage = "read"
		if err = t.Read(append([]byte(nil), wire...), &o); err != nil {
			return
		}
		got = o.Bytes()
	}()
	key := "transform-" + c.T.name()
	if c.T.Kind == "dns" {
		key = c.Shape
	}
	class := "transform-" + c.T.name()
	failed := false
	switch {
	case err != nil:
		failed = true
		out.Fail(fmt.Sprintf("transform %s: %s failed: %v", c.T.name(), stage, err), key, c)
	case !bytes.Equal(got, payload):
		failed = true
		out.Fail(fmt.Sprintf("transform %s: read back %d bytes that differ from the %d written", c.T.name(), len(got), len(payload)), key, c)
	}
	if wire == nil && stage == "write" && err != nil {
		out.Count(class, fmt.Sprint(c), len(payload) > 0)
		return
	}
	// model case: the wire (DNS: with the random bytes of every packet)
	switch c.T.Kind {
	case "b64":
		out.Add(fmt.Sprintf("CTrans %s %s %s", c.T.coq(), c.Pay.coq(), wireCoq(wire)), class+"-model", len(payload) > 0, c)
	case "dns":
		out.Add(fmt.Sprintf("CTrans %s %s %s", c.T.coq(), c.Pay.coq(), dnsWireCoq(wire)), class+"-model", len(payload) > 0, c)
	}
	_ = failed
}

// ---------------------------------------------------------------- level C: full path

// memConn is a buffered in-memory net.Conn: writes append, reads return chunks, then io.EOF.
type memConn struct {
	buf  []byte
	next func() int
}

func (m *memConn) Write(b []byte) (int, error) { m.buf = append(m.buf, b...); return len(b), nil }
func (m *memConn) Read(p []byte) (int, error) {
	if len(m.buf) == 0 {
		return 0, io.EOF
	}
	k := m.next()
	for k <= 0 {
		k = m.next()
	}
	if k > len(p) {
		k = len(p)
	}
	if k > len(m.buf) {
		k = len(m.buf)
	}
	copy(p, m.buf[:k])
	m.buf = m.buf[k:]
	return k, nil
}
func (*memConn) Close() error                     { return nil }
func (*memConn) LocalAddr() net.Addr              { return &net.TCPAddr{} }
func (*memConn) RemoteAddr() net.Addr             { return &net.TCPAddr{} }
func (*memConn) SetDeadline(time.Time) error      { return nil }
func (*memConn) SetReadDeadline(time.Time) error  { return nil }
func (*memConn) SetWriteDeadline(time.Time) error { return nil }

type fullCase struct {
	Level  string   `json:"level"`
	Stack  []elem   `json:"stack"`
	T      tspec    `json:"transform"`
	ViaCfg bool     `json:"via_profile"` // wrapper and transform obtained from cfg.Build(settings).Next()
	ID     int      `json:"id"`
	Job    int      `json:"job"`
	Flags  uint64   `json:"flags"`
	Tags   []uint32 `json:"tags"`
	Dev    uint64   `json:"device_seed"`
	Pay    paySpec  `json:"payload"`
	RChunk chunking `json:"conn_read_chunks"`
	Shape  string   `json:"domain_shape,omitempty"`
}

func (c fullCase) packet() *com.Packet {
	n := &com.Packet{ID: uint8(c.ID), Job: uint16(c.Job), Flags: com.Flag(c.Flags)}
	if len(c.Tags) > 0 {
		n.Tags = append([]uint32(nil), c.Tags...)
	}
	copy(n.Device[:], genBytes(0, c.Dev, len(n.Device)))
	if n.Device[0] == 0 {
		// device.ID.Read rejects an ID whose first byte is 0 (ID.Empty; local.UUID never has one):
		// the packet codec's domain (C01), not a wrapper matter
		n.Device[0] = 1
	}
	if b := c.Pay.bytes(); len(b) > 0 {
		n.Write(b)
	}
	return n
}

func runFull(c fullCase) {
	c.Level = "full"
	if !guard(c) {
		return
	}
	if c.T.Kind == "dns" {
		c.Shape = domainShape(c.T.Domains)
	}
	name := stackName(c.Stack) + "/" + c.T.name()
	var (
		wire, plain []byte
		got         *com.Packet
		stage       = "build"
		err         error
	)
	want := c.packet()
	func() {
		defer func() {
			if x := recover(); x != nil {
				err = fmt.Errorf("panic: %v", x)
			}
		}()
		var (
			w cfg.Wrapper
			t cfg.Transform
		)
		if c.ViaCfg {
			// the transform setting goes first: Config.build rejects a DNS setting at a larger
			// offset (it compares the domain count with the offset; reported to C08, not C07's)
			var s []cfg.Setting
			if x := c.T.setting(); x != nil {
				s = append(s, x)
			}
			for _, e := range c.Stack {
				s = append(s, e.setting())
			}
			var p cfg.Profile
			if p, err = cfg.Pack(s...).Build(); err != nil {
				return
			}
			if p != nil {
				_, w, t = p.Next()
			}
		} else {
			if w, err = buildStack(c.Stack, false); err != nil {
				return
			}
			t = c.T.transform()
		}
		var pb bytes.Buffer
		if err = c.packet().Marshal(&pb); err != nil {
			return
		}
		plain = pb.Bytes()
		stage = "writePacket"
		conn := &memConn{next: c.RChunk.iter()}
		if err = c2.VerifC07WritePacket(conn, w, t, c.packet()); err != nil {
			return
		}
		wire = append([]byte(nil), conn.buf...)
		stage = "readPacket"
		got, err = c2.VerifC07ReadPacket(conn, w, t)
	}()
	key := "full-" + stage + ":" + stackKinds(c.Stack) + "/" + c.T.name()
	if c.T.Kind == "dns" && c.Shape != "dns-legal-domain" {
		key = c.Shape
	}
	class := fmt.Sprintf("full-d%d-%s", len(c.Stack), c.T.name())
	if c.ViaCfg {
		class += "-profile"
	}
	key = failKey(key, c.Stack, err)
	switch {
	case err != nil:
		out.Fail(fmt.Sprintf("full path %s: %s failed: %v", name, stage, err), key, c)
	case got == nil:
		out.Fail(fmt.Sprintf("full path %s: readPacket returned no packet", name), key, c)
	case got.ID != want.ID || got.Job != want.Job || got.Flags != want.Flags || got.Device != want.Device ||
		!bytes.Equal(got.Payload(), want.Payload()) || len(got.Tags) != len(want.Tags):
		out.Fail(fmt.Sprintf("full path %s: the packet read differs from the packet written", name), key, c)
	default:
		for i := range want.Tags {
			if got.Tags[i] != want.Tags[i] {
				out.Fail(fmt.Sprintf("full path %s: tags differ", name), key, c)
				break
			}
		}
	}
	// model: wire = transform(stack(marshal bytes)); the marshal bytes are those of the real Marshal
	if sc, ok := stackCoq(c.Stack, len(plain)); err == nil && ok && (len(plain) <= 6000 || (thorough && len(plain) <= 70000)) {
		w := wireCoq(wire)
		if c.T.Kind == "dns" {
			w = dnsWireCoq(wire)
		}
		// the marshalled packet ends with its payload: header and tags literally, the payload by its generator
		pc := litPay(plain).coq()
		if pb := c.Pay.bytes(); c.Pay.Kind >= 0 && len(pb) > 0 && bytes.HasSuffix(plain, pb) {
			pc = "(PCat " + litPay(plain[:len(plain)-len(pb)]).coq() + " " + c.Pay.coq() + ")"
		}
		out.Add(fmt.Sprintf("CFull %s %s %s %s", sc, c.T.coq(), pc, w), class+"-model", true, c)
		return
	}
	out.Count(class, fmt.Sprint(c), true)
}

// ---------------------------------------------------------------- level D: histories
//
// One process, one profile, a sequence of steps on the real writePacket/readPacket (which share the
// package's pool of buffers): good round trips, faulty receives (the bytes of a good send, damaged
// before they are read) and probes of the pool.  Oracle: every good packet, after any number of
// faulty receives, is read back identical.  Model: the pool as state (Model/Wrappers.v hist_ok).

type histStep struct {
	Kind  string   `json:"kind"` // good | cut | reclen | garbage | garble | half | empty | probe
	Arg   int      `json:"arg,omitempty"`
	ID    int      `json:"id"`
	Job   int      `json:"job"`
	Flags uint64   `json:"flags"`
	Tags  []uint32 `json:"tags,omitempty"`
	Dev   uint64   `json:"device_seed"`
	Pay   paySpec  `json:"payload"`
}

type histCase struct {
	Level  string     `json:"level"`
	Stack  []elem     `json:"stack"`
	T      tspec      `json:"transform"`
	ViaCfg bool       `json:"via_profile"`
	Steps  []histStep `json:"steps"`
	RChunk chunking   `json:"conn_read_chunks"`
}

func (h histStep) full(c histCase) fullCase {
	return fullCase{Stack: c.Stack, T: c.T, ID: h.ID, Job: h.Job, Flags: h.Flags, Tags: h.Tags, Dev: h.Dev, Pay: h.Pay}
}

// buildProfile returns the wrapper and transform, directly or through cfg.Pack(...).Build().Next().
func buildProfile(ws []elem, ts tspec, viaCfg bool) (w cfg.Wrapper, t cfg.Transform, err error) {
	if viaCfg {
		var s []cfg.Setting
		if x := ts.setting(); x != nil {
			s = append(s, x)
		}
		for _, e := range ws {
			s = append(s, e.setting())
		}
		var p cfg.Profile
		if p, err = cfg.Pack(s...).Build(); err != nil {
			return
		}
		if p != nil {
			_, w, t = p.Next()
		}
		return
	}
	if w, err = buildStack(ws, false); err != nil {
		return
	}
	return w, ts.transform(), nil
}

// lastDNSRecordLen returns the offset of the 16-bit length field of the last data record of a DNS
// framed wire, or -1.
func lastDNSRecordLen(w []byte) int {
	o, last := 0, -1
	for _, n := range transform.VerifC07PacketLens(w) {
		p := w[o : o+n]
		s := 12
		for s < len(p) && p[s] != 0 {
			s += int(p[s]) + 1
		}
		s += 5
		if transform.VerifC07DNSServer {
			s += 16
		}
		for s+12 <= len(p) {
			last = o + s + 10
			s += 12 + (int(p[s+10])<<8 | int(p[s+11]))
		}
		o += n
	}
	return last
}

// damage turns the bytes of a good send into a faulty input.
func damage(kind string, arg int, w []byte, dns bool) []byte {
	b := append([]byte(nil), w...)
	switch kind {
	case "empty":
		return nil
	case "cut": // the stream ends early (connection cut, read timeout)
		k := 1 + arg%300
		if k >= len(b) {
			k = len(b) / 2
		}
		return b[:len(b)-k]
	case "half":
		return b[:len(b)/2]
	case "reclen": // DNS: the last record announces more bytes than follow
		if i := -1; dns {
			if i = lastDNSRecordLen(b); i >= 0 && i+1 < len(b) {
				v := (int(b[i])<<8 | int(b[i+1])) + 7
				b[i], b[i+1] = byte(v>>8), byte(v)
				return b
			}
		}
		fallthrough
	case "garble": // eight bytes in the last third become 0xFF (bad hex / base64, broken zlib stream, bad record header)
		i := len(b)*2/3 + arg%(len(b)/4+1)
		for j := i; j < i+8 && j < len(b); j++ {
			b[j] = 0xFF
		}
		return b
	case "garbage": // nothing but bytes that are neither hex nor base64 nor a DNS header
		for j := range b {
			b[j] = "!#$%&"[(j+arg)%5]
		}
		return b
	}
	return b
}

func readStage(err error) int {
	switch {
	case err == nil:
		return 0
	case strings.Contains(err.Error(), "read from stream"):
		return 1
	case strings.Contains(err.Error(), "read from cache"):
		return 2
	}
	return 3
}

// panics seen inside faulty receives (observations for C04), by stack kinds and message
var panics = map[string]int{}

func runHist(c histCase) {
	c.Level = "history"
	if !guard(c) {
		return
	}
	name := stackName(c.Stack) + "/" + c.T.name()
	class := fmt.Sprintf("history-d%d-%s", len(c.Stack), c.T.name())
	var (
		terms         []string
		faults        []string
		failed, model = false, true
		lit           int
	)
	sc, ok := stackCoq(c.Stack, 4096)
	if !ok {
		model = false
	}
	w, t, err := buildProfile(c.Stack, c.T, c.ViaCfg)
	if err != nil {
		out.Fail(fmt.Sprintf("history %s: building the profile failed: %v", name, err), "history-build:"+stackKinds(c.Stack)+"/"+c.T.name(), c)
		return
	}
	c2.VerifC07PoolProbe(8, true) // every history starts from a pool of empty buffers
	fail := func(what, key string) {
		if !failed {
			failed = true
			out.Fail(what, key, c)
		}
	}
	for si, h := range c.Steps {
		if h.Kind == "probe" {
			sz := c2.VerifC07PoolProbe(4, false)
			z := make([]int64, len(sz))
			for i, v := range sz {
				z[i] = int64(v)
			}
			terms = append(terms, "HProbe "+vh.ZList64(z))
			continue
		}
		var (
			f     = h.full(c)
			want  = f.packet()
			plain []byte
			conn  = &memConn{next: c.RChunk.iter()}
			got   *com.Packet
			stage = "marshal"
			e     error
		)
		func() {
			defer func() {
				if x := recover(); x != nil {
					e = fmt.Errorf("panic: %v", x)
				}
			}()
			var pb bytes.Buffer
			if e = f.packet().Marshal(&pb); e != nil {
				return
			}
			plain = pb.Bytes()
			stage = "writePacket"
			if e = c2.VerifC07WritePacket(conn, w, t, f.packet()); e != nil {
				return
			}
			if h.Kind != "good" {
				conn.buf = damage(h.Kind, h.Arg, conn.buf, c.T.Kind == "dns")
				lit += len(conn.buf)
				wire := append([]byte(nil), conn.buf...)
				// a run-time panic inside the faulty receive (e.g. CBK.Read returning a count larger than the
				// buffer after a damaged count byte) is a robustness matter (property C04), recorded as an
				// observation; for C07 it is one more way for a receive to fail
				var re error
				func() {
					defer func() {
						if x := recover(); x != nil {
							re = fmt.Errorf("panic: %v", x)
							out.Count("observation-panic-in-faulty-receive", fmt.Sprintf("%s|%v", name, x), true)
							panics[fmt.Sprintf("%s: %v", stackKinds(c.Stack), x)]++
						}
					}()
					_, re = c2.VerifC07ReadPacket(conn, w, t)
				}()
				faults = append(faults, h.Kind)
				terms = append(terms, fmt.Sprintf("HBad %s %d", vh.Bytes(wire), readStage(re)))
				return
			}
			stage = "readPacket"
			got, e = c2.VerifC07ReadPacket(conn, w, t)
		}()
		if h.Kind != "good" {
			if e != nil { // the send that was to be damaged failed: not a step
				fail(fmt.Sprintf("history %s: step %d: %s failed: %v", name, si, stage, e), failKey("history-send:"+stackKinds(c.Stack)+"/"+c.T.name(), c.Stack, e))
			}
			continue
		}
		same := e == nil && got != nil && got.ID == want.ID && got.Job == want.Job && got.Flags == want.Flags && got.Device == want.Device &&
			bytes.Equal(got.Payload(), want.Payload()) && len(got.Tags) == len(want.Tags)
		if same {
			for i := range want.Tags {
				same = same && got.Tags[i] == want.Tags[i]
			}
		}
		if !same {
			key := "history-good-after-faults:" + stackKinds(c.Stack) + "/" + c.T.name()
			if len(faults) == 0 {
				key = "history-good:" + stackKinds(c.Stack) + "/" + c.T.name()
			}
			what := "the packet read differs from the packet written"
			if e != nil {
				what = fmt.Sprintf("%s failed: %v", stage, e)
			}
			fail(fmt.Sprintf("history %s: step %d, after %d faulty receive(s) %v: a good packet did not round-trip: %s", name, si, len(faults), faults, what),
				failKey(key, c.Stack, e))
		}
		pc := litPay(plain).coq()
		if pb := h.Pay.bytes(); h.Pay.Kind >= 0 && len(pb) > 0 && bytes.HasSuffix(plain, pb) {
			pc = "(PCat " + litPay(plain[:len(plain)-len(pb)]).coq() + " " + h.Pay.coq() + ")"
		}
		terms = append(terms, fmt.Sprintf("HGood %s %s", pc, vh.B(same)))
	}
	sz := c2.VerifC07PoolProbe(8, true)
	z := make([]int64, len(sz))
	for i, v := range sz {
		z[i] = int64(v)
	}
	terms = append(terms, "HProbe "+vh.ZList64(z))
	if model && lit <= 9000 {
		out.Add(fmt.Sprintf("CHist %s %s %s", sc, c.T.coq(), vh.List(terms)), class+"-model", true, c)
		return
	}
	out.Count(class, fmt.Sprint(c), true)
}

// runTrRead: Transform.Read alone on a damaged input: the bytes it has written when it returns.
func runTrRead(ts tspec, pay paySpec, kind string, arg int) {
	if !guard(map[string]interface{}{"level": "transform-read", "transform": ts, "payload": pay, "damage": kind, "arg": arg}) {
		return
	}
	t := ts.transform()
	var w, o bytes.Buffer
	func() {
		defer func() { recover() }()
		t.Write(append([]byte(nil), pay.bytes()...), &w)
	}()
	if w.Len() == 0 {
		return
	}
	in := damage(kind, arg, w.Bytes(), ts.Kind == "dns")
	var err error
	func() {
		defer func() {
			if x := recover(); x != nil {
				err = fmt.Errorf("panic: %v", x)
			}
		}()
		err = t.Read(append([]byte(nil), in...), &o)
	}()
	desc := map[string]interface{}{"level": "transform-read", "transform": ts, "payload": pay, "damage": kind, "arg": arg}
	out.Add(fmt.Sprintf("CTrRead %s %s %s %s", ts.coq(), vh.Bytes(in), vh.Bytes(o.Bytes()), vh.B(err == nil)), "transform-read-damaged-model", true, desc)
}

var faultKinds = []string{"cut", "cut", "reclen", "garbage", "garble", "half", "empty"}

func randHist(r *vh.Rand, ws []elem, t tspec, probeEach bool) histCase {
	c := histCase{Stack: ws, T: t, ViaCfg: r.Intn(4) == 0, RChunk: randChunk(r, maxBlock(ws))}
	if c.ViaCfg && len(ws) == 0 && t.Kind == "none" {
		c.ViaCfg = false
	}
	step := func(kind string, n int) histStep {
		f := randFull(r, ws, t, n)
		return histStep{Kind: kind, Arg: r.Intn(1 << 16), ID: f.ID, Job: f.Job, Flags: f.Flags, Tags: f.Tags, Dev: f.Dev, Pay: f.Pay}
	}
	good := func() { c.Steps = append(c.Steps, step("good", []int{0, 1, 40, 300, 700}[r.Intn(5)])) }
	good()
	for i, n := 0, 1+r.Intn(3); i < n; i++ {
		for j, m := 0, 1+r.Intn(2); j < m; j++ {
			// the damaged send carries more than two DNS records, so that a cut stream has complete ones
			c.Steps = append(c.Steps, step(faultKinds[r.Intn(len(faultKinds))], []int{300, 600, 700}[r.Intn(3)]))
			if probeEach {
				c.Steps = append(c.Steps, histStep{Kind: "probe"})
			}
		}
		good()
		if r.Bool() {
			good()
		}
	}
	return c
}

// ---------------------------------------------------------------- level E: sends in flight together
//
// One stack; one completed send; then two Wrap()s before either Close, their writes interleaved
// (a Listener serving two Sessions); each wire is unwrapped and compared with its own plaintext,
// and with the model when the stack is made of modelled elements.

type inflightCase struct {
	Level  string   `json:"level"`
	Stack  []elem   `json:"stack"`
	First  paySpec  `json:"first_send"`
	A      paySpec  `json:"payload_a"`
	B      paySpec  `json:"payload_b"`
	WChunk chunking `json:"write_chunks"`
	BFirst bool     `json:"close_b_first"`
}

func runInflight(c inflightCase) {
	c.Level = "inflight"
	if !guard(c) {
		return
	}
	var (
		name   = stackName(c.Stack)
		pa, pb = c.A.bytes(), c.B.bytes()
		wa, wb []byte
		ga, gb []byte
		stage  = "build"
		err    error
	)
	func() {
		defer func() {
			if x := recover(); x != nil {
				err = fmt.Errorf("panic: %v", x)
			}
		}()
		var w cfg.Wrapper
		if w, err = buildStack(c.Stack, true); err != nil {
			return
		}
		send := func(p []byte, sink *data.Chunk) error {
			o, e := w.Wrap(sink)
			if e != nil {
				return e
			}
			if _, e = o.Write(p); e != nil {
				return e
			}
			return o.Close()
		}
		stage = "first send"
		if err = send(c.First.bytes(), new(data.Chunk)); err != nil {
			return
		}
		stage = "wrap"
		sa, sb := new(data.Chunk), new(data.Chunk)
		var oa, ob io.WriteCloser
		if oa, err = w.Wrap(sa); err != nil {
			return
		}
		if ob, err = w.Wrap(sb); err != nil {
			return
		}
		stage = "interleaved writes"
		next := c.WChunk.iter()
		for ra, rb := pa, pb; len(ra) > 0 || len(rb) > 0; {
			for _, x := range []struct {
				o io.Writer
				r *[]byte
			}{{oa, &ra}, {ob, &rb}} {
				k := next()
				if k > len(*x.r) {
					k = len(*x.r)
				}
				if k <= 0 && len(*x.r) > 0 {
					k = 1
				}
				if _, err = x.o.Write((*x.r)[:k]); err != nil {
					return
				}
				*x.r = (*x.r)[k:]
			}
		}
		stage = "close"
		if c.BFirst {
			if err = ob.Close(); err != nil {
				return
			}
			err = oa.Close()
		} else {
			if err = oa.Close(); err != nil {
				return
			}
			err = ob.Close()
		}
		if err != nil {
			return
		}
		wa, wb = append([]byte(nil), sa.Payload()...), append([]byte(nil), sb.Payload()...)
		stage = "unwrap A"
		var r io.Reader
		if r, err = w.Unwrap(bytes.NewReader(wa)); err != nil {
			return
		}
		if ga, err = readAll(r, chunking{Name: "whole"}.iter(), len(pa)+4096); err != nil {
			return
		}
		stage = "unwrap B"
		if r, err = w.Unwrap(bytes.NewReader(wb)); err != nil {
			return
		}
		gb, err = readAll(r, chunking{Name: "whole"}.iter(), len(pb)+4096)
	}()
	key := failKey("inflight-"+strings.Fields(stage)[0]+":"+stackKinds(c.Stack), c.Stack, err)
	switch {
	case err != nil:
		out.Fail(fmt.Sprintf("two sends in flight through %s (after one completed send): %s failed: %v (wire lengths %d, %d)", name, stage, err, len(wa), len(wb)), key, c)
	case !bytes.Equal(ga, pa) || !bytes.Equal(gb, pb):
		out.Fail(fmt.Sprintf("two sends in flight through %s (after one completed send): what is read back differs from what was written (A %d/%d bytes, B %d/%d bytes)",
			name, len(ga), len(pa), len(gb), len(pb)), "inflight-roundtrip:"+stackKinds(c.Stack), c)
	}
	class := fmt.Sprintf("inflight-d%d", len(c.Stack))
	nmax := len(pa)
	if len(pb) > nmax {
		nmax = len(pb)
	}
	if sc, ok := stackCoq(c.Stack, nmax); err == nil && ok {
		out.Add(fmt.Sprintf("CStack %s %s %s", sc, c.A.coq(), wireCoq(wa)), class+"-model", true, c)
		out.Add(fmt.Sprintf("CStack %s %s %s", sc, c.B.coq(), wireCoq(wb)), class+"-model", true, c)
		return
	}
	out.Count(class, fmt.Sprint(c), true)
}

// ---------------------------------------------------------------- CBK block functions

func runBlock(k [5]byte, index byte, blk []byte) {
	if !guard(map[string]interface{}{"level": "cbk-block", "key": ints(k[:]), "index": index, "block": ints(blk)}) {
		return
	}
	c := cbkConsts(k)
	x := c.idx[index]
	if x.Bad {
		return
	}
	gh := make([]string, 6)
	for i := 0; i < 6; i++ {
		gh[i] = fmt.Sprintf("(%d,%d)", x.G[i], x.H[i])
	}
	desc := map[string]interface{}{"level": "cbk-block", "key": ints(k[:]), "index": index, "block": ints(blk)}
	enc, err := crypto.VerifC07Block(k[0], k[1], k[2], k[3], k[4], index, true, blk)
	if err != nil {
		panic(err)
	}
	dec, _ := crypto.VerifC07Block(k[0], k[1], k[2], k[3], k[4], index, false, enc)
	if !bytes.Equal(dec, blk) {
		out.Fail("CBK.Decrypt(CBK.Encrypt(block)) differs from the block", "cbk-block", desc)
	}
	dec2, _ := crypto.VerifC07Block(k[0], k[1], k[2], k[3], k[4], index, false, blk)
	out.Add(fmt.Sprintf("CBlock %s %s %s %s %s", vh.Bytes(c.off[:len(blk)]), vh.List(gh), vh.Bytes(blk), vh.Bytes(enc), vh.Bytes(dec2)),
		"cbk-block-model", true, desc)
}

// ---------------------------------------------------------------- generators

func randKey(r *vh.Rand, n int) []int {
	return ints(r.Bytes(n))
}

func randElem(r *vh.Rand, kinds []string) elem {
	switch k := kinds[r.Intn(len(kinds))]; k {
	case "xor":
		n := []int{1, 2, 3, 7, 8, 15, 16, 17, 31, 32, 33, 64, 100, 255, 256, 257, 600}[r.Intn(17)]
		if r.Intn(4) == 0 {
			n = 1 + r.Intn(48)
		}
		return elem{Kind: k, Key: randKey(r, n)}
	case "aes":
		return elem{Kind: k, Key: randKey(r, []int{16, 24, 32}[r.Intn(3)]), IV: randKey(r, 16)}
	case "cbk":
		sz := []int{16, 32, 64, 128, 0}[r.Intn(5)]
		c := ints(r.Bytes(4))
		if r.Intn(6) == 0 {
			c[r.Intn(4)] = []int{0, 1, 255, 128}[r.Intn(4)]
		}
		return elem{Kind: k, CBK: append(c, sz)}
	default:
		return elem{Kind: k}
	}
}

var allKinds = []string{"hex", "b64", "zlib", "gzip", "xor", "aes", "cbk"}
var modelKinds = []string{"hex", "b64", "xor", "cbk"}

func lengths() []int {
	l := []int{0, 1, 15, 16, 17, 31, 32, 33, 127, 128, 129, 255, 256, 257, 2047, 2048, 2049}
	return l
}

func chunkSet(r *vh.Rand, bs int) []chunking {
	c := []chunking{{Name: "whole"}, {Name: "fixed", K: 1}, {Name: "fixed", K: 7}, {Name: "random", K: 300, Seed: r.U64()}}
	if bs > 1 {
		c = append(c, chunking{Name: "fixed", K: bs - 1})
	}
	c = append(c, chunking{Name: "fixed", K: bs + 1}, chunking{Name: "fixed", K: bs})
	return c
}

func randChunk(r *vh.Rand, bs int) chunking {
	c := chunkSet(r, bs)
	return c[r.Intn(len(c))]
}

func randPay(r *vh.Rand, n int) paySpec {
	k := 0
	switch r.Intn(10) {
	case 0:
		k = 1
	case 1:
		k = 2
	case 2:
		k = 3
	case 3, 4:
		k = 4
	}
	return paySpec{Kind: k, Seed: r.U64()>>1 | 1, N: n}
}

func maxBlock(ws []elem) int {
	b := 16
	for _, e := range ws {
		if e.Kind == "xor" || e.Kind == "cbk" || e.Kind == "aes" {
			if s := e.blockSize(); s > 0 {
				b = s
			}
		}
	}
	return b
}

var legalDomains = [][]string{
	{"example.com"},
	{"a.b"},
	{"x"},
	{strings.Repeat("a", 63) + ".com"},
	{"update.windows.com", "s3.amazon.com", "t.co"},
	{strings.Repeat("l.", 100) + "z"},
	{strings.Repeat("abcdefghijklmnopqrstuvwxyz0123456789abcdefghijklmnopqrstuvwxyz0.", 3) + "org"},
	nil, // the built-in default domain list
}
var oddDomains = [][]string{
	{"example.com."},
	{"a..b"},
	{strings.Repeat("a", 64) + ".com"},
	{"."},
	{".a"},
	{strings.Repeat("b", 255)},
	{strings.Repeat("c", 200) + ".x"},
	{"ok.example", "bad..example"},
}

func randDomain(r *vh.Rand) string {
	n := 1 + r.Intn(5)
	p := make([]string, n)
	for i := range p {
		l := 1 + r.Intn(12)
		if r.Intn(8) == 0 {
			l = []int{1, 62, 63}[r.Intn(3)]
		}
		b := make([]byte, l)
		for j := range b {
			b[j] = "abcdefghijklmnopqrstuvwxyz0123456789-"[r.Intn(37)]
		}
		p[i] = string(b)
	}
	s := strings.Join(p, ".")
	if len(s) > 255 {
		s = s[:255]
		s = strings.TrimRight(s, ".")
	}
	return s
}

func randOddDomain(r *vh.Rand) string {
	// arbitrary bytes a profile can carry (1..255 bytes), dots anywhere
	n := 1 + r.Intn(40)
	if r.Intn(5) == 0 {
		n = 1 + r.Intn(255)
	}
	b := make([]byte, n)
	for j := range b {
		switch r.Intn(6) {
		case 0:
			b[j] = '.'
		case 1:
			b[j] = byte(r.U64())
		default:
			b[j] = byte('a' + r.Intn(26))
		}
	}
	return string(b)
}

func randTransform(r *vh.Rand) tspec {
	switch r.Intn(6) {
	case 0, 1:
		return tspec{Kind: "none"}
	case 2:
		return tspec{Kind: "b64"}
	case 3:
		return tspec{Kind: "b64", Shift: []int{1, 2, 127, 128, 255, 1 + r.Intn(255)}[r.Intn(6)]}
	}
	if r.Intn(3) == 0 {
		n := 1 + r.Intn(3)
		d := make([]string, n)
		for i := range d {
			d[i] = randDomain(r)
		}
		return tspec{Kind: "dns", Domains: d}
	}
	return tspec{Kind: "dns", Domains: legalDomains[r.Intn(len(legalDomains))]}
}

func randFull(r *vh.Rand, ws []elem, t tspec, n int) fullCase {
	c := fullCase{Stack: ws, T: t, ID: r.Intn(256), Job: r.Intn(65536), Flags: r.U64(), Dev: r.U64(), Pay: randPay(r, n),
		RChunk: randChunk(r, maxBlock(ws)), ViaCfg: r.Intn(3) == 0}
	switch r.Intn(4) {
	case 0:
		c.Flags = 0
	case 1:
		c.Flags = uint64(r.Intn(256))
	}
	for i, k := 0, []int{0, 0, 1, 2, 5}[r.Intn(5)]; i < k; i++ {
		c.Tags = append(c.Tags, uint32(r.U64())|1)
	}
	if c.ViaCfg && len(ws) == 0 && t.Kind == "none" {
		c.ViaCfg = false // an empty Config builds no profile
	}
	return c
}

func main() {
	fl := vh.ParseFlags()
	out = vh.NewOut("C07", fl, "From XMT Require Import Base.Prelude Model.Wrappers.", "case", "check",
		"wrapper stacks of depth 0..4 over {hex, base64, zlib, gzip, XOR(key), AES(16/24/32), CBK(size,a,b,c,d)} x transform {none, B64, B64 shift, DNS(domains)} "+
			"x payload lengths {0,1,15,16,17,31,32,33,127,128,129,255,256,257,2047,2048,2049, 64 KiB, 300 KiB (thorough)} x write / reader / consumer chunkings "+
			"{whole, 1, 7, block-1, block, block+1, random incl. zero-length writes}; full path through writePacket/readPacket over an in-memory conn; "+
			"distinct = distinct (configuration, payload, chunking) tuple; non-trivial = non-empty payload through at least one element")
	out.ShardSize = 120
	thorough = fl.Tier == "thorough"
	r := vh.NewRand(fl.Seed)
	supervise(fl)

	if fl.Replay != "" {
		replay(fl.Replay)
		out.Finish()
		return
	}

	// ---- 1. corpus: regression inputs first
	for _, d := range oddDomains {
		runTransform(transCase{T: tspec{Kind: "dns", Domains: d}, Pay: litPay([]byte("hello"))})
	}
	runFull(randFull(r, nil, tspec{Kind: "dns", Domains: []string{"example.com."}}, 40))
	runFull(randFull(r, []elem{{Kind: "hex"}}, tspec{Kind: "dns", Domains: []string{strings.Repeat("a", 64) + ".com"}}, 40))

	// the CBK key schedule divides by zero for ~0.4 % of the keys (recorded finding): key (134,71,164,180),
	// size 16 panics when the 4th block is written, i.e. for every payload of more than 48 bytes
	runStack(stackCase{Stack: []elem{{Kind: "cbk", CBK: []int{134, 71, 164, 180, 16}}}, Pay: randPay(r, 64), WChunk: chunking{Name: "whole"},
		RChunk: chunking{Name: "whole"}, CChunk: chunking{Name: "whole"}})
	runStack(stackCase{Stack: []elem{{Kind: "cbk", CBK: []int{134, 71, 164, 180, 16}}}, Pay: randPay(r, 48), WChunk: chunking{Name: "whole"},
		RChunk: chunking{Name: "whole"}, CChunk: chunking{Name: "whole"}})

	// ---- 1b. two sends in flight through one stack after a completed send: a wrapper that closes the
	// writer under it (XOR, AES, CBK) above a pooled compressor, and other stacks
	{
		goodCBK := func(e elem) elem {
			for e.Kind == "cbk" && cbkConsts(e.cbkKey()).anyBad {
				e = randElem(r, []string{"cbk"})
			}
			return e
		}
		var stacks [][]elem
		for _, up := range []string{"xor", "aes", "cbk"} {
			for _, lo := range []string{"zlib", "gzip"} {
				stacks = append(stacks, []elem{goodCBK(randElem(r, []string{up})), {Kind: lo}})
				stacks = append(stacks, []elem{{Kind: "hex"}, goodCBK(randElem(r, []string{up})), {Kind: lo}, {Kind: "b64"}})
			}
		}
		stacks = append(stacks, []elem{{Kind: "zlib"}}, []elem{{Kind: "gzip"}}, []elem{{Kind: "zlib"}, {Kind: "gzip"}})
		ni := 24
		if thorough {
			ni = 400
		}
		for i := 0; i < ni; i++ {
			kinds := allKinds
			if i%2 == 0 {
				kinds = modelKinds
			}
			ws := make([]elem, 1+r.Intn(3))
			for j := range ws {
				ws[j] = goodCBK(randElem(r, kinds))
			}
			stacks = append(stacks, ws)
		}
		for _, ws := range stacks {
			bs := maxBlock(ws)
			runInflight(inflightCase{Stack: ws, First: randPay(r, 1+r.Intn(300)), A: randPay(r, []int{1, 33, 300, 2049}[r.Intn(4)]),
				B: randPay(r, []int{1, 64, 257, 1000}[r.Intn(4)]), WChunk: randChunk(r, bs), BFirst: r.Bool()})
		}
	}

	// ---- 2. CBK block functions against the model
	nb := 6
	if thorough {
		nb = 60
	}
	for i := 0; i < nb; i++ {
		var k [5]byte
		copy(k[:], r.Bytes(4))
		k[4] = []byte{16, 32, 64, 128}[r.Intn(4)]
		for _, idx := range []int{0, 1, 30, r.Intn(31)} {
			runBlock(k, byte(idx), r.Bytes(int(k[4])))
		}
	}

	// ---- 3. every single element x length grid x chunkings
	singles := []elem{{Kind: "hex"}, {Kind: "b64"}, {Kind: "zlib"}, {Kind: "gzip"}}
	for _, n := range []int{1, 16, 33} {
		singles = append(singles, elem{Kind: "xor", Key: randKey(r, n)})
	}
	for _, n := range []int{16, 24, 32} {
		singles = append(singles, elem{Kind: "aes", Key: randKey(r, n), IV: randKey(r, 16)})
	}
	for _, sz := range []int{16, 32, 64, 128, 0} {
		singles = append(singles, elem{Kind: "cbk", CBK: append(ints(r.Bytes(4)), sz)})
	}
	if thorough {
		for i := 0; i < 40; i++ {
			singles = append(singles, randElem(r, []string{"xor", "aes", "cbk", "cbk"}))
		}
	}
	for _, e := range singles {
		ws := []elem{e}
		for _, n := range lengths() {
			cs := chunkSet(r, e.blockSize())
			for i, wc := range cs {
				if !thorough && n > 300 && i%3 != int(r.U64()%3) {
					continue
				}
				runStack(stackCase{Stack: ws, Multi: r.Bool(), Pay: randPay(r, n), WChunk: wc, RChunk: randChunk(r, e.blockSize()),
					CChunk: cs[(i+1)%len(cs)], EOFW: r.Bool()})
			}
		}
		// lengths around the element's own block size
		if bs := e.blockSize(); bs > 3 {
			for _, n := range []int{bs - 1, bs, bs + 1, 2*bs - 1, 2 * bs, 2*bs + 1, 31 * bs, 31*bs + 1, 32 * bs, 33*bs + 5} {
				runStack(stackCase{Stack: ws, Pay: randPay(r, n), WChunk: randChunk(r, bs), RChunk: randChunk(r, bs), CChunk: randChunk(r, bs), EOFW: r.Bool()})
			}
		}
	}
	// large payloads
	big := []int{65536}
	if thorough {
		big = []int{65535, 65536, 65537, 300 * 1024}
	}
	for _, n := range big {
		for ei, e := range singles {
			if !thorough && e.Kind == "cbk" && e.blockSize() < 64 {
				continue
			}
			if ei >= 13 && n != 65536 {
				continue // the extra random elements of the thorough tier: one large payload each
			}
			// the Coq model repeats only some of the large payloads (a 300 KiB case costs it about 30 s)
			sel := e.Kind == "hex" || (e.Kind == "xor" && len(e.Key) == 16) || (e.Kind == "cbk" && e.CBK[4] == 128)
			oo := !sel && (!thorough || n > 70000)
			runStack(stackCase{Stack: []elem{e}, Pay: randPay(r, n), WChunk: randChunk(r, e.blockSize()), RChunk: randChunk(r, e.blockSize()),
				CChunk: chunking{Name: "random", K: 5000, Seed: r.U64()}, OracleOnly: oo})
		}
	}

	// ---- 4. the empty stack and random stacks of depth 2..4
	for _, n := range []int{0, 1, 257} {
		runStack(stackCase{Stack: nil, Multi: true, Pay: randPay(r, n), WChunk: randChunk(r, 16), RChunk: randChunk(r, 16), CChunk: randChunk(r, 16)})
	}
	ns := 500
	if thorough {
		ns = 6000
	}
	ls := lengths()
	for i := 0; i < ns; i++ {
		d := 2 + r.Intn(3)
		kinds := allKinds
		if i%2 == 0 {
			kinds = modelKinds // stacks whose wire the model recomputes
		}
		ws := make([]elem, d)
		for j := range ws {
			ws[j] = randElem(r, kinds)
		}
		n := ls[r.Intn(len(ls))]
		if r.Intn(4) == 0 {
			n = r.Intn(700)
		}
		if thorough && i%600 == 0 {
			n = []int{65536, 300 * 1024}[r.Intn(2)]
		}
		bs := maxBlock(ws)
		runStack(stackCase{Stack: ws, Pay: randPay(r, n), WChunk: randChunk(r, bs), RChunk: randChunk(r, bs), CChunk: randChunk(r, bs), EOFW: r.Bool()})
	}
	// every ordered pair of kinds once (composition order)
	for _, a := range allKinds {
		for _, b := range allKinds {
			ws := []elem{randElem(r, []string{a}), randElem(r, []string{b})}
			runStack(stackCase{Stack: ws, Pay: randPay(r, 129), WChunk: randChunk(r, 16), RChunk: randChunk(r, 16), CChunk: randChunk(r, 16)})
		}
	}

	// ---- 5. transforms
	shifts := []int{0, 1, 2, 3, 64, 127, 128, 129, 254, 255}
	if thorough {
		shifts = shifts[:0]
		for s := 0; s < 256; s++ {
			shifts = append(shifts, s)
		}
	}
	tl := append(lengths(), 511, 512, 513, 4095, 4096, 4097)
	for _, s := range shifts {
		for _, n := range tl {
			if !thorough && n > 300 && (s+n)%3 != 0 {
				continue
			}
			runTransform(transCase{T: tspec{Kind: "b64", Shift: s}, Pay: randPay(r, n)})
		}
	}
	runTransform(transCase{T: tspec{Kind: "b64", Shift: 77}, Pay: randPay(r, 65536)})
	for _, d := range legalDomains {
		for _, n := range tl {
			if !thorough && len(d) != 1 && n > 300 && n%2 == 0 {
				continue
			}
			runTransform(transCase{T: tspec{Kind: "dns", Domains: d}, Pay: randPay(r, n)})
		}
	}
	runTransform(transCase{T: tspec{Kind: "dns", Domains: []string{"example.com"}}, Pay: randPay(r, 65536)})
	nd := 60
	if thorough {
		nd = 3000
	}
	for i := 0; i < nd; i++ {
		d := make([]string, 1+r.Intn(3))
		for j := range d {
			if i%2 == 0 {
				d[j] = randDomain(r)
			} else {
				d[j] = randOddDomain(r)
			}
		}
		n := tl[r.Intn(len(tl))]
		if r.Intn(3) == 0 {
			n = 1 + r.Intn(2600)
		}
		runTransform(transCase{T: tspec{Kind: "dns", Domains: d}, Pay: randPay(r, n)})
	}

	// ---- 6. full path
	nf := 500
	if thorough {
		nf = 6000
	}
	for i := 0; i < nf; i++ {
		d := r.Intn(5)
		kinds := allKinds
		if i%2 == 0 {
			kinds = modelKinds
		}
		ws := make([]elem, d)
		for j := range ws {
			ws[j] = randElem(r, kinds)
			if ws[j].Kind == "xor" && len(ws[j].Key) > 255 {
				ws[j].Key = ws[j].Key[:255]
			}
		}
		n := ls[r.Intn(len(ls))]
		if r.Intn(4) == 0 {
			n = r.Intn(700)
		}
		if i%100 == 99 {
			n = 65536
			if thorough && i%600 == 599 {
				n = 300 * 1024
			}
		}
		runFull(randFull(r, ws, randTransform(r), n))
	}
	// every transform kind with the empty stack and with one element of each kind
	for _, t := range []tspec{{Kind: "none"}, {Kind: "b64"}, {Kind: "b64", Shift: 200}, {Kind: "dns", Domains: []string{"example.com"}}, {Kind: "dns"}} {
		runFull(randFull(r, nil, t, 300))
		for _, k := range allKinds {
			runFull(randFull(r, []elem{randElem(r, []string{k})}, t, 2049))
		}
	}
	// ---- 7. histories: good round trips mixed with faulty receives in one process (the buffer pool is shared state)
	{
		goodCBK := func(e elem) elem {
			for e.Kind == "cbk" && cbkConsts(e.cbkKey()).anyBad {
				e = randElem(r, []string{"cbk"})
			}
			return e
		}
		tset := []tspec{{Kind: "none"}, {Kind: "b64"}, {Kind: "b64", Shift: 77}, {Kind: "dns", Domains: []string{"example.com"}},
			{Kind: "dns"}, {Kind: "dns", Domains: []string{"a..b", strings.Repeat("x", 70) + ".org."}}}
		// the regression history of the pool: one DNS stream cut 100 bytes before its end, then traffic
		for _, ws := range [][]elem{nil, {{Kind: "zlib"}}, {{Kind: "hex"}}} {
			h := randHist(r, ws, tset[3], false)
			h.ViaCfg = false
			h.Steps = []histStep{h.Steps[0], h.Steps[0], h.Steps[0]}
			h.Steps[1].Kind, h.Steps[1].Arg, h.Steps[1].Pay = "cut", 99, randPay(r, 700)
			h.Steps[2].Pay = randPay(r, 0)
			runHist(h)
		}
		rounds := 1
		if thorough {
			rounds = 12
		}
		for k := 0; k < rounds; k++ {
			for ti, t := range tset {
				// the empty stack, one element of every kind, random stacks of depth 2..3
				stacks := [][]elem{nil}
				for _, kind := range allKinds {
					stacks = append(stacks, []elem{goodCBK(randElem(r, []string{kind}))})
				}
				for i := 0; i < 6; i++ {
					kinds := allKinds
					if i%2 == 0 {
						kinds = modelKinds
					}
					ws := make([]elem, 2+r.Intn(2))
					for j := range ws {
						ws[j] = goodCBK(randElem(r, kinds))
						if ws[j].Kind == "xor" && len(ws[j].Key) > 255 {
							ws[j].Key = ws[j].Key[:255]
						}
					}
					stacks = append(stacks, ws)
				}
				for si, ws := range stacks {
					if len(ws) == 0 && t.Kind == "none" {
						continue // no wrapper, no transform: the pool is not used
					}
					for i := range ws {
						if ws[i].Kind == "xor" && len(ws[i].Key) > 255 {
							ws[i].Key = ws[i].Key[:255]
						}
					}
					runHist(randHist(r, ws, t, (si+ti+k)%2 == 0))
				}
			}
		}
		// Transform.Read alone on damaged input: what it has written when it returns
		nt := 8
		if thorough {
			nt = 100
		}
		for _, t := range tset[1:] {
			for i := 0; i < nt; i++ {
				runTrRead(t, randPay(r, []int{5, 256, 257, 600, 700, 2049, 2300}[r.Intn(7)]), faultKinds[r.Intn(len(faultKinds))], r.Intn(1<<16))
			}
		}
	}
	if len(panics) > 0 {
		out.Extra("panics_in_faulty_receives_C04", panics)
	}
	out.Extra("dns_server_role", transform.VerifC07DNSServer)
	// how common the recorded CBK key-schedule defect is: keys (A,B,C,D) for which computing the
	// constants of some block counter 0..30 panics (integer divide by zero in blockIndex)
	{
		nk, bad := 4000, 0
		if thorough {
			nk = 100000
		}
		for i := 0; i < nk; i++ {
			var k [5]byte
			copy(k[:], r.Bytes(4))
			k[4] = 16
			if _, _, idx, err := crypto.VerifC07CBK(k[0], k[1], k[2], k[3], k[4]); err == nil {
				for j := range idx {
					if idx[j].Bad {
						bad++
						break
					}
				}
			}
		}
		out.Extra("cbk_keys_sampled", nk)
		out.Extra("cbk_keys_whose_schedule_divides_by_zero", bad)
	}
	out.Finish()
}

// replay re-runs the case stored in a replay file written by the orchestrator.
func replay(path string) {
	b, err := os.ReadFile(path)
	if err != nil {
		fmt.Fprintln(os.Stderr, err)
		os.Exit(2)
	}
	var f struct {
		Input json.RawMessage `json:"input"`
	}
	if err = json.Unmarshal(b, &f); err != nil || len(f.Input) == 0 {
		fmt.Fprintln(os.Stderr, "replay file has no input")
		os.Exit(2)
	}
	var l struct {
		Level string `json:"level"`
	}
	json.Unmarshal(f.Input, &l)
	switch l.Level {
	case "stack":
		var c stackCase
		if err = json.Unmarshal(f.Input, &c); err == nil {
			runStack(c)
		}
	case "transform":
		var c transCase
		if err = json.Unmarshal(f.Input, &c); err == nil {
			runTransform(c)
		}
	case "full":
		var c fullCase
		if err = json.Unmarshal(f.Input, &c); err == nil {
			runFull(c)
		}
	case "inflight":
		var c inflightCase
		if err = json.Unmarshal(f.Input, &c); err == nil {
			runInflight(c)
		}
	case "history":
		var c histCase
		if err = json.Unmarshal(f.Input, &c); err == nil {
			runHist(c)
		}
	default:
		err = errors.New("unknown level " + l.Level)
	}
	if err != nil {
		fmt.Fprintln(os.Stderr, err)
		os.Exit(2)
	}
}
