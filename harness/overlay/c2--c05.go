//go:build verif

package c2

// C05 shim: read-only views of a Session used by harness/c05 for diagnostics and for the
// abstract trace (key epoch, mode bit, queue fill, tracked jobs).  Nothing here changes
// behaviour; the reads are racy snapshots (the harness only uses them as statistics or after
// the history has quiesced).

// VerifC05KeySum is a fingerprint of the shared secret a Session currently holds (FNV-1a over
// the share).  It changes exactly when the Session swaps to a new key.
func VerifC05KeySum(s *Session) uint32 {
	if s == nil {
		return 0
	}
	var (
		k = s.keys.Shared()
		h = uint32(2166136261)
	)
	for i := range k {
		h = (h ^ uint32(k[i])) * 16777619
	}
	return h
}

// VerifC05State returns the raw state word (bit 8 = channel running).
func VerifC05State(s *Session) uint32 {
	if s == nil {
		return 0
	}
	return uint32(s.state)
}

// VerifC05Queue returns the fill of the send queue, whether a peeked Packet is held and the
// number of tracked Jobs.
func VerifC05Queue(s *Session) (int, bool, int) {
	if s == nil {
		return 0, false, 0
	}
	s.lock.RLock()
	n := len(s.jobs)
	s.lock.RUnlock()
	return len(s.send), s.peek != nil, n
}

// VerifC05Frags returns the number of fragment groups under reassembly.
func VerifC05Frags(s *Session) int {
	if s == nil {
		return 0
	}
	return len(s.frags)
}
