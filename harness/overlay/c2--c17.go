//go:build verif

package c2

import "github.com/iDigitalFlame/xmt/c2/cfg"

// Shim for property C17 (consumer side: (*Session).listen).  ADDED to package c2 through
// `go build -overlay`; read-only views of what the Session holds, plus the two entry points the
// harness needs to script a Session's life from inside a Connector.

// VerifC17Held returns the wrapper and transform the Session wraps its next exchange with.
func VerifC17Held(s *Session) (cfg.Wrapper, cfg.Transform) { return s.w, s.t }

// VerifC17CloseNoWait is Session.Close without waiting for the listen loop (close(false)).
func VerifC17CloseNoWait(s *Session) { s.close(false) }

// VerifC17SetSwap stores a Profile in s.swap as the MvProfile handler does; call it from the
// listen goroutine (inside Connect) only.
func VerifC17SetSwap(s *Session, p cfg.Profile) { s.swap = p }
