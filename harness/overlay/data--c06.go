//go:build verif

package data

// C06 shim: direct access to the unexported share and to fillShared.

// VerifC06SetShare overwrites the shared secret (to start fillShared from a chosen previous share).
func VerifC06SetShare(k *KeyPair, s SharedKeys) { k.share = s }

// VerifC06FillShared is the real fillShared.
func VerifC06FillShared(k *KeyPair, n PublicKey, m PrivateKey) error { return k.fillShared(n, m) }

// VerifC06Buf is the whole underlying buffer of a Chunk (what KeyCrypt transforms).
func VerifC06Buf(c *Chunk) []byte { return c.buf }
