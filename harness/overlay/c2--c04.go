//go:build verif

package c2

// C04 shim: reaches the unexported decoders and the unexported connection handler.  Nothing
// here changes behaviour; every function only constructs bare values, calls or reads.

import (
	"bytes"
	"context"
	"net"
	"time"

	"github.com/PurpleSec/escape"
	"github.com/iDigitalFlame/xmt/c2/cfg"
	"github.com/iDigitalFlame/xmt/c2/cout"
	"github.com/iDigitalFlame/xmt/com"
	"github.com/iDigitalFlame/xmt/data"
	"github.com/iDigitalFlame/xmt/device"
	"github.com/iDigitalFlame/xmt/device/local"
	"github.com/iDigitalFlame/xmt/device/local/tags"
	"github.com/iDigitalFlame/xmt/util"
)

// VerifC04Mux is a messager that processes every event at once with the real event.process
// (which recovers from panics of handler functions exactly like the Server's event loop does)
// and counts them.
type VerifC04Mux struct{ N int }

func (*VerifC04Mux) close()     {}
func (*VerifC04Mux) count() int { return 0 }
func (m *VerifC04Mux) queue(e event) {
	m.N++
	e.process(cout.Log{})
}

// VerifC04ReadDeviceInfo runs Session.readDeviceInfo on a bare Session; returns the number of
// proxy records and the Session (for the JSON view).
func VerifC04ReadDeviceInfo(t uint8, r data.Reader) (int, *Session, error) {
	s := &Session{}
	p, err := s.readDeviceInfo(t, r)
	s.proxies = p
	return len(p), s, err
}

// VerifC04ReadProxyData is readProxyData.
func VerifC04ReadProxyData(f bool, r data.Reader) (int, error) {
	p, err := readProxyData(f, r)
	return len(p), err
}

// VerifC04ReadPacket is readPacket.
func VerifC04ReadPacket(c net.Conn, w cfg.Wrapper, t cfg.Transform) (*com.Packet, error) {
	return readPacket(c, w, t)
}

// VerifC04Listener makes a Listener the way Server.ListenContext does, without a socket and
// without the accept goroutine; the Server is a real NewServer value whose event loop is
// replaced by VerifC04Pump.
func VerifC04Listener(k data.KeyPair, m *VerifC04Mux, w cfg.Wrapper, t cfg.Transform) *Listener {
	// one Server value per process (its 2048-slot event channel is expensive to make for every
	// case); every Listener starts with an empty session table and empty queues
	if verifC04Srv == nil {
		verifC04Srv = NewServer(nil)
	}
	srv := verifC04Srv
	srv.lock.Lock()
	for i := range srv.sessions {
		delete(srv.sessions, i)
	}
	srv.lock.Unlock()
	for len(srv.delSession) > 0 {
		<-srv.delSession
	}
	for len(srv.events) > 0 {
		<-srv.events
	}
	srv.Keys = k
	l := &Listener{name: "verif", ch: make(chan struct{})}
	l.connection = connection{s: srv, m: m, w: w, t: t, log: srv.log}
	l.ctx, l.cancel = context.WithCancel(srv.ctx)
	return l
}

var verifC04Srv *Server

// VerifC04Pump does what one turn of Server.listen does for the queued session removals and events.
func VerifC04Pump(l *Listener) {
	for {
		select {
		case i := <-l.s.delSession:
			l.s.lock.Lock()
			delete(l.s.sessions, i)
			l.s.lock.Unlock()
		case e := <-l.s.events:
			e.process(l.s.log)
		default:
			return
		}
	}
}

// VerifC04Handle is the real server-side handle() for one accepted connection.
func VerifC04Handle(l *Listener, c net.Conn) { handle(l.log, c, l, "verif") }

// VerifC04Sessions lists the registered sessions of the Listener's Server.
func VerifC04Sessions(l *Listener) []*Session {
	l.s.lock.RLock()
	var r []*Session
	for _, s := range l.s.sessions {
		r = append(r, s)
	}
	l.s.lock.RUnlock()
	return r
}

// VerifC04Registered tells whether the device has a Session.
func VerifC04Registered(l *Listener, id device.ID) bool {
	l.s.lock.RLock()
	_, ok := l.s.sessions[id.Hash()]
	l.s.lock.RUnlock()
	return ok
}

// VerifC04Talk is Listener.talk: the processing of one Packet that arrived on a connection.
func VerifC04Talk(l *Listener, n *com.Packet) (bool, error) {
	c, ok, err := l.talk("verif", n)
	if c != nil && c.next != nil {
		c.next.Clear()
	}
	return ok, err
}

// VerifC04Receive is receive() for the Session of the given device (nil Session when unknown).
func VerifC04Receive(l *Listener, id device.ID, n *com.Packet) error {
	l.s.lock.RLock()
	s := l.s.sessions[id.Hash()]
	l.s.lock.RUnlock()
	return receive(s, l, n)
}

// VerifC04SessionJSON is (*Session).JSON into a buffer.
func VerifC04SessionJSON(s *Session) ([]byte, error) {
	var b bytes.Buffer
	if s.parent == nil {
		s.parent = &Listener{name: "verif"}
	}
	err := s.JSON(&b)
	return b.Bytes(), err
}

// VerifC04SetStrings overwrites the client-supplied strings of a Session.
func VerifC04SetStrings(s *Session, user, host, version string, nets []string, proxies [][2]string) {
	s.Device.User, s.Device.Hostname, s.Device.Version = user, host, version
	for i := range s.Device.Network {
		if i < len(nets) {
			s.Device.Network[i].Name = nets[i]
		}
	}
	s.proxies = s.proxies[:0]
	for _, p := range proxies {
		s.proxies = append(s.proxies, proxyData{n: p[0], b: p[1]})
	}
}

// ---- listener path: building valid client transmissions with the real writer ----

// VerifC04Conn is an in-memory net.Conn: Read delivers the scripted bytes then io.EOF, Write collects.
type VerifC04Conn struct {
	In     *bytes.Reader
	Out    bytes.Buffer
	Closed bool
}

type verifC04Addr struct{}

func (verifC04Addr) Network() string { return "verif" }
func (verifC04Addr) String() string  { return "verif:0" }

func (c *VerifC04Conn) Read(b []byte) (int, error)       { return c.In.Read(b) }
func (c *VerifC04Conn) Write(b []byte) (int, error)      { return c.Out.Write(b) }
func (c *VerifC04Conn) Close() error                     { c.Closed = true; return nil }
func (c *VerifC04Conn) LocalAddr() net.Addr              { return verifC04Addr{} }
func (c *VerifC04Conn) RemoteAddr() net.Addr             { return verifC04Addr{} }
func (c *VerifC04Conn) SetDeadline(time.Time) error      { return nil }
func (c *VerifC04Conn) SetReadDeadline(time.Time) error  { return nil }
func (c *VerifC04Conn) SetWriteDeadline(time.Time) error { return nil }

// VerifC04Encode is writePacket into a buffer: the bytes a client puts on the wire for n.
func VerifC04Encode(w cfg.Wrapper, t cfg.Transform, n *com.Packet) ([]byte, error) {
	c := &VerifC04Conn{In: bytes.NewReader(nil)}
	err := writePacket(c, w, t, n)
	return c.Out.Bytes(), err
}

// VerifC04Hello builds the first Packet of a client with the given ID exactly like
// connectContextInner does (device info, optional key material), not yet on the wire.
func VerifC04Hello(id device.ID, keys bool) *com.Packet {
	s := &Session{ID: id, Device: local.Device.Machine}
	s.Device.ID = id
	n := &com.Packet{ID: SvHello, Device: id, Job: 77}
	s.writeDeviceInfo(infoHello, n)
	if keys {
		s.keySessionGenerate(n)
	}
	return n
}

// VerifC04Decode is readPacket from a buffer (what the client does with the server's answer).
func VerifC04Decode(w cfg.Wrapper, t cfg.Transform, b []byte) (*com.Packet, error) {
	return readPacket(&VerifC04Conn{In: bytes.NewReader(b)}, w, t)
}

// VerifC04SessionCount is the number of registered sessions.
func VerifC04SessionCount(l *Listener) int {
	l.s.lock.RLock()
	n := len(l.s.sessions)
	l.s.lock.RUnlock()
	return n
}

// VerifC04Frags is len(s.frags) of the Session of the device (-1 when unknown).
func VerifC04Frags(l *Listener, id device.ID) int {
	l.s.lock.RLock()
	s := l.s.sessions[id.Hash()]
	l.s.lock.RUnlock()
	if s == nil {
		return -1
	}
	return len(s.frags)
}

// VerifC04ReceiveFrags is receive() for the Session of the device, then len(s.frags) of that
// Session (also when the Packet made the Server forget it).
func VerifC04ReceiveFrags(l *Listener, id device.ID, n *com.Packet) (int, error) {
	l.s.lock.RLock()
	s := l.s.sessions[id.Hash()]
	l.s.lock.RUnlock()
	if s == nil {
		return -1, nil
	}
	err := receive(s, l, n)
	return len(s.frags), err
}

// ---- the leaves of (*Session).JSON: what each call inside JSON() returns, in its order ----

type VerifC04NetDev struct {
	Name, Mac string
	IPs       []string
}
type VerifC04Leaves struct {
	ID, Hash                                string
	Channel                                 bool
	Full, User, Host, Ver, Arch, OS         string
	Elev                                    bool
	Caps                                    string
	Domain                                  bool
	PID, PPID                               string
	Net                                     []VerifC04NetDev
	Created, Last, Via, Sleep, Jitter, Kill string
	Work                                    *[5]string
	CName, Conn                             *string
	Proxies                                 [][2]string
}

// VerifC04JSONLeaves evaluates the leaf expressions of (*Session).JSON on s (parent must be set).
func VerifC04JSONLeaves(s *Session) VerifC04Leaves {
	v := VerifC04Leaves{
		ID: s.ID.String(), Hash: util.Uitoa(uint64(s.ID.Hash())), Channel: s.InChannel(), Full: s.ID.Full(),
		User: escape.JSON(s.Device.User), Host: escape.JSON(s.Device.Hostname), Ver: escape.JSON(s.Device.Version),
		Arch: s.Device.Arch().String(), OS: escape.JSON(s.Device.OS().String()), Elev: s.Device.IsElevated(),
		Caps:   tags.ParseCapabilities(s.Device.OS() == device.Windows, s.Device.Capabilities),
		Domain: s.Device.IsDomainJoined(), PID: util.Uitoa(uint64(s.Device.PID)), PPID: util.Uitoa(uint64(s.Device.PPID)),
		Created: s.Created.Format(time.RFC3339), Last: s.Last.Format(time.RFC3339), Via: escape.JSON(s.host.String()),
		Sleep: util.Uitoa(uint64(s.sleep)), Jitter: util.Uitoa(uint64(s.jitter)),
	}
	for i := range s.Device.Network {
		d := VerifC04NetDev{Name: escape.JSON(s.Device.Network[i].Name), Mac: s.Device.Network[i].Mac.String()}
		for x := range s.Device.Network[i].Address {
			d.IPs = append(d.IPs, s.Device.Network[i].Address[x].String())
		}
		v.Net = append(v.Net, d)
	}
	if !s.kill.IsZero() {
		v.Kill = s.kill.Format(time.RFC3339)
	}
	if s.work != nil {
		v.Work = &[5]string{util.Uitoa(uint64(s.work.StartHour)), util.Uitoa(uint64(s.work.StartMin)),
			util.Uitoa(uint64(s.work.EndHour)), util.Uitoa(uint64(s.work.EndMin)), s.work.String()}
	}
	if s.parent != nil {
		n := escape.JSON(s.parent.name)
		v.CName = &n
		if t, ok := s.parent.listener.(stringer); ok {
			c := escape.JSON(t.String())
			v.Conn = &c
		}
	}
	if !s.IsClient() {
		for i := range s.proxies {
			v.Proxies = append(v.Proxies, [2]string{escape.JSON(s.proxies[i].n), escape.JSON(s.proxies[i].b)})
		}
	}
	return v
}
