//go:build verif

package c2

// C04 shim: reaches the unexported decoders and the unexported connection handler.  Nothing
// here changes behaviour; every function only constructs bare values, calls or reads.

import (
	"bytes"
	"context"
	"net"

	"github.com/iDigitalFlame/xmt/c2/cfg"
	"github.com/iDigitalFlame/xmt/com"
	"github.com/iDigitalFlame/xmt/data"
	"github.com/iDigitalFlame/xmt/device"
)

// VerifC04Mux is a messager that counts what would have been delivered to handlers.
type VerifC04Mux struct{ N int }

func (*VerifC04Mux) close()     {}
func (*VerifC04Mux) count() int { return 0 }
func (m *VerifC04Mux) queue(e event) {
	m.N++
}

// VerifC04ReadDeviceInfo runs Session.readDeviceInfo on a bare Session; returns the number of
// proxy records and the Session (for the JSON view).
func VerifC04ReadDeviceInfo(t uint8, r data.Reader) (int, *Session, error) {
	s := &Session{}
	p, err := s.readDeviceInfo(t, r)
	s.proxies = p
	return len(p), s, err
}

// VerifC04ReadProxyData is readProxyData.
func VerifC04ReadProxyData(f bool, r data.Reader) (int, error) {
	p, err := readProxyData(f, r)
	return len(p), err
}

// VerifC04ReadPacket is readPacket.
func VerifC04ReadPacket(c net.Conn, w cfg.Wrapper, t cfg.Transform) (*com.Packet, error) {
	return readPacket(c, w, t)
}

// VerifC04Listener makes a Listener bound to a Server that only has its session table and keys.
func VerifC04Listener(k data.KeyPair, m *VerifC04Mux, w cfg.Wrapper, t cfg.Transform) *Listener {
	srv := &Server{sessions: make(map[uint32]*Session), Keys: k}
	l := &Listener{name: "verif", ch: make(chan struct{})}
	l.connection = connection{s: srv, m: m, w: w, t: t, ctx: context.Background()}
	return l
}

// VerifC04Handle is the real server-side handle() for one accepted connection.
func VerifC04Handle(l *Listener, c net.Conn) { handle(l.log, c, l, "verif") }

// VerifC04Sessions lists the registered sessions of the Listener's Server.
func VerifC04Sessions(l *Listener) []*Session {
	l.s.lock.RLock()
	var r []*Session
	for _, s := range l.s.sessions {
		r = append(r, s)
	}
	l.s.lock.RUnlock()
	return r
}

// VerifC04Registered tells whether the device has a Session.
func VerifC04Registered(l *Listener, id device.ID) bool {
	l.s.lock.RLock()
	_, ok := l.s.sessions[id.Hash()]
	l.s.lock.RUnlock()
	return ok
}

// VerifC04Talk is Listener.talk: the processing of one Packet that arrived on a connection.
func VerifC04Talk(l *Listener, n *com.Packet) (bool, error) {
	c, ok, err := l.talk("verif", n)
	if c != nil && c.next != nil {
		c.next.Clear()
	}
	return ok, err
}

// VerifC04Receive is receive() for the Session of the given device (nil Session when unknown).
func VerifC04Receive(l *Listener, id device.ID, n *com.Packet) error {
	l.s.lock.RLock()
	s := l.s.sessions[id.Hash()]
	l.s.lock.RUnlock()
	return receive(s, l, n)
}

// VerifC04SessionJSON is (*Session).JSON into a buffer.
func VerifC04SessionJSON(s *Session) ([]byte, error) {
	var b bytes.Buffer
	if s.parent == nil {
		s.parent = &Listener{name: "verif"}
	}
	err := s.JSON(&b)
	return b.Bytes(), err
}

// VerifC04SetStrings overwrites the client-supplied strings of a Session.
func VerifC04SetStrings(s *Session, user, host, version string, nets []string, proxies [][2]string) {
	s.Device.User, s.Device.Hostname, s.Device.Version = user, host, version
	for i := range s.Device.Network {
		if i < len(nets) {
			s.Device.Network[i].Name = nets[i]
		}
	}
	s.proxies = s.proxies[:0]
	for _, p := range proxies {
		s.proxies = append(s.proxies, proxyData{n: p[0], b: p[1]})
	}
}
