//go:build verif

package cfg

// Shim for property C17 (profile groups).  It is ADDED to package cfg through `go build
// -overlay`; together with it the check overlays a DERIVED copy of group.go in which every
// `util.FastRandN(` call is textually rewritten to `verifRandN(util.FastRandN, ` so that the
// random draws of (*Group).Switch and (*profile).Next can be scripted and recorded.

// verifRandHook is the hook variable: nil = the real util.FastRandN is used.
var verifRandHook func(n int) uint32

func verifRandN(real func(int) uint32, n int) uint32 {
	if h := verifRandHook; h != nil {
		return h(n)
	}
	return real(n)
}

// VerifSetRandN installs (or, with nil, removes) the scripted source of FastRandN results.
func VerifSetRandN(h func(n int) uint32) { verifRandHook = h }

// VerifGroupSel returns the selector byte Build stored in the Group.
func VerifGroupSel(g *Group) uint8 { return g.sel }

// VerifGroupLen returns len(g.entries).
func VerifGroupLen(g *Group) int { return len(g.entries) }

// VerifGroupCursor returns the position of g.cur in g.entries, -1 when it is nil and -2 when
// it points to something that is not an entry.
func VerifGroupCursor(g *Group) int {
	if g.cur == nil {
		return -1
	}
	for i := range g.entries {
		if g.entries[i] == g.cur {
			return i
		}
	}
	return -2
}

// VerifGroupHost0 returns the first host of the entry at position i (identifies the configured
// group the entry was built from) and its weight as stored.
func VerifGroupHost0(g *Group, i int) (string, int) {
	p := g.entries[i]
	if len(p.hosts) == 0 {
		return "", int(p.weight) // int(): the shim must not depend on the field's integer type
	}
	return p.hosts[0], int(p.weight)
}

// VerifGroupSetConn replaces the connector of the entry at position i (recording connectors).
func VerifGroupSetConn(g *Group, i int, c interface{}) { g.entries[i].conn = c }

// VerifProfileSetConn does the same for a bare single-group profile; false if p is not one.
func VerifProfileSetConn(p Profile, c interface{}) bool {
	v, ok := p.(*profile)
	if ok {
		v.conn = c
	}
	return ok
}

// VerifSubGroup assembles a fresh *Group (nil cursor) over the first k entries of g with an
// arbitrary selector byte; the entries are the ones the real Build produced and sorted.
func VerifSubGroup(g *Group, k int, sel uint8) *Group {
	return &Group{sel: sel, entries: g.entries[:k:k]}
}
