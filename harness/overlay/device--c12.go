//go:build verif

package device

// VerifDev is an exported mirror of the unexported network interface entry (C12 harness).
type VerifDev struct {
	Name  string
	Mac   uint64
	Addrs [][2]uint64 // hi, low
}

// VerifNetwork builds a Network from plain values.
func VerifNetwork(e []VerifDev) Network {
	if e == nil {
		return nil
	}
	n := make(Network, len(e))
	for i := range e {
		n[i].Name, n[i].Mac = e[i].Name, hardware(e[i].Mac)
		if e[i].Addrs != nil {
			n[i].Address = make([]Address, len(e[i].Addrs))
			for j := range e[i].Addrs {
				n[i].Address[j] = Address{hi: e[i].Addrs[j][0], low: e[i].Addrs[j][1]}
			}
		}
	}
	return n
}

// VerifNetworkDump returns the plain values of a Network.
func VerifNetworkDump(n Network) []VerifDev {
	o := make([]VerifDev, len(n))
	for i := range n {
		o[i].Name, o[i].Mac = n[i].Name, uint64(n[i].Mac)
		o[i].Addrs = make([][2]uint64, len(n[i].Address))
		for j := range n[i].Address {
			o[i].Addrs[j] = [2]uint64{n[i].Address[j].hi, n[i].Address[j].low}
		}
	}
	return o
}
