//go:build verif

package c2

import (
	"time"

	"github.com/iDigitalFlame/xmt/com"
	"github.com/iDigitalFlame/xmt/device"
)

// C16 shim: read-only views of the closing state of a Session / Listener, the unexported
// receiveSingle entry point, and a server-side Session registered without a network (built
// exactly as Listener.talk builds it).  Nothing here changes behaviour.

// VerifC16State returns the raw state word.
func VerifC16State(s *Session) uint32 { return uint32(s.state) }

// VerifC16ListenerState returns the raw state word of a Listener.
func VerifC16ListenerState(l *Listener) uint32 { return uint32(l.state) }

func c16ProbePackets(c chan *com.Packet) int {
	if c == nil {
		return 0
	}
	for i := 0; i < 4096; i++ {
		select {
		case p, ok := <-c:
			if !ok {
				return 2
			}
			// open (or closed with buffered items): keep looking only when the channel
			// cannot take the item back
			select {
			case c <- p:
				return 1
			default:
			}
		default:
			return 1
		}
	}
	return 1
}

// c16ProbePacketsClosed is used when the state word says the channel was closed: a closed
// channel still hands out its buffered items first, so drain and look for ok == false.
func c16ProbePacketsClosed(c chan *com.Packet) (r int) {
	if c == nil {
		return 0
	}
	for i := 0; i < 4096; i++ {
		select {
		case _, ok := <-c:
			if !ok {
				return 2
			}
		default:
			return 1
		}
	}
	return 1
}
func c16ProbeSignal(c chan struct{}) int {
	if c == nil {
		return 0
	}
	select {
	case _, ok := <-c:
		if !ok {
			return 2
		}
		select {
		case c <- struct{}{}:
		default:
		}
		return 1
	default:
		return 1
	}
}

// VerifC16Chans reports send, wake, recv, ch as 0 = nil, 1 = open, 2 = closed.  Call at
// quiescence only.
func VerifC16Chans(s *Session) [4]int {
	var r [4]int
	if s.state.SendClosed() {
		r[0] = c16ProbePacketsClosed(s.send)
	} else {
		r[0] = c16ProbePackets(s.send)
	}
	if s.state.WakeClosed() {
		// a token may still sit in the buffer of a closed channel
		r[1] = c16ProbeSignal(s.wake)
		if r[1] == 1 {
			r[1] = c16ProbeSignal(s.wake)
		}
	} else {
		r[1] = c16ProbeSignal(s.wake)
	}
	if s.state.RecvClosed() && !s.state.Closed() {
		r[2] = c16ProbePacketsClosed(s.recv)
	} else {
		r[2] = c16ProbePackets(s.recv)
	}
	r[3] = c16ProbeSignal(s.ch)
	return r
}

// VerifC16ReceiveSingle runs the real receiveSingle.
func VerifC16ReceiveSingle(s *Session, n *com.Packet) { receiveSingle(s, n) }

// VerifC16ServerSession builds a server-side Session the way Listener.talk does for a new
// client and lists it in the Server.
func VerifC16ServerSession(l *Listener, id device.ID) *Session {
	s := &Session{
		ch:         make(chan struct{}),
		ID:         id,
		jobs:       make(map[uint16]*Job),
		send:       make(chan *com.Packet, 128),
		wake:       make(chan struct{}, 1),
		frags:      make(map[uint16]*cluster),
		parent:     l,
		Created:    time.Now(),
		connection: connection{s: l.s, m: l.m, log: l.log, ctx: l.ctx},
	}
	l.s.lock.Lock()
	l.s.sessions[id.Hash()] = s
	l.s.lock.Unlock()
	return s
}

// VerifC16Listed reports whether exactly this Session object is listed by its Server.
func VerifC16Listed(srv *Server, s *Session) bool {
	srv.lock.RLock()
	v, ok := srv.sessions[s.ID.Hash()]
	srv.lock.RUnlock()
	return ok && v == s
}

// VerifC16Forget unlists a Session directly (harness clean-up only).
func VerifC16Forget(srv *Server, s *Session) {
	srv.lock.Lock()
	if v, ok := srv.sessions[s.ID.Hash()]; ok && v == s {
		delete(srv.sessions, s.ID.Hash())
	}
	srv.lock.Unlock()
}
