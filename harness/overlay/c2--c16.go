//go:build verif

package c2

import (
	"time"
	"unsafe"

	"github.com/iDigitalFlame/xmt/com"
	"github.com/iDigitalFlame/xmt/device"
)

// C16 shim: read-only views of the closing state of a Session / Listener, the unexported
// receiveSingle entry point, and a server-side Session registered without a network (built
// exactly as Listener.talk builds it).  Nothing here changes behaviour.

// VerifC16State returns the raw state word.
func VerifC16State(s *Session) uint32 { return uint32(s.state) }

// VerifC16ListenerState returns the raw state word of a Listener.
func VerifC16ListenerState(l *Listener) uint32 { return uint32(l.state) }

// VerifC16ChanWake runs the real (*Session).chanWake (what a channel-mode connection calls when it
// stops); VerifC16WakeDrain takes a token out of the wake channel without blocking.
func VerifC16ChanWake(s *Session) { s.chanWake() }
func VerifC16WakeDrain(s *Session) {
	select {
	case <-s.wake:
	default:
	}
}

// VerifC16Park keeps the Server's event thread busy the way a slow New / Shutdown / Oneshot
// callback does: it queues an event whose callback signals started and waits for release.
func VerifC16Park(srv *Server, started, release chan struct{}) {
	srv.queue(event{s: new(Session), sf: func(*Session) { close(started); <-release }})
}

// VerifC16NewLen is the number of Listeners waiting in the Server's new queue;
// VerifC16Cancelled reports whether the Server's context was cancelled.
func VerifC16NewLen(srv *Server) int     { return len(srv.new) }
func VerifC16Cancelled(srv *Server) bool { return srv.ctx.Err() != nil }

// VerifC16ListenerNil reports whether the Listener's socket field is nil (read at quiescence).
func VerifC16ListenerNil(l *Listener) bool { return l.listener == nil }

// c16Closed reads the `closed` word of the run-time channel header (runtime.hchan: qcount uint,
// dataqsiz uint, buf unsafe.Pointer, elemsize uint16, [pad], closed uint32 => offset 28 on
// 64-bit).  Reading it takes nothing out of the buffer and puts nothing in, unlike a probe by
// receive / send.  VerifC16ProbeSelfTest checks the layout assumption at start-up.
func c16Closed(p unsafe.Pointer) int {
	if p == nil {
		return 0
	}
	if *(*uint32)(unsafe.Add(p, 2*unsafe.Sizeof(uintptr(0))+unsafe.Sizeof(unsafe.Pointer(nil))+4)) != 0 {
		return 2
	}
	return 1
}
func c16ProbePackets(c chan *com.Packet) int {
	return c16Closed(*(*unsafe.Pointer)(unsafe.Pointer(&c)))
}
func c16ProbeSignal(c chan struct{}) int { return c16Closed(*(*unsafe.Pointer)(unsafe.Pointer(&c))) }

// VerifC16ProbeSelfTest validates the channel-header probe on channels whose status is known.
func VerifC16ProbeSelfTest() bool {
	var (
		a = make(chan struct{}, 1)
		b = make(chan *com.Packet, 128)
		n chan struct{}
	)
	a <- struct{}{}
	b <- &com.Packet{}
	if c16ProbeSignal(n) != 0 || c16ProbeSignal(a) != 1 || c16ProbePackets(b) != 1 {
		return false
	}
	close(a)
	close(b)
	if c16ProbeSignal(a) != 2 || c16ProbePackets(b) != 2 {
		return false
	}
	u := make(chan struct{})
	if c16ProbeSignal(u) != 1 {
		return false
	}
	close(u)
	return c16ProbeSignal(u) == 2
}

// VerifC16Chans reports send, wake, recv, ch as 0 = nil, 1 = open, 2 = closed.
func VerifC16Chans(s *Session) [4]int {
	return [4]int{c16ProbePackets(s.send), c16ProbeSignal(s.wake), c16ProbePackets(s.recv), c16ProbeSignal(s.ch)}
}

// VerifC16ReceiveSingle runs the real receiveSingle.
func VerifC16ReceiveSingle(s *Session, n *com.Packet) { receiveSingle(s, n) }

// VerifC16ServerSession builds a server-side Session the way Listener.talk does for a new
// client and lists it in the Server.
func VerifC16ServerSession(l *Listener, id device.ID) *Session {
	s := &Session{
		ch:         make(chan struct{}),
		ID:         id,
		jobs:       make(map[uint16]*Job),
		send:       make(chan *com.Packet, 128),
		wake:       make(chan struct{}, 1),
		frags:      make(map[uint16]*cluster),
		parent:     l,
		Created:    time.Now(),
		connection: connection{s: l.s, m: l.m, log: l.log, ctx: l.ctx},
	}
	l.s.lock.Lock()
	l.s.sessions[id.Hash()] = s
	l.s.lock.Unlock()
	return s
}

// VerifC16Listed reports whether exactly this Session object is listed by its Server.
func VerifC16Listed(srv *Server, s *Session) bool {
	srv.lock.RLock()
	v, ok := srv.sessions[s.ID.Hash()]
	srv.lock.RUnlock()
	return ok && v == s
}

// VerifC16Forget unlists a Session directly (harness clean-up only).
func VerifC16Forget(srv *Server, s *Session) {
	srv.lock.Lock()
	if v, ok := srv.sessions[s.ID.Hash()]; ok && v == s {
		delete(srv.sessions, s.ID.Hash())
	}
	srv.lock.Unlock()
}
