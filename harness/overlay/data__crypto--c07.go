//go:build verif

package crypto

import "fmt"

// Shim for property C07 (wrappers and transforms are lossless).  It changes no behaviour: it
// reads, for one key, the key-dependent constants of the CBK cipher that the Gallina model takes
// as inputs (DESIGN.md section 4, "nondeterminism as observed input"):
//   - the first 16 bytes of the substitution table, by CALLING cipherTable for each value of the
//     block counter (only t[i&0xF] is ever used by flushOutput/readInput),
//   - the shuffle offsets, by CALLING Shuffle on an all-zero buffer of the cipher's size,
//   - the six (g, h) pairs of scramble.  These are computed inline in scramble, so the three
//     `adjust` lines and the two g/h lines are repeated here verbatim (same types, same
//     conversions).  If scramble changes, the model's wire bytes stop matching the real ones and
//     the correspondence run reports it.

// VerifC07CBKIndex holds the constants for one value of CBK.index.
type VerifC07CBKIndex struct {
	T    [16]byte
	G, H [6]byte
	// Bad is set when computing the constants of this index panics in the real code (integer
	// divide by zero in blockIndex); what was recovered is in Panic.
	Bad   bool
	Panic string
}

// VerifC07CBK returns the block size, the shuffle offsets (size+1 values) and the constants for
// index = 0..30 of the cipher NewCBKSource(a, b, c, d, sz) builds.
func VerifC07CBK(a, b, c, d, sz byte) (int, []byte, [31]VerifC07CBKIndex, error) {
	var r [31]VerifC07CBKIndex
	v, err := NewCBKSource(a, b, c, d, sz)
	if err != nil {
		return 0, nil, r, err
	}
	e := &v
	off := make([]byte, len(e.buf))
	e.Shuffle(off)
	for k := 0; k < 31; k++ {
		verifC07Index(e, uint8(k), &r[k])
	}
	return len(e.buf) - 1, off, r, nil
}

func verifC07Index(e *CBK, k uint8, r *VerifC07CBKIndex) {
	defer func() {
		if x := recover(); x != nil {
			r.Bad, r.Panic = true, fmt.Sprint(x)
		}
	}()
	{
		e.index = k
		var t [size + 1]byte
		e.cipherTable(&t)
		copy(r.T[:], t[:16])
		var (
			x    = e.adjust(uint16(e.A*e.B) + uint16(e.D))
			y    = e.adjust(uint16((e.C-e.D)*e.A) + x + e.adjust(uint16(e.index)))
			z    = e.adjust(uint16(byte(x*y) + e.B - e.D*e.index))
			g, h byte
		)
		for i := int8(0); i < 6; i++ {
			g = (byte(z*y) + e.blockIndex(true, uint16(e.D*e.A)+uint16(i)+x, uint16(e.D)+uint16(e.index))) % 8
			h = (byte(y) - e.blockIndex(false, y+uint16(e.D)+uint16(e.index*uint8(i+1)), uint16(e.D)+x+uint16(byte(uint16(i)*z)*e.A))) % 8
			r.G[i], r.H[i] = g, h
		}
	}
}

// VerifC07Block runs the block functions of the real cipher (Encrypt = Shuffle + scramble,
// Decrypt = the reverse) for a given block counter; used to compare one block with the model
// without the stream framing.
func VerifC07Block(a, b, c, d, sz, index byte, enc bool, blk []byte) ([]byte, error) {
	v, err := NewCBKSource(a, b, c, d, sz)
	if err != nil {
		return nil, err
	}
	v.index = index
	o := make([]byte, len(blk))
	if enc {
		v.Encrypt(o, blk)
	} else {
		v.Decrypt(o, blk)
	}
	return o, nil
}
