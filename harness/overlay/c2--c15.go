//go:build verif

package c2

// Verification shim for property C15 (added through `go build -overlay`, never committed).
// It only constructs Server / Listener / Proxy / Session values without a network and calls or
// reads unexported items; no behaviour is re-implemented here.

import (
	"bytes"
	"context"
	"io"
	"net"
	"sort"
	"time"

	"github.com/iDigitalFlame/xmt/c2/cout"
	"github.com/iDigitalFlame/xmt/com"
	"github.com/iDigitalFlame/xmt/data"
	"github.com/iDigitalFlame/xmt/device"
)

// VerifC15NewServer returns a Server whose real event loop (Server.listen) is running and a
// Listener attached to it that has no socket: talk/talkSub never touch the socket.
func VerifC15NewServer(keys data.KeyPair) (*Server, *Listener) {
	srv := NewServer(nil)
	srv.Keys = keys
	l := &Listener{ch: make(chan struct{}), name: "c15", connection: connection{s: srv, m: srv, log: srv.log}}
	l.ctx, l.cancel = context.WithCancel(srv.ctx)
	go srv.listen()
	return srv, l
}

// VerifC15Barrier returns once every pending removal and every event queued so far has been
// processed by the server's event loop (which is single threaded).
func VerifC15Barrier(srv *Server) bool {
	dl := time.Now().Add(5 * time.Second)
	for len(srv.delSession) > 0 {
		if time.Now().After(dl) {
			return false
		}
		time.Sleep(20 * time.Microsecond)
	}
	// two rounds: a removal handled between the rounds may itself queue a Shutdown event
	for r := 0; r < 2; r++ {
		done := make(chan struct{})
		srv.queue(event{s: &Session{}, sf: func(*Session) { close(done) }})
		select {
		case <-done:
		case <-time.After(5 * time.Second):
			return false
		}
	}
	return true
}

func VerifC15Talk(l *Listener, a string, n *com.Packet) (*com.Packet, *device.ID, bool, error) {
	c, ok, err := l.talk(a, n)
	if c == nil {
		return nil, nil, ok, err
	}
	var h *device.ID
	if c.host != nil {
		i := c.host.clientID()
		h = &i
	}
	return c.next, h, ok, err
}

func VerifC15TalkSub(l *Listener, a string, n *com.Packet, o bool) (*device.ID, uint32, *com.Packet, error) {
	k, q, r, err := l.talkSub(a, n, o)
	if k == nil {
		return nil, q, r, err
	}
	i := k.clientID()
	return &i, q, r, err
}

type VerifC15Entry struct {
	Key  uint32
	S    *Session
	ID   device.ID
	Host string
	Pub0 byte
	Pub1 byte
	Out  []*com.Packet
}

func verifC15Snapshot(ch chan *com.Packet) []*com.Packet {
	var o []*com.Packet
	for len(ch) > 0 {
		o = append(o, <-ch)
	}
	for _, p := range o {
		ch <- p
	}
	return o
}

// VerifC15Table lists Server.sessions by ascending key.  The queued outbound packets are
// taken out of the send channel and put back in the same order.
func VerifC15Table(srv *Server) []VerifC15Entry {
	srv.lock.RLock()
	r := make([]VerifC15Entry, 0, len(srv.sessions))
	for k, s := range srv.sessions {
		r = append(r, VerifC15Entry{Key: k, S: s, ID: s.ID, Host: s.host.String(), Pub0: s.keys.Public[0], Pub1: s.keys.Public[1],
			Out: verifC15Snapshot(s.send)})
	}
	srv.lock.RUnlock()
	sort.Slice(r, func(i, j int) bool { return r[i].Key < r[j].Key })
	return r
}

// VerifC15Hello builds the registration packet a client with this ID sends (Session.writeDeviceInfo).
func VerifC15Hello(i device.ID, job uint16, m device.Machine) *com.Packet {
	m.ID = i
	s := &Session{ID: i, Device: m}
	n := &com.Packet{ID: SvHello, Job: job, Device: i}
	s.writeDeviceInfo(infoHello, n)
	return n
}

// ---- proxy

// VerifC15NewProxy returns a Proxy without a socket on a client-side parent Session.
func VerifC15NewProxy(parent device.ID) (*Proxy, *Session) {
	s := &Session{ID: parent, ch: make(chan struct{}), send: make(chan *com.Packet, 128), wake: make(chan struct{}, 1),
		frags: make(map[uint16]*cluster)}
	s.log = cout.New(nil)
	p := &Proxy{ch: make(chan struct{}), close: make(chan uint32, 16), parent: s, clients: make(map[uint32]*proxyClient),
		connection: connection{log: s.log}}
	p.ctx, p.cancel = context.WithCancel(context.Background())
	s.proxy = &proxyBase{Proxy: p}
	go p.prune() // the real goroutine that serves p.close (normally started by Proxy.listen)
	return p, s
}

// VerifC15ProxyBarrier returns once Proxy.prune has dealt with everything sent to p.close so far: a
// key nobody has (0) is sent after them; prune takes the requests one by one, so when that one was
// taken the ones before it are done.
func VerifC15ProxyBarrier(p *Proxy) {
	p.close <- 0
	for i := 0; len(p.close) > 0 && i < 500000; i++ {
		time.Sleep(10 * time.Microsecond)
	}
	p.lock.Lock()
	p.lock.Unlock()
}

// VerifC15ProxyStop ends the prune goroutine.
func VerifC15ProxyStop(p *Proxy) { p.cancel() }

// VerifC15ChanQueued: packets waiting in the send queue of the host of a Channel.
func (h *VerifC15Chan) Queued() int { return len(h.Host.send) }

// Next is what channelWrite would send next: Session.next(false) of the host (only called with a
// non-empty queue; with an empty one the real call waits for a wake-up).
func (h *VerifC15Chan) Next() *com.Packet { return h.Host.next(false) }

func VerifC15ProxyTalk(p *Proxy, a string, n *com.Packet) (*com.Packet, bool, bool, error) {
	c, ok, err := p.talk(a, n)
	if c == nil {
		return nil, false, ok, err
	}
	return c.next, c.host != nil, ok, err
}

func VerifC15ProxyTalkSub(p *Proxy, a string, n *com.Packet, o bool) (*device.ID, uint32, *com.Packet, error) {
	k, q, r, err := p.talkSub(a, n, o)
	if k == nil {
		return nil, q, r, err
	}
	i := k.clientID()
	return &i, q, r, err
}

func VerifC15ProxyAccept(p *Proxy, n *com.Packet) bool { return p.accept(n) }

// VerifC15Receive is receive() on a client-side Session: the call site of Proxy.accept.
func VerifC15Receive(s *Session, n *com.Packet) error { return receive(s, nil, n) }

type VerifC15Client struct {
	Key uint32
	ID  device.ID
	Out []*com.Packet
}

func VerifC15ProxyClients(p *Proxy) []VerifC15Client {
	p.lock.RLock()
	r := make([]VerifC15Client, 0, len(p.clients))
	for k, c := range p.clients {
		r = append(r, VerifC15Client{Key: k, ID: c.ID, Out: verifC15Snapshot(c.send)})
	}
	p.lock.RUnlock()
	sort.Slice(r, func(i, j int) bool { return r[i].Key < r[j].Key })
	return r
}

// VerifC15Drain empties the parent's send queue: the packets the proxy forwarded upstream.
func VerifC15Drain(s *Session) []*com.Packet {
	var o []*com.Packet
	for len(s.send) > 0 {
		o = append(o, <-s.send)
	}
	return o
}

// ---- channel routing (conn.resolve with o = true, driven through the real channelRead)

type verifC15Addr struct{}

func (verifC15Addr) Network() string { return "verif" }
func (verifC15Addr) String() string  { return "0" }

// verifC15Conn is a read-only net.Conn fed with one marshaled Packet per send on 'in'.  A nil blob
// is a marker: the reader loop takes it only when it asks for more data, i.e. once it has finished
// everything sent before; closing 'in' ends the stream (io.EOF).
type verifC15Conn struct {
	in  chan []byte
	buf []byte
}

func (c *verifC15Conn) Read(b []byte) (int, error) {
	for len(c.buf) == 0 {
		v, ok := <-c.in
		if !ok {
			return 0, io.EOF
		}
		c.buf = v
	}
	n := copy(b, c.buf)
	c.buf = c.buf[n:]
	return n, nil
}
func (*verifC15Conn) Write(b []byte) (int, error)      { return len(b), nil }
func (*verifC15Conn) Close() error                     { return nil }
func (*verifC15Conn) LocalAddr() net.Addr              { return verifC15Addr{} }
func (*verifC15Conn) RemoteAddr() net.Addr             { return verifC15Addr{} }
func (*verifC15Conn) SetDeadline(time.Time) error      { return nil }
func (*verifC15Conn) SetReadDeadline(time.Time) error  { return nil }
func (*verifC15Conn) SetWriteDeadline(time.Time) error { return nil }

// VerifC15Chan is a Channel of a server-side Session: the state conn.start sets up, and the real
// conn.channelRead running on a fake connection (channelWrite is not started, so that what lands in
// the host's send queue stays there to be looked at).
type VerifC15Chan struct {
	c    *conn
	x    *verifC15Conn
	done chan struct{}
	Host *Session
}

func VerifC15ChanOpen(l *Listener, s *Session) *VerifC15Chan {
	h := &VerifC15Chan{c: &conn{host: s, keys: s.keys}, x: &verifC15Conn{in: make(chan []byte)}, done: make(chan struct{}), Host: s}
	s.state.Set(stateChannel)
	go func() {
		h.c.channelRead(l.log, l, "0", h.x)
		close(h.done)
	}()
	return h
}

// Feed hands one Channel Packet (a NoP of the host with this tag list) to the reader and returns
// once it was processed; false: the reader has stopped (conn.stop was run).  Packet.Marshal refuses
// a zero tag, so zero tags are written as a sentinel and patched in the bytes (the reader's
// Unmarshal then fails with ErrMalformedTag, like for any peer that writes one).
func (h *VerifC15Chan) Feed(d device.ID, tags []uint32) bool {
	const sentinel = 0xFEEDFACE
	var (
		b bytes.Buffer
		t = make([]uint32, len(tags))
		z int
	)
	for i, v := range tags {
		if t[i] = v; v == 0 {
			t[i] = sentinel
			z++
		}
	}
	if err := (&com.Packet{Device: d, Tags: t}).Marshal(&b); err != nil {
		panic(err)
	}
	o := b.Bytes()
	for ; z > 0; z-- {
		i := bytes.LastIndex(o, []byte{0xFE, 0xED, 0xFA, 0xCE})
		if i < 0 {
			panic("sentinel tag not found in the marshaled Packet")
		}
		o[i], o[i+1], o[i+2], o[i+3] = 0, 0, 0, 0
	}
	select {
	case h.x.in <- o:
	case <-h.done:
		return false
	}
	select {
	case h.x.in <- nil:
		return true
	case <-h.done:
		return false
	}
}

// Close ends the stream and waits for the reader (and its conn.stop).
func (h *VerifC15Chan) Close() {
	select {
	case <-h.done:
		return
	default:
	}
	close(h.x.in)
	<-h.done
}

// Subs lists the keys of conn.subs (ascending).
func (h *VerifC15Chan) Subs() []uint32 {
	r := make([]uint32, 0, len(h.c.subs))
	for k := range h.c.subs {
		r = append(r, k)
	}
	sort.Slice(r, func(i, j int) bool { return r[i] < r[j] })
	return r
}

type VerifC15Route struct {
	Key   uint32
	ID    device.ID
	Route uint32 // key of the Session whose send queue Session.chn is, 0: chn == nil, 0xFFFFFFFF: some other queue
	Out   []*com.Packet
}

// VerifC15Routes lists Server.sessions by ascending key with the Channel redirection of each.
func VerifC15Routes(srv *Server) []VerifC15Route {
	srv.lock.RLock()
	r := make([]VerifC15Route, 0, len(srv.sessions))
	for k, s := range srv.sessions {
		e := VerifC15Route{Key: k, ID: s.ID, Out: verifC15Snapshot(s.send)}
		if s.chn != nil {
			e.Route = 0xFFFFFFFF
			for k2, s2 := range srv.sessions {
				if s2.send == s.chn {
					e.Route = k2
				}
			}
		}
		r = append(r, e)
	}
	srv.lock.RUnlock()
	sort.Slice(r, func(i, j int) bool { return r[i].Key < r[j].Key })
	return r
}

// ---- forwarding: a proxied client's packets through Proxy.notify -> Session.write -> Session.next

type VerifC15Q struct {
	Dev      device.ID
	ID       uint8
	Job      uint16
	Pos, Len uint16
}

// VerifC15ClientQueue lists the send queue of a (client side) Session, with the fragment position /
// count of each entry (0/0: not a fragment).
func VerifC15ClientQueue(s *Session) []VerifC15Q {
	var r []VerifC15Q
	if s.peek != nil {
		r = append(r, verifC15Q(s.peek))
	}
	for _, n := range verifC15Snapshot(s.send) {
		r = append(r, verifC15Q(n))
	}
	return r
}
func verifC15Q(n *com.Packet) VerifC15Q {
	q := VerifC15Q{Dev: n.Device, ID: n.ID, Job: n.Job}
	if n.Flags&com.FlagFrag != 0 {
		q.Pos, q.Len = n.Flags.Position(), n.Flags.Len()
	}
	return q
}

func VerifC15ClientPending(s *Session) bool { return len(s.send) > 0 || s.peek != nil }

// VerifC15ClientNext is Session.next(false): the next packet (container) the client sends.
func VerifC15ClientNext(s *Session) *com.Packet { return s.next(false) }

// FeedPacket hands an arbitrary Packet to the Channel reader (marshaled as it is) and returns once it
// was processed; false: the reader has stopped (conn.stop was run).
func (h *VerifC15Chan) FeedPacket(n *com.Packet) bool {
	var b bytes.Buffer
	if err := n.Marshal(&b); err != nil {
		panic(err)
	}
	select {
	case h.x.in <- b.Bytes():
	case <-h.done:
		return false
	}
	select {
	case h.x.in <- nil:
		return true
	case <-h.done:
		return false
	}
}
