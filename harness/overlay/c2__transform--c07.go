//go:build verif

package transform

// Shim for property C07: the build-time role constant of the DNS transform (true: the 16-byte
// answer record is written and the header announces one answer).
const VerifC07DNSServer = dnsServer

// VerifC07PacketLens returns the number of bytes the real decodePacket consumes for each DNS packet
// of the wire b (the packet boundaries), stopping at the first packet that does not decode.
func VerifC07PacketLens(b []byte) (l []int) {
	defer func() { recover() }()
	for i := 0; i < len(b); {
		n, err := decodePacket(discard{}, b[i:])
		if err != nil || n <= 0 {
			return l
		}
		l = append(l, n)
		i += n
	}
	return l
}

type discard struct{}

func (discard) Write(b []byte) (int, error) { return len(b), nil }
