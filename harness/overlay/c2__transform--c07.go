//go:build verif

package transform

// Shim for property C07: the build-time role constant of the DNS transform (true: the 16-byte
// answer record is written and the header announces one answer).
const VerifC07DNSServer = dnsServer
