//go:build verif

package c2

// Shim for property C03 (batching).  It only constructs values of unexported types and calls or
// reads unexported items; nothing here changes the behaviour of the package.

import (
	"github.com/iDigitalFlame/xmt/com"
	"github.com/iDigitalFlame/xmt/data"
	"github.com/iDigitalFlame/xmt/device"
)

// C03Event is one event handed to the mux by receiveSingle (a snapshot: the packet may be
// cleared later by its owner).
type C03Event struct {
	Sid     device.ID
	ID      uint8
	Job     uint16
	Device  device.ID
	Flags   com.Flag
	Tags    []uint32
	Payload []byte
	Frags   int // number of packets held in all fragment tables of the world at that moment
	// P is the Packet itself: the real mux consumer is asynchronous and looks at it only after
	// receive() has returned, so the harness reads it again at that point
	P *com.Packet
}

// C03World is a listener with registered sessions and a recording mux, without any network.
type C03World struct {
	Events []C03Event
	srv    *Server
	lis    *Listener
	ses    []*Session
}

type c03Mux struct{ w *C03World }

func (*c03Mux) close()     {}
func (*c03Mux) count() int { return 0 }
func (m *c03Mux) queue(e event) {
	if e.p == nil || e.s == nil {
		return
	}
	m.w.Events = append(m.w.Events, C03Event{
		Sid: e.s.ID, ID: e.p.ID, Job: e.p.Job, Device: e.p.Device, Flags: e.p.Flags,
		Tags: append([]uint32(nil), e.p.Tags...), Payload: append([]byte(nil), e.p.Payload()...), Frags: m.w.fragCount(), P: e.p,
	})
}
func (w *C03World) fragCount() int {
	n := 0
	for _, s := range w.ses {
		for _, c := range s.frags {
			n += len(c.data)
		}
	}
	return n
}

// C03NewWorld registers one server-side Session per device id.
func C03NewWorld(ids []device.ID) *C03World {
	w := &C03World{}
	w.srv = &Server{sessions: make(map[uint32]*Session)}
	w.lis = &Listener{name: "c03", connection: connection{s: w.srv, m: &c03Mux{w}}}
	for _, i := range ids {
		s := &Session{
			ID: i, parent: w.lis, jobs: make(map[uint16]*Job), send: make(chan *com.Packet, 128),
			wake: make(chan struct{}, 1), frags: make(map[uint16]*cluster), ch: make(chan struct{}),
			connection: connection{s: w.srv, m: w.lis.m},
		}
		w.srv.sessions[i.Hash()] = s
		w.ses = append(w.ses, s)
	}
	return w
}

// C03Process is what Listener.talk does with a packet of a registered session once it is read
// (resolve without tags, then conn.process), with o = true so that no reply is built.
func (w *C03World) C03Process(host device.ID, n *com.Packet) error {
	s, ok := w.srv.sessions[host.Hash()]
	if !ok {
		panic("c03: host session not registered")
	}
	c := &conn{host: s, keys: s.keys}
	return c.process(w.lis.log, w.lis, "c03", n, true)
}

// C03Frag is a packet held in a fragment table.
type C03Frag struct {
	Sid   device.ID
	Group uint16
	Index int
	P     *com.Packet
}

// C03Frags lists every packet held in the fragment tables, per session and group in arrival order.
func (w *C03World) C03Frags() []C03Frag {
	var r []C03Frag
	for _, s := range w.ses {
		for g, c := range s.frags {
			for i, p := range c.data {
				r = append(r, C03Frag{Sid: s.ID, Group: g, Index: i, P: p})
			}
		}
	}
	return r
}

// C03Replies is the number of packets the receiving sessions queued in reply (SvDrop notices).
func (w *C03World) C03Replies() int {
	n := 0
	for _, s := range w.ses {
		n += len(s.send)
	}
	return n
}

// C03NewSender builds a Session whose only live parts are the send queue, peek and state.
// server = true gives a listener-side session (parent set), false a client session; for the
// latter a pending re-key is recorded so that pick() never draws the random re-key packet.
func C03NewSender(id device.ID, server bool) *Session {
	s := &Session{
		ID: id, jobs: make(map[uint16]*Job), send: make(chan *com.Packet, 128), wake: make(chan struct{}, 1),
		frags: make(map[uint16]*cluster), ch: make(chan struct{}),
	}
	if server {
		srv := &Server{sessions: make(map[uint32]*Session)}
		s.parent = &Listener{name: "c03s", connection: connection{s: srv}}
		s.s = srv
	} else {
		s.keysNext = new(data.KeyPair)
	}
	return s
}

func C03Push(s *Session, n *com.Packet) bool {
	select {
	case s.send <- n:
		return true
	default:
		return false
	}
}
func C03Next(s *Session, i bool) *com.Packet { return s.next(i) }
func C03Peek(s *Session) *com.Packet         { return s.peek }
func C03QLen(s *Session) int                 { return len(s.send) }
func C03SetLast(s *Session, g uint16)        { s.state.SetLast(g) }
func C03Last(s *Session) uint16              { return s.state.Last() }

// C03SetProxyTags installs an active proxy whose clients (keyed by tag) have all been seen, so
// that proxy.tags() returns exactly t on the next call.
func C03SetProxyTags(s *Session, t []uint32) {
	p := &Proxy{clients: make(map[uint32]*proxyClient, len(t))}
	for _, v := range t {
		c := &proxyClient{}
		c.state.Set(stateSeen)
		p.clients[v] = c
	}
	s.proxy = &proxyBase{Proxy: p}
}

func C03IsNop(n *com.Packet) bool { return isPacketNoP(n) }

// ---- the proxy's send queue for one of its clients (proxyClient) and the client's side

// C03PC wraps a proxyClient whose only live parts are the send queue, peek and state.
type C03PC struct{ c *proxyClient }

func C03NewPC(id device.ID) *C03PC {
	return &C03PC{c: &proxyClient{ID: id, send: make(chan *com.Packet, 128), wake: make(chan struct{}, 1)}}
}
func (p *C03PC) Push(n *com.Packet) bool {
	select {
	case p.c.send <- n:
		return true
	default:
		return false
	}
}
func (p *C03PC) Next(i bool) *com.Packet { return p.c.next(i) }
func (p *C03PC) Peek() *com.Packet       { return p.c.peek }
func (p *C03PC) QLen() int               { return len(p.c.send) }

// C03ClientReceive is what a client Session does with a packet it read from its (proxied)
// connection: receive(s, nil, n).
func (w *C03World) C03ClientReceive(id device.ID, n *com.Packet) error {
	s, ok := w.srv.sessions[id.Hash()]
	if !ok {
		panic("c03: client session not registered")
	}
	return receive(s, nil, n)
}

// ---- a client Session that hosts a Proxy with registered proxied clients (receiver)

// C03Host is a client-side Session with an active Proxy; packets for the host go to the
// recording mux of the world, packets for a proxied device to that device's queue.
type C03Host struct {
	w   *C03World
	s   *Session
	ids []device.ID
	pcs []*proxyClient
}

func C03NewHost(host device.ID, proxied []device.ID) *C03Host {
	w := &C03World{}
	s := &Session{
		ID: host, jobs: make(map[uint16]*Job), send: make(chan *com.Packet, 128), wake: make(chan struct{}, 1),
		frags: make(map[uint16]*cluster), ch: make(chan struct{}), connection: connection{m: &c03Mux{w}},
	}
	w.ses = append(w.ses, s)
	p := &Proxy{clients: make(map[uint32]*proxyClient, len(proxied))}
	h := &C03Host{w: w, s: s, ids: proxied}
	for _, i := range proxied {
		c := &proxyClient{ID: i, send: make(chan *com.Packet, 256), wake: make(chan struct{}, 1)}
		p.clients[i.Hash()] = c
		h.pcs = append(h.pcs, c)
	}
	s.proxy = &proxyBase{Proxy: p}
	return h
}
func (h *C03Host) World() *C03World { return h.w }

// Receive is what the host's Session does with a packet read from its connection.
func (h *C03Host) Receive(n *com.Packet) error { return receive(h.s, nil, n) }

// Queued empties the queue of proxied client k and returns what was in it, in order.
func (h *C03Host) Queued(k int) []*com.Packet {
	var r []*com.Packet
	for len(h.pcs[k].send) > 0 {
		r = append(r, <-h.pcs[k].send)
	}
	return r
}

// ---- hand-over of a device's queue to its host's connection (Channel mode with a tag naming it)

// C03ListenerHandOver queues pre for dev on its own Session, lets the Listener redirect that
// Session to the sender queue of host (Listener.clientSet, what (*conn).resolve does with o = true),
// queues post, and returns what the host's queue then holds (in order) and what is stranded.
func (w *C03World) C03ListenerHandOver(dev, host device.ID, pre, post []*com.Packet) (redirected, stranded []*com.Packet) {
	v, h := w.srv.sessions[dev.Hash()], w.srv.sessions[host.Hash()]
	for _, n := range pre {
		v.queue(n)
	}
	w.lis.clientSet(dev.Hash(), h.sender())
	for _, n := range post {
		v.queue(n)
	}
	for len(h.send) > 0 {
		redirected = append(redirected, <-h.send)
	}
	for len(v.send) > 0 {
		stranded = append(stranded, <-v.send)
	}
	return
}

// C03ProxyHandOver is the same on a Proxy: proxied client k is redirected to the queue of client j.
func (h *C03Host) C03ProxyHandOver(k, j int, pre, post []*com.Packet) (redirected, stranded []*com.Packet) {
	v, t := h.pcs[k], h.pcs[j]
	for _, n := range pre {
		v.queue(n)
	}
	h.s.proxy.clientSet(v.ID.Hash(), t.sender())
	for _, n := range post {
		v.queue(n)
	}
	for len(t.send) > 0 {
		redirected = append(redirected, <-t.send)
	}
	for len(v.send) > 0 {
		stranded = append(stranded, <-v.send)
	}
	return
}
