//go:build verif

package cfg

import "time"

// Shim for property C19 (work hours).  ADDED to package cfg through `go build -overlay`;
// together with it the check overlays a DERIVED copy of workhours.go in which the single
// `time.Now()` call of WorkHours.Work is textually rewritten to `verifC19Clock()`, so that the
// instant the rule is evaluated at can be injected.  Nothing else changes.

// verifC19NowHook: nil = the real clock.
var verifC19NowHook func() time.Time

func verifC19Clock() time.Time {
	if h := verifC19NowHook; h != nil {
		return h()
	}
	return time.Now()
}

// VerifC19SetNow installs (nil removes) the injected clock of WorkHours.Work.
func VerifC19SetNow(h func() time.Time) { verifC19NowHook = h }
