//go:build verif

package winapi

// VerifUtf16Encode exposes the unexported strict encoder to the verification harness.
func VerifUtf16Encode(s []rune) ([]uint16, error) { return utf16Encode(s) }
