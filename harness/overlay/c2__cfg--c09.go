//go:build verif

package cfg

// Verification shim for C08/C09 (added through `go build -overlay`, never committed to /repo).
// It only reads unexported items: Config.next and the fields of the built profile.

import (
	"fmt"
	"reflect"
	"sort"

	"github.com/iDigitalFlame/xmt/c2/transform"
	"github.com/iDigitalFlame/xmt/c2/wrapper"
	"github.com/iDigitalFlame/xmt/com/pipe"
	"github.com/iDigitalFlame/xmt/com/wc2"
	"github.com/iDigitalFlame/xmt/util/text"
)

// VerifNext exposes the setting stride.
func VerifNext(c Config, i int) int { return c.next(i) }

// VItem is a connector, wrapper or transform: kind, numbers, byte strings.
type VItem struct {
	Kind int
	Nums []int64
	Strs [][]byte
	Raw  interface{}
}

// VProf is the projection of one built profile.
type VProf struct {
	Hosts  []string
	Sleep  int64
	Jitter int64
	KDS    bool
	Kill   int64
	Work   []int64 // nil = no work hours
	Keys   []uint32
	Weight int64
	Conn   *VItem
	Wraps  []VItem
	Trans  *VItem
	Src    []byte
}

// VDump is the projection of the result of Build.
type VDump struct {
	Kind    string // "nil", "profile", "group", or the unexpected type
	Sel     int64
	Entries []VProf
	Src     []byte
}

func verifStr(s wc2.Stringer) []byte {
	switch v := s.(type) {
	case nil:
		return nil
	case text.Matcher:
		return []byte(string(v))
	case text.String:
		return []byte(string(v))
	}
	return []byte(fmt.Sprintf("?%T", s))
}

func verifConn(c interface{}) *VItem {
	if c == nil {
		return nil
	}
	switch v := c.(type) {
	case pipe.Piper:
		return &VItem{Kind: 5, Raw: c}
	case *wc2.Client:
		it := &VItem{Kind: 6, Raw: c}
		keys := make([]string, 0, len(v.Target.Headers))
		for k := range v.Target.Headers {
			keys = append(keys, k)
		}
		sort.Strings(keys)
		it.Nums = []int64{int64(len(keys))}
		it.Strs = [][]byte{verifStr(v.Target.URL), verifStr(v.Target.Host), verifStr(v.Target.Agent)}
		for _, k := range keys {
			it.Strs = append(it.Strs, []byte(k), verifStr(v.Target.Headers[k]))
		}
		return it
	}
	rv := reflect.ValueOf(c)
	switch rv.Type().String() {
	case "*com.tcpConnector":
		t := rv.Elem().FieldByName("tls")
		if t.IsNil() {
			return &VItem{Kind: 1, Raw: c}
		}
		e := t.Elem()
		b2 := func(b bool) int64 {
			if b {
				return 1
			}
			return 0
		}
		return &VItem{Kind: 7, Raw: c, Nums: []int64{int64(e.FieldByName("MinVersion").Uint()), int64(e.FieldByName("Certificates").Len()),
			b2(!e.FieldByName("RootCAs").IsNil()), e.FieldByName("ClientAuth").Int()}}
	case "com.tcpClient":
		e := rv.FieldByName("c").FieldByName("tls").Elem()
		var ins int64
		if e.FieldByName("InsecureSkipVerify").Bool() {
			ins = 1
		}
		return &VItem{Kind: 2, Raw: c, Nums: []int64{int64(e.FieldByName("MinVersion").Uint()), ins}}
	case "*com.udpConnector":
		return &VItem{Kind: 3, Raw: c}
	case "*com.ipConnector":
		return &VItem{Kind: 4, Raw: c, Nums: []int64{int64(rv.Elem().FieldByName("proto").Uint())}}
	}
	return &VItem{Kind: 99, Raw: c, Strs: [][]byte{[]byte(rv.Type().String())}}
}

func verifWrap(w Wrapper) []VItem {
	if w == nil {
		return nil
	}
	switch v := w.(type) {
	case MultiWrapper:
		var o []VItem
		for _, x := range v {
			o = append(o, verifWrap(x)...)
		}
		return o
	case wrapper.CBK:
		return []VItem{{Kind: 6, Raw: w, Nums: []int64{int64(v[0]), int64(v[1]), int64(v[2]), int64(v[3]), int64(v[4])}}}
	case wrapper.XOR:
		k := reflect.ValueOf(v).FieldByName("k")
		b := make([]byte, k.Len())
		for i := range b {
			b[i] = byte(k.Index(i).Uint())
		}
		return []VItem{{Kind: 5, Raw: w, Strs: [][]byte{b}}}
	case wrapper.Block:
		k := reflect.ValueOf(v).FieldByName("v")
		b := make([]byte, k.Len())
		for i := range b {
			b[i] = byte(k.Index(i).Uint())
		}
		return []VItem{{Kind: 7, Raw: w, Strs: [][]byte{b}}}
	}
	switch w {
	case Wrapper(wrapper.Hex):
		return []VItem{{Kind: 1, Raw: w}}
	case Wrapper(wrapper.Zlib):
		return []VItem{{Kind: 2, Raw: w}}
	case Wrapper(wrapper.Gzip):
		return []VItem{{Kind: 3, Raw: w}}
	case Wrapper(wrapper.Base64):
		return []VItem{{Kind: 4, Raw: w}}
	}
	return []VItem{{Kind: 99, Raw: w, Strs: [][]byte{[]byte(fmt.Sprintf("%T", w))}}}
}

func verifTrans(t Transform) *VItem {
	switch v := t.(type) {
	case nil:
		return nil
	case transform.B64:
		return &VItem{Kind: 1, Raw: t, Nums: []int64{int64(v)}}
	case transform.DNSTransform:
		it := &VItem{Kind: 2, Raw: t}
		for _, s := range v {
			it.Strs = append(it.Strs, []byte(s))
		}
		return it
	}
	return &VItem{Kind: 99, Raw: t, Strs: [][]byte{[]byte(fmt.Sprintf("%T", t))}}
}

func verifProf(p *profile) VProf {
	o := VProf{Hosts: p.hosts, Sleep: int64(p.sleep), Jitter: int64(p.jitter), KDS: p.kds, Kill: p.kill.Unix(),
		Keys: p.keys, Weight: int64(p.weight), Conn: verifConn(p.conn), Wraps: verifWrap(p.w), Trans: verifTrans(p.t), Src: p.src}
	if p.work != nil {
		o.Work = []int64{int64(p.work.Days), int64(p.work.StartHour), int64(p.work.StartMin), int64(p.work.EndHour), int64(p.work.EndMin)}
	}
	return o
}

// VerifDump projects the result of Build to a comparable record.
func VerifDump(p Profile) VDump {
	switch v := p.(type) {
	case nil:
		return VDump{Kind: "nil"}
	case *profile:
		return VDump{Kind: "profile", Entries: []VProf{verifProf(v)}, Src: v.src}
	case *Group:
		d := VDump{Kind: "group", Sel: int64(v.sel), Src: v.src}
		for _, e := range v.entries {
			d.Entries = append(d.Entries, verifProf(e))
		}
		return d
	}
	return VDump{Kind: fmt.Sprintf("%T", p)}
}
