//go:build verif

package c2

import (
	"context"
	"net"
	"time"

	"github.com/PurpleSec/logx"
	"github.com/iDigitalFlame/xmt/c2/cfg"
	"github.com/iDigitalFlame/xmt/c2/cout"
	"github.com/iDigitalFlame/xmt/com"
	"github.com/iDigitalFlame/xmt/data"
	"github.com/iDigitalFlame/xmt/device"
)

// C12 harness access to the unexported session settings, device-info codec and MvTime path.
// Nothing here changes behaviour: the functions only build Sessions without a network, read or
// set unexported fields and call the unexported functions under test.

// VerifC12Settings is the plain view of the settings / identity of a Session.
type VerifC12Settings struct {
	ID     device.ID
	Device device.Machine
	Jitter uint8
	Sleep  int64
	Kill   time.Time
	Work   *cfg.WorkHours
	Keys   data.KeyPair
}

// VerifC12Proxy describes the proxy attached to a client Session.
type VerifC12Proxy struct {
	Name, Addr string
	Profile    []byte
	Active     bool
}

// VerifC12PD is an exported mirror of proxyData.
type VerifC12PD struct {
	Name, Addr string
	Profile    []byte
}

// a Profile that only marshals: the proxy writer needs nothing else from it
type verifC12Profile struct{ b []byte }

func (verifC12Profile) Jitter() int8                                        { return -1 }
func (verifC12Profile) Switch(bool) bool                                    { return false }
func (verifC12Profile) Sleep() time.Duration                                { return 0 }
func (verifC12Profile) WorkHours() *cfg.WorkHours                           { return nil }
func (verifC12Profile) KillDate() (time.Time, bool)                         { return time.Time{}, false }
func (verifC12Profile) TrustedKey(data.PublicKey) bool                      { return true }
func (verifC12Profile) Next() (string, cfg.Wrapper, cfg.Transform)          { return "", nil, nil }
func (verifC12Profile) Connect(context.Context, string) (net.Conn, error)   { return nil, net.ErrClosed }
func (verifC12Profile) Listen(context.Context, string) (net.Listener, error) { return nil, net.ErrClosed }
func (p verifC12Profile) MarshalBinary() ([]byte, error)                    { return p.b, nil }

// VerifC12NewSession builds a Session that never touches a network: a client (no parent, no
// server) or a server-side one (parent Listener, job table).
func VerifC12NewSession(client bool) *Session {
	s := &Session{send: make(chan *com.Packet, 256)}
	s.ctx, s.log = context.Background(), cout.New(logx.NOP)
	if !client {
		s.parent = &Listener{}
		s.jobs = make(map[uint16]*Job)
	}
	return s
}

// VerifC12Set stores settings and identity.
func VerifC12Set(s *Session, v VerifC12Settings) {
	s.ID, s.Device, s.jitter, s.sleep, s.kill, s.work, s.keys = v.ID, v.Device, v.Jitter, time.Duration(v.Sleep), v.Kill, v.Work, v.Keys
}

// VerifC12Get reads them back.
func VerifC12Get(s *Session) VerifC12Settings {
	return VerifC12Settings{ID: s.ID, Device: s.Device, Jitter: s.jitter, Sleep: int64(s.sleep), Kill: s.kill, Work: s.work, Keys: s.keys}
}

// VerifC12SetProxy attaches (or removes, with nil) a proxy record without listening anywhere.
func VerifC12SetProxy(s *Session, p *VerifC12Proxy) {
	if p == nil {
		s.proxy = nil
		return
	}
	v := &Proxy{name: p.Name, addr: p.Addr, parent: s, connection: connection{p: verifC12Profile{b: p.Profile}}}
	if !p.Active {
		v.state.Set(stateClosing)
	}
	s.proxy = &proxyBase{Proxy: v}
}

// VerifC12SetClosing marks the Session as closing (IsActive() becomes false).
func VerifC12SetClosing(s *Session) { s.state.Set(stateClosing) }

// VerifC12Write calls writeDeviceInfo.
func VerifC12Write(s *Session, k uint8, w data.Writer) error { return s.writeDeviceInfo(k, w) }

// VerifC12Read calls readDeviceInfo.
func VerifC12Read(s *Session, k uint8, r data.Reader) ([]VerifC12PD, error) {
	p, err := s.readDeviceInfo(k, r)
	if p == nil {
		return nil, err
	}
	o := make([]VerifC12PD, len(p))
	for i := range p {
		o[i] = VerifC12PD{Name: p[i].n, Addr: p[i].b, Profile: p[i].p}
	}
	return o, err
}

// VerifC12Proxies returns the proxy list a server-side Session currently holds.
func VerifC12Proxies(s *Session) []VerifC12PD {
	o := make([]VerifC12PD, len(s.proxies))
	for i := range s.proxies {
		o[i] = VerifC12PD{Name: s.proxies[i].n, Addr: s.proxies[i].b, Profile: s.proxies[i].p}
	}
	return o
}

// VerifC12PopSend takes the next queued Packet (nil when the queue is empty).
func VerifC12PopSend(s *Session) *com.Packet {
	select {
	case n := <-s.send:
		return n
	default:
		return nil
	}
}

// VerifC12ClientMux runs the client-side handler for an incoming task Packet synchronously
// (defaultClientMux -> muxHandleInternal -> muxHandleSend -> queue).
func VerifC12ClientMux(s *Session, n *com.Packet) bool { return defaultClientMux(s, n) }

// VerifC12Handle gives a result Packet to the server-side Session (handle -> handleInfoResult).
func VerifC12Handle(s *Session, n *com.Packet) bool { return s.handle(n) }

// VerifC12ReceiveSingle runs receiveSingle (SvResync path).
func VerifC12ReceiveSingle(s *Session, n *com.Packet) { receiveSingle(s, n) }

// VerifC12HasJobs reports the number of tracked jobs.
func VerifC12HasJobs(s *Session) int { return len(s.jobs) }

// VerifC12MuxInternal runs muxHandleInternal (the client's handler of Mv* tasks) on n and returns
// the result body it wrote (C12: the MvProxy task driving the REAL NewProxy / Replace / Close).
func VerifC12MuxInternal(s *Session, n *com.Packet) ([]byte, error) {
	var w com.Packet
	err := muxHandleInternal(s, n, &w)
	return w.Payload(), err
}

// VerifC12ProxyState reports the attached proxy record of a client Session: attached, still
// active, and the name / bind string of the Proxy object (read-only).
func VerifC12ProxyState(s *Session) (bool, bool, string, string) {
	if s.proxy == nil {
		return false, false, "", ""
	}
	return true, s.proxy.IsActive(), s.proxy.name, s.proxy.addr
}

// VerifC12ScriptSync runs the client's Script handler (muxHandleScriptAsync = muxHandleScript +
// muxHandleSend) on the calling goroutine instead of a new one.
func VerifC12ScriptSync(s *Session, n *com.Packet) { muxHandleScriptAsync(s, n) }

// ---- C12: a full in-process migration (real Server / Listener / client / pipe) ----

// VerifC12NewServer, VerifC12Connect and VerifC12LoadContext only supply the NOP logger.
func VerifC12NewServer() *Server { return NewServer(logx.NOP) }
func VerifC12Connect(x context.Context, p cfg.Profile) (*Session, error) {
	return ConnectContext(x, logx.NOP, p)
}
func VerifC12LoadContext(x context.Context, n string, t time.Duration) (*Session, error) {
	return LoadContext(x, logx.NOP, n, t)
}

// VerifC12KeysReady reports whether the Server has generated its KeyPair (done on its event thread).
func VerifC12KeysReady(s *Server) bool { return !s.Keys.Empty() }

// VerifC12TrackJob registers a Job of the given type on a server-side Session the way Session.Task
// does, without sending a Task (the migration is started by hand on the client).
func VerifC12TrackJob(s *Session, id uint16, t uint8) *Job {
	j := &Job{ID: id, Type: t, Start: time.Now(), s: s, done: make(chan struct{})}
	s.lock.Lock()
	s.jobs[id] = j
	s.lock.Unlock()
	return j
}

// VerifC12AttachedProxy returns the attached proxy record with its marshalled profile (nil when none).
func VerifC12AttachedProxy(s *Session) *VerifC12PD {
	if s.proxy == nil || !s.proxy.IsActive() {
		return nil
	}
	o := &VerifC12PD{Name: s.proxy.name, Addr: s.proxy.addr}
	if m, ok := s.proxy.p.(marshaler); ok {
		o.Profile, _ = m.MarshalBinary()
	}
	return o
}

// ---- C12: the migration window (hand-off written, not yet confirmed) ----

// VerifC12KeyRegister runs the registration key exchange between a client Session and the
// server-side view of it with the real key functions (keySessionGenerate, keyListenerInit,
// keySessionSync) and a fresh Server KeyPair.
func VerifC12KeyRegister(c, sv *Session) error {
	var srv data.KeyPair
	srv.Fill()
	hello := &com.Packet{ID: SvHello, Device: c.ID}
	c.keySessionGenerate(hello)
	if err := sv.keyListenerInit(srv.Private, "verif", hello); err != nil {
		return err
	}
	reply := &com.Packet{ID: SvComplete, Device: c.ID, Flags: com.FlagCrypt}
	srv.Write(reply)
	return c.keySessionSync(reply)
}

// VerifC12SetMoving marks the Session as MigrateProfile does before it writes the hand-off.
func VerifC12SetMoving(s *Session) { s.state.Set(stateMoving) }

// VerifC12IdleExchange is one idle exchange of the client with the re-key roll FORCED: the real
// keyNextSync is called until its 1-in-(50+d) draw succeeds (at most max tries; its own guards
// decide whether a rotation may start at all); the announcement (or, without one, an empty Packet)
// is encrypted, given to the server's real keyCryptAndUpdate and the client's real keyCheckSync
// runs as after every reply.  Returns whether a rotation was announced.
func VerifC12IdleExchange(c, sv *Session, max int) (bool, error) {
	var n *com.Packet
	for i := 0; i < max && n == nil; i++ {
		n = c.keyNextSync()
	}
	rot := n != nil
	if n == nil {
		n = &com.Packet{Device: c.ID}
	}
	n.KeyCrypt(c.keys)
	if err := sv.keyCryptAndUpdate("verif", n, true); err != nil {
		return rot, err
	}
	return rot, c.keyCheckSync()
}
