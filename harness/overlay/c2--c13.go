//go:build verif

package c2

import "sync/atomic"

// C13 shim: exposes the unexported `state` word (every method of it is exported and is called
// directly by the harness on a bare value) and the state bit constants in declaration order.
// Added to the package through `go build -overlay`; never committed to /repo.

// VerifC13State is the session state word type itself.
type VerifC13State = state

// VerifC13Bits lists the flag constants in the order of their declaration in state.go.
var VerifC13Bits = [16]uint32{
	stateCanRecv, stateReady, stateClosed, stateClosing, stateShutdown, stateSendClose, stateRecvClose,
	stateWakeClose, stateChannel, stateChannelValue, stateChannelUpdated, stateChannelProxy, stateSeen,
	stateMoving, stateReplacing, stateShutdownWait,
}

// VerifC13Names are the names of the constants above.
var VerifC13Names = [16]string{
	"stateCanRecv", "stateReady", "stateClosed", "stateClosing", "stateShutdown", "stateSendClose", "stateRecvClose",
	"stateWakeClose", "stateChannel", "stateChannelValue", "stateChannelUpdated", "stateChannelProxy", "stateSeen",
	"stateMoving", "stateReplacing", "stateShutdownWait",
}

// VerifC13Host is the word as the rest of c2 reaches it: through the connHost methods of a
// *Session (client-side: kind 0, server-side: kind 2) or a *proxyClient (kind 1).
type VerifC13Host struct {
	h connHost
	p *state
	s *Session
}

// VerifC13NewHost builds a bare host of the given kind holding the word w.
func VerifC13NewHost(kind int, w uint32) *VerifC13Host {
	switch kind {
	case 1:
		c := new(proxyClient)
		c.state = state(w)
		return &VerifC13Host{h: c, p: &c.state}
	case 2:
		s := &Session{parent: new(Listener)}
		s.state = state(w)
		return &VerifC13Host{h: s, p: &s.state, s: s}
	default:
		s := new(Session)
		s.state = state(w)
		return &VerifC13Host{h: s, p: &s.state, s: s}
	}
}

// Word loads the state word of the host.
func (v *VerifC13Host) Word() uint32 { return atomic.LoadUint32((*uint32)(v.p)) }

// Store overwrites the state word of the host.
func (v *VerifC13Host) Store(w uint32) { atomic.StoreUint32((*uint32)(v.p), w) }

func (v *VerifC13Host) StateSet(x uint32)   { v.h.stateSet(x) }
func (v *VerifC13Host) StateUnset(x uint32) { v.h.stateUnset(x) }
func (v *VerifC13Host) ChanRunning() bool   { return v.h.chanRunning() }
func (v *VerifC13Host) ChanStart() bool     { return v.h.chanStart() }
func (v *VerifC13Host) ChanStop() bool      { return v.h.chanStop() }

// CloseCovered reports whether Session.close(false) on this host stops inside the part the model
// covers (already closing; server-side first branch; client-side second branch, which ends in a
// no-op Wake on a bare Session).  The server-side second branch runs shutdown(), which needs a
// complete Session.
func (v *VerifC13Host) CloseCovered() bool {
	if v.s == nil {
		return false
	}
	return v.s.state.Closing() || v.s.IsClient() || !v.s.state.ShutdownWait()
}

// Close calls Session.close(false).
func (v *VerifC13Host) Close() { _ = v.s.close(false) }
