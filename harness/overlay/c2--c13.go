//go:build verif

package c2

// C13 shim: exposes the unexported `state` word (every method of it is exported and is called
// directly by the harness on a bare value) and the state bit constants in declaration order.
// Added to the package through `go build -overlay`; never committed to /repo.

// VerifC13State is the session state word type itself.
type VerifC13State = state

// VerifC13Bits lists the flag constants in the order of their declaration in state.go.
var VerifC13Bits = [16]uint32{
	stateCanRecv, stateReady, stateClosed, stateClosing, stateShutdown, stateSendClose, stateRecvClose,
	stateWakeClose, stateChannel, stateChannelValue, stateChannelUpdated, stateChannelProxy, stateSeen,
	stateMoving, stateReplacing, stateShutdownWait,
}

// VerifC13Names are the names of the constants above.
var VerifC13Names = [16]string{
	"stateCanRecv", "stateReady", "stateClosed", "stateClosing", "stateShutdown", "stateSendClose", "stateRecvClose",
	"stateWakeClose", "stateChannel", "stateChannelValue", "stateChannelUpdated", "stateChannelProxy", "stateSeen",
	"stateMoving", "stateReplacing", "stateShutdownWait",
}
