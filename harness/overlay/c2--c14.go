//go:build verif

package c2

import (
	"sort"
	"strings"
	"sync/atomic"

	"github.com/PurpleSec/logx"
	"github.com/iDigitalFlame/xmt/c2/cout"
	"github.com/iDigitalFlame/xmt/com"
	"github.com/iDigitalFlame/xmt/device"
)

// Shim for property C14 (jobs finish exactly once).  It only constructs a server-side
// Session without a network and reads/calls unexported items; it changes no behaviour.

// verifC14Mux replaces the server event queue: Update events are counted, not executed.
type verifC14Mux struct{ n int32 }

func (m *verifC14Mux) close()      {}
func (m *verifC14Mux) count() int  { return int(atomic.LoadInt32(&m.n)) }
func (m *verifC14Mux) queue(event) { atomic.AddInt32(&m.n, 1) }

// VerifC14Session builds a Session the way Listener.talk does (listener.go), minus the
// network: a parent Listener, an empty job table, a 128-slot send queue.
func VerifC14Session() *Session {
	var id device.ID
	for i := range id {
		id[i] = byte(0xA0 + i)
	}
	s := &Session{
		ch:     make(chan struct{}),
		ID:     id,
		jobs:   make(map[uint16]*Job),
		send:   make(chan *com.Packet, 128),
		wake:   make(chan struct{}, 1),
		frags:  make(map[uint16]*cluster),
		parent: &Listener{},
	}
	s.Device.ID = id
	s.m = &verifC14Mux{}
	return s
}

// VerifC14Handle delivers a packet to the completion path exactly as the event
// `event{p: n, s: s, af: s.handle}` queued by receiveSingle does.
func VerifC14Handle(s *Session, p *com.Packet) bool { return s.handle(p) }
func VerifC14NewJobID(s *Session) uint16            { return s.newJobID() }
func VerifC14HasJob(s *Session, i uint16) bool      { return s.hasJob(i) }
func VerifC14Accept(s *Session, i uint16)           { s.accept(i) }
func VerifC14Frag(s *Session, i, id, max, cur uint16) {
	s.frag(i, id, max, cur)
}

// VerifC14Drain empties the send queue (the packets Task queued) and returns how many there were.
func VerifC14Drain(s *Session) int {
	n := 0
	for {
		select {
		case <-s.send:
			n++
		default:
			return n
		}
	}
}

// VerifC14Fill fills the send queue so that the next Task fails with ErrFullBuffer.
func VerifC14Fill(s *Session) {
	for len(s.send)+1 < cap(s.send) {
		s.send <- &com.Packet{Device: s.ID}
	}
}

// VerifC14Table returns the pending job numbers (sorted) read under the session lock.
func VerifC14Table(s *Session) []uint16 {
	s.lock.RLock()
	r := make([]uint16, 0, len(s.jobs))
	for k := range s.jobs {
		r = append(r, k)
	}
	s.lock.RUnlock()
	sort.Slice(r, func(i, j int) bool { return r[i] < r[j] })
	return r
}

// VerifC14Entry returns the job registered under number i (nil if none), under the lock.
func VerifC14Entry(s *Session, i uint16) *Job {
	s.lock.RLock()
	j := s.jobs[i]
	s.lock.RUnlock()
	return j
}

// VerifC14Done: 0 = done channel open, 1 = closed (field still set), 2 = field is nil.
func VerifC14Done(j *Job) int {
	if j.done == nil {
		return 2
	}
	select {
	case <-j.done:
		return 1
	default:
	}
	return 0
}

// VerifC14LockFree reports whether Session.lock can be taken (false = a panicking critical
// section left it held).
func VerifC14LockFree(s *Session) bool {
	if !s.lock.TryLock() {
		return false
	}
	s.lock.Unlock()
	return true
}

// VerifC14Events is the number of Job.Update events queued so far.
func VerifC14Events(s *Session) int { return s.m.count() }

// ---- scheduling points (deterministic interleavings) ------------------------------------------
//
// The code logs through Session.log at two places that lie BETWEEN two critical sections of
// Session.lock, on the calling goroutine and with no lock held:
//   point 1: handle, Debug "Received response for Job" - after the read-locked lookup, before
//            the write-locked finish;
//   point 2: Task -> write -> queue, Trace "Adding Packet ... to queue" - after the read-locked
//            duplicate check, before the write-locked insert;
//   point 3 (lock HELD): handle -> handleInfoResult, Debug "... changed profile/time" - inside the
//            write-locked section, after Result / Status are written, before delete / close(done).
// verifC14Log forwards exactly these calls to a hook of the harness, which may block there.
type verifC14Log struct {
	logx.Log
	hook func(point int)
}

func (l *verifC14Log) Debug(m string, _ ...interface{}) {
	if strings.Contains(m, "Received response for Job") {
		l.hook(1)
	}
	if strings.Contains(m, "changed profile/time") {
		// point 3: inside handle's write-locked section, in handleInfoResult (information jobs
		// MvTime / MvProfile), after j.Result / j.Status are written, before delete and close(done)
		l.hook(3)
	}
}
func (l *verifC14Log) Trace(m string, _ ...interface{}) {
	if strings.Contains(m, "to queue") {
		l.hook(2)
	}
}

// VerifC14SessionHooked is VerifC14Session with a logger that calls hook at the two points.
func VerifC14SessionHooked(hook func(point int)) *Session {
	s := VerifC14Session()
	s.log = cout.New(&verifC14Log{Log: logx.NOP, hook: hook})
	return s
}

// VerifC14TableRaw / VerifC14EntryRaw read the table WITHOUT taking the lock: for the harness
// while it has parked a goroutine inside the write-locked section (point 3; nothing else runs).
func VerifC14TableRaw(s *Session) []uint16 {
	r := make([]uint16, 0, len(s.jobs))
	for k := range s.jobs {
		r = append(r, k)
	}
	sort.Slice(r, func(i, j int) bool { return r[i] < r[j] })
	return r
}
func VerifC14EntryRaw(s *Session, i uint16) *Job { return s.jobs[i] }

// ---- fragmented results: the real receive() on the server-side session ------------------------
// verifC14SyncMux runs an event at once on the calling goroutine (what the Server event thread
// does later): a completed fragment group reaches Session.handle synchronously.
type verifC14SyncMux struct{ n int32 }

func (m *verifC14SyncMux) close()     {}
func (m *verifC14SyncMux) count() int { return int(atomic.LoadInt32(&m.n)) }
func (m *verifC14SyncMux) queue(e event) {
	atomic.AddInt32(&m.n, 1)
	e.process(cout.Log{})
}

// VerifC14SessionSync is VerifC14Session whose events are processed synchronously.
func VerifC14SessionSync() *Session {
	s := VerifC14Session()
	s.m = &verifC14SyncMux{}
	return s
}

// VerifC14Receive hands a packet to receive() exactly as Listener.talk does for a known session.
func VerifC14Receive(s *Session, n *com.Packet) error { return receive(s, s.parent, n) }
