//go:build verif

package data

// VerifChunkCap exposes cap(c.buf): the capacity Go's allocator really returned is an input
// (oracle) of the Gallina model of Chunk.grow.
func VerifChunkCap(c *Chunk) int { return cap(c.buf) }

// VerifChunkNil reports c.buf == nil (Read behaves differently on a never-written Chunk).
func VerifChunkNil(c *Chunk) bool { return c.buf == nil }

// VerifChunkRpos exposes the read cursor.
func VerifChunkRpos(c *Chunk) int { return c.rpos }
