//go:build verif

package c2

import (
	"context"
	"time"

	"github.com/PurpleSec/logx"
	"github.com/iDigitalFlame/xmt/c2/cfg"
	"github.com/iDigitalFlame/xmt/c2/cout"
	"github.com/iDigitalFlame/xmt/c2/task"
	"github.com/iDigitalFlame/xmt/com"
	"github.com/iDigitalFlame/xmt/data"
	"github.com/iDigitalFlame/xmt/util"
)

// Shim for property C19 (sleep / jitter / kill date).  ADDED to package c2 through `go build
// -overlay`.  The check also overlays DERIVED copies of session.go and c2.go (the current /repo
// files) in which exactly these call patterns are textually redirected to the hooks below:
//
//	session.go, c2.go:  time.Now()  (every one that is not `time.Now().Add(` = a socket deadline)  ->  verifC19Clock()
//	session.go:         util.FastRandN(            ->  verifC19RandN(
//	session.go:         util.Rand.Int63n(          ->  verifC19Int63n(
//	session.go:         s.tick.Reset(w)            ->  verifC19Reset(s, w)
//	c2.go:              time.Sleep(v)              ->  verifC19Sleep(s, v)
//
// With no hooks installed every function below is the call it replaced.

// VerifC19Hooks is the set of injected sources.  A nil field means "the real thing".
type VerifC19Hooks struct {
	// Now is the clock of the kill-date checks in (*Session).wait and connectContextInner.
	Now func() time.Time
	// RandN replaces util.FastRandN (jitter gate: n = 100, sign: n = 2).
	RandN func(n int) uint32
	// Int63n replaces util.Rand.Int63n (jitter amount in ms).
	Int63n func(n int64) int64
	// Reset is told the duration wait() arms its timer with (work-hours wait or the sleep) and
	// returns the REAL duration to arm the ticker with instead; 0 = do not wait at all (the
	// wake channel is filled so that the select returns at once).
	Reset func(s *Session, w time.Duration) time.Duration
	// Sleep replaces the work-hours time.Sleep of connectContextInner.
	Sleep func(s *Session, d time.Duration)
}

var verifC19H *VerifC19Hooks

// VerifC19Set installs (nil removes) the hooks.
func VerifC19Set(h *VerifC19Hooks) { verifC19H = h }

func verifC19Clock() time.Time {
	if h := verifC19H; h != nil && h.Now != nil {
		return h.Now()
	}
	return time.Now()
}
func verifC19RandN(n int) uint32 {
	if h := verifC19H; h != nil && h.RandN != nil {
		return h.RandN(n)
	}
	return util.FastRandN(n)
}
func verifC19Int63n(n int64) int64 {
	if h := verifC19H; h != nil && h.Int63n != nil {
		return h.Int63n(n)
	}
	return util.Rand.Int63n(n)
}
func verifC19Reset(s *Session, w time.Duration) {
	if h := verifC19H; h != nil && h.Reset != nil {
		r := h.Reset(s, w)
		if r <= 0 {
			select {
			case s.wake <- struct{}{}:
			default:
			}
			r = time.Hour
		}
		s.tick.Reset(r)
		return
	}
	s.tick.Reset(w)
}
func verifC19Sleep(s *Session, d time.Duration) {
	if h := verifC19H; h != nil && h.Sleep != nil {
		h.Sleep(s, d)
		return
	}
	time.Sleep(d)
}

// VerifC19Closing reports the closing bit of the state word.
func VerifC19Closing(s *Session) bool { return s.state.Closing() }

// VerifC19CloseNoWait is Session.Close without waiting for the listen loop to end
// (the unexported close(false)).
func VerifC19CloseNoWait(s *Session) { s.close(false) }

// VerifC19Waiter builds a bare client-side Session (no network) on which wait() can be called.
func VerifC19Waiter() *Session {
	s := &Session{wake: make(chan struct{}, 1), tick: newSleeper(time.Hour)}
	s.ctx, s.log = context.Background(), cout.New(logx.NOP)
	return s
}

// VerifC19Wait runs the real (*Session).wait once with the given settings on a Session made by
// VerifC19Waiter (closing0 = the closing bit is already set) and reports the closing bit afterwards.  A panic of wait() is returned.
func VerifC19Wait(s *Session, sleep time.Duration, jitter uint8, kill time.Time, work *cfg.WorkHours, closing0 bool) (closing bool, pan interface{}) {
	s.sleep, s.jitter, s.kill, s.work = sleep, jitter, kill, work
	if s.state = 0; closing0 {
		s.state.Set(stateClosing)
	}
	for len(s.wake) > 0 {
		<-s.wake
	}
	defer func() {
		pan = recover()
		closing = s.state.Closing()
	}()
	s.wait()
	return
}

// VerifC19TickerResetPanics reports whether the Session's real timer refuses the duration d
// (time.Ticker.Reset panics on a non-positive interval).
func VerifC19TickerResetPanics(s *Session, d time.Duration) (p bool) {
	defer func() {
		if recover() != nil {
			p = true
		}
		s.tick.Reset(time.Hour)
	}()
	s.tick.Reset(d)
	return false
}

// VerifC19SetSwap stores a Profile in s.swap exactly as the MvProfile handler does (mux.go:
// `s.swap = p`): the next pass of the listen loop performs the swap.  Call it from the listen
// goroutine (inside Connect) only.
func VerifC19SetSwap(s *Session, p cfg.Profile) { s.swap = p }

// VerifC19Settings reads the timing values the Session runs with.
func VerifC19Settings(s *Session) (sleep time.Duration, jitter uint8, kill time.Time, work *cfg.WorkHours) {
	return s.sleep, s.jitter, s.kill, s.work
}

// VerifC19SyncInfo returns the `infoSync` block a parent Session with these timing values hands to
// the process it spawns (the real writeDeviceInfo).
func VerifC19SyncInfo(sleep time.Duration, jitter uint8, kill time.Time, work *cfg.WorkHours) (*data.Chunk, error) {
	var (
		p = &Session{sleep: sleep, jitter: jitter, kill: kill, work: work}
		b data.Chunk
	)
	if err := p.writeDeviceInfo(infoSync, &b); err != nil {
		return nil, err
	}
	return &b, nil
}

// VerifC19ConnectInner is connectContextInner: with r == nil what ConnectContext does, with r an
// infoSync block what LoadContext does for a spawned client (job id 0).
func VerifC19ConnectInner(x context.Context, r data.Reader, l logx.Log, p cfg.Profile) (*Session, error) {
	return connectContextInner(x, r, l, p)
}

// VerifC19MvTimeKill feeds the client-side handler of a runtime kill-date update
// (muxHandleInternal, MvTime / timeKillDate, value = Unix seconds, 0 = clear) and returns the
// kill date the Session stores afterwards.
func VerifC19MvTimeKill(s *Session, u int64) (time.Time, error) {
	n := &com.Packet{ID: task.MvTime, Device: s.ID}
	n.WriteUint8(timeKillDate)
	n.WriteInt64(u)
	var w data.Chunk
	err := muxHandleInternal(s, n, &w)
	return s.kill, err
}

// VerifC19SetKill presets the kill date of a Session made by VerifC19Waiter.
func VerifC19SetKill(s *Session, k time.Time) { s.kill = k }

// VerifC19KeepSettings: like VerifC19Wait but with the Session's current kill date.
func VerifC19WaitKeepKill(s *Session, sleep time.Duration) (closing bool, pan interface{}) {
	return VerifC19Wait(s, sleep, 0, s.kill, nil, false)
}
