//go:build verif

package data

// VerifSetShare sets the unexported shared-secret array of a KeyPair (C12 harness: the
// migration hand-off carries it).
func VerifSetShare(k *KeyPair, s SharedKeys) { k.share = s }
