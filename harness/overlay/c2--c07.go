//go:build verif

package c2

import (
	"net"

	"github.com/iDigitalFlame/xmt/c2/cfg"
	"github.com/iDigitalFlame/xmt/com"
	"github.com/iDigitalFlame/xmt/data"
)

// Shim for property C07: the unexported send and receive paths, unchanged.

// VerifC07WritePacket is writePacket.
func VerifC07WritePacket(c net.Conn, w cfg.Wrapper, t cfg.Transform, n *com.Packet) error {
	return writePacket(c, w, t, n)
}

// VerifC07ReadPacket is readPacket.
func VerifC07ReadPacket(c net.Conn, w cfg.Wrapper, t cfg.Transform) (*com.Packet, error) {
	return readPacket(c, w, t)
}

// VerifC07PoolProbe takes n Chunks from the buffers pool (sync.Pool.Get: pooled ones first, then
// new ones), reports their sizes and puts them back so that the pool hands them out in the same
// order again (the first one taken is put first: it goes back to the private slot, the others are
// pushed so that the second one taken is on top).  With clean set, a non-empty Chunk is cleared
// before it goes back (the harness does that at the end of a history so that a defect seen in one
// history does not spill into the cases that follow).  Nothing in readPacket/writePacket changes.
func VerifC07PoolProbe(n int, clean bool) []int {
	var (
		c = make([]*data.Chunk, n)
		s = make([]int, n)
	)
	for i := range c {
		c[i] = buffers.Get().(*data.Chunk)
		s[i] = c[i].Size()
		if clean && s[i] > 0 {
			c[i].Clear()
		}
	}
	if n > 0 {
		buffers.Put(c[0])
	}
	for i := n - 1; i >= 1; i-- {
		buffers.Put(c[i])
	}
	return s
}
