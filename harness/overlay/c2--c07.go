//go:build verif

package c2

import (
	"net"

	"github.com/iDigitalFlame/xmt/c2/cfg"
	"github.com/iDigitalFlame/xmt/com"
)

// Shim for property C07: the unexported send and receive paths, unchanged.

// VerifC07WritePacket is writePacket.
func VerifC07WritePacket(c net.Conn, w cfg.Wrapper, t cfg.Transform, n *com.Packet) error {
	return writePacket(c, w, t, n)
}

// VerifC07ReadPacket is readPacket.
func VerifC07ReadPacket(c net.Conn, w cfg.Wrapper, t cfg.Transform) (*com.Packet, error) {
	return readPacket(c, w, t)
}
