//go:build verif

package c2

// C06 shim: builds a bare client Session and a bare Listener (no sockets, no goroutines) and
// exposes the REAL key functions and the REAL session()/handle() bodies to the harness.
// Nothing here changes behaviour; every function only constructs, calls or reads.

import (
	"context"
	"fmt"
	"net"
	"sync"
	"time"

	"github.com/iDigitalFlame/xmt/c2/cfg"
	"github.com/iDigitalFlame/xmt/com"
	"github.com/iDigitalFlame/xmt/data"
	"github.com/iDigitalFlame/xmt/device"
	"github.com/iDigitalFlame/xmt/device/local"
	"github.com/iDigitalFlame/xmt/util"
	"github.com/iDigitalFlame/xmt/util/xerr"
)

// VerifC06Mux is a messager that records the payload each handler would have seen.
type VerifC06Mux struct {
	lock sync.Mutex
	Got  [][]byte
	IDs  []uint8
}

func (*VerifC06Mux) close()     {}
func (*VerifC06Mux) count() int { return 0 }
func (m *VerifC06Mux) queue(e event) {
	if e.p == nil {
		return
	}
	m.lock.Lock()
	m.Got = append(m.Got, append([]byte(nil), e.p.Payload()...))
	m.IDs = append(m.IDs, e.p.ID)
	m.lock.Unlock()
}

// VerifC06Take returns and clears what was delivered so far.
func (m *VerifC06Mux) VerifC06Take() ([][]byte, []uint8) {
	m.lock.Lock()
	g, i := m.Got, m.IDs
	m.Got, m.IDs = nil, nil
	m.lock.Unlock()
	return g, i
}

// VerifC06Client makes the Session value connectContextInner builds before it talks.
func VerifC06Client(id device.ID, m *VerifC06Mux) *Session {
	s := &Session{ID: id, Device: local.Device.Machine}
	s.Device.ID = id
	s.wake, s.ch = make(chan struct{}, 1), make(chan struct{})
	s.frags, s.m = make(map[uint16]*cluster), m
	s.send = make(chan *com.Packet, 128)
	return s
}

// VerifC06Listener makes a Listener bound to a Server that only has its session table and keys.
func VerifC06Listener(k data.KeyPair, m *VerifC06Mux) *Listener {
	srv := &Server{sessions: make(map[uint32]*Session), Keys: k}
	l := &Listener{name: "verif", ch: make(chan struct{})}
	l.connection = connection{s: srv, m: m}
	return l
}

// VerifC06SetServerKeys replaces the server key pair (a restarted server).
func VerifC06SetServerKeys(l *Listener, k data.KeyPair) { l.s.Keys = k }

// VerifC06Forget drops every session the server knows (restart / expiry).
func VerifC06Forget(l *Listener) {
	l.s.lock.Lock()
	for i := range l.s.sessions {
		delete(l.s.sessions, i)
	}
	l.s.lock.Unlock()
}

// VerifC06ServerSession is the server-side Session of a device (nil if not registered).
func VerifC06ServerSession(l *Listener, id device.ID) *Session {
	l.s.lock.RLock()
	s := l.s.sessions[id.Hash()]
	l.s.lock.RUnlock()
	return s
}

// VerifC06Hello runs the key steps of connectContextInner in its order over the given conn:
// hello Packet with device info, keySessionGenerate, write (NOT encrypted), read, SvComplete
// check, keySessionSync.
func VerifC06Hello(s *Session, c net.Conn) error {
	n := &com.Packet{ID: SvHello, Device: s.ID, Job: uint16(util.FastRand())}
	s.writeDeviceInfo(infoHello, n)
	s.keySessionGenerate(n)
	if err := writePacket(c, s.w, s.t, n); err != nil {
		return xerr.Wrap("first Packet write", err)
	}
	v, err := readPacket(c, s.w, s.t)
	if n.Clear(); err != nil {
		return xerr.Wrap("first Packet read", err)
	}
	if v == nil || v.ID != SvComplete {
		return xerr.Sub("first Packet is invalid", 0x42)
	}
	err = s.keySessionSync(v)
	v.Clear()
	return err
}

// VerifC06Session is the real (*Session).session: one non-channel exchange.
func VerifC06Session(s *Session, c net.Conn) bool { return s.session(c) }

// VerifC06Handle is the real server-side handle() for one accepted connection.
func VerifC06Handle(l *Listener, c net.Conn) { handle(l.log, c, l, "verif") }

// VerifC06KeyNextSync forces the re-key roll: it calls the real keyNextSync until the
// 1-in-(50+d) draw succeeds (at most max tries) WHATEVER the state of the Session - the shim does
// not look at keysNext itself, so "the roll fires while a pair is still pending" is answered by
// keyNextSync's own guard; nil when no call ever returned an announcement.
func VerifC06KeyNextSync(s *Session, max int) *com.Packet {
	for i := 0; i < max; i++ {
		if n := s.keyNextSync(); n != nil {
			return n
		}
	}
	return nil
}

// VerifC06Queue puts a Packet on the Session's send queue exactly like pickWait()/queue() do.
func VerifC06Queue(s *Session, n *com.Packet) { s.send <- n }

// VerifC06QueueLen is len(s.send).
func VerifC06QueueLen(s *Session) int { return len(s.send) }

// VerifC06Keys reads the key state of a Session.
func VerifC06Keys(s *Session) (pub data.PublicKey, priv data.PrivateKey, share data.SharedKeys, next *data.KeyPair) {
	return s.keys.Public, s.keys.Private, s.keys.Shared(), s.keysNext
}

// Direct calls of the key functions (used by the function-level cases).
func VerifC06KeyCheckSync(s *Session) error                  { return s.keyCheckSync() }
func VerifC06KeyCheckRevert(s *Session)                      { s.keyCheckRevert() }
func VerifC06KeySessionGenerate(s *Session, n *com.Packet)   { s.keySessionGenerate(n) }
func VerifC06KeySessionSync(s *Session, n *com.Packet) error { return s.keySessionSync(n) }
func VerifC06KeyCryptAndUpdate(s *Session, n *com.Packet, d bool) error {
	return s.keyCryptAndUpdate("verif", n, d)
}
func VerifC06KeyListenerInit(s *Session, k data.PrivateKey, n *com.Packet) error {
	return s.keyListenerInit(k, "verif", n)
}

// ---- channel mode: the real loops run on both ends (client session() -> channelRead/channelWrite,
// server handle() -> conn.start -> channelRead/channelWrite); the shim only switches the client's
// wish for a channel on and off and lets the harness look at the state.

// VerifC06ChannelWanted sets what Session.SetChannel(true/false) sets on the client - the
// stateChannelValue bit, so that session() puts FlagChannel on the NEXT Packet whatever it is - without
// queueing SetChannel's own Packet; while the channel is wanted the client sleeps one hour between
// keep-alives (pickWait then only fires when the harness wakes the Session: one idle tick per wake).
func VerifC06ChannelWanted(s *Session, on bool) {
	if on {
		s.state.Set(stateChannelValue)
		s.sleep = time.Hour
		return
	}
	s.state.Unset(stateChannelValue)
	s.state.Unset(stateChannelUpdated)
	s.sleep = 0
}

// VerifC06InChannel is state.Channel() of a Session.
func VerifC06InChannel(s *Session) bool { return s.state.Channel() }

// VerifC06Count is the number of events the handler has recorded and not yet handed out.
func (m *VerifC06Mux) VerifC06Count() int {
	m.lock.Lock()
	defer m.lock.Unlock()
	return len(m.Got)
}

// VerifC06PickObs calls the REAL pick(i) repeatedly in one fixed situation and classifies what
// comes out: 0 the queued Packet, 1 nil, 2 a Packet carrying key material shows up within max
// calls (the re-key is cancelled again with keyCheckRevert), 3 only empty Packets.
// A server Session in a channel with an empty queue blocks in pick(): it is woken first.
func VerifC06PickObs(s *Session, queued, channel, i bool, max int) int {
	if channel {
		s.state.Set(stateChannel)
		defer s.state.Unset(stateChannel)
	}
	var m *com.Packet
	if queued {
		m = &com.Packet{ID: 0xC7, Device: s.ID}
		s.send <- m
	}
	for k := 0; k < max; k++ {
		if !queued && !s.IsClient() && channel {
			select {
			case s.wake <- struct{}{}:
			default:
			}
		}
		n := s.pick(i)
		switch {
		case n == nil:
			return 1
		case n == m:
			return 0
		case n.Flags&com.FlagCrypt != 0:
			s.keyCheckRevert()
			return 2
		}
	}
	return 3
}

// VerifC06Loop is a handle on a running (*Session).listen goroutine.
type VerifC06Loop struct {
	Done chan struct{} // closed when listen() has returned
	lock sync.Mutex
	pan  string
}

// VerifC06LoopPanic is the panic that ended listen(), if any.
func (v *VerifC06Loop) VerifC06LoopPanic() string {
	v.lock.Lock()
	defer v.lock.Unlock()
	return v.pan
}

// VerifC06Listen starts the REAL (*Session).listen - the loop that connects, calls session(), counts
// errors and goes round - on the bare client Session with the given Profile (its Connect hands out the
// harness connections one at a time; sleep is 0 so wait() returns at once).  listen() ends through its
// own "too many errors" exit once the Profile's Connect only fails.
func VerifC06Listen(s *Session, p cfg.Profile) *VerifC06Loop {
	v := &VerifC06Loop{Done: make(chan struct{})}
	s.p, s.ctx = p, context.Background()
	go func() {
		defer func() {
			if x := recover(); x != nil {
				v.lock.Lock()
				v.pan = fmt.Sprint(x)
				v.lock.Unlock()
			}
			close(v.Done)
		}()
		s.listen()
	}()
	return v
}

// VerifC06Errors is the consecutive-error counter of listen() (0 after an exchange that session() reported complete).
func VerifC06Errors(s *Session) int { return int(s.errors) }

// VerifC06Synced is keys.IsSynced() of a Session.
func (s *Session) VerifC06Synced() bool { return s.keys.IsSynced() }

// ---- migration: the old process marks the Session as moving and marshals it (keys included) for the
// new process, which reads it back; the exchange thread of the old process keeps running in between.

// VerifC06MoveStart does what Migrate does before it waits for the new process: stateMoving and the
// real writeDeviceInfo(infoMigrate) into a buffer (returned).
func VerifC06MoveStart(s *Session) ([]byte, error) {
	s.state.Set(stateMoving)
	var c data.Chunk
	if err := s.writeDeviceInfo(infoMigrate, &c); err != nil {
		return nil, err
	}
	return append([]byte(nil), c.Payload()...), nil
}

// VerifC06TakeOver is the new process: a bare client Session filled by the real
// readDeviceInfo(infoMigrate) from what the old process marshalled.
func VerifC06TakeOver(id device.ID, m *VerifC06Mux, b []byte) (*Session, error) {
	s := VerifC06Client(id, m)
	c := data.NewChunk(append([]byte(nil), b...))
	_, err := s.readDeviceInfo(infoMigrate, c)
	return s, err
}

// VerifC06RollObs forces the re-key roll of keyNextSync in one fixed situation (a pair pending or
// not, moving or not; client or server is the Session given) and reports whether an announcement ever
// came out within max calls; the Session is left as it was.
func VerifC06RollObs(s *Session, pending, moving bool, max int) bool {
	old := s.keysNext
	if pending {
		s.keysNext = &data.KeyPair{}
	} else {
		s.keysNext = nil
	}
	was := s.state.Moving()
	if moving {
		s.state.Set(stateMoving)
	} else {
		s.state.Unset(stateMoving)
	}
	drew := false
	for i := 0; i < max && !drew; i++ {
		drew = s.keyNextSync() != nil
	}
	s.keysNext = old
	if was {
		s.state.Set(stateMoving)
	} else {
		s.state.Unset(stateMoving)
	}
	return drew
}
