//go:build verif

package man

// Shim for property C18 (launcher descriptions).  It is ADDED to package man through
// `go build -overlay` and only reads the unexported path list of a Sentinel, so that the
// harness can compare a decoded launcher description with the one that was encoded.
// Descriptions are BUILT through the public API only (AddExecute, AddDLL, AddASM,
// AddDownload, AddZombie and the embedded filter.Filter).

// VerifPath is one launcher path as stored in a Sentinel.
type VerifPath struct {
	Path  string
	Extra []string
	T     uint8
}

// VerifSentinelPaths returns a copy of the path list of s.
func VerifSentinelPaths(s *Sentinel) []VerifPath {
	if s == nil || s.paths == nil {
		return nil
	}
	r := make([]VerifPath, len(s.paths))
	for i := range s.paths {
		r[i] = VerifPath{Path: s.paths[i].path, Extra: s.paths[i].extra, T: s.paths[i].t}
	}
	return r
}

// VerifSentinelCount returns len(s.paths) without copying.
func VerifSentinelCount(s *Sentinel) int { return len(s.paths) }
