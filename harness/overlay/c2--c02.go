//go:build verif

package c2

// Verification shim for property C02 (fragmentation / reassembly).  ADDED to package c2 through
// `go build -overlay` only; never part of /repo.  It only constructs Sessions without a network
// and calls / reads unexported items: (*Session).write, receive, markSweepFrags, Session.send,
// Session.frags, cluster fields.

import (
	"context"
	"fmt"
	"sort"
	"sync"

	"github.com/PurpleSec/logx"
	"github.com/iDigitalFlame/xmt/c2/cfg"
	"github.com/iDigitalFlame/xmt/c2/cout"
	"github.com/iDigitalFlame/xmt/com"
	"github.com/iDigitalFlame/xmt/device"
)

// verifC02Mux records the events a Session hands to its mux (connection.m).
type verifC02Mux struct{ evs []event }

func (m *verifC02Mux) close()        {}
func (m *verifC02Mux) count() int    { return len(m.evs) }
func (m *verifC02Mux) queue(e event) { m.evs = append(m.evs, e) }

// VerifC02Session is a Session that is not connected to anything.
type VerifC02Session struct {
	S *Session
	m *verifC02Mux
}

// VerifC02NewSession builds a bare Session with the given id.  server == true gives a
// listener-side Session (parent set, as created by Listener.talk), otherwise a client Session.
// The send channel has the capacity every constructor in c2 uses (128).
func VerifC02NewSession(id device.ID, server bool) *VerifC02Session {
	m := &verifC02Mux{}
	s := &Session{ID: id, send: make(chan *com.Packet, 128), frags: make(map[uint16]*cluster)}
	s.m = m
	s.Device.ID = id
	if server {
		s.parent = new(Listener)
	}
	return &VerifC02Session{S: s, m: m}
}

// Write calls the real (*Session).write.
func (v *VerifC02Session) Write(wait bool, n *com.Packet) error { return v.S.write(wait, n) }

// Prefill puts k packets directly into the send channel (a busy session).
func (v *VerifC02Session) Prefill(k int) {
	for i := 0; i < k; i++ {
		v.S.send <- &com.Packet{ID: 0x7, Device: v.S.ID}
	}
}

// SendCap / SendLen describe the send channel.
func (v *VerifC02Session) SendCap() int { return cap(v.S.send) }
func (v *VerifC02Session) SendLen() int { return len(v.S.send) }

// DrainSend takes everything that is queued for sending, in order.
func (v *VerifC02Session) DrainSend() []*com.Packet {
	var r []*com.Packet
	for {
		select {
		case p, ok := <-v.S.send:
			if !ok { // closed by shutdown() once listen() has ended
				return r
			}
			r = append(r, p)
		default:
			return r
		}
	}
}

// Receive calls the real receive(s, nil, n).
func (v *VerifC02Session) Receive(n *com.Packet) error { return receive(v.S, nil, n) }

// Sweep calls the real markSweepFrags.
func (v *VerifC02Session) Sweep() { v.S.markSweepFrags() }

// Events drains the packets queued to the mux since the last call.
func (v *VerifC02Session) Events() []*com.Packet {
	var r []*com.Packet
	for _, e := range v.m.evs {
		if e.p != nil {
			r = append(r, e.p)
		}
	}
	v.m.evs = nil
	return r
}

// VerifC02Cluster is the observable part of one reassembly cluster.
type VerifC02Cluster struct {
	Group, Max, E, C, N int
}

// Frags lists the reassembly state sorted by group id.
func (v *VerifC02Session) Frags() []VerifC02Cluster {
	r := make([]VerifC02Cluster, 0, len(v.S.frags))
	for g, c := range v.S.frags {
		if c == nil {
			r = append(r, VerifC02Cluster{Group: int(g), Max: -1, E: -1, C: -1, N: -1})
			continue
		}
		r = append(r, VerifC02Cluster{Group: int(g), Max: int(c.max), E: int(c.e), C: int(c.c), N: len(c.data)})
	}
	sort.Slice(r, func(i, j int) bool { return r[i].Group < r[j].Group })
	return r
}

// ---- the REAL (*Session).listen loop on a bare client Session -------------------------------

// VerifC02NewClient builds the client Session value the listen loop needs (no network): wake and
// done channels, a NOP log, sleep 0 (wait() returns at once).  The Profile is given to Listen.
func VerifC02NewClient(id device.ID) *VerifC02Session {
	v := VerifC02NewSession(id, false)
	v.S.wake, v.S.ch = make(chan struct{}, 1), make(chan struct{})
	v.S.log = cout.New(logx.NOP)
	return v
}

// VerifC02Loop is a handle on a running (*Session).listen goroutine.
type VerifC02Loop struct {
	Done chan struct{} // closed when listen() has returned
	lock sync.Mutex
	pan  string
}

// Panic is the panic that ended listen(), if any.
func (l *VerifC02Loop) Panic() string {
	l.lock.Lock()
	defer l.lock.Unlock()
	return l.pan
}

// Listen starts the real listen loop with the given Profile: every pass of the loop calls
// p.Switch and p.Connect, which is where the harness scripts refusals and connections.
func (v *VerifC02Session) Listen(p cfg.Profile) *VerifC02Loop {
	l := &VerifC02Loop{Done: make(chan struct{})}
	v.S.p, v.S.ctx = p, context.Background()
	go func() {
		defer func() {
			if x := recover(); x != nil {
				l.lock.Lock()
				l.pan = fmt.Sprint(x)
				l.lock.Unlock()
			}
			close(l.Done)
		}()
		v.S.listen()
	}()
	return l
}

// Errors is the consecutive-error counter of listen().  Only meaningful while the loop is parked
// inside the Profile's Connect.
func (v *VerifC02Session) Errors() int { return int(v.S.errors) }

// QueueFiller gives the client something to send in the next exchange, so that next() takes it from
// the queue instead of drawing a re-key announcement at random.
func (v *VerifC02Session) QueueFiller() { v.S.send <- &com.Packet{ID: 0x10, Device: v.S.ID} }

// VerifC02Pack builds a Multi container addressed to dev from the given packets with the real
// writeUnpack (the packing function of nextPacket); the packets are consumed.
func VerifC02Pack(dev device.ID, ps []*com.Packet) (*com.Packet, error) {
	m := &com.Packet{Device: dev, Flags: com.FlagMulti}
	for _, p := range ps {
		if err := writeUnpack(m, p, true, true); err != nil {
			return nil, err
		}
	}
	return m, nil
}
